import NomtModel.Store.ProbeInv
/-!
# An accepted `ht` image satisfies the invariant of the probing model

`wfTable` (`Store/ImgTable.lean`) is the monitor the driver evaluates on the real `ht` file of every
snapshot.  Here: if it accepts, then the decoded table `tableOfImage` — slots = the decoded meta
bytes, label of bucket `b` = the big-endian number in the last 32 bytes of `b`'s data page, hash =
seeded XXH3-64 of the 32-byte encoding of a label (`hashLabel`) — satisfies `Probe.Inv` and
`Probe.NoDup`, the hypotheses of the lookup theorems of `Store/ProbeInv.lean`.
-/
namespace Nomt.Store
open Nomt.Store.Probe

/-- page id label in the data page of bucket `b` of a table of `n` buckets -/
def labelAt (ht : ByteArray) (n b : Nat) : Nat :=
  beNat ht (numMetaBytePages n * PAGE + b * PAGE + PAGE - 32) 32

/-- the table of the probing model that an `ht` file with manifest `m` denotes -/
def tableOfImage (ht : ByteArray) (m : Meta) : Table :=
  { slots := match decodeMetaMap ht m.bitboxNumPages with
             | .ok s => s.toList
             | .error _ => []
    label := labelAt ht m.bitboxNumPages }

/-! ## meta bytes -/

theorem size_decodeSlotsGo (ht : ByteArray) : ∀ (fuel i : Nat) (out r : Array Slot),
    decodeSlotsGo ht fuel i out = .ok r → r.size = out.size + fuel := by
  intro fuel
  induction fuel with
  | zero => intro i out r h; simp [decodeSlotsGo] at h; subst h; rfl
  | succ f ih =>
    intro i out r h
    simp only [decodeSlotsGo] at h
    cases hd : decodeSlot (u8 ht i) with
    | none => rw [hd] at h; cases h
    | some s =>
      rw [hd] at h
      have := ih _ _ _ h
      rw [Array.size_push] at this
      omega

theorem size_decodeMetaMap {ht : ByteArray} {n : Nat} {s : Array Slot} (h : decodeMetaMap ht n = .ok s) :
    s.size = n := by
  unfold decodeMetaMap at h
  split at h
  · cases h
  · cases hg : decodeSlotsGo ht n 0 (Array.mkEmpty n) with
    | error e => rw [hg] at h; cases h
    | ok out =>
      rw [hg] at h
      cases hp : paddingZero ht n with
      | error e => rw [hp] at h; cases h
      | ok u =>
        rw [hp] at h
        have e : out = s := by injection h
        subst e
        have := size_decodeSlotsGo ht _ _ _ _ hg
        simpa using this

theorem slotOf_eq_slotAt (slots : Array Slot) (b : Nat) : slotOf slots b = slotAt slots.toList b := by
  unfold slotOf slotAt
  rw [Array.getElem?_toList]

/-! ## the hash is a 64-bit number -/

theorem avalanche_lt (x : Nat) : avalanche x < 2 ^ 64 := by
  unfold avalanche
  have h1 : (Nat.xor x (x / 2 ^ 37)) * PRIME_MX1 % M64 < 2 ^ 64 := Nat.mod_lt _ (by decide)
  have h2 : (Nat.xor x (x / 2 ^ 37)) * PRIME_MX1 % M64 / 2 ^ 32 < 2 ^ 64 :=
    Nat.lt_of_le_of_lt (Nat.div_le_self _ _) h1
  exact Nat.xor_lt_two_pow h1 h2

theorem hashLabel_lt (seed l : Nat) : hashLabel seed l < 2 ^ 64 := avalanche_lt _

theorem tagOf_hashLabel (seed l : Nat) : tagOf (hashLabel seed l) = hashLabel seed l / 2 ^ 57 := by
  unfold tagOf
  apply Nat.mod_eq_of_lt
  have := hashLabel_lt seed l
  omega

/-! ## the probe check -/

theorem probeReachesGo_ok (slots : Array Slot) (n h target : Nat) : ∀ (fuel b step : Nat),
    (b + step) % n = pos h n step → probeReachesGo slots n target fuel b step = .ok () →
    ∃ k, step ≤ k ∧ k < step + fuel ∧ pos h n k = target ∧
      ∀ j, step ≤ j → j < k → slotOf slots (pos h n j) ≠ .empty := by
  intro fuel
  induction fuel with
  | zero => intro b step _ e; simp [probeReachesGo] at e
  | succ f ih =>
    intro b step hb e
    simp only [probeReachesGo] at e
    rw [hb] at e
    by_cases ht : pos h n step = target
    · exact ⟨step, Nat.le_refl _, by omega, ht, by intro j a c; omega⟩
    · have ht' : (pos h n step == target) = false := by simpa using ht
      rw [ht'] at e
      simp only [Bool.false_eq_true, if_false] at e
      by_cases hem : slotOf slots (pos h n step) = .empty
      · rw [hem] at e; simp at e
      · have hem' : (slotOf slots (pos h n step) == Slot.empty) = false := by simpa using hem
        rw [hem'] at e
        simp only [Bool.false_eq_true, if_false] at e
        have hok : PS.Ok h n { hash := h, bucket := b, step := step } := ⟨rfl, hb⟩
        have hnext := (PS.ok_step hok).2
        simp only at hnext
        rw [hb] at hnext
        obtain ⟨k, k1, k2, k3, k4⟩ := ih _ _ hnext e
        refine ⟨k, by omega, by omega, k3, ?_⟩
        intro j j1 j2
        by_cases hj : j = step
        · rw [hj]; exact hem
        · exact k4 j (by omega) j2

theorem probeReaches_ok {slots : Array Slot} {n h target : Nat} (e : probeReaches slots n h target = .ok ()) :
    ∃ k, k ≤ 2 * n ∧ pos h n k = target ∧ ∀ j, j < k → slotOf slots (pos h n j) ≠ .empty := by
  unfold probeReaches at e
  obtain ⟨k, _, k2, k3, k4⟩ := probeReachesGo_ok slots n h target _ _ _ (by simp [pos, tri]) e
  exact ⟨k, by omega, k3, fun j hj => k4 j (Nat.zero_le _) hj⟩

/-! ## one bucket -/

theorem label_decodeMerklePage {ht : ByteArray} {off bucket : Nat} {pg : MerklePage}
    (h : decodeMerklePage ht off bucket = some pg) : pg.label = beNat ht (off + PAGE - 32) 32 := by
  unfold decodeMerklePage at h
  split at h
  · cases h
  · simp only at h
    split at h
    · cases h
    · injection h with h; rw [← h]

/-- what `checkBucket` establishes for bucket `i` with meta tag `tag` -/
def BucketOK (ht : ByteArray) (slots : Array Slot) (n seed i tag : Nat) : Prop :=
  tag = tagOf (hashLabel seed (labelAt ht n i)) ∧
  ∃ k, k ≤ 2 * n ∧ pos (hashLabel seed (labelAt ht n i)) n k = i ∧
    ∀ j, j < k → slotOf slots (pos (hashLabel seed (labelAt ht n i)) n j) ≠ .empty

theorem checkBucket_ok {ht : ByteArray} {slots : Array Slot} {n seed i tag : Nat} {pg : MerklePage}
    (h : checkBucket ht slots n (numMetaBytePages n * PAGE) seed i tag = .ok pg) :
    pg.label = labelAt ht n i ∧ BucketOK ht slots n seed i tag := by
  unfold checkBucket at h
  cases hd : decodeMerklePage ht (numMetaBytePages n * PAGE + i * PAGE) i with
  | none => rw [hd] at h; cases h
  | some pg' =>
    rw [hd] at h
    simp only at h
    have hl : pg'.label = labelAt ht n i := label_decodeMerklePage hd
    rw [hl] at h
    split at h
    · cases h
    · rename_i hne
      have heq : xxh3_32 ht (numMetaBytePages n * PAGE + i * PAGE + PAGE - 32) seed = hashLabel seed (labelAt ht n i) := by
        simpa using hne
      rw [heq] at h
      split at h
      · cases h
      · rename_i htag
        have htag' : hashLabel seed (labelAt ht n i) / 2 ^ 57 = tag := by simpa using htag
        cases hp : probeReaches slots n (hashLabel seed (labelAt ht n i)) i with
        | error e => rw [hp] at h; cases h
        | ok u =>
          rw [hp] at h
          have e : pg' = pg := by injection h
          subst e
          refine ⟨hl, ?_, probeReaches_ok hp⟩
          rw [tagOf_hashLabel]; exact htag'.symm

/-! ## all buckets -/

theorem wfTableGo_ok (ht : ByteArray) (slots : Array Slot) (n seed : Nat) : ∀ (fuel i : Nat)
    (pages : Array MerklePage) (tomb : Nat) (pages' : Array MerklePage) (tomb' : Nat),
    i + fuel = slots.size →
    wfTableGo ht slots n (numMetaBytePages n * PAGE) seed fuel i pages tomb = .ok (pages', tomb') →
    (∀ b tag, i ≤ b → slotOf slots b = .full tag → BucketOK ht slots n seed b tag) ∧
    pages'.toList.map (·.label) =
      pages.toList.map (·.label) ++ labelsFrom (labelAt ht n) (slots.toList.drop i) i := by
  intro fuel
  induction fuel with
  | zero =>
    intro i pages tomb pages' tomb' hsz h
    simp only [wfTableGo] at h
    injection h with h
    injection h with h1 h2
    subst h1
    constructor
    · intro b tag hb hs
      exfalso
      have : slotOf slots b = .empty := by
        unfold slotOf
        rw [Array.getElem?_eq_none (by omega)]; rfl
      rw [this] at hs; cases hs
    · have : slots.toList.drop i = [] := List.drop_eq_nil_of_le (by simp; omega)
      rw [this]; simp [labelsFrom]
  | succ f ih =>
    intro i pages tomb pages' tomb' hsz h
    have hi : i < slots.toList.length := by simp; omega
    have hdrop := List.drop_eq_getElem_cons hi
    have hsl : slotOf slots i = slots.toList[i] := by
      rw [slotOf_eq_slotAt]; unfold slotAt
      rw [List.getElem?_eq_getElem hi]; rfl
    simp only [wfTableGo] at h
    have lift : ∀ (pg2 : Array MerklePage) (t2 : Nat),
        wfTableGo ht slots n (numMetaBytePages n * PAGE) seed f (i + 1) pg2 t2 = .ok (pages', tomb') →
        (∀ tag, slotOf slots i = .full tag → BucketOK ht slots n seed i tag) →
        (∀ b tag, i ≤ b → slotOf slots b = .full tag → BucketOK ht slots n seed b tag) ∧
        pages'.toList.map (·.label) =
          pg2.toList.map (·.label) ++ labelsFrom (labelAt ht n) (slots.toList.drop (i + 1)) (i + 1) := by
      intro pg2 t2 h2 hhere
      obtain ⟨a, b⟩ := ih (i + 1) pg2 t2 pages' tomb' (by omega) h2
      refine ⟨?_, b⟩
      intro b' tag hb hs
      by_cases hb' : b' = i
      · subst hb'; exact hhere tag hs
      · exact a b' tag (by omega) hs
    cases hs : slotOf slots i with
    | empty =>
      rw [hs] at h
      obtain ⟨a, b⟩ := lift _ _ h (by intro tag e; rw [hs] at e; cases e)
      refine ⟨a, ?_⟩
      rw [b, hdrop, ← hsl, hs]; simp [labelsFrom, isFull]
    | tombstone =>
      rw [hs] at h
      obtain ⟨a, b⟩ := lift _ _ h (by intro tag e; rw [hs] at e; cases e)
      refine ⟨a, ?_⟩
      rw [b, hdrop, ← hsl, hs]; simp [labelsFrom, isFull]
    | full tag =>
      rw [hs] at h
      simp only at h
      cases hc : checkBucket ht slots n (numMetaBytePages n * PAGE) seed i tag with
      | error e => rw [hc] at h; cases h
      | ok pg =>
        rw [hc] at h
        obtain ⟨hl, hok⟩ := checkBucket_ok hc
        obtain ⟨a, b⟩ := lift _ _ h (by
          intro tag' e
          rw [hs] at e
          injection e with e
          subst e; exact hok)
        refine ⟨a, ?_⟩
        rw [b, hdrop, ← hsl, hs, Array.toList_push]
        simp [labelsFrom, isFull, hl]

/-! ## no duplicates -/

theorem nodup_of_firstAdjDup : ∀ (l : List Nat), l.Pairwise (fun a b => a ≤ b) → firstAdjDup l = none → l.Nodup := by
  intro l
  induction l with
  | nil => intro _ _; simp
  | cons a r ih =>
    intro hp hn
    cases r with
    | nil => simp
    | cons b r =>
      simp only [firstAdjDup] at hn
      by_cases hab : a = b
      · simp [hab] at hn
      · have hab' : (a == b) = false := by simpa using hab
        rw [hab'] at hn
        simp only [Bool.false_eq_true, if_false] at hn
        rw [List.pairwise_cons] at hp
        have hnd := ih hp.2 hn
        rw [List.nodup_cons]
        refine ⟨?_, hnd⟩
        intro hm
        rw [List.mem_cons] at hm
        rcases hm with e | hm
        · exact hab e
        · have h1 : a ≤ b := hp.1 b (List.mem_cons_self ..)
          have h2 := hp.2
          rw [List.pairwise_cons] at h2
          have h3 : b ≤ a := h2.1 a hm
          exact hab (Nat.le_antisymm h1 h3)

theorem inj_of_nodup_labelsFrom (label : Nat → Nat) : ∀ (m : List Slot) (off : Nat),
    (labelsFrom label m off).Nodup →
    ∀ i j, isFull (slotAt m i) = true → isFull (slotAt m j) = true → label (off + i) = label (off + j) → i = j := by
  intro m
  induction m with
  | nil => intro off _ i j fi; simp [slotAt, isFull] at fi
  | cons s m ih =>
    intro off hnd i j fi fj el
    have tailnd : (labelsFrom label m (off + 1)).Nodup := by
      by_cases h : isFull s = true
      · simp only [labelsFrom, h, if_true, List.nodup_cons] at hnd; exact hnd.2
      · simp only [labelsFrom, h] at hnd; exact hnd
    have headnot : ∀ x, isFull s = true → isFull (slotAt m x) = true → label (off + 1 + x) ≠ label off := by
      intro x h fx e
      simp only [labelsFrom, h, if_true, List.nodup_cons] at hnd
      exact hnd.1 ((mem_labelsFrom label m (off + 1) (label off)).mpr ⟨x, fx, e⟩)
    cases i with
    | zero =>
      cases j with
      | zero => rfl
      | succ j =>
        exfalso
        have f0 : isFull s = true := by simpa [slotAt] using fi
        have fj' : isFull (slotAt m j) = true := by simpa [slotAt] using fj
        apply headnot j f0 fj'
        rw [show off + 1 + j = off + (j + 1) by omega, ← el]; rfl
    | succ i =>
      cases j with
      | zero =>
        exfalso
        have f0 : isFull s = true := by simpa [slotAt] using fj
        have fi' : isFull (slotAt m i) = true := by simpa [slotAt] using fi
        apply headnot i f0 fi'
        rw [show off + 1 + i = off + (i + 1) by omega, el]; rfl
      | succ j =>
        have := ih (off + 1) tailnd i j (by simpa [slotAt] using fi) (by simpa [slotAt] using fj)
          (by rw [show off + 1 + i = off + (i + 1) by omega, show off + 1 + j = off + (j + 1) by omega]; exact el)
        omega

/-! ## the theorem -/

/-- **an accepted table satisfies the invariant**: if the monitor `wfTable` accepts the `ht` file,
the decoded table has as many slots as the manifest says, satisfies the reachability invariant for
the seeded XXH3 hash of labels, stores no label twice, and `full` counts its full buckets -/
theorem wfTable_inv {ht : ByteArray} {m : Meta} {seed : Nat} {st : TableStats}
    (h : wfTable ht m seed = .ok st) :
    (tableOfImage ht m).n = m.bitboxNumPages ∧ 0 < m.bitboxNumPages ∧
    Inv (hashLabel seed) (tableOfImage ht m) ∧ NoDup (tableOfImage ht m) ∧
    st.full = occupied (tableOfImage ht m) := by
  unfold wfTable at h
  simp only at h
  split at h
  · cases h
  · rename_i hn0
    have hn : 0 < m.bitboxNumPages := by
      have : ¬ m.bitboxNumPages = 0 := by simpa using hn0
      omega
    cases hd : decodeMetaMap ht m.bitboxNumPages with
    | error e => rw [hd] at h; cases h
    | ok slots =>
      rw [hd] at h
      simp only at h
      have hsize := size_decodeMetaMap hd
      cases hg : wfTableGo ht slots m.bitboxNumPages (numMetaBytePages m.bitboxNumPages * PAGE) seed
          m.bitboxNumPages 0 #[] 0 with
      | error e => rw [hg] at h; cases h
      | ok r =>
        obtain ⟨pages, tomb⟩ := r
        rw [hg] at h
        simp only at h
        obtain ⟨hbk, hlab⟩ := wfTableGo_ok ht slots _ seed _ _ _ _ _ _ (by omega) hg
        simp only [List.drop_zero, List.map_nil, List.nil_append] at hlab
        have hT : (tableOfImage ht m).slots = slots.toList := by simp [tableOfImage, hd]
        have hL : (tableOfImage ht m).label = labelAt ht m.bitboxNumPages := rfl
        have hTn : (tableOfImage ht m).n = m.bitboxNumPages := by
          show (tableOfImage ht m).slots.length = _
          rw [hT]; simpa using hsize
        split at h
        · cases h
        · rename_i hdup
          have hst : st = { full := pages.size, tomb := tomb, pages := pages } := by
            injection h with h; exact h.symm
          have hsorted : (List.mergeSort (pages.toList.map (·.label)) (fun a b => decide (a ≤ b))).Pairwise
              (fun a b => a ≤ b) := by
            have := List.pairwise_mergeSort (le := fun (a b : Nat) => decide (a ≤ b))
              (by intro a b c h1 h2; simp at *; omega) (by intro a b; simp; omega) (pages.toList.map (·.label))
            simpa using this
          have hnd : (pages.toList.map (·.label)).Nodup :=
            (List.mergeSort_perm _ _).nodup_iff.mp (nodup_of_firstAdjDup _ hsorted hdup)
          rw [hlab] at hnd
          refine ⟨hTn, hn, ?_, ?_, ?_⟩
          · intro b tg hs
            rw [hT, ← slotOf_eq_slotAt] at hs
            obtain ⟨h1, k, hk, hp, hne⟩ := hbk b tg (Nat.zero_le _) hs
            rw [hL, hTn]
            refine ⟨h1, k, hk, hp, ?_⟩
            intro j hj
            rw [hT, ← slotOf_eq_slotAt]; exact hne j hj
          · intro b1 b2 f1 f2 el
            rw [hT] at f1 f2
            rw [hL] at el
            exact inj_of_nodup_labelsFrom _ _ 0 hnd b1 b2 f1 f2 (by simpa using el)
          · rw [hst]
            show pages.size = occupied (tableOfImage ht m)
            unfold occupied
            rw [hT, ← length_labelsFrom (labelAt ht m.bitboxNumPages) slots.toList 0, ← hlab]
            simp

end Nomt.Store
