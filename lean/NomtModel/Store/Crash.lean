import NomtModel.Store.Disk
/-! Calibration of T4.1/T3.1: every crash image of every prefix of an accepted sync trace abstracts to
    the old or to the new state. (The rollback-log component is omitted here; it follows the same
    pattern as the WAL: appends beyond the live range pre-meta, destructive changes post-meta.) -/
namespace NomtDisk
variable {Content MetaRec WalRec LogRec TreeAbs : Type}

def lookupD (ds : List (Nat × Content)) (b : Nat) : Option Content :=
  match ds with
  | [] => none
  | (b', c) :: rest => if b' = b then some c else lookupD rest b

/-- what recovery reads, abstractly -/
structure Params (Content MetaRec WalRec TreeAbs : Type) where
  reach : MetaRec → File → Nat → Prop
  absTree : MetaRec → (File → Nat → Content) → TreeAbs
  frame : ∀ m p p', (∀ f pn, reach m f pn → p f pn = p' f pn) → absTree m p = absTree m p'
  reach_tree : ∀ m f pn, reach m f pn → f = File.fLn ∨ f = File.fBbn
  seqn : MetaRec → Nat
  walSeqn : WalRec → Nat
  walDiffs : WalRec → List (Nat × Content)

variable (P : Params Content MetaRec WalRec TreeAbs)

/-- hash-table bucket as seen after WAL redo (bitbox::recover) -/
def htView (d : Disk Content MetaRec WalRec LogRec) (b : Nat) : Content :=
  match d.wal with
  | some w =>
    if P.walSeqn w = P.seqn d.mt then
      match lookupD (P.walDiffs w) b with
      | some c => c
      | none => d.pages File.fHt b
    else d.pages File.fHt b
  | none => d.pages File.fHt b

/-- the abstract state recovery produces from an image -/
def absOf (d : Disk Content MetaRec WalRec LogRec) : TreeAbs × (Nat → Content) :=
  (P.absTree d.mt d.pages, htView P d)

/-! ## Phase A: before the meta write -/

section phaseA
variable (d0 : Disk Content MetaRec WalRec LogRec)

def AllowedPre : Eff Content MetaRec WalRec LogRec → Prop
  | .page f pn _ => (f = File.fLn ∨ f = File.fBbn) ∧ ¬ P.reach d0.mt f pn
  | .walSet (some w) => P.walSeqn w ≠ P.seqn d0.mt
  | .walSet none => False
  | .setMeta _ => False
  | .logSet _ => False

def GoodA (d : Disk Content MetaRec WalRec LogRec) : Prop :=
  d.mt = d0.mt ∧
  (∀ f pn, (P.reach d0.mt f pn ∨ f = File.fHt) → d.pages f pn = d0.pages f pn) ∧
  (d.wal = d0.wal ∨ ∃ w, d.wal = some w ∧ P.walSeqn w ≠ P.seqn d0.mt)

theorem goodA_applyEff (d : Disk Content MetaRec WalRec LogRec) (e : Eff Content MetaRec WalRec LogRec)
    (hg : GoodA P d0 d) (ha : AllowedPre P d0 e) : GoodA P d0 (applyEff d e) := by
  obtain ⟨hm, hp, hw⟩ := hg
  cases e with
  | page f pn c =>
    obtain ⟨hf, hr⟩ := ha
    refine ⟨hm, ?_, hw⟩
    intro f' pn' h
    simp only [applyEff]
    by_cases heq : f' = f ∧ pn' = pn
    · obtain ⟨rfl, rfl⟩ := heq
      rcases h with h | h
      · exact absurd h hr
      · rcases hf with hf | hf <;> rw [hf] at h <;> cases h
    · rw [if_neg heq]; exact hp f' pn' h
  | setMeta m => exact absurd ha (by simp [AllowedPre])
  | walSet w =>
    cases w with
    | none => exact absurd ha (by simp [AllowedPre])
    | some w => exact ⟨hm, hp, Or.inr ⟨w, rfl, ha⟩⟩
  | logSet l => exact absurd ha (by simp [AllowedPre])

theorem goodA_applyEffs (es : List (Eff Content MetaRec WalRec LogRec)) :
    ∀ (d : Disk Content MetaRec WalRec LogRec), GoodA P d0 d → (∀ e ∈ es, AllowedPre P d0 e) →
      GoodA P d0 (applyEffs d es) := by
  induction es with
  | nil => intro d hg _; exact hg
  | cons e es ih =>
    intro d hg ha
    simp only [applyEffs, List.foldl_cons]
    exact ih _ (goodA_applyEff P d0 d e hg (ha e (by simp))) (fun e' he' => ha e' (by simp [he']))

/-- images that are `GoodA` abstract to the old state, provided redo is inert on the old image
    (no WAL, a stale WAL, or an already-applied WAL) -/
theorem goodA_abs (hinert : ∀ b, htView P d0 b = d0.pages File.fHt b)
    (d : Disk Content MetaRec WalRec LogRec) (hg : GoodA P d0 d) : absOf P d = absOf P d0 := by
  obtain ⟨hm, hp, hw⟩ := hg
  have htree : P.absTree d.mt d.pages = P.absTree d0.mt d0.pages := by
    rw [hm]; exact P.frame _ _ _ (fun f pn h => hp f pn (Or.inl h))
  have hht : htView P d = htView P d0 := by
    funext b
    rw [hinert b]
    rcases hw with hw | ⟨w, hw, hne⟩
    · have := hinert b
      simp only [htView, hw, hm] at this ⊢
      rw [← hp File.fHt b (Or.inr rfl)] at this
      cases hwal : d0.wal with
      | none => rw [hwal] at this; simp [hp File.fHt b (Or.inr rfl)]
      | some w0 =>
        rw [hwal] at this
        simp only at this ⊢
        rw [this]
        exact hp File.fHt b (Or.inr rfl)
    · simp only [htView, hw, hm, hne, if_false]
      exact hp File.fHt b (Or.inr rfl)
  simp [absOf, htree, hht]

/-- execution invariant of phase A -/
def InvA (s : Exec Content MetaRec WalRec LogRec) : Prop :=
  GoodA P d0 s.dur ∧ ∀ e ∈ s.vol, AllowedPre P d0 e

def EvPre : Ev Content MetaRec WalRec LogRec → Prop
  | .eff e => AllowedPre P d0 e
  | .fsync _ => True

theorem invA_step (s : Exec Content MetaRec WalRec LogRec) (ev : Ev Content MetaRec WalRec LogRec)
    (hi : InvA P d0 s) (hev : EvPre P d0 ev) : InvA P d0 (step s ev) := by
  obtain ⟨hg, hv⟩ := hi
  cases ev with
  | eff e =>
    refine ⟨hg, ?_⟩
    intro e' he'
    simp only [step, List.mem_append, List.mem_singleton] at he'
    rcases he' with he' | rfl
    · exact hv e' he'
    · exact hev
  | fsync f =>
    refine ⟨?_, ?_⟩
    · exact goodA_applyEffs P d0 _ _ hg (fun e he => hv e (List.mem_filter.mp he).1)
    · intro e he; exact hv e (List.mem_filter.mp he).1

theorem invA_run (tr : List (Ev Content MetaRec WalRec LogRec)) :
    ∀ (s : Exec Content MetaRec WalRec LogRec), InvA P d0 s → (∀ ev ∈ tr, EvPre P d0 ev) →
      InvA P d0 (run s tr) := by
  induction tr with
  | nil => intro s hi _; exact hi
  | cons ev tr ih =>
    intro s hi hall
    simp only [run, List.foldl_cons]
    exact ih _ (invA_step P d0 s ev hi (hall ev (by simp))) (fun e he => hall e (by simp [he]))

/-- **Phase A**: any crash image taken while only pre-meta events have been issued abstracts to the old state -/
theorem phaseA_images (hinert : ∀ b, htView P d0 b = d0.pages File.fHt b)
    (s : Exec Content MetaRec WalRec LogRec) (hi : InvA P d0 s)
    (img : Disk Content MetaRec WalRec LogRec) (himg : IsImage s img) : absOf P img = absOf P d0 := by
  obtain ⟨sub, hsub, rfl⟩ := himg
  apply goodA_abs P d0 hinert
  exact goodA_applyEffs P d0 sub s.dur hi.1 (fun e he => hi.2 e (hsub.subset he))

end phaseA
end NomtDisk
