import NomtModel.Store.WalkerSimSafe
import NomtModel.Store.WalkerSimVisit
import NomtModel.Store.WalkerGSimVisit
/-!
# Every visitor call of a canonical block is made in a state where the mirror cannot fail
-/
namespace Nomt.Walker.G
open Nomt Nomt.TriePos
open Nomt.Wal (PageDiff)

variable {Node VH : Type} [DecidableEq Node] [DecidableEq VH] (H : Hasher Node VH)

/-- the mirror folds the visitor over a safe list without failing, simulating the tree walker -/
theorem sim_visitAll (ps : PageSet Node) (hs : H.Sound) (hfresh : ∀ P, (ps.fresh P).length = 126) (sd : Nat)
    (Lfin : List (PageId × Store Node)) :
    ∀ (evs : List (WriteNode Node VH)) (w : Walker Node) (a : TW Node), Sim H ps w a →
      SafeAll H (cfgOf H ps w.parentPage) (6 * k0 w.parentPage) w.parentPage.isNone sd a evs →
      (w.reconstruction = true → SmallBy H ps Lfin ∧
        (TW.visitAll H (cfgOf H ps w.parentPage) sd a evs).log <+: Lfin) →
      (∃ w', w.visitAll H ps sd evs = .ok w' ∧
        Sim H ps w' (TW.visitAll H (cfgOf H ps w.parentPage) sd a evs) ∧ Same w w' ∧
        w'.childPageRoots = w.childPageRoots) ∨
      (w.reconstruction = false ∧ w.visitAll H ps sd evs = .panic GUARD) := by
  intro evs
  induction evs with
  | nil => intro w a h _ _; exact Or.inl ⟨w, rfl, h, Same.rfl' _, rfl⟩
  | cons c cs ih =>
    intro w a h hsafe hfin
    obtain ⟨hc, hrest⟩ := hsafe
    rcases sim_visit H ps hs hfresh sd h c hc Lfin (by
      intro hr
      obtain ⟨hsb, hpre⟩ := hfin hr
      refine ⟨hsb, ?_⟩
      simp only [TW.visitAll] at hpre
      exact List.IsPrefix.trans (tw_visitAll_log_prefix H _ sd cs _) hpre) with ⟨w1, hw1, hs1, hsame1, hcpr1⟩ | ⟨hnr, hp⟩
    case inr =>
      right
      refine ⟨hnr, ?_⟩
      simp only [Walker.visitAll]
      rw [hp]
    have hpar : w1.parentPage = w.parentPage := hsame1.1
    rcases ih w1 _ hs1 (by rw [hpar]; exact hrest) (by
      intro hr
      have hr0 : w.reconstruction = true := by rw [← hsame1.2.2.2.2]; exact hr
      obtain ⟨hsb, hpre⟩ := hfin hr0
      refine ⟨hsb, ?_⟩
      rw [hpar]
      simp only [TW.visitAll] at hpre
      exact hpre) with ⟨w2, hw2, hs2, hsame2, hcpr2⟩ | ⟨hnr2, hp2⟩
    · simp only [Walker.visitAll, TW.visitAll]
      rw [hw1]
      simp only
      rw [hpar] at hs2
      exact Or.inl ⟨w2, hw2, hs2, Same.trans' hsame1 hsame2, hcpr2.trans hcpr1⟩
    · right
      refine ⟨by rw [← hsame1.2.2.2.2]; exact hnr2, ?_⟩
      simp only [Walker.visitAll]
      rw [hw1]
      exact hp2

/-! ## the shape of the `Leaf` calls -/

/-! ## every call of a block is safe -/

end Nomt.Walker.G
