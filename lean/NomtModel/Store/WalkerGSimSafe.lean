import NomtModel.Store.WalkerSimSafe
import NomtModel.Store.WalkerSimVisit
import NomtModel.Store.WalkerGSimVisit
import NomtModel.Store.WalkerTreeAll
/-!
# Every visitor call of a canonical block is made in a state where the mirror cannot fail
-/
namespace Nomt.Walker.G
open Nomt Nomt.TriePos
open Nomt.Wal (PageDiff)

variable {Node VH : Type} [DecidableEq Node] [DecidableEq VH] (H : Hasher Node VH)

/-- the mirror folds the visitor over a safe list without failing, simulating the tree walker -/
theorem sim_visitAll (ps : PageSet Node) (hs : H.Sound) (hfresh : ∀ P, (ps.fresh P).length = 126) (sd : Nat)
    (Lfin : List (PageId × Store Node)) (hnd : (Lfin.map (·.1)).Nodup) :
    ∀ (evs : List (WriteNode Node VH)) (w : Walker Node) (a : TW Node), Sim H ps w a →
      SafeAll H (cfgOf H ps w.parentPage) (6 * k0 w.parentPage) w.parentPage.isNone sd a evs →
      AllQ H (cfgOf H ps w.parentPage) (VisitFresh ps) sd a evs →
      ((w.reconstruction = true → SmallBy H ps Lfin) ∧
        (TW.visitAll H (cfgOf H ps w.parentPage) sd a evs).log <+: Lfin) →
      ∃ w', w.visitAll H ps sd evs = .ok w' ∧
        Sim H ps w' (TW.visitAll H (cfgOf H ps w.parentPage) sd a evs) ∧ Same w w' ∧
        w'.childPageRoots = w.childPageRoots := by
  intro evs
  induction evs with
  | nil => intro w a h _ _ _; exact ⟨w, rfl, h, Same.rfl' _, rfl⟩
  | cons c cs ih =>
    intro w a h hsafe hallq hfin
    obtain ⟨hc, hrest⟩ := hsafe
    obtain ⟨hq, hqrest⟩ := hallq
    obtain ⟨w1, hw1, hs1, hsame1, hcpr1⟩ := sim_visit H ps hs hfresh sd h c hc hq Lfin hnd (by
      refine ⟨hfin.1, ?_⟩
      have hpre := hfin.2
      simp only [TW.visitAll] at hpre
      exact List.IsPrefix.trans (tw_visitAll_log_prefix H _ sd cs _) hpre)
    have hpar : w1.parentPage = w.parentPage := hsame1.1
    obtain ⟨w2, hw2, hs2, hsame2, hcpr2⟩ := ih w1 _ hs1 (by rw [hpar]; exact hrest) (by rw [hpar]; exact hqrest) (by
      refine ⟨?_, ?_⟩
      · intro hr
        have hr0 : w.reconstruction = true := by rw [← hsame1.2.2.2.2]; exact hr
        exact hfin.1 hr0
      · have hpre := hfin.2
        rw [hpar]
        simp only [TW.visitAll] at hpre
        exact hpre)
    simp only [Walker.visitAll, TW.visitAll]
    rw [hw1]
    simp only
    rw [hpar] at hs2
    exact ⟨w2, hw2, hs2, Same.trans' hsame1 hsame2, hcpr2.trans hcpr1⟩

/-! ## nothing of the page set hangs below the pages a block creates -/

/-- below a position under which the page set holds no weight, every descent is into fresh territory -/
theorem freshBelow_of_clean (ps : PageSet Node) (t : Path)
    (hclean : ∀ q, t <+: q → q.length % 6 = 0 → q.length < 256 → fullSum ps (sextetsOf q) = 0)
    (p : Path) (bits : List Bool) (htp : t <+: p) (hlen : p.length + bits.length ≤ 256) : FreshBelow ps p bits := by
  intro j hj h6
  have hx : bits.take (j + 1) = bits.take j ++ [bits[j]] := by
    rw [List.take_add_one, List.getElem?_eq_getElem hj]; rfl
  rw [hx, ← List.append_assoc, specPage_snoc_boundary _ _ h6]
  apply hclean _ (List.IsPrefix.trans htp (List.prefix_append _ _)) h6
  simp only [List.length_append, List.length_take]
  omega

theorem tw_visit_tree_fresh (ps : PageSet Node) (hs : H.Sound) {O : List (Key × VH)} (hk : KeysOK O) (cfg : TWCfg Node)
    (t : Path) (hclean : ∀ q, t <+: q → q.length % 6 = 0 → q.length < 256 → fullSum ps (sextetsOf q) = 0) :
    ∀ (f : Nat) (P : Path) (prev : Option Key) (J : Path) (a : TW Node),
      256 - P.length = f → t <+: P → P.length ≤ 256 → sub O P ≠ [] → J <+: P →
      PreJ t.length t prev (sub O P) J a.pos →
      AllQ H cfg (VisitFresh ps) t.length a
        (treeEv H t.length (256 - P.length) (P.length - t.length) (sub O P) prev) := by
  apply tw_visit_tree_all H hs hk cfg t (VisitFresh ps)
  · intro P prev J a k v htP hP hB hJ hpre
    have hkP : P <+: k := by
      have : (k, v) ∈ sub O P := by rw [hB]; simp
      exact ((mem_sub hk P hP (k, v)).mp this).2
    cases prev with
    | none =>
      obtain ⟨hpos, _⟩ := hpre
      rw [leafEv_first_eq H t P k v htP hkP]
      show FreshBelow ps a.pos (P.drop t.length)
      rw [hpos]
      apply freshBelow_of_clean ps t hclean t _ (List.prefix_refl _)
      rw [List.length_drop]
      have := htP.length_le
      omega
    | some pk =>
      obtain ⟨x, hpos, hJx, hxl, hsh⟩ := hpre
      have hxP : (x ++ [true]) <+: P := by rw [← hJx]; exact hJ
      rw [leafEv_jump_eq H t P k v pk x htP hkP hxP hxl (hsh (k, v) (by simp))]
      show FreshBelow ps (sibPath a.pos) (P.drop (x.length + 1))
      rw [hpos, sibPath_snoc]
      have hxlen := hxP.length_le
      simp at hxlen
      apply freshBelow_of_clean ps t hclean
      · exact List.prefix_of_prefix_length_le htP hxP (by simp; omega)
      · rw [List.length_drop]
        simp only [List.length_append, List.length_singleton, Bool.not_false]
        omega
  · intro a1 l r n
    trivial

end Nomt.Walker.G
