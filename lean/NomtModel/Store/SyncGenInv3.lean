import NomtModel.Store.SyncGenInv2
/-!
# The invariant, part 3: `Meta::write` (the switch-over), and what follows it — table writes, table fsync, WAL
truncation, pruning of the rollback log
-/
namespace Nomt.Store.SyncGen
open Nomt.Store

/-- the table entries of the files other than `meta` along the four lines of `Meta::write` -/
theorem htab_meta (P : Params) (s : PSt) (hlt : s.m < 4) (htl : s.tl = 0) (hpr : s.pr = 0) (hht : ∀ x ∈ s.ht, x = 0)
    (f : String) (hne : f ≠ "meta") (st0 : OrderSt) (h0 : Holds f st0 (fsOf P s f)) :
    Holds f st0 (fsOf P { s with m := s.m + 1 } f) := by
  by_cases h1 : f = "ht"
  · subst h1
    rw [fsOf_ht] at h0 ⊢
    simp only [htFS, hlt, if_true] at h0
    simp only [htFS, htl, if_true]
    split
    · exact h0
    · refine h0.clean_opn.opn_congr (fun k => ?_)
      exact (openHt_zero k P.ht s.ht (fun x hx => by have := hht x hx; omega)).symm
  · by_cases h2 : f = "dir"
    · subst h2
      rw [fsOf_dir] at h0 ⊢
      simp only [dirFS, hlt, if_true] at h0
      simp only [dirFS, hpr, Nat.zero_le, if_true]
      split
      · exact h0
      · exact h0.clean_opn
    · simp only [fsOf, if_neg hne, if_neg h1, if_neg h2] at h0 ⊢
      exact h0

theorem inv_step_meta (P : Params) (hwf : P.WF) (s : PSt) (st : OrderSt) (id : Nat) (l : IoEv2)
    (h : Inv P s st id) (hl : (metaLines P)[s.m]? = some l) (hgd : metaGuard real P s = true) :
    ∃ st', orderStep st id l = .ok st' ∧ Inv P { s with m := s.m + 1 } st' (id + 1) := by
  have hpc' := pcinv_step P s _ l h.pc (.metaW s l hl hgd)
  have hlt : s.m < 4 := by
    have := (List.getElem?_eq_some_iff.mp hl).1
    simpa [metaLines_length] using this
  simp only [metaGuard, real, Bool.and_eq_true, beq_iff_eq, Bool.not_true, Bool.false_or, walLines_length] at hgd
  obtain ⟨⟨hw6, hbt⟩, hfl, hfb⟩ := hgd
  obtain ⟨htl, hpr, hht⟩ := h.pc.post hlt
  have hmt := h.tab "meta" (mem_fileList_meta P)
  rw [fsOf_meta] at hmt
  have htab : ∀ f ∈ fileList P, f ≠ "meta" → ∀ st0, Holds f st0 (fsOf P s f) →
      Holds f st0 (fsOf P { s with m := s.m + 1 } f) :=
    fun f _ hne st0 h0 => htab_meta P s hlt htl hpr hht f hne st0 h0
  rcases meta_cases P s.m l hl with ⟨hm, rfl⟩ | ⟨hm, rfl⟩ | ⟨hm, rfl⟩ | ⟨hm, rfl⟩
  · -- Begin Write meta: every file reads `clean`, so nothing is pending
    have hph : st.phase = 0 := by rw [h.phase, hm]; rfl
    have hclean : ∀ f ∈ fileList P, Holds f st .clean := by
      intro f hf
      have ht := h.tab f hf
      simp only [fileList, List.mem_cons, List.not_mem_nil, or_false] at hf
      rcases hf with rfl | rfl | rfl | rfl | rfl | rfl | rfl
      · rw [fsOf_wal] at ht; simpa [walFS, hw6, htl] using ht
      · rw [fsOf_ln] at ht; simpa [lnFS, hfl] using ht
      · rw [fsOf_bbn] at ht; simpa [bbnFS, hfb] using ht
      · rw [fsOf_meta] at ht; simpa [metaFS, hm] using ht
      · rw [fsOf_ht] at ht; simpa [htFS, hm] using ht
      · rw [fsOf_dir] at ht; simpa [dirFS, hm] using ht
      · rw [fsOf_head P hwf] at ht; simpa [headFS, hpr] using ht
    have hpend0 : st.pend = [] := by
      rw [List.eq_nil_iff_forall_not_mem]
      intro p hp
      exact (hclean p.file (h.files p hp)).1 p hp rfl
    obtain ⟨st', hs, hpend, hsy, hph', hmid, hww⟩ := step_beginMeta st id (ev "Write" "meta" 0 P.metaLen "meta.write") P.tMain
      rfl rfl hph hpend0
    refine ⟨st', hs, h.next hs (mem_fileList_meta P) ?_ (by rw [hww, h.walW]) ?_ hpc' htab ?_⟩
    · rw [hph']; simp [phaseOf, hm]
    · intro _ _
      exact ⟨mkPend id (ev "Write" "meta" 0 P.metaLen "meta.write"), by rw [hpend]; exact List.mem_singleton.mpr rfl, rfl,
        by rw [hmid]; rfl⟩
    · show Holds "meta" st' (fsOf P _ "meta")
      rw [fsOf_meta]
      simp only [metaFS, hm] at hmt ⊢
      simp at hmt ⊢
      have hpend' : st'.pend = st.pend ++ [mkPend id (ev "Write" "meta" 0 P.metaLen "meta.write")] := by
        rw [hpend, hpend0]; rfl
      exact (hmt.clean_opn.begin id _ rfl hpend' hsy).opn_congr (oneN_bump _)
  · -- End Write meta
    obtain ⟨st', hs, hpend, hsy, hph', hmid, hww⟩ := step_endData st id (ev "Write" "meta" 0 P.metaLen "meta.write") P.tMain rfl
    refine ⟨st', hs, h.next hs (mem_fileList_meta P) ?_ (by rw [hww, h.walW]) ?_ hpc' htab ?_⟩
    · rw [hph', h.phase]; simp [phaseOf, hm]
    · intro _ _
      obtain ⟨p, hp, hpf, hpi⟩ := h.metaId (by omega) hlt
      obtain ⟨q, hq, hqi, hqf⟩ := mem_endEffect_of_mem (ev "Write" "meta" 0 P.metaLen "meta.write") st.pend p hp
      exact ⟨q, by rw [hpend]; exact hq, hqf.trans hpf, by rw [hmid, hqi, hpi]⟩
    · show Holds "meta" st' (fsOf P _ "meta")
      rw [fsOf_meta]
      simp only [metaFS, hm] at hmt ⊢
      simp at hmt ⊢
      exact (hmt.endData h.g _ rfl rfl hpend hsy).opn_congr (oneN_drop _)
  · -- Begin Fsync meta
    obtain ⟨st', hs, hpend, hsy, hph', hmid, hww⟩ := step_beginFsync st id "meta" 0 0 "meta.fsync" P.tMain
    refine ⟨st', hs, h.next hs (mem_fileList_meta P) ?_ (by rw [hww, h.walW]) ?_ hpc' htab ?_⟩
    · rw [hph', h.phase]; simp [phaseOf, hm]
    · intro _ _
      obtain ⟨p, hp, hpf, hpi⟩ := h.metaId (by omega) hlt
      exact ⟨p, by rw [hpend]; exact hp, hpf, by rw [hmid, hpi]⟩
    · show Holds "meta" st' (fsOf P _ "meta")
      rw [fsOf_meta]
      simp only [metaFS, hm] at hmt ⊢
      simp at hmt ⊢
      exact hmt.beginFsync P.tMain (fun _ => rfl) hpend hsy
  · -- End Fsync meta: the switch-over is durable
    simp only [metaFS, hm] at hmt
    simp at hmt
    obtain ⟨cov, rest, htk, hrest, hcov⟩ := hmt.endSync
    obtain ⟨st', hs, hpend, hsy, hph', hmid, hww⟩ := step_endSync st id (ev "Fsync" "meta" 0 0 "meta.fsync") P.tMain "meta"
      (Or.inl ⟨rfl, rfl⟩) cov rest htk
    obtain ⟨p, hp, hpf, hpi⟩ := h.metaId (by omega) hlt
    have hcm : cov.contains st.metaId = true := by
      rw [← hpi]; simpa using hcov p hp hpf
    have hph1 : st.phase = 1 := by rw [h.phase]; simp [phaseOf, hm]
    refine ⟨st', hs, h.next hs (mem_fileList_meta P) ?_ (by rw [hww, h.walW]) ?_ hpc' htab ?_⟩
    · rw [hph', hph1, hcm]; simp [phaseOf, hm]
    · intro _ h4; simp only [hm] at h4; omega
    · show Holds "meta" st' (fsOf P _ "meta")
      rw [fsOf_meta]
      simp only [metaFS, hm]
      simp
      exact Holds.clean_of_endSync cov rest hrest hcov hpend hsy

/-! ## After the switch-over -/

/-- while a table write is outstanding: the switch-over is durable and the table fsync has not begun -/
theorem post_of_ht (P : Params) (s : PSt) (hpc : PcInv P s) (i x : Nat) (hx : s.ht[i]? = some x) (hx2 : x ≠ 2)
    (hm : 4 ≤ s.m) : s.tl = 0 := by
  rcases Nat.eq_zero_or_pos s.tl with h | h
  · exact h
  · have := allDone_getElem _ _ _ (hpc.tlDone h) hx
    exact absurd this hx2

theorem htab_ht (P : Params) (s : PSt) (ht' : List Nat) (f : String) (h1 : f ≠ "ht") (st0 : OrderSt)
    (h0 : Holds f st0 (fsOf P s f)) : Holds f st0 (fsOf P { s with ht := ht' } f) := by
  by_cases hw : f = "wal"
  · subst hw; exact h0
  · by_cases hl : f = "ln"
    · subst hl; exact h0
    · by_cases hb : f = "bbn"
      · subst hb; exact h0
      · by_cases hm : f = "meta"
        · subst hm; exact h0
        · simp only [fsOf, if_neg hw, if_neg hl, if_neg hb, if_neg hm, if_neg h1] at h0 ⊢
          exact h0

theorem phaseOf_ge4 (m : Nat) (h : 4 ≤ m) : phaseOf m = 2 := by
  unfold phaseOf
  rw [if_neg (by omega), if_neg (by omega)]

theorem inv_step_htBegin (P : Params) (hwf : P.WF) (s : PSt) (st : OrderSt) (id : Nat) (i : Nat) (o : HtOp)
    (h : Inv P s st id) (ho : P.ht[i]? = some o) (hx : s.ht[i]? = some 0) (hm : s.m = (metaLines P).length) :
    ∃ st', orderStep st id ⟨true, o.evB, P.tMain⟩ = .ok st' ∧ Inv P { s with ht := s.ht.set i 1 } st' (id + 1) := by
  have hpc' := pcinv_step P s _ _ h.pc (.htBegin s i o ho hx hm)
  rw [metaLines_length] at hm
  have htl := post_of_ht P s h.pc i 0 hx (by omega) (by omega)
  have hph : st.phase = 2 := by rw [h.phase, hm]; rfl
  have hw6 : s.w = 6 := (h.pc.pre (by omega)).1
  have hwW : st.walWritten = true := by rw [h.walW, hw6]; rfl
  obtain ⟨st', hs, hpend, hsy, hph', hmid, hww⟩ := step_beginData st id o.evB P.tMain rfl
    (by simp [HtOp.evB, ev]) (by omega) (fun _ => ⟨hph, hwW⟩) (fun hf => by simp [HtOp.evB, ev] at hf)
    (fun hf => by simp [HtOp.evB, ev] at hf)
  have hht := h.tab "ht" (mem_fileList_ht P)
  rw [fsOf_ht] at hht
  simp only [htFS, hm, htl] at hht
  simp at hht
  refine ⟨st', hs, h.next hs (mem_fileList_ht P) (by rw [hph', h.phase]) ?_ ?_ hpc'
    (fun f _ hne st0 h0 => htab_ht P s _ f hne st0 h0) ?_⟩
  · rw [hww, h.walW]; simp [HtOp.evB, ev]
  · intro _ h4; simp only [hm] at h4; omega
  · show Holds "ht" st' (fsOf P _ "ht")
    rw [fsOf_ht]
    simp only [htFS, hm, htl]
    simp
    refine (hht.begin id o.evB rfl hpend hsy).opn_congr (fun k => ?_)
    rw [openHt_set k P.ht s.ht i o 0 1 ho hx]
    simp [bump, eq_comm]

theorem inv_step_htEnd (P : Params) (hwf : P.WF) (s : PSt) (st : OrderSt) (id : Nat) (i : Nat) (o : HtOp) (th : String)
    (h : Inv P s st id) (ho : P.ht[i]? = some o) (hx : s.ht[i]? = some 1) :
    ∃ st', orderStep st id ⟨false, o.evE, th⟩ = .ok st' ∧ Inv P { s with ht := s.ht.set i 2 } st' (id + 1) := by
  have hpc' := pcinv_step P s _ _ h.pc (.htEnd s i o th ho hx)
  have hm : 4 ≤ s.m := by
    rcases Nat.lt_or_ge s.m 4 with hlt | hge
    · have := (h.pc.post hlt).2.2 1 (List.mem_of_getElem? hx); omega
    · exact hge
  have htl := post_of_ht P s h.pc i 1 hx (by omega) hm
  obtain ⟨st', hs, hpend, hsy, hph', hmid, hww⟩ := step_endData st id o.evE th rfl
  have hht := h.tab "ht" (mem_fileList_ht P)
  rw [fsOf_ht] at hht
  have hnlt : ¬ s.m < 4 := by omega
  simp only [htFS, hnlt, htl] at hht
  simp at hht
  refine ⟨st', hs, h.next hs (mem_fileList_ht P) (by rw [hph', h.phase]) (by rw [hww, h.walW]) ?_ hpc'
    (fun f _ hne st0 h0 => htab_ht P s _ f hne st0 h0) ?_⟩
  · intro _ h4; simp only at h4; omega
  · show Holds "ht" st' (fsOf P _ "ht")
    rw [fsOf_ht]
    simp only [htFS, hnlt, htl]
    simp
    refine (hht.endData h.g o.evE rfl rfl hpend hsy).opn_congr (fun k => ?_)
    rw [openHt_set k P.ht s.ht i o 1 2 ho hx, o.ekey_evE]
    simp [drop1, eq_comm]

theorem inv_step_tail (P : Params) (hwf : P.WF) (s : PSt) (st : OrderSt) (id : Nat) (l : IoEv2)
    (h : Inv P s st id) (hl : (tailLines real P)[s.tl]? = some l) (hm : s.m = (metaLines P).length)
    (hgd : allDone s.ht = true) :
    ∃ st', orderStep st id l = .ok st' ∧ Inv P { s with tl := s.tl + 1 } st' (id + 1) := by
  have hpc' := pcinv_step P s _ l h.pc (.tail s l hl hm (fun _ => hgd))
  rw [metaLines_length] at hm
  have hph : st.phase = 2 := by rw [h.phase, hm]; rfl
  have hw6 : s.w = 6 := (h.pc.pre (by omega)).1
  have hmeta : ∀ st' : OrderSt, 0 < s.m → s.m < 4 → ∃ p ∈ st'.pend, p.file = "meta" ∧ p.id = st'.metaId := by
    intro st' _ h4; omega
  have hht := h.tab "ht" (mem_fileList_ht P)
  rw [fsOf_ht] at hht
  have hwal := h.tab "wal" (mem_fileList_wal P)
  rw [fsOf_wal] at hwal
  -- entries of the files other than `ht` and `wal` do not mention `tl`
  have hrest : ∀ f, f ≠ "ht" → f ≠ "wal" → ∀ st0, Holds f st0 (fsOf P s f) →
      Holds f st0 (fsOf P { s with tl := s.tl + 1 } f) := by
    intro f h1 h2 st0 h0
    by_cases hl : f = "ln"
    · subst hl; exact h0
    · by_cases hb : f = "bbn"
      · subst hb; exact h0
      · by_cases hm' : f = "meta"
        · subst hm'; exact h0
        · simp only [fsOf, if_neg h2, if_neg hl, if_neg hb, if_neg hm', if_neg h1] at h0 ⊢
          exact h0
  rcases tail_cases P s.tl l hl with ⟨hk, rfl⟩ | ⟨hk, rfl⟩ | ⟨hk, rfl⟩ | ⟨hk, rfl⟩
  · -- Begin Fsync ht
    obtain ⟨st', hs, hpend, hsy, hph', hmid, hww⟩ := step_beginFsync st id "ht" 0 0 "ht.fsync" P.tMain
    refine ⟨st', hs, h.next hs (mem_fileList_ht P) (by rw [hph', h.phase]) (by rw [hww, h.walW]) (hmeta st') hpc' ?_ ?_⟩
    · intro f _ hne st0 h0
      by_cases hw : f = "wal"
      · subst hw
        rw [fsOf_wal] at h0 ⊢
        simp only [walFS, hw6, hk] at h0 ⊢
        simpa using h0
      · exact hrest f hne hw st0 h0
    · show Holds "ht" st' (fsOf P _ "ht")
      rw [fsOf_ht]
      simp only [htFS, hm, hk] at hht ⊢
      simp at hht ⊢
      refine hht.beginFsync P.tMain (fun k => ?_) hpend hsy
      exact openHt_zero k P.ht s.ht (fun x hx => by have := (allDone_iff s.ht).mp hgd x hx; omega)
  · -- End Fsync ht
    simp only [htFS, hm, hk] at hht
    simp at hht
    obtain ⟨cov, rest, htk, hrest', hcov⟩ := hht.endSync
    obtain ⟨st', hs, hpend, hsy, hph', hmid, hww⟩ := step_endSync st id (ev "Fsync" "ht" 0 0 "ht.fsync") P.tMain "ht"
      (Or.inl ⟨rfl, rfl⟩) cov rest htk
    refine ⟨st', hs, h.next hs (mem_fileList_ht P) ?_ (by rw [hww, h.walW]) (hmeta st') hpc' ?_ ?_⟩
    · rw [hph', hph, h.phase.symm.trans hph]; simp
    · intro f _ hne st0 h0
      by_cases hw : f = "wal"
      · subst hw
        rw [fsOf_wal] at h0 ⊢
        simp only [walFS, hw6, hk] at h0 ⊢
        simpa using h0
      · exact hrest f hne hw st0 h0
    · show Holds "ht" st' (fsOf P _ "ht")
      rw [fsOf_ht]
      simp only [htFS, hm, hk]
      simp
      exact Holds.clean_of_endSync cov rest hrest' hcov hpend hsy
  · -- Begin SetLen wal (truncation): every table page is durable
    simp only [htFS, hm, hk] at hht
    simp at hht
    obtain ⟨st', hs, hpend, hsy, hph', hmid, hww⟩ := step_beginData st id (ev "SetLen" "wal" 0 0 "wal.truncate") P.tMain
      rfl (by simp [ev]) (by omega) (fun hf => by simp [ev] at hf) (fun _ _ q hq => hht.1 q hq) (fun hf => by simp [ev] at hf)
    refine ⟨st', hs, h.next hs (mem_fileList_wal P) (by rw [hph', h.phase]) ?_ (hmeta st') hpc' ?_ ?_⟩
    · rw [hww, h.walW, hph]; simp [ev]
    · intro f _ hne st0 h0
      by_cases hw : f = "ht"
      · subst hw
        rw [fsOf_ht] at h0 ⊢
        simp only [htFS, hm, hk] at h0 ⊢
        simpa using h0
      · exact hrest f hw hne st0 h0
    · show Holds "wal" st' (fsOf P _ "wal")
      rw [fsOf_wal]
      simp only [walFS, hw6, hk] at hwal ⊢
      simp at hwal ⊢
      exact (hwal.clean_opn.begin id _ rfl hpend hsy).opn_congr (oneN_bump _)
  · -- End SetLen wal
    obtain ⟨st', hs, hpend, hsy, hph', hmid, hww⟩ := step_endData st id (ev "SetLen" "wal" 0 0 "wal.truncate") P.tMain rfl
    refine ⟨st', hs, h.next hs (mem_fileList_wal P) (by rw [hph', h.phase]) (by rw [hww, h.walW]) (hmeta st') hpc' ?_ ?_⟩
    · intro f _ hne st0 h0
      by_cases hw : f = "ht"
      · subst hw
        rw [fsOf_ht] at h0 ⊢
        simp only [htFS, hm, hk] at h0 ⊢
        simpa using h0
      · exact hrest f hw hne st0 h0
    · show Holds "wal" st' (fsOf P _ "wal")
      rw [fsOf_wal]
      simp only [walFS, hw6, hk] at hwal ⊢
      simp at hwal ⊢
      exact (hwal.endData h.g _ rfl rfl hpend hsy).opn_congr (oneN_drop _)

end Nomt.Store.SyncGen
