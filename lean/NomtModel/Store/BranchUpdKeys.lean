import NomtModel.Store.BranchUpdTop
/-!
# The real `prefix_len` / `separator_len` as the key functions of the branch-updater model

Keys of the model are the big-endian values of the 32 key bytes.  On numbers `prefix_len(a, b)` is `255 - log2 (a xor b)`
(256 for equal keys) and `separator_len(k)` is `256 -` the number of trailing zero bits (1 for the all-zero key); the
`branchupd` differential compares every gauge the real code computes with them (`prefix_len`, the sums of separator
lengths) line by line.  `kfReal_ok`: they satisfy what the branch-updater proofs ask of them (`KFOK`).
-/
namespace Nomt.BranchUpd

/-- the number of trailing zero bits of `k` (at most `fuel`), added to `c` -/
def ctzGo : Nat → Nat → Nat → Nat
  | 0, _, c => c
  | f + 1, k, c => if k % 2 = 1 then c else ctzGo f (k / 2) (c + 1)

/-- `prefix_len`, `separator_len` on 256-bit numbers -/
def kfReal : KF where
  pl := fun a b => if a = b then 256 else 255 - Nat.log2 (a ^^^ b)
  sl := fun k => if k = 0 then 1 else 256 - ctzGo 256 k 0
  canon := true

/-- the code before the repair of finding F22 (commit `d4be933`) -/
def kfPreF22 : KF := { kfReal with canon := false }

theorem div_eq_of_xor_lt {a b k : Nat} (h : a ^^^ b < 2 ^ k) : a / 2 ^ k = b / 2 ^ k := by
  apply Nat.eq_of_testBit_eq
  intro j
  rw [Nat.testBit_div_two_pow, Nat.testBit_div_two_pow]
  have hx : (a ^^^ b).testBit (k + j) = false :=
    Nat.testBit_lt_two_pow (Nat.lt_of_lt_of_le h (Nat.pow_le_pow_right (by omega) (by omega)))
  rw [Nat.testBit_xor] at hx
  rw [Nat.add_comm j k]
  cases ha : a.testBit (k + j) <;> cases hb : b.testBit (k + j) <;> simp_all

theorem eq_of_xor_eq_zero {a b : Nat} (h : a ^^^ b = 0) : a = b := by
  apply Nat.eq_of_testBit_eq
  intro i
  have : (a ^^^ b).testBit i = false := by rw [h]; simp
  rw [Nat.testBit_xor] at this
  cases ha : a.testBit i <;> cases hb : b.testBit i <;> simp_all

theorem ctzGo_lt : ∀ (f k c m : Nat), k % 2 ^ m ≠ 0 → m ≤ f → ctzGo f k c < c + m := by
  intro f
  induction f with
  | zero =>
    intro k c m h hm
    have : m = 0 := by omega
    subst this
    simp [Nat.mod_one] at h
  | succ f ih =>
    intro k c m h hm
    cases m with
    | zero => simp [Nat.mod_one] at h
    | succ m =>
      simp only [ctzGo]
      split
      · omega
      · rename_i hodd
        have h2 : k % 2 ^ (m + 1) = k % 2 + 2 * (k / 2 % 2 ^ m) := by
          rw [Nat.pow_succ, Nat.mul_comm, Nat.mod_mul]
        have h3 : k / 2 % 2 ^ m ≠ 0 := by
          intro h0
          rw [h2, h0] at h
          omega
        have := ih (k / 2) (c + 1) m h3 (by omega)
        omega

theorem kfReal_ok : KFOK kfReal where
  pl_le := by
    intro a b
    simp only [kfReal]
    split <;> omega
  pl_top := by
    intro a b ha hb
    simp only [kfReal]
    split
    · rename_i h; rw [h]
    · rename_i hne
      have hx0 : a ^^^ b ≠ 0 := by
        intro h0
        exact hne (eq_of_xor_eq_zero h0)
      have hxlt : a ^^^ b < 2 ^ 256 := Nat.xor_lt_two_pow ha hb
      have hlog : Nat.log2 (a ^^^ b) < 256 := (Nat.log2_lt hx0).2 hxlt
      have hlt : a ^^^ b < 2 ^ (Nat.log2 (a ^^^ b) + 1) := Nat.lt_log2_self
      unfold top
      have e : 256 - (255 - Nat.log2 (a ^^^ b)) = Nat.log2 (a ^^^ b) + 1 := by omega
      rw [e]
      exact div_eq_of_xor_lt hlt
  sl_le := by
    intro k
    simp only [kfReal]
    split <;> omega
  sl_gt := by
    intro a b p hab hb hp htop
    have hb0 : b ≠ 0 := by omega
    simp only [kfReal, hb0, if_false]
    unfold top at htop
    have hmod : b % 2 ^ (256 - p) ≠ 0 := by
      intro h0
      have h1 := Nat.div_add_mod a (2 ^ (256 - p))
      have h2 := Nat.div_add_mod b (2 ^ (256 - p))
      rw [h0, ← htop] at h2
      omega
    have := ctzGo_lt 256 b 0 (256 - p) hmod (by omega)
    omega
  seeded := rfl

theorem kfReal_canon : kfReal.canon = true := rfl

theorem kfPreF22_ok : KFOK kfPreF22 :=
  ⟨kfReal_ok.pl_le, kfReal_ok.pl_top, kfReal_ok.sl_le, kfReal_ok.sl_gt, rfl⟩

end Nomt.BranchUpd
