import NomtModel.Store.BranchUpdModel
import NomtModel.Store.LeafUpdSep
/-!
# The real `prefix_len` / `separator_len` as the key functions of the branch-updater model

Keys of the model are the big-endian values of the 32 key bytes; `kfReal` goes through the byte-level mirrors of
`bit_ops::prefix_len` / `bit_ops::separator_len` (`Store/BitOps.lean`, tied to the real functions by the `bitops`
differential and proved equal to their bit-level specifications in `Store/BitOpsKeys.lean`).
-/
namespace Nomt.BranchUpd
open Nomt.BitOps Nomt.LeafUpd

/-- `prefix_len`, `separator_len` on the 32-byte forms -/
def kfReal : KF where
  pl := fun a b => prefixLen (bytes32 a) (bytes32 b)
  sl := fun k => separatorLen (bytes32 k)

end Nomt.BranchUpd
