import NomtModel.Store.BranchUpdModel
import NomtModel.Store.LeafUpdSep
/-!
# The real `prefix_len` / `separator_len` as the key functions of the branch-updater model

Keys of the model are the big-endian values of the 32 key bytes; `kfReal` goes through the byte-level mirrors of
`bit_ops::prefix_len` / `bit_ops::separator_len` (`Store/BitOps.lean`, tied to the real functions by the `bitops`
differential and proved equal to their bit-level specifications in `Store/BitOpsKeys.lean`).
-/
namespace Nomt.BranchUpd
open Nomt.BitOps Nomt.LeafUpd

/-- `prefix_len`, `separator_len` on the 32-byte forms -/
def ctzGo : Nat → Nat → Nat → Nat
  | 0, _, c => c
  | f + 1, k, c => if k % 2 = 1 then c else ctzGo f (k / 2) (c + 1)

def kfReal : KF where
  pl := fun a b => if a = b then 256 else 255 - Nat.log2 (a ^^^ b)
  sl := fun k => if k = 0 then 1 else 256 - ctzGo 256 k 0

end Nomt.BranchUpd
