import NomtModel.Store.LeafUpdRun
import NomtModel.Store.LeafUpdInv
/-!
# Ascending entry lists as maps: lookup, extensionality, lookup after `applyAll`
-/
namespace Nomt.StageGlue
open Nomt
open Nomt.LeafUpd (Entry Sorted write1 applyAll CellSize)

variable {V : Type}

/-- what the list holds under `k` (first match) -/
def getE (l : List (Entry V)) (k : Nat) : Option (V × Bool) :=
  (l.find? (fun e => e.key == k)).map fun e => (e.val, e.ovf)

theorem getE_nil (k : Nat) : getE ([] : List (Entry V)) k = none := rfl

theorem getE_cons (x : Entry V) (l : List (Entry V)) (k : Nat) :
    getE (x :: l) k = if x.key = k then some (x.val, x.ovf) else getE l k := by
  unfold getE
  by_cases h : x.key = k
  · simp [List.find?_cons, h]
  · have : (x.key == k) = false := by simp [h]
    simp [List.find?_cons, this, h]

theorem getE_none_of_forall {l : List (Entry V)} {k : Nat} (h : ∀ e ∈ l, e.key ≠ k) : getE l k = none := by
  induction l with
  | nil => rfl
  | cons x t ih =>
    rw [getE_cons, if_neg (h x (by simp))]
    exact ih (fun e he => h e (by simp [he]))

theorem getE_append (a b : List (Entry V)) (k : Nat) :
    getE (a ++ b) k = match getE a k with | some w => some w | none => getE b k := by
  induction a with
  | nil => rfl
  | cons x t ih =>
    simp only [List.cons_append, getE_cons]
    by_cases h : x.key = k
    · simp [h]
    · simp [h, ih]

theorem getE_filter_lt (l : List (Entry V)) (k k' : Nat) :
    getE (l.filter fun e => decide (e.key < k)) k' = if k' < k then getE l k' else none := by
  induction l with
  | nil => simp [getE_nil]
  | cons x t ih =>
    by_cases hx : x.key < k
    · simp only [List.filter_cons, hx, decide_true, if_true, getE_cons, ih]
      by_cases h : x.key = k'
      · subst h; simp [hx]
      · simp [h]
    · simp only [List.filter_cons, hx, decide_false, Bool.false_eq_true, if_false, ih, getE_cons]
      by_cases h : x.key = k'
      · subst h; simp [hx]
      · simp [h]

theorem getE_filter_gt (l : List (Entry V)) (k k' : Nat) :
    getE (l.filter fun e => decide (k < e.key)) k' = if k < k' then getE l k' else none := by
  induction l with
  | nil => simp [getE_nil]
  | cons x t ih =>
    by_cases hx : k < x.key
    · simp only [List.filter_cons, hx, decide_true, if_true, getE_cons, ih]
      by_cases h : x.key = k'
      · subst h; simp [hx]
      · simp [h]
    · simp only [List.filter_cons, hx, decide_false, Bool.false_eq_true, if_false, ih, getE_cons]
      by_cases h : x.key = k'
      · subst h; simp [hx]
      · simp [h]

/-- the write law on lists -/
theorem getE_write1 [CellSize V] (l : List (Entry V)) (k k' : Nat) (ch : Option (V × Bool)) :
    getE (write1 l k ch) k' = if k' = k then ch else getE l k' := by
  unfold write1
  rw [getE_append, getE_filter_lt, getE_append, getE_filter_gt]
  rcases Nat.lt_trichotomy k' k with h | h | h
  · have h1 : ¬ k' = k := by omega
    have h2 : ¬ k < k' := by omega
    simp only [h, if_true, h1, if_false, h2]
    cases hg : getE l k' with
    | some w => rfl
    | none =>
      simp only []
      cases ch with
      | none => simp [getE_nil]
      | some vo =>
        obtain ⟨v, o⟩ := vo
        have : ¬ k = k' := by omega
        simp [getE_cons, getE_nil, this]
  · subst h
    simp only [Nat.lt_irrefl, if_false, if_true]
    cases ch with
    | none => simp [getE_nil]
    | some vo => obtain ⟨v, o⟩ := vo; simp [getE_cons]
  · have h1 : ¬ k' = k := by omega
    have h2 : ¬ k' < k := by omega
    simp only [h2, if_false, h1, h, if_true]
    cases ch with
    | none => simp [getE_nil]
    | some vo =>
      obtain ⟨v, o⟩ := vo
      have : ¬ k = k' := by omega
      simp [getE_cons, getE_nil, this]

/-- extensionality of ascending lists -/
theorem sorted_ext [CellSize V] : ∀ {a b : List (Entry V)}, Sorted a → Sorted b → (∀ k, getE a k = getE b k) → a = b
  | [], [], _, _, _ => rfl
  | [], y :: b, _, _, h => by have := h y.key; simp [getE_nil, getE_cons] at this
  | x :: a, [], _, _, h => by have := h x.key; simp [getE_nil, getE_cons] at this
  | x :: a, y :: b, ha, hb, h => by
    have ha' := List.pairwise_cons.1 ha
    have hb' := List.pairwise_cons.1 hb
    have hta : ∀ k, k ≤ x.key → getE a k = none := fun k hk =>
      getE_none_of_forall (fun e he => by have := ha'.1 e he; omega)
    have htb : ∀ k, k ≤ y.key → getE b k = none := fun k hk =>
      getE_none_of_forall (fun e he => by have := hb'.1 e he; omega)
    have hxy : x.key = y.key := by
      rcases Nat.lt_trichotomy x.key y.key with h1 | h1 | h1
      · have := h x.key
        rw [getE_cons, getE_cons, if_pos rfl, if_neg (by omega), htb x.key (by omega)] at this
        cases this
      · exact h1
      · have := h y.key
        rw [getE_cons, getE_cons, if_pos rfl, if_neg (by omega), hta y.key (by omega)] at this
        cases this
    have hx : x = y := by
      have := h x.key
      rw [getE_cons, getE_cons, if_pos rfl, if_pos hxy.symm] at this
      cases x; cases y
      simp only [Option.some.injEq, Prod.mk.injEq] at this
      simp only at hxy
      simp [hxy, this.1, this.2]
    subst hx
    congr 1
    apply sorted_ext ha'.2 hb'.2
    intro k
    by_cases hk : x.key = k
    · subst hk
      rw [hta x.key (Nat.le_refl _), htb x.key (Nat.le_refl _)]
    · have := h k
      rw [getE_cons, getE_cons, if_neg hk, if_neg hk] at this
      exact this

/-- the first change that names `k` -/
def getC (cs : List (Nat × Option (V × Bool))) (k : Nat) : Option (Option (V × Bool)) :=
  (cs.find? (fun c => c.1 == k)).map (·.2)

theorem getC_cons (c : Nat × Option (V × Bool)) (cs : List (Nat × Option (V × Bool))) (k : Nat) :
    getC (c :: cs) k = if c.1 = k then some c.2 else getC cs k := by
  unfold getC
  by_cases h : c.1 = k
  · simp [List.find?_cons, h]
  · have : (c.1 == k) = false := by simp [h]
    simp [List.find?_cons, this, h]

/-- reading after a batch with distinct keys: the change that names the key, else the old value -/
theorem getE_applyAll [CellSize V] : ∀ (cs : List (Nat × Option (V × Bool))) (l : List (Entry V)) (k : Nat),
    cs.Pairwise (fun a b => a.1 ≠ b.1) →
    getE (applyAll l cs) k = match getC cs k with | some w => w | none => getE l k
  | [], l, k, _ => rfl
  | c :: cs, l, k, h => by
    have h' := List.pairwise_cons.1 h
    show getE (applyAll (write1 l c.1 c.2) cs) k = _
    rw [getE_applyAll cs _ k h'.2, getC_cons, getE_write1]
    by_cases hk : c.1 = k
    · subst hk
      have : getC cs c.1 = none := by
        unfold getC
        rw [List.find?_eq_none.2]
        · rfl
        · intro x hx
          have := h'.1 x hx
          simp only [beq_iff_eq]
          exact fun e => this e.symm
      simp [this]
    · have : ¬ k = c.1 := fun e => hk e.symm
      simp [hk, this]

end Nomt.StageGlue
