import NomtModel.Store.LeafUpdBasic
/-!
# `try_split_keep_chunk`, `extract_insert_from_keep_chunk`, `consume_and_update_until`

On a well-formed op list with cells of at most `MAX_LEAF_VALUE_SIZE` bytes and a target of at most
`LEAF_NODE_BODY_SIZE`, the loop never reaches a panic site, keeps the entries the op list stands for (it only
re-chunks them), and stops with a gauge that is exactly the size of the ops it consumed, never above
`LEAF_NODE_BODY_SIZE`, and
* at or above the target, or
* below the target because the next cell would make the leaf over-full — then it is above
  `LEAF_NODE_BODY_SIZE - 34 - MAX_LEAF_VALUE_SIZE`, or
* below the target with nothing left to consume.
-/
namespace Nomt.LeafUpd
variable {V : Type} [CellSize V]

/-- every cell at most `MAX_LEAF_VALUE_SIZE` bytes -/
def SizeOK (l : List (Entry V)) : Prop := ∀ e ∈ l, e.size ≤ MAXV

theorem SizeOK.append {a b : List (Entry V)} (ha : SizeOK a) (hb : SizeOK b) : SizeOK (a ++ b) := by
  intro e he
  rcases List.mem_append.1 he with h | h
  · exact ha e h
  · exact hb e h

theorem SizeOK.left {a b : List (Entry V)} (h : SizeOK (a ++ b)) : SizeOK a :=
  fun e he => h e (List.mem_append_left _ he)

theorem SizeOK.right {a b : List (Entry V)} (h : SizeOK (a ++ b)) : SizeOK b :=
  fun e he => h e (List.mem_append_right _ he)

/-! ## `try_split_keep_chunk` -/

/-- the cell at `f` alone takes the gauge above `limit` -/
def FirstOver (b : Base V) (g : Gauge) (f limit : Nat) : Prop :=
  ∃ e, b.ents[f]? = some e ∧ limit < g.bodyAfter 1 e.size

theorem valuesSize_first (ents : List (Entry V)) (f t : Nat) (h1 : f < t) (h2 : f < ents.length) :
    valuesSize ents f t = (ents[f]).size + valuesSize ents (f + 1) t := by
  rw [valuesSize_eq, slice_cons_of_lt _ _ _ h1 h2, total_cons, valuesSize_eq]

theorem splitLoop_spec (b : Base V) (g : Gauge) (target limit f : Nat) :
    ∀ cnt pos n vs, pos = f + n → pos + cnt ≤ b.ents.length → vs = valuesSize b.ents f pos →
      (0 < n → g.bodyAfter n vs < target) →
      ∃ ln lvs, splitLoop b g target limit cnt pos n vs = some (ln, lvs) ∧ ln ≤ n + cnt ∧
        lvs = valuesSize b.ents f (f + ln) ∧
        (ln = 0 → 0 < cnt → FirstOver b g f limit) ∧
        (0 < ln → g.bodyAfter ln lvs ≤ limit ∨ g.bodyAfter ln lvs < target) := by
  intro cnt
  induction cnt with
  | zero =>
    intro pos n vs hp _ hvs hlt
    refine ⟨n, vs, rfl, by omega, by rw [hvs, hp], by intro _ h; omega, fun h => Or.inr (hlt h)⟩
  | succ cnt ih =>
    intro pos n vs hp hlen hvs hlt
    have hpos : pos < b.ents.length := by omega
    have hvs' : vs + (b.ents[pos]).size = valuesSize b.ents f (pos + 1) := by
      rw [valuesSize_split b.ents f pos (pos + 1) (by omega) (by omega), ← hvs]
      simp [valuesSize_eq, slice_succ _ _ hpos]
    simp only [splitLoop, List.getElem?_eq_getElem hpos]
    by_cases h1 : g.bodyAfter (n + 1) (vs + (b.ents[pos]).size) ≥ target
    · simp only [h1, if_true]
      by_cases h2 : g.bodyAfter (n + 1) (vs + (b.ents[pos]).size) > limit
      · simp only [h2, if_true]
        refine ⟨n, vs, rfl, by omega, by rw [hvs, hp], ?_, fun h => Or.inr (hlt h)⟩
        intro hn _
        subst hn
        have hpf : pos = f := by omega
        subst hpf
        refine ⟨b.ents[pos], List.getElem?_eq_getElem hpos, ?_⟩
        have : vs = 0 := by rw [hvs]; simp [valuesSize_eq, slice_self]
        subst this
        simpa using h2
      · simp only [h2, if_false]
        refine ⟨n + 1, _, rfl, by omega, by rw [hvs', hp]; rfl, by intro h; omega, fun _ => Or.inl (by omega)⟩
    · simp only [h1, if_false]
      obtain ⟨ln, lvs, e1, e2, e3, e4, e5⟩ :=
        ih (pos + 1) (n + 1) (vs + (b.ents[pos]).size) (by omega) (by omega) hvs' (fun _ => by omega)
      refine ⟨ln, lvs, e1, by omega, e3, ?_, e5⟩
      intro h0 _
      -- `ln = 0` is impossible here: the recursive call starts from `n + 1`
      exfalso
      have : n + 1 ≤ ln := by
        clear e4 e5 e3 e2
        revert e1
        generalize (vs + (b.ents[pos]).size) = w
        intro e1
        exact splitLoop_mono b g target limit cnt (pos + 1) (n + 1) w ln lvs e1
      omega
where
  splitLoop_mono (b : Base V) (g : Gauge) (target limit : Nat) :
      ∀ cnt pos n vs ln lvs, splitLoop b g target limit cnt pos n vs = some (ln, lvs) → n ≤ ln := by
    intro cnt
    induction cnt with
    | zero => intro pos n vs ln lvs h; simp [splitLoop] at h; omega
    | succ cnt ih =>
      intro pos n vs ln lvs h
      simp only [splitLoop] at h
      split at h
      · simp at h
      · split at h
        · split at h
          · simp at h; omega
          · simp at h; omega
        · have := ih _ _ _ _ _ h; omega

theorem trySplit_spec (b : Base V) (g : Gauge) (f t vs : Nat) (rest : List (Op V)) (target limit : Nat)
    (h1 : f < t) (h2 : t ≤ b.ents.length) (h3 : vs = valuesSize b.ents f t) :
    ∃ ln lvs todo', trySplit b g (.keep f t vs :: rest) target limit = some (ln, lvs, todo') ∧ ln ≤ t - f ∧
      lvs = valuesSize b.ents f (f + ln) ∧
      (ln = 0 → todo' = .keep f t vs :: rest ∧ FirstOver b g f limit) ∧
      (0 < ln → (g.bodyAfter ln lvs ≤ limit ∨ g.bodyAfter ln lvs < target) ∧
        ((ln = t - f ∧ todo' = .keep f t vs :: rest ∧ lvs = vs) ∨
         (ln < t - f ∧ todo' = .keep f (f + ln) lvs :: .keep (f + ln) t (vs - lvs) :: rest))) := by
  obtain ⟨ln, lvs, e1, e2, e3, e4, e5⟩ :=
    splitLoop_spec b g target limit f (t - f) f 0 0 rfl (by omega) (by simp [valuesSize_eq, slice_self])
      (fun h => by omega)
  have e2' : ln ≤ t - f := by rw [Nat.zero_add] at e2; exact e2
  have hmid : f + ln ≤ t := by clear e4 e5; omega
  have hle : lvs ≤ vs := by
    rw [e3, h3, valuesSize_split b.ents f (f + ln) t (Nat.le_add_right _ _) hmid]; exact Nat.le_add_right _ _
  simp only [trySplit, e1]
  by_cases hc : (ln != 0 && t - f != ln) = true
  · simp only [hc, if_true, Nat.not_lt.mpr hle, if_false]
    simp only [Bool.and_eq_true, bne_iff_ne, ne_eq] at hc
    refine ⟨ln, lvs, _, rfl, e2', e3, by intro h; exact absurd h hc.1, ?_⟩
    intro hpos
    exact ⟨e5 hpos, Or.inr ⟨Nat.lt_of_le_of_ne e2' (fun h => hc.2 h.symm), rfl⟩⟩
  · simp only [hc]
    simp only [Bool.and_eq_true, bne_iff_ne, ne_eq, not_and, Decidable.not_not] at hc
    refine ⟨ln, lvs, _, rfl, e2', e3, ?_, ?_⟩
    · intro h0; exact ⟨rfl, e4 h0 (Nat.sub_pos_of_lt h1)⟩
    · intro hpos
      have hl : t - f = ln := hc (Nat.pos_iff_ne_zero.1 hpos)
      refine ⟨e5 hpos, Or.inl ⟨hl.symm, rfl, ?_⟩⟩
      have : f + ln = t := by clear e4 e5; omega
      rw [e3, h3, this]

/-! ## the loop -/

def headKeep : List (Op V) → Nat
  | .keep _ _ _ :: _ => 1
  | _ => 0

/-- the termination measure of the loop -/
def mu (b? : Option (Base V)) (todo : List (Op V)) : Nat := 2 * (den b? todo).length + headKeep todo

theorem headKeep_le (l : List (Op V)) : headKeep l ≤ 1 := by
  unfold headKeep; split <;> omega

theorem mu_le (b? : Option (Base V)) (l : List (Op V)) : mu b? l ≤ 2 * (den b? l).length + 1 := by
  have := headKeep_le l; simp only [mu]; omega

theorem mu_ins (b? : Option (Base V)) (e : Entry V) (l : List (Op V)) :
    mu b? (.ins e :: l) = 2 * (den b? l).length + 2 := by
  simp only [mu, den_cons, denOp, headKeep, List.length_append, List.length_cons, List.length_nil]; omega

theorem mu_keep (b? : Option (Base V)) (f t vs : Nat) (l : List (Op V)) :
    mu b? (.keep f t vs :: l) = 2 * ((denOp b? (.keep f t vs)).length + (den b? l).length) + 1 := by
  simp only [mu, den_cons, headKeep, List.length_append]

structure ConsumeOut (b? : Option (Base V)) (target : Nat) (done todo : List (Op V))
    (r : Gauge × List (Op V) × List (Op V) × Bool) : Prop where
  den_eq : den b? r.2.1 ++ den b? r.2.2.1 = den b? done ++ den b? todo
  wf : WF b? (r.2.1 ++ r.2.2.1)
  gauge : r.1 = gaugeOf (den b? r.2.1)
  le_body : r.1.body ≤ BODY
  flag : r.2.2.2 = true → r.1.body < target ∧ BODY < r.1.body + 34 + MAXV ∧ r.2.2.1 ≠ []
  noflag : r.2.2.2 = false → r.1.body < target → r.2.2.1 = []

theorem gaugeOf_snoc_op (b? : Option (Base V)) (done : List (Op V)) (op : Op V) :
    gaugeOf (den b? (done ++ [op])) =
      (gaugeOf (den b? done)).ingest (denOp b? op).length (total (denOp b? op)) := by
  simp [gaugeOf_append]

theorem consumeLoop_spec (b? : Option (Base V)) (target : Nat) (ht : target ≤ BODY) :
    ∀ fuel g done todo, WF b? (done ++ todo) → SizeOK (den b? todo) → g = gaugeOf (den b? done) → g.body ≤ BODY →
      mu b? todo < fuel →
      ∃ r, consumeLoop b? target fuel g done todo = some r ∧ ConsumeOut b? target done todo r := by
  intro fuel
  induction fuel with
  | zero => intro g done todo _ _ _ _ h; omega
  | succ fuel ih =>
    intro g done todo hwf hsz hg hgb hfuel
    cases todo with
    | nil =>
      refine ⟨_, rfl, ⟨rfl, hwf, hg, hgb, by simp, by simp⟩⟩
    | cons op rest =>
      simp only [consumeLoop]
      by_cases h0 : g.body ≥ target
      · simp only [h0, if_true]
        exact ⟨_, rfl, ⟨rfl, hwf, hg, hgb, by simp, fun _ h => by simp at h; omega⟩⟩
      · simp only [h0, if_false]
        have hlt : g.body < target := by omega
        have hwf2 := wf_append.1 hwf
        have hop : OpOK b? op := (wf_cons.1 hwf2.2).1
        have hwfr : WF b? rest := (wf_cons.1 hwf2.2).2
        -- the recursive call after consuming the head `op'` of `op' :: rest'`
        have step : ∀ (op' : Op V) (rest' : List (Op V)) (g' : Gauge),
            WF b? ((done ++ [op']) ++ rest') → SizeOK (den b? rest') →
            g' = gaugeOf (den b? (done ++ [op'])) → g'.body ≤ BODY → mu b? rest' < fuel →
            den b? (done ++ [op']) ++ den b? rest' = den b? done ++ den b? (op :: rest) →
            ∃ r, consumeLoop b? target fuel g' (done ++ [op']) rest' = some r ∧
              ConsumeOut b? target done (op :: rest) r := by
          intro op' rest' g' hw hs hg' hgb' hf hden
          obtain ⟨r, e, o⟩ := ih g' (done ++ [op']) rest' hw hs hg' hgb' hf
          exact ⟨r, e, ⟨by rw [o.den_eq, hden], o.wf, o.gauge, o.le_body, o.flag, o.noflag⟩⟩
        cases op with
        | ins e =>
          have hes : e.size ≤ MAXV := hsz e (by simp [denOp])
          by_cases h1 : g.bodyAfter 1 e.size > BODY
          · simp only [h1, if_true]
            refine ⟨_, rfl, ⟨rfl, hwf, hg, hgb, ?_, by simp⟩⟩
            intro _
            rw [gauge_bodyAfter] at h1
            exact ⟨hlt, by simp only; omega, by simp⟩
          · simp only [h1, if_false]
            apply step (.ins e) rest
            · simpa using hwf
            · exact fun x hx => hsz x (by simp [denOp, hx])
            · rw [gaugeOf_snoc_op, hg]; simp [denOp, Entry.size]
            · rw [gauge_ingest_body]; rw [gauge_bodyAfter] at h1; omega
            · have := mu_le b? rest
              rw [mu_ins] at hfuel
              omega
            · simp
        | keep f t vs =>
          obtain ⟨hbs, hft, htl, hvs⟩ := hop
          cases b? with
          | none => simp at hbs
          | some b =>
            simp only [baseEnts] at htl hvs
            have hlen : (denOp (some b) (.keep f t vs)).length = t - f := by
              simp [denOp, baseEnts, slice_length _ _ _ htl]
            have htot : total (denOp (some b) (.keep f t vs)) = vs := by
              simp [denOp, baseEnts, hvs, valuesSize_eq]
            simp only [Nat.not_lt.mpr (Nat.le_of_lt hft), if_false]
            by_cases h1 : g.bodyAfter (t - f) vs > target
            · simp only [h1, if_true]
              obtain ⟨ln, lvs, todo', e1, e2, e3, e4, e5⟩ :=
                trySplit_spec b g f t vs rest target BODY hft htl hvs
              simp only [e1]
              by_cases hz : ln = 0
              · -- nothing of the chunk fits: its first cell becomes an `Insert`, which then overflows the leaf
                subst hz
                obtain ⟨htodo, e, hef, hover⟩ := e4 rfl
                clear e4 e5
                subst htodo
                have hfl : f < b.ents.length := by omega
                have hee : e = b.ents[f] := by
                  rw [List.getElem?_eq_getElem hfl] at hef; exact (Option.some.inj hef).symm
                have ht0 : ¬ (t == 0) = true := by simp; omega
                simp only [extractInsert, hef, ht0, if_false, beq_self_eq_true, if_true]
                have hes : e.size ≤ MAXV := by
                  apply hsz e
                  simp only [den_cons, denOp, baseEnts, List.mem_append]
                  left; rw [slice_cons_of_lt _ _ _ hft hfl, hee]; simp
                by_cases hlast : f = t - 1
                · have hlast' : (f == t - 1) = true := by simp [hlast]
                  simp only [hlast', if_true]
                  have hden : den (some b) (.ins e :: rest) = den (some b) (.keep f t vs :: rest) := by
                    simp only [den_cons, denOp, baseEnts]
                    have : t = f + 1 := by omega
                    rw [this, slice_succ _ _ hfl, hee]
                  have hwf' : WF (some b) (done ++ .ins e :: rest) :=
                    wf_append.2 ⟨hwf2.1, wf_cons.2 ⟨trivial, hwfr⟩⟩
                  obtain ⟨r, er, o⟩ := ih g done (.ins e :: rest) hwf' (by rw [hden]; exact hsz) hg hgb (by
                    have h1 : mu (some b) (.ins e :: rest) = 2 * (den (some b) (.ins e :: rest)).length := by
                      simp [mu, headKeep]
                    have h2 : mu (some b) (.keep f t vs :: rest) = 2 * (den (some b) (.keep f t vs :: rest)).length + 1 := by
                      simp [mu, headKeep]
                    rw [h1, hden]; rw [h2] at hfuel; omega)
                  exact ⟨r, er, ⟨by rw [o.den_eq, hden], o.wf, o.gauge, o.le_body, o.flag, o.noflag⟩⟩
                · have hlast' : (f == t - 1) = false := by simp [hlast]
                  have hvle : ¬ vs < e.size := by
                    rw [hvs, valuesSize_first _ _ _ hft hfl, hee]; omega
                  simp only [hlast', hvle, if_false]
                  have hvs2 : vs - e.size = valuesSize b.ents (f + 1) t := by
                    rw [hvs, valuesSize_first _ _ _ hft hfl, hee]; omega
                  have hden : den (some b) (.ins e :: .keep (f + 1) t (vs - e.size) :: rest) =
                      den (some b) (.keep f t vs :: rest) := by
                    simp only [den_cons, denOp, baseEnts]
                    rw [slice_cons_of_lt _ _ _ hft hfl, hee]; simp
                  have hwf' : WF (some b) (done ++ .ins e :: .keep (f + 1) t (vs - e.size) :: rest) :=
                    wf_append.2 ⟨hwf2.1, wf_cons.2 ⟨trivial, wf_cons.2 ⟨⟨rfl, by omega, htl, hvs2⟩, hwfr⟩⟩⟩
                  obtain ⟨r, er, o⟩ := ih g done _ hwf' (by rw [hden]; exact hsz) hg hgb (by
                    have h1 : mu (some b) (.ins e :: .keep (f + 1) t (vs - e.size) :: rest) =
                        2 * (den (some b) (.ins e :: .keep (f + 1) t (vs - e.size) :: rest)).length := by
                      simp [mu, headKeep]
                    have h2 : mu (some b) (.keep f t vs :: rest) = 2 * (den (some b) (.keep f t vs :: rest)).length + 1 := by
                      simp [mu, headKeep]
                    rw [h1, hden]; rw [h2] at hfuel; omega)
                  exact ⟨r, er, ⟨by rw [o.den_eq, hden], o.wf, o.gauge, o.le_body, o.flag, o.noflag⟩⟩
              · have hz' : (ln == 0) = false := by simp [hz]
                simp only [hz', Bool.false_eq_true, if_false]
                obtain ⟨hbound, hcase⟩ := e5 (Nat.pos_of_ne_zero hz)
                clear e4 e5
                have hgb' : (g.ingest ln lvs).body ≤ BODY := by
                  rw [gauge_ingest_body]; rw [gauge_bodyAfter] at hbound; omega
                rcases hcase with ⟨hl, htodo, hlv⟩ | ⟨hl, htodo⟩
                · subst htodo
                  apply step (.keep f t vs) rest
                  · simpa using hwf
                  · exact hsz.right
                  · rw [gaugeOf_snoc_op, hg, hlen, htot, hl, hlv]
                  · exact hgb'
                  · have := mu_le (some b) rest
                    rw [mu_keep, hlen] at hfuel
                    omega
                  · simp
                · subst htodo
                  have hmid : f + ln ≤ b.ents.length := by omega
                  have hvr : vs - lvs = valuesSize b.ents (f + ln) t := by
                    rw [hvs, e3, valuesSize_split b.ents f (f + ln) t (by omega) (by omega)]; omega
                  have hlenL : (denOp (some b) (.keep f (f + ln) lvs)).length = ln := by
                    simp [denOp, baseEnts, slice_length _ _ _ hmid]
                  have htotL : total (denOp (some b) (.keep f (f + ln) lvs)) = lvs := by
                    simp [denOp, baseEnts, e3, valuesSize_eq]
                  have hdenS : denOp (some b) (.keep f (f + ln) lvs) ++ denOp (some b) (.keep (f + ln) t (vs - lvs)) =
                      denOp (some b) (.keep f t vs) := by
                    simp only [denOp, baseEnts]
                    exact slice_append _ _ _ _ (by omega) (by omega)
                  apply step (.keep f (f + ln) lvs) (.keep (f + ln) t (vs - lvs) :: rest)
                  · rw [List.append_assoc]
                    exact wf_append.2 ⟨hwf2.1, wf_cons.2 ⟨⟨rfl, by omega, hmid, e3⟩,
                      wf_cons.2 ⟨⟨rfl, by omega, htl, hvr⟩, hwfr⟩⟩⟩
                  · intro x hx
                    apply hsz x
                    simp only [den_cons, List.mem_append] at hx ⊢
                    rcases hx with hx | hx
                    · left; rw [← hdenS]; exact List.mem_append_right _ hx
                    · right; exact hx
                  · rw [gaugeOf_snoc_op, hg, hlenL, htotL]
                  · exact hgb'
                  · have hlr : (denOp (some b) (.keep (f + ln) t (vs - lvs))).length = t - (f + ln) := by
                      simp [denOp, baseEnts, slice_length _ _ _ htl]
                    rw [mu_keep, hlen] at hfuel
                    rw [mu_keep, hlr]
                    omega
                  · simp only [den_append, den_cons, den_nil, List.append_nil, List.append_assoc]
                    rw [← hdenS]; simp
            · simp only [h1, if_false]
              apply step (.keep f t vs) rest
              · simpa using hwf
              · exact hsz.right
              · rw [gaugeOf_snoc_op, hg, hlen, htot]
              · rw [gauge_ingest_body]; rw [gauge_bodyAfter] at h1; omega
              · have := mu_le (some b) rest
                rw [mu_keep, hlen] at hfuel
                omega
              · simp

end Nomt.LeafUpd
