import NomtModel.Store.SyncGenInv4
import NomtModel.Store.SyncGenRec
/-!
# The recovery choreography is accepted by `checkRecoveryOrder`

One thread, so one trace per parameter choice: redo every table page (any number), fsync the table, truncate + fsync the
redo log, unlink the segments outside the live range (any number), truncate + fsync the head segment.  The only clause
of the monitor that can object is "the redo log is truncated while a table page is not durable"; the table fsync that
precedes the truncation (`RVariant.htFsync`, the repair of F17) is what discharges it.
-/
namespace Nomt.Store.SyncGen
open Nomt.Store

/-- recovery runs in the monitor's post-switch-over phase throughout -/
structure RInv (st : OrderSt) (id : Nat) : Prop where
  g : GInv st id
  phase : st.phase = 2
  walW : st.walWritten = true

structure RecParams.WF (R : RecParams) : Prop where
  head : ∀ h n, R.head = some (h, n) → h ∉ reserved

def RecParams.wfB (R : RecParams) : Bool :=
  match R.head with | some (h, _) => !reserved.contains h | none => true

theorem RecParams.wfB_sound (R : RecParams) (h : R.wfB = true) : R.WF := by
  refine ⟨fun hd n hh => ?_⟩
  simp only [RecParams.wfB, hh, Bool.not_eq_true', List.contains_eq_mem, decide_eq_false_iff_not] at h
  exact h

theorem rinv_next {st st' : OrderSt} {id : Nat} {l : IoEv2} (h : RInv st id) (hs : orderStep st id l = .ok st')
    (hph : st'.phase = st.phase) (hw : st'.walWritten = st.walWritten) : RInv st' (id + 1) :=
  ⟨(orderStep_generic h.g l hs).1, by rw [hph]; exact h.phase, by rw [hw]; exact h.walW⟩

/-- two lines `call th e` run from `st`: the first step's result is fed to the second -/
theorem orderRun_call (st : OrderSt) (id : Nat) (th : String) (e : IoEv) (rest : List IoEv2) :
    orderRun st id (call th e ++ rest) =
      match orderStep st id ⟨true, e, th⟩ with
      | .error m => .error m
      | .ok st1 => match orderStep st1 (id + 1) ⟨false, e, th⟩ with
        | .error m => .error m
        | .ok st2 => orderRun st2 (id + 2) rest := by
  simp only [call, List.cons_append, List.nil_append, orderRun]
  cases orderStep st id ⟨true, e, th⟩ with
  | error m => rfl
  | ok st1 =>
    simp only
    cases orderStep st1 (id + 1) ⟨false, e, th⟩ with
    | error m => rfl
    | ok st2 => rfl

/-- the redo loop: every table page is written and has completed; nothing of `ht` is in flight afterwards -/
theorem redo_accepted (th : String) : ∀ (pages : List (Nat × Nat × String)) (st : OrderSt) (id : Nat) (rest : List IoEv2),
    RInv st id → Holds "ht" st (.opn zeroN) →
    ∃ st', orderRun st id (redoLines th pages ++ rest) = orderRun st' (id + (redoLines th pages).length) rest ∧
      RInv st' (id + (redoLines th pages).length) ∧ Holds "ht" st' (.opn zeroN) := by
  intro pages
  induction pages with
  | nil => intro st id rest h hh; exact ⟨st, rfl, h, hh⟩
  | cons pg pages ih =>
    intro st id rest h hh
    obtain ⟨off, len, site⟩ := pg
    obtain ⟨st1, hs1, hpend1, hsy1, hph1, _, hww1⟩ := step_beginData st id (ev "Write" "ht" off len site) th rfl
      (by simp [ev]) (by rw [h.phase]; omega) (fun _ => ⟨h.phase, h.walW⟩) (fun hf => by simp [ev] at hf)
      (fun hf => by simp [ev] at hf)
    have h1 : RInv st1 (id + 1) := rinv_next h hs1 hph1 (by rw [hww1]; simp [ev])
    have hh1 := hh.begin id (ev "Write" "ht" off len site) rfl hpend1 hsy1
    obtain ⟨st2, hs2, hpend2, hsy2, hph2, _, hww2⟩ := step_endData st1 (id + 1) (ev "Write" "ht" off len site) th rfl
    have h2 : RInv st2 (id + 1 + 1) := rinv_next h1 hs2 hph2 hww2
    have hh2 : Holds "ht" st2 (.opn zeroN) :=
      (hh1.endData h1.g _ rfl rfl hpend2 hsy2).opn_congr (fun k => by
        simp only [drop1, bump, zeroN]; split <;> rfl)
    obtain ⟨st', hr, h', hh'⟩ := ih st2 (id + 2) rest h2 hh2
    refine ⟨st', ?_, ?_, hh'⟩
    · simp only [redoLines, List.append_assoc]
      rw [orderRun_call, hs1]
      simp only
      rw [hs2]
      simp only
      rw [hr]
      congr 1
      simp [call]; omega
    · have : id + (redoLines th ((off, len, site) :: pages)).length = id + 2 + (redoLines th pages).length := by
        simp [redoLines, call]; omega
      rw [this]; exact h'

/-- a synchronous data operation on a file that is neither `meta` nor `ht`, issued when nothing of `ht` is pending
(needed for `wal` only), followed by an fsync of the same file: accepted, and `ht` still reads `clean` -/
theorem sync_write_accepted (th f : String) (e : IoEv) (site2 : String) (hk : isDataKind e.kind = true) (hf : e.file = f)
    (hne : f ≠ "meta") (hne2 : f ≠ "ht") (hne3 : f ≠ "ln") (hne4 : f ≠ "bbn")
    (st : OrderSt) (id : Nat) (rest : List IoEv2) (h : RInv st id) (hh : Holds "ht" st .clean) :
    ∃ st', orderRun st id (call th e ++ call th (ev "Fsync" f 0 0 site2) ++ rest) = orderRun st' (id + 4) rest ∧
      RInv st' (id + 4) ∧ Holds "ht" st' .clean := by
  have hlf1 : ∀ b, lineFile ⟨b, e, th⟩ = f := fun b => by rw [lineFile_data b e th hk, hf]
  obtain ⟨st1, hs1, hpend1, hsy1, hph1, _, hww1⟩ := step_beginData st id e th hk (by rw [hf]; exact hne)
    (by rw [h.phase]; omega) (fun h' => absurd (hf.symm.trans h') hne2) (fun _ _ q hq => hh.1 q hq)
    (fun h' => by rcases h' with h' | h'; exact absurd (hf.symm.trans h') hne3; exact absurd (hf.symm.trans h') hne4)
  have h1 : RInv st1 (id + 1) := rinv_next h hs1 hph1 (by rw [hww1, h.walW]; rfl)
  have hh1 : Holds "ht" st1 .clean := hh.same ((orderStep_generic h.g _ hs1).2.1 "ht" (by rw [hlf1]; exact Ne.symm hne2))
  obtain ⟨st2, hs2, hpend2, hsy2, hph2, _, hww2⟩ := step_endData st1 (id + 1) e th hk
  have h2 : RInv st2 (id + 1 + 1) := rinv_next h1 hs2 hph2 hww2
  have hh2 : Holds "ht" st2 .clean := hh1.same ((orderStep_generic h1.g _ hs2).2.1 "ht" (by rw [hlf1]; exact Ne.symm hne2))
  obtain ⟨st3, hs3, hpend3, hsy3, hph3, _, hww3⟩ := step_beginFsync st2 (id + 1 + 1) f 0 0 site2 th
  have h3 : RInv st3 (id + 1 + 1 + 1) := rinv_next h2 hs3 hph3 hww3
  have hlf3 : ∀ b, lineFile ⟨b, ev "Fsync" f 0 0 site2, th⟩ = f := fun b => rfl
  have hh3 : Holds "ht" st3 .clean := hh2.same ((orderStep_generic h2.g _ hs3).2.1 "ht" (by rw [hlf3]; exact Ne.symm hne2))
  -- the End of the fsync is accepted whatever the in-flight list holds
  cases hs4 : orderStep st3 (id + 1 + 1 + 1) ⟨false, ev "Fsync" f 0 0 site2, th⟩ with
  | error m =>
    exfalso
    unfold orderStep at hs4
    simp (config := { decide := true }) only [ev, isDataKind, Bool.false_eq_true, if_false, Bool.or_false, Bool.or_self,
      beq_self_eq_true, Bool.true_or, if_true] at hs4
    split at hs4 <;> cases hs4
  | ok st4 =>
    obtain ⟨hg4, hsame4, _⟩ := orderStep_generic h3.g _ hs4
    have hph4 : st4.phase = 2 ∧ st4.walWritten = true := by
      unfold orderStep at hs4
      simp (config := { decide := true }) only [ev, isDataKind, Bool.false_eq_true, if_false, Bool.or_false, Bool.or_self,
        beq_self_eq_true, Bool.true_or, if_true] at hs4
      split at hs4
      · injection hs4 with hs4; subst hs4; exact ⟨h3.phase, h3.walW⟩
      · injection hs4 with hs4; subst hs4
        refine ⟨?_, h3.walW⟩
        simp [h3.phase]
    refine ⟨st4, ?_, ⟨hg4, hph4.1, hph4.2⟩, hh3.same (hsame4 "ht" (by rw [hlf3]; exact Ne.symm hne2))⟩
    simp only [List.append_assoc]
    rw [orderRun_call, hs1]
    simp only
    rw [hs2]
    simp only
    rw [orderRun_call, hs3]
    simp only
    rw [hs4]

/-- the unlinks of `seglog::open`: always accepted in the post-switch-over phase -/
theorem unlinks_accepted (th : String) : ∀ (us : List (String × String)) (st : OrderSt) (id : Nat) (rest : List IoEv2),
    RInv st id → Holds "ht" st .clean →
    ∃ st', orderRun st id (unlinkLines th us ++ rest) = orderRun st' (id + (unlinkLines th us).length) rest ∧
      RInv st' (id + (unlinkLines th us).length) ∧ Holds "ht" st' .clean := by
  intro us
  induction us with
  | nil => intro st id rest h hh; exact ⟨st, rfl, h, hh⟩
  | cons u us ih =>
    intro st id rest h hh
    obtain ⟨n, site⟩ := u
    obtain ⟨st1, hs1, _, _, hph1, _, hww1⟩ := step_beginDir st id (ev "Unlink" n 0 0 site) th rfl rfl
      (by rw [h.phase]; omega) (fun _ => by rw [h.phase]; omega)
    have h1 : RInv st1 (id + 1) := rinv_next h hs1 hph1 hww1
    have hh1 : Holds "ht" st1 .clean := hh.same ((orderStep_generic h.g _ hs1).2.1 "ht" (by show "ht" ≠ "dir"; decide))
    have hs2 := step_endDir st1 (id + 1) (ev "Unlink" n 0 0 site) th rfl (by simp [ev]) (by simp [ev])
    have h2 : RInv st1 (id + 1 + 1) := rinv_next h1 hs2 rfl rfl
    obtain ⟨st', hr, h', hh'⟩ := ih st1 (id + 2) rest h2 hh1
    refine ⟨st', ?_, ?_, hh'⟩
    · simp only [unlinkLines, List.append_assoc]
      rw [orderRun_call, hs1]
      simp only
      rw [hs2]
      simp only
      rw [hr]
      congr 1
      simp [call]; omega
    · have : id + (unlinkLines th ((n, site) :: us)).length = id + 2 + (unlinkLines th us).length := by
        simp [unlinkLines, call]; omega
      rw [this]; exact h'

theorem rinv_init : RInv { phase := 2, walWritten := true } 0 := ⟨ginv_init _ rfl rfl, rfl, rfl⟩

theorem orderRun_nil' (st : OrderSt) (id : Nat) : orderRun st id [] = .ok st := rfl

/-- **the recovery choreography is accepted** -/
theorem recovery_accepted (R : RecParams) (hwf : R.WF) : ∃ st, checkRecoveryOrder (recLines {} R) = .ok st := by
  unfold checkRecoveryOrder recLines
  have h0 : RInv { phase := 2, walWritten := true } 0 := rinv_init
  have hh0 : Holds "ht" ({ phase := 2, walWritten := true } : OrderSt) .clean := holds_clean_of_empty _ _ rfl rfl
  -- the bitbox part
  have hwalpart : ∃ st1 n, orderRun { phase := 2, walWritten := true } 0
        (recWalLines {} R ++ (unlinkLines R.th R.unlinks ++ headLines R.th R.head)) =
        orderRun st1 n (unlinkLines R.th R.unlinks ++ headLines R.th R.head) ∧ RInv st1 n ∧ Holds "ht" st1 .clean := by
    unfold recWalLines
    cases hw : R.wal with
    | absent => exact ⟨_, 0, rfl, h0, hh0⟩
    | stale =>
      obtain ⟨st1, hr, h1, hh1⟩ := sync_write_accepted R.th "wal" (ev "SetLen" "wal" 0 0 "wal.truncate") "wal.truncate.fsync" rfl rfl
        (by decide) (by decide) (by decide) (by decide) _ 0 (unlinkLines R.th R.unlinks ++ headLines R.th R.head) h0 hh0
      exact ⟨st1, _, hr, h1, hh1⟩
    | redo pages =>
      simp only [if_true, List.append_assoc]
      obtain ⟨st1, hr1, h1, hh1⟩ := redo_accepted R.th pages _ 0
        (call R.th (ev "Fsync" "ht" 0 0 "ht.recover.fsync") ++ (truncLines R.th ++
          (unlinkLines R.th R.unlinks ++ headLines R.th R.head))) h0 hh0.clean_opn
      rw [hr1]
      -- the table fsync
      obtain ⟨st2, hs2, hpend2, hsy2, hph2, _, hww2⟩ := step_beginFsync st1 (0 + (redoLines R.th pages).length) "ht" 0 0
        "ht.recover.fsync" R.th
      have h2 := rinv_next h1 hs2 hph2 hww2
      have hh2 := hh1.beginFsync R.th (fun _ => rfl) hpend2 hsy2
      obtain ⟨cov, rest, htk, hrest, hcov⟩ := hh2.endSync
      obtain ⟨st3, hs3, hpend3, hsy3, hph3, _, hww3⟩ := step_endSync st2 (0 + (redoLines R.th pages).length + 1)
        (ev "Fsync" "ht" 0 0 "ht.recover.fsync") R.th "ht" (Or.inl ⟨rfl, rfl⟩) cov rest htk
      have h3 : RInv st3 (0 + (redoLines R.th pages).length + 1 + 1) :=
        ⟨(orderStep_generic h2.g _ hs3).1, by rw [hph3, h2.phase]; simp, by rw [hww3]; exact h2.walW⟩
      have hh3 : Holds "ht" st3 .clean := Holds.clean_of_endSync cov rest hrest hcov hpend3 hsy3
      rw [orderRun_call, hs2]
      simp only
      rw [hs3]
      simp only
      -- the truncation of the redo log: every table page is durable
      obtain ⟨st4, hr4, h4, hh4⟩ := sync_write_accepted R.th "wal" (ev "SetLen" "wal" 0 0 "wal.truncate") "wal.truncate.fsync" rfl rfl
        (by decide) (by decide) (by decide) (by decide) st3 _ (unlinkLines R.th R.unlinks ++ headLines R.th R.head) h3 hh3
      refine ⟨st4, _, ?_, h4, hh4⟩
      unfold truncLines
      exact hr4
  obtain ⟨st1, n1, hr1, h1, hh1⟩ := hwalpart
  simp only [List.append_assoc]
  rw [hr1]
  -- the seglog part
  obtain ⟨st2, hr2, h2, hh2⟩ := unlinks_accepted R.th R.unlinks st1 n1 (headLines R.th R.head) h1 hh1
  rw [hr2]
  cases hhd : R.head with
  | none => exact ⟨st2, rfl⟩
  | some x =>
    obtain ⟨hd, len⟩ := x
    have hn := hwf.head hd len hhd
    simp only [reserved, List.mem_cons, List.not_mem_nil, or_false, not_or] at hn
    obtain ⟨n1', n2', n3', n4', n5', n6'⟩ := hn
    obtain ⟨st3, hr3, _, _⟩ := sync_write_accepted R.th hd (ev "SetLen" hd len 0 "seglog.truncate_head")
      "seglog.truncate_head.fsync" rfl rfl n1' n5' n3' n4' st2 _ [] h2 hh2
    refine ⟨st3, ?_⟩
    have : headLines R.th (some (hd, len)) = call R.th (ev "SetLen" hd len 0 "seglog.truncate_head") ++
        call R.th (ev "Fsync" hd 0 0 "seglog.truncate_head.fsync") ++ [] := by simp [headLines]
    rw [this, hr3]
    rfl

end Nomt.Store.SyncGen
