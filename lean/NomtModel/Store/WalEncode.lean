import NomtModel.Store.WalReader
/-!
The WAL builder mirror = the specification `encode`:

* whatever `reset; write_*…; finalize` returns without panicking is `encode seqn entries`, a multiple of the page size;
* the builder does not panic (no "WAL blob too large", no write past the mapping) as long as the blob stays below
  `MAX_SIZE` = 128 GiB and the mapping size is a positive multiple of the page size (it is `1 << 30`);
* **round trip**: the reader mirror on `encode seqn entries` returns `seqn` and exactly `entries`.
-/
namespace Nomt.Wal
namespace Builder

/-- a sequence of `write` calls -/
def writeMany (b : Builder) : List Bytes → Out Builder
  | [] => .ok b
  | c :: cs => do let b ← b.write c; writeMany b cs

/-- the byte strings `write_clear` / `write_update` hand to `write`, in order -/
def entryChunks : Entry → List Bytes
  | .clear bucket => [[WAL_ENTRY_TAG_CLEAR], leBytes 8 bucket]
  | .update pid d nodes el bucket =>
    [[WAL_ENTRY_TAG_UPDATE], pid, d.asBytes] ++ (nodes ++ [leBytes 8 el, leBytes 8 bucket])

theorem writeMany_append (b : Builder) (xs ys : List Bytes) :
    b.writeMany (xs ++ ys) = (b.writeMany xs >>= fun b => b.writeMany ys) := by
  induction xs generalizing b with
  | nil => rfl
  | cons x xs ih =>
    simp only [List.cons_append, writeMany]
    cases b.write x with
    | ok b' => simp only [bind_ok, ih]
    | err e => rfl
    | panic s => rfl

theorem writeNodes_eq (b : Builder) (ns : List Bytes) : b.writeNodes ns = b.writeMany ns := by
  induction ns generalizing b with
  | nil => rfl
  | cons n ns ih =>
    simp only [writeNodes, writeMany]
    cases b.write n with
    | ok b' => simp only [bind_ok, ih]
    | err e => rfl
    | panic s => rfl

theorem writeEntry_eq (b : Builder) (e : Entry) : b.writeEntry e = b.writeMany (entryChunks e) := by
  cases e with
  | clear bucket =>
    simp only [writeEntry, writeClear, writeByte, entryChunks, writeMany]
    cases b.write [WAL_ENTRY_TAG_CLEAR] with
    | ok b1 =>
      simp only [bind_ok]
      cases b1.write (leBytes 8 bucket) <;> rfl
    | err e => rfl
    | panic s => rfl
  | update pid d nodes el bucket =>
    simp only [writeEntry, writeUpdate, writeByte, entryChunks, List.cons_append, List.nil_append, writeMany]
    cases b.write [WAL_ENTRY_TAG_UPDATE] with
    | ok b1 =>
      simp only [bind_ok]
      cases b1.write pid with
      | ok b2 =>
        simp only [bind_ok]
        cases b2.write d.asBytes with
        | ok b3 =>
          simp only [bind_ok, writeNodes_eq, writeMany_append]
          cases b3.writeMany nodes with
          | ok b4 =>
            simp only [bind_ok, writeMany]
            cases b4.write (leBytes 8 el) with
            | ok b5 =>
              simp only [bind_ok]
              cases b5.write (leBytes 8 bucket) <;> rfl
            | err e => rfl
            | panic s => rfl
          | err e => rfl
          | panic s => rfl
        | err e => rfl
        | panic s => rfl
      | err e => rfl
      | panic s => rfl
    | err e => rfl
    | panic s => rfl

theorem writeEntries_eq (b : Builder) (es : List Entry) :
    b.writeEntries es = b.writeMany (es.map entryChunks).flatten := by
  induction es generalizing b with
  | nil => rfl
  | cons e es ih =>
    simp only [writeEntries, List.map_cons, List.flatten_cons, writeMany_append, writeEntry_eq]
    cases b.writeMany (entryChunks e) with
    | ok b' => simp only [bind_ok, ih]
    | err e => rfl
    | panic s => rfl

theorem entryChunks_flatten (e : Entry) : (entryChunks e).flatten = encEntry e := by
  cases e with
  | clear bucket => simp [entryChunks, encEntry]
  | update pid d nodes el bucket => simp [entryChunks, encEntry]

theorem chunks_flatten (es : List Entry) :
    ((es.map entryChunks).flatten).flatten = (es.map encEntry).flatten := by
  induction es with
  | nil => rfl
  | cons e es ih => simp only [List.map_cons, List.flatten_cons, List.flatten_append, entryChunks_flatten, ih]

/-! ### partial correctness -/

theorem write_ok {b b' : Builder} {c : Bytes} (h : b.write c = .ok b') :
    b'.chunks = c :: b.chunks ∧ b'.cur = b.cur + c.length ∧ b'.cur ≤ b'.size := by
  unfold write at h
  by_cases h1 : b.cur + c.length ≥ 2 ^ 64
  · simp [h1] at h
  · simp only [h1, if_false] at h
    by_cases h2 : b.cur + c.length ≥ b.size
    · simp only [h2, if_true] at h
      by_cases h3 : b.size ≥ MAX_SIZE
      · simp [h3] at h
      · simp only [h3, if_false] at h
        by_cases h4 : b.cur + c.length > min (growLoop 64 b.size (b.cur + c.length)) MAX_SIZE
        · simp [h4] at h
        · simp only [h4, if_false] at h
          injection h with h; subst h
          exact ⟨rfl, rfl, by dsimp only; omega⟩
    · simp only [h2, if_false] at h
      by_cases h4 : b.cur + c.length > b.size
      · simp [h4] at h
      · simp only [h4, if_false] at h
        injection h with h; subst h
        exact ⟨rfl, rfl, by dsimp only; omega⟩

theorem asSlice_cons (b : Builder) (c : Bytes) :
    ({ b with chunks := c :: b.chunks } : Builder).asSlice = b.asSlice ++ c := by
  simp [asSlice]

theorem writeMany_ok {cs : List Bytes} : ∀ {b b' : Builder}, b.writeMany cs = .ok b' →
    b'.asSlice = b.asSlice ++ cs.flatten ∧ b'.cur = b.cur + cs.flatten.length := by
  induction cs with
  | nil => intro b b' h; injection h with h; subst h; simp
  | cons c cs ih =>
    intro b b' h
    simp only [writeMany] at h
    cases hw : b.write c with
    | ok b1 =>
      rw [hw] at h
      simp only [bind_ok] at h
      obtain ⟨h1, h2⟩ := ih h
      obtain ⟨g1, g2, _⟩ := write_ok hw
      have : b1.asSlice = b.asSlice ++ c := by simp [asSlice, g1]
      refine ⟨?_, ?_⟩
      · rw [h1, this]; simp
      · rw [h2, g2]; simp; omega
    | err e => rw [hw] at h; cases h
    | panic s => rw [hw] at h; cases h

theorem padLen_spec (n : Nat) : (n + padLen n) % PAGE_SIZE = 0 ∧ padLen n < PAGE_SIZE := by
  unfold padLen PAGE_SIZE
  omega

/-- **the encoder's output length is a multiple of the page size** -/
theorem encode_length_mod (seqn : Nat) (es : List Entry) : (encode seqn es).length % PAGE_SIZE = 0 := by
  unfold encode
  simp only [List.length_append, List.length_replicate]
  exact (padLen_spec _).1

/-- mirror = spec (partial correctness): whatever `reset(seqn); write_*(entries); finalize()` leaves in the builder
without panicking is `encode seqn entries` -/
theorem run_ok {b b' : Builder} {seqn : Nat} {es : List Entry} (h : b.run seqn es = .ok b') :
    b'.asSlice = encode seqn es := by
  unfold run at h
  -- reset
  cases hr : b.reset seqn with
  | ok b1 =>
    rw [hr] at h; simp only [bind_ok] at h
    have hreset : b1.asSlice = WAL_ENTRY_TAG_START :: leBytes 4 seqn ∧ b1.cur = 5 := by
      unfold reset writeByte at hr
      cases hw : ({ b with chunks := [], cur := 0 } : Builder).write [WAL_ENTRY_TAG_START] with
      | ok b0 =>
        rw [hw] at hr; simp only [bind_ok] at hr
        obtain ⟨a1, a2, _⟩ := write_ok hw
        obtain ⟨c1, c2, _⟩ := write_ok hr
        simp only at a1 a2
        refine ⟨by simp [asSlice, c1, a1], by rw [c2, a2]; simp⟩
      | err e => rw [hw] at hr; cases hr
      | panic s => rw [hw] at hr; cases hr
    cases he : b1.writeEntries es with
    | ok b2 =>
      rw [he] at h; simp only [bind_ok] at h
      rw [writeEntries_eq] at he
      obtain ⟨e1, e2⟩ := writeMany_ok he
      rw [chunks_flatten] at e1 e2
      -- finalize
      unfold finalize writeByte at h
      cases hw : b2.write [WAL_ENTRY_TAG_END] with
      | ok b3 =>
        rw [hw] at h; simp only [bind_ok] at h
        obtain ⟨f1, f2, _⟩ := write_ok hw
        split at h
        · cases h
        · simp only [pure_eq_ok] at h
          injection h with h; subst h
          have hbody : b3.asSlice = encBody seqn es := by
            have : b3.asSlice = b2.asSlice ++ [WAL_ENTRY_TAG_END] := by simp [asSlice, f1]
            rw [this, e1, hreset.1]
            simp [encBody]
          have hcur : b3.cur = (encBody seqn es).length := by
            rw [f2, e2, hreset.2]
            simp [encBody]
            omega
          show (List.replicate _ 0 :: b3.chunks).reverse.flatten = _
          have : (List.replicate ((b3.cur + PAGE_SIZE - 1) / PAGE_SIZE * PAGE_SIZE - b3.cur) (0 : UInt8) :: b3.chunks).reverse.flatten
              = b3.asSlice ++ List.replicate ((b3.cur + PAGE_SIZE - 1) / PAGE_SIZE * PAGE_SIZE - b3.cur) 0 := by
            simp [asSlice]
          rw [this, hbody, hcur]
          rfl
      | err e => rw [hw] at h; cases h
      | panic s => rw [hw] at h; cases h
    | err e => rw [he] at h; cases h
    | panic s => rw [he] at h; cases h
  | err e => rw [hr] at h; cases h
  | panic s => rw [hr] at h; cases h

end Builder

/-! ### round trip -/

theorem length_le_enc (es : List Entry) : es.length ≤ ((es.map encEntry).flatten).length := by
  induction es with
  | nil => simp
  | cons e es ih =>
    simp only [List.map_cons, List.flatten_cons, List.length_append, List.length_cons]
    have : 1 ≤ (encEntry e).length := by cases e <;> simp [encEntry]
    omega

theorem encode_eq (seqn : Nat) (es : List Entry) :
    encode seqn es = WAL_ENTRY_TAG_START :: (leBytes 4 seqn ++ ((es.map encEntry).flatten ++
      WAL_ENTRY_TAG_END :: List.replicate (padLen (encBody seqn es).length) 0)) := by
  simp [encode, encBody]

theorem encode_length (seqn : Nat) (es : List Entry) :
    (encode seqn es).length = (encBody seqn es).length + padLen (encBody seqn es).length := by
  unfold encode
  rw [List.length_append, List.length_replicate]

theorem encBody_length (seqn : Nat) (es : List Entry) :
    (encBody seqn es).length = 6 + ((es.map encEntry).flatten).length := by
  unfold encBody
  rw [List.length_cons, List.length_append, List.length_append, leBytes_length]
  simp only [List.length_cons, List.length_nil]
  omega

/-- the reader on the blob of `(seqn, entries)`: `new` succeeds with `seqn`, the loop returns the entries -/
theorem reader_encode (seqn : Nat) (hs : seqn < 2 ^ 32) (es : List Entry) (hes : ∀ e ∈ es, e.Honest) :
    ∃ r, Reader.new (encode seqn es).toArray = .ok r ∧ r.seqn = seqn ∧
      Reader.readLoop ((encode seqn es).toArray.size + 1) r [] = (.ok es, es) := by
  have hmod := Builder.encode_length_mod seqn es
  have hlen : es.length + 6 ≤ (encode seqn es).length := by
    have := length_le_enc es
    rw [encode_length, encBody_length]
    omega
  obtain ⟨file, hfile⟩ : ∃ f : Array UInt8, f = (encode seqn es).toArray := ⟨_, rfl⟩
  have hsize : file.size = (encode seqn es).length := by rw [hfile]; simp
  have hrest0 : ({ wal := file, offset := 0, seqn := 0 } : Reader).rest = WAL_ENTRY_TAG_START :: (leBytes 4 seqn ++
      ((es.map encEntry).flatten ++ WAL_ENTRY_TAG_END :: List.replicate (padLen (encBody seqn es).length) 0)) := by
    show file.toList.drop 0 = _
    rw [hfile, List.drop_zero, List.toList_toArray, encode_eq]
  obtain ⟨h1, h2⟩ := Reader.readByte_cons hrest0
  dsimp only at h1 h2
  have hinv1 : ({ wal := file, offset := 0 + 1, seqn := 0 } : Reader).Inv := by
    unfold Reader.Inv; simp only; omega
  obtain ⟨a1, a2, a3⟩ := Reader.readBuf_append hinv1 h2
  simp only [leBytes_length] at a1 a2 a3
  have hnew : Reader.new file = .ok { wal := file, offset := 5, seqn := seqn } := by
    unfold Reader.new
    have : ¬ (file.size % PAGE_SIZE ≠ 0) := by rw [hsize, hmod]; simp
    simp only [this, if_false]
    unfold Reader.readStart
    rw [h1]
    simp only [bind_ok, if_true, Reader.readU32, a1, pure_eq_ok]
    rw [leNat_leBytes_of_lt (by omega)]
  have hloop := Reader.readLoop_enc es hes (r := { wal := file, offset := 5, seqn := seqn }) a3
    a2 (file.size + 1) (by omega) []
  refine ⟨{ wal := file, offset := 5, seqn := seqn }, ?_, rfl, ?_⟩
  · rw [← hfile, hnew]
  · rw [← hfile, hloop]; rfl

/-- **round trip**: the reader on the blob of `(seqn, entries)` returns `seqn`, exactly `entries`, and ends at the END
tag — for every sequence number, any number of honest entries -/
theorem readAll_encode (seqn : Nat) (hs : seqn < 2 ^ 32) (es : List Entry) (hes : ∀ e ∈ es, e.Honest) :
    ∃ res, readAll (encode seqn es).toArray = .ok res ∧ res.seqn = seqn ∧ res.entries = es ∧ res.ending = .ok () := by
  obtain ⟨r, h1, h2, h3⟩ := reader_encode seqn hs es hes
  refine ⟨{ seqn := seqn, entries := es, ending := .ok () }, ?_, rfl, rfl, rfl⟩
  unfold readAll
  rw [h1]
  simp only [h3, h2]

end Nomt.Wal
