import NomtModel.Store.SeekerRun
/-!
# The load accounting of the `Seeker`: every waiter list has exactly one load, in flight or parked
(helper lemmas for `T5_seeker_no_stall_partial`, `Props/C05_Seeker.lean`)

`CInv`: the keys of `io_waiters` are distinct, every load in the slab is for a key of `io_waiters`, two loads are never
for the same query, parked loads are page loads.  `bal m = |io_waiters| − (reads in flight + parked loads)` stays 0
as long as no read is lost to an I/O error.  All lemmas are of the form "if the call returns, then …" (no hypothesis
on the world).
-/
namespace Nomt.Seeker
open Nomt Nomt.Ovl Nomt.TriePos Nomt.Seek

variable {Node VH V : Type}

def qOf : IoReq → Query
  | .merkle pid _ _ => .page pid
  | .leaf l => .leaf l

structure CInv (m : Mux Node VH V) : Prop where
  keys : (m.waiters.map (·.1)).Nodup
  cov : ∀ si v, m.slab.get si = some v → qOf v ∈ m.waiters.map (·.1)
  inj : ∀ si sj v v', m.slab.get si = some v → m.slab.get sj = some v' → qOf v = qOf v' → si = sj
  idleM : ∀ si ∈ m.idleLoads, ∃ pid k sub, m.slab.get si = some (.merkle pid k sub)
  idleLN : m.idleLoads.Nodup
  inflN : (m.inflight.map (·.1)).Nodup
  inflO : ∀ ud ∈ m.inflight.map (·.1), ∃ v, m.slab.get ud = some v
  disj : ∀ ud ∈ m.inflight.map (·.1), ud ∉ m.idleLoads

def bal (m : Mux Node VH V) : Int := (m.waiters.length : Int) - ((m.inflight.length + m.idleLoads.length : Nat) : Int)

theorem Slab.put_get (s : Slab) (k : Nat) (v0 v : IoReq) (hg : s.get k = some v0) :
    (s.put k v).get k = some v ∧ ∀ j, j ≠ k → (s.put k v).get j = s.get j := by
  have ho : s.entries[k]? = some (.occ v0) := by
    unfold Slab.get at hg
    split at hg
    · rename_i r hr; cases hg; exact hr
    · cases hg
  have hlt : k < s.entries.length := (List.getElem?_eq_some_iff.1 ho).1
  refine ⟨by simp [Slab.put, Slab.get, List.getElem?_set, hlt], ?_⟩
  intro j hj
  simp only [Slab.put, Slab.get]
  rw [List.getElem?_set]
  have : ¬ k = j := fun e => hj e.symm
  simp [this]

theorem Slab.insert_get (s s' : Slab) (v : IoReq) (k : Nat) (h : s.insert v = .ok (s', k)) :
    s.get k = none ∧ s'.get k = some v ∧ ∀ j, j ≠ k → s'.get j = s.get j := by
  unfold Slab.insert at h
  split at h
  · rename_i hn
    cases h
    refine ⟨by simp [Slab.get, hn], by simp [Slab.get, hn], ?_⟩
    intro j hj
    simp only [Slab.get]
    by_cases hlt : j < s.entries.length
    · rw [List.getElem?_append_left hlt]
    · have e1 : s.entries[j]? = none := List.getElem?_eq_none (by omega)
      have e2 : (s.entries ++ [Entry.occ v])[j]? = none :=
        List.getElem?_eq_none (by simp only [List.length_append, List.length_singleton]; omega)
      rw [e1, e2]
  · split at h
    · rename_i n hv
      cases h
      have hlt : s.next < s.entries.length := (List.getElem?_eq_some_iff.1 hv).1
      refine ⟨by simp [Slab.get, hv], by simp [Slab.get, List.getElem?_set, hlt], ?_⟩
      intro j hj
      simp only [Slab.get]
      rw [List.getElem?_set]
      have : ¬ s.next = j := fun e => hj e.symm
      simp [this]
    · cases h

theorem Slab.remove_get (s s' : Slab) (v : IoReq) (k : Nat) (h : s.remove k = .ok (s', v)) :
    s.get k = some v ∧ s'.get k = none ∧ ∀ j, j ≠ k → s'.get j = s.get j := by
  unfold Slab.remove at h
  split at h
  · rename_i v0 hv
    cases h
    have hlt : k < s.entries.length := (List.getElem?_eq_some_iff.1 hv).1
    refine ⟨by simp [Slab.get, hv], by simp [Slab.get, List.getElem?_set, hlt], ?_⟩
    intro j hj
    simp only [Slab.get]
    rw [List.getElem?_set]
    have : ¬ k = j := fun e => hj e.symm
    simp [this]
  · cases h

/-- `submit_idle_page_load` of a page load -/
theorem submitIdleLoad_c (ht : Ht) (m m' : Mux Node VH V) (si : Nat) (hc : CInv m)
    (hm : ∃ pid k sub, m.slab.get si = some (.merkle pid k sub)) (hni : si ∉ m.inflight.map (·.1))
    (hnl : si ∉ m.idleLoads) (h : submitIdleLoad ht m si = .ok m') :
    CInv m' ∧ bal m' = bal m - 1 ∧ m'.idleLoads = m.idleLoads ∧ m'.waiters = m.waiters ∧
      m'.maxInflight = m.maxInflight ∧ m'.inflight ≠ [] := by
  obtain ⟨pid, k, sub, hg⟩ := hm
  unfold submitIdleLoad at h
  rw [hg] at h
  simp only at h
  split at h
  · cases h
  · rename_i b hb
    cases h
    obtain ⟨p2, p3⟩ := Slab.put_get m.slab si _ (.merkle pid (k + 1) true) hg
    have hq : ∀ sj v, (m.slab.put si (.merkle pid (k + 1) true)).get sj = some v → ∃ v0, m.slab.get sj = some v0 ∧ qOf v0 = qOf v := by
      intro sj v hv
      by_cases e : sj = si
      · subst e; rw [p2] at hv; cases hv; exact ⟨_, hg, rfl⟩
      · rw [p3 sj e] at hv; exact ⟨v, hv, rfl⟩
    have hocc : ∀ sj, (∃ v, m.slab.get sj = some v) → ∃ v, (m.slab.put si (.merkle pid (k + 1) true)).get sj = some v := by
      intro sj ⟨v, hv⟩
      by_cases e : sj = si
      · subst e; exact ⟨_, p2⟩
      · exact ⟨v, by rw [p3 sj e]; exact hv⟩
    refine ⟨⟨hc.keys, ?_, ?_, ?_, hc.idleLN, ?_, ?_, ?_⟩, ?_, rfl, rfl, rfl, by simp⟩
    · intro sj v hv
      obtain ⟨v0, h0, e⟩ := hq sj v hv
      rw [← e]; exact hc.cov sj v0 h0
    · intro sa sb va vb ha hb' e
      obtain ⟨a0, ha0, ea⟩ := hq sa va ha
      obtain ⟨b0, hb0, eb⟩ := hq sb vb hb'
      exact hc.inj sa sb a0 b0 ha0 hb0 (by rw [ea, eb, e])
    · intro sj hsj
      by_cases e : sj = si
      · subst e; exact ⟨pid, k + 1, true, p2⟩
      · obtain ⟨p', k', s', hh⟩ := hc.idleM sj hsj
        exact ⟨p', k', s', by simp only; rw [p3 sj e]; exact hh⟩
    · simp only [List.map_append, List.map_cons, List.map_nil]
      rw [List.nodup_append]
      refine ⟨hc.inflN, by simp, ?_⟩
      intro a ha b' hb'
      have : b' = si := by simpa using hb'
      subst this
      exact fun e => hni (e ▸ ha)
    · intro ud hud
      simp only [List.map_append, List.map_cons, List.map_nil, List.mem_append, List.mem_singleton] at hud
      rcases hud with h1 | h1
      · exact hocc ud (hc.inflO ud h1)
      · subst h1; exact ⟨_, p2⟩
    · intro ud hud
      simp only [List.map_append, List.map_cons, List.map_nil, List.mem_append, List.mem_singleton] at hud
      rcases hud with h1 | h1
      · exact hc.disj ud h1
      · subst h1; exact hnl
    · simp only [bal, List.length_append, List.length_singleton]
      omega

theorem submitIdleLoads_c (ht : Ht) : ∀ (l : List Nat) (m m' : Mux Node VH V), CInv m → m.idleLoads = l →
    submitIdleLoads ht l m = .ok m' →
    CInv m' ∧ bal m' = bal m ∧ m'.idleLoads = [] ∧ m'.waiters = m.waiters ∧ m'.maxInflight = m.maxInflight ∧
      (l ≠ [] → m'.inflight ≠ []) ∧ (m.inflight ≠ [] → m'.inflight ≠ [])
  | [], m, m', hc, hl, h => by
    unfold submitIdleLoads at h; cases h
    exact ⟨hc, rfl, hl, rfl, rfl, fun e => absurd rfl e, fun e => e⟩
  | si :: rest, m, m', hc, hl, h => by
    unfold submitIdleLoads at h
    split at h
    · rename_i m1 h1
      have hn := hc.idleLN
      rw [hl] at hn
      have hn' := List.nodup_cons.1 hn
      have hsi : si ∈ m.idleLoads := by rw [hl]; exact List.mem_cons_self ..
      have hc0 : CInv { m with idleLoads := rest } :=
        ⟨hc.keys, hc.cov, hc.inj, fun s hs => hc.idleM s (by rw [hl]; exact List.mem_cons_of_mem _ hs), hn'.2, hc.inflN,
          hc.inflO, fun ud hud hr => hc.disj ud hud (by rw [hl]; exact List.mem_cons_of_mem _ hr)⟩
      obtain ⟨c1, b1, i1, w1, x1, n1⟩ := submitIdleLoad_c ht _ m1 si hc0 (hc.idleM si hsi)
        (fun hm => hc.disj si hm hsi) hn'.1 h1
      obtain ⟨c2, b2, i2, w2, x2, _, n2⟩ := submitIdleLoads_c ht rest m1 m' c1 i1 h
      refine ⟨c2, ?_, i2, w2.trans w1, x2.trans x1, fun _ => n2 n1, fun _ => n2 n1⟩
      rw [b2, b1]
      simp only [bal, hl, List.length_cons]
      omega
    · cases h
    · cases h

theorem cinv_frame {m : Mux Node VH V} (hc : CInv m) (ps : PageSet Node) (reqs : List (Req Node VH V)) :
    CInv { m with ps := ps, reqs := reqs } :=
  ⟨hc.keys, hc.cov, hc.inj, hc.idleM, hc.idleLN, hc.inflN, hc.inflO, hc.disj⟩

theorem join_c (ws ws' : List (Query × List Nat)) (q : Query) (idx : Nat) (hj : joinWaiters ws q idx = some (.ok ws')) :
    ws'.map (·.1) = ws.map (·.1) ∧ ws'.length = ws.length := by
  unfold joinWaiters at hj
  split at hj
  · cases hj
  · split at hj
    · cases hj
    · simp only [Option.some.injEq, Outcome.ok.injEq] at hj
      subst hj
      refine ⟨?_, by simp⟩
      rw [List.map_map]
      apply List.map_congr_left
      intro e _
      simp only [Function.comp]
      split <;> rfl

theorem join_none (ws : List (Query × List Nat)) (q : Query) (idx : Nat) (hj : joinWaiters ws q idx = none) :
    q ∉ ws.map (·.1) := by
  unfold joinWaiters at hj
  split at hj
  · rename_i hl
    clear hj
    induction ws with
    | nil => simp
    | cons a as ih =>
      obtain ⟨q', w'⟩ := a
      simp only [List.lookup_cons] at hl
      by_cases e : q = q'
      · subst e; simp at hl
      · have : (q == q') = false := by simpa using e
        rw [this] at hl
        simp only [List.map_cons, List.mem_cons, not_or]
        exact ⟨e, ih hl⟩
  · split at hj <;> cases hj

/-- a new load: a new waiter list and a new slab entry for the same query -/
theorem newLoad_c (m : Mux Node VH V) (hc : CInv m) (q : Query) (idx : Nat) (v : IoReq) (hv : qOf v = q)
    (hj : joinWaiters m.waiters q idx = none) (slab : Slab) (si : Nat) (hi : m.slab.insert v = .ok (slab, si))
    (reqs : List (Req Node VH V)) :
    CInv { m with reqs := reqs, waiters := m.waiters ++ [(q, [idx])], slab := slab } ∧ slab.get si = some v ∧
      si ∉ m.inflight.map (·.1) ∧ si ∉ m.idleLoads := by
  obtain ⟨g0, g1, g2⟩ := Slab.insert_get _ _ _ _ hi
  have hnq := join_none _ _ _ hj
  have hni : si ∉ m.inflight.map (·.1) := fun hm => by obtain ⟨v', hv'⟩ := hc.inflO si hm; rw [g0] at hv'; cases hv'
  have hnl : si ∉ m.idleLoads := fun hm => by obtain ⟨_, _, _, hv'⟩ := hc.idleM si hm; rw [g0] at hv'; cases hv'
  refine ⟨⟨?_, ?_, ?_, ?_, hc.idleLN, hc.inflN, ?_, hc.disj⟩, g1, hni, hnl⟩
  rotate_left 4
  · intro ud hud
    obtain ⟨v', hv'⟩ := hc.inflO ud hud
    have : ud ≠ si := fun e => hni (e ▸ hud)
    exact ⟨v', by simp only; rw [g2 ud this]; exact hv'⟩
  · simp only [List.map_append, List.map_cons, List.map_nil]
    rw [List.nodup_append]
    refine ⟨hc.keys, by simp, ?_⟩
    intro a ha b hb
    have : b = q := by simpa using hb
    subst this
    exact fun e => hnq (e ▸ ha)
  · intro sj v' hv'
    simp only [List.map_append, List.map_cons, List.map_nil, List.mem_append, List.mem_singleton]
    by_cases e : sj = si
    · subst e; simp only at hv'; rw [g1] at hv'; cases hv'; exact .inr hv
    · simp only at hv'; rw [g2 sj e] at hv'; exact .inl (hc.cov sj v' hv')
  · intro sa sb va vb ha hb e
    simp only at ha hb
    by_cases ea : sa = si
    · by_cases eb : sb = si
      · rw [ea, eb]
      · subst ea
        rw [g1] at ha; cases ha
        rw [g2 sb eb] at hb
        have := hc.cov sb vb hb
        rw [← e, hv] at this
        exact absurd this hnq
    · by_cases eb : sb = si
      · subst eb
        rw [g1] at hb; cases hb
        rw [g2 sa ea] at ha
        have := hc.cov sa va ha
        rw [e, hv] at this
        exact absurd this hnq
      · rw [g2 sa ea] at ha
        rw [g2 sb eb] at hb
        exact hc.inj sa sb va vb ha hb e
  · intro sj hsj
    obtain ⟨p, k, s, hh⟩ := hc.idleM sj hsj
    have : sj ≠ si := fun e => by rw [e, g0] at hh; cases hh
    exact ⟨p, k, s, by simp only; rw [g2 sj this]; exact hh⟩

/-- `submit_key_path_request` -/
theorem submitReq_c (env : Env Node VH V) (ht : Ht) : ∀ (fuel : Nat) (m m' : Mux Node VH V) (idx : Nat), CInv m →
    submitReq env ht fuel m idx = .ok m' →
    CInv m' ∧ bal m' = bal m ∧ m'.idleLoads = m.idleLoads ∧ m'.maxInflight = m.maxInflight ∧
      (m.inflight ≠ [] → m'.inflight ≠ [])
  | 0, m, m', idx, _, h => by unfold submitReq at h; cases h
  | fuel + 1, m, m', idx, hc, h => by
    unfold submitReq at h
    simp only at h
    split at h
    · cases h; exact ⟨hc, rfl, rfl, rfl, fun e => e⟩
    · split at h
      · cases h
      · rename_i r hr
        split at h
        · cases h
        · cases h
        · cases h; exact ⟨hc, rfl, rfl, rfl, fun e => e⟩
        · -- a page
          rename_i r1 pid hq
          split at h
          · rename_i pg ps hm
            split at h
            · cases h
            · cases h
            · rename_i ps' r' hcs
              exact (fun c => submitReq_c env ht fuel _ m' idx c h) (cinv_frame hc _ _)
          · split at h
            · rename_i ws hj
              cases h
              obtain ⟨e1, e2⟩ := join_c _ _ _ _ hj
              refine ⟨⟨by simp only; rw [e1]; exact hc.keys, fun si v hv => by simp only; rw [e1]; exact hc.cov si v hv,
                hc.inj, hc.idleM, hc.idleLN, hc.inflN, hc.inflO, hc.disj⟩, ?_, rfl, rfl, fun e => e⟩
              simp only [bal, e2]
            · cases h
            · cases h
            · rename_i hj
              split at h
              · cases h
              · cases h
              · rename_i slab si hs
                obtain ⟨c1, g1, gi, gl⟩ := newLoad_c m hc (.page pid) idx (.merkle pid 0 false) rfl hj slab si hs
                  (m.reqs.set (idx - m.processed) { r1 with ios := r1.ios + 1 })
                obtain ⟨c2, b2, i2, w2, x2, n2⟩ := submitIdleLoad_c ht _ m' si c1 ⟨pid, 0, false, g1⟩ gi gl h
                refine ⟨c2, ?_, i2, x2, fun _ => n2⟩
                rw [b2]
                simp only [bal, List.length_append, List.length_singleton]
                omega
        · -- a leaf
          rename_i r1 l hq
          split at h
          · rename_i ws hj
            cases h
            obtain ⟨e1, e2⟩ := join_c _ _ _ _ hj
            refine ⟨⟨by simp only; rw [e1]; exact hc.keys, fun si v hv => by simp only; rw [e1]; exact hc.cov si v hv,
              hc.inj, hc.idleM, hc.idleLN, hc.inflN, hc.inflO, hc.disj⟩, ?_, rfl, rfl, fun e => e⟩
            simp only [bal, e2]
          · cases h
          · cases h
          · rename_i hj
            split at h
            · split at h
              · cases h
              · cases h
              · exact (fun c => submitReq_c env ht fuel _ m' idx c h) (cinv_frame hc _ _)
            · split at h
              · cases h
              · cases h
              · rename_i slab si hs
                cases h
                obtain ⟨c1, g1, gi, gl⟩ := newLoad_c m hc (.leaf l) idx (.leaf l) rfl hj slab si hs
                  (m.reqs.set (idx - m.processed) { r1 with ios := r1.ios + 1 })
                refine ⟨⟨c1.keys, c1.cov, c1.inj, c1.idleM, c1.idleLN, ?_, ?_, ?_⟩, ?_, rfl, rfl, fun _ => by simp⟩
                · simp only [List.map_append, List.map_cons, List.map_nil]
                  rw [List.nodup_append]
                  refine ⟨hc.inflN, by simp, ?_⟩
                  intro a ha b' hb'
                  have : b' = si := by simpa using hb'
                  subst this
                  exact fun e => gi (e ▸ ha)
                · intro ud hud
                  simp only [List.map_append, List.map_cons, List.map_nil, List.mem_append, List.mem_singleton] at hud
                  rcases hud with h1 | h1
                  · exact c1.inflO ud h1
                  · subst h1; exact ⟨_, g1⟩
                · intro ud hud
                  simp only [List.map_append, List.map_cons, List.map_nil, List.mem_append, List.mem_singleton] at hud
                  rcases hud with h1 | h1
                  · exact hc.disj ud h1
                  · subst h1; exact gl
                simp only [bal, List.length_append, List.length_singleton]
                omega

theorem submitIdleReqs_c (env : Env Node VH V) (ht : Ht) : ∀ (l : List Nat) (m m' : Mux Node VH V), CInv m →
    submitIdleReqs env ht l m = .ok m' →
    CInv m' ∧ bal m' = bal m ∧ m'.idleLoads = m.idleLoads ∧ m'.maxInflight = m.maxInflight ∧
      (m.inflight ≠ [] → m'.inflight ≠ [])
  | [], m, m', hc, h => by unfold submitIdleReqs at h; cases h; exact ⟨hc, rfl, rfl, rfl, fun e => e⟩
  | idx :: rest, m, m', hc, h => by
    unfold submitIdleReqs at h
    split at h
    · cases h; exact ⟨hc, rfl, rfl, rfl, fun e => e⟩
    · split at h
      · rename_i m1 h1
        have hc0 : CInv { m with idleReqs := rest } :=
          ⟨hc.keys, hc.cov, hc.inj, hc.idleM, hc.idleLN, hc.inflN, hc.inflO, hc.disj⟩
        obtain ⟨c1, b1, i1, x1, n1⟩ := submitReq_c env ht _ _ m1 idx hc0 h1
        obtain ⟨c2, b2, i2, x2, n2⟩ := submitIdleReqs_c env ht rest m1 m' c1 h
        exact ⟨c2, b2.trans b1, i2.trans i1, x2.trans x1, fun e => n2 (n1 e)⟩
      · cases h
      · cases h

/-- **`submit_all`**: the accounting is kept, and with room every parked load is probed again -/
theorem submitAll_c (env : Env Node VH V) (ht : Ht) (m m' : Mux Node VH V) (hc : CInv m) (h : submitAll env ht m = .ok m') :
    CInv m' ∧ bal m' = bal m ∧ m'.maxInflight = m.maxInflight ∧ (m.inflight ≠ [] → m'.inflight ≠ []) ∧
      (m.hasRoom = true → m.idleLoads ≠ [] → m'.inflight ≠ []) := by
  unfold submitAll at h
  split at h
  · rename_i hr
    cases h
    refine ⟨hc, rfl, rfl, fun e => e, fun e => ?_⟩
    rw [e] at hr; simp at hr
  · split at h
    · rename_i m1 h1
      obtain ⟨c1, b1, _, _, x1, n1, k1⟩ := submitIdleLoads_c ht _ m m1 hc rfl h1
      obtain ⟨c2, b2, _, x2, n2⟩ := submitIdleReqs_c env ht _ m1 m' c1 h
      exact ⟨c2, b2.trans b1, x2.trans x1, fun e => n2 (k1 e), fun _ e => n2 (n1 e)⟩
    · cases h
    · cases h

end Nomt.Seeker
