import NomtModel.Store.SeekerRun
/-!
# The load accounting of the `Seeker`: every waiter list has exactly one load, in flight or parked
(helper lemmas for `T5_seeker_no_stall_partial`, `Props/C05_Seeker.lean`)

`CInv`: the keys of `io_waiters` are distinct, every load in the slab is for a key of `io_waiters`, two loads are never
for the same query, parked loads are page loads.  `bal m = |io_waiters| − (reads in flight + parked loads)` stays 0
as long as no read is lost to an I/O error.  All lemmas are of the form "if the call returns, then …" (no hypothesis
on the world).
-/
namespace Nomt.Seeker
open Nomt Nomt.Ovl Nomt.TriePos Nomt.Seek

variable {Node VH V : Type}

def qOf : IoReq → Query
  | .merkle pid _ _ => .page pid
  | .leaf l => .leaf l

structure CInv (m : Mux Node VH V) : Prop where
  keys : (m.waiters.map (·.1)).Nodup
  cov : ∀ si v, m.slab.get si = some v → qOf v ∈ m.waiters.map (·.1)
  inj : ∀ si sj v v', m.slab.get si = some v → m.slab.get sj = some v' → qOf v = qOf v' → si = sj
  idleM : ∀ si ∈ m.idleLoads, ∃ pid k sub, m.slab.get si = some (.merkle pid k sub)
  idleLN : m.idleLoads.Nodup
  inflN : (m.inflight.map (·.1)).Nodup
  inflO : ∀ ud ∈ m.inflight.map (·.1), ∃ v, m.slab.get ud = some v
  disj : ∀ ud ∈ m.inflight.map (·.1), ud ∉ m.idleLoads

def bal (m : Mux Node VH V) : Int := (m.waiters.length : Int) - ((m.inflight.length + m.idleLoads.length : Nat) : Int)

theorem Slab.put_get (s : Slab) (k : Nat) (v0 v : IoReq) (hg : s.get k = some v0) :
    (s.put k v).get k = some v ∧ ∀ j, j ≠ k → (s.put k v).get j = s.get j := by
  have ho : s.entries[k]? = some (.occ v0) := by
    unfold Slab.get at hg
    split at hg
    · rename_i r hr; cases hg; exact hr
    · cases hg
  have hlt : k < s.entries.length := (List.getElem?_eq_some_iff.1 ho).1
  refine ⟨by simp [Slab.put, Slab.get, List.getElem?_set, hlt], ?_⟩
  intro j hj
  simp only [Slab.put, Slab.get]
  rw [List.getElem?_set]
  have : ¬ k = j := fun e => hj e.symm
  simp [this]

theorem Slab.insert_get (s s' : Slab) (v : IoReq) (k : Nat) (h : s.insert v = .ok (s', k)) :
    s.get k = none ∧ s'.get k = some v ∧ ∀ j, j ≠ k → s'.get j = s.get j := by
  unfold Slab.insert at h
  split at h
  · rename_i hn
    cases h
    refine ⟨by simp [Slab.get, hn], by simp [Slab.get, hn], ?_⟩
    intro j hj
    simp only [Slab.get]
    by_cases hlt : j < s.entries.length
    · rw [List.getElem?_append_left hlt]
    · have e1 : s.entries[j]? = none := List.getElem?_eq_none (by omega)
      have e2 : (s.entries ++ [Entry.occ v])[j]? = none :=
        List.getElem?_eq_none (by simp only [List.length_append, List.length_singleton]; omega)
      rw [e1, e2]
  · split at h
    · rename_i n hv
      cases h
      have hlt : s.next < s.entries.length := (List.getElem?_eq_some_iff.1 hv).1
      refine ⟨by simp [Slab.get, hv], by simp [Slab.get, List.getElem?_set, hlt], ?_⟩
      intro j hj
      simp only [Slab.get]
      rw [List.getElem?_set]
      have : ¬ s.next = j := fun e => hj e.symm
      simp [this]
    · cases h

theorem Slab.remove_get (s s' : Slab) (v : IoReq) (k : Nat) (h : s.remove k = .ok (s', v)) :
    s.get k = some v ∧ s'.get k = none ∧ ∀ j, j ≠ k → s'.get j = s.get j := by
  unfold Slab.remove at h
  split at h
  · rename_i v0 hv
    cases h
    have hlt : k < s.entries.length := (List.getElem?_eq_some_iff.1 hv).1
    refine ⟨by simp [Slab.get, hv], by simp [Slab.get, List.getElem?_set, hlt], ?_⟩
    intro j hj
    simp only [Slab.get]
    rw [List.getElem?_set]
    have : ¬ k = j := fun e => hj e.symm
    simp [this]
  · cases h

/-- `submit_idle_page_load` of a page load -/
theorem submitIdleLoad_c (ht : Ht) (m m' : Mux Node VH V) (si : Nat) (hc : CInv m)
    (hm : ∃ pid k sub, m.slab.get si = some (.merkle pid k sub)) (hni : si ∉ m.inflight.map (·.1))
    (hnl : si ∉ m.idleLoads) (h : submitIdleLoad ht m si = .ok m') :
    CInv m' ∧ bal m' = bal m - 1 ∧ m'.idleLoads = m.idleLoads ∧ m'.waiters = m.waiters ∧
      m'.maxInflight = m.maxInflight ∧ m'.inflight ≠ [] := by
  obtain ⟨pid, k, sub, hg⟩ := hm
  unfold submitIdleLoad at h
  rw [hg] at h
  simp only at h
  split at h
  · cases h
  · rename_i b hb
    cases h
    obtain ⟨p2, p3⟩ := Slab.put_get m.slab si _ (.merkle pid (k + 1) true) hg
    have hq : ∀ sj v, (m.slab.put si (.merkle pid (k + 1) true)).get sj = some v → ∃ v0, m.slab.get sj = some v0 ∧ qOf v0 = qOf v := by
      intro sj v hv
      by_cases e : sj = si
      · subst e; rw [p2] at hv; cases hv; exact ⟨_, hg, rfl⟩
      · rw [p3 sj e] at hv; exact ⟨v, hv, rfl⟩
    have hocc : ∀ sj, (∃ v, m.slab.get sj = some v) → ∃ v, (m.slab.put si (.merkle pid (k + 1) true)).get sj = some v := by
      intro sj ⟨v, hv⟩
      by_cases e : sj = si
      · subst e; exact ⟨_, p2⟩
      · exact ⟨v, by rw [p3 sj e]; exact hv⟩
    refine ⟨⟨hc.keys, ?_, ?_, ?_, hc.idleLN, ?_, ?_, ?_⟩, ?_, rfl, rfl, rfl, by simp⟩
    · intro sj v hv
      obtain ⟨v0, h0, e⟩ := hq sj v hv
      rw [← e]; exact hc.cov sj v0 h0
    · intro sa sb va vb ha hb' e
      obtain ⟨a0, ha0, ea⟩ := hq sa va ha
      obtain ⟨b0, hb0, eb⟩ := hq sb vb hb'
      exact hc.inj sa sb a0 b0 ha0 hb0 (by rw [ea, eb, e])
    · intro sj hsj
      by_cases e : sj = si
      · subst e; exact ⟨pid, k + 1, true, p2⟩
      · obtain ⟨p', k', s', hh⟩ := hc.idleM sj hsj
        exact ⟨p', k', s', by simp only; rw [p3 sj e]; exact hh⟩
    · simp only [List.map_append, List.map_cons, List.map_nil]
      rw [List.nodup_append]
      refine ⟨hc.inflN, by simp, ?_⟩
      intro a ha b' hb'
      have : b' = si := by simpa using hb'
      subst this
      exact fun e => hni (e ▸ ha)
    · intro ud hud
      simp only [List.map_append, List.map_cons, List.map_nil, List.mem_append, List.mem_singleton] at hud
      rcases hud with h1 | h1
      · exact hocc ud (hc.inflO ud h1)
      · subst h1; exact ⟨_, p2⟩
    · intro ud hud
      simp only [List.map_append, List.map_cons, List.map_nil, List.mem_append, List.mem_singleton] at hud
      rcases hud with h1 | h1
      · exact hc.disj ud h1
      · subst h1; exact hnl
    · simp only [bal, List.length_append, List.length_singleton]
      omega

theorem submitIdleLoads_c (ht : Ht) : ∀ (l : List Nat) (m m' : Mux Node VH V), CInv m → m.idleLoads = l →
    submitIdleLoads ht l m = .ok m' →
    CInv m' ∧ bal m' = bal m ∧ m'.idleLoads = [] ∧ m'.waiters = m.waiters ∧ m'.maxInflight = m.maxInflight ∧
      (l ≠ [] → m'.inflight ≠ []) ∧ (m.inflight ≠ [] → m'.inflight ≠ [])
  | [], m, m', hc, hl, h => by
    unfold submitIdleLoads at h; cases h
    exact ⟨hc, rfl, hl, rfl, rfl, fun e => absurd rfl e, fun e => e⟩
  | si :: rest, m, m', hc, hl, h => by
    unfold submitIdleLoads at h
    split at h
    · rename_i m1 h1
      have hn := hc.idleLN
      rw [hl] at hn
      have hn' := List.nodup_cons.1 hn
      have hsi : si ∈ m.idleLoads := by rw [hl]; exact List.mem_cons_self ..
      have hc0 : CInv { m with idleLoads := rest } :=
        ⟨hc.keys, hc.cov, hc.inj, fun s hs => hc.idleM s (by rw [hl]; exact List.mem_cons_of_mem _ hs), hn'.2, hc.inflN,
          hc.inflO, fun ud hud hr => hc.disj ud hud (by rw [hl]; exact List.mem_cons_of_mem _ hr)⟩
      obtain ⟨c1, b1, i1, w1, x1, n1⟩ := submitIdleLoad_c ht _ m1 si hc0 (hc.idleM si hsi)
        (fun hm => hc.disj si hm hsi) hn'.1 h1
      obtain ⟨c2, b2, i2, w2, x2, _, n2⟩ := submitIdleLoads_c ht rest m1 m' c1 i1 h
      refine ⟨c2, ?_, i2, w2.trans w1, x2.trans x1, fun _ => n2 n1, fun _ => n2 n1⟩
      rw [b2, b1]
      simp only [bal, hl, List.length_cons]
      omega
    · cases h
    · cases h

theorem cinv_frame {m : Mux Node VH V} (hc : CInv m) (ps : PageSet Node) (reqs : List (Req Node VH V)) :
    CInv { m with ps := ps, reqs := reqs } :=
  ⟨hc.keys, hc.cov, hc.inj, hc.idleM, hc.idleLN, hc.inflN, hc.inflO, hc.disj⟩

theorem join_c (ws ws' : List (Query × List Nat)) (q : Query) (idx : Nat) (hj : joinWaiters ws q idx = some (.ok ws')) :
    ws'.map (·.1) = ws.map (·.1) ∧ ws'.length = ws.length := by
  unfold joinWaiters at hj
  split at hj
  · cases hj
  · split at hj
    · cases hj
    · simp only [Option.some.injEq, Outcome.ok.injEq] at hj
      subst hj
      refine ⟨?_, by simp⟩
      rw [List.map_map]
      apply List.map_congr_left
      intro e _
      simp only [Function.comp]
      split <;> rfl

theorem join_none (ws : List (Query × List Nat)) (q : Query) (idx : Nat) (hj : joinWaiters ws q idx = none) :
    q ∉ ws.map (·.1) := by
  unfold joinWaiters at hj
  split at hj
  · rename_i hl
    clear hj
    induction ws with
    | nil => simp
    | cons a as ih =>
      obtain ⟨q', w'⟩ := a
      simp only [List.lookup_cons] at hl
      by_cases e : q = q'
      · subst e; simp at hl
      · have : (q == q') = false := by simpa using e
        rw [this] at hl
        simp only [List.map_cons, List.mem_cons, not_or]
        exact ⟨e, ih hl⟩
  · split at hj <;> cases hj

/-- a new load: a new waiter list and a new slab entry for the same query -/
theorem newLoad_c (m : Mux Node VH V) (hc : CInv m) (q : Query) (idx : Nat) (v : IoReq) (hv : qOf v = q)
    (hj : joinWaiters m.waiters q idx = none) (slab : Slab) (si : Nat) (hi : m.slab.insert v = .ok (slab, si))
    (reqs : List (Req Node VH V)) :
    CInv { m with reqs := reqs, waiters := m.waiters ++ [(q, [idx])], slab := slab } ∧ slab.get si = some v ∧
      si ∉ m.inflight.map (·.1) ∧ si ∉ m.idleLoads := by
  obtain ⟨g0, g1, g2⟩ := Slab.insert_get _ _ _ _ hi
  have hnq := join_none _ _ _ hj
  have hni : si ∉ m.inflight.map (·.1) := fun hm => by obtain ⟨v', hv'⟩ := hc.inflO si hm; rw [g0] at hv'; cases hv'
  have hnl : si ∉ m.idleLoads := fun hm => by obtain ⟨_, _, _, hv'⟩ := hc.idleM si hm; rw [g0] at hv'; cases hv'
  refine ⟨⟨?_, ?_, ?_, ?_, hc.idleLN, hc.inflN, ?_, hc.disj⟩, g1, hni, hnl⟩
  rotate_left 4
  · intro ud hud
    obtain ⟨v', hv'⟩ := hc.inflO ud hud
    have : ud ≠ si := fun e => hni (e ▸ hud)
    exact ⟨v', by simp only; rw [g2 ud this]; exact hv'⟩
  · simp only [List.map_append, List.map_cons, List.map_nil]
    rw [List.nodup_append]
    refine ⟨hc.keys, by simp, ?_⟩
    intro a ha b hb
    have : b = q := by simpa using hb
    subst this
    exact fun e => hnq (e ▸ ha)
  · intro sj v' hv'
    simp only [List.map_append, List.map_cons, List.map_nil, List.mem_append, List.mem_singleton]
    by_cases e : sj = si
    · subst e; simp only at hv'; rw [g1] at hv'; cases hv'; exact .inr hv
    · simp only at hv'; rw [g2 sj e] at hv'; exact .inl (hc.cov sj v' hv')
  · intro sa sb va vb ha hb e
    simp only at ha hb
    by_cases ea : sa = si
    · by_cases eb : sb = si
      · rw [ea, eb]
      · subst ea
        rw [g1] at ha; cases ha
        rw [g2 sb eb] at hb
        have := hc.cov sb vb hb
        rw [← e, hv] at this
        exact absurd this hnq
    · by_cases eb : sb = si
      · subst eb
        rw [g1] at hb; cases hb
        rw [g2 sa ea] at ha
        have := hc.cov sa va ha
        rw [e, hv] at this
        exact absurd this hnq
      · rw [g2 sa ea] at ha
        rw [g2 sb eb] at hb
        exact hc.inj sa sb va vb ha hb e
  · intro sj hsj
    obtain ⟨p, k, s, hh⟩ := hc.idleM sj hsj
    have : sj ≠ si := fun e => by rw [e, g0] at hh; cases hh
    exact ⟨p, k, s, by simp only; rw [g2 sj this]; exact hh⟩

/-- `submit_key_path_request` -/
theorem submitReq_c (env : Env Node VH V) (ht : Ht) : ∀ (fuel : Nat) (m m' : Mux Node VH V) (idx : Nat), CInv m →
    submitReq env ht fuel m idx = .ok m' →
    CInv m' ∧ bal m' = bal m ∧ m'.idleLoads = m.idleLoads ∧ m'.maxInflight = m.maxInflight ∧
      (m.inflight ≠ [] → m'.inflight ≠ [])
  | 0, m, m', idx, _, h => by unfold submitReq at h; cases h
  | fuel + 1, m, m', idx, hc, h => by
    unfold submitReq at h
    simp only at h
    split at h
    · cases h; exact ⟨hc, rfl, rfl, rfl, fun e => e⟩
    · split at h
      · cases h
      · rename_i r hr
        split at h
        · cases h
        · cases h
        · cases h; exact ⟨hc, rfl, rfl, rfl, fun e => e⟩
        · -- a page
          rename_i r1 pid hq
          split at h
          · rename_i pg ps hm
            split at h
            · cases h
            · cases h
            · rename_i ps' r' hcs
              exact (fun c => submitReq_c env ht fuel _ m' idx c h) (cinv_frame hc _ _)
          · split at h
            · rename_i ws hj
              cases h
              obtain ⟨e1, e2⟩ := join_c _ _ _ _ hj
              refine ⟨⟨by simp only; rw [e1]; exact hc.keys, fun si v hv => by simp only; rw [e1]; exact hc.cov si v hv,
                hc.inj, hc.idleM, hc.idleLN, hc.inflN, hc.inflO, hc.disj⟩, ?_, rfl, rfl, fun e => e⟩
              simp only [bal, e2]
            · cases h
            · cases h
            · rename_i hj
              split at h
              · cases h
              · cases h
              · rename_i slab si hs
                obtain ⟨c1, g1, gi, gl⟩ := newLoad_c m hc (.page pid) idx (.merkle pid 0 false) rfl hj slab si hs
                  (m.reqs.set (idx - m.processed) { r1 with ios := r1.ios + 1 })
                obtain ⟨c2, b2, i2, w2, x2, n2⟩ := submitIdleLoad_c ht _ m' si c1 ⟨pid, 0, false, g1⟩ gi gl h
                refine ⟨c2, ?_, i2, x2, fun _ => n2⟩
                rw [b2]
                simp only [bal, List.length_append, List.length_singleton]
                omega
        · -- a leaf
          rename_i r1 l hq
          split at h
          · rename_i ws hj
            cases h
            obtain ⟨e1, e2⟩ := join_c _ _ _ _ hj
            refine ⟨⟨by simp only; rw [e1]; exact hc.keys, fun si v hv => by simp only; rw [e1]; exact hc.cov si v hv,
              hc.inj, hc.idleM, hc.idleLN, hc.inflN, hc.inflO, hc.disj⟩, ?_, rfl, rfl, fun e => e⟩
            simp only [bal, e2]
          · cases h
          · cases h
          · rename_i hj
            split at h
            · split at h
              · cases h
              · cases h
              · exact (fun c => submitReq_c env ht fuel _ m' idx c h) (cinv_frame hc _ _)
            · split at h
              · cases h
              · cases h
              · rename_i slab si hs
                cases h
                obtain ⟨c1, g1, gi, gl⟩ := newLoad_c m hc (.leaf l) idx (.leaf l) rfl hj slab si hs
                  (m.reqs.set (idx - m.processed) { r1 with ios := r1.ios + 1 })
                refine ⟨⟨c1.keys, c1.cov, c1.inj, c1.idleM, c1.idleLN, ?_, ?_, ?_⟩, ?_, rfl, rfl, fun _ => by simp⟩
                · simp only [List.map_append, List.map_cons, List.map_nil]
                  rw [List.nodup_append]
                  refine ⟨hc.inflN, by simp, ?_⟩
                  intro a ha b' hb'
                  have : b' = si := by simpa using hb'
                  subst this
                  exact fun e => gi (e ▸ ha)
                · intro ud hud
                  simp only [List.map_append, List.map_cons, List.map_nil, List.mem_append, List.mem_singleton] at hud
                  rcases hud with h1 | h1
                  · exact c1.inflO ud h1
                  · subst h1; exact ⟨_, g1⟩
                · intro ud hud
                  simp only [List.map_append, List.map_cons, List.map_nil, List.mem_append, List.mem_singleton] at hud
                  rcases hud with h1 | h1
                  · exact hc.disj ud h1
                  · subst h1; exact gl
                simp only [bal, List.length_append, List.length_singleton]
                omega

theorem submitIdleReqs_c (env : Env Node VH V) (ht : Ht) : ∀ (l : List Nat) (m m' : Mux Node VH V), CInv m →
    submitIdleReqs env ht l m = .ok m' →
    CInv m' ∧ bal m' = bal m ∧ m'.idleLoads = m.idleLoads ∧ m'.maxInflight = m.maxInflight ∧
      (m.inflight ≠ [] → m'.inflight ≠ [])
  | [], m, m', hc, h => by unfold submitIdleReqs at h; cases h; exact ⟨hc, rfl, rfl, rfl, fun e => e⟩
  | idx :: rest, m, m', hc, h => by
    unfold submitIdleReqs at h
    split at h
    · cases h; exact ⟨hc, rfl, rfl, rfl, fun e => e⟩
    · split at h
      · rename_i m1 h1
        have hc0 : CInv { m with idleReqs := rest } :=
          ⟨hc.keys, hc.cov, hc.inj, hc.idleM, hc.idleLN, hc.inflN, hc.inflO, hc.disj⟩
        obtain ⟨c1, b1, i1, x1, n1⟩ := submitReq_c env ht _ _ m1 idx hc0 h1
        obtain ⟨c2, b2, i2, x2, n2⟩ := submitIdleReqs_c env ht rest m1 m' c1 h
        exact ⟨c2, b2.trans b1, i2.trans i1, x2.trans x1, fun e => n2 (n1 e)⟩
      · cases h
      · cases h

/-- **`submit_all`**: the accounting is kept, and with room every parked load is probed again -/
theorem submitAll_c (env : Env Node VH V) (ht : Ht) (m m' : Mux Node VH V) (hc : CInv m) (h : submitAll env ht m = .ok m') :
    CInv m' ∧ bal m' = bal m ∧ m'.maxInflight = m.maxInflight ∧ (m.inflight ≠ [] → m'.inflight ≠ []) ∧
      (m.hasRoom = true → m.idleLoads ≠ [] → m'.inflight ≠ []) := by
  unfold submitAll at h
  split at h
  · rename_i hr
    cases h
    refine ⟨hc, rfl, rfl, fun e => e, fun e => ?_⟩
    rw [e] at hr; simp at hr
  · split at h
    · rename_i m1 h1
      obtain ⟨c1, b1, _, _, x1, n1, k1⟩ := submitIdleLoads_c ht _ m m1 hc rfl h1
      obtain ⟨c2, b2, _, x2, n2⟩ := submitIdleReqs_c env ht _ m1 m' c1 h
      exact ⟨c2, b2.trans b1, x2.trans x1, fun e => n2 (k1 e), fun _ e => n2 (n1 e)⟩
    · cases h
    · cases h

/-! ### the completion side -/

theorem wakeLoop_frame (deliver : PageSet Node → Req Node VH V → Outcome Unit (PageSet Node × Req Node VH V)) :
    ∀ (l : List Nat) (m m' : Mux Node VH V), wakeLoop deliver l m = .ok m' →
    m'.waiters = m.waiters ∧ m'.slab = m.slab ∧ m'.inflight = m.inflight ∧ m'.idleLoads = m.idleLoads ∧
      m'.maxInflight = m.maxInflight
  | [], m, m', h => by unfold wakeLoop at h; cases h; exact ⟨rfl, rfl, rfl, rfl, rfl⟩
  | w :: rest, m, m', h => by
    unfold wakeLoop at h
    split at h
    · exact wakeLoop_frame deliver rest m m' h
    · split at h
      · cases h
      · split at h
        · cases h
        · split at h
          · cases h
          · cases h
          · have := wakeLoop_frame deliver rest _ m' h
            exact this

theorem filter_len : ∀ (ws : List (Query × List Nat)) (q : Query), (ws.map (·.1)).Nodup → q ∈ ws.map (·.1) →
    (ws.filter (fun e => e.1 ≠ q)).length + 1 = ws.length
  | [], q, _, h => by cases h
  | (q', w') :: rest, q, hn, hm => by
    simp only [List.map_cons] at hn hm
    have hn' := List.nodup_cons.1 hn
    by_cases e : q' = q
    · subst e
      have : rest.filter (fun e => e.1 ≠ q') = rest := by
        apply List.filter_eq_self.2
        intro a ha
        have : a.1 ≠ q' := fun e => hn'.1 (e ▸ List.mem_map.2 ⟨a, ha, rfl⟩)
        simpa using this
      rw [List.filter_cons_of_neg (by simp), this]
      simp
    · have hm' : q ∈ rest.map (·.1) := by
        rcases List.mem_cons.1 hm with h1 | h1
        · exact absurd h1.symm e
        · exact h1
      have := filter_len rest q hn'.2 hm'
      rw [List.filter_cons_of_pos (by simpa using e)]
      simp only [List.length_cons]
      omega

/-- a load leaves the slab together with its waiter list -/
theorem removeLoad_c (m : Mux Node VH V) (hc : CInv m) (ud : Nat) (slab : Slab) (v : IoReq)
    (hr : m.slab.remove ud = .ok (slab, v)) (hni : ud ∉ m.inflight.map (·.1)) (hnl : ud ∉ m.idleLoads)
    (ps : PageSet Node) (cache : List (PageId × MPage Node)) (lc : List Nat) :
    CInv { m with slab := slab, waiters := m.waiters.filter (fun e => e.1 ≠ qOf v), ps := ps, cache := cache, leafCache := lc } ∧
      (m.waiters.filter (fun e => e.1 ≠ qOf v)).length + 1 = m.waiters.length := by
  obtain ⟨g0, g1, g2⟩ := Slab.remove_get _ _ _ _ hr
  refine ⟨⟨?_, ?_, ?_, ?_, hc.idleLN, hc.inflN, ?_, hc.disj⟩, filter_len _ _ hc.keys (hc.cov ud v g0)⟩
  · exact List.Pairwise.sublist (List.Sublist.map _ (List.filter_sublist ..)) hc.keys
  · intro sj v' hv'
    simp only at hv'
    have hne : sj ≠ ud := fun e => by rw [e, g1] at hv'; cases hv'
    rw [g2 sj hne] at hv'
    obtain ⟨e, he, hq⟩ := List.mem_map.1 (hc.cov sj v' hv')
    refine List.mem_map.2 ⟨e, List.mem_filter.2 ⟨he, ?_⟩, hq⟩
    have : qOf v' ≠ qOf v := fun e' => hne (hc.inj sj ud v' v hv' g0 e')
    simpa [hq] using this
  · intro sa sb va vb ha hb e
    simp only at ha hb
    have ha' : sa ≠ ud := fun e => by rw [e, g1] at ha; cases ha
    have hb' : sb ≠ ud := fun e => by rw [e, g1] at hb; cases hb
    rw [g2 sa ha'] at ha
    rw [g2 sb hb'] at hb
    exact hc.inj sa sb va vb ha hb e
  · intro sj hsj
    obtain ⟨p, k, s, hh⟩ := hc.idleM sj hsj
    have : sj ≠ ud := fun e => hnl (e ▸ hsj)
    exact ⟨p, k, s, by simp only; rw [g2 sj this]; exact hh⟩
  · intro u hu
    obtain ⟨v', hv'⟩ := hc.inflO u hu
    have : u ≠ ud := fun e => hni (e ▸ hu)
    exact ⟨v', by simp only; rw [g2 u this]; exact hv'⟩

theorem erase_facts : ∀ (l : List (Nat × Cmd)) (ud : Nat) (c : Cmd), (l.map (·.1)).Nodup →
    l.find? (fun x => x.1 == ud) = some (ud, c) →
    ud ∉ (l.eraseP (fun x => x.1 == ud)).map (·.1) ∧ (l.eraseP (fun x => x.1 == ud)).length + 1 = l.length ∧
      ud ∈ l.map (·.1)
  | [], ud, c, _, h => by cases h
  | (u, c') :: rest, ud, c, hn, h => by
    simp only [List.map_cons] at hn
    have hn' := List.nodup_cons.1 hn
    by_cases hu : u = ud
    · subst hu
      rw [List.eraseP_cons]
      simp only [beq_self_eq_true, cond_true]
      exact ⟨hn'.1, by simp, by simp⟩
    · have hb : (u == ud) = false := by simpa using hu
      rw [List.find?_cons] at h
      simp only [hb] at h
      obtain ⟨a1, a2, a3⟩ := erase_facts rest ud c hn'.2 h
      rw [List.eraseP_cons]
      simp only [hb, cond_false, List.map_cons, List.mem_cons, not_or, List.length_cons]
      exact ⟨⟨fun e => hu e.symm, a1⟩, by omega, .inr a3⟩

theorem handleMerkle_c (env : Env Node VH V) (m m' : Mux Node VH V) (u : Nat) (page : MPage Node) (hc : CInv m)
    (e1 : u ∉ m.inflight.map (·.1)) (hnl : u ∉ m.idleLoads) (h : handleMerkle env m u page = .ok m') :
    CInv m' ∧ bal m' + 1 = bal m ∧ m'.maxInflight = m.maxInflight := by
  unfold handleMerkle at h
  split at h
  · cases h
  · cases h
  · cases h
  · rename_i slab pid k sub hr
    obtain ⟨f1, f2, f3, f4, f5⟩ := wakeLoop_frame _ _ _ _ h
    obtain ⟨c1, l1⟩ := removeLoad_c _ hc u slab _ hr e1 hnl
      (m.ps.insert pid (match m.cache.lookup pid with | some pg => pg | none => page) .persisted)
      (match m.cache.lookup pid with | some _ => m.cache | none => (pid, page) :: m.cache) m.leafCache
    simp only [removeWaiters] at f1
    have l1' : (List.filter (fun e => decide (e.fst ≠ Query.page pid)) m.waiters).length + 1 = m.waiters.length := l1
    refine ⟨⟨by rw [f1]; exact c1.keys, by rw [f1, f2]; exact c1.cov, by rw [f2]; exact c1.inj,
      by rw [f4, f2]; exact c1.idleM, by rw [f4]; exact c1.idleLN, by rw [f3]; exact c1.inflN,
      by rw [f3, f2]; exact c1.inflO, by rw [f3, f4]; exact c1.disj⟩, ?_, f5⟩
    simp only [bal, f1, f3, f4]
    omega

theorem handleLeaf_c (env : Env Node VH V) (m m' : Mux Node VH V) (u : Nat) (hc : CInv m)
    (e1 : u ∉ m.inflight.map (·.1)) (hnl : u ∉ m.idleLoads) (h : handleLeaf env m u = .ok m') :
    CInv m' ∧ bal m' + 1 = bal m ∧ m'.maxInflight = m.maxInflight := by
  unfold handleLeaf at h
  split at h
  · cases h
  · cases h
  · cases h
  · rename_i slab l hr
    obtain ⟨f1, f2, f3, f4, f5⟩ := wakeLoop_frame _ _ _ _ h
    obtain ⟨c1, l1⟩ := removeLoad_c _ hc u slab _ hr e1 hnl m.ps m.cache (l :: m.leafCache)
    simp only [removeWaiters] at f1
    have l1' : (List.filter (fun e => decide (e.fst ≠ Query.leaf l)) m.waiters).length + 1 = m.waiters.length := l1
    refine ⟨⟨by rw [f1]; exact c1.keys, by rw [f1, f2]; exact c1.cov, by rw [f2]; exact c1.inj,
      by rw [f4, f2]; exact c1.idleM, by rw [f4]; exact c1.idleLN, by rw [f3]; exact c1.inflN,
      by rw [f3, f2]; exact c1.inflO, by rw [f3, f4]; exact c1.disj⟩, ?_, f5⟩
    simp only [bal, f1, f3, f4]
    omega

/-- a misprobe: the load is parked -/
theorem misprobe_c (m : Mux Node VH V) (u : Nat) (pid : PageId) (k : Nat) (sub : Bool) (hc : CInv m)
    (hg : m.slab.get u = some (.merkle pid k sub)) (e1 : u ∉ m.inflight.map (·.1)) (hnl : u ∉ m.idleLoads) :
    CInv { m with slab := m.slab.put u (.merkle pid k false), idleLoads := m.idleLoads ++ [u] } ∧
      bal { m with slab := m.slab.put u (.merkle pid k false), idleLoads := m.idleLoads ++ [u] } + 1 = bal m := by
  obtain ⟨p2, p3⟩ := Slab.put_get m.slab u _ (.merkle pid k false) hg
  have hq : ∀ sj v, (m.slab.put u (.merkle pid k false)).get sj = some v → ∃ v0, m.slab.get sj = some v0 ∧ qOf v0 = qOf v := by
    intro sj v hv
    by_cases e : sj = u
    · subst e; rw [p2] at hv; cases hv; exact ⟨_, hg, rfl⟩
    · rw [p3 sj e] at hv; exact ⟨v, hv, rfl⟩
  refine ⟨⟨hc.keys, ?_, ?_, ?_, ?_, hc.inflN, ?_, ?_⟩, ?_⟩
  · intro sj v hv
    obtain ⟨v0, h0, e⟩ := hq sj v hv
    rw [← e]; exact hc.cov sj v0 h0
  · intro sa sb va vb ha hb' e
    obtain ⟨a0, ha0, ea⟩ := hq sa va ha
    obtain ⟨b0, hb0, eb⟩ := hq sb vb hb'
    exact hc.inj sa sb a0 b0 ha0 hb0 (by rw [ea, eb, e])
  · intro sj hsj
    simp only at hsj
    rcases List.mem_append.1 hsj with h1 | h1
    · have hne : sj ≠ u := fun e => hnl (e ▸ h1)
      obtain ⟨p', k', s', hh⟩ := hc.idleM sj h1
      exact ⟨p', k', s', by simp only; rw [p3 sj hne]; exact hh⟩
    · have : sj = u := by simpa using h1
      subst this
      exact ⟨pid, k, false, p2⟩
  · simp only
    rw [List.nodup_append]
    refine ⟨hc.idleLN, by simp, ?_⟩
    intro a ha b' hb'
    have : b' = u := by simpa using hb'
    subst this
    exact fun e => hnl (e ▸ ha)
  · intro x hx
    obtain ⟨v', hv'⟩ := hc.inflO x hx
    by_cases e : x = u
    · subst e; exact ⟨_, p2⟩
    · exact ⟨v', by simp only; rw [p3 x e]; exact hv'⟩
  · intro x hx hm
    simp only at hm
    rcases List.mem_append.1 hm with h1 | h1
    · exact hc.disj x hx h1
    · have : x = u := by simpa using h1
      subst this
      exact e1 hx
  · simp only [bal, List.length_append, List.length_singleton]
    omega

theorem bal_cancel {a b : Int} (h : a + 1 = b + 1) : a = b := by omega

/-- **`handle_completion`**: the accounting is kept -/
theorem recv_c (env : Env Node VH V) (ht : Ht) (m m' : Mux Node VH V) (ud : Nat) (hc : CInv m)
    (h : recv env ht m ud = .ok m') : CInv m' ∧ bal m' = bal m ∧ m'.maxInflight = m.maxInflight := by
  unfold recv at h
  split at h
  · cases h
  · rename_i u cmd hf
    have hu : u = ud := by simpa using List.find?_some hf
    subst hu
    obtain ⟨e1, e2, e3⟩ := erase_facts _ _ _ hc.inflN hf
    have hnl : u ∉ m.idleLoads := hc.disj u e3
    have hc0 : CInv { m with inflight := m.inflight.eraseP (fun c => c.1 == u) } :=
      ⟨hc.keys, hc.cov, hc.inj, hc.idleM, hc.idleLN,
        List.Pairwise.sublist (List.Sublist.map _ (List.eraseP_sublist ..)) hc.inflN,
        fun x hx => hc.inflO x ((List.Sublist.map _ (List.eraseP_sublist ..)).subset hx),
        fun x hx => hc.disj x ((List.Sublist.map _ (List.eraseP_sublist ..)).subset hx)⟩
    have hb0 : bal { m with inflight := m.inflight.eraseP (fun c => c.1 == u) } = bal m + 1 := by
      simp only [bal]
      omega
    simp only at h
    splitall h
    all_goals (try (cases h; done))
    all_goals first
      | (have hh := handleMerkle_c env _ m' u _ hc0 e1 hnl h; exact ⟨hh.1, by have := hh.2.1; omega, hh.2.2⟩)
      | (have hh := handleLeaf_c env _ m' u hc0 e1 hnl h; exact ⟨hh.1, by have := hh.2.1; omega, hh.2.2⟩)
      | (cases h; have hh := misprobe_c _ u _ _ _ hc0 (by assumption) e1 hnl; exact ⟨hh.1, bal_cancel (hh.2.trans hb0), rfl⟩)

/-! ### runs without I/O errors -/

def noErr : List Op → Prop
  | [] => True
  | .recvErr _ :: _ => False
  | _ :: os => noErr os

theorem cinv_init (maxInflight : Nat) (cache : List (PageId × MPage Node)) (ps : PageSet Node) (leafCache : List Nat) :
    CInv ({ maxInflight := maxInflight, cache := cache, ps := ps, leafCache := leafCache } : Mux Node VH V) ∧
    bal ({ maxInflight := maxInflight, cache := cache, ps := ps, leafCache := leafCache } : Mux Node VH V) = 0 := by
  refine ⟨⟨List.nodup_nil, ?_, ?_, ?_, List.nodup_nil, List.nodup_nil, ?_, ?_⟩, rfl⟩
  · intro si v h; simp [Slab.get] at h
  · intro si sj v v' h; simp [Slab.get] at h
  · intro si h; cases h
  · intro u h; cases h
  · intro u h; cases h

theorem exec_c (env : Env Node VH V) (ht : Ht) (s s' : Run Node VH V) (o : Op) (hne : ∀ ud, o ≠ .recvErr ud)
    (hc : CInv s.m) (h : exec env ht s o = .ok s') :
    CInv s'.m ∧ bal s'.m = bal s.m ∧ s'.m.maxInflight = s.m.maxInflight := by
  cases o with
  | push key =>
    simp only [exec] at h
    split at h
    · rename_i m hm
      cases h
      unfold push at hm
      split at hm
      · cases hm
        exact ⟨⟨hc.keys, hc.cov, hc.inj, hc.idleM, hc.idleLN, hc.inflN, hc.inflO, hc.disj⟩, rfl, rfl⟩
      · cases hm
      · cases hm
    · cases h
    · cases h
  | submitAll =>
    simp only [exec] at h
    split at h
    · rename_i m hm
      cases h
      obtain ⟨c, b, x, _, _⟩ := submitAll_c env ht _ _ hc hm
      exact ⟨c, b, x⟩
    · cases h
    · cases h
  | recv ud =>
    simp only [exec] at h
    split at h
    · rename_i m hm
      cases h
      exact recv_c env ht _ _ ud hc hm
    · cases h
    · cases h; exact ⟨hc, rfl, rfl⟩
  | recvErr ud => exact absurd rfl (hne ud)
  | take =>
    simp only [exec] at h
    have key : CInv (takeCompletion s.m).1 ∧ bal (takeCompletion s.m).1 = bal s.m ∧
        (takeCompletion s.m).1.maxInflight = s.m.maxInflight := by
      unfold takeCompletion
      split
      · split
        · exact ⟨⟨hc.keys, hc.cov, hc.inj, hc.idleM, hc.idleLN, hc.inflN, hc.inflO, hc.disj⟩, rfl, rfl⟩
        · exact ⟨hc, rfl, rfl⟩
      · exact ⟨hc, rfl, rfl⟩
    split at h
    · rename_i m r hm
      cases h
      rw [hm] at key; exact key
    · rename_i m hm
      cases h
      rw [hm] at key; exact key

theorem run_c (env : Env Node VH V) (ht : Ht) : ∀ (ops : List Op) (s s' : Run Node VH V), noErr ops → CInv s.m →
    run env ht s ops = .ok s' → CInv s'.m ∧ bal s'.m = bal s.m ∧ s'.m.maxInflight = s.m.maxInflight
  | [], s, s', _, hc, h => by unfold run at h; cases h; exact ⟨hc, rfl, rfl⟩
  | o :: os, s, s', hn, hc, h => by
    unfold run at h
    split at h
    · rename_i s1 h1
      have hne : ∀ ud, o ≠ .recvErr ud := by
        intro ud e; subst e; exact hn
      have hn' : noErr os := by cases o <;> first | exact hn | exact absurd rfl (hne _)
      obtain ⟨c1, b1, x1⟩ := exec_c env ht s s1 o hne hc h1
      obtain ⟨c2, b2, x2⟩ := run_c env ht os s1 s' hn' c1 h
      exact ⟨c2, b2.trans b1, x2.trans x1⟩
    · cases h
    · cases h

end Nomt.Seeker
