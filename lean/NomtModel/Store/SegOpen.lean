import NomtModel.Store.SegScan
/-!
# `seglog::open` succeeds on well-formed directories and returns the live records

Helper lemmas: sizes, `sort_by_key` on a sorted directory, the checks of `scan_root_dir`, `scan_record_end` /
`set_len` at a record end, unlinking files of a directory without duplicate ids.
-/
namespace Nomt.Seg

/-! ## sizes -/

theorem le_roundUp (n : Nat) : n ≤ roundUp n := by
  unfold roundUp ALIGN
  omega

theorem roundUp_mod (n : Nat) : roundUp n % ALIGN = 0 := by
  unfold roundUp ALIGN
  omega

theorem Rec.size_ge (r : Rec) : HDR + r.payload.length ≤ r.size := le_roundUp _

theorem Rec.size_pos (r : Rec) : 0 < r.size := by
  have := r.size_ge
  unfold HDR at this
  omega

theorem Rec.hdr_lt_size (r : Rec) : HDR < r.size := by
  have h1 := roundUp_mod (HDR + r.payload.length)
  have h2 := r.size_ge
  unfold Rec.size at *
  unfold HDR ALIGN at *
  omega

theorem recsSize_append (a b : List Rec) : recsSize (a ++ b) = recsSize a + recsSize b := by
  induction a with
  | nil => simp [recsSize]
  | cons r rs ih => simp [recsSize, ih]; omega

theorem recsSize_mod (l : List Rec) : recsSize l % ALIGN = 0 := by
  induction l with
  | nil => simp [recsSize]
  | cons r rs ih =>
    have := roundUp_mod (HDR + r.payload.length)
    simp only [recsSize, Rec.size]
    unfold ALIGN at *
    omega

theorem nextPos_aligned (sz len : Nat) (h : sz % ALIGN = 0) : nextPos (sz + HDR) len = sz + roundUp (HDR + len) := by
  unfold nextPos roundUp ALIGN HDR at *
  simp only
  split <;> omega

/-! ## `scan_record_end` and `set_len` at a record end -/

theorem findEnd_idsFrom : ∀ (rs : List Rec) (nx e off : Nat), IdsFrom nx rs → nx ≤ e → e < nx + rs.length →
    findEnd e rs off = some (off + recsSize (rs.take (e - nx + 1)))
  | [], _, _, _, _, _, h => by simp at h; omega
  | r :: rs, nx, e, off, hids, h1, h2 => by
    obtain ⟨hid, hrest⟩ := hids
    by_cases he : r.id = e
    · have : e - nx = 0 := by omega
      simp [findEnd, he, this, recsSize]
    · have h3 : nx + 1 ≤ e := by omega
      have := findEnd_idsFrom rs (nx + 1) e (off + r.size) hrest h3 (by simp at h2; omega)
      have h4 : e - nx + 1 = (e - (nx + 1) + 1) + 1 := by omega
      simp [findEnd, he, this, h4, recsSize]; omega

theorem cutRecs_at_boundary : ∀ (rs : List Rec) (m : Nat), m ≤ rs.length →
    cutRecs rs (recsSize (rs.take m)) = (rs.take m, .inl none)
  | [], m, _ => by simp [cutRecs, recsSize]
  | r :: rs, 0, _ => by simp [cutRecs, recsSize]
  | r :: rs, m + 1, h => by
    have hp := r.size_pos
    have ih := cutRecs_at_boundary rs m (by simpa using h)
    have h1 : r.size + recsSize (rs.take m) ≠ 0 := by omega
    have h2 : ¬ r.size + recsSize (rs.take m) < r.size := by omega
    have h3 : r.size ≠ 0 := by omega
    simp [cutRecs, recsSize, h1, h2, h3, ih]

theorem setLen_at_boundary (f : SegFile) (m : Nat) (h : m ≤ f.recs.length) :
    f.setLen (recsSize (f.recs.take m)) = { recs := f.recs.take m, torn := none } := by
  simp [SegFile.setLen, cutRecs_at_boundary f.recs m h]

/-! ## segment ids `i, i+1, …` -/

def SegIdsFrom : Nat → Dir → Prop
  | _, [] => True
  | i, x :: rest => x.1 = i ∧ SegIdsFrom (i + 1) rest

theorem segIdsFrom_append : ∀ (a b : Dir) (i : Nat),
    SegIdsFrom i (a ++ b) ↔ SegIdsFrom i a ∧ SegIdsFrom (i + a.length) b
  | [], b, i => by simp [SegIdsFrom]
  | x :: a, b, i => by
    simp only [List.cons_append, SegIdsFrom, List.length_cons, segIdsFrom_append a b (i + 1)]
    rw [show i + 1 + a.length = i + (a.length + 1) by omega]
    exact and_assoc.symm

theorem segIdsFrom_mem : ∀ (d : Dir) (i : Nat), SegIdsFrom i d → ∀ x ∈ d, i ≤ x.1 ∧ x.1 < i + d.length
  | [], _, _, x, hx => by cases hx
  | y :: d, i, h, x, hx => by
    obtain ⟨hy, hr⟩ := h
    rcases List.mem_cons.mp hx with rfl | hx
    · simp; omega
    · have := segIdsFrom_mem d (i + 1) hr x hx
      simp; omega

theorem sortById_of_from : ∀ (d : Dir) (i : Nat), SegIdsFrom i d → sortById d = d
  | [], _, _ => rfl
  | [x], _, _ => rfl
  | x :: y :: d, i, h => by
    obtain ⟨hx, hy, hr⟩ := h
    have ih := sortById_of_from (y :: d) (i + 1) ⟨hy, hr⟩
    have : x.1 ≤ y.1 := by omega
    rw [sortById, ih]
    simp [insertById, this]

theorem checkIds_from : ∀ (d : Dir) (i : Nat) (prev : Option Nat), 0 < i → SegIdsFrom i d →
    (prev = none ∨ prev = some (i - 1)) → checkIds prev (d.map (·.1)) = .ok ()
  | [], _, _, _, _, _ => rfl
  | x :: d, i, prev, hi, h, hp => by
    obtain ⟨hx, hr⟩ := h
    have ih := checkIds_from d (i + 1) (some x.1) (by omega) hr (Or.inr (by simp [hx]))
    have h0 : x.1 ≠ 0 := by omega
    rcases hp with rfl | rfl
    · simp [checkIds, h0, ih]
    · have hi0 : i ≠ 0 := by omega
      rw [hx] at ih
      simp [checkIds, hi0, ih, hx]

/-! ## `firstIdx` -/

theorem firstIdx_append (p : SegFile → Bool) : ∀ (a b : Dir) (idx : Nat),
    firstIdx p idx (a ++ b) = (firstIdx p idx a).or (firstIdx p (idx + a.length) b)
  | [], b, idx => by simp [firstIdx]
  | x :: a, b, idx => by
    simp only [List.cons_append, firstIdx, List.length_cons]
    split
    · simp
    · rw [firstIdx_append p a b (idx + 1)]
      congr 2; omega

theorem firstIdx_none (p : SegFile → Bool) : ∀ (a : Dir) (idx : Nat), (∀ x ∈ a, p x.2 = false) → firstIdx p idx a = none
  | [], _, _ => rfl
  | x :: a, idx, h => by
    simp [firstIdx, h x (by simp), firstIdx_none p a (idx + 1) (fun y hy => h y (by simp [hy]))]

theorem firstIdx_at (p : SegFile → Bool) (a : Dir) (y : Nat × SegFile) (r : Dir) (idx : Nat)
    (ha : ∀ x ∈ a, p x.2 = false) (hy : p y.2 = true) : firstIdx p idx (a ++ y :: r) = some (idx + a.length) := by
  rw [firstIdx_append, firstIdx_none p a idx ha]
  simp [firstIdx, hy]

theorem firstIdx_split (p : SegFile → Bool) : ∀ (d : Dir) (idx k : Nat), firstIdx p idx d = some k →
    ∃ a y r, d = a ++ y :: r ∧ k = idx + a.length ∧ (∀ x ∈ a, p x.2 = false) ∧ p y.2 = true
  | [], _, _, h => by simp [firstIdx] at h
  | x :: d, idx, k, h => by
    by_cases hx : p x.2 = true
    · simp [firstIdx, hx] at h
      exact ⟨[], x, d, rfl, by simp [h], by simp, hx⟩
    · simp [firstIdx, hx] at h
      obtain ⟨a, y, r, hd, hk, ha, hy⟩ := firstIdx_split p d (idx + 1) k h
      refine ⟨x :: a, y, r, by simp [hd], by simp [hk]; omega, ?_, hy⟩
      intro z hz
      rcases List.mem_cons.mp hz with rfl | hz
      · simpa using hx
      · exact ha z hz

theorem firstIdx_exists (p : SegFile → Bool) : ∀ (d : Dir) (idx : Nat), (∃ x ∈ d, p x.2 = true) →
    ∃ k, firstIdx p idx d = some k
  | [], _, h => by obtain ⟨x, hx, _⟩ := h; cases hx
  | x :: d, idx, h => by
    by_cases hx : p x.2 = true
    · exact ⟨idx, by simp [firstIdx, hx]⟩
    · obtain ⟨y, hy, hpy⟩ := h
      rcases List.mem_cons.mp hy with rfl | hy
      · exact absurd hpy hx
      · obtain ⟨k, hk⟩ := firstIdx_exists p d (idx + 1) ⟨y, hy, hpy⟩
        exact ⟨k, by simp [firstIdx, hx, hk]⟩

/-- the shape `open` sees: dead files `P` below the live start, live files `Lv` (the last one, `y`, holds the
record `e`), dead files `T` above -/
theorem decomp (s e : Nat) (hse : s ≤ e) (d : Dir) (h : ∃ x ∈ d, hasGe e x.2 = true) :
    ∃ P Lv T x Lv' y, d = P ++ Lv ++ T ∧ Lv = x :: Lv' ∧ Lv.getLast? = some y ∧
      (∀ z ∈ P, hasGe s z.2 = false) ∧ hasGe s x.2 = true ∧
      (∀ z ∈ P ++ Lv.dropLast, hasGe e z.2 = false) ∧ hasGe e y.2 = true := by
  have himp : ∀ f : SegFile, hasGe e f = true → hasGe s f = true := by
    intro f hf
    simp only [hasGe, List.any_eq_true, decide_eq_true_eq] at hf ⊢
    obtain ⟨r, hr, hle⟩ := hf
    exact ⟨r, hr, by omega⟩
  obtain ⟨B, hB⟩ := firstIdx_exists (hasGe e) d 0 h
  obtain ⟨D1, y, T, hd, _, hD1, hy⟩ := firstIdx_split (hasGe e) d 0 B hB
  obtain ⟨A, hA⟩ := firstIdx_exists (hasGe s) (D1 ++ [y]) 0 ⟨y, by simp, himp _ hy⟩
  obtain ⟨P, x, R, hd2, _, hP, hx⟩ := firstIdx_split (hasGe s) (D1 ++ [y]) 0 A hA
  have hlast : (x :: R).getLast? = some y := by
    have : (P ++ x :: R).getLast? = some y := by rw [← hd2]; simp
    rw [List.getLast?_append] at this
    cases hb : (x :: R).getLast? with
    | none => simp at hb
    | some z => rw [hb] at this; simpa using this
  have hdl : P ++ (x :: R).dropLast = D1 := by
    have : (P ++ x :: R).dropLast = D1 := by rw [← hd2]; simp
    rwa [List.dropLast_append_of_ne_nil (by simp)] at this
  refine ⟨P, x :: R, T, x, R, y, ?_, rfl, hlast, hP, hx, ?_, hy⟩
  · rw [hd, ← hd2]; simp
  · rw [hdl]; exact hD1

/-! ## unlinking -/

theorem applyEffs_append (d : Dir) (a b : List FsEff) : applyEffs d (a ++ b) = applyEffs (applyEffs d a) b := by
  simp [applyEffs, List.foldl_append]

theorem applyEffs_unlinks : ∀ (ids : List Nat) (d : Dir),
    applyEffs d (ids.map FsEff.unlink) = d.filter (fun x => decide (x.1 ∉ ids))
  | [], d => by
    simp only [applyEffs, List.map_nil, List.foldl_nil, List.not_mem_nil, not_false_eq_true, decide_true]
    exact (List.filter_eq_self.mpr (fun _ _ => rfl)).symm
  | i :: ids, d => by
    have ih := applyEffs_unlinks ids (d.filter (fun x => decide (x.1 ≠ i)))
    simp only [applyEffs, List.map_cons, List.foldl_cons, applyEff] at ih ⊢
    rw [ih, List.filter_filter]
    apply List.filter_congr
    intro x _
    simp [List.mem_cons]
    exact Bool.and_comm _ _

theorem filter_drop_left (i : Nat) (A B : Dir) (h : SegIdsFrom i (A ++ B)) :
    (A ++ B).filter (fun x => decide (x.1 ∉ A.map (·.1))) = B := by
  obtain ⟨hA, hB⟩ := (segIdsFrom_append A B i).mp h
  rw [List.filter_append]
  have h1 : A.filter (fun x => decide (x.1 ∉ A.map (·.1))) = [] := by
    rw [List.filter_eq_nil_iff]
    intro x hx
    simp only [decide_eq_true_eq, Decidable.not_not]
    exact List.mem_map_of_mem hx
  have h2 : B.filter (fun x => decide (x.1 ∉ A.map (·.1))) = B := by
    rw [List.filter_eq_self]
    intro x hx
    simp only [decide_eq_true_eq]
    intro hmem
    obtain ⟨y, hy, hxy⟩ := List.mem_map.mp hmem
    have := segIdsFrom_mem A i hA y hy
    have := segIdsFrom_mem B _ hB x hx
    omega
  rw [h1, h2, List.nil_append]

theorem filter_drop_right (i : Nat) (A B : Dir) (ids : List Nat) (hids : ∀ j, j ∈ ids ↔ j ∈ B.map (·.1))
    (h : SegIdsFrom i (A ++ B)) :
    (A ++ B).filter (fun x => decide (x.1 ∉ ids)) = A := by
  obtain ⟨hA, hB⟩ := (segIdsFrom_append A B i).mp h
  rw [List.filter_append]
  have h1 : B.filter (fun x => decide (x.1 ∉ ids)) = [] := by
    rw [List.filter_eq_nil_iff]
    intro x hx
    simp only [decide_eq_true_eq, Decidable.not_not]
    exact (hids _).mpr (List.mem_map_of_mem hx)
  have h2 : A.filter (fun x => decide (x.1 ∉ ids)) = A := by
    rw [List.filter_eq_self]
    intro x hx
    simp only [decide_eq_true_eq]
    intro hmem
    obtain ⟨y, hy, hxy⟩ := List.mem_map.mp ((hids _).mp hmem)
    have := segIdsFrom_mem A i hA x hx
    have := segIdsFrom_mem B _ hB y hy
    omega
  rw [h1, h2, List.append_nil]

/-! ## `IdsFrom` / `RecsFrom` -/

theorem idsFrom_append : ∀ (a b : List Rec) (nx : Nat), IdsFrom nx (a ++ b) ↔ IdsFrom nx a ∧ IdsFrom (nx + a.length) b
  | [], b, nx => by simp [IdsFrom]
  | r :: a, b, nx => by
    simp only [List.cons_append, IdsFrom, List.length_cons, idsFrom_append a b (nx + 1)]
    rw [show nx + 1 + a.length = nx + (a.length + 1) by omega]
    exact and_assoc.symm

theorem idsFrom_mem : ∀ (l : List Rec) (nx : Nat), IdsFrom nx l → ∀ r ∈ l, nx ≤ r.id ∧ r.id < nx + l.length
  | [], _, _, r, hr => by cases hr
  | x :: l, nx, h, r, hr => by
    obtain ⟨hx, hl⟩ := h
    rcases List.mem_cons.mp hr with rfl | hr
    · simp; omega
    · have := idsFrom_mem l (nx + 1) hl r hr
      simp; omega

theorem flatRecs_append (a b : Dir) : flatRecs (a ++ b) = flatRecs a ++ flatRecs b := by simp [flatRecs]

theorem recsFrom_flat (e : Nat) : ∀ (d : Dir) (nx : Nat), RecsFrom e nx d → IdsFrom nx (flatRecs d)
  | [], _, _ => trivial
  | x :: d, nx, h => by
    obtain ⟨h1, _, _, h4⟩ := h
    have : flatRecs (x :: d) = x.2.recs ++ flatRecs d := by simp [flatRecs]
    rw [this, idsFrom_append]
    exact ⟨h1, recsFrom_flat e d _ h4⟩

theorem recsFrom_append (e : Nat) : ∀ (A B : Dir) (nx : Nat), RecsFrom e nx (A ++ B) → B ≠ [] →
    (∀ x ∈ A, x.2.torn = none ∧ x.2.recs ≠ []) ∧ RecsFrom e nx A ∧ RecsFrom e (nx + (flatRecs A).length) B
  | [], B, nx, h, _ => by simpa [RecsFrom, flatRecs] using h
  | x :: A, B, nx, h, hB => by
    obtain ⟨h1, h2, h3, h4⟩ := h
    have hne : A ++ B ≠ [] := by simp [hB]
    obtain ⟨i1, i2, i3⟩ := recsFrom_append e A B _ h4 hB
    have ht := h2 hne
    refine ⟨?_, ⟨h1, fun _ => ht, by rw [ht.1]; trivial, i2⟩, ?_⟩
    · intro y hy
      rcases List.mem_cons.mp hy with rfl | hy
      · exact ht
      · exact i1 y hy
    · have : nx + (flatRecs (x :: A)).length = nx + x.2.recs.length + (flatRecs A).length := by
        simp [flatRecs]; omega
      rw [this]; exact i3

theorem recsFrom_join (e : Nat) : ∀ (A B : Dir) (nx : Nat), (∀ x ∈ A, x.2.torn = none ∧ x.2.recs ≠ []) →
    RecsFrom e nx A → RecsFrom e (nx + (flatRecs A).length) B → RecsFrom e nx (A ++ B)
  | [], B, nx, _, _, h => by simpa [flatRecs] using h
  | x :: A, B, nx, ht, hA, hB => by
    obtain ⟨h1, _, _, h4⟩ := hA
    have htx := ht x (by simp)
    have : nx + (flatRecs (x :: A)).length = nx + x.2.recs.length + (flatRecs A).length := by
      simp [flatRecs]; omega
    rw [this] at hB
    exact ⟨h1, fun _ => htx, by rw [htx.1]; trivial,
      recsFrom_join e A B _ (fun y hy => ht y (by simp [hy])) h4 hB⟩

/-- a directory without torn tail whose files are non-empty, as a prefix of any directory -/
theorem recsFrom_prefix (e : Nat) (A B : Dir) (nx : Nat) (h : RecsFrom e nx (A ++ B)) : RecsFrom e nx A := by
  by_cases hB : B = []
  · simpa [hB] using h
  · exact (recsFrom_append e A B nx h hB).2.1

theorem hasGe_false_iff (b : Nat) (f : SegFile) : hasGe b f = false ↔ ∀ r ∈ f.recs, r.id < b := by
  simp [hasGe]

theorem hasGe_false_flat (b : Nat) (A : Dir) (h : ∀ z ∈ A, hasGe b z.2 = false) : ∀ r ∈ flatRecs A, r.id < b := by
  intro r hr
  simp only [flatRecs, List.mem_flatMap] at hr
  obtain ⟨z, hz, hrz⟩ := hr
  exact (hasGe_false_iff b z.2).mp (h z hz) r hrz

end Nomt.Seg
