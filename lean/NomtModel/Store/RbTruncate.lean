import NomtModel.Store.RbModel
import NomtModel.Api.DeltaBuildLemmas
/-!
`Rollback::truncate(n)` (C09 / C12): the pop loop removes exactly the `n` newest deltas, newest first; the traceback
is the fold "older priors override newer ones"; a request for more deltas than are held is refused and changes
nothing; the traceback applied as a batch is the specification-level `Api.traceback` of the `n` newest deltas.
Record ids of the in-memory log (`Ids`).
-/
namespace Nomt.Rb
open Nomt
variable {V : Type}

/-- the record ids of a list of records are `f, f + 1, f + 2, …` -/
def Ids {α : Type} : List (Nat × α) → Nat → Prop
  | [], _ => True
  | x :: xs, f => x.1 = f ∧ Ids xs (f + 1)

theorem Ids.append_one {α : Type} {l : List (Nat × α)} {f : Nat} (h : Ids l f) (d : α) :
    Ids (l ++ [(f + l.length, d)]) f := by
  induction l generalizing f with
  | nil => exact ⟨by simp, trivial⟩
  | cons x xs ih =>
    obtain ⟨h1, h2⟩ := h
    refine ⟨h1, ?_⟩
    have := ih h2
    simpa [Nat.add_assoc, Nat.add_comm 1] using this

theorem Ids.mem {α : Type} {l : List (Nat × α)} {f : Nat} (h : Ids l f) : ∀ x ∈ l, f ≤ x.1 ∧ x.1 < f + l.length := by
  induction l generalizing f with
  | nil => intro x hx; cases hx
  | cons y ys ih =>
    obtain ⟨h1, h2⟩ := h
    intro x hx
    rcases List.mem_cons.1 hx with rfl | hx
    · simp [h1]
    · have := ih h2 x hx
      simp only [List.length_cons]; omega

theorem Ids.take {α : Type} {l : List (Nat × α)} {f : Nat} (h : Ids l f) (k : Nat) : Ids (l.take k) f := by
  induction l generalizing f k with
  | nil => simpa using h
  | cons y ys ih =>
    cases k with
    | zero => trivial
    | succ k => exact ⟨h.1, ih h.2 k⟩

theorem Ids.drop {α : Type} {l : List (Nat × α)} {f : Nat} (h : Ids l f) (k : Nat) : Ids (l.drop k) (f + k) := by
  induction l generalizing f k with
  | nil => simp [Ids]
  | cons y ys ih =>
    cases k with
    | zero => simpa using h
    | succ k =>
      have := ih h.2 k
      simpa [Nat.add_assoc, Nat.add_comm 1] using this

theorem Ids.filter_le {α : Type} {l : List (Nat × α)} {f : Nat} (h : Ids l f) (pt : Nat) :
    l.filter (fun x => decide (x.1 ≤ pt)) = l.take (pt + 1 - f) := by
  induction l generalizing f with
  | nil => simp
  | cons y ys ih =>
    obtain ⟨h1, h2⟩ := h
    by_cases hle : y.1 ≤ pt
    · have : pt + 1 - f = (pt + 1 - (f + 1)) + 1 := by omega
      rw [List.filter_cons_of_pos (by simpa using hle), this, List.take_succ_cons, ih h2]
    · have hz : pt + 1 - f = 0 := by omega
      rw [List.filter_cons_of_neg (by simpa using hle), hz, List.take_zero, ih h2]
      have : pt + 1 - (f + 1) = 0 := by omega
      rw [this, List.take_zero]

theorem Ids.head_drop {α : Type} {l : List (Nat × α)} {f : Nat} (h : Ids l f) (k : Nat) (hk : k < l.length) :
    ((l.drop k).head?).map (·.1) = some (f + k) := by
  have hd := h.drop k
  cases hl : l.drop k with
  | nil =>
    have := congrArg List.length hl
    simp at this; omega
  | cons y ys =>
    rw [hl] at hd
    simp [hd.1]

/-- the traceback of a list of popped deltas (in the order they are popped) -/
def tracebackOf (popped : List (Nat × Delta V)) (tb : Dlt.PMap V) : Dlt.PMap V :=
  popped.foldl (fun t x => Dlt.extend t x.2) tb

/-- the pop loop: the `n` newest entries go, newest first -/
theorem truncLoop_spec (n : Nat) (log : List (Nat × Delta V)) (tb : Dlt.PMap V) (e : Option Nat)
    (hn : n ≤ log.length) :
    truncLoop n log tb e = .ok (log.take (log.length - n),
      tracebackOf (log.drop (log.length - n)).reverse tb,
      if n = 0 then e else ((log.drop (log.length - n)).head?).map (·.1)) := by
  induction n generalizing log tb e with
  | zero => simp [truncLoop, tracebackOf]
  | succ n ih =>
    have hne : log ≠ [] := by intro h; subst h; simp at hn
    obtain ⟨init, last, rfl⟩ : ∃ init last, log = init ++ [last] :=
      ⟨log.dropLast, log.getLast hne, (List.dropLast_concat_getLast hne).symm⟩
    have hn' : n ≤ init.length := by simp at hn; omega
    simp only [truncLoop, List.getLast?_append, List.getLast?_singleton, Option.some_or, List.dropLast_concat]
    rw [ih init _ _ hn']
    have hlen : (init ++ [last]).length - (n + 1) = init.length - n := by simp
    rw [hlen, List.take_append_of_le_length (by omega), List.drop_append_of_le_length (by omega)]
    congr 2
    simp [tracebackOf]
    by_cases h0 : n = 0
    · subst h0; simp
    · rw [if_neg h0]
      have hlt : init.length - n < init.length := by omega
      simp [List.getElem?_eq_getElem hlt]

/-- **`truncate(n)`**: `n = 0` hits the assertion; `n` greater than the number of deltas held is refused and
changes nothing; otherwise (record ids positive) the log keeps everything but the `n` newest entries, the traceback is
the fold over the popped deltas newest first, and the truncation that the next sync will publish ends just before the
oldest popped record. -/
theorem truncate_spec (r : Rb V) (n : Nat) :
    (n = 0 → ∃ s, r.truncate n = .panic s) ∧
    (r.log.length < n → r.truncate n = .ok (none, r)) ∧
    (0 < n → n ≤ r.log.length → (∀ x ∈ r.log, 0 < x.1) →
      ∃ first, ((r.log.drop (r.log.length - n)).head?).map (·.1) = some first ∧ 0 < first ∧
        r.truncate n = .ok (some (tracebackOf (r.log.drop (r.log.length - n)).reverse []),
          { r with log := r.log.take (r.log.length - n), pending := some (first - 1) })) := by
  refine ⟨?_, ?_, ?_⟩
  · intro h; subst h; exact ⟨"truncate: assert!(n > 0)", by simp [Rb.truncate]⟩
  · intro h
    have h0 : n ≠ 0 := by omega
    simp [Rb.truncate, h0, h]
  · intro h0 hle hpos
    have hd : r.log.drop (r.log.length - n) ≠ [] := by
      intro h
      have := congrArg List.length h
      simp at this; omega
    cases hh : r.log.drop (r.log.length - n) with
    | nil => exact absurd hh hd
    | cons y ys =>
      have hy : y ∈ r.log := List.mem_of_mem_drop (by rw [hh]; exact List.mem_cons_self ..)
      have hyp := hpos y hy
      refine ⟨y.1, by simp, hyp, ?_⟩
      have hne : n ≠ 0 := by omega
      have hng : ¬ n > r.log.length := by omega
      simp only [Rb.truncate, hne, if_false, hng]
      rw [truncLoop_spec n r.log [] none hle, hh]
      simp only [hne, if_false, List.head?_cons, Option.map_some]
      rw [if_neg (by omega)]

/-! ### the traceback as a batch -/

section Spec
variable [DecidableEq V]

/-- the traceback map read key by key: the LAST popped delta (= the oldest) that names the key decides -/
theorem extend_eq_kvApply (m : Dlt.PMap V) (xs : List (Key × Option V)) :
    Dlt.extend m xs = kvApply m (xs.map (fun kv => (kv.1, some kv.2))) := by
  induction xs generalizing m with
  | nil => rfl
  | cons x xs ih =>
    show Dlt.extend (kvInsert m x.1 x.2) xs = _
    rw [ih]; rfl

theorem tracebackOf_eq_kvApply (popped : List (Nat × Delta V)) (tb : Dlt.PMap V) :
    tracebackOf popped tb
      = kvApply tb ((popped.map (·.2)).flatten.map (fun kv => (kv.1, some kv.2))) := by
  induction popped generalizing tb with
  | nil => rfl
  | cons x xs ih =>
    show tracebackOf xs (Dlt.extend tb x.2) = _
    rw [ih, extend_eq_kvApply]
    simp [kvApply_append]

theorem wsLookupLast_map_some (ws : List (Key × Option V)) (k : Key) :
    wsLookupLast (ws.map (fun kv => (kv.1, some kv.2))) k = (wsLookupLast ws k).map some := by
  induction ws with
  | nil => rfl
  | cons x xs ih =>
    obtain ⟨k', w⟩ := x
    simp only [List.map_cons, wsLookupLast, ih]
    cases wsLookupLast xs k with
    | some w' => rfl
    | none => by_cases h : (k' == k) = true <;> simp [h]

theorem tracebackOf_sorted (popped : List (Nat × Delta V)) : KSorted (tracebackOf popped []) := by
  rw [tracebackOf_eq_kvApply]; exact kvApply_sorted KSorted.nil _

theorem tracebackOf_get (popped : List (Nat × Delta V)) (k : Key) :
    kvGet (tracebackOf popped []) k = wsLookupLast (popped.map (·.2)).flatten k := by
  rw [tracebackOf_eq_kvApply, kvGet_kvApply KSorted.nil, wsLookupLast_map_some]
  cases wsLookupLast (popped.map (·.2)).flatten k <;> rfl

/-- the last write of a sorted map used as a batch is its entry -/
theorem wsLookupLast_of_sorted {m : Dlt.PMap V} (hs : KSorted m) (k : Key) : wsLookupLast m k = kvGet m k := by
  have hd : WDistinct m := hs.imp (fun h => bitsLt_ne h)
  rw [wsLookupLast_eq_wsLookup hd]
  induction m with
  | nil => rfl
  | cons x xs ih =>
    obtain ⟨k', w⟩ := x
    simp only [wsLookup, kvGet]
    split
    · rfl
    · exact ih hs.tail (hs.tail.imp (fun h => bitsLt_ne h))

/-- **the mirror's traceback refines the specification's**: applying the `BTreeMap` traceback of the popped deltas
(popped newest first) to any sorted map is applying `Api.traceback` of the same deltas (the flattened list, later
entries — older deltas — win) -/
theorem kvApply_tracebackOf {kv : KVL V} (hs : KSorted kv) (popped : List (Nat × Delta V)) :
    kvApply kv (tracebackOf popped []) = kvApply kv (Api.traceback (popped.map (·.2))) := by
  apply kv_ext (kvApply_sorted hs _) (kvApply_sorted hs _)
  intro k
  rw [kvGet_kvApply hs, kvGet_kvApply hs, Api.traceback_eq_flatten, wsLookupLast_of_sorted (tracebackOf_sorted popped),
    tracebackOf_get]

end Spec

end Nomt.Rb
