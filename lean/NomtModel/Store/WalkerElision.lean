import NomtModel.Store.WalkerSimMoves
import NomtModel.Store.PageLayoutLemmas
/-!
# `handle_elision_threshold`: the decision about the page that leaves the stack, as exact one-step equations

For a walker that is NOT a reconstructor, a page `sp` on top of the stack with a page `parent` below it, `sp` not a child of
the root page:

* `elides H w sp` — the verdict of the Rust: the page carries a leaf counter (`children_leaves_counter.or(prev_…)` is `Some`),
  `count_leaves(page) + counter < PAGE_ELISION_THRESHOLD`, and elision is not inhibited;
* `handleElision_keep` — verdict `false`: the page is handed out as an `UpdatedPage` (promoted when it was a reconstructed one:
  no bucket) with `total_diff()` = reconstruction diff ∪ update diff, its bit in the parent is CLEARED, the parent forgets its
  counters;
* `handleElision_elide` — verdict `true` (and the counter arithmetic does not trap): the bit in the parent is SET, the parent's
  counter is updated, and the page is handed out only if it had a bucket — then as a CLEARED page;
* `handleElision_persisted_kept` — a page loaded from the hash table (no counters) is never elided.
-/
namespace Nomt.Walker
open Nomt Nomt.TriePos
open Nomt.Wal (PageDiff)

variable {Node VH : Type} [DecidableEq Node] [DecidableEq VH] (H : Hasher Node VH)

/-- the verdict of `handle_elision_threshold` about the page on top of the stack -/
def elides (w : Walker Node) (sp : StackPage Node) : Bool :=
  match sp.childrenLeaves.or sp.prevChildrenLeaves with
  | none => false
  | some clc => decide (countLeaves H sp.page + clc < PAGE_ELISION_THRESHOLD) && !w.inhibitElision

/-- the page as it is handed out: the bitfield kept in the stack entry is stored into it -/
def outPage (sp : StackPage Node) : Page Node := ⟨sp.page.nodes, sp.elided⟩

theorem storeElided_page (sp : StackPage Node) (hne : sp.pageId ≠ []) : (storeElided sp).page = outPage sp := by
  unfold storeElided outPage; rw [if_pos hne]

theorem storeElided_rest (sp : StackPage Node) :
    (storeElided sp).bucket = sp.bucket ∧ (storeElided sp).reconDiff = sp.reconDiff ∧ (storeElided sp).elided = sp.elided := by
  unfold storeElided; split <;> exact ⟨rfl, rfl, rfl⟩

theorem storeElided_totalDiff (sp : StackPage Node) : (storeElided sp).totalDiff = sp.totalDiff := by
  unfold StackPage.totalDiff; rw [(storeElided_rest sp).2.1, storeElided_diff]

/-- the parent entry after a child page was kept: bit cleared, counters forgotten -/
def parentKept (parent : StackPage Node) (ci : Nat) : StackPage Node :=
  { parent with childrenLeaves := none, prevChildrenLeaves := none, elided := PageLayout.elidedSet parent.elided ci false }

/-- the parent entry after a child page was elided: bit set (the counter was updated before) -/
def parentElided (parent2 : StackPage Node) (ci : Nat) : StackPage Node :=
  { parent2 with elided := PageLayout.elidedSet parent2.elided ci true }

/-- the diff of a page that is elided although it had a bucket: the clear bit on top of everything -/
def clearedDiff (sp : StackPage Node) : PageDiff := ({ sp with diff := sp.diff.setCleared } : StackPage Node).totalDiff

/-- the walker after the page on top was kept -/
def keptResult (w : Walker Node) (sp parent : StackPage Node) (rest : List (StackPage Node)) (ci : Nat) : Walker Node :=
  { w with stack := parentKept parent ci :: rest,
           outputPages := w.outputPages ++ [.updated sp.pageId (outPage sp) sp.totalDiff (sp.bucket.getD none)] }

/-- the walker after the page on top was elided -/
def elidedResult (w : Walker Node) (sp parent2 : StackPage Node) (rest : List (StackPage Node)) (ci : Nat) : Walker Node :=
  { w with stack := parentElided parent2 ci :: rest,
           outputPages := w.outputPages ++
             (if sp.bucket.isSome then [.updated sp.pageId (outPage sp) (clearedDiff sp) (sp.bucket.getD none)] else []) }

/-- **kept**: the page is handed out with `total_diff()`, its bit in the parent is cleared, the parent forgets its counters -/
theorem handleElision_keep (w : Walker Node) (sp parent : StackPage Node) (rest : List (StackPage Node))
    (hst : w.stack = sp :: parent :: rest) (hrec : w.reconstruction = false)
    (hm1 : w.mutDropReconDiff = false) (hm2 : w.mutStalePrev = false)
    (hne : sp.pageId ≠ []) (hpp : parentPageId sp.pageId ≠ []) (hk : elides H w sp = false) :
    ∃ ci, childIndexAtLevel sp.pageId (sp.pageId.length - 1) = some ci ∧
      w.handleElision H = .ok (keptResult w sp parent rest ci) := by
  obtain ⟨ci, hci⟩ := childIndexAtLevel_last sp.pageId hne
  obtain ⟨hid, hcl, hpcl, hpl⟩ := storeElided_fields sp
  have hkeep : keepPage ({ w with stack := parent :: rest } : Walker Node) (storeElided sp) parent rest =
      .ok (keptResult w sp parent rest ci) := by
    unfold keepPage
    rw [hid, hci]
    simp only
    rw [pushOut_ok _ _ (by exact hrec)]
    unfold pushUpdated keptResult parentKept
    simp only [hm1, hm2, Bool.false_eq_true, if_false]
    rw [hid, storeElided_page sp hne, storeElided_totalDiff, (storeElided_rest sp).1]
  refine ⟨ci, hci, ?_⟩
  unfold Walker.handleElision
  rw [hst]
  simp only
  rw [hid, if_neg hpp, hcl, hpcl]
  unfold elides at hk
  cases hor : sp.childrenLeaves.or sp.prevChildrenLeaves with
  | none => simp only; exact hkeep
  | some clc =>
    rw [hor] at hk
    simp only at hk ⊢
    rw [countLeaves_nodes H sp.page (storeElided sp).page (storeElided_nodes sp)]
    rw [if_neg]
    · exact hkeep
    · intro ⟨h1, h2⟩
      have : w.inhibitElision = false := by cases h : w.inhibitElision <;> simp_all
      simp [h1, this] at hk

/-- **a page loaded from the hash table is never elided**: it carries no counters, so the verdict is `false` -/
theorem elides_persisted (w : Walker Node) (sp : StackPage Node) (hcl : sp.childrenLeaves = none)
    (hpcl : sp.prevChildrenLeaves = none) : elides H w sp = false := by
  unfold elides; rw [hcl, hpcl]; rfl

/-- **elided**: the bit in the parent is set, the parent's counter is updated by `elideParentCounter`; the page is handed
out only when it had a bucket, and then as a cleared page -/
theorem handleElision_elide (w : Walker Node) (sp parent : StackPage Node) (rest : List (StackPage Node))
    (hst : w.stack = sp :: parent :: rest) (hrec : w.reconstruction = false) (hm1 : w.mutDropReconDiff = false)
    (hne : sp.pageId ≠ []) (hpp : parentPageId sp.pageId ≠ []) (clc : Nat)
    (hor : sp.childrenLeaves.or sp.prevChildrenLeaves = some clc) (hk : elides H w sp = true)
    (parent2 : StackPage Node)
    (hpar : elideParentCounter (storeElided sp) parent (countLeaves H sp.page) clc = .ok parent2) :
    ∃ ci, childIndexAtLevel sp.pageId (sp.pageId.length - 1) = some ci ∧
      w.handleElision H = .ok (elidedResult w sp parent2 rest ci) := by
  obtain ⟨ci, hci⟩ := childIndexAtLevel_last sp.pageId hne
  obtain ⟨hid, hcl, hpcl, hpl⟩ := storeElided_fields sp
  obtain ⟨hb, hrd, _⟩ := storeElided_rest sp
  have hcount := countLeaves_nodes H sp.page (storeElided sp).page (storeElided_nodes sp)
  unfold elides at hk
  rw [hor] at hk
  simp only [Bool.and_eq_true, decide_eq_true_eq, Bool.not_eq_true'] at hk
  refine ⟨ci, hci, ?_⟩
  have hcd : ∀ A : StackPage Node, A.reconDiff = sp.reconDiff → A.diff = sp.diff.setCleared → A.totalDiff = clearedDiff sp := by
    intro A h1 h2
    unfold clearedDiff StackPage.totalDiff
    simp only [h1, h2]
  unfold Walker.handleElision
  rw [hst]
  simp only
  rw [hid, if_neg hpp, hcl, hpcl, hor]
  simp only
  rw [hcount, if_pos ⟨hk.1, by rw [hk.2]; simp⟩]
  unfold elidePage
  rw [hpar]
  simp only
  rw [hid, hci]
  simp only
  rw [if_neg (by rw [hrec]; simp), hb]
  unfold elidedResult parentElided
  cases hbk : sp.bucket.isSome with
  | false => simp
  | true =>
    simp only [if_true]
    unfold pushUpdated
    simp only [hm1, Bool.false_eq_true, if_false]
    simp only [StackPage.totalDiff, clearedDiff, hrd, storeElided_diff, storeElided_page sp hne]

/-- the diff of a kept page names every slot the reconstruction diff names and every slot the update diff names -/
theorem totalDiff_names (sp : StackPage Node) (i : Nat) :
    sp.totalDiff.changed i = ((match sp.reconDiff with | some d => d.changed i | none => false) || sp.diff.changed i) := by
  unfold StackPage.totalDiff
  cases sp.reconDiff with
  | none => simp
  | some d => simp only; rw [PageDiff.changed_join]

/-- a page elided although it had a bucket is handed out with the clear bit raised -/
theorem totalDiff_setCleared_cleared (sp : StackPage Node) :
    ({ sp with diff := sp.diff.setCleared } : StackPage Node).totalDiff.cleared = true := by
  rw [PageDiff.cleared_eq, totalDiff_names]
  simp only
  rw [PageDiff.changed_setCleared]
  simp

end Nomt.Walker
