import NomtModel.Store.Seek
import NomtModel.Api.KVLemmas
/-!
# `range_bounds` (`merkle/seek.rs`): the key range of a trie position is "the keys with that prefix"

For a position whose raw path is `bs ++ 0…0` (`bs` = the first `depth` bits): `range_bounds` never reaches a panic site,
`start = bs·0…0`, `end = (bs + 1)·0…0` (`None` when `bs = 1…1`), and a 256-bit key lies in `[start, end)` iff `bs` is a
prefix of it.
-/
namespace Nomt.Seek
open Nomt Nomt.Ovl Nomt.TriePos

/-- binary increment of an MSB-first bit string without carry out -/
def incr : List Bool → Option (List Bool)
  | [] => none
  | b :: bs =>
    match incr bs with
    | some t => some (b :: t)
    | none => if b then none else some (true :: List.replicate bs.length false)

theorem incr_snoc_false : ∀ (bs : List Bool), incr (bs ++ [false]) = some (bs ++ [true])
  | [] => rfl
  | b :: bs => by
    simp only [List.cons_append, incr, incr_snoc_false bs]

theorem incr_snoc_true : ∀ (bs : List Bool), incr (bs ++ [true]) = (incr bs).map (· ++ [false])
  | [] => rfl
  | b :: bs => by
    simp only [List.cons_append, incr, incr_snoc_true bs]
    cases h : incr bs with
    | some t => simp
    | none =>
      cases b
      · simp [List.replicate_succ']
      · simp

theorem bitsLt_zeros : ∀ (k : List Bool) (n : Nat), k.length = n → bitsLt k (List.replicate n false) = false
  | [], n, h => by subst h; rfl
  | c :: k, n, h => by
    cases n with
    | zero => simp at h
    | succ n =>
      simp only [List.replicate_succ, bitsLt]
      cases c
      · simp only [beq_self_eq_true, if_true]
        exact bitsLt_zeros k n (by simpa using h)
      · simp

theorem all_false_eq_replicate : ∀ (zs : List Bool), (∀ z ∈ zs, z = false) → zs = List.replicate zs.length false
  | [], _ => rfl
  | z :: zs, h => by
    rw [List.length_cons, List.replicate_succ, h z (List.mem_cons_self ..),
      ← all_false_eq_replicate zs (fun z hz => h z (List.mem_cons_of_mem _ hz))]

/-- the order characterisation: `bs·zs ≤ k < (bs+1)·zs` iff `bs` is a prefix of `k` -/
theorem range_iff_prefix : ∀ (bs zs k : List Bool), (∀ z ∈ zs, z = false) → k.length = bs.length + zs.length →
    ((bitsLt k (bs ++ zs) = false ∧ (match incr bs with | none => True | some t => bitsLt k (t ++ zs) = true)) ↔
      bs.isPrefixOf k = true)
  | [], zs, k, hz, hk => by
    simp only [List.nil_append, incr, List.isPrefixOf, and_true, iff_true]
    rw [all_false_eq_replicate zs hz]
    exact bitsLt_zeros k _ (by simpa using hk)
  | b :: bs, zs, [], _, hk => by simp at hk; omega
  | b :: bs, zs, c :: k, hz, hk => by
    have hk' : k.length = bs.length + zs.length := by simp at hk; omega
    have ih := range_iff_prefix bs zs k hz hk'
    simp only [List.cons_append, bitsLt, incr, List.isPrefixOf]
    by_cases hcb : c = b
    · subst hcb
      simp only [beq_self_eq_true, if_true, Bool.true_and]
      cases hi : incr bs with
      | some t =>
        rw [hi] at ih
        simp only [List.cons_append, bitsLt, beq_self_eq_true, if_true]
        exact ih
      | none =>
        rw [hi] at ih
        cases c
        · simp only [Bool.false_eq_true, if_false, List.cons_append, bitsLt]
          simpa using ih
        · simpa using ih
    · cases c <;> cases b <;> simp at hcb
      · -- c = false, b = true: `k` is below `start`
        simp
      · -- c = true, b = false: `k` is not below `end`
        simp only [Bool.true_eq_false, if_false, Bool.not_true, Bool.false_and, true_and, Bool.false_eq_true,
          beq_iff_eq, iff_false]
        cases hi : incr bs with
        | some t => simp [bitsLt]
        | none =>
          simp only [Bool.false_eq_true, if_false, List.cons_append, bitsLt, beq_self_eq_true, if_true]
          have hz' : List.replicate bs.length false ++ zs = List.replicate (bs.length + zs.length) false := by
            rw [all_false_eq_replicate zs hz, List.length_replicate, ← List.replicate_append_replicate]
          rw [hz', bitsLt_zeros k _ hk']
          simp

theorem rbLoop_eq (start : Key) : ∀ (i : Nat) (bs zs : List Bool), bs.length = i + 1 →
    rbLoop start i (bs ++ zs) = .ok (start, (incr bs).map (· ++ zs)) := by
  intro i
  induction i with
  | zero =>
    intro bs zs hl
    match bs, hl with
    | [b], _ =>
      cases b <;> simp [rbLoop, incr]
  | succ i ih =>
    intro bs zs hl
    obtain ⟨bs', b, rfl⟩ : ∃ bs' b, bs = bs' ++ [b] := by
      exact ⟨bs.dropLast, bs.getLast (by intro e; rw [e] at hl; simp at hl), (List.dropLast_concat_getLast _).symm⟩
    have hl' : bs'.length = i + 1 := by simpa using hl
    have hget : (bs' ++ [b] ++ zs)[i + 1]? = some b := by
      rw [List.append_assoc, List.getElem?_append_right (by omega)]
      simp [hl']
    have hset : ∀ x, (bs' ++ [b] ++ zs).set (i + 1) x = bs' ++ (x :: zs) := by
      intro x
      rw [List.append_assoc, List.set_append_right _ _ (by omega)]
      simp [hl']
    unfold rbLoop
    rw [hget]
    cases b with
    | false =>
      simp only [hset, incr_snoc_false, Option.map_some]
      simp
    | true =>
      simp only [hset]
      rw [ih bs' (false :: zs) hl', incr_snoc_true]
      cases incr bs' <;> simp

/-- **`range_bounds` is total and denotes the prefix range** -/
theorem rangeBounds_spec (bs : List Bool) (hb : bs.length ≤ KEY_BITS) :
    ∃ stop, rangeBounds (bs ++ List.replicate (KEY_BITS - bs.length) false) bs.length =
        .ok (bs ++ List.replicate (KEY_BITS - bs.length) false, stop) ∧
      ∀ k : Key, k.length = KEY_BITS →
        (inRange (bs ++ List.replicate (KEY_BITS - bs.length) false) stop k = true ↔ bs.isPrefixOf k = true) := by
  unfold rangeBounds
  by_cases h0 : bs.length = 0
  · have : bs = [] := List.length_eq_zero_iff.mp h0
    subst this
    refine ⟨none, by simp [zeroKey], ?_⟩
    intro k hk
    simp only [inRange, List.isPrefixOf, Bool.and_true, iff_true, Bool.not_eq_true', List.nil_append, List.length_nil,
      Nat.sub_zero]
    exact bitsLt_zeros k _ hk
  · rw [if_neg h0, rbLoop_eq _ (bs.length - 1) bs _ (by omega)]
    refine ⟨_, rfl, ?_⟩
    intro k hk
    have hz : ∀ z ∈ List.replicate (KEY_BITS - bs.length) false, z = false := by
      intro z hz; exact (List.mem_replicate.1 hz).2
    have hkl : k.length = bs.length + (List.replicate (KEY_BITS - bs.length) false).length := by
      rw [List.length_replicate]; omega
    rw [← range_iff_prefix bs _ k hz hkl]
    simp only [inRange, Bool.and_eq_true, Bool.not_eq_true']
    cases incr bs <;> simp

/-- the start of the range lies in the range -/
theorem rangeBounds_start_lt (bs : List Bool) (hb : bs.length ≤ KEY_BITS) (stop : Option Key)
    (h : ∀ k : Key, k.length = KEY_BITS →
      (inRange (bs ++ List.replicate (KEY_BITS - bs.length) false) stop k = true ↔ bs.isPrefixOf k = true)) :
    beforeStop stop (bs ++ List.replicate (KEY_BITS - bs.length) false) = true := by
  have := (h (bs ++ List.replicate (KEY_BITS - bs.length) false) (by rw [List.length_append, List.length_replicate]; omega)).2
    (by rw [List.isPrefixOf_iff_prefix]; exact List.prefix_append _ _)
  unfold inRange at this
  simp only [Bool.and_eq_true] at this
  cases stop with
  | none => rfl
  | some e => exact this.2

end Nomt.Seek
