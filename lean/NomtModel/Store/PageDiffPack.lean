import NomtModel.Store.PageDiffOnes
/-!
`pack_changed_nodes` / `unpack_changed_nodes`: mirror = specification, byte by byte.

* `pack d P` = the 32-byte slots of `P` named by the diff, in ascending order;
* `unpack d ns Q` = `Q` with the `k`-th node written over the `k`-th slot named by the diff, every other byte kept;
* `unpack d (pack d P) Q = P` for every `Q` that agrees with `P` outside the named slots; applying the same nodes
  twice = once.
-/
namespace Nomt.Wal
namespace PageDiff

theorem packLoop_eq {page : Bytes} {is : List Nat} (h : ∀ i ∈ is, i * 32 + 32 ≤ page.length) :
    packLoop page is = .ok (is.map (fun i => slice page (i * 32) 32)) := by
  induction is with
  | nil => rfl
  | cons i is ih =>
    have hi := h i (by simp)
    have : ¬ (i * 32 + 32 > page.length) := by omega
    simp only [packLoop, this, if_false, ih (fun j hj => h j (by simp [hj])), List.map_cons]

theorem packLoop_panics {page : Bytes} {is : List Nat} (h : ∃ i ∈ is, ¬ i * 32 + 32 ≤ page.length) :
    (packLoop page is).isPanic = true := by
  induction is with
  | nil => obtain ⟨i, hi, _⟩ := h; cases hi
  | cons i is ih =>
    unfold packLoop
    by_cases hi : i * 32 + 32 > page.length
    · simp [hi, Outcome.isPanic]
    · simp only [hi, if_false]
      have : ∃ j ∈ is, ¬ j * 32 + 32 ≤ page.length := by
        obtain ⟨j, hj, hb⟩ := h
        rcases List.mem_cons.1 hj with e | e
        · subst e; omega
        · exact ⟨j, e, hb⟩
      have := ih this
      revert this
      cases packLoop page is <;> simp [Outcome.isPanic]

theorem mem_zip_map_self {α β : Type} {f : α → β} {l : List α} {a : α} {b : β} (h : (a, b) ∈ l.zip (l.map f)) :
    b = f a := by
  induction l with
  | nil => cases h
  | cons x xs ih =>
    simp only [List.map_cons, List.zip_cons_cons, List.mem_cons, Prod.mk.injEq] at h
    rcases h with ⟨e1, e2⟩ | h
    · subst e1; exact e2
    · exact ih h

theorem exists_mem_zip {α β : Type} {l : List α} {m : List β} (hlen : m.length = l.length) {a : α} (ha : a ∈ l) :
    ∃ b, (a, b) ∈ l.zip m := by
  induction l generalizing m with
  | nil => cases ha
  | cons x xs ih =>
    cases m with
    | nil => simp at hlen
    | cons y ys =>
      rcases List.mem_cons.1 ha with e | e
      · subst e; exact ⟨y, by simp⟩
      · obtain ⟨b, hb⟩ := ih (m := ys) (by simpa using hlen) e
        exact ⟨b, by simp [hb]⟩

/-- SPEC of the copy loop of `unpack_changed_nodes`, byte by byte -/
theorem unpackLoop_char (is : List Nat) (ns : List Bytes) (Q : Bytes)
    (hnd : is.Nodup) (hlen : ns.length = is.length) (hn : ∀ n ∈ ns, n.length = 32)
    (hb : ∀ i ∈ is, i * 32 + 32 ≤ Q.length) :
    ∃ R, unpackLoop is ns Q = .ok R ∧ R.length = Q.length ∧
      (∀ i n, (i, n) ∈ is.zip ns → ∀ j, j < 32 → R[i * 32 + j]? = n[j]?) ∧
      (∀ o, o / 32 ∉ is → R[o]? = Q[o]?) := by
  induction is generalizing ns Q with
  | nil =>
    refine ⟨Q, by cases ns <;> rfl, rfl, ?_, fun _ _ => rfl⟩
    intro i n h; simp at h
  | cons i is ih =>
    cases ns with
    | nil => simp at hlen
    | cons n ns =>
      have hn32 : n.length = 32 := hn n (by simp)
      have hi := hb i (by simp)
      have hw : i * 32 + n.length ≤ Q.length := by omega
      have hQ1 : (writeAt Q (i * 32) n).length = Q.length := writeAt_length hw
      have hnd' := (List.nodup_cons.1 hnd)
      obtain ⟨R, hR, hRl, hRz, hRo⟩ := ih ns (writeAt Q (i * 32) n) hnd'.2 (by simpa using hlen)
        (fun m hm => hn m (by simp [hm])) (fun j hj => by rw [hQ1]; exact hb j (by simp [hj]))
      have hnot : ¬ (i * 32 + 32 > Q.length) := by omega
      refine ⟨R, by simp only [unpackLoop, hnot, if_false, hR], by rw [hRl, hQ1], ?_, ?_⟩
      · intro i' n' hmem j hj
        simp only [List.zip_cons_cons, List.mem_cons, Prod.mk.injEq] at hmem
        rcases hmem with ⟨e1, e2⟩ | hmem
        · subst e1; subst e2
          have hdiv : (i' * 32 + j) / 32 = i' := by omega
          rw [hRo (i' * 32 + j) (by rw [hdiv]; exact hnd'.1), getElem?_writeAt hw]
          have h1 : ¬ (i' * 32 + j < i' * 32) := by omega
          have h2 : i' * 32 + j < i' * 32 + n'.length := by omega
          simp only [h1, h2, if_false, if_true]
          congr 1; omega
        · exact hRz i' n' hmem j hj
      · intro o ho
        have ho1 : o / 32 ≠ i := fun e => ho (by simp [e])
        have ho2 : o / 32 ∉ is := fun e => ho (by simp [e])
        rw [hRo o ho2, getElem?_writeAt hw]
        by_cases h1 : o < i * 32
        · simp [h1]
        · have h2 : ¬ (o < i * 32 + n.length) := by omega
          simp [h1, h2]

/-- `pack_changed_nodes` of a diff that is not cleared, on a page that holds every named slot -/
theorem pack_eq {d : PageDiff} {P : Bytes} (hc : d.changed 127 = false)
    (hb : ∀ i ∈ d.ones, i * 32 + 32 ≤ P.length) :
    d.pack P = .ok (d.ones.map (fun i => slice P (i * 32) 32)) := by
  unfold pack
  have : ¬ (d.w1 &&& CLEAR_BIT ≠ 0) := by rw [clear_test, hc]; simp
  simp only [this, if_false, iterOnes_eq d hc, packLoop_eq hb]

theorem pack_cleared_panics {d : PageDiff} (P : Bytes) (hc : d.changed 127 = true) : (d.pack P).isPanic = true := by
  unfold pack
  have : d.w1 &&& CLEAR_BIT ≠ 0 := (clear_test d).2 hc
  simp [this, Outcome.isPanic]

/-- SPEC of `unpack_changed_nodes`: the `k`-th node lands on the `k`-th named slot, every other byte is kept -/
theorem unpack_char {d : PageDiff} {ns : List Bytes} {Q : Bytes} (hc : d.changed 127 = false)
    (hcount : ns.length = d.count) (hn : ∀ n ∈ ns, n.length = 32)
    (hb : ∀ i ∈ d.ones, i * 32 + 32 ≤ Q.length) :
    ∃ R, d.unpack ns Q = .ok R ∧ R.length = Q.length ∧
      (∀ i n, (i, n) ∈ d.ones.zip ns → ∀ j, j < 32 → R[i * 32 + j]? = n[j]?) ∧
      (∀ o, o / 32 ∉ d.ones → R[o]? = Q[o]?) := by
  obtain ⟨R, h1, h2, h3, h4⟩ := unpackLoop_char d.ones ns Q (nodup_ones d) (by rw [hcount, count_eq]) hn hb
  refine ⟨R, ?_, h2, h3, h4⟩
  unfold unpack
  have : ¬ (d.count ≠ ns.length) := by omega
  simp only [this, if_false, iterOnes_eq d hc, h1]

theorem unpack_count_panics {d : PageDiff} {ns : List Bytes} (Q : Bytes) (h : ns.length ≠ d.count) :
    (d.unpack ns Q).isPanic = true := by
  unfold unpack
  have : d.count ≠ ns.length := fun e => h e.symm
  simp [this, Outcome.isPanic]

/-- **`unpack ∘ pack`**: the nodes packed from `P`, unpacked onto any page `Q` that agrees with `P` outside the slots
named by the diff, give `P` -/
theorem unpack_pack {d : PageDiff} {P Q : Bytes} (hc : d.changed 127 = false)
    (hlen : Q.length = P.length) (hb : ∀ i ∈ d.ones, i * 32 + 32 ≤ P.length)
    (hagree : ∀ o, o / 32 ∉ d.ones → Q[o]? = P[o]?) :
    d.unpack (d.ones.map (fun i => slice P (i * 32) 32)) Q = .ok P := by
  obtain ⟨R, h1, h2, h3, h4⟩ := unpack_char (d := d) (ns := d.ones.map (fun i => slice P (i * 32) 32)) (Q := Q) hc
    (by simp [count_eq])
    (by
      intro n hn
      obtain ⟨i, hi, rfl⟩ := List.mem_map.1 hn
      exact slice_length (by have := hb i hi; omega))
    (by rw [hlen]; exact hb)
  rw [h1]
  congr 1
  apply List.ext_getElem?
  intro o
  by_cases ho : o / 32 ∈ d.ones
  · obtain ⟨n, hmem⟩ := exists_mem_zip (m := d.ones.map (fun i => slice P (i * 32) 32)) (by simp) ho
    have hn := mem_zip_map_self hmem
    have := h3 _ _ hmem (o % 32) (Nat.mod_lt _ (by omega))
    have e : o / 32 * 32 + o % 32 = o := by omega
    rw [e] at this
    rw [this, hn, getElem?_slice]
    simp only [Nat.mod_lt _ (show 32 > 0 by omega), if_true, e]
  · rw [h4 o ho, hagree o ho]

/-- **redo of the node part is idempotent**: applying the same changed nodes twice = once -/
theorem unpack_idem {d : PageDiff} {ns : List Bytes} {Q R : Bytes} (hc : d.changed 127 = false)
    (hn : ∀ n ∈ ns, n.length = 32) (hb : ∀ i ∈ d.ones, i * 32 + 32 ≤ Q.length)
    (h : d.unpack ns Q = .ok R) : d.unpack ns R = .ok R := by
  have hcount : ns.length = d.count := by
    apply Classical.byContradiction
    intro hne
    have := unpack_count_panics Q hne
    rw [h] at this
    exact Bool.noConfusion this
  obtain ⟨R1, h1, h2, h3, h4⟩ := unpack_char (d := d) (ns := ns) (Q := Q) hc hcount hn hb
  rw [h] at h1
  injection h1 with h1
  subst h1
  obtain ⟨R2, g1, g2, g3, g4⟩ := unpack_char (d := d) (ns := ns) (Q := R) hc hcount hn (by rw [h2]; exact hb)
  rw [g1]
  congr 1
  apply List.ext_getElem?
  intro o
  by_cases ho : o / 32 ∈ d.ones
  · obtain ⟨n, hmem⟩ := exists_mem_zip (m := ns) (by rw [hcount, count_eq]) ho
    have a := h3 _ _ hmem (o % 32) (Nat.mod_lt _ (by omega))
    have b := g3 _ _ hmem (o % 32) (Nat.mod_lt _ (by omega))
    have e : o / 32 * 32 + o % 32 = o := by omega
    rw [e] at a b
    rw [a, b]
  · exact g4 o ho

end PageDiff
end Nomt.Wal
