import NomtModel.Store.SeekInv
/-!
# Page-set monotonicity and the two item loops of the fetches (helper lemmas for `Props/C05_Seek.lean`)
-/
namespace Nomt.Seek
open Nomt Nomt.Ovl Nomt.TriePos

variable {Node VH V : Type} [DecidableEq Node] [DecidableEq VH]

/-! ### the page set -/

theorem get_insert (ps : PageSet Node) (P Q : PageId) (pg : MPage Node) (o : Origin) :
    (ps.insert P pg o).get Q = if Q = P then some (pg, o) else ps.get Q := by
  unfold PageSet.get PageSet.insert
  simp only [List.lookup_cons]
  by_cases h : Q = P
  · subst h; simp
  · have : (Q == P) = false := by simpa using h
    simp [this, h]

theorem contains_get {ps : PageSet Node} {P : PageId} (h : ps.contains P = true) : ∃ x, ps.get P = some x := by
  unfold PageSet.contains at h
  unfold PageSet.get
  cases hl : ps.map.lookup P with
  | none => rw [hl] at h; cases h
  | some x => exact ⟨x, rfl⟩

theorem ext_refl (ps : PageSet Node) : Ext ps ps := fun _ h => h

theorem ext_trans {a b c : PageSet Node} (h1 : Ext a b) (h2 : Ext b c) : Ext a c := fun P h => h2 P (h1 P h)

theorem ext_insert (ps : PageSet Node) (P : PageId) (pg : MPage Node) (o : Origin) : Ext ps (ps.insert P pg o) := by
  intro Q ⟨x, hx⟩
  rw [get_insert]
  by_cases h : Q = P
  · exact ⟨(pg, o), by rw [if_pos h]⟩
  · exact ⟨x, by rw [if_neg h]; exact hx⟩

theorem childOK_mono {view : KVL VH} {G : PageId → Prop} {ps ps' : PageSet Node} (he : Ext ps ps') {P : PageId}
    {pg : MPage Node} (h : ChildOK view G ps P pg) : ChildOK view G ps' P pg := by
  intro bs h1 h2 h3 h4 h5
  obtain ⟨a, b⟩ := h bs h1 h2 h3 h4 h5
  refine ⟨a, fun hb => ?_⟩
  rcases b hb with hx | hg
  · exact .inl (he _ hx)
  · exact .inr hg

theorem pgood_mono {W : World Node VH V} {ps ps' : PageSet Node} (he : Ext ps ps') {P : PageId} {pg : MPage Node}
    (h : PGood W ps P pg) : PGood W ps' P pg := ⟨h.1, childOK_mono he h.2⟩

theorem ext_empty (ps : PageSet Node) : Ext {} ps := by
  intro P ⟨x, hx⟩
  simp [PageSet.get] at hx

theorem psinv_insert {W : World Node VH V} {ps : PageSet Node} (hps : PSInv W ps) {P : PageId} {pg : MPage Node}
    (hg : PGood W ps P pg) (o : Origin) : PSInv W (ps.insert P pg o) := by
  intro Q pg' o' hq
  rw [get_insert] at hq
  by_cases h : Q = P
  · rw [if_pos h] at hq
    cases hq
    subst h
    exact pgood_mono (ext_insert ps _ _ _) hg
  · rw [if_neg h] at hq
    exact pgood_mono (ext_insert ps P pg o) (hps Q pg' o' hq)

theorem stOK_mono {W : World Node VH V} {ps ps' : PageSet Node} (he : Ext ps ps') {r : Req Node VH V} {aw : Option Query}
    (h : StOK W ps r aw) : StOK W ps' r aw := by
  unfold StOK at h ⊢
  cases hst : r.st with
  | seeking =>
    rw [hst] at h
    simp only at h ⊢
    obtain ⟨h1, h2, h3, h4⟩ := h
    refine ⟨h1, h2, ?_, h4⟩
    rcases h3 with hx | hg
    · exact .inl (he _ hx)
    · exact .inr hg
  | fetchingLeaf dels it needed => rw [hst] at h; exact h
  | fetchingLeaves page range it needed coll => rw [hst] at h; exact h
  | completed t => rw [hst] at h; exact h

theorem reqOK_mono {W : World Node VH V} {ps ps' : PageSet Node} (he : Ext ps ps') {r : Req Node VH V} {aw : Option Query}
    (h : ReqOK W ps r aw) : ReqOK W ps' r aw := ⟨h.1, h.2.1, stOK_mono he h.2.2⟩

/-! ### `vhMap` -/

theorem vhMap_cons (vh : V → VH) (x : Key × V) (l : KVL V) : vhMap vh (x :: l) = (x.1, vh x.2) :: vhMap vh l := rfl

theorem vhMap_nil (vh : V → VH) : vhMap vh ([] : KVL V) = [] := rfl

theorem ksorted_vhMap (vh : V → VH) {l : KVL V} (h : KSorted l) : KSorted (vhMap vh l) := by
  unfold KSorted vhMap
  rw [List.pairwise_map]
  exact h

theorem vhMap_filter (vh : V → VH) (q : Key → Bool) (l : KVL V) :
    (vhMap vh l).filter (fun e => q e.1) = vhMap vh (l.filter (fun e => q e.1)) := by
  unfold vhMap
  rw [List.filter_map]
  rfl

/-! ### the item loops -/

theorem itFuel_eq (it : BtIt V) : itFuel it = it.measure + 1 := by
  unfold itFuel BtIt.measure LeafIt.measure
  rfl

/-- `BtInv` after `provide_leaf` -/
theorem btinv_provide {it : BtIt V} (inv : BtInv it) (hst : it.leaf.st = .blocked) :
    ∃ lf, it.leaf.provide = .ok lf ∧ BtInv { it with leaf := lf } ∧ ({ it with leaf := lf } : BtIt V).spec = it.spec ∧
      ({ it with leaf := lf } : BtIt V).measure < it.measure := by
  obtain ⟨lf, hp, hl, hstream, hmeas, hstop⟩ := provide_spec inv.leaf hst
  refine ⟨lf, hp, ⟨hl, inv.sp, inv.ss, fun e he => hstop ▸ inv.inr e he⟩, ?_, ?_⟩
  · show kvApply lf.stream it.mem.stream = kvApply it.leaf.stream it.mem.stream
    rw [hstream]
  · simp only [BtIt.measure]; omega

inductive LeafLoopOK (W : World Node VH V) (it : BtIt V) (kv : Key × VH) : Outcome Unit (LeafLoop VH V) → Prop where
  | blocked {it' : BtIt V} {dels' : List Key} : BtInv it' → Shape W.env.leaves it'.leaf → it'.leaf.st = .blocked →
      it'.leaf.pending = it.leaf.pending → it'.leaf.stop = it.leaf.stop →
      fetchLoop (vhMap W.env.vh it'.spec) dels' = .ok kv → it'.measure ≤ it.measure →
      LeafLoopOK W it kv (.ok (.blocked it' dels'))
  | found : LeafLoopOK W it kv (.ok (.found kv))

/-- the `loop` of `continue_leaf_fetch`: it ends blocked with the invariant kept, or with the leaf of the range;
never in `leaf must exist`, never out of fuel -/
theorem leafLoop_ok (W : World Node VH V) (kv : Key × VH) : ∀ (fuel : Nat) (it : BtIt V) (dels : List Key),
    BtInv it → Shape W.env.leaves it.leaf → it.measure < fuel → fetchLoop (vhMap W.env.vh it.spec) dels = .ok kv →
    LeafLoopOK W it kv (leafLoop W.env.vh fuel it dels) := by
  intro fuel
  induction fuel with
  | zero => intro it dels _ _ hm _; omega
  | succ fuel ih =>
    intro it dels inv hsh hm hf
    unfold leafLoop
    have h := next_spec inv
    cases hn : it.next with
    | panic m => rw [hn] at h; cases h
    | err e => rw [hn] at h; cases h
    | ok p =>
      obtain ⟨it', o⟩ := p
      rw [hn] at h
      obtain ⟨s1, s2, s3⟩ := shape_next hsh hn
      cases h with
      | fin hs =>
        rw [hs, vhMap_nil] at hf
        simp [fetchLoop] at hf
      | blocked i1 hs hm' hst =>
        simp only
        exact LeafLoopOK.blocked i1 s1 hst s2 s3 (by rw [hs]; exact hf) hm'
      | @item _ k v i1 hs hm' =>
        simp only
        rw [hs, vhMap_cons] at hf
        unfold fetchLoop at hf
        simp only at hf
        by_cases hskip : (manageDeletions dels k).2 = true
        · rw [if_pos hskip] at hf ⊢
          have := ih it' (manageDeletions dels k).1 i1 s1 (by omega) hf
          generalize leafLoop W.env.vh fuel it' (manageDeletions dels k).1 = res at this ⊢
          cases this with
          | blocked a b c d e f g => exact LeafLoopOK.blocked a b c (d.trans s2) (e.trans s3) f (by omega)
          | found => exact LeafLoopOK.found
        · rw [if_neg hskip] at hf ⊢
          cases hf
          exact LeafLoopOK.found

inductive CollLoopOK (W : World Node VH V) (it : BtIt V) (R : KVL VH) : Outcome Unit (CollLoop VH V) → Prop where
  | blocked {it' : BtIt V} {coll' : KVL VH} : BtInv it' → Shape W.env.leaves it'.leaf → it'.leaf.st = .blocked →
      it'.leaf.pending = it.leaf.pending → it'.leaf.stop = it.leaf.stop →
      coll' ++ vhMap W.env.vh it'.spec = R → it'.measure ≤ it.measure →
      CollLoopOK W it R (.ok (.blocked it' coll'))
  | finished : CollLoopOK W it R (.ok (.finished R))

/-- the collecting loop of `continue_leaves_fetch` -/
theorem collLoop_ok (W : World Node VH V) (R : KVL VH) : ∀ (fuel : Nat) (it : BtIt V) (coll : KVL VH),
    BtInv it → Shape W.env.leaves it.leaf → it.measure < fuel → coll ++ vhMap W.env.vh it.spec = R →
    CollLoopOK W it R (collLoop W.env.vh fuel it coll) := by
  intro fuel
  induction fuel with
  | zero => intro it coll _ _ hm _; omega
  | succ fuel ih =>
    intro it coll inv hsh hm hf
    unfold collLoop
    have h := next_spec inv
    cases hn : it.next with
    | panic m => rw [hn] at h; cases h
    | err e => rw [hn] at h; cases h
    | ok p =>
      obtain ⟨it', o⟩ := p
      rw [hn] at h
      obtain ⟨s1, s2, s3⟩ := shape_next hsh hn
      cases h with
      | fin hs =>
        simp only
        rw [hs, vhMap_nil, List.append_nil] at hf
        subst hf
        exact CollLoopOK.finished
      | blocked i1 hs hm' hst =>
        simp only
        exact CollLoopOK.blocked i1 s1 hst s2 s3 (by rw [hs]; exact hf) hm'
      | @item _ k v i1 hs hm' =>
        simp only
        have := ih it' (coll ++ [(k, W.env.vh v)]) i1 s1 (by omega) (by
          rw [hs, vhMap_cons] at hf
          rw [List.append_assoc]
          exact hf)
        generalize collLoop W.env.vh fuel it' (coll ++ [(k, W.env.vh v)]) = res at this ⊢
        cases this with
        | blocked a b c d e f g => exact CollLoopOK.blocked a b c (d.trans s2) (e.trans s3) f (by omega)
        | finished => exact CollLoopOK.finished

end Nomt.Seek
