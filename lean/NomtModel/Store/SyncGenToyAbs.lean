import NomtModel.Store.SyncGenToy
import NomtModel.Store.SyncGenAbs
import NomtModel.Store.TraceOrderToy
import NomtModel.Store.ConcToyLog
/-!
# A run of the sync choreography over the toy disk (`NomtDisk.Toy`): non-vacuity of the end-to-end corollary

`PT` / `toyRun`: the WAL task, one page write of `ln` (the new root page 2), both fsyncers, `Meta::write`, one table page
(bucket 5), table fsync, WAL truncation.  Its abstraction with the contents `CT` satisfies the content clauses of T4.2c on
the old toy disk `CToy.d0`, so every crash image of every prefix is old or new.
-/
namespace Nomt.Store.SyncGen.Toy
open Nomt.Store Nomt.Store.SyncGen NomtDisk NomtDisk.Toy

def PT : SyncGen.Params := { walLen := 4096, bt := [lnW 8192], ht := [⟨20480, 4096⟩] }

def toyRun : List IoEv2 :=
  walLines PT ++ [B "t7" (lnW 8192).evB, E "t9" (lnW 8192).evE] ++ fsLnLines PT ++ fsBbnLines PT ++ metaLines PT ++
  [B "t1" (ev "Write" "ht" 20480 4096 "io.send"), E "t9" (ev "Write" "ht" 20480 4096 "io.complete")] ++ tailLines real PT

theorem PT_wf : PT.WF := SyncGen.Params.wfB_sound PT (by decide)
theorem toyRun_member : memberOf real PT toyRun = true := by decide

/-- the contents the trace does not carry: effect 6 is the new root page -/
def CT : Contents Nat TMeta (Nat × List (Nat × Nat)) where
  page := fun i => if i = 6 then 7 else 9
  mt := fun _ => m1
  wal := fun _ => w1

def cpreT : List CToy.CE :=
  [.effBegin 0 (.walSet none), .effEnd 0, .effBegin 2 (.walSet (some w1)), .effEnd 2,
   .fsyncBegin "t2" .fWal, .fsyncEnd "t2" .fWal,
   .effBegin 6 (.page .fLn 2 7), .effEnd 6,
   .fsyncBegin "t3" .fLn, .fsyncEnd "t3" .fLn, .fsyncBegin "t4" .fBbn, .fsyncEnd "t4" .fBbn]

def crestT : List CToy.CE :=
  [.effEnd 12, .fsyncBegin "t1" .fMeta, .fsyncEnd "t1" .fMeta,
   .effBegin 16 (.page .fHt 5 9), .effEnd 16, .fsyncBegin "t1" .fHt, .fsyncEnd "t1" .fHt,
   .effBegin 20 (.walSet none), .effEnd 20]

theorem toyRun_abs : absTrace (LogRec := Nat) CT {} 0 toyRun = cpreT ++ CEv.effBegin 12 (.setMeta m1) :: crestT := by rfl

theorem hwalT : (crun (cinit CToy.d0) cpreT).dur.wal = some w1 := by
  simp [cpreT, crun, cstep, cinit, markEnded, takeCSync, flush, covered, coverable, Eff.file, applyEffs, applyEff]

theorem hlogT : (crun (cinit CToy.d0) cpreT).dur.log = [] := by
  simp [cpreT, crun, cstep, cinit, markEnded, takeCSync, flush, covered, coverable, Eff.file, applyEffs, applyEff, CToy.d0]

theorem toyRun_cont : cAll (contChk (AllowedPreL' P L CToy.d0) (contPostL P L (crun (cinit CToy.d0) cpreT).dur m1 w1)) 0
    (cinit CToy.d0) (cpreT ++ CEv.effBegin 12 (.setMeta m1) :: crestT) := by
  have hlog := hlogT
  generalize (crun (cinit CToy.d0) cpreT).dur = dA at hlog
  simp [cpreT, crestT, cAll, contChk, nextPhase, cstep, cinit, markEnded, takeCSync, flush, covered, coverable,
    Eff.file, Eff.isMeta]
  refine ⟨trivial, ?_, ⟨Or.inl rfl, fun h => absurd h.2 (by decide)⟩, ⟨⟨rfl, rfl⟩, fun h => h.elim⟩, trivial, fun _ => ?_⟩
  · show (2 : Nat) ≠ 1
    decide
  · intro b c h
    simp only [P, w1, lookupD] at h
    by_cases hb : 5 = b
    · subst hb; simp at h; subst h; rfl
    · simp [hb] at h

end Nomt.Store.SyncGen.Toy
