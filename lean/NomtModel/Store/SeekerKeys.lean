import NomtModel.Store.Seeker
/-!
# The `Seeker` never changes the key of a request, and hands the requests out in push order
(helper lemmas for `Props/C05_Seeker.lean`; unconditional: no hypothesis on the world)
-/
namespace Nomt.Seeker
open Nomt Nomt.Ovl Nomt.TriePos Nomt.Seek

variable {Node VH V : Type}

macro "splitall" h:ident : tactic => `(tactic| repeat' (split at $h:ident))
macro "fin" h:ident : tactic => `(tactic| all_goals (first | (cases $h:ident; done) | (cases $h:ident; rfl) | skip))

theorem continueLeafFetch_key (env : Env Node VH V) (r r' : Req Node VH V) (leaf : Option (Leaf V))
    (h : continueLeafFetch env r leaf = .ok r') : r'.key = r.key := by
  unfold continueLeafFetch at h
  simp only at h
  splitall h
  fin h

theorem startLeafFetch_key (env : Env Node VH V) (r r' : Req Node VH V)
    (h : startLeafFetch env r = .ok r') : r'.key = r.key := by
  unfold startLeafFetch at h
  simp only at h
  splitall h
  fin h
  all_goals (have := continueLeafFetch_key env _ _ _ h; exact this)

theorem continueLeavesFetch_key (env : Env Node VH V) (ps ps' : PageSet Node) (r r' : Req Node VH V)
    (leaf : Option (Leaf V)) (h : continueLeavesFetch env ps r leaf = .ok (ps', r')) : r'.key = r.key := by
  unfold continueLeavesFetch at h
  simp only at h
  splitall h
  fin h

theorem walkPage_key (env : Env Node VH V) (page : MPage Node) : ∀ (bits : List Bool) (r : Req Node VH V) (w : Walk Node VH V),
    walkPage env page bits r = .ok w → (match w with | .bottom r' => r'.key = r.key | .returned r' => r'.key = r.key) := by
  intro bits
  induction bits with
  | nil => intro r w h; unfold walkPage at h; cases h; rfl
  | cons b bs ih =>
    intro r w h
    unfold walkPage at h
    simp only at h
    splitall h
    fin h
    · rename_i h1
      cases h
      have := startLeafFetch_key env _ _ h1
      exact this
    · have := ih _ w h
      cases w <;> exact this

theorem continueSeek_key (env : Env Node VH V) (ps ps' : PageSet Node) (r r' : Req Node VH V) (pid : PageId)
    (page : MPage Node) (h : continueSeek env ps r pid page = .ok (ps', r')) : r'.key = r.key := by
  unfold continueSeek at h
  simp only at h
  splitall h
  fin h
  all_goals
    (have hk := walkPage_key env page _ _ _ ‹walkPage env page _ _ = _›
     first
     | exact hk
     | (cases h; exact hk)
     | (have h2 := continueLeavesFetch_key env _ _ _ _ _ h; exact h2.trans hk))

theorem nextQuery_key (r r' : Req Node VH V) (q : Option Query) (h : nextQuery r = .ok (r', q)) : r'.key = r.key := by
  unfold nextQuery at h
  skip
  splitall h
  fin h

theorem feedLeaf_key (env : Env Node VH V) (ps ps' : PageSet Node) (r r' : Req Node VH V) (l : Nat)
    (h : feedLeaf env ps r l = .ok (ps', r')) : r'.key = r.key := by
  unfold feedLeaf at h
  skip
  splitall h
  fin h
  · rename_i h1; cases h; exact continueLeafFetch_key env _ _ _ h1
  · exact continueLeavesFetch_key env _ _ _ _ _ h

theorem reqNew_key (env : Env Node VH V) (key : Key) (r : Req Node VH V) (h : Req.new env key = .ok r) : r.key = key := by
  unfold Req.new at h
  simp only at h
  splitall h
  fin h
  · have := startLeafFetch_key env _ _ h; exact this

/-- the keys of the live requests, front to back -/
def keys (m : Mux Node VH V) : List Key := m.reqs.map (·.key)

theorem map_key_set : ∀ (l : List (Req Node VH V)) (i : Nat) (r r' : Req Node VH V), l[i]? = some r → r'.key = r.key →
    (l.set i r').map (·.key) = l.map (·.key)
  | [], _, _, _, h, _ => by cases h
  | a :: l, 0, r, r', h, hk => by
    have : a = r := by simpa using h
    subst this
    simp [hk]
  | a :: l, i + 1, r, r', h, hk => by
    have h' : l[i]? = some r := by simpa using h
    simp [map_key_set l i r r' h' hk]

theorem submitIdleLoad_reqs (ht : Ht) (m m' : Mux Node VH V) (si : Nat) (h : submitIdleLoad ht m si = .ok m') :
    m'.reqs = m.reqs ∧ m'.processed = m.processed := by
  unfold submitIdleLoad at h
  skip
  splitall h
  all_goals (first | (cases h; done) | (cases h; exact ⟨rfl, rfl⟩))

theorem submitIdleLoads_reqs (ht : Ht) : ∀ (l : List Nat) (m m' : Mux Node VH V), submitIdleLoads ht l m = .ok m' →
    m'.reqs = m.reqs ∧ m'.processed = m.processed
  | [], m, m', h => by unfold submitIdleLoads at h; cases h; exact ⟨rfl, rfl⟩
  | si :: rest, m, m', h => by
    unfold submitIdleLoads at h
    split at h
    · rename_i m1 h1
      have e1 := submitIdleLoad_reqs ht _ _ _ h1
      have e2 := submitIdleLoads_reqs ht rest m1 m' h
      exact ⟨e2.1.trans e1.1, e2.2.trans e1.2⟩
    · cases h
    · cases h

theorem submitReq_keys (env : Env Node VH V) (ht : Ht) : ∀ (fuel : Nat) (m m' : Mux Node VH V) (idx : Nat),
    submitReq env ht fuel m idx = .ok m' → keys m' = keys m ∧ m'.processed = m.processed
  | 0, m, m', idx, h => by unfold submitReq at h; cases h
  | fuel + 1, m, m', idx, h => by
    unfold submitReq at h
    simp only at h
    split at h
    · cases h; exact ⟨rfl, rfl⟩
    · split at h
      · cases h
      · rename_i r hr
        split at h
        · cases h
        · cases h
        · cases h; exact ⟨rfl, rfl⟩
        · -- a page
          rename_i r1 pid hq
          have hk1 : r1.key = r.key := nextQuery_key _ _ _ hq
          split at h
          · rename_i pg ps hm
            split at h
            · cases h
            · cases h
            · rename_i ps' r' hc
              have hk2 : r'.key = r1.key := continueSeek_key env _ _ _ _ _ _ hc
              have ih := submitReq_keys env ht fuel _ m' idx h
              refine ⟨ih.1.trans ?_, ih.2⟩
              exact map_key_set _ _ _ _ hr (hk2.trans hk1)
          · split at h
            · cases h
              exact ⟨map_key_set _ _ _ _ hr hk1, rfl⟩
            · cases h
            · cases h
            · split at h
              · cases h
              · cases h
              · rename_i slab si hs
                have e := submitIdleLoad_reqs ht _ _ _ h
                refine ⟨?_, e.2⟩
                unfold keys
                rw [e.1]
                exact map_key_set _ _ _ _ hr hk1
        · -- a leaf
          rename_i r1 l hq
          have hk1 : r1.key = r.key := nextQuery_key _ _ _ hq
          split at h
          · cases h
            exact ⟨map_key_set _ _ _ _ hr hk1, rfl⟩
          · cases h
          · cases h
          · split at h
            · split at h
              · cases h
              · cases h
              · rename_i ps' r' hc
                have hk2 : r'.key = r1.key := feedLeaf_key env _ _ _ _ _ hc
                have ih := submitReq_keys env ht fuel _ m' idx h
                refine ⟨ih.1.trans ?_, ih.2⟩
                exact map_key_set _ _ _ _ hr (hk2.trans hk1)
            · split at h
              · cases h
              · cases h
              · cases h
                exact ⟨map_key_set _ _ _ _ hr hk1, rfl⟩

end Nomt.Seeker
