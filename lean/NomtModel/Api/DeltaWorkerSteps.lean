import NomtModel.Api.DeltaWorkerResubmit
/-!
Every step of the worker mirror keeps the invariant (C09): `handle_lookup` for any answer of `start_load`,
`handle_completion` for any completion that can arrive.  No panic site is reached.
-/
namespace Nomt.Wk
open Nomt
variable {V : Type}

/-- removing requests together with everything that refers to them -/
theorem core_filter {val : Key → Option V} {w : W V} {rel : Option Nat} (h : Core val w rel) (keep : Nat → Bool)
    (hk1 : ∀ ud r m, (ud, Req.ovf r m) ∈ w.reqs → keep ud = true → keep r = true)
    (hk2 : ∀ id l k ud i, (id, Req.main l k) ∈ w.reqs → keep id = true → (ud, Req.ovf id i) ∈ w.reqs → keep ud = true)
    (p' : Dlt.PMap V) (hps : KSorted p') (hpv : ∀ k v, kvGet p' k = some v → v = val k)
    (d' : Nat) (hd : d' = (w.reqs.filter (fun e => keep e.1)).countP isDormant) :
    Core val { w with reqs := w.reqs.filter (fun e => keep e.1), dormant := d', priors := p' } rel := by
  have hmem : ∀ e, e ∈ w.reqs.filter (fun e => keep e.1) ↔ e ∈ w.reqs ∧ keep e.1 = true := fun e => List.mem_filter
  refine ⟨?_, ?_, ?_, h.sep, ?_, ?_, ?_, hd, hps, hpv⟩
  · exact (List.filter_sublist.map _).nodup h.keys
  · intro id l k g; exact h.mainLt id l k ((hmem _).1 g).1
  · intro ud r m g; exact h.ovfGt ud r m ((hmem _).1 g).1
  · intro ud r m g
    obtain ⟨g1, g2⟩ := (hmem _).1 g
    obtain ⟨rd, k, a, b⟩ := h.ovfMain ud r m g1
    exact ⟨rd, k, (hmem _).2 ⟨a, hk1 ud r m g1 g2⟩, b⟩
  · intro ud ud' r m g g'
    exact h.ovfInj ud ud' r m ((hmem _).1 g).1 ((hmem _).1 g').1
  · intro id l k g
    obtain ⟨g1, g2⟩ := (hmem _).1 g
    refine (h.mainOk id l k g1).mono (fun e => e) ?_
    intro ud i hu
    exact ⟨ud, (hmem _).2 ⟨hu, hk2 id l k ud i g1 g2 hu⟩⟩

theorem rdel_eq_filter (m : Reqs) (k : Nat) : rdel m k = m.filter (fun e => (fun u => u != k) e.1) := rfl

theorem rdel_rdel_eq_filter (m : Reqs) (a b : Nat) :
    rdel (rdel m a) b = m.filter (fun e => (fun u => u != a && u != b) e.1) := by
  simp [rdel, List.filter_filter, Bool.and_comm]

theorem rdel_idem (m : Reqs) (k : Nat) : rdel (rdel m k) k = rdel m k := by
  simp [rdel, List.filter_filter]

/-- a `Main` request becomes (or stays) an overflow request: the state between a completion and `resubmit_overflow` -/
theorem core_replace {val : Key → Option V} {w : W V} (h : Core val w none) (ud id : Nat) (l : Look) (k : Key)
    (hm : (id, Req.main l k) ∈ w.reqs) (hud : ud = id ∨ ∃ mi, (ud, Req.ovf id mi) ∈ w.reqs)
    (rd' : Reader) (A : RdOk rd')
    (B : ∀ i, rd'.proc ≤ i → i < rd'.req → i ∉ rd'.arrived → ∃ ud', ud' ≠ ud ∧ (ud', Req.ovf id i) ∈ w.reqs)
    (C : ∀ ud' m, (ud', Req.ovf id m) ∈ w.reqs → ud' ≠ ud → rd'.proc ≤ m ∧ m < rd'.req ∧ m ∉ rd'.arrived)
    (d' : Nat) (D : d' = w.dormant + (if isDormant (id, Req.main l k) then 0 else 1)) :
    Core val { w with reqs := rput (rdel w.reqs ud) id (Req.main (.overflow rd' none) k), dormant := d' } (some id) := by
  have hmem : ∀ e, e ∈ rput (rdel w.reqs ud) id (Req.main (.overflow rd' none) k) ↔
      e = (id, Req.main (.overflow rd' none) k) ∨ (e ∈ w.reqs ∧ e.1 ≠ ud ∧ e.1 ≠ id) := by
    intro e
    rw [mem_rput, mem_rdel]
    constructor
    · rintro (g | ⟨⟨g1, g2⟩, g3⟩)
      · exact Or.inl g
      · exact Or.inr ⟨g1, g2, g3⟩
    · rintro (g | ⟨g1, g2, g3⟩)
      · exact Or.inl g
      · exact Or.inr ⟨⟨g1, g2⟩, g3⟩
  have hnew : (id, Req.main (.overflow rd' none) k) ∈ rput (rdel w.reqs ud) id (Req.main (.overflow rd' none) k) :=
    (hmem _).2 (Or.inl rfl)
  -- an overflow entry other than `ud` has a key different from `ud` and `id`
  have hovf : ∀ u r i, (u, Req.ovf r i) ∈ w.reqs → u ≠ id := fun u r i g => (key_ne_of_kinds h.keys hm g).symm
  have hmainud : ∀ a l' k', (a, Req.main l' k') ∈ w.reqs → a ≠ id → a ≠ ud := by
    intro a l' k' g gne
    rcases hud with rfl | ⟨mi, hmi⟩
    · exact gne
    · exact key_ne_of_kinds h.keys g hmi
  refine ⟨keys_rput (keys_rdel h.keys _) _ _, ?_, ?_, h.sep, ?_, ?_, ?_, ?_, h.ps, h.pv⟩
  · intro a l' k' g
    rcases (hmem _).1 g with g | ⟨g, _⟩
    · cases g; exact h.mainLt id l k hm
    · exact h.mainLt a l' k' g
  · intro u r i g
    rcases (hmem _).1 g with g | ⟨g, _⟩
    · cases g
    · exact h.ovfGt u r i g
  · intro u r i g
    rcases (hmem _).1 g with g1 | ⟨g1, gu, _⟩
    · cases g1
    · by_cases hr : r = id
      · rw [hr] at g1 ⊢
        obtain ⟨c1, c2, c3⟩ := C u i g1 gu
        exact ⟨rd', k, hnew, c1, c2, c3⟩
      · obtain ⟨rd0, k0, a, b⟩ := h.ovfMain u r i g1
        exact ⟨rd0, k0, (hmem _).2 (Or.inr ⟨a, hmainud r _ k0 a hr, hr⟩), b⟩
  · intro u u' r i g g'
    rcases (hmem _).1 g with g | ⟨g, _⟩
    · cases g
    · rcases (hmem _).1 g' with g' | ⟨g', _⟩
      · cases g'
      · exact h.ovfInj u u' r i g g'
  · intro a l' k' g
    rcases (hmem _).1 g with g | ⟨g, gu, gi⟩
    · cases g
      refine ⟨A, fun e => by simp at e, fun i a b c => ?_⟩
      obtain ⟨u, hu1, hu2⟩ := B i a b c
      exact ⟨u, (hmem _).2 (Or.inr ⟨hu2, hu1, hovf u id i hu2⟩)⟩
    · refine (h.mainOk a l' k' g).mono (fun _ => rfl) ?_
      intro u i hu
      refine ⟨u, (hmem _).2 (Or.inr ⟨hu, ?_, (key_ne_of_kinds h.keys hm hu).symm⟩)⟩
      rcases hud with rfl | ⟨mi, hmi⟩
      · exact (key_ne_of_kinds h.keys hm hu).symm
      · intro e
        subst e
        have := entry_unique h.keys hu hmi
        cases this
        exact gi rfl
  · show d' = (rput (rdel w.reqs ud) id (Req.main (.overflow rd' none) k)).countP isDormant
    rw [countP_rput, D, h.dorm]
    have hnd : isDormant (id, Req.main (.overflow rd' none) k) = true := rfl
    rw [hnd, if_pos rfl]
    rcases hud with rfl | ⟨mi, hmi⟩
    · rw [rdel_idem, countP_rdel h.keys isDormant hm]
      split <;> omega
    · have hne : id ≠ ud := key_ne_of_kinds h.keys hm hmi
      have hm' : (id, Req.main l k) ∈ rdel w.reqs ud := mem_rdel.2 ⟨hm, hne⟩
      rw [countP_rdel h.keys isDormant hmi, countP_rdel (keys_rdel h.keys ud) isDormant hm']
      have : isDormant (ud, Req.ovf id mi) = false := rfl
      rw [this]
      split <;> simp <;> omega

/-- the tail of `handle_completion` when nothing is to be resubmitted -/
theorem after_none_inv {val : Key → Option V} {w : W V} (h : Core val w none) (hl : w.storeLive = true) :
    ∃ w', W.afterCompletion w none = .ok w' ∧ Inv val w' ∧ w'.reqs = w.reqs ∧ w'.priors = w.priors ∧
      w'.reqIdx = w.reqIdx ∧ w'.ovfIdx = w.ovfIdx ∧ w'.shutdown = w.shutdown := by
  unfold W.afterCompletion
  by_cases hc : (w.shutdown && w.reqs.isEmpty) = true
  · rw [if_pos hc]
    simp only [Bool.and_eq_true, List.isEmpty_iff] at hc
    refine ⟨_, rfl, ⟨⟨h.keys, h.mainLt, h.ovfGt, h.sep, h.ovfMain, h.ovfInj, h.mainOk, h.dorm, h.ps, h.pv⟩, Or.inr hc.2,
      (fun e => by rw [hc.1] at e; cases e), fun _ _ => rfl⟩, rfl, rfl, rfl, rfl, rfl⟩
  · rw [if_neg hc]
    refine ⟨w, rfl, ⟨h, Or.inl hl, fun _ => hl, ?_⟩, rfl, rfl, rfl, rfl, rfl⟩
    intro e1 e2
    exfalso; apply hc
    simp [e1, e2]

/-- the tail of `handle_completion` when request `id` has to dispatch further overflow requests -/
theorem after_some_inv {val : Key → Option V} {w : W V} {id : Nat} (h : Core val w (some id)) (hl : w.storeLive = true)
    (rd : Reader) (k : Key) (hm : (id, Req.main (.overflow rd none) k) ∈ w.reqs) (hroom : w.reqIdx + 129 ≤ w.ovfIdx) :
    ∃ w', W.afterCompletion w (some id) = .ok w' ∧ Inv val w' ∧ w'.priors = w.priors ∧ w'.reqIdx = w.reqIdx ∧
      w.ovfIdx ≤ w'.ovfIdx + 128 ∧ w'.ovfIdx ≤ w.ovfIdx ∧ w'.shutdown = w.shutdown ∧
      (∀ id' l' k', (id', Req.main l' k') ∈ w.reqs → ∃ l'', (id', Req.main l'' k') ∈ w'.reqs) ∧
      (∀ id' l' k', (id', Req.main l' k') ∈ w'.reqs → ∃ l'', (id', Req.main l'' k') ∈ w.reqs) := by
  have hne : w.reqs ≠ [] := by intro e; rw [e] at hm; cases hm
  have hc : ¬ ((w.shutdown && w.reqs.isEmpty) = true) := by simp [hne]
  unfold W.afterCompletion
  rw [if_neg hc]
  have hinv : Inv' val w (some id) := ⟨h, Or.inl hl, fun _ => hl, fun _ e => absurd e hne⟩
  obtain ⟨w', a1, a2, a3, a4, a5, a6, a7, _, a9, a10⟩ := resubmit_inv hinv rd k hm hroom
  exact ⟨w', a1, a2, a3, a4, a5, a6, a7, a9, a10⟩

/-- what `start_load` may answer -/
def ShapeOk : Shape → Prop
  | .eager => True
  | .leaf ov => ∀ L, ov = some L → L.WF
  | .cachedOverflow L => L.WF

/-- **`handle_lookup`** (before shutdown): no panic; the key gets its prior at once or a pending request -/
theorem handleLookup_inv {val : Key → Option V} {w : W V} (h : Inv val w) (hs : w.shutdown = false) (k : Key) (sh : Shape)
    (hsh : ShapeOk sh) (hroom : w.reqIdx + 129 ≤ w.ovfIdx) :
    ∃ w', w.handleLookup val k sh = .ok w' ∧ Inv val w' ∧ w'.reqIdx ≤ w.reqIdx + 1 ∧ w'.ovfIdx = w.ovfIdx ∧
      w'.shutdown = w.shutdown ∧
      ((w'.priors = kvInsert w.priors k (val k) ∧ w'.reqs = w.reqs) ∨
       (w'.priors = w.priors ∧ ∃ l, w'.reqs = rput w.reqs w.reqIdx (Req.main l k) ∧ ∀ e ∈ w.reqs, e.1 ≠ w.reqIdx)) := by
  have hl : w.storeLive = true := h.live hs
  unfold W.handleLookup
  rw [if_neg (by simp [hl])]
  have hfreshkey : ∀ e ∈ w.reqs, e.1 ≠ w.reqIdx := by
    intro e he
    obtain ⟨a, b⟩ := e
    cases b with
    | main l k' => have := h.mainLt a l k' he; simp only; omega
    | ovf r i => have := h.ovfGt a r i he; have := h.sep; simp only; omega
  -- a fresh `Main` entry
  have hadd : ∀ l0 : Look, LookOk true (rput w.reqs w.reqIdx (Req.main l0 k)) w.reqIdx l0 → isDormant (w.reqIdx, Req.main l0 k) = false →
      Inv val { w with reqs := rput w.reqs w.reqIdx (Req.main l0 k), reqIdx := w.reqIdx + 1 } := by
    intro l0 hl0 hnd
    have hmem : ∀ e, e ∈ rput w.reqs w.reqIdx (Req.main l0 k) ↔ e = (w.reqIdx, Req.main l0 k) ∨ e ∈ w.reqs := by
      intro e
      rw [mem_rput]
      constructor
      · rintro (g | ⟨g, _⟩)
        · exact Or.inl g
        · exact Or.inr g
      · rintro (g | g)
        · exact Or.inl g
        · exact Or.inr ⟨g, hfreshkey e g⟩
    refine ⟨⟨keys_rput h.keys _ _, ?_, ?_, by show w.reqIdx + 1 ≤ w.ovfIdx; omega, ?_, ?_, ?_, ?_, h.ps, h.pv⟩, Or.inl hl,
      fun _ => hl, fun e => by rw [hs] at e; cases e⟩
    · intro a l' k' g
      show a < w.reqIdx + 1
      rcases (hmem _).1 g with g | g
      · cases g; omega
      · have := h.mainLt a l' k' g; omega
    · intro u r i g
      rcases (hmem _).1 g with g | g
      · cases g
      · exact h.ovfGt u r i g
    · intro u r i g
      rcases (hmem _).1 g with g | g
      · cases g
      · obtain ⟨rd0, k0, a, b⟩ := h.ovfMain u r i g
        exact ⟨rd0, k0, (hmem _).2 (Or.inr a), b⟩
    · intro u u' r i g g'
      rcases (hmem _).1 g with g | g
      · cases g
      · rcases (hmem _).1 g' with g' | g'
        · cases g'
        · exact h.ovfInj u u' r i g g'
    · intro a l' k' g
      rcases (hmem _).1 g with g | g
      · cases g; exact hl0
      · refine (h.mainOk a l' k' g).mono (fun _ => rfl) ?_
        intro u i hu
        exact ⟨u, (hmem _).2 (Or.inr hu)⟩
    · show w.dormant = (rput w.reqs w.reqIdx (Req.main l0 k)).countP isDormant
      rw [countP_rput, countP_rdel_absent isDormant hfreshkey, hnd, h.dorm]
      simp
  cases sh with
  | eager =>
    refine ⟨_, rfl, ⟨⟨h.keys, h.mainLt, h.ovfGt, h.sep, h.ovfMain, h.ovfInj, h.mainOk, h.dorm,
      kvInsert_sorted h.ps _ _, ?_⟩, h.store, h.live, h.down⟩, by show w.reqIdx ≤ w.reqIdx + 1; omega, rfl, rfl, Or.inl ⟨rfl, rfl⟩⟩
    intro k' v hv
    by_cases he : k' = k
    · subst he
      rw [kvGet_kvInsert_self] at hv
      exact (Option.some.inj hv).symm
    · rw [kvGet_kvInsert_other _ _ _ _ he] at hv
      exact h.pv k' v hv
  | leaf ov =>
    exact ⟨_, rfl, hadd (.initial ov) hsh rfl, Nat.le_refl _, rfl, rfl, Or.inr ⟨rfl, _, rfl, hfreshkey⟩⟩
  | cachedOverflow L =>
    have hwf : L.WF := hsh
    refine ⟨_, rfl, hadd (.overflow { lay := L, req := 1 } (some 0)) ?_ rfl, Nat.le_refl _, rfl, rfl,
      Or.inr ⟨rfl, _, rfl, hfreshkey⟩⟩
    refine ⟨⟨hwf, Nat.zero_le _, ?_, hwf.pos, (fun i hi => by cases hi), List.nodup_nil⟩, rfl, rfl, rfl, rfl⟩
    show 1 ≤ L.known 0
    have := hwf.prog 0 hwf.pos
    omega

end Nomt.Wk
