import NomtModel.Api.SplitSpec
/-!
`allGroups_eq_witnessSpec`: the groups of ALL runs of a key-sorted operation list (what the commit workers witness,
taken together — `owned_concat`) are the specified witness `witnessSpecL` of the read keys and the written values.
-/
set_option linter.unusedSectionVars false
namespace Nomt.Split
open Nomt Nomt.Api
variable {Node VH : Type} [DecidableEq Node] [DecidableEq VH]

/-- inside a run all entries are equal -/
theorem run_const {α : Type} [DecidableEq α] (ts : List α) (s : Nat) :
    ∀ j, s ≤ j → j < align ts (s+1) → ts[j]? = ts[s]? := by
  intro j
  induction j with
  | zero => intro h _; have : s = 0 := by omega
            subst this; rfl
  | succ j ih =>
    intro h1 h2
    by_cases e : s = j + 1
    · subst e; rfl
    · have hrs := align_least ts (s+1) (j+1) (by omega) h2
      have := ih (by omega) (by omega)
      rw [← this]
      simp only [runStart, Bool.or_eq_false_iff, Nat.add_sub_cancel] at hrs
      have := hrs.2
      have h3 : ts[j]? = ts[j+1]? := by simpa using this
      exact h3.symm

theorem mem_sliceOf {ops : List (Op VH)} {r : Nat × Nat} {o : Op VH} (h : o ∈ sliceOf ops r) :
    ∃ j, r.1 ≤ j ∧ j < r.2 ∧ ops[j]? = some o := by
  obtain ⟨i, hi⟩ := List.mem_iff_getElem?.mp h
  simp only [sliceOf, List.getElem?_take, List.getElem?_drop] at hi
  split at hi
  · exact ⟨r.1 + i, by omega, by omega, hi⟩
  · cases hi

theorem sliceOf_cons (ops : List (Op VH)) (s a : Nat) (hs : s < ops.length) (ha : s < a) :
    sliceOf ops (s, a) = ops[s] :: sliceOf ops (s+1, a) := by
  simp only [sliceOf]
  rw [List.drop_eq_getElem_cons hs, show a - s = (a - (s+1)) + 1 by omega, List.take_succ_cons]

section Main
variable (view : KVL VH) (prover : Key → PathProof Node VH) (ops : List (Op VH))

/-- folding the grouping step over the items of the operations from a run start on: one new group per run -/
theorem fold_runs : ∀ (s : Nat), runStart (terms (tpOf prover) ops) s = true → ∀ (acc : List (WPath Node VH)),
    (∀ w ws o, acc = w :: ws → ops[s]? = some o → w.path ≠ tpOf prover o.1) →
    stepItems prover (expand view (ops.drop s)) acc =
      ((runsFrom (terms (tpOf prover) ops) s ops.length).filterMap (groupSpec view prover ops)).reverse ++ acc := by
  intro s
  have hl : (terms (tpOf prover) ops).length = ops.length := by simp [terms]
  generalize hm : ops.length - s = m
  induction m using Nat.strongRecOn generalizing s with
  | _ m ih =>
    intro hrs acc hacc
    by_cases hs : s < ops.length
    · have ha1 := align_ge (terms (tpOf prover) ops) (s+1)
      have ha2 := align_le_length (terms (tpOf prover) ops) (s+1) (by omega)
      rw [hl] at ha2
      rw [runsFrom_cons ⟨hs, by omega⟩]
      -- split the operations at the end of the run
      have hsplit : ops.drop s = sliceOf ops (s, align (terms (tpOf prover) ops) (s+1))
          ++ ops.drop (align (terms (tpOf prover) ops) (s+1)) := by
        simp only [sliceOf]
        have := (List.take_append_drop (align (terms (tpOf prover) ops) (s+1) - s) (ops.drop s)).symm
        rw [List.drop_drop, show s + (align (terms (tpOf prover) ops) (s+1) - s) = align (terms (tpOf prover) ops) (s+1) by omega] at this
        exact this
      have hexp : expand view (ops.drop s) = expand view (sliceOf ops (s, align (terms (tpOf prover) ops) (s+1)))
          ++ expand view (ops.drop (align (terms (tpOf prover) ops) (s+1))) := by
        rw [hsplit]; simp [expand]
      rw [hexp, stepItems, List.foldl_append]
      -- the run
      have hget : ops[s]? = some ops[s] := List.getElem?_eq_getElem hs
      have hsame : ∀ x ∈ sliceOf ops (s+1, align (terms (tpOf prover) ops) (s+1)),
          tpOf prover x.1 = tpOf prover ops[s].1 := by
        intro x hx
        obtain ⟨j, hj1, hj2, hj3⟩ := mem_sliceOf hx
        have := run_const (terms (tpOf prover) ops) s j (by simp only at hj1; omega) hj2
        rw [terms_get, terms_get, hj3, hget] at this
        simpa using this
      have hrun := stepRun_fresh view prover ops[s] (sliceOf ops (s+1, align (terms (tpOf prover) ops) (s+1))) acc hsame
        (fun w ws e => hacc w ws ops[s] e hget)
      rw [← sliceOf_cons ops s _ hs (by omega)] at hrun
      simp only [stepItems] at hrun
      rw [hrun]
      -- the rest
      have hg : groupSpec view prover ops (s, align (terms (tpOf prover) ops) (s+1)) = some
          { path := tpOf prover ops[s].1, proof := prover ops[s].1,
            reads := readsSpec view (sliceOf ops (s, align (terms (tpOf prover) ops) (s+1))),
            writes := subtrieOps (sliceOf ops (s, align (terms (tpOf prover) ops) (s+1))) } := by
        simp [groupSpec, hget]
      have := ih (ops.length - align (terms (tpOf prover) ops) (s+1)) (by omega)
        (align (terms (tpOf prover) ops) (s+1)) rfl (align_runStart _ _)
        ({ path := tpOf prover ops[s].1, proof := prover ops[s].1,
           reads := readsSpec view (sliceOf ops (s, align (terms (tpOf prover) ops) (s+1))),
           writes := subtrieOps (sliceOf ops (s, align (terms (tpOf prover) ops) (s+1))) } :: acc)
        (by
          intro w ws o e ho
          injection e with e1 e2
          subst e1
          simp only
          -- the entry before a run start differs from it
          have hrs' := align_runStart (terms (tpOf prover) ops) (s+1)
          have hlt : align (terms (tpOf prover) ops) (s+1) < ops.length := (List.getElem?_eq_some_iff.mp ho).1
          have hprev := run_const (terms (tpOf prover) ops) s (align (terms (tpOf prover) ops) (s+1) - 1) (by omega) (by omega)
          simp only [runStart, Bool.or_eq_true, beq_iff_eq, decide_eq_true_eq, bne_iff_ne, ne_eq] at hrs'
          rcases hrs' with (h0 | h0) | h0
          · omega
          · omega
          · rw [hprev, terms_get, terms_get, hget, ho] at h0
            simpa using h0)
      simp only [stepItems] at this
      rw [this, List.filterMap_cons, hg, List.reverse_cons, List.append_assoc]
      rfl
    · have : ops.drop s = [] := List.drop_eq_nil_of_le (by omega)
      rw [this, runsFrom_nil (by omega)]
      simp [expand, stepItems]

/-- **grouping the items of a key-sorted list = the groups of all its runs** -/
theorem groupByTerminal_runs :
    groupByTerminal prover (expand view ops) [] =
      (allRuns (terms (tpOf prover) ops)).filterMap (groupSpec view prover ops) := by
  rw [groupByTerminal_foldl]
  have := fold_runs view prover ops 0 (runStart_zero _) [] (by intro w ws o e; cases e)
  simp only [List.drop_zero, stepItems, List.append_nil] at this
  rw [this, List.reverse_reverse, allRuns]
  simp [terms]

end Main

/-- **the groups of all runs are the specified witness.**  For a canonical, sorted view and a key-sorted operation
list with keys of length `L`: the witnessed path of every run of terminal positions, with the reads attested by the
leaf of the run's terminal and the writes of the run, in run order, is `witnessSpecL` of the read keys and the
written values. -/
theorem allGroups_eq_witnessSpec (H : Hasher Node VH) (hs : H.Sound) (L : Nat) (view : KVL VH) (hc : Canon L 0 view)
    (hsorted : view.Pairwise KeyLt) (ops : List (Op VH)) (hlen : ∀ o ∈ ops, o.1.length = L)
    (hsort : ops.Pairwise KeyLt) :
    (allRuns (terms (tpOf (proveSpec H L view)) ops)).filterMap (groupOf (proveSpec H L view) ops)
      = witnessSpecL H L view (readKeys ops) (subtrieOps ops) := by
  rw [witnessSpecL, witnessWith_eq, items_of_sorted view ops hsort, groupByTerminal_runs]
  apply filterMap_congr_mem
  intro r hr
  have hb := runsFrom_bounds _ _ _ r hr
  have hl : (terms (tpOf (proveSpec H L view)) ops).length = ops.length := by simp [terms]
  have hr1 : r.1 < ops.length := by have := hb.2.1; omega
  have hget : ops[r.1]? = some ops[r.1] := List.getElem?_eq_getElem hr1
  simp only [groupOf, groupSpec, hget, Option.map_some, Option.some.injEq, WPath.mk.injEq, true_and, and_true]
  -- the attested values are the view's values
  unfold readsOf readsSpec
  apply filterMap_congr_mem
  intro o ho
  obtain ⟨j, hj1, hj2, hj3⟩ := mem_sliceOf ho
  have hconst := run_const (terms (tpOf (proveSpec H L view)) ops) r.1 j hj1 (by rw [← hb.2.2.2.2]; exact hj2)
  rw [terms_get, terms_get, hj3, hget] at hconst
  have htp : tpOf (proveSpec H L view) o.1 = tpOf (proveSpec H L view) ops[r.1].1 := by simpa using hconst
  have hpfx : tpOf (proveSpec H L view) ops[r.1].1 <+: o.1 := by
    rw [← htp]; exact tp_prefix H L view o.1
  have hol : o.1.length = L := hlen o (List.mem_of_getElem? hj3)
  have h0l : ops[r.1].1.length = L := hlen _ (List.getElem_mem hr1)
  rw [leafValue_spec H hs L view hc hsorted ops[r.1].1 o.1 h0l hol hpfx]

end Nomt.Split
