import NomtModel.Api.Locks2Inv
/-!
The `base_superseded` flag of a session on a chain of overlays (repair of finding F23): `begin_session` compares, under
`shared` and AFTER taking the read guard, the committed root with the state the chain was built on; `Session::finish`
refuses (and drops the session) if they differ.  In the LTS: `sessBase sid base` records `chain := some base`,
`stale := (root ≠ base)` in the session's entry; `finChk sid` replaces the continuation of `finishSession` by
"release the read guard, return `errSuperseded`" if the entry is stale.

`ChainOk`: the flag of every live session is EXACT — not only at the moment it was computed but for as long as the
session lives — because the committed root cannot change while a read guard is held (`Inv1.snap`).
-/
namespace Nomt.Locks2
variable {C R W D : Type} [DecidableEq R] (ops : DbOps C R W D)

/-- every live session that has compared its chain's base knows whether the chain stands on its start root -/
def ChainOk (s : S C R W D) : Prop :=
  ∀ x ∈ s.readers, ∀ b, x.chain = some b → x.stale = decide (x.root ≠ b)

theorem chainOk_init (db : Db C R D) : ChainOk (init db : S C R W D) := by
  intro x hx; simp [init] at hx

theorem chainOk_of_readers_eq {s s' : S C R W D} (h : ChainOk s) (e : s'.readers = s.readers) : ChainOk s' := by
  intro x hx; rw [e] at hx; exact h x hx

theorem abort_readers (s : S C R W D) (t : Tid) (r : Res) : (abort s t r).readers = s.readers := rfl

theorem chainOk_exec (s : S C R W D) (t : Tid) (i : Instr R W D) (rest : List (Instr R W D)) (h1 : Inv1 s)
    (h : ChainOk s) : ChainOk (exec ops s t i rest).1 := by
  by_cases hi : i.isEff = true
  · rw [exec_isEff ops s t i rest hi]
    split
    · exact chainOk_of_readers_eq h rfl
    · split
      · exact chainOk_of_readers_eq h rfl
      · exact chainOk_of_readers_eq h rfl
  cases i with
  | aRead sid =>
    simp only [exec]
    split
    · exact h
    · intro x hx b hb
      simp only [List.mem_cons] at hx
      rcases hx with rfl | hx
      · simp at hb
      · exact h x hx b hb
  | aReadUnlock sid =>
    simp only [exec]
    intro x hx b hb
    exact h x (List.mem_filter.1 hx).1 b hb
  | sessRoot sid =>
    simp only [exec]
    intro x hx b hb
    simp only [List.mem_map] at hx
    obtain ⟨y, hy, rfl⟩ := hx
    split at hb
    · split
      · exact h y hy b hb
      · exact h y hy b hb
    · split
      · exact h y hy b hb
      · exact h y hy b hb
  | sessBase sid b0 =>
    simp only [exec]
    intro x hx b hb
    simp only [List.mem_map] at hx
    obtain ⟨y, hy, rfl⟩ := hx
    by_cases hc : (y.owner == t && y.sid == sid) = true
    · simp only [hc, if_true] at hb ⊢
      simp only [Option.some.injEq] at hb
      subst hb
      rw [(h1.snap y hy).2.1]
    · simp only [hc, Bool.false_eq_true, if_false] at hb ⊢
      exact h y hy b hb
  | aWrite1 => simp only [exec]; split <;> first | exact h | exact chainOk_of_readers_eq h rfl
  | aWrite2 => simp only [exec]; split <;> first | exact h | exact chainOk_of_readers_eq h rfl
  | aTryWrite => simp only [exec]; split <;> first | exact chainOk_of_readers_eq h rfl
  | aWriteUnlock r => simp only [exec]; exact chainOk_of_readers_eq h rfl
  | mLock => simp only [exec]; split <;> first | exact h | exact chainOk_of_readers_eq h rfl
  | mUnlock => simp only [exec]; exact chainOk_of_readers_eq h rfl
  | finChk sid => simp only [exec]; split <;> exact chainOk_of_readers_eq h rfl
  | ret r => simp only [exec]; exact chainOk_of_readers_eq h rfl
  | _ => simp [Instr.isEff] at hi

theorem chainOk_next (s : S C R W D) (e : Event R W D) (h1 : Inv1 s) (h : ChainOk s) :
    ChainOk (next ops s e).1 := by
  cases e with
  | call t c => simp only [next]; split <;> first | exact h | exact chainOk_of_readers_eq h rfl
  | step t =>
    simp only [next]
    split
    · exact h
    · exact chainOk_exec ops s t _ _ h1 h
  | spur t u =>
    simp only [next]
    split
    · split <;> first | exact h | exact chainOk_of_readers_eq h rfl
    · exact h

theorem chainOk_run (evs : List (Event R W D)) (s : S C R W D) (he : ∀ e ∈ evs, e.isCode = true) (h1 : Inv1 s)
    (h : ChainOk s) : ChainOk (run ops s evs) := by
  induction evs generalizing s with
  | nil => exact h
  | cons e rest ih =>
    exact ih _ (fun e' he' => he e' (List.mem_cons_of_mem _ he')) (inv1_next ops s e (he e (by simp)) h1)
      (chainOk_next ops s e h1 h)

/-- what `finChk` does: refused (continuation = drop the session, return the error) iff the thread's session entry is
stale; otherwise the finish goes on -/
theorem exec_finChk (s : S C R W D) (t : Tid) (sid : Nat) (rest : List (Instr R W D)) :
    let stale := s.readers.any (fun x => x.owner == t && x.sid == sid && x.stale)
    ((exec ops s t (.finChk sid) rest).1.thr t).prog =
      (if stale then [.aReadUnlock sid, .ret .errSuperseded] else rest) ∧
    (exec ops s t (.finChk sid) rest).1.db = s.db ∧ (exec ops s t (.finChk sid) rest).1.readers = s.readers := by
  simp only [exec]
  split <;> simp

end Nomt.Locks2
