/-!
Mirror of `shard_regions` / `shard_index_for` (`nomt/src/page_cache.rs`): how the 64 children of the root
page are split among `n` page-cache shards / commit workers.
-/
namespace Nomt.Shards

def numChildren : Nat := 64

/-- `(start, count)` of shard `i` out of `n` -/
def region (n i : Nat) : Nat × Nat :=
  let part := numChildren / n
  let rem := numChildren % n
  if i ≥ rem then (part * i + rem, part) else (part * i + i, part + 1)

/-- `shard_index_for(num_shards, first_ancestor)` -/
def indexFor (n a : Nat) : Nat :=
  let part := numChildren / n
  let rem := numChildren % n
  if (part + 1) * rem > a then a / (part + 1) else ((a - (part + 1) * rem) / part) + rem

/-- everything T13.1 says about one shard count `n`, as a Boolean -/
def okFor (n : Nat) : Bool :=
  -- every child index is owned by the shard `indexFor` names, which is a valid shard
  ((List.range numChildren).all fun a =>
    let i := indexFor n a
    decide (i < n) && decide ((region n i).1 ≤ a) && decide (a < (region n i).1 + (region n i).2)) &&
  -- regions are non-empty, consecutive and cover exactly 0..63
  ((List.range n).all fun i =>
    decide (0 < (region n i).2) &&
    decide ((region n i).1 = if i = 0 then 0 else (region n (i-1)).1 + (region n (i-1)).2)) &&
  decide ((region n (n-1)).1 + (region n (n-1)).2 = numChildren)

end Nomt.Shards
