import NomtModel.Api.SplitFlat
import NomtModel.Api.WitnessLemmas
/-!
The groups the commit workers witness, taken together, ARE the specified witness.

* `termFn_spec` — the terminal positions of the reference trie satisfy `TermFn` (prefix of the key; a key below the
  terminal of another key has the same terminal);
* `leafValue_spec` — the value `join` attests for a read (the leaf of the batch's terminal if it has the read key,
  else "absent") is the session's view `kvGet view` of the key;
* `items_of_sorted` — for a key-sorted operation list, the merged read / write items `witnessSpec` groups are the
  operations themselves, each read before the write of the same key;
* `allGroups_eq_witnessSpec` — the groups of all runs of the operation list = `witnessSpecL` of the read keys and
  the written values.
-/
set_option linter.unusedSectionVars false
namespace Nomt.Split
open Nomt Nomt.Api
variable {Node VH : Type} [DecidableEq Node] [DecidableEq VH] (H : Hasher Node VH)

/-! ### terminal positions of the reference trie -/

theorem termFn_spec (hs : H.Sound) (L : Nat) (view : KVL VH) (hc : Canon L 0 view) :
    TermFn L (tpOf (proveSpec H L view)) where
  pfx := fun k => tp_prefix H L view k
  stable := by
    intro k1 k2 h1 h2 hp
    have hp2 := tp_prefix H L view k2
    rcases Nat.le_total (tp H L view k1).length (tp H L view k2).length with hle | hle
    · have := List.prefix_of_prefix_length_le hp hp2 hle
      exact (tp_prefix_eq H L view hs hc k1 k2 h1 h2 this).symm
    · have := List.prefix_of_prefix_length_le hp2 hp hle
      exact tp_prefix_eq H L view hs hc k2 k1 h2 h1 this

theorem verify_terminal (L : Nat) (P : PathProof Node VH) (kp : List Bool) (root : Node) (v : Verified Node VH)
    (hv : verify H L P kp root = .ok v) :
    v.terminal = (match P.terminal with | .leaf k x => some (k, x) | .terminator _ => none) := by
  unfold verify at hv
  split at hv
  · cases hv
  · simp only at hv
    split at hv
    · injection hv with hv; subst hv; rfl
    · cases hv

/-- the value attested under the terminal of `k0` for any key `k` below it is the view's value of `k` -/
theorem leafValue_spec (hs : H.Sound) (L : Nat) (view : KVL VH) (hc : Canon L 0 view)
    (hsorted : view.Pairwise KeyLt) (k0 k : Key) (h0 : k0.length = L) (hk : k.length = L)
    (hp : tpOf (proveSpec H L view) k0 <+: k) :
    leafValue (proveSpec H L view k0).terminal k = kvGet view k := by
  obtain ⟨v, hv, hpath, _⟩ := proveSpec_verified H L view hc k0 h0
  have hin : v.inScope k = true := by
    simp only [Verified.inScope, hpath, beq_iff_eq]
    exact ((bl_prefix_iff_take _ _).mp hp).symm
  have htr := (verified_truthful H hs L view hc _ k0 v hv k hin).1
  have hterm := verify_terminal H L _ k0 _ v hv
  simp only [Verified.confirmValue, hin, if_true, Option.some.injEq, hterm] at htr
  cases hT : (proveSpec H L view k0).terminal with
  | leaf k1 v1 =>
    simp only [hT] at htr
    simp only [leafValue]
    by_cases e : k1 = k
    · subst e
      have := htr v1
      simp only [decide_true] at this
      have hm : (k1, v1) ∈ view := by simpa using this.symm
      rw [if_pos rfl, kvGet_of_mem view hsorted k1 v1 hm]
    · rw [if_neg e]
      symm
      apply (kvGet_none_iff view hsorted k).mpr
      intro vh hm
      have := htr vh
      have hd : decide ((k, vh) ∈ view) = true := by simpa using hm
      rw [hd] at this
      simp only [decide_eq_true_eq, Option.some.injEq, Prod.mk.injEq] at this
      exact e this.1
  | terminator p =>
    simp only [hT] at htr
    simp only [leafValue]
    symm
    apply (kvGet_none_iff view hsorted k).mpr
    intro vh hm
    have := htr vh
    have hd : decide ((k, vh) ∈ view) = true := by simpa using hm
    rw [hd] at this
    simp at this

/-! ### the items of a sorted operation list -/
section Items
variable (view : KVL VH)

def readKeys (ops : List (Op VH)) : List Key := (ops.filter (·.2.isRead)).map (·.1)

/-- the items of one operation: the read (with the view's value) before the write -/
def expandOp (o : Op VH) : List (Item VH) :=
  (if o.2.isRead then [(o.1, (false, kvGet view o.1))] else []) ++
  (match o.2.written with | some v => [(o.1, (true, v))] | none => [])

def expand (ops : List (Op VH)) : List (Item VH) := ops.flatMap (expandOp view)

theorem insertKey_of_lt {α : Type} (k : Key) (a : α) : ∀ (l : List (Key × α)), (∀ y ∈ l, bitsLt y.1 k = true) →
    insertKey k a l = l ++ [(k, a)]
  | [], _ => rfl
  | (k', a') :: rest, h => by
    have hlt := h (k', a') List.mem_cons_self
    have hne : (k' == k) = false := by simpa using bl_ne hlt
    have hnl : bitsLt k k' = false := bl_asymm _ _ hlt
    simp only [insertKey, hne, hnl, Bool.false_eq_true, if_false, List.cons_append]
    rw [insertKey_of_lt k a rest (fun y hy => h y (List.mem_cons_of_mem _ hy))]

theorem insAll_of_sorted {α : Type} : ∀ (xs init : List (Key × α)), (init ++ xs).Pairwise KeyLt →
    insAll xs init = init ++ xs
  | [], init, _ => by simp [insAll]
  | x :: rest, init, h => by
    have hx : ∀ y ∈ init, bitsLt y.1 x.1 = true := by
      intro y hy
      exact (List.pairwise_append.mp h).2.2 y hy x List.mem_cons_self
    have := insAll_of_sorted rest (init ++ [x]) (by simpa [List.append_assoc] using h)
    simp only [insAll, List.foldl_cons] at this ⊢
    rw [insertKey_of_lt x.1 x.2 init hx, this, List.append_assoc]
    rfl

def readItems (ops : List (Op VH)) : List (Item VH) :=
  (ops.filter (·.2.isRead)).map (fun o => (o.1, (false, kvGet view o.1)))
def writeItems (ops : List (Op VH)) : List (Item VH) :=
  (subtrieOps ops).map (fun p => (p.1, (true, p.2)))

theorem merge_nil_left : ∀ (fuel : Nat) (b : List (Item VH)), witnessWith.merge fuel [] b = b
  | 0, b => by simp [witnessWith.merge]
  | _+1, b => by simp [witnessWith.merge]

theorem merge_nil_right : ∀ (fuel : Nat) (a : List (Item VH)), witnessWith.merge fuel a [] = a
  | 0, a => by simp [witnessWith.merge]
  | _+1, [] => by simp [witnessWith.merge]
  | _+1, _ :: _ => by simp [witnessWith.merge]

theorem readItems_keys (ops : List (Op VH)) : ∀ x ∈ readItems view ops, ∃ o ∈ ops, x.1 = o.1 := by
  intro x hx
  simp only [readItems, List.mem_map, List.mem_filter] at hx
  obtain ⟨o, ⟨ho, _⟩, rfl⟩ := hx
  exact ⟨o, ho, rfl⟩

theorem writeItems_keys (ops : List (Op VH)) : ∀ x ∈ writeItems ops, ∃ o ∈ ops, x.1 = o.1 := by
  intro x hx
  simp only [writeItems, subtrieOps, List.mem_map, List.mem_filterMap] at hx
  obtain ⟨p, ⟨o, ho, hp⟩, rfl⟩ := hx
  cases hw : o.2.written with
  | none => simp [hw] at hp
  | some v => simp [hw] at hp; subst hp; exact ⟨o, ho, rfl⟩

/-- merging the read items and the write items of a key-sorted operation list gives the operations back, the read
of a key before its write -/
theorem merge_items : ∀ (ops : List (Op VH)), ops.Pairwise KeyLt →
    ∀ fuel, (readItems view ops).length + (writeItems ops).length ≤ fuel →
    witnessWith.merge fuel (readItems view ops) (writeItems ops) = expand view ops
  | [], _, fuel, _ => by simp [readItems, writeItems, subtrieOps, expand, merge_nil_left]
  | (k, rw) :: rest, hsort, fuel, hf => by
    obtain ⟨hhead, hrest⟩ := List.pairwise_cons.mp hsort
    have ih := merge_items rest hrest
    have hra : ∀ x ∈ readItems view rest, bitsLt k x.1 = true := by
      intro x hx; obtain ⟨o, ho, e⟩ := readItems_keys view rest x hx; rw [e]; exact hhead o ho
    have hwb : ∀ x ∈ writeItems rest, bitsLt k x.1 = true := by
      intro x hx; obtain ⟨o, ho, e⟩ := writeItems_keys rest x hx; rw [e]; exact hhead o ho
    have hexp : expand view ((k, rw) :: rest) = expandOp view (k, rw) ++ expand view rest := by
      simp [expand]
    cases rw with
    | read =>
      have e1 : readItems view ((k, RW.read) :: rest) = (k, (false, kvGet view k)) :: readItems view rest := by
        simp [readItems, RW.isRead]
      have e2 : writeItems ((k, RW.read (VH := VH)) :: rest) = writeItems rest := by
        simp [writeItems, subtrieOps, RW.written]
      rw [e1, e2] at hf ⊢
      rw [hexp]
      simp only [expandOp, RW.isRead, RW.written, if_true, List.append_nil, List.singleton_append]
      cases fuel with
      | zero => simp at hf
      | succ f =>
        cases hb : writeItems rest with
        | nil =>
          have := ih f (by rw [hb]; simp at hf ⊢; omega)
          rw [hb, merge_nil_right] at this
          simp [witnessWith.merge, this]
        | cons y rb =>
          obtain ⟨kb, xb⟩ := y
          have hlt : bitsLt kb k = false := bl_asymm _ _ (hwb (kb, xb) (by rw [hb]; exact List.mem_cons_self))
          simp only [witnessWith.merge, hlt, Bool.false_eq_true, if_false]
          rw [← hb, ih f (by simp only [List.length_cons] at hf; omega)]
    | write v =>
      have e1 : readItems view ((k, RW.write v) :: rest) = readItems view rest := by
        simp [readItems, RW.isRead]
      have e2 : writeItems ((k, RW.write v) :: rest) = (k, (true, v)) :: writeItems rest := by
        simp [writeItems, subtrieOps, RW.written]
      rw [e1, e2] at hf ⊢
      rw [hexp]
      simp only [expandOp, RW.isRead, RW.written, Bool.false_eq_true, if_false, List.nil_append, List.singleton_append]
      cases fuel with
      | zero => simp at hf
      | succ f =>
        cases ha : readItems view rest with
        | nil =>
          have := ih f (by rw [ha]; simp at hf ⊢; omega)
          rw [ha, merge_nil_left] at this
          simp [witnessWith.merge, this]
        | cons y ra =>
          obtain ⟨ka, xa⟩ := y
          have hlt : bitsLt k ka = true := hra (ka, xa) (by rw [ha]; exact List.mem_cons_self)
          simp only [witnessWith.merge, hlt, if_true]
          rw [← ha, ih f (by simp only [List.length_cons] at hf; omega)]
    | readWrite v =>
      have e1 : readItems view ((k, RW.readWrite v) :: rest) = (k, (false, kvGet view k)) :: readItems view rest := by
        simp [readItems, RW.isRead]
      have e2 : writeItems ((k, RW.readWrite v) :: rest) = (k, (true, v)) :: writeItems rest := by
        simp [writeItems, subtrieOps, RW.written]
      rw [e1, e2] at hf ⊢
      rw [hexp]
      simp only [expandOp, RW.isRead, RW.written, if_true, List.cons_append, List.nil_append]
      cases fuel with
      | zero => simp at hf
      | succ f =>
        simp only [witnessWith.merge, bl_irrefl, Bool.false_eq_true, if_false]
        cases f with
        | zero => simp only [List.length_cons] at hf; omega
        | succ f' =>
          cases ha : readItems view rest with
          | nil =>
            have := ih f' (by rw [ha]; simp at hf ⊢; omega)
            rw [ha, merge_nil_left] at this
            simp [witnessWith.merge, this]
          | cons y ra =>
            obtain ⟨ka, xa⟩ := y
            have hlt : bitsLt k ka = true := hra (ka, xa) (by rw [ha]; exact List.mem_cons_self)
            simp only [witnessWith.merge, hlt, if_true]
            rw [← ha, ih f' (by simp only [List.length_cons] at hf; omega)]

/-- **the items `witnessSpec` groups, for a key-sorted operation list** -/
theorem items_of_sorted (ops : List (Op VH)) (hsort : ops.Pairwise KeyLt) :
    witnessItems view (readKeys ops) (subtrieOps ops) = expand view ops := by
  have hr : sortedReads view (readKeys ops) = (ops.filter (·.2.isRead)).map (fun o => (o.1, kvGet view o.1)) := by
    unfold sortedReads readKeys
    simp only [List.map_map, Function.comp_def]
    have := insAll_of_sorted ((ops.filter (·.2.isRead)).map (fun o => (o.1, kvGet view o.1))) []
      (by
        rw [List.nil_append, List.pairwise_map]
        exact (hsort.filter _).imp (fun h => h))
    simpa using this
  have hw : sortedWrites (subtrieOps ops) = subtrieOps ops := by
    unfold sortedWrites
    have := insAll_of_sorted (subtrieOps ops) []
      (by
        rw [List.nil_append]
        unfold subtrieOps
        refine List.Pairwise.filterMap _ ?_ hsort
        intro a a' h b hb b' hb'
        cases ha : a.2.written with
        | none => simp [ha] at hb
        | some v =>
          cases ha' : a'.2.written with
          | none => simp [ha'] at hb'
          | some v' =>
            simp [ha] at hb; simp [ha'] at hb'
            subst hb; subst hb'
            exact h)
    simpa using this
  rw [witnessItems_eq, hr, hw]
  have e1 : ((ops.filter (·.2.isRead)).map (fun o => (o.1, kvGet view o.1))).map (fun p => (p.1, (false, p.2)))
      = readItems view ops := by simp [readItems, List.map_map]
  rw [e1]
  exact merge_items view ops hsort _ (Nat.le_refl _)

end Items

/-! ### grouping the items = the groups of the runs -/
section Groups
variable (view : KVL VH) (prover : Key → PathProof Node VH)

theorem groupByTerminal_foldl : ∀ (items : List (Item VH)) (acc : List (WPath Node VH)),
    groupByTerminal prover items acc = (items.foldl (fun a it => stepAcc prover it a) acc).reverse
  | [], acc => by simp [groupByTerminal]
  | it :: rest, acc => by rw [groupByTerminal_cons, groupByTerminal_foldl rest]; rfl

/-- the reads of a slice with the view's values -/
def readsSpec (slice : List (Op VH)) : List (Key × Option VH) :=
  slice.filterMap fun o => if o.2.isRead then some (o.1, kvGet view o.1) else none

/-- the group of the run `r` with the view's values for its reads -/
def groupSpec (ops : List (Op VH)) (r : Nat × Nat) : Option (WPath Node VH) :=
  ops[r.1]?.map fun o =>
    { path := tpOf prover o.1, proof := prover o.1,
      reads := readsSpec view (sliceOf ops r), writes := subtrieOps (sliceOf ops r) }

abbrev stepItems (items : List (Item VH)) (acc : List (WPath Node VH)) : List (WPath Node VH) :=
  items.foldl (fun a it => stepAcc prover it a) acc

/-- an operation under the path of the newest group joins it -/
theorem stepOp_join (o : Op VH) (w : WPath Node VH) (ws : List (WPath Node VH)) (hp : w.path = tpOf prover o.1) :
    stepItems prover (expandOp view o) (w :: ws) =
      { w with reads := w.reads ++ readsSpec view [o], writes := w.writes ++ subtrieOps [o] } :: ws := by
  obtain ⟨k, rw⟩ := o
  have hp' : w.path = tpOf prover k := hp
  cases rw with
  | read => simp [stepItems, expandOp, RW.isRead, RW.written, stepAcc, hp', addOp, readsSpec, subtrieOps]
  | write v => simp [stepItems, expandOp, RW.isRead, RW.written, stepAcc, hp', addOp, readsSpec, subtrieOps]
  | readWrite v =>
    simp [stepItems, expandOp, RW.isRead, RW.written, stepAcc, hp', addOp, readsSpec, subtrieOps]

/-- an operation under another path than the newest group's opens a new group -/
theorem stepOp_fresh (o : Op VH) (acc : List (WPath Node VH))
    (hp : ∀ w ws, acc = w :: ws → w.path ≠ tpOf prover o.1) :
    stepItems prover (expandOp view o) acc =
      { path := tpOf prover o.1, proof := prover o.1, reads := readsSpec view [o], writes := subtrieOps [o] } :: acc := by
  obtain ⟨k, rw⟩ := o
  cases acc with
  | nil =>
    cases rw with
    | read => simp [stepItems, expandOp, RW.isRead, RW.written, stepAcc, addOp, readsSpec, subtrieOps]
    | write v => simp [stepItems, expandOp, RW.isRead, RW.written, stepAcc, addOp, readsSpec, subtrieOps]
    | readWrite v => simp [stepItems, expandOp, RW.isRead, RW.written, stepAcc, addOp, readsSpec, subtrieOps]
  | cons w ws =>
    have hb : ¬ w.path = tpOf prover k := hp w ws rfl
    cases rw with
    | read => simp [stepItems, expandOp, RW.isRead, RW.written, stepAcc, hb, addOp, readsSpec, subtrieOps]
    | write v => simp [stepItems, expandOp, RW.isRead, RW.written, stepAcc, hb, addOp, readsSpec, subtrieOps]
    | readWrite v => simp [stepItems, expandOp, RW.isRead, RW.written, stepAcc, hb, addOp, readsSpec, subtrieOps]

theorem readsSpec_append (a b : List (Op VH)) : readsSpec view (a ++ b) = readsSpec view a ++ readsSpec view b := by
  simp [readsSpec]
theorem subtrieOps_append (a b : List (Op VH)) : subtrieOps (a ++ b) = subtrieOps a ++ subtrieOps b := by
  simp [subtrieOps]

/-- all operations of a slice under the path of the newest group join it -/
theorem stepSlice_join : ∀ (slice : List (Op VH)) (w : WPath Node VH) (ws : List (WPath Node VH)),
    (∀ o ∈ slice, tpOf prover o.1 = w.path) →
    stepItems prover (expand view slice) (w :: ws) =
      { w with reads := w.reads ++ readsSpec view slice, writes := w.writes ++ subtrieOps slice } :: ws
  | [], w, ws, _ => by simp [stepItems, expand, readsSpec, subtrieOps]
  | o :: rest, w, ws, h => by
    have ho := h o List.mem_cons_self
    have : expand view (o :: rest) = expandOp view o ++ expand view rest := by simp [expand]
    rw [this, stepItems, List.foldl_append]
    have e := stepOp_join view prover o w ws ho.symm
    simp only [stepItems] at e
    rw [e]
    have ih := stepSlice_join rest { w with reads := w.reads ++ readsSpec view [o], writes := w.writes ++ subtrieOps [o] } ws
      (fun x hx => h x (List.mem_cons_of_mem _ hx))
    simp only [stepItems] at ih
    rw [ih]
    simp only [List.append_assoc]
    rw [← readsSpec_append, ← subtrieOps_append]
    rfl

/-- a whole run opens one new group -/
theorem stepRun_fresh (o : Op VH) (more : List (Op VH)) (acc : List (WPath Node VH))
    (hsame : ∀ x ∈ more, tpOf prover x.1 = tpOf prover o.1)
    (hp : ∀ w ws, acc = w :: ws → w.path ≠ tpOf prover o.1) :
    stepItems prover (expand view (o :: more)) acc =
      { path := tpOf prover o.1, proof := prover o.1, reads := readsSpec view (o :: more),
        writes := subtrieOps (o :: more) } :: acc := by
  have : expand view (o :: more) = expandOp view o ++ expand view more := by simp [expand]
  rw [this, stepItems, List.foldl_append]
  have e := stepOp_fresh view prover o acc hp
  simp only [stepItems] at e
  rw [e]
  have ih := stepSlice_join view prover more
    { path := tpOf prover o.1, proof := prover o.1, reads := readsSpec view [o], writes := subtrieOps [o] } acc
    (fun x hx => hsame x hx)
  simp only [stepItems] at ih
  rw [ih]
  rw [← readsSpec_append, ← subtrieOps_append]
  rfl

end Groups

end Nomt.Split
