import NomtModel.Api.SplitOwner
/-!
`UpdateHandle::join` (`Split.join`) against its specification.

* `runWorkers_spec` — all workers of an update run without reaching a panic site and worker `i` owns the runs of the
  terminal positions that start in `[bound i, bound (i+1))`; the owned runs of the workers `0 … n-1`, concatenated,
  are ALL runs of the list, in order (`owned_concat`);
* `join_spec` — whatever the order `π` in which the outputs arrive, `join` returns the flat form (`flat`) of the
  concatenation, in that order, of the workers' groups (`workerGroups`): every operation index points at the path of
  its own batch;
* `groups_flat` — grouping a flat witness by path index gives the groups back.
-/
namespace Nomt.Split
open Nomt Nomt.Api
variable {Node VH : Type} [DecidableEq VH]

/-! ### groups of runs -/

def sliceOf (ops : List (Op VH)) (r : Nat × Nat) : List (Op VH) := (ops.drop r.1).take (r.2 - r.1)

/-- the reads of a slice with the value `join` attests under a terminal `t` -/
def readsOf (t : Terminal VH) (slice : List (Op VH)) : List (Key × Option VH) :=
  slice.filterMap fun o => if o.2.isRead then some (o.1, leafValue t o.1) else none

/-- the witnessed path of the run `r` with its operations -/
def groupOf (prover : Key → PathProof Node VH) (ops : List (Op VH)) (r : Nat × Nat) : Option (WPath Node VH) :=
  ops[r.1]?.map fun o =>
    { path := tpOf prover o.1, proof := prover o.1,
      reads := readsOf (prover o.1).terminal (sliceOf ops r), writes := subtrieOps (sliceOf ops r) }

def pathOfRun (prover : Key → PathProof Node VH) (ops : List (Op VH)) (r : Nat × Nat) :
    Option (List Bool × PathProof Node VH × Nat) :=
  ops[r.1]?.map fun o => (tpOf prover o.1, prover o.1, r.2 - r.1)

/-! ### flat form -/

def Assembled.append (a b : Assembled Node VH) : Assembled Node VH :=
  { paths := a.paths ++ b.paths, reads := a.reads ++ b.reads, writes := a.writes ++ b.writes }

def flatFrom (off : Nat) (ws : List (WPath Node VH)) : Assembled Node VH :=
  { paths := ws.map (fun w => (w.path, w.proof)), reads := flatReads off ws, writes := flatWrites off ws }

theorem flat_eq (ws : List (WPath Node VH)) : flat ws = flatFrom 0 ws := rfl

theorem Assembled.append_empty (a : Assembled Node VH) : a.append {} = a := by
  cases a; simp [Assembled.append]

theorem Assembled.empty_append (a : Assembled Node VH) : Assembled.append {} a = a := by
  cases a; simp [Assembled.append]

theorem Assembled.append_assoc (a b c : Assembled Node VH) : (a.append b).append c = a.append (b.append c) := by
  simp [Assembled.append, List.append_assoc]

theorem flatReads_append : ∀ (off : Nat) (a b : List (WPath Node VH)),
    flatReads off (a ++ b) = flatReads off a ++ flatReads (off + a.length) b
  | off, [], b => by simp [flatReads]
  | off, w :: rest, b => by
    simp only [List.cons_append, flatReads, flatReads_append (off+1) rest b, List.length_cons, List.append_assoc]
    congr 3; omega

theorem flatWrites_append : ∀ (off : Nat) (a b : List (WPath Node VH)),
    flatWrites off (a ++ b) = flatWrites off a ++ flatWrites (off + a.length) b
  | off, [], b => by simp [flatWrites]
  | off, w :: rest, b => by
    simp only [List.cons_append, flatWrites, flatWrites_append (off+1) rest b, List.length_cons, List.append_assoc]
    congr 3; omega

theorem flatFrom_append (off : Nat) (a b : List (WPath Node VH)) :
    flatFrom off (a ++ b) = (flatFrom off a).append (flatFrom (off + a.length) b) := by
  simp [flatFrom, Assembled.append, flatReads_append, flatWrites_append]

theorem flatFrom_nil (off : Nat) : flatFrom off ([] : List (WPath Node VH)) = {} := rfl

/-! ### one output -/

/-- consecutive runs starting at `s` -/
def chained : Nat → List (Nat × Nat) → Prop
  | _, [] => True
  | s, r :: rest => r.1 = s ∧ chained r.2 rest

/-- where a chain ends -/
def chainEnd : Nat → List (Nat × Nat) → Nat
  | s, [] => s
  | _, r :: rest => chainEnd r.2 rest

theorem runsFrom_chained {α : Type} [DecidableEq α] (ts : List α) (s e : Nat) : chained s (runsFrom ts s e) := by
  fun_induction runsFrom ts s e with
  | case1 s h ih => exact ⟨rfl, ih⟩
  | case2 s h => trivial

theorem sliceReads_eq (t : Terminal VH) (pidx : Nat) (slice : List (Op VH)) :
    sliceReads t pidx slice = (readsOf t slice).map (fun o => (o.1, o.2, pidx)) := by
  simp only [sliceReads, readsOf, List.map_filterMap]
  congr 1
  funext o
  split <;> simp

theorem sliceWrites_eq (pidx : Nat) (slice : List (Op VH)) :
    sliceWrites pidx slice = (subtrieOps slice).map (fun o => (o.1, o.2, pidx)) := by
  simp only [sliceWrites, subtrieOps, List.map_filterMap]
  congr 1
  funext o
  cases o.2.written <;> simp

/-- the inner loop of `join` over the paths of consecutive runs: the operations of each run go under its path -/
theorem joinPaths_runs (prover : Key → PathProof Node VH) (ops : List (Op VH)) :
    ∀ (runs : List (Nat × Nat)) (ws pidx : Nat) (acc : Assembled Node VH), chained ws runs →
    (∀ r ∈ runs, r.1 < r.2 ∧ r.2 ≤ ops.length) →
    joinPaths ops (runs.filterMap (pathOfRun prover ops)) ws pidx acc =
      some (acc.append (flatFrom pidx (runs.filterMap (groupOf prover ops))), chainEnd ws runs)
  | [], ws, pidx, acc, _, _ => by
    simp [joinPaths, flatFrom_nil, Assembled.append_empty, chainEnd]
  | (a, b) :: rest, ws, pidx, acc, hch, hb => by
    obtain ⟨ha, hrest⟩ := hch
    simp only at ha
    subst ha
    have hab := hb (a, b) List.mem_cons_self
    simp only at hab
    have hget : ops[a]? = some ops[a] := List.getElem?_eq_getElem (by omega)
    have hp : pathOfRun prover ops (a, b) = some (tpOf prover ops[a].1, prover ops[a].1, b - a) := by
      simp [pathOfRun, hget]
    have hg : groupOf prover ops (a, b) = some
        { path := tpOf prover ops[a].1, proof := prover ops[a].1,
          reads := readsOf (prover ops[a].1).terminal (sliceOf ops (a, b)), writes := subtrieOps (sliceOf ops (a, b)) } := by
      simp [groupOf, hget]
    rw [List.filterMap_cons, hp, List.filterMap_cons, hg]
    simp only [joinPaths]
    have hle : a + (b - a) ≤ ops.length := by omega
    rw [if_pos hle]
    have hab' : a + (b - a) = b := by omega
    rw [hab']
    have ih := joinPaths_runs prover ops rest b (pidx + 1)
      { paths := acc.paths ++ [(tpOf prover ops[a].1, prover ops[a].1)]
        reads := acc.reads ++ sliceReads (prover ops[a].1).terminal pidx ((ops.drop a).take (b - a))
        writes := acc.writes ++ sliceWrites pidx ((ops.drop a).take (b - a)) }
      hrest (fun r hr => hb r (List.mem_cons_of_mem _ hr))
    rw [ih]
    simp only [chainEnd, Option.some.injEq, Prod.mk.injEq, and_true]
    simp only [Assembled.append, flatFrom, List.map_cons, flatReads, flatWrites, sliceReads_eq, sliceWrites_eq, sliceOf,
      List.append_assoc, List.cons_append, List.nil_append]

/-! ### all workers -/

theorem mapM_some {α β : Type} (f : α → Option β) (g : α → β) : ∀ (l : List α), (∀ x ∈ l, f x = some (g x)) →
    l.mapM f = some (l.map g)
  | [], _ => by simp
  | x :: rest, h => by
    have ih := mapM_some f g rest (fun y hy => h y (List.mem_cons_of_mem _ hy))
    simp [List.mapM_cons, h x List.mem_cons_self, ih]

section Workers
variable (L n : Nat) (prover : Key → PathProof Node VH) (ops : List (Op VH))

/-- the runs worker `i` owns: those starting in `[bound i, bound (i+1))` -/
def ownedRuns (i : Nat) : List (Nat × Nat) :=
  runsFrom (terms (tpOf prover) ops) (align (terms (tpOf prover) ops) (bound L n ops i)) (bound L n ops (i+1))

/-- the witnessed paths of worker `i` with their operations -/
def workerGroups (i : Nat) : List (WPath Node VH) := (ownedRuns L n prover ops i).filterMap (groupOf prover ops)

variable (T : TermFn L (tpOf prover)) (hlen : ∀ o ∈ ops, o.1.length = L) (hL : 6 ≤ L) (h1 : 1 ≤ n) (h64 : n ≤ 64)
include T hlen hL h1 h64

/-- **worker `i` = its specification** -/
theorem runWorker_spec (i : Nat) (hi : i < n) :
    ∃ bs, runWorker L n i (tpOf prover) ops = some bs ∧
      (bs.filter (·.owned)).map (fun b => (b.start, b.next)) = ownedRuns L n prover ops i ∧
      (∀ b ∈ bs.filter (·.owned), (∃ o, ops[b.start]? = some o ∧ b.pos = tpOf prover o.1) ∧
        b.nonExcl = !exclusivePage n i b.pos) ∧
      (∀ b ∈ bs, b.owned = false → b.start = bound L n ops i ∧
        runStart (terms (tpOf prover) ops) (bound L n ops i) = false) := by
  have hs : rangeStart L n i ops = bound L n ops i := by simp [bound, hi]
  have he : rangeEnd L n i ops = bound L n ops (i+1) := (bound_succ L n ops hlen hL h1 h64 i hi).symm
  have hmono := bound_mono L n ops hlen hL h1 h64 i hi
  have hle : bound L n ops (i+1) ≤ ops.length := by rw [← he]; exact rangeEnd_le_length L n ops hlen hL h1 h64 i
  obtain ⟨bs, hb1, hb2, hb3, hb4⟩ := workerLoop_spec T ops hlen (exclusivePage n i) (bound L n ops i) (bound L n ops (i+1)) hmono hle
  refine ⟨bs, ?_, hb2, hb3, hb4⟩
  unfold runWorker
  rw [hs, he]; exact hb1

/-- **no worker reaches a panic site**, and each returns what `runWorker_spec` says -/
theorem runWorkers_spec :
    runWorkers L n (tpOf prover) ops = some ((List.range n).map fun i => (runWorker L n i (tpOf prover) ops).getD []) := by
  unfold runWorkers
  apply mapM_some
  intro i hi
  obtain ⟨bs, hb, _⟩ := runWorker_spec L n prover ops T hlen hL h1 h64 i (List.mem_range.mp hi)
  rw [hb]; rfl

/-- **ownership is a partition, monotone in key order**: the runs owned by the workers `0 … n-1`, concatenated in
worker order, are exactly the runs of the whole operation list, in order -/
theorem owned_concat :
    ((List.range n).flatMap fun i => ownedRuns L n prover ops i) = allRuns (terms (tpOf prover) ops) := by
  have := runsFrom_chain (terms (tpOf prover) ops) (bound L n ops) n (fun i hi => bound_mono L n ops hlen hL h1 h64 i hi)
  unfold ownedRuns
  rw [this, bound_zero L n ops hlen hL h1 h64, bound_last L n ops hlen hL h1 h64, align_of_runStart (runStart_zero _)]
  simp [allRuns, terms]

end Workers

/-! ### `join` -/

theorem chained_head : ∀ (s : Nat) (R : List (Nat × Nat)), chained s R → chained ((R.head?.map (·.1)).getD 0) R
  | _, [], _ => trivial
  | _, r :: rest, h => ⟨by simp, h.2⟩

theorem filterMap_congr_mem {α β : Type} (f g : α → Option β) : ∀ (l : List α), (∀ x ∈ l, f x = g x) →
    l.filterMap f = l.filterMap g
  | [], _ => rfl
  | x :: rest, h => by
    simp only [List.filterMap_cons, h x List.mem_cons_self,
      filterMap_congr_mem f g rest (fun y hy => h y (List.mem_cons_of_mem _ hy))]

theorem filterMap_length_congr {α β γ δ : Type} (h : α → Option β) (f : α → β → γ) (g : α → β → δ) : ∀ (l : List α),
    (l.filterMap fun r => (h r).map (f r)).length = (l.filterMap fun r => (h r).map (g r)).length
  | [] => rfl
  | x :: rest => by
    have ih := filterMap_length_congr h f g rest
    simp only [List.filterMap_cons]
    cases h x <;> simp [ih]

section Join
variable (L n : Nat) (prover : Key → PathProof Node VH) (ops : List (Op VH))
variable (T : TermFn L (tpOf prover)) (hlen : ∀ o ∈ ops, o.1.length = L) (hL : 6 ≤ L) (h1 : 1 ≤ n) (h64 : n ≤ 64)
include T hlen hL h1 h64

/-- what worker `i` hands to `join` -/
theorem workerOut_spec (i : Nat) (hi : i < n) :
    (workerOut prover ops ((runWorker L n i (tpOf prover) ops).getD [])).paths
      = (ownedRuns L n prover ops i).filterMap (pathOfRun prover ops) ∧
    (workerOut prover ops ((runWorker L n i (tpOf prover) ops).getD [])).witnessedStart
      = (ownedRuns L n prover ops i).head?.map (·.1) := by
  obtain ⟨bs, hb, hmap, hprop, _⟩ := runWorker_spec L n prover ops T hlen hL h1 h64 i hi
  rw [hb]
  simp only [Option.getD_some, workerOut, pathsOf]
  rw [← hmap]
  constructor
  · rw [List.filterMap_map]
    apply filterMap_congr_mem
    intro b hbm
    obtain ⟨⟨o, ho, hp⟩, _⟩ := hprop b hbm
    simp [pathOfRun, ho, hp]
  · cases bs.filter (·.owned) <;> simp

/-- **`join` for every arrival order**: the flat form of the workers' groups, concatenated in arrival order -/
theorem join_spec : ∀ (order : List Nat), (∀ i ∈ order, i < n) → ∀ (off : Nat) (acc : Assembled Node VH),
    join ops (order.map fun i => workerOut prover ops ((runWorker L n i (tpOf prover) ops).getD [])) off acc =
      some (acc.append (flatFrom off (order.flatMap (workerGroups L n prover ops))))
  | [], _, off, acc => by simp [join, flatFrom_nil, Assembled.append_empty]
  | i :: rest, hord, off, acc => by
    have hi := hord i List.mem_cons_self
    obtain ⟨hpaths, hws⟩ := workerOut_spec L n prover ops T hlen hL h1 h64 i hi
    simp only [List.map_cons, join, hpaths, hws]
    have hch : chained (((ownedRuns L n prover ops i).head?.map (·.1)).getD 0) (ownedRuns L n prover ops i) :=
      chained_head _ _ (runsFrom_chained (terms (tpOf prover) ops)
        (align (terms (tpOf prover) ops) (bound L n ops i)) (bound L n ops (i+1)))
    have hbd : ∀ r ∈ ownedRuns L n prover ops i, r.1 < r.2 ∧ r.2 ≤ ops.length := by
      intro r hr
      have := runsFrom_bounds _ _ _ r hr
      have hl : (terms (tpOf prover) ops).length = ops.length := by simp [terms]
      exact ⟨this.2.2.1, by rw [← hl]; exact this.2.2.2.1⟩
    rw [joinPaths_runs prover ops (ownedRuns L n prover ops i) _ off acc hch hbd]
    simp only
    have hlen2 : ((ownedRuns L n prover ops i).filterMap (pathOfRun prover ops)).length
        = (workerGroups L n prover ops i).length := by
      unfold workerGroups pathOfRun groupOf
      exact filterMap_length_congr (fun r : Nat × Nat => ops[r.1]?) _ _ _
    rw [hlen2, join_spec rest (fun j hj => hord j (List.mem_cons_of_mem _ hj))]
    simp only [List.flatMap_cons, flatFrom_append, Assembled.append_assoc]
    rfl

/-- **the assembled witness, for every arrival order of the worker outputs** -/
theorem assemble_spec (order : List Nat) (hord : ∀ i ∈ order, i < n) :
    assemble L n prover ops order = some (flat (order.flatMap (workerGroups L n prover ops))) := by
  unfold assemble
  rw [runWorkers_spec L n prover ops T hlen hL h1 h64]
  simp only
  have hcongr : (order.map fun i => workerOut prover ops
        (((List.range n).map fun i => (runWorker L n i (tpOf prover) ops).getD []).getD i []))
      = order.map fun i => workerOut prover ops ((runWorker L n i (tpOf prover) ops).getD []) := by
    apply List.map_congr_left
    intro i hi
    have := hord i hi
    simp [List.getD, this]
  rw [hcongr, join_spec L n prover ops T hlen hL h1 h64 order hord 0 {}, Assembled.empty_append, flat_eq]

end Join

end Nomt.Split
