import NomtModel.Api.PageRegionLemmas
import NomtModel.Api.Shards
/-!
# The shard regions of the page cache

`shard_regions(n)` (mirror `shardRegions`) is, for `1 ≤ n ≤ 64`, the list of descendants-regions of the root page over
the consecutive child ranges of `Shards.region`; `shard_index_for` (mirror `shardIndexFor`) is `Shards.indexFor`.  A
finite table (kernel evaluation, `n ≤ 64`) gives the shape, the general region lemma gives ownership of every page.
-/
namespace Nomt.TriePos

/-- the finite table: shape of `shard_regions n`, consecutive non-empty ranges, `shard_index_for` names a range that
holds the child -/
def shardTableOk (n : Nat) : Bool :=
  match shardRegions n with
  | none => false
  | some rs =>
    rs.length == n &&
    ((List.range n).all fun i =>
      match rs[i]? with
      | some (r, c) =>
        let sc := Shards.region n i
        c == sc.2 && decide (1 ≤ sc.2) && decide (sc.1 + sc.2 ≤ 64) &&
        r == ⟨[], some [sc.1], maxDescendant [sc.1 + sc.2 - 1]⟩ &&
        decide ((Shards.region n (i + 1)).1 = sc.1 + sc.2)
      | none => false) &&
    ((List.range 64).all fun a =>
      shardIndexFor n a == some (Shards.indexFor n a) && decide (Shards.indexFor n a < n) &&
      decide ((Shards.region n (Shards.indexFor n a)).1 ≤ a ∧
        a < (Shards.region n (Shards.indexFor n a)).1 + (Shards.region n (Shards.indexFor n a)).2))

theorem shardTable : ∀ n, 1 ≤ n → n ≤ 64 → shardTableOk n = true := by
  have table : (List.range 65).all (fun n => n == 0 || shardTableOk n) = true := by decide +kernel
  intro n h1 h64
  have := List.all_eq_true.mp table n (List.mem_range.mpr (by omega))
  have hn0 : (n == 0) = false := by simp; omega
  simpa [hn0] using this

/-- consecutive ranges do not overlap -/
theorem consecutive_mono (st cnt : Nat → Nat) (n : Nat) (hc : ∀ k, k < n → st (k + 1) = st k + cnt k) :
    ∀ j i, i < j → j ≤ n → st i + cnt i ≤ st j := by
  intro j
  induction j with
  | zero => intro i h; omega
  | succ j ih =>
    intro i hij hjn
    by_cases h : i = j
    · subst h; rw [hc i (by omega)]; omega
    · have := ih i (by omega) (by omega)
      rw [hc j (by omega)]
      omega

/-- **ownership of pages by shards**: for `1 ≤ n ≤ 64` shards, a non-root page `a :: t` is owned exclusively by the
region of shard `i` iff `i = shard_index_for(n, a)` (the `debug_assert!` of `PageCache::shard_index_for`) -/
theorem shard_owner (n : Nat) (h1 : 1 ≤ n) (h64 : n ≤ 64) (a : Nat) (t : PageId) (hq : PidOk (a :: t)) :
    ∃ rs, shardRegions n = some rs ∧ rs.length = n ∧ shardIndexFor n a = some (Shards.indexFor n a) ∧
      Shards.indexFor n a < n ∧
      ∀ i r c, rs[i]? = some (r, c) → (r.containsExclusive (a :: t) = true ↔ i = Shards.indexFor n a) := by
  have ha : a < 64 := hq.1 a (by simp)
  have ht := shardTable n h1 h64
  unfold shardTableOk at ht
  cases hrs : shardRegions n with
  | none => rw [hrs] at ht; cases ht
  | some rs =>
    rw [hrs] at ht
    simp only [Bool.and_eq_true, beq_iff_eq, List.all_eq_true, List.mem_range, decide_eq_true_eq] at ht
    obtain ⟨⟨hlen, hall⟩, hidx⟩ := ht
    obtain ⟨⟨hidx1, hidx2⟩, hidx3⟩ := hidx a ha
    -- the facts about every shard
    have hshape : ∀ i, i < n → ∃ r c, rs[i]? = some (r, c) ∧ 1 ≤ (Shards.region n i).2 ∧
        (Shards.region n i).1 + (Shards.region n i).2 ≤ 64 ∧
        r = ⟨[], some [(Shards.region n i).1], maxDescendant [(Shards.region n i).1 + (Shards.region n i).2 - 1]⟩ ∧
        (Shards.region n (i + 1)).1 = (Shards.region n i).1 + (Shards.region n i).2 := by
      intro i hi
      have := hall i hi
      cases hri : rs[i]? with
      | none => rw [hri] at this; cases this
      | some rc =>
        obtain ⟨r, c⟩ := rc
        rw [hri] at this
        simp only [Bool.and_eq_true, beq_iff_eq, decide_eq_true_eq] at this
        obtain ⟨⟨⟨⟨_, hc1⟩, hc64⟩, hr⟩, hnext⟩ := this
        exact ⟨r, c, rfl, hc1, hc64, hr, hnext⟩
    have hmono := consecutive_mono (fun k => (Shards.region n k).1) (fun k => (Shards.region n k).2) n
      (fun k hk => (hshape k hk).choose_spec.choose_spec.2.2.2.2)
    refine ⟨rs, rfl, hlen, hidx1, hidx2, ?_⟩
    intro i r c hi
    have hilt : i < n := by
      rw [← hlen]
      exact (List.getElem?_eq_some_iff.mp hi).1
    obtain ⟨r', c', hi', hc1, hc64, hr, _⟩ := hshape i hilt
    rw [hi] at hi'
    injection hi' with hi'
    injection hi' with hr' _
    subst hr'
    rw [hr]
    have hce := containsExclusive_descendants [] (a :: t) (Shards.region n i).1
      ((Shards.region n i).1 + (Shards.region n i).2 - 1) (by simp [MAX_PAGE_DEPTH]) (by omega) hq
    simp only [List.nil_append] at hce
    rw [hce]
    constructor
    · rintro ⟨c0, t0, he, hlo, hhi⟩
      injection he with he1 he2
      subst he1
      rcases Nat.lt_trichotomy i (Shards.indexFor n a) with h | h | h
      · have := hmono _ i h (by omega)
        omega
      · exact h
      · have := hmono _ (Shards.indexFor n a) h (by omega)
        omega
    · intro he
      subst he
      exact ⟨a, t, rfl, hidx3.1, by omega⟩

end Nomt.TriePos
