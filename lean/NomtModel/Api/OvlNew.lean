import NomtModel.Api.OvlFinish
import NomtModel.Api.Exec
/-!
`LiveOverlay::new`: which ancestor lists are accepted, that it never panics on a heap built by `finish`, and
that the specification-level `Api.newLive` of `Api/Exec.lean` (the subject of T11.2) is this mirror.
(Helper lemmas for `Props/C11_Index.lean`.)
-/
namespace Nomt.Ovl
open Nomt
variable {V : Type}

/-- the zip loop succeeds exactly when the supplied ancestors agree with the parent's weak list as far as both
reach and all of those are still alive -/
theorem zipCheck_ok_iff (alive : Nat → Bool) (sups acts used : List Nat) :
    zipCheck alive sups acts = .ok used ↔
      (used = acts.take (min sups.length acts.length) ∧
       sups.take (min sups.length acts.length) = acts.take (min sups.length acts.length) ∧
       ∀ a ∈ acts.take (min sups.length acts.length), alive a = true) := by
  constructor
  · intro h
    obtain ⟨h1, h2, h3, h4⟩ := zipCheck_ok h
    rw [← h3]
    exact ⟨h1, h2.symm.trans h1, fun a ha => h4 a (h1 ▸ ha)⟩
  · induction sups generalizing acts used with
    | nil => intro ⟨h1, _, _⟩; simp at h1; subst h1; simp [zipCheck]
    | cons sup sups ih =>
      cases acts with
      | nil => intro ⟨h1, _, _⟩; simp at h1; subst h1; simp [zipCheck]
      | cons act acts =>
        intro ⟨h1, h2, h3⟩
        have hm : min (sup :: sups).length (act :: acts).length = min sups.length acts.length + 1 := by
          simp only [List.length_cons]; omega
        rw [hm, List.take_succ_cons] at h1 h2 h3
        rw [List.take_succ_cons] at h2
        have hsa : sup = act := (List.cons.inj h2).1
        have ht : sups.take (min sups.length acts.length) = acts.take (min sups.length acts.length) := (List.cons.inj h2).2
        have hal : alive act = true := h3 act (List.mem_cons_self ..)
        have hrec := ih acts (acts.take (min sups.length acts.length))
          ⟨rfl, ht, fun a ha => h3 a (List.mem_cons_of_mem _ ha)⟩
        simp only [zipCheck, hal, Bool.not_true, Bool.false_eq_true, if_false, hsa, bne_self_eq_false, hrec]
        rw [h1]

/-- **acceptance of `LiveOverlay::new`**: with `n = min(#supplied further ancestors, #weak ancestors of the parent)`,
the call succeeds exactly when the `n` supplied ancestors ARE the parent's first `n` ancestors, all still alive,
and the overlay below the last of them (the parent of the oldest overlay used) is committed or does not exist;
the live overlay then reads the parent and these `n` ancestors with `min_seqn = parent.seqn − n`.  It never
panics (no `u64` underflow) on a heap built by `finish`. -/
theorem new_ok_iff {h : Heap V} (hinv : HeapInv h) (alive committed : Nat → Bool) (p : Nat) (rest : List Nat)
    {po : Ov V} (hp : h[p]? = some po) (l : Live) :
    Live.new h alive committed (p :: rest) = .ok l ↔
      (rest.take (min rest.length po.anc.length) = po.anc.take (min rest.length po.anc.length) ∧
       (∀ a ∈ po.anc.take (min rest.length po.anc.length), alive a = true) ∧
       chainIncomplete committed (lastParent h po (po.anc.take (min rest.length po.anc.length))) = false ∧
       l = { parent := some p, anc := po.anc.take (min rest.length po.anc.length),
             minSeqn := po.seqn - min rest.length po.anc.length }) := by
  have hlen := (hinv p po hp).ancLen
  unfold Live.new
  simp only [hp]
  constructor
  · intro hn
    cases hz : zipCheck alive rest po.anc with
    | error e => rw [hz] at hn; cases hn
    | ok used =>
      rw [hz] at hn
      dsimp only at hn
      obtain ⟨h1, h2, h3⟩ := (zipCheck_ok_iff alive rest po.anc used).1 hz
      by_cases hc : chainIncomplete committed (lastParent h po used) = true
      · rw [if_pos hc] at hn; cases hn
      · rw [if_neg hc] at hn
        by_cases hu : po.seqn < used.length
        · rw [if_pos hu] at hn; cases hn
        · rw [if_neg hu] at hn
          cases hn
          have hul : used.length = min rest.length po.anc.length := by
            rw [h1, List.length_take]; omega
          refine ⟨h2, h3, ?_, ?_⟩
          · rw [← h1]; simpa using hc
          · rw [← h1, hul]
  · intro ⟨h2, h3, hc, hl⟩
    have hz := (zipCheck_ok_iff alive rest po.anc _).2 ⟨rfl, h2, h3⟩
    rw [hz]
    dsimp only
    rw [if_neg (by rw [hc]; simp)]
    have hul : (po.anc.take (min rest.length po.anc.length)).length = min rest.length po.anc.length := by
      rw [List.length_take]; omega
    rw [if_neg (by rw [hul]; omega), hl, hul]

/-- `LiveOverlay::new` never reaches a panic site on overlays that exist -/
theorem new_no_panic {h : Heap V} (hinv : HeapInv h) (alive committed : Nat → Bool) (sup : List Nat)
    (hex : ∀ p ∈ sup.head?, p < h.length) : (Live.new h alive committed sup).isPanic = false := by
  cases sup with
  | nil => rfl
  | cons p rest =>
    have hp : p < h.length := hex p (by simp)
    have hpo : h[p]? = some h[p] := List.getElem?_eq_getElem hp
    have hlen := (hinv p _ hpo).ancLen
    unfold Live.new
    simp only [hpo]
    cases hz : zipCheck alive rest h[p].anc with
    | error e => rfl
    | ok used =>
      dsimp only
      obtain ⟨_, _, h3, _⟩ := zipCheck_ok hz
      split
      · rfl
      · rw [if_neg (by omega)]; rfl

/-! ### the specification-level `Api.newLive` is this mirror -/

section Tie
variable {Node VH : Type} [DecidableEq Node] [DecidableEq VH]

/-- the API state and the overlay heap describe the same overlays -/
def Rel (s : Api.St Node VH) (h : Heap V) : Prop :=
  ∀ i : Nat, match s.ov? i, h[i]? with
    | some ov, some o => ov.parent = o.parent ∧ ov.ancestors = o.anc
    | none, none => True
    | _, _ => False

def committedOf (s : Api.St Node VH) (q : Nat) : Bool :=
  match s.ov? q with | some qo => qo.committed | none => false

theorem api_zipCheck_eq (s : Api.St Node VH) (sups acts : List Nat) :
    Api.zipCheck s sups acts = (match zipCheck s.alive sups acts with
      | .ok r => .ok r
      | .error .incomplete => .error .incomplete
      | .error .notAncestor => .error .notAncestor) := by
  induction sups generalizing acts with
  | nil => simp [Api.zipCheck, zipCheck]
  | cons sup sups ih =>
    cases acts with
    | nil => simp [Api.zipCheck, zipCheck]
    | cons act acts =>
      simp only [Api.zipCheck, zipCheck]
      by_cases ha : s.alive act = true
      · simp only [ha, Bool.not_true, Bool.false_eq_true, if_false]
        by_cases hs : sup = act
        · subst hs
          simp only [bne_self_eq_false, Bool.false_eq_true, if_false]
          rw [ih acts]
          cases hz : zipCheck s.alive sups acts with
          | ok r => rfl
          | error e => cases e <;> rfl
        · have : (sup != act) = true := by simpa using hs
          simp only [this, if_true]
      · have ha' : s.alive act = false := by simpa using ha
        simp only [ha', Bool.not_false, if_true]

/-- **tie to T11.2**: on related states `Api.newLive` (the function the C11 theorems of `Props/C11.lean` are
about) returns the chain of the mirrored `LiveOverlay::new`, and refuses with the same error -/
theorem api_newLive_eq {s : Api.St Node VH} {h : Heap V} (hinv : HeapInv h) (hr : Rel s h) (ids : List Nat) :
    Api.newLive s ids = (match Live.new h s.alive (committedOf s) ids with
      | .ok l => .ok l.chain
      | .err .incomplete => .error .incomplete
      | .err .notAncestor => .error .notAncestor
      | .panic _ => .error .notAncestor) := by
  cases ids with
  | nil => rfl
  | cons p rest =>
    unfold Api.newLive Live.new
    dsimp only
    have hrp := hr p
    cases hs : s.ov? p with
    | none =>
      rw [hs] at hrp
      cases hh : h[p]? with
      | none => rfl
      | some o => rw [hh] at hrp; exact absurd hrp id
    | some ov =>
      rw [hs] at hrp
      cases hh : h[p]? with
      | none => rw [hh] at hrp; exact absurd hrp id
      | some po =>
        rw [hh] at hrp
        obtain ⟨hpar, hanc⟩ := hrp
        dsimp only
        rw [api_zipCheck_eq, hanc]
        cases hz : zipCheck s.alive rest po.anc with
        | error e => cases e <;> rfl
        | ok used =>
          dsimp only
          obtain ⟨h1, _, h3, _⟩ := zipCheck_ok hz
          have inv := hinv p po hh
          have hlen := inv.ancLen
          rw [if_neg (show ¬ po.seqn < used.length by omega)]
          -- the overlay whose parent decides whether the chain is complete
          have hlo : ∃ lo, s.ov? ((p :: used).getLast?.getD p) = some lo ∧ lo.parent = lastParent h po used := by
            unfold lastParent
            cases hu : used.getLast? with
            | none =>
              have : used = [] := by simpa using hu
              subst this
              exact ⟨ov, by simpa using hs, hpar⟩
            | some lst =>
              have hgl : (p :: used).getLast? = some lst := by
                cases used with
                | nil => simp at hu
                | cons u us => rw [List.getLast?_cons_cons]; exact hu
              have hmem : lst ∈ po.anc := by
                have : lst ∈ used := List.mem_of_getLast? hu
                rw [h1] at this
                exact List.mem_of_mem_take this
              have hlt := inv.ancLt lst hmem
              have hrl := hr lst
              rw [List.getElem?_eq_getElem hlt] at hrl
              cases hsl : s.ov? lst with
              | none => rw [hsl] at hrl; exact absurd hrl id
              | some lo =>
                rw [hsl] at hrl
                refine ⟨lo, by rw [hgl]; simpa using hsl, ?_⟩
                simp only [List.getElem?_eq_getElem hlt, Option.bind_some]
                exact hrl.1
          obtain ⟨lo, hlo1, hlo2⟩ := hlo
          simp only [hlo1, hlo2]
          cases hlp : lastParent h po used with
          | none => simp [chainIncomplete, Live.chain]
          | some q =>
            cases hq : s.ov? q with
            | none => simp [chainIncomplete, committedOf, hq]
            | some qo =>
              cases hc : qo.committed <;> simp [chainIncomplete, committedOf, hq, hc, Live.chain]

end Tie

end Nomt.Ovl
