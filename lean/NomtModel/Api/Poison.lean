import NomtModel.Api.ExecLemmas
/-!
Fault layer over the API model: a commit may be hit by an I/O failure; the handle then reports an error,
is poisoned, and refuses every later commit (mirror of `Store::commit`'s poison flag and of the early
poison check in `FinishedSession::commit` / `Overlay::commit`).
-/
namespace Nomt.Api
variable {Node VH : Type} [DecidableEq Node] [DecidableEq VH]

structure PSt (Node VH : Type) where
  st : St Node VH
  poisoned : Bool := false

/-- `FinishedSession::commit` under a fault parameter: `fault = true` means some I/O operation of this
commit fails.  What the durable state becomes is the disk model's business (C03/C04: pre or post); the
handle keeps serving reads from its old in-memory state and is poisoned. -/
def commitFinP (p : PSt Node VH) (fid : Nat) (fault : Bool) : Res × PSt Node VH :=
  if p.poisoned then (.err, p)
  else
    let r := commitFin p.st fid
    if r.1 = .ok ∧ fault then (.err, { st := (takeFin p.st fid).map (·.2) |>.getD p.st, poisoned := true })
    else (r.1, { p with st := r.2 })

end Nomt.Api
