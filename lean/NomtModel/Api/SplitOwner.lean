import NomtModel.Api.SplitRuns
import NomtModel.Api.SplitRange
/-!
The mirror of one commit worker (`Split.workerLoop` = `RangeUpdater::update` + `handle_completion`) against its
specification: the batches a worker OWNS are exactly the runs of the terminal positions of the sorted operations
that START inside the worker's index range — a run that starts before the range is left to the worker on the left
(which extends past its own `range_end`), and no panic site is reached.

The only facts used about the terminal position `tp k` of a key (hypothesis `TermFn`, proved for the reference trie
in `SplitSpec.lean`): it is a prefix of the key, and a key below the terminal of another key has the same terminal.
-/
namespace Nomt.Split
open Nomt Nomt.Api
variable {VH : Type}

/-- what the splitting needs to know about terminal positions -/
structure TermFn (L : Nat) (tp : Key → List Bool) : Prop where
  pfx : ∀ k, tp k <+: k
  stable : ∀ k1 k2, k1.length = L → k2.length = L → tp k1 <+: k2 → tp k2 = tp k1

/-- the terminal positions of the operations -/
def terms (tp : Key → List Bool) (ops : List (Op VH)) : List (List Bool) := ops.map (fun o => tp o.1)

theorem terms_get (tp : Key → List Bool) (ops : List (Op VH)) (j : Nat) :
    (terms tp ops)[j]? = (ops[j]?).map (fun o => tp o.1) := by simp [terms]

theorem contains_iff {L : Nat} {tp : Key → List Bool} (T : TermFn L tp) (k1 k2 : Key)
    (h1 : k1.length = L) (h2 : k2.length = L) : subtrieContains (tp k1) k2 = true ↔ tp k2 = tp k1 := by
  simp only [subtrieContains, List.isPrefixOf_iff_prefix]
  constructor
  · exact T.stable k1 k2 h1 h2
  · intro h; rw [← h]; exact T.pfx k2

/-! ### `takeWhile` by index -/

theorem takeWhile_spec {β : Type} (p : β → Bool) : ∀ (l : List β),
    (∀ i, i < (l.takeWhile p).length → ∃ x, l[i]? = some x ∧ p x = true) ∧
    (∀ x, l[(l.takeWhile p).length]? = some x → p x = false)
  | [] => by simp
  | y :: rest => by
    have ih := takeWhile_spec p rest
    cases hp : p y with
    | false => simp [List.takeWhile_cons, hp]
    | true =>
      simp only [List.takeWhile_cons, hp, if_true, List.length_cons]
      constructor
      · intro i hi
        cases i with
        | zero => exact ⟨y, by simp, hp⟩
        | succ i => simpa using ih.1 i (by omega)
      · intro x hx
        simp only [List.getElem?_cons_succ] at hx
        exact ih.2 x hx

section Loop
variable {L : Nat} {tp : Key → List Bool} (T : TermFn L tp) (ops : List (Op VH))
  (hlen : ∀ o ∈ ops, o.1.length = L)
include T hlen

theorem key_len (j : Nat) (o : Op VH) (h : ops[j]? = some o) : o.1.length = L :=
  hlen o (List.mem_of_getElem? h)

/-- **the end of a batch is the next run start** (in particular a batch is never empty) -/
theorem batch_end (s : Nat) (o : Op VH) (hs : ops[s]? = some o) :
    s + batchSize (tp o.1) ops s = align (terms tp ops) (s+1) := by
  have hol := key_len T ops hlen s o hs
  have hsl : s < ops.length := (List.getElem?_eq_some_iff.mp hs).1
  obtain ⟨hA, hB⟩ := takeWhile_spec (fun x : Op VH => subtrieContains (tp o.1) x.1) (ops.drop s)
  -- abbreviations
  have hc : batchSize (tp o.1) ops s = ((ops.drop s).takeWhile (fun x => subtrieContains (tp o.1) x.1)).length := rfl
  rw [← hc] at hA hB
  have hpos : 1 ≤ batchSize (tp o.1) ops s := by
    rcases Nat.eq_zero_or_pos (batchSize (tp o.1) ops s) with h0 | h0
    · have := hB o (by rw [h0]; simpa using hs)
      have hself : subtrieContains (tp o.1) o.1 = true := (contains_iff T o.1 o.1 hol hol).mpr rfl
      rw [hself] at this; cases this
    · exact h0
  -- every operation of the batch has the terminal of `o`
  have hin : ∀ j, s ≤ j → j < s + batchSize (tp o.1) ops s → (terms tp ops)[j]? = some (tp o.1) := by
    intro j hj1 hj2
    obtain ⟨x, hx, hp⟩ := hA (j - s) (by omega)
    rw [List.getElem?_drop, show s + (j - s) = j by omega] at hx
    rw [terms_get, hx]
    simp only [Option.map_some, Option.some.injEq]
    exact (contains_iff T o.1 x.1 hol (key_len T ops hlen j x hx)).mp hp
  symm
  apply align_unique _ _ _ (by omega)
  · -- the end is a run start
    by_cases hend : (terms tp ops).length ≤ s + batchSize (tp o.1) ops s
    · exact runStart_of_ge _ _ hend
    · have hlt : s + batchSize (tp o.1) ops s < ops.length := by simpa [terms] using hend
      obtain ⟨x, hx⟩ : ∃ x, ops[s + batchSize (tp o.1) ops s]? = some x :=
        ⟨ops[s + batchSize (tp o.1) ops s], List.getElem?_eq_getElem hlt⟩
      have hp := hB x (by rw [List.getElem?_drop]; exact hx)
      have hne : tp x.1 ≠ tp o.1 := by
        intro e
        have := (contains_iff T o.1 x.1 hol (key_len T ops hlen _ x hx)).mpr e
        rw [this] at hp; cases hp
      have hprev := hin (s + batchSize (tp o.1) ops s - 1) (by omega) (by omega)
      simp only [runStart, Bool.or_eq_true, beq_iff_eq, decide_eq_true_eq, bne_iff_ne, ne_eq]
      right
      rw [hprev, terms_get, hx]
      simp only [Option.map_some, Option.some.injEq]
      exact fun e => hne e.symm
  · intro j hj1 hj2
    have h1 := hin (j - 1) (by omega) (by omega)
    have h2 := hin j (by omega) hj2
    have hjl : j < (terms tp ops).length := by
      have := (List.getElem?_eq_some_iff.mp h2).1; exact this
    simp only [runStart, Bool.or_eq_false_iff, beq_eq_false_iff_ne, ne_eq, decide_eq_false_iff_not, Nat.not_le]
    refine ⟨⟨by omega, hjl⟩, ?_⟩
    simp [h1, h2]

/-- **the ownership test**: the completion for `read_write[start]` is the worker's own unless it is the first of
the range and its terminal also covers the operation just before the range -/
theorem owned_iff (excl : List Bool → Bool) (rs start : Nat) (b : Batch)
    (hb : handleCompletion tp ops excl rs start = some b) :
    b.owned = (start != rs || runStart (terms tp ops) rs) ∧ b.start = start ∧
    b.next = align (terms tp ops) (start+1) ∧ (∃ o, ops[start]? = some o ∧ b.pos = tp o.1) ∧
    b.nonExcl = (b.owned && !excl b.pos) := by
  unfold handleCompletion at hb
  split at hb
  · cases hb
  · rename_i k rw hk
    injection hb with hb
    subst hb
    refine ⟨?_, rfl, batch_end T ops hlen start (k, rw) hk, ⟨(k, rw), hk, rfl⟩, rfl⟩
    simp only
    by_cases hsr : start = rs
    · subst hsr
      simp only [bne_self_eq_false, Bool.false_or]
      by_cases h0 : start = 0
      · subst h0; simp [runStart_zero]
      · have hk' : start < ops.length := (List.getElem?_eq_some_iff.mp hk).1
        obtain ⟨o', ho'⟩ : ∃ o', ops[start - 1]? = some o' :=
          ⟨ops[start - 1]'(by omega), List.getElem?_eq_getElem (by omega)⟩
        have hc := contains_iff T k o'.1 (key_len T ops hlen start (k, rw) hk) (key_len T ops hlen _ o' ho')
        have h0' : (start == 0) = false := by simpa using h0
        simp only [h0', Bool.false_or, ho']
        simp only [runStart, h0', Bool.false_or, terms_get, ho', hk, Option.map_some]
        have hl : decide ((terms tp ops).length ≤ start) = false := by simp [terms]; omega
        rw [hl, Bool.false_or]
        cases hcc : subtrieContains (tp k) o'.1 with
        | true => have := hc.mp hcc; simp [this]
        | false =>
          have : tp o'.1 ≠ tp k := fun e => by rw [hc.mpr e] at hcc; cases hcc
          simp [this]
    · have : (start != rs) = true := by simpa using hsr
      simp [this]

/-- from a run start that is the worker's own, the loop walks the runs up to `range_end` and owns them all -/
theorem workerLoop_from_runStart (excl : List Bool → Bool) (rs re : Nat) (hre : re ≤ ops.length) :
    ∀ (fuel s : Nat), ops.length - s < fuel → rs ≤ s → runStart (terms tp ops) s = true →
    ∃ bs, workerLoop tp ops excl rs re fuel s = some bs ∧
      bs.map (fun b => (b.start, b.next)) = runsFrom (terms tp ops) s re ∧
      (∀ b ∈ bs, b.owned = true ∧ (∃ o, ops[b.start]? = some o ∧ b.pos = tp o.1) ∧ b.nonExcl = !excl b.pos)
  | 0, _, h, _, _ => by omega
  | fuel+1, s, hf, hrs, hst => by
    unfold workerLoop
    by_cases hlt : s < re
    · simp only [hlt, if_true]
      have hsl : s < ops.length := by omega
      have hget : ops[s]? = some ops[s] := List.getElem?_eq_getElem hsl
      obtain ⟨b, hb⟩ : ∃ b, handleCompletion tp ops excl rs s = some b := by
        unfold handleCompletion; rw [hget]; exact ⟨_, rfl⟩
      obtain ⟨ho, hstart, hnext, hpos, hne⟩ := owned_iff T ops hlen excl rs s b hb
      have hown : b.owned = true := by
        rw [ho]
        by_cases e : s = rs
        · subst e; simp [hst]
        · have : (s != rs) = true := by simpa using e
          simp [this]
      have hge := align_ge (terms tp ops) (s+1)
      have hle := align_le_length (terms tp ops) (s+1) (by simp [terms]; omega)
      have hlen' : (terms tp ops).length = ops.length := by simp [terms]
      rw [hb]
      simp only
      have hnes : ¬ b.next = s := by omega
      rw [if_neg hnes]
      obtain ⟨bs, h1, h2, h3⟩ := workerLoop_from_runStart excl rs re hre fuel b.next (by omega) (by omega)
        (by rw [hnext]; exact align_runStart _ _)
      refine ⟨b :: bs, by rw [h1]; rfl, ?_, ?_⟩
      · rw [runsFrom_cons ⟨hlt, by omega⟩, List.map_cons, h2, hstart, hnext]
      · intro x hx
        rcases List.mem_cons.mp hx with rfl | hx
        · refine ⟨hown, ?_, by rw [hne, hown]; simp⟩
          rw [hstart]; exact hpos
        · exact h3 x hx
    · simp only [hlt, if_false]
      exact ⟨[], rfl, by rw [runsFrom_nil (by omega)]; rfl, by intro b hb; cases hb⟩

/-- **one worker = its specification**: no panic site is reached, and the batches the worker owns are exactly the
runs that start in `[range_start, range_end)` (walked from the first run start `≥ range_start`) -/
theorem workerLoop_spec (excl : List Bool → Bool) (rs re : Nat) (hrs : rs ≤ re) (hre : re ≤ ops.length) :
    ∃ bs, workerLoop tp ops excl rs re (ops.length + 1) rs = some bs ∧
      (bs.filter (·.owned)).map (fun b => (b.start, b.next)) = runsFrom (terms tp ops) (align (terms tp ops) rs) re ∧
      (∀ b ∈ bs.filter (·.owned), (∃ o, ops[b.start]? = some o ∧ b.pos = tp o.1) ∧ b.nonExcl = !excl b.pos) ∧
      (∀ b ∈ bs, b.owned = false → b.start = rs ∧ runStart (terms tp ops) rs = false) := by
  by_cases hst : runStart (terms tp ops) rs = true
  · obtain ⟨bs, h1, h2, h3⟩ := workerLoop_from_runStart T ops hlen excl rs re hre (ops.length + 1) rs (by omega)
      (Nat.le_refl _) hst
    have hall : bs.filter (·.owned) = bs := List.filter_eq_self.mpr (fun b hb => (h3 b hb).1)
    refine ⟨bs, h1, by rw [hall, align_of_runStart hst]; exact h2, ?_, ?_⟩
    · rw [hall]; intro b hb; exact (h3 b hb).2
    · intro b hb hf; rw [(h3 b hb).1] at hf; cases hf
  · have hst' : runStart (terms tp ops) rs = false := by simpa using hst
    have hlen' : (terms tp ops).length = ops.length := by simp [terms]
    have hrng := lt_of_not_runStart hst'
    rw [hlen'] at hrng
    by_cases hlt : rs < re
    · unfold workerLoop
      simp only [hlt, if_true]
      have hget : ops[rs]? = some ops[rs] := List.getElem?_eq_getElem hrng.2
      obtain ⟨b, hb⟩ : ∃ b, handleCompletion tp ops excl rs rs = some b := by
        unfold handleCompletion; rw [hget]; exact ⟨_, rfl⟩
      obtain ⟨ho, hstart, hnext, hpos, hne⟩ := owned_iff T ops hlen excl rs rs b hb
      have hown : b.owned = false := by rw [ho]; simp [hst']
      have hge := align_ge (terms tp ops) (rs+1)
      rw [hb]
      simp only
      have hnes : ¬ b.next = rs := by omega
      rw [if_neg hnes]
      obtain ⟨bs, h1, h2, h3⟩ := workerLoop_from_runStart T ops hlen excl rs re hre ops.length b.next (by omega) (by omega)
        (by rw [hnext]; exact align_runStart _ _)
      have hall : bs.filter (·.owned) = bs := List.filter_eq_self.mpr (fun x hx => (h3 x hx).1)
      refine ⟨b :: bs, by rw [h1]; rfl, ?_, ?_, ?_⟩
      · rw [List.filter_cons, hown]
        simp only [Bool.false_eq_true, if_false]
        rw [hall, h2, hnext, align_succ_of_not hst']
      · rw [List.filter_cons, hown]
        simp only [Bool.false_eq_true, if_false]
        rw [hall]; intro x hx; exact (h3 x hx).2
      · intro x hx hf
        rcases List.mem_cons.mp hx with rfl | hx
        · exact ⟨hstart, hst'⟩
        · rw [(h3 x hx).1] at hf; cases hf
    · unfold workerLoop
      simp only [hlt, if_false]
      have := align_ge (terms tp ops) rs
      exact ⟨[], rfl, by rw [runsFrom_nil (by omega)]; rfl, (by intro b hb; cases hb), (by intro b hb; cases hb)⟩

end Loop

end Nomt.Split
