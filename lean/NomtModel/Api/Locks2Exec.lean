import NomtModel.Api.Exec
import NomtModel.Api.Locks2
/-!
The sequential specification `specStep` of the two-lock LTS (`Api/Locks2.lean`) IS the sequential API model
`Api/Exec.lean` (the specification of C01, C09–C12) on the part of the state the lock protocol sees
(`kv`, `root`, `log`, `lastMarker`), for a store that is not poisoned and working I/O:

* `FinishedSession::commit` / `try_commit_nonblocking` that got the guard  = `Api.commitFin`;
* `Overlay::commit` / `try_commit_nonblocking` whose parent check passed and that got the guard = `Api.commitOv`;
* `Nomt::rollback(n)`, `n > 0`, rollback enabled                                               = `Api.rollback`.

So T15.6 reads: the committed state after any interleaving is the result of running `Api/Exec.lean`
sequentially over the write sections in the order they took the write guard.
-/
namespace Nomt.Locks2
open Nomt Nomt.Api
variable {Node VH : Type} [DecidableEq Node] [DecidableEq VH] (H : Hasher Node VH)

/-- the operations of the API model: content = sorted key-value list, root = `nodeAt`, deltas = prior values,
log bounded by `maxLog` -/
def apiOps (maxLog : Nat) (rollbackOn : Bool) : DbOps (KVL VH) Node (Writes VH) (Writes VH) where
  rootOf := rootOfKV H
  applyW := kvApply
  pushLog := fun log d => if rollbackOn then (d :: log).take maxLog else log
  traceback := fun kv popped => kvApply kv (Api.traceback popped)

/-- what the lock protocol sees of an API state -/
def coreOf (s : St Node VH) : Db (KVL VH) Node (Writes VH) :=
  { content := s.kv, root := s.root, log := s.log, marker := s.lastMarker, poisoned := false }

def resOf : Api.Res → Locks2.Res
  | .ok => .ok
  | .err => .errStale
  | .busy => .busy

/-- the changeset of a finished session -/
def csOfFin (f : Fin Node VH) : CS Node (Writes VH) (Writes VH) :=
  { base := f.prevRoot, newRoot := f.root, writes := f.writes, delta := some f.delta }

def csOfOv (o : Ov Node VH) : CS Node (Writes VH) (Writes VH) :=
  { base := o.prevRoot, newRoot := o.root, writes := o.changes, delta := some o.delta }

theorem specStep_commitFin (s : St Node VH) (fid : Nat) (f : Fin Node VH) (s1 : St Node VH)
    (ht : takeFin s fid = some (f, s1)) (pf : Bool) :
    specStep (apiOps H s.maxLog s.rollbackOn) (coreOf s) (.commit (csOfFin f) none pf .ok)
      = (coreOf (commitFin s fid).2, resOf (commitFin s fid).1) := by
  have hs1 : s1 = { s with fins := s.fins.filter (·.id != fid) } := by
    unfold takeFin at ht
    split at ht
    · injection ht with ht; injection ht with _ h2; exact h2.symm
    · cases ht
  subst hs1
  simp only [commitFin, ht]
  by_cases hr : s.root = f.prevRoot
  · simp [specStep, coreOf, csOfFin, hr, applyCommit, pushLog, apiOps, resOf]
  · have hr' : ¬ f.prevRoot = s.root := fun e => hr e.symm
    simp [specStep, coreOf, csOfFin, hr, hr', resOf]

theorem coreOf_setOv (s : St Node VH) (o : Ov Node VH) : coreOf (setOv s o) = coreOf s := rfl

theorem coreOf_dropOv (s : St Node VH) (oid : Nat) : coreOf (dropOv s oid) = coreOf s := by
  unfold dropOv; split <;> rfl

/-- an overlay commit whose parent check passed (the check the code makes under M before taking the guard) -/
theorem specStep_commitOv (s : St Node VH) (oid : Nat) (o : Ov Node VH) (ho : s.ov? oid = some o)
    (hheld : o.held = true)
    (hparent : (match o.parent with | none => true | some p => s.lastMarker == some p) = true) :
    specStep (apiOps H s.maxLog s.rollbackOn) (coreOf s) (.commit (csOfOv o) (some oid) true .ok)
      = (coreOf (commitOv s oid).2, resOf (commitOv s oid).1) := by
  simp only [commitOv, ho]
  have hk : (dropOv s oid).kv = s.kv := by unfold dropOv; split <;> rfl
  have hrt : (dropOv s oid).root = s.root := by unfold dropOv; split <;> rfl
  have hlg : (dropOv s oid).log = s.log := by unfold dropOv; split <;> rfl
  have hmk : (dropOv s oid).lastMarker = s.lastMarker := by unfold dropOv; split <;> rfl
  have hro : (dropOv s oid).rollbackOn = s.rollbackOn := by unfold dropOv; split <;> rfl
  have hml : (dropOv s oid).maxLog = s.maxLog := by unfold dropOv; split <;> rfl
  cases hpar : o.parent with
  | none =>
    by_cases hr : s.root = o.prevRoot
    · simp [specStep, coreOf, csOfOv, hr, hheld, applyCommit, pushLog, apiOps, resOf, setOv, hk, hlg, hro, hml]
    · simp [specStep, coreOf, csOfOv, hr, hheld, resOf, hk, hrt, hlg, hmk]
  | some p =>
    rw [hpar] at hparent
    simp only [beq_iff_eq] at hparent
    by_cases hr : s.root = o.prevRoot
    · simp [specStep, coreOf, csOfOv, hr, hheld, hparent, applyCommit, pushLog, apiOps, resOf, setOv, hk, hlg,
        hro, hml]
    · simp [specStep, coreOf, csOfOv, hr, hheld, hparent, resOf, hk, hrt, hlg, hmk]

theorem specStep_rollback (s : St Node VH) (n : Nat) (hn : n ≠ 0) (hon : s.rollbackOn = true) :
    specStep (apiOps H s.maxLog s.rollbackOn) (coreOf s) (.rollback n .ok)
      = (coreOf (Api.rollback H s n).2,
         match (Api.rollback H s n).1 with | .ok => .ok | _ => .errNotEnough) := by
  by_cases hl : n > s.log.length
  · simp [specStep, coreOf, Api.rollback, hn, hon, hl]
  · simp [specStep, coreOf, Api.rollback, hn, hon, hl, apiOps]

end Nomt.Locks2
