/-!
# Two-lock LTS of the reader / writer protocol of `nomt/src/lib.rs`

A richer successor of `Api/Locks.lean` (kept).  Modelled, with every lock acquisition site a separate atomic
micro-step of a thread:

* the two locks of `Nomt`: **A** = `access_lock: Arc<RwLock<()>>` (parking_lot) and **M** =
  `shared: Arc<Mutex<Shared>>` (root + `last_commit_marker`);
* parking_lot's `RawRwLock` policy as far as it matters for blocking (`raw_rwlock.rs` 0.12.3):
  `lock_exclusive` is two-phase — (1) grab `WRITER_BIT` (waits while another writer has it), (2)
  `wait_for_readers`; `lock_shared` (non-recursive: `read`, `read_arc`) fails while `WRITER_BIT` is set,
  **even if that writer is still waiting for readers to leave**; `try_lock_exclusive` succeeds iff the
  state word is 0 (no reader, no writer bit);
* every API call as the list of its micro-steps in program order (`progOf`), read off `lib.rs`:
  `begin_session` (A.read, then `self.root()` = M), `Session` reads, drop / `finish` (A.read released),
  `Nomt::root`, `Nomt::read`, `FinishedSession::commit` / `try_commit_nonblocking`, `Overlay::commit` /
  `try_commit_nonblocking` (marker check under M *before* A.write, root check under A.write + M),
  `rollback` (A.write, poison check — since the repair of F21 BEFORE the destructive step —, `truncate` pops the
  log, the inner session reads the root under M, its commit checks poison and the root under M again, publishes,
  stores);
* the poison flag and the two failing I/O steps (`rollback.commit(delta)`, `store.commit`), decided by the
  environment per call (`IoPlan`);
* Rust scope exit on `bail!` / `?` / `return`: INSIDE the write-guard section the guards are dropped one after the
  other, each drop a micro-step of its own (`unwind`: M guard, write guard with the section's verdict, return) — a
  recorded execution of the real store shows them as separate events and other threads' `try_write` fail in between;
  outside the section (`try_write` failed, parent marker mismatch) `abort` releases M and returns in one step;
* the one behaviour of parking_lot's lock that is not "held / not held": `try_write` is `compare_exchange(0, WRITER_BIT)`
  and fails on a FREE lock while a thread is queued at it (`PARKED_BIT`): event `spur`.

The programs are tied to the source's step order by `Props/C15_LockOrder.lean` (`rfl` against the generated step lists)
and to executions of the real code by the lock recorder + `Api/Locks2Replay.lean` (`Props/C15_Conformance.lean`): the
unwinding path, the place of the poison check in `rollback` and `spur` are what the recorded executions made the model
follow.

**Lock order of the code**: A before M, and M is never held across a blocking acquisition: every `shared.lock()`
guard is a temporary or a `{ … }` block that ends before the next `access_lock` call.  `wf` below is this
discipline as a static check of a program; `Call.ovCommitHoldM` is the one *non-code* program (the marker
check's M guard kept across `access_lock.write()`), used for the deadlock counterexample.

The committed state is abstract: `DbOps` gives content type `C`, roots `R`, write sets `W`, rollback deltas
`D` and the four functions the protocol needs.  Ghost fields (`base`, `doneOps`, `doneRes`) record the
write-guard sections in the order the guard was taken.
-/
namespace Nomt.Locks2

abbrev Tid := Nat

/-- the operations on the committed state the protocol uses -/
structure DbOps (C R W D : Type) where
  rootOf : C → R
  applyW : C → W → C
  pushLog : List D → D → List D          -- newest first; bounded by `max_rollback_log_len` in the code
  traceback : C → List D → C             -- undo the popped deltas (newest first)

/-- a changeset: `FinishedSession` / `Overlay` -/
structure CS (R W D : Type) where
  base : R                                -- `prev_root`
  newRoot : R                             -- `merkle_output.root` / `Overlay::root()`
  writes : W
  delta : Option D                        -- `rollback_delta` (`None` if rollback is disabled)

/-- `Shared` + the store as far as the protocol sees it -/
structure Db (C R D : Type) where
  content : C
  root : R                                -- `shared.root`
  log : List D                            -- rollback log, newest first
  marker : Option Nat := none             -- `shared.last_commit_marker` (overlay id)
  poisoned : Bool := false

inductive Res where
  | ok | done | busy | errPoisoned | errStale | errParent | errNotEnough | errIo
  | errSuperseded                         -- `Session::finish`: the overlay chain of the session does not stand on the committed state
deriving DecidableEq, Repr

/-- which durable step of a commit fails (environment input) -/
inductive IoPlan where | ok | failLog | failStore
deriving DecidableEq, Repr

def IoPlan.logOk : IoPlan → Bool | .failLog => false | _ => true
def IoPlan.storeOk : IoPlan → Bool | .failStore => false | _ => true

/-- micro-steps -/
inductive Instr (R W D : Type) where
  | aRead (sid : Nat)                     -- `RwLock::read_arc(&access_lock)`; the session `sid` is live from here
  | aReadUnlock (sid : Nat)               -- drop of the session's `access_guard`
  | aWrite1                               -- `access_lock.write()`, step 1: grab WRITER_BIT
  | aWrite2                               -- step 2: wait for the readers to leave → write guard held
  | aTryWrite                             -- `access_lock.try_write()`
  | aWriteUnlock (r : Res)                -- drop of the write guard; `r` = the verdict of the section (`.ok` on the
                                          -- straight path, the error on the unwinding path of a `bail!` / `?`)
  | mLock | mUnlock                       -- `shared.lock()` / end of its scope
  | sessRoot (sid : Nat)                  -- under M: the session's `prev_root := shared.root`
  | sessBase (sid : Nat) (base : R)       -- under M: `base_superseded := chain base != shared.root` (repair of F23)
  | finChk (sid : Nat)                    -- `Session::finish`: `if self.base_superseded { bail! }` (the session is dropped)
  | readRoot                              -- under M: `seen := shared.root`
  | sessRead (sid : Nat)                  -- `Session::read` / `prove`: observes the committed content
  | chkMarker (parent : Option Nat)       -- under M: `parent_matches_marker(last_commit_marker)`
  | chkPoison                             -- `store.is_poisoned()`
  | chkRoot (base : R)                    -- under M: `shared.root != prev_root` → bail
  | chkSeen                               -- under M: the same for rollback's inner session
  | pubRoot (r : R) (marker : Option Nat) -- under M: `shared.root = r; last_commit_marker = marker`
  | pubRb                                 -- under M: publish the root of the rolled-back content
  | logPush (d : Option D) (ok : Bool)    -- `rollback.commit(delta)`
  | logPop (n : Nat)                      -- `rollback.truncate(n)`
  | store (w : W) (ok : Bool)             -- `store.commit(..)`
  | storeRb (ok : Bool)
  | ret (r : Res)

/-- the write-guard sections, as operations of the sequential specification -/
inductive WOp (R W D : Type) where
  /-- a changeset; `marker` = `Some(overlay id)` for overlays; `pubFirst = false` for
  `FinishedSession::try_commit_nonblocking`, which appends the delta before publishing the root -/
  | commit (cs : CS R W D) (marker : Option Nat) (pubFirst : Bool) (io : IoPlan)
  | rollback (n : Nat) (io : IoPlan)

/-- API calls -/
inductive Call (R W D : Type) where
  | beginSession (sid : Nat)
  /-- on live overlays: `prev_root` comes from the overlay; since the repair of F23 the committed root is read under M
  and compared with `base`, the state the chain was built on (root of its youngest committed member, else the previous
  root of its oldest member) -/
  | beginSessionOv (sid : Nat) (base : R)
  | finishSession (sid : Nat)             -- `Session::finish` (`endSession` = drop)
  | endSession (sid : Nat)                -- drop / `finish`
  | sessRead (sid : Nat)
  | nomtRead (sid : Nat)                  -- `Nomt::read`: a temporary read guard
  | root                                  -- `Nomt::root`
  | commit (cs : CS R W D) (io : IoPlan)
  | tryCommit (cs : CS R W D) (io : IoPlan)
  | ovCommit (cs : CS R W D) (id : Nat) (parent : Option Nat) (io : IoPlan)
  | ovTryCommit (cs : CS R W D) (id : Nat) (parent : Option Nat) (io : IoPlan)
  | rollback (n : Nat) (io : IoPlan)
  /-- NOT the code: `Overlay::commit` with the M guard of the marker check kept until after the root was
  published (M taken before A) -/
  | ovCommitHoldM (cs : CS R W D) (id : Nat) (parent : Option Nat) (io : IoPlan)

section Programs
variable {R W D : Type}

def progOf : Call R W D → List (Instr R W D)
  | .beginSession sid => [.aRead sid, .mLock, .sessRoot sid, .mUnlock, .ret .done]
  | .beginSessionOv sid base => [.aRead sid, .mLock, .sessBase sid base, .mUnlock, .ret .done]
  | .finishSession sid => [.finChk sid, .aReadUnlock sid, .ret .ok]
  | .endSession sid => [.aReadUnlock sid, .ret .done]
  | .sessRead sid => [.sessRead sid, .ret .done]
  | .nomtRead sid => [.aRead sid, .sessRead sid, .aReadUnlock sid, .ret .done]
  | .root => [.mLock, .readRoot, .mUnlock, .ret .done]
  | .commit cs io =>
    [.aWrite1, .aWrite2, .chkPoison, .mLock, .chkRoot cs.base, .pubRoot cs.newRoot none, .mUnlock,
     .logPush cs.delta io.logOk, .store cs.writes io.storeOk, .aWriteUnlock .ok, .ret .ok]
  | .tryCommit cs io =>
    [.aTryWrite, .chkPoison, .mLock, .chkRoot cs.base, .mUnlock, .logPush cs.delta io.logOk,
     .mLock, .pubRoot cs.newRoot none, .mUnlock, .store cs.writes io.storeOk, .aWriteUnlock .ok, .ret .ok]
  | .ovCommit cs id parent io =>
    [.mLock, .chkMarker parent, .mUnlock, .aWrite1, .aWrite2, .chkPoison, .mLock, .chkRoot cs.base,
     .pubRoot cs.newRoot (some id), .mUnlock, .logPush cs.delta io.logOk,
     .store cs.writes io.storeOk, .aWriteUnlock .ok, .ret .ok]
  | .ovTryCommit cs id parent io =>
    [.mLock, .chkMarker parent, .mUnlock, .aTryWrite, .chkPoison, .mLock, .chkRoot cs.base,
     .pubRoot cs.newRoot (some id), .mUnlock, .logPush cs.delta io.logOk,
     .store cs.writes io.storeOk, .aWriteUnlock .ok, .ret .ok]
  | .rollback n io =>
    if n = 0 then [.ret .ok]
    else [.aWrite1, .aWrite2, .chkPoison, .logPop n, .mLock, .readRoot, .mUnlock, .chkPoison, .mLock, .chkSeen,
          .pubRb, .mUnlock, .storeRb io.storeOk, .aWriteUnlock .ok, .ret .ok]
  | .ovCommitHoldM cs id parent io =>
    [.mLock, .chkMarker parent, .aWrite1, .aWrite2, .chkPoison, .chkRoot cs.base,
     .pubRoot cs.newRoot (some id), .mUnlock, .logPush cs.delta io.logOk,
     .store cs.writes io.storeOk, .aWriteUnlock .ok, .ret .ok]

def opOf : Call R W D → Option (WOp R W D)
  | .commit cs io => some (.commit cs none true io)
  | .tryCommit cs io => some (.commit cs none false io)
  | .ovCommit cs id _ io => some (.commit cs (some id) true io)
  | .ovTryCommit cs id _ io => some (.commit cs (some id) true io)
  | .ovCommitHoldM cs id _ io => some (.commit cs (some id) true io)
  | .rollback n io => if n = 0 then none else some (.rollback n io)
  | _ => none

/-- calls that can wait for the access lock -/
def Call.blocksOnA : Call R W D → Bool
  | .beginSession _ | .beginSessionOv _ _ | .nomtRead _ | .commit .. | .ovCommit .. | .ovCommitHoldM .. => true
  | .rollback n _ => n != 0
  | _ => false

/-- the code's calls (everything but the counterexample variant) -/
def Call.isCode : Call R W D → Bool
  | .ovCommitHoldM .. => false
  | _ => true

end Programs

/-! ### state -/

/-- a live session = a held read guard -/
structure Sess (C R : Type) where
  owner : Tid
  sid : Nat
  content : C                              -- ghost: committed content when the read guard was taken
  root : R                                 -- ghost: `shared.root` at that moment
  prev : Option R := none                  -- `Session::prev_root` once `begin_session` has read it
  chain : Option R := none                 -- the base of the overlay chain the session builds on, once compared
  stale : Bool := false                    -- `Session::base_superseded`
deriving DecidableEq

/-- thread-local registers -/
structure Regs (C R D : Type) where
  popped : List D := []                    -- what `truncate` popped
  seen : Option R := none                  -- root read under M
  obs : Option C := none                   -- what the last `Session::read` observed

structure Thr (C R W D : Type) where
  prog : List (Instr R W D) := []          -- continuation of the running call (`[]` = idle)
  op : Option (WOp R W D) := none          -- ghost: the write section this call is going to perform
  regs : Regs C R D := {}
  res : Option Res := none                 -- result of the last finished call

structure S (C R W D : Type) where
  readers : List (Sess C R) := []
  wbit : Option Tid := none                -- owner of WRITER_BIT
  wown : Bool := false                     -- readers have left: the write guard is held
  m : Option Tid := none                   -- owner of `shared`
  db : Db C R D
  thr : Tid → Thr C R W D := fun _ => {}
  -- ghost
  base : Db C R D                          -- `db` when the current write guard was taken
  doneOps : List (WOp R W D) := []         -- finished write sections, newest first
  doneRes : List Res := []

def upd {α : Type} (f : Tid → α) (t : Tid) (x : α) : Tid → α := fun u => if u = t then x else f u

@[simp] theorem upd_same {α : Type} (f : Tid → α) (t : Tid) (x : α) : upd f t x t = x := by simp [upd]
theorem upd_other {α : Type} (f : Tid → α) (t u : Tid) (x : α) (h : u ≠ t) : upd f t x u = f u := by
  simp [upd, h]

inductive StepRes where
  | started | idle | misuse | blocked | ran | finished (r : Res)
deriving DecidableEq, Repr

inductive Event (R W D : Type) where
  | call (t : Tid) (c : Call R W D)
  | step (t : Tid)
  /-- `try_write` of `t` fails although the lock is free, because thread `u` is queued at an acquisition of the
  access lock: parking_lot's `try_lock_exclusive` is `compare_exchange(0, WRITER_BIT)`, and the state word is
  `PARKED_BIT` — not 0 — between an unlock that woke some of the parked threads and the moment the last parked
  thread has left the queue.  (Observed in recorded executions of the real store: `vharness lockrec`.) -/
  | spur (t u : Tid)

section Sem
variable {C R W D : Type} [DecidableEq R] (ops : DbOps C R W D)

/-- effect of a non-lock micro-step on the thread's registers and the committed state -/
inductive Eff (C R D : Type) where
  | cont (rg : Regs C R D) (db : Db C R D)
  | stop (r : Res) (db : Db C R D)         -- `bail!` / `?`

def eff (i : Instr R W D) (rg : Regs C R D) (db : Db C R D) : Eff C R D :=
  match i with
  | .readRoot => .cont { rg with seen := some db.root } db
  | .sessRead _ => .cont { rg with obs := some db.content } db
  | .chkMarker parent =>
    if (match parent with | none => true | some p => db.marker == some p) then .cont rg db
    else .stop .errParent db
  | .chkPoison => if db.poisoned then .stop .errPoisoned db else .cont rg db
  | .chkRoot b => if db.root = b then .cont rg db else .stop .errStale db
  | .chkSeen => if some db.root = rg.seen then .cont rg db else .stop .errStale db
  | .pubRoot r mk => .cont rg { db with root := r, marker := mk }
  | .pubRb => .cont rg { db with root := ops.rootOf (ops.traceback db.content rg.popped), marker := none }
  | .logPush none _ => .cont rg db
  | .logPush (some d) true => .cont rg { db with log := ops.pushLog db.log d }
  | .logPush (some _) false => .stop .errIo { db with poisoned := true }
  | .logPop n =>
    if n > db.log.length then .stop .errNotEnough db
    else .cont { rg with popped := db.log.take n } { db with log := db.log.drop n }
  | .store w true => .cont rg { db with content := ops.applyW db.content w }
  | .store _ false => .stop .errIo { db with poisoned := true }
  | .storeRb true => .cont rg { db with content := ops.traceback db.content rg.popped }
  | .storeRb false => .stop .errIo { db with poisoned := true }
  | _ => .cont rg db

/-- the write-guard section run on its own: from just after the guard was taken to `aWriteUnlock` / a bail -/
def runCS : List (Instr R W D) → Regs C R D → Db C R D → Db C R D × Res
  | [], _, db => (db, .ok)
  | .aWriteUnlock r :: _, _, db => (db, r)
  | i :: rest, rg, db =>
    match eff ops i rg db with
    | .cont rg' db' => runCS rest rg' db'
    | .stop r db' => (db', r)

/-- Rust scope exit on an error (`bail!` / `?`) INSIDE the write-guard section: the guards are dropped in
reverse declaration order, each drop its own micro-step — first the guard of `shared` (if the error is
raised inside its `{ … }` block), then the write guard, then the call returns the error.  (A recorded real
execution shows these releases as separate events, and a `try_write` of another thread between the failing
check and the drop of the write guard does fail.) -/
def unwind {R W D : Type} (holdsM : Bool) (r : Res) : List (Instr R W D) :=
  (if holdsM then [.mUnlock] else []) ++ [.aWriteUnlock r, .ret r]

/-- scope exit on an error outside the write-guard section (`try_write` failed, parent marker mismatch): the
thread drops its M guard (and whatever it holds of the write lock) and returns -/
def abort (s : S C R W D) (t : Tid) (r : Res) : S C R W D :=
  let th := s.thr t
  let owned := s.wbit == some t
  let sect := owned && s.wown
  { s with
    m := if s.m == some t then none else s.m
    wbit := if owned then none else s.wbit
    wown := if owned then false else s.wown
    doneOps := if sect then (match th.op with | some o => o :: s.doneOps | none => s.doneOps) else s.doneOps
    doneRes := if sect then (match th.op with | some _ => r :: s.doneRes | none => s.doneRes) else s.doneRes
    thr := upd s.thr t { th with prog := [], op := none, res := some r } }

/-- one micro-step of thread `t` whose continuation is `i :: rest` -/
def exec (s : S C R W D) (t : Tid) (i : Instr R W D) (rest : List (Instr R W D)) : S C R W D × StepRes :=
  let th := s.thr t
  let adv (s' : S C R W D) : S C R W D := { s' with thr := upd s'.thr t { (s'.thr t) with prog := rest } }
  match i with
  | .aRead sid =>
    if s.wbit.isSome then (s, .blocked)
    else (adv { s with readers := { owner := t, sid := sid, content := s.db.content, root := s.db.root } :: s.readers }, .ran)
  | .aReadUnlock sid =>
    (adv { s with readers := s.readers.filter (fun x => !(x.owner == t && x.sid == sid)) }, .ran)
  | .aWrite1 => if s.wbit.isSome then (s, .blocked) else (adv { s with wbit := some t }, .ran)
  | .aWrite2 =>
    if !s.readers.isEmpty then (s, .blocked) else (adv { s with wown := true, base := s.db }, .ran)
  | .aTryWrite =>
    if s.wbit.isSome || !s.readers.isEmpty then (abort s t .busy, .finished .busy)
    else (adv { s with wbit := some t, wown := true, base := s.db }, .ran)
  | .aWriteUnlock r =>
    (adv { s with wbit := none, wown := false
                  doneOps := (match th.op with | some o => o :: s.doneOps | none => s.doneOps)
                  doneRes := (match th.op with | some _ => r :: s.doneRes | none => s.doneRes)
                  thr := upd s.thr t { th with op := none } }, .ran)
  | .mLock => if s.m.isSome then (s, .blocked) else (adv { s with m := some t }, .ran)
  | .mUnlock => (adv { s with m := none }, .ran)
  | .sessRoot sid =>
    (adv { s with readers := s.readers.map (fun x =>
        if x.owner == t && x.sid == sid then { x with prev := some s.db.root } else x) }, .ran)
  | .sessBase sid b =>
    (adv { s with readers := s.readers.map (fun x =>
        if x.owner == t && x.sid == sid then { x with chain := some b, stale := decide (s.db.root ≠ b) } else x) }, .ran)
  | .finChk sid =>
    if s.readers.any (fun x => x.owner == t && x.sid == sid && x.stale) then
      -- `bail!`: the session (its read guard) is dropped, the error returned; no changeset exists
      ({ s with thr := upd s.thr t { th with prog := [.aReadUnlock sid, .ret .errSuperseded] } }, .ran)
    else (adv s, .ran)
  | .ret r => ({ s with thr := upd s.thr t { th with prog := [], res := some r } }, .finished r)
  | i =>
    match eff ops i th.regs s.db with
    | .cont rg db => (adv { s with db := db, thr := upd s.thr t { th with regs := rg } }, .ran)
    | .stop r db =>
      if s.wbit == some t && s.wown then
        ({ s with db := db, thr := upd s.thr t { th with prog := unwind (s.m == some t) r } }, .ran)
      else (abort { s with db := db } t r, .finished r)

/-- is the head micro-step of `t` waiting for a lock? -/
def blocked (s : S C R W D) (t : Tid) : Bool :=
  match (s.thr t).prog with
  | .aRead _ :: _ => s.wbit.isSome
  | .aWrite1 :: _ => s.wbit.isSome
  | .aWrite2 :: _ => !s.readers.isEmpty
  | .mLock :: _ => s.m.isSome
  | _ => false

/-- the head micro-step is a blocking acquisition of the access lock by a thread that does not own WRITER_BIT:
the thread may be parked in the lock's queue -/
def isQueued {R W D : Type} : List (Instr R W D) → Bool
  | .aRead _ :: _ => true
  | .aWrite1 :: _ => true
  | _ => false

def next (s : S C R W D) : Event R W D → S C R W D × StepRes
  | .call t c =>
    if (s.thr t).prog.isEmpty then
      ({ s with thr := upd s.thr t { (s.thr t) with prog := progOf c, op := opOf c, res := none } }, .started)
    else (s, .misuse)
  | .step t =>
    match (s.thr t).prog with
    | [] => (s, .idle)
    | i :: rest => exec ops s t i rest
  | .spur t u =>
    match (s.thr t).prog with
    | .aTryWrite :: _ =>
      if u ≠ t ∧ isQueued (s.thr u).prog = true then (abort s t .busy, .finished .busy) else (s, .misuse)
    | _ => (s, .misuse)

def run (s : S C R W D) (evs : List (Event R W D)) : S C R W D := evs.foldl (fun s e => (next ops s e).1) s

def init (db : Db C R D) : S C R W D := { db := db, base := db }

/-! ### the sequential specification of the write sections -/

/-- one write-guard section, atomically (this is what `Api.commitFin` / `Api.commitOv` / `Api.rollback` of
`Api/Exec.lean` do to `kv, root, log, lastMarker`, plus the poison flag and the failing I/O steps) -/
def specStep (db : Db C R D) : WOp R W D → Db C R D × Res
  | .commit cs mk pubFirst io =>
    if db.poisoned then (db, .errPoisoned)
    else if db.root ≠ cs.base then (db, .errStale)
    else
      let pub (d : Db C R D) : Db C R D := { d with root := cs.newRoot, marker := mk }
      let logged (d : Db C R D) : Db C R D :=
        match cs.delta with | some x => { d with log := ops.pushLog d.log x } | none => d
      if io = .failLog ∧ cs.delta.isSome then
        ({ (if pubFirst then pub db else db) with poisoned := true }, .errIo)
      else if io = .failStore then ({ pub (logged db) with poisoned := true }, .errIo)
      else ({ pub (logged db) with content := ops.applyW db.content cs.writes }, .ok)
  | .rollback n io =>
    -- (a poisoned store refuses a rollback BEFORE the destructive truncation: the repair of F21)
    if db.poisoned then (db, .errPoisoned)
    else if n > db.log.length then (db, .errNotEnough)
    else
      let popped := db.log.take n
      let db1 : Db C R D := { db with log := db.log.drop n }
      let db2 : Db C R D := { db1 with root := ops.rootOf (ops.traceback db.content popped), marker := none }
      if io = .failStore then ({ db2 with poisoned := true }, .errIo)
      else ({ db2 with content := ops.traceback db.content popped }, .ok)

/-- sequential execution, oldest operation first -/
def specRun (db : Db C R D) : List (WOp R W D) → Db C R D × List Res
  | [] => (db, [])
  | o :: rest =>
    let r := specStep ops db o
    let rr := specRun r.1 rest
    (rr.1, r.2 :: rr.2)

end Sem

/-! ### the lock discipline of a program, as a static check -/

/-- a thread's relation to the write guard -/
inductive WS where
  | none    -- the call takes no write guard (any more)
  | pre     -- it will, and has not started
  | bit     -- owns WRITER_BIT, waiting for the readers
  | own     -- holds the write guard
deriving DecidableEq, Repr

section Typing
variable {R W D : Type}

/-- no blocking acquisition of the access lock -/
def noABlock : List (Instr R W D) → Bool
  | [] => true
  | .aRead _ :: _ => false
  | .aWrite1 :: _ => false
  | .aWrite2 :: _ => false
  | _ :: rest => noABlock rest

/-- `wf hm ws prog`: a thread that holds M iff `hm` and is in write-guard state `ws` can run `prog` so that
* A is never acquired (blocking or not) and M is not re-acquired while M is held — **lock order A before M**;
* root / marker are only touched under M, the committed state only under the write guard;
* after WRITER_BIT the very next step is the wait for the readers;
* after taking a read guard the call never waits for A again;
* the call ends holding neither M nor the write guard. -/
def wf : Bool → WS → List (Instr R W D) → Bool
  | hm, ws, [] => !hm && ws == .none
  | hm, ws, i :: rest =>
    if ws == .bit then
      (match i with | .aWrite2 => !hm && wf false .own rest | _ => false)
    else
      match i with
      | .aRead _ => !hm && ws == .none && noABlock rest && wf hm ws rest
      | .aReadUnlock _ => !hm && wf hm ws rest
      | .aWrite1 => !hm && ws == .pre && wf false .bit rest
      | .aWrite2 => false
      | .aTryWrite => !hm && ws == .pre && wf false .own rest
      | .aWriteUnlock _ => !hm && ws == .own && wf false .none rest
      | .mLock => !hm && wf true ws rest
      | .mUnlock => hm && wf false ws rest
      | .sessRoot _ => hm && ws == .none && wf hm ws rest
      | .sessBase _ _ => hm && ws == .none && wf hm ws rest
      | .finChk _ => !hm && ws == .none && wf hm ws rest
      | .readRoot => hm && ws != .pre && wf hm ws rest
      | .sessRead _ => ws == .none && wf hm ws rest
      | .chkMarker _ => hm && wf hm ws rest
      | .chkPoison => ws == .own && wf hm ws rest
      | .chkRoot _ => hm && ws == .own && wf hm ws rest
      | .chkSeen => hm && ws == .own && wf hm ws rest
      | .pubRoot _ _ => hm && ws == .own && wf hm ws rest
      | .pubRb => hm && ws == .own && wf hm ws rest
      | .logPush _ _ => ws == .own && wf hm ws rest
      | .logPop _ => ws == .own && wf hm ws rest
      | .store _ _ => ws == .own && wf hm ws rest
      | .storeRb _ => ws == .own && wf hm ws rest
      | .ret _ => !hm && ws == .none && rest.isEmpty

/-- every program of the code obeys the discipline … -/
theorem wf_progOf (c : Call R W D) (h : c.isCode = true) :
    wf false (if (opOf c).isSome then .pre else .none) (progOf c) = true := by
  cases c with
  | rollback n io =>
    by_cases hn : n = 0 <;> simp [progOf, opOf, hn, wf, noABlock]
  | ovCommitHoldM => simp [Call.isCode] at h
  | _ => simp [progOf, opOf, wf, noABlock]

/-- … the variant that keeps M across `access_lock.write()` does not -/
theorem not_wf_holdM (cs : CS R W D) (id : Nat) (parent : Option Nat) (io : IoPlan) :
    wf false .pre (progOf (.ovCommitHoldM cs id parent io)) = false := by
  simp [progOf, wf]

end Typing

/-! ### a small concrete instance (examples, driver): the content is identified with its root -/

/-- content = root = a stamp; a write set is the new stamp, a delta the prior stamp -/
def stampOps (α : Type) : DbOps α α α α where
  rootOf := id
  applyW := fun _ w => w
  pushLog := fun l d => d :: l
  traceback := fun c ds => ds.getLast?.getD c

abbrev natOps : DbOps Nat Nat Nat Nat := stampOps Nat

def natDb (r : Nat) : Db Nat Nat Nat := { content := r, root := r, log := [] }

/-- a changeset from stamp `b` to stamp `n` -/
def natCS (b n : Nat) : CS Nat Nat Nat := { base := b, newRoot := n, writes := n, delta := some b }

end Nomt.Locks2
