import NomtModel.Api.OvlBtLeaf
/-!
`BeatreeIterator::next` / run to exhaustion (mirror in `Api/OvlBtIter.lean`) against the specification: the
items produced are the sorted-map union `kvApply (leaf stream) (staging stream)`.
(Helper lemmas for `Props/C05_BtIter.lean`.)
-/
namespace Nomt.Ovl
open Nomt
variable {V : Type}

/-! ### one staging change applied to a sorted list, in the shapes the merge loop meets -/

theorem kvInsert_lt_all {D : KVL V} {mk : Key} (h : ∀ e ∈ D, bitsLt mk e.1 = true) (v : V) :
    kvInsert D mk v = (mk, v) :: D := by
  cases D with
  | nil => rfl
  | cons x xs =>
    have hx := h x (List.mem_cons_self ..)
    obtain ⟨xk, xv⟩ := x
    simp only [kvInsert, bitsLt_beq_false' hx, hx]
    simp

/-- a deletion of a key below everything on disk is skipped -/
theorem apply_skip_delete {D : KVL V} {mk : Key} (h : ∀ e ∈ D, bitsLt mk e.1 = true) (M : List (Key × Option V)) :
    kvApply D ((mk, none) :: M) = kvApply D M := by
  rw [kvApply_cons]
  simp only [kvWrite]
  rw [kvErase_absent h]

/-- an insertion of a key below everything on disk and in the rest of the staging stream is emitted -/
theorem apply_take_memory {D : KVL V} {mk : Key} (h : ∀ e ∈ D, bitsLt mk e.1 = true) (v : V)
    {M : List (Key × Option V)} (hM : ∀ e ∈ M, bitsLt mk e.1 = true) :
    kvApply D ((mk, some v) :: M) = (mk, v) :: kvApply D M := by
  rw [kvApply_cons]
  simp only [kvWrite]
  rw [kvInsert_lt_all h, kvApply_cons_of_lt _ _ _ hM]

/-- equal keys, staging deletes: both are dropped -/
theorem apply_equal_delete (x : Key × V) (D' : KVL V) (M : List (Key × Option V)) :
    kvApply (x :: D') ((x.1, none) :: M) = kvApply D' M := by
  rw [kvApply_cons]
  simp [kvWrite, kvErase]

/-- equal keys, staging inserts: the disk entry is dropped first, the insertion stays in the stream -/
theorem apply_equal_insert (x : Key × V) {D' : KVL V} (h : ∀ e ∈ D', bitsLt x.1 e.1 = true) (v : V)
    (M : List (Key × Option V)) :
    kvApply (x :: D') ((x.1, some v) :: M) = kvApply D' ((x.1, some v) :: M) := by
  rw [kvApply_cons, kvApply_cons]
  simp only [kvWrite]
  rw [kvInsert_lt_all h]
  obtain ⟨xk, xv⟩ := x
  simp [kvInsert]

/-! ### the iterator's invariant -/

def BtIt.spec (it : BtIt V) : KVL V := kvApply it.leaf.stream it.mem.stream

structure BtInv (it : BtIt V) : Prop where
  leaf : LInv it.leaf
  sp : OvSorted it.mem.primary
  ss : OvSorted it.mem.secondary
  inr : ∀ e ∈ it.mem.stream, beforeStop it.leaf.stop e.1 = true

def BtIt.measure (it : BtIt V) : Nat := it.mem.primary.length + it.mem.secondary.length + it.leaf.measure

theorem BtInv.msorted {it : BtIt V} (inv : BtInv it) : OvSorted it.mem.stream := smerge_sorted inv.sp inv.ss

theorem staging_next_parts (s : Staging V) :
    (OvSorted s.primary → OvSorted s.next.1.primary) ∧ (OvSorted s.secondary → OvSorted s.next.1.secondary) ∧
    (s.stream ≠ [] → s.next.1.primary.length + s.next.1.secondary.length < s.primary.length + s.secondary.length) ∧
    s.next.1.primary.length + s.next.1.secondary.length ≤ s.primary.length + s.secondary.length := by
  obtain ⟨p, q⟩ := s
  unfold Staging.next Staging.stream
  cases p with
  | nil =>
    cases q with
    | nil => simp [smerge]
    | cons y ys => exact ⟨fun h => h, fun h => (List.pairwise_cons.1 h).2, fun _ => by simp, by simp⟩
  | cons x xs =>
    cases q with
    | nil => exact ⟨fun h => (List.pairwise_cons.1 h).2, fun h => h, fun _ => by simp, by simp⟩
    | cons y ys =>
      simp only
      by_cases h1 : bitsLt x.1 y.1 = true
      · simp only [h1, if_true]
        exact ⟨fun h => (List.pairwise_cons.1 h).2, fun h => h, fun _ => by simp, by simp⟩
      · have h1' : bitsLt x.1 y.1 = false := by simpa using h1
        by_cases h2 : (x.1 == y.1) = true
        · simp only [h1', Bool.false_eq_true, if_false, h2, if_true]
          exact ⟨fun h => (List.pairwise_cons.1 h).2, fun h => (List.pairwise_cons.1 h).2, fun _ => by simp; omega, by simp; omega⟩
        · have h2' : (x.1 == y.1) = false := by simpa using h2
          simp only [h1', Bool.false_eq_true, if_false, h2']
          exact ⟨fun h => h, fun h => (List.pairwise_cons.1 h).2, fun _ => by simp, by simp⟩

/-- dropping the head of the staging stream -/
theorem mem_next_inv {it : BtIt V} (inv : BtInv it) {m : Key × Option V} {M' : List (Key × Option V)}
    (hM : it.mem.stream = m :: M') (lf : LeafIt V) (hl : LInv lf) (hstop : lf.stop = it.leaf.stop) :
    BtInv { mem := it.mem.next.1, leaf := lf } ∧ (it.mem.next.1).stream = M' ∧ it.mem.next.2 = some m ∧
    (it.mem.next.1).primary.length + (it.mem.next.1).secondary.length <
      it.mem.primary.length + it.mem.secondary.length := by
  obtain ⟨h1, h2⟩ := staging_next it.mem
  obtain ⟨p1, p2, p3, _⟩ := staging_next_parts it.mem
  rw [hM] at h1 h2
  refine ⟨⟨hl, p1 inv.sp, p2 inv.ss, ?_⟩, h2, h1, p3 (by rw [hM]; simp)⟩
  intro e he
  simp only at he
  rw [h2] at he
  rw [hstop]
  exact inv.inr e (by rw [hM]; exact List.mem_cons_of_mem _ (by simpa using he))

/-- the key `peek_key` reports is a lower bound of what the leaves still yield -/
theorem peek_lower {it : LeafIt V} (inv : LInv it) {lk : Key} {pend : Bool} (h : it.peekKey = some (lk, pend)) :
    ∀ e ∈ it.stream, bitsLt e.1 lk = false := by
  cases pend with
  | true => exact (peek_blocked inv h).2.1
  | false =>
    obtain ⟨x, cur', hst, hx⟩ := peek_proceeding inv h
    subst hx
    intro e he
    have hs := stream_sorted inv
    have hstream : it.stream = cutStop it.stop (x :: (cur' ++ flat it.pending)) := by
      unfold LeafIt.stream; rw [hst]; rfl
    rw [hstream, cutStop_cons] at he hs
    by_cases hb : beforeStop it.stop x.1 = true
    · rw [if_pos hb] at he hs
      rcases List.mem_cons.1 he with e1 | e1
      · subst e1; exact bitsLt_irrefl _
      · exact bitsLt_asymm ((ksorted_cons.1 hs).1 e e1)
    · rw [if_neg hb] at he; cases he

/-! ### the `action` loop -/

def ActOK (it : BtIt V) : Action → Prop
  | .finished => it.mem.stream = [] ∧ it.leaf.peekKey = none
  | .blocked => ∃ lk, it.leaf.peekKey = some (lk, true)
  | .takeLeaf => ∃ lk pend, it.leaf.peekKey = some (lk, pend) ∧ ∀ e ∈ it.mem.stream, bitsLt lk e.1 = true
  | .takeMemory => ∃ mk v M', it.mem.stream = (mk, some v) :: M' ∧ ∀ e ∈ it.leaf.stream, bitsLt mk e.1 = true

structure ChooseOK (it : BtIt V) (r : BtIt V × Action) : Prop where
  inv : BtInv r.1
  spec : r.1.spec = it.spec
  meas : r.1.measure ≤ it.measure
  stop : r.1.leaf.stop = it.leaf.stop
  act : ActOK r.1 r.2

theorem ChooseOK.trans {it it1 : BtIt V} {r : BtIt V × Action} (h1 : it1.spec = it.spec)
    (h2 : it1.measure ≤ it.measure) (h3 : it1.leaf.stop = it.leaf.stop) (h : ChooseOK it1 r) : ChooseOK it r :=
  ⟨h.inv, h.spec.trans h1, Nat.le_trans h.meas h2, h.stop.trans h3, h.act⟩

theorem choose_spec (fuel : Nat) (it : BtIt V) (inv : BtInv it)
    (hf : it.mem.primary.length + it.mem.secondary.length < fuel) : ChooseOK it (chooseAction fuel it) := by
  induction fuel generalizing it with
  | zero => omega
  | succ fuel ih =>
    unfold chooseAction
    rw [staging_peek]
    have hms := inv.msorted
    cases hpk : it.leaf.peekKey with
    | none =>
      obtain ⟨hD, _⟩ := peek_none_stream inv.leaf hpk
      cases hM : it.mem.stream with
      | nil =>
        simp only [List.head?_nil]
        exact ⟨inv, rfl, Nat.le_refl _, rfl, hM, hpk⟩
      | cons m M' =>
        obtain ⟨mk, mv⟩ := m
        simp only [List.head?_cons]
        cases mv with
        | none =>
          simp only
          obtain ⟨i1, i2, _, i4⟩ := mem_next_inv inv hM it.leaf inv.leaf rfl
          refine ChooseOK.trans (it := it) (it1 := { mem := it.mem.next.1, leaf := it.leaf }) ?_ ?_ rfl (ih _ i1 (by simp only; omega))
          · show kvApply it.leaf.stream (it.mem.next.1).stream = kvApply it.leaf.stream it.mem.stream
            rw [i2, hM, hD, apply_skip_delete (fun e he => by cases he)]
          · simp only [BtIt.measure]; omega
        | some v =>
          simp only
          exact ⟨inv, rfl, Nat.le_refl _, rfl, mk, v, M', hM, fun e he => by rw [hD] at he; cases he⟩
    | some lp =>
      obtain ⟨lk, pend⟩ := lp
      have hlow := peek_lower inv.leaf hpk
      cases hM : it.mem.stream with
      | nil =>
        simp only [List.head?_nil]
        exact ⟨inv, rfl, Nat.le_refl _, rfl, lk, pend, hpk, fun e he => by rw [hM] at he; cases he⟩
      | cons m M' =>
        obtain ⟨mk, mv⟩ := m
        simp only [List.head?_cons]
        obtain ⟨hmM', hM's⟩ := List.pairwise_cons.1 (hM ▸ hms)
        have hmk_in : beforeStop it.leaf.stop mk = true := inv.inr (mk, mv) (by rw [hM]; exact List.mem_cons_self ..)
        by_cases hlt : bitsLt mk lk = true
        · -- the staging key is below everything the leaves still hold
          have hall : ∀ e ∈ it.leaf.stream, bitsLt mk e.1 = true := fun e he => lt_of_lt_of_not_lt hlt (hlow e he)
          simp only [hlt, if_true]
          cases mv with
          | none =>
            simp only
            obtain ⟨i1, i2, _, i4⟩ := mem_next_inv inv hM it.leaf inv.leaf rfl
            refine ChooseOK.trans (it := it) (it1 := { mem := it.mem.next.1, leaf := it.leaf }) ?_ ?_ rfl (ih _ i1 (by simp only; omega))
            · show kvApply it.leaf.stream (it.mem.next.1).stream = kvApply it.leaf.stream it.mem.stream
              rw [i2, hM, apply_skip_delete hall]
            · simp only [BtIt.measure]; omega
          | some v =>
            simp only
            exact ⟨inv, rfl, Nat.le_refl _, rfl, mk, v, M', hM, hall⟩
        · have hlt' : bitsLt mk lk = false := by simpa using hlt
          simp only [hlt', Bool.false_eq_true, if_false]
          by_cases heq : mk = lk
          · subst heq
            simp only [beq_self_eq_true, if_true]
            cases pend with
            | true =>
              simp only [if_true]
              exact ⟨inv, rfl, Nat.le_refl _, rfl, mk, hpk⟩
            | false =>
              simp only [Bool.false_eq_true, if_false]
              obtain ⟨x, cur', hst, hx⟩ := peek_proceeding inv.leaf hpk
              have hbx : beforeStop it.leaf.stop x.1 = true := by rw [hx]; exact hmk_in
              obtain ⟨hD, hn2, hlinv, hstop, hmeas⟩ := (next_proceeding inv.leaf hst).2 hbx
              have hD's : ∀ e ∈ it.leaf.next.1.stream, bitsLt x.1 e.1 = true := by
                have := stream_sorted inv.leaf
                rw [hD] at this
                exact (ksorted_cons.1 this).1
              cases mv with
              | none =>
                simp only
                obtain ⟨i1, i2, _, i4⟩ := mem_next_inv inv hM it.leaf.next.1 hlinv hstop
                refine ChooseOK.trans (it := it) (it1 := { mem := it.mem.next.1, leaf := it.leaf.next.1 }) ?_ ?_ hstop (ih _ i1 (by simp only; omega))
                · show kvApply it.leaf.next.1.stream (it.mem.next.1).stream = kvApply it.leaf.stream it.mem.stream
                  rw [i2, hM, hD, ← hx, apply_equal_delete]
                · simp only [BtIt.measure]; omega
              | some v =>
                simp only
                refine ⟨⟨hlinv, inv.sp, inv.ss, fun e he => hstop ▸ inv.inr e he⟩, ?_, ?_, hstop, mk, v, M', hM, ?_⟩
                · show kvApply it.leaf.next.1.stream it.mem.stream = kvApply it.leaf.stream it.mem.stream
                  rw [hM, hD, ← hx, apply_equal_insert x hD's]
                · simp only [BtIt.measure]; omega
                · rw [← hx]; exact hD's
          · have hb : (mk == lk) = false := by simpa using heq
            simp only [hb, Bool.false_eq_true, if_false]
            have hgt : bitsLt lk mk = true := bitsLt_of_not hlt' heq
            refine ⟨inv, rfl, Nat.le_refl _, rfl, lk, pend, hpk, ?_⟩
            intro e he
            rw [hM] at he
            rcases List.mem_cons.1 he with e1 | e1
            · subst e1; exact hgt
            · exact bitsLt_trans hgt (hmM' e e1)

/-! ### `BeatreeIterator::next` -/

inductive NextOK (it : BtIt V) : Outcome Unit (BtIt V × Option (ItOut V)) → Prop where
  | fin {it' : BtIt V} : it.spec = [] → NextOK it (.ok (it', none))
  | item {it' : BtIt V} {k : Key} {v : V} : BtInv it' → it.spec = (k, v) :: it'.spec → it'.measure < it.measure →
      NextOK it (.ok (it', some (.item k v)))
  | blocked {it' : BtIt V} : BtInv it' → it'.spec = it.spec → it'.measure ≤ it.measure → it'.leaf.st = .blocked →
      NextOK it (.ok (it', some .blocked))

theorem next_spec {it : BtIt V} (inv : BtInv it) : NextOK it it.next := by
  unfold BtIt.next
  have c := choose_spec (it.mem.primary.length + it.mem.secondary.length + 1) it inv (by omega)
  simp only
  cases hr : chooseAction (it.mem.primary.length + it.mem.secondary.length + 1) it with
  | mk it1 act =>
    rw [hr] at c
    obtain ⟨cinv, cspec, cmeas, cstop, cact⟩ := c
    simp only at cinv cspec cmeas cstop cact
    cases act with
    | finished =>
      simp only
      obtain ⟨hM, hpk⟩ := cact
      apply NextOK.fin
      rw [← cspec]
      show kvApply it1.leaf.stream it1.mem.stream = []
      rw [hM, (peek_none_stream cinv.leaf hpk).1]; rfl
    | blocked =>
      simp only
      obtain ⟨lk, hpk⟩ := cact
      exact NextOK.blocked cinv cspec cmeas (peek_blocked cinv.leaf hpk).1
    | takeLeaf =>
      simp only
      obtain ⟨lk, pend, hpk, hMlow⟩ := cact
      cases pend with
      | true =>
        obtain ⟨hst, _, hnx⟩ := peek_blocked cinv.leaf hpk
        rw [hnx]
        exact NextOK.blocked cinv cspec cmeas hst
      | false =>
        obtain ⟨x, cur', hst, hx⟩ := peek_proceeding cinv.leaf hpk
        obtain ⟨h1, h2⟩ := next_proceeding cinv.leaf hst
        by_cases hb : beforeStop it1.leaf.stop x.1 = true
        · obtain ⟨hD, hn2, hlinv, hstop, hmeas⟩ := h2 hb
          rw [hn2]
          refine NextOK.item (it' := { it1 with leaf := it1.leaf.next.1 })
            ⟨hlinv, cinv.sp, cinv.ss, fun e he => hstop ▸ cinv.inr e he⟩ ?_ ?_
          · rw [← cspec]
            show kvApply it1.leaf.stream it1.mem.stream = (x.1, x.2) :: kvApply it1.leaf.next.1.stream it1.mem.stream
            rw [hD, kvApply_cons_of_lt x _ _ (fun w hw => hx ▸ hMlow w hw)]
          · simp only [BtIt.measure] at cmeas ⊢; omega
        · have hb' : beforeStop it1.leaf.stop x.1 = false := by simpa using hb
          obtain ⟨hD, hn2⟩ := h1 hb'
          rw [hn2]
          apply NextOK.fin
          rw [← cspec]
          show kvApply it1.leaf.stream it1.mem.stream = []
          rw [hD]
          cases hM : it1.mem.stream with
          | nil => rfl
          | cons e M' =>
            exfalso
            have h3 := hMlow e (by rw [hM]; exact List.mem_cons_self ..)
            have h4 := cinv.inr e (by rw [hM]; exact List.mem_cons_self ..)
            have := beforeStop_of_lt (hx ▸ h3) h4
            rw [this] at hb'; cases hb'
    | takeMemory =>
      simp only
      obtain ⟨mk, v, M', hM, hDlow⟩ := cact
      obtain ⟨i1, i2, i3, i4⟩ := mem_next_inv cinv hM it1.leaf cinv.leaf rfl
      have hn : it1.mem.next = (it1.mem.next.1, some (mk, some v)) := Prod.ext rfl i3
      rw [hn]
      simp only
      refine NextOK.item (it' := { it1 with mem := it1.mem.next.1 }) i1 ?_ ?_
      · rw [← cspec]
        show kvApply it1.leaf.stream it1.mem.stream = (mk, v) :: kvApply it1.leaf.stream (it1.mem.next.1).stream
        have hms := cinv.msorted
        rw [hM] at hms
        rw [i2, hM, apply_take_memory hDlow v (List.pairwise_cons.1 hms).1]
      · simp only [BtIt.measure] at cmeas ⊢; omega

/-! ### running the iterator to exhaustion -/

theorem run_spec (fuel : Nat) (it : BtIt V) (acc : List (Key × V)) (loaded : Nat) (inv : BtInv it)
    (hf : it.measure < fuel) : ∃ n, BtIt.run fuel it acc loaded = .ok (acc.reverse ++ it.spec, n) := by
  induction fuel generalizing it acc loaded with
  | zero => omega
  | succ fuel ih =>
    unfold BtIt.run
    have h := next_spec inv
    generalize it.next = r at h
    cases h with
    | fin hs => exact ⟨loaded, by simp [hs]⟩
    | @item it' k v i1 hs hm =>
      obtain ⟨n, hn⟩ := ih it' ((k, v) :: acc) loaded i1 (by omega)
      exact ⟨n, by simp only; rw [hn, hs]; simp⟩
    | @blocked it' i1 hs hm hst =>
      obtain ⟨lf, hp, hl, hstream, hmeas, hstop⟩ := provide_spec i1.leaf hst
      simp only
      rw [hp]
      simp only
      have i2 : BtInv { it' with leaf := lf } := ⟨hl, i1.sp, i1.ss, fun e he => hstop ▸ i1.inr e he⟩
      obtain ⟨n, hn⟩ := ih { it' with leaf := lf } acc (loaded + 1) i2 (by simp only [BtIt.measure] at hm hf ⊢; omega)
      refine ⟨n, ?_⟩
      rw [hn, ← hs]
      show _ = Outcome.ok (acc.reverse ++ kvApply it'.leaf.stream it'.mem.stream, n)
      rw [← hstream]; rfl

end Nomt.Ovl
