import NomtModel.Api.OvlBtNew
import NomtModel.Api.KVLemmas
import NomtModel.Core.Outcome
/-!
# The beatree `Tree` object as a state machine (`nomt/src/beatree/mod.rs`) — C15 / C01

`Shared { bbn_index, primary_staging, secondary_staging, leaf_store }`, the `ReadTransactionCounter`, the sync
controller's phases and the read transactions, one step per lock section of the code:

* `commit cs`      — `Tree::commit`: every change is `OrdMap::insert`ed into `primary_staging` (write lock).
* `gate`           — `ReadTransactionCounter::block_until_zero` returns (the count of live read transactions is 0).
                     With the flag `g = false` the wait is skipped (the variant for the counterexample).
* `take`           — the write-lock section of `Tree::prepare_sync`: `take_staged_changeset` (`assert!` that
                     `secondary_staging` is `None`; primary → secondary).
* `write pn pg`    — one page write of `ops::update` into the leaf store: the allocator hands out only page numbers
                     of the free list as of the last finished sync or at / above the bump (enabling condition; the
                     free-list theorems `T19_*` of `Store/FreeList*.lean` are about the allocator itself).
* `finish idx' free' bump'` — `SyncController::post_meta` → `Tree::finish_sync`: `secondary_staging = None`, the
                     index swapped.  What `ops::update` built (the new index, the new free list / bump) is a LABEL
                     of the step; the step is enabled iff the label satisfies the contract of `update`
                     (`finishOK`: the new leaves are in order and hold exactly the old content with the taken changeset
                     applied; no page the new tree refers to is free).  The driver evaluates `finishOK` on what the
                     REAL `update` produced at every sync of the differential run.
* `begin id` / `drop id` — `Tree::read_transaction` (counter + 1, clones of index and staging maps under the read
                     lock) and the drop of the last clone of the `ReadTransaction` (counter − 1).

A leaf-store page is its decoded content: a leaf (`(key, cell)` entries, a cell inline bytes or an overflow cell with
page numbers) or an overflow page (more page numbers, bytes).  The disk is the list of writes, newest first.  The
bottom-level branch nodes live in memory (`Arc<BranchNode>`, never modified after `finish`), so the index is a value:
the flattened, ascending list of `(separator, leaf page number)`.

`.err` = the step is not enabled (blocked, or the caller left the protocol of `SyncController`); `.panic` = a panic
site of the code (`assert!(self.secondary_staging.is_none())`, `checked_sub(1).unwrap()`).  `spec` (all committed
changesets applied in order) and `Rtx.view` (`spec` at the creation of the transaction) are GHOST fields.
-/
namespace Nomt.BtTree
open Nomt Nomt.Ovl

/-- a value cell of a leaf entry: inline bytes, or an overflow cell naming the first pages of its chain -/
inductive Cell (α : Type) where
  | inl (v : List α)
  | ovf (pns : List Nat)
deriving DecidableEq, Repr

/-- a page of the leaf store -/
inductive Page (α : Type) where
  | leaf (es : List (Key × Cell α))
  | chunk (more : List Nat) (data : List α)
deriving DecidableEq, Repr

/-- the leaf-store file as the list of page writes, newest first -/
abbrev Disk (α : Type) := List (Nat × Page α)

/-- `(separator, leaf page number)` in ascending separator order -/
abbrev Idx := List (Key × Nat)

/-- `OrdMap<Key, ValueChange>` -/
abbrev SMap (α : Type) := List (Key × Option (List α))

variable {α : Type}

def rd (d : Disk α) (pn : Nat) : Option (Page α) := d.lookup pn

/-- more pages than any overflow value has (`MAX_OVERFLOW_VALUE_SIZE / 4092 < 2^18`) -/
def chainFuel : Nat := 262144

/-- the overflow reader: the pages are read in the order of a list that starts with the cell's page numbers and is
extended by the page numbers found in the pages read -/
def readChain (d : Disk α) : Nat → List Nat → List α → Option (List α)
  | _, [], acc => some acc
  | 0, _ :: _, _ => none
  | f + 1, pn :: rest, acc =>
    match rd d pn with
    | some (.chunk more data) => readChain d f (rest ++ more) (acc ++ data)
    | _ => none

/-- the pages `readChain` reads -/
def chainRefs (d : Disk α) : Nat → List Nat → List Nat
  | _, [] => []
  | 0, _ :: _ => []
  | f + 1, pn :: rest =>
    pn :: (match rd d pn with
           | some (.chunk more _) => chainRefs d f (rest ++ more)
           | _ => [])

def cellVal (d : Disk α) : Cell α → Option (List α)
  | .inl v => some v
  | .ovf pns => readChain d chainFuel pns []

def cellRefs (d : Disk α) : Cell α → List Nat
  | .inl _ => []
  | .ovf pns => chainRefs d chainFuel pns

def entryVal (d : Disk α) (e : Key × Cell α) : Option (Key × List α) := (cellVal d e.2).map (fun v => (e.1, v))

/-- the entries of the leaf at page `pn` with their values resolved -/
def leafAt (d : Disk α) (pn : Nat) : Option (KVL (List α)) :=
  match rd d pn with
  | some (.leaf es) => es.mapM (entryVal d)
  | _ => none

/-- the pages reading the whole leaf `pn` touches -/
def leafRefs (d : Disk α) (pn : Nat) : List Nat :=
  pn :: (match rd d pn with
         | some (.leaf es) => es.flatMap (fun e => cellRefs d e.2)
         | _ => [])

def leafOf (d : Disk α) (s : Key × Nat) : Option (Leaf (List α)) := (leafAt d s.2).map (fun es => ⟨s.1, es⟩)

/-- the leaves an index refers to, decoded from the disk -/
def leavesOf (d : Disk α) (idx : Idx) : Option (List (Leaf (List α))) := idx.mapM (leafOf d)

/-- every page a reader holding `idx` may read -/
def refs (d : Disk α) (idx : Idx) : List Nat := idx.flatMap (fun s => leafRefs d s.2)

/-- `partial_lookup` at specification level (`Store.findLeaf` over bit keys): the child of the last separator `≤ k` -/
def findLeafK : Idx → Key → Option Nat
  | [], _ => none
  | (s, pn) :: rest, k =>
    if bitsLt k s then none else
    match findLeafK rest k with
    | some p => some p
    | none => some pn

/-- `ops::lookup_blocking`: route by the separators, read ONE leaf, search it, resolve the cell -/
def treeGet (d : Disk α) (idx : Idx) (k : Key) : Option (List α) :=
  match findLeafK idx k with
  | none => none
  | some pn =>
    match rd d pn with
    | some (.leaf es) => (kvGet es k).bind (cellVal d)
    | _ => none

/-- the two staging maps: `primary_staging.get(key)`, then `secondary_staging.and_then(get(key))` -/
def stagedGet (prim : SMap α) (sec : Option (SMap α)) (k : Key) : Option (Option (List α)) :=
  match wsLookup prim k with
  | some c => some c
  | none => match sec with
    | some s => wsLookup s k
    | none => none

/-- `Tree::lookup` / `ReadTransaction::lookup_async` driven to its end -/
def viewGet (prim : SMap α) (sec : Option (SMap α)) (d : Disk α) (idx : Idx) (k : Key) : Option (List α) :=
  match stagedGet prim sec k with
  | some c => c
  | none => treeGet d idx k

inductive Phase where
  | idle | gated | writing
deriving DecidableEq, Repr

/-- `ReadTransactionInner` (+ ghost `view`) -/
structure Rtx (α : Type) where
  idx : Idx
  prim : SMap α
  sec : Option (SMap α)
  view : KVL (List α)

structure St (α : Type) where
  idx : Idx := []
  prim : SMap α := []
  sec : Option (SMap α) := none
  disk : Disk α := []
  free : List Nat := []
  bump : Nat := 1
  phase : Phase := .idle
  rtx : List (Nat × Rtx α) := []
  spec : KVL (List α) := []

inductive Step (α : Type) where
  | commit (cs : List (Key × Option (List α)))
  | gate
  | take
  | write (pn : Nat) (pg : Page α)
  | finish (idx' : Idx) (free' : List Nat) (bump' : Nat)
  | begin (id : Nat)
  | drop (id : Nat)

/-- may the running sync write page `pn`? (free list as of the last finished sync, or at / above the bump) -/
def alloc (st : St α) (pn : Nat) : Prop := pn ∈ st.free ∨ st.bump ≤ pn

instance (st : St α) (pn : Nat) : Decidable (alloc st pn) := by unfold alloc; exact inferInstance

def insertAll (m : SMap α) (cs : List (Key × Option (List α))) : SMap α :=
  cs.foldl (fun m c => kvInsert m c.1 c.2) m

instance decLeavesOK {V : Type} : (ls : List (Leaf V)) → Decidable (LeavesOK ls)
  | [] => isTrue trivial
  | l :: rest =>
    have := decLeavesOK rest
    inferInstanceAs (Decidable (List.Pairwise (fun x y => bitsLt x.1 y.1 = true) l.entries ∧
      (∀ e ∈ l.entries, bitsLt e.1 l.sep = false) ∧
      (∀ l' ∈ rest, bitsLt l.sep l'.sep = true ∧ ∀ e ∈ l.entries, bitsLt e.1 l'.sep = true) ∧ LeavesOK rest))

/-- the contract of `ops::update`, evaluated when the index is swapped -/
def FinishOK (st : St α) (idx' : Idx) (free' : List Nat) (bump' : Nat) : Prop :=
  ∃ ls ls' sec, leavesOf st.disk st.idx = some ls ∧ leavesOf st.disk idx' = some ls' ∧ st.sec = some sec ∧
    LeavesOK ls' ∧ flat ls' = kvApply (flat ls) sec ∧
    ∀ pn ∈ refs st.disk idx', pn ∉ free' ∧ pn < bump'

def finishOKb [DecidableEq α] (st : St α) (idx' : Idx) (free' : List Nat) (bump' : Nat) : Bool :=
  match leavesOf st.disk st.idx, leavesOf st.disk idx', st.sec with
  | some ls, some ls', some sec =>
    decide (LeavesOK ls') && decide (flat ls' = kvApply (flat ls) sec) &&
      (refs st.disk idx').all (fun pn => !free'.contains pn && decide (pn < bump'))
  | _, _, _ => false

theorem finishOKb_iff [DecidableEq α] (st : St α) (idx' : Idx) (free' : List Nat) (bump' : Nat) :
    finishOKb st idx' free' bump' = true ↔ FinishOK st idx' free' bump' := by
  unfold finishOKb FinishOK
  constructor
  · intro h
    split at h
    · rename_i ls ls' sec h1 h2 h3
      simp only [Bool.and_eq_true, decide_eq_true_eq, List.all_eq_true, Bool.not_eq_true', List.contains_eq_mem,
        decide_eq_false_iff_not] at h
      exact ⟨ls, ls', sec, h1, h2, h3, h.1.1, h.1.2, fun pn hp => by simpa using h.2 pn hp⟩
    · cases h
  · rintro ⟨ls, ls', sec, h1, h2, h3, h4, h5, h6⟩
    simp only [h1, h2, h3, Bool.and_eq_true, decide_eq_true_eq, List.all_eq_true, Bool.not_eq_true',
      List.contains_eq_mem, decide_eq_false_iff_not]
    exact ⟨⟨h4, h5⟩, fun pn hp => by simpa using h6 pn hp⟩

def hasId (rtx : List (Nat × Rtx α)) (id : Nat) : Bool := rtx.any (fun r => r.1 == id)

/-- one step; `g = true` is the code (sync start waits for the read transactions) -/
def step [DecidableEq α] (g : Bool) (st : St α) : Step α → Outcome String (St α)
  | .commit cs => .ok { st with prim := insertAll st.prim cs, spec := kvApply st.spec cs }
  | .gate =>
    if st.phase ≠ .idle then .err "a sync is in flight (sync lock)"
    else if g && !st.rtx.isEmpty then .err "blocked: read transactions alive"
    else .ok { st with phase := .gated }
  | .take =>
    if st.phase ≠ .gated then .err "take outside prepare_sync"
    else match st.sec with
      | some _ => .panic "assert!(self.secondary_staging.is_none())"
      | none => .ok { st with sec := some st.prim, prim := [], phase := .writing }
  | .write pn pg =>
    if st.phase ≠ .writing then .err "write outside update"
    else if ¬ alloc st pn then .err "update writes a page that is neither free nor fresh"
    else .ok { st with disk := (pn, pg) :: st.disk }
  | .finish idx' free' bump' =>
    if st.phase ≠ .writing then .err "post_meta before wait_pre_meta"
    else if !finishOKb st idx' free' bump' then .err "update contract violated"
    else .ok { st with idx := idx', sec := none, free := free', bump := bump', phase := .idle }
  | .begin id =>
    if hasId st.rtx id then .err "id in use"
    else .ok { st with rtx := (id, { idx := st.idx, prim := st.prim, sec := st.sec, view := st.spec }) :: st.rtx }
  | .drop id =>
    if hasId st.rtx id then .ok { st with rtx := st.rtx.filter (fun r => r.1 != id) }
    else .panic "checked_sub(1).unwrap()"

def run [DecidableEq α] (g : Bool) : St α → List (Step α) → Outcome String (St α)
  | st, [] => .ok st
  | st, s :: rest =>
    match step g st s with
    | .ok st' => run g st' rest
    | .err e => .err e
    | .panic m => .panic m

/-- `Tree::lookup` -/
def St.lookup (st : St α) (k : Key) : Option (List α) := viewGet st.prim st.sec st.disk st.idx k

/-- `ReadTransaction::lookup_async` completed, on the disk as it is NOW -/
def Rtx.lookup (r : Rtx α) (d : Disk α) (k : Key) : Option (List α) := viewGet r.prim r.sec d r.idx k

/-- `ReadTransaction::iterator(start, end)` driven to exhaustion on the disk as it is NOW -/
def Rtx.iter (r : Rtx α) (d : Disk α) (start : Key) (stop : Option Key) : Option (Outcome Unit (KVL (List α) × Nat)) :=
  (leavesOf d r.idx).map fun ls => (BtIt.new r.prim (r.sec.getD []) ls start stop).runAll

def findRtx (rtx : List (Nat × Rtx α)) (id : Nat) : Option (Rtx α) := (rtx.find? (fun r => r.1 == id)).map (·.2)

/-- the changesets committed by a list of steps, in order -/
def commitsOf : List (Step α) → List (List (Key × Option (List α)))
  | [] => []
  | .commit cs :: rest => cs :: commitsOf rest
  | _ :: rest => commitsOf rest

end Nomt.BtTree
