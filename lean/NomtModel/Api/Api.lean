/-! Calibration: commit / try_commit_nonblocking / rollback of nomt/src/lib.rs + rollback/mod.rs,
    records kept as a list (no segments). `K`,`V` abstract; `R` = root type with an injective `rootOf`. -/
namespace NomtApi
variable {K V R : Type} [DecidableEq K] [DecidableEq R]

abbrev KV (K V : Type) := K → Option V

/-- a delta = prior value of every written key (rollback/delta.rs) -/
abbrev Delta (K V : Type) := List (K × Option V)

def lookup (ws : List (K × Option V)) (k : K) : Option (Option V) :=
  match ws with
  | [] => none
  | (k', w) :: rest => if k' = k then some w else lookup rest k

/-- apply a batch of writes (`None` = delete); first occurrence wins (batches have unique keys) -/
def applyWrites (kv : KV K V) (ws : List (K × Option V)) : KV K V :=
  fun k => match lookup ws k with
    | some w => w
    | none => kv k

/-- the reverse delta of a batch against a base state (ReverseDeltaBuilder::finalize) -/
def deltaOf (base : KV K V) (ws : List (K × Option V)) : Delta K V :=
  ws.map (fun kw => (kw.1, base kw.1))

structure Changeset (K V R : Type) where
  prevRoot : R
  newRoot : R
  writes : List (K × Option V)
  delta : Delta K V

structure St (K V R : Type) where
  kv : KV K V
  root : R
  log : List (Delta K V)          -- oldest first; in-memory log == seglog records in this abstraction
  seqn : Nat

inductive Res | ok | err | deferred
deriving DecidableEq, Repr

/-- `FinishedSession::commit`: lock, compare root, set root, append delta, sync -/
def commit (cs : Changeset K V R) (s : St K V R) : Res × St K V R :=
  if s.root ≠ cs.prevRoot then (.err, s)
  else (.ok, { kv := applyWrites s.kv cs.writes, root := cs.newRoot, log := s.log ++ [cs.delta], seqn := s.seqn + 1 })

/-- `FinishedSession::try_commit_nonblocking` AS THE CODE HAS IT: delta appended before the root check -/
def tryCommitNonblockingCode (lockFree : Bool) (cs : Changeset K V R) (s : St K V R) : Res × St K V R :=
  if !lockFree then (.deferred, s)
  else
    let s1 := { s with log := s.log ++ [cs.delta] }
    if s1.root ≠ cs.prevRoot then (.err, s1)
    else (.ok, { kv := applyWrites s1.kv cs.writes, root := cs.newRoot, log := s1.log, seqn := s1.seqn + 1 })

/-- the repaired order -/
def tryCommitNonblockingFixed (lockFree : Bool) (cs : Changeset K V R) (s : St K V R) : Res × St K V R :=
  if !lockFree then (.deferred, s) else commit cs s

/-- `Rollback::truncate`: pop the `n` newest deltas, older priors override newer ones -/
def traceback (ds : List (Delta K V)) : List (K × Option V) :=
  -- `ds` oldest first; lookup must find the OLDEST prior first
  ds.foldr (fun d acc => d ++ acc) []

def rollback (rootOf : KV K V → R) (n : Nat) (s : St K V R) : Res × St K V R :=
  if n = 0 then (.ok, s)
  else if n > s.log.length then (.err, s)
  else
    let keep := s.log.take (s.log.length - n)
    let popped := s.log.drop (s.log.length - n)
    let kv' := applyWrites s.kv (traceback popped)
    (.ok, { kv := kv', root := rootOf kv', log := keep, seqn := s.seqn + 1 })

/-! ### C12: a rejected or deferred commit has no effect -/

theorem commit_rejected_noop (cs : Changeset K V R) (s : St K V R) (h : s.root ≠ cs.prevRoot) :
    commit cs s = (.err, s) := by simp [commit, h]

theorem nonblocking_fixed_noop (lockFree : Bool) (cs : Changeset K V R) (s : St K V R)
    (h : lockFree = false ∨ s.root ≠ cs.prevRoot) :
    (tryCommitNonblockingFixed lockFree cs s).2 = s ∧ (tryCommitNonblockingFixed lockFree cs s).1 ≠ .ok := by
  rcases h with h | h
  · subst h; simp [tryCommitNonblockingFixed]
  · cases lockFree <;> simp [tryCommitNonblockingFixed, commit, h]

/-- the code's order is NOT a no-op: the rollback log grows (finding F1) -/
theorem nonblocking_code_not_noop (cs : Changeset K V R) (s : St K V R) (h : s.root ≠ cs.prevRoot) :
    (tryCommitNonblockingCode true cs s).2.log = s.log ++ [cs.delta] := by
  simp [tryCommitNonblockingCode, h]

end NomtApi
