import NomtModel.Api.DeltaWorker
/-!
Basic facts for the worker mirror: the request map (`rget / rdel / rput` on an association list with distinct keys),
`AsyncReader` (`submit`, `continue_parse`, `complete`) under the reader invariant `RdOk`.
-/
namespace Nomt.Wk
open Nomt

/-! ### the request map -/

theorem mem_rdel {m : Reqs} {k : Nat} {e : Nat × Req} : e ∈ rdel m k ↔ e ∈ m ∧ e.1 ≠ k := by
  simp [rdel]

theorem mem_rput {m : Reqs} {k : Nat} {v : Req} {e : Nat × Req} :
    e ∈ rput m k v ↔ e = (k, v) ∨ (e ∈ m ∧ e.1 ≠ k) := by
  simp [rput, mem_rdel]

def Keys (m : Reqs) : Prop := (m.map (·.1)).Nodup

theorem keys_rdel {m : Reqs} (h : Keys m) (k : Nat) : Keys (rdel m k) := by
  unfold Keys rdel
  exact (List.filter_sublist.map _).nodup h

theorem keys_rput {m : Reqs} (h : Keys m) (k : Nat) (v : Req) : Keys (rput m k v) := by
  unfold Keys rput
  simp only [List.map_cons, List.nodup_cons]
  refine ⟨?_, keys_rdel h k⟩
  intro hm
  obtain ⟨e, he, hk⟩ := List.mem_map.1 hm
  exact (mem_rdel.1 he).2 hk

theorem rget_of_mem {m : Reqs} (h : Keys m) {k : Nat} {v : Req} (hm : (k, v) ∈ m) : rget m k = some v := by
  induction m with
  | nil => cases hm
  | cons x xs ih =>
    unfold Keys at h
    simp only [List.map_cons, List.nodup_cons] at h
    rcases List.mem_cons.1 hm with rfl | hm
    · simp [rget]
    · have hne : x.1 ≠ k := by
        intro e
        exact h.1 (List.mem_map.2 ⟨(k, v), hm, e.symm⟩)
      have : (x.1 == k) = false := by simpa using hne
      simp only [rget, List.find?_cons, this]
      exact ih h.2 hm

theorem mem_of_rget {m : Reqs} {k : Nat} {v : Req} (h : rget m k = some v) : (k, v) ∈ m := by
  unfold rget at h
  cases hf : m.find? (·.1 == k) with
  | none => rw [hf] at h; cases h
  | some e =>
    rw [hf] at h
    have h1 := List.find?_some hf
    have h2 := List.mem_of_find?_eq_some hf
    have hk : e.1 = k := by simpa using h1
    have hv : e.2 = v := by simpa using h
    have : e = (k, v) := by rw [← hk, ← hv]
    rw [← this]; exact h2

theorem rget_none_of_not_mem {m : Reqs} {k : Nat} (h : ∀ e ∈ m, e.1 ≠ k) : rget m k = none := by
  unfold rget
  rw [List.find?_eq_none.2 (fun e he => by simpa using h e he)]
  rfl

/-- counting the entries that satisfy `p`: removing the entry of key `k` -/
theorem countP_rdel {m : Reqs} (h : Keys m) (p : Nat × Req → Bool) {k : Nat} {v : Req} (hm : (k, v) ∈ m) :
    m.countP p = (rdel m k).countP p + (if p (k, v) then 1 else 0) := by
  induction m with
  | nil => cases hm
  | cons x xs ih =>
    unfold Keys at h
    simp only [List.map_cons, List.nodup_cons] at h
    rcases List.mem_cons.1 hm with rfl | hm
    · have hx : rdel xs k = xs := by
        unfold rdel
        apply List.filter_eq_self.2
        intro e he
        have : e.1 ≠ k := fun e' => h.1 (List.mem_map.2 ⟨e, he, e'⟩)
        simpa using this
      simp only [rdel, List.filter_cons, bne_self_eq_false, Bool.false_eq_true, if_false]
      rw [show List.filter (fun x => x.1 != k) xs = rdel xs k from rfl, hx, List.countP_cons]
    · have hne : x.1 ≠ k := by
        intro e
        exact h.1 (List.mem_map.2 ⟨(k, v), hm, e.symm⟩)
      have hb : (x.1 != k) = true := by simpa using hne
      simp only [rdel, List.filter_cons, hb, if_true, List.countP_cons]
      have := ih h.2 hm
      unfold rdel at this
      omega

theorem countP_rdel_absent {m : Reqs} (p : Nat × Req → Bool) {k : Nat} (hm : ∀ e ∈ m, e.1 ≠ k) :
    (rdel m k).countP p = m.countP p := by
  have : rdel m k = m := by
    unfold rdel
    apply List.filter_eq_self.2
    intro e he
    simpa using hm e he
  rw [this]

theorem countP_rput {m : Reqs} (p : Nat × Req → Bool) (k : Nat) (v : Req) :
    (rput m k v).countP p = (rdel m k).countP p + (if p (k, v) then 1 else 0) := by
  simp only [rput, List.countP_cons]

theorem countP_le_length' (m : Reqs) (p : Nat × Req → Bool) : m.countP p ≤ m.length := List.countP_le_length

/-! ### `AsyncReader` -/

/-- invariant of a reader that is still in use -/
structure RdOk (rd : Reader) : Prop where
  wf : rd.lay.WF
  pr : rd.proc ≤ rd.req
  rk : rd.req ≤ rd.lay.known rd.proc
  pt : rd.proc < rd.lay.total
  arr : ∀ i ∈ rd.arrived, rd.proc < i ∧ i < rd.req
  nd : rd.arrived.Nodup

theorem known_total {L : Layout} (wf : L.WF) : L.known L.total = L.total := by
  have h1 := wf.le L.total
  have h2 := wf.prog (L.total - 1) (by have := wf.pos; omega)
  have h3 := wf.mono (L.total - 1) L.total (by omega)
  omega

theorem rdOk_new {L : Layout} (wf : L.WF) : RdOk { lay := L } :=
  ⟨wf, Nat.le_refl _, Nat.zero_le _, wf.pos, (fun i hi => by cases hi), List.nodup_nil⟩

/-- `submit` hands out the next index as long as one is known and not all are requested -/
theorem submit_spec {rd : Reader} (ok : RdOk rd) :
    (rd.submit = (none, rd) ∧ (rd.req = rd.lay.total ∨ rd.lay.known rd.proc ≤ rd.req)) ∨
    (rd.submit = (some rd.req, { rd with req := rd.req + 1 }) ∧ RdOk { rd with req := rd.req + 1 } ∧
      rd.req < rd.lay.known rd.proc) := by
  unfold Reader.submit
  by_cases h : rd.req = rd.lay.total ∨ rd.lay.known rd.proc ≤ rd.req
  · left; rw [if_pos h]; exact ⟨rfl, h⟩
  · right
    rw [if_neg h]
    have h' : rd.req ≠ rd.lay.total ∧ rd.req < rd.lay.known rd.proc := by omega
    refine ⟨rfl, ⟨ok.wf, ?_, ?_, ok.pt, ?_, ok.nd⟩, h'.2⟩
    · show rd.proc ≤ rd.req + 1; have := ok.pr; omega
    · show rd.req + 1 ≤ rd.lay.known rd.proc; omega
    · intro i hi; have := ok.arr i hi; show rd.proc < i ∧ i < rd.req + 1; omega

/-- a submit is possible whenever nothing is outstanding -/
theorem submit_some_of_stuck {rd : Reader} (ok : RdOk rd) (h : rd.proc = rd.req) :
    rd.submit = (some rd.req, { rd with req := rd.req + 1 }) := by
  rcases submit_spec ok with ⟨_, h2⟩ | ⟨h1, _⟩
  · have := ok.wf.prog rd.proc ok.pt
    have := ok.pt
    omega
  · exact h1

/-- `continue_parse`: the contiguous run of arrived pages starting at `p` is consumed -/
theorem parse_spec (total : Nat) (f p : Nat) (a : List Nat) (hnd : a.Nodup) :
    ∃ p' a', parse total f p a = (p', a') ∧ p ≤ p' ∧ a'.Nodup ∧
      (∀ i, i ∈ a' ↔ i ∈ a ∧ ¬ (p ≤ i ∧ i < p')) ∧
      (∀ j, p ≤ j → j < p' → j ∈ a ∧ j < total) ∧
      (a.length ≤ f → ¬ (p' < total ∧ p' ∈ a')) := by
  induction f generalizing p a with
  | zero =>
    refine ⟨p, a, rfl, Nat.le_refl _, hnd, (fun i => by simp), (fun j h1 h2 => by omega), ?_⟩
    intro hl
    have : a = [] := List.eq_nil_of_length_eq_zero (by omega)
    subst this; simp
  | succ f ih =>
    by_cases hc : p < total ∧ p ∈ a
    · obtain ⟨p', a', h1, h2, h3, h4, h5, h6⟩ := ih (p + 1) (a.erase p) (hnd.erase p)
      refine ⟨p', a', by simp [parse, hc, h1], by omega, h3, ?_, ?_, ?_⟩
      · intro i
        rw [h4, hnd.mem_erase_iff]
        constructor
        · rintro ⟨⟨g1, g2⟩, g3⟩; exact ⟨g2, by omega⟩
        · rintro ⟨g1, g2⟩; exact ⟨⟨by omega, g1⟩, by omega⟩
      · intro j g1 g2
        by_cases hj : j = p
        · subst hj; exact ⟨hc.2, hc.1⟩
        · obtain ⟨g3, g4⟩ := h5 j (by omega) g2
          exact ⟨List.mem_of_mem_erase g3, g4⟩
      · intro hl
        apply h6
        rw [List.length_erase_of_mem hc.2]; omega
    · refine ⟨p, a, (by simp [parse, hc]), Nat.le_refl _, hnd, (fun i => by simp), (fun j h1 h2 => by omega), ?_⟩
      intro _ hh
      exact hc hh

/-- `AsyncReader::complete` for a page that was requested and has not arrived yet: no panic; either the value is
complete, or the reader is still well formed, with the same request counter, and every requested index at or above the
new `process_index` that has not arrived was already missing before and is not the one just completed -/
theorem complete_spec {rd : Reader} (ok : RdOk rd) (idx : Nat) (h1 : rd.proc ≤ idx) (h2 : idx < rd.req)
    (h3 : idx ∉ rd.arrived) :
    ∃ fin rd', rd.complete idx = .ok (fin, rd') ∧
      (fin = false → RdOk rd' ∧ rd'.lay = rd.lay ∧ rd'.req = rd.req ∧ rd.proc ≤ rd'.proc ∧
        (∀ i, rd'.proc ≤ i → i < rd.req → i ∉ rd'.arrived → rd.proc ≤ i ∧ i ∉ rd.arrived ∧ i ≠ idx) ∧
        (∀ j, rd.proc ≤ j → j ≠ idx → j ∉ rd.arrived → rd'.proc ≤ j ∧ j ∉ rd'.arrived)) ∧
      (fin = true → ∀ j, rd.proc ≤ j → j < rd.lay.total → j = idx ∨ j ∈ rd.arrived) := by
  have hk : ¬ (rd.lay.known rd.proc ≤ idx) := by have := ok.rk; omega
  unfold Reader.complete
  rw [if_neg hk]
  dsimp only
  by_cases he : idx = rd.proc
  · subst he
    have he : rd.proc = rd.proc := rfl
    have hnd : (rd.proc :: rd.arrived).Nodup := List.nodup_cons.2 ⟨h3, ok.nd⟩
    obtain ⟨p', a', g1, g2, g3, g4, g5, g6⟩ := parse_spec rd.lay.total (rd.proc :: rd.arrived).length rd.proc _ hnd
    have g6' := g6 (Nat.le_refl _)
    simp only [↓reduceIte, g1]
    have hall : ∀ i ∈ rd.proc :: rd.arrived, rd.proc ≤ i ∧ i < rd.req := by
      intro i hi
      rcases List.mem_cons.1 hi with rfl | hi
      · exact ⟨Nat.le_refl _, he ▸ h2⟩
      · have := ok.arr i hi; omega
    have hpr : p' ≤ rd.req := by
      by_cases hgt : rd.req < p'
      · have := (g5 rd.req ok.pr hgt).1
        have := (hall _ this).2
        omega
      · omega
    have hpt : p' ≤ rd.lay.total := by
      by_cases hgt : rd.lay.total < p'
      · have := (g5 rd.lay.total (by have := ok.pt; omega) hgt).2
        omega
      · omega
    have hne : p' ≠ rd.proc := by
      intro e
      apply g6'
      rw [e]
      exact ⟨ok.pt, (g4 rd.proc).2 ⟨List.mem_cons_self .., by omega⟩⟩
    by_cases hfin : p' = rd.lay.total
    · rw [if_pos hfin, hfin, if_pos (known_total ok.wf)]
      refine ⟨true, _, rfl, (fun h => by cases h), fun _ j q1 q2 => ?_⟩
      have := (g5 j q1 (by omega)).1
      simpa using this
    · rw [if_neg hfin]
      refine ⟨false, _, rfl, (fun _ => ⟨⟨ok.wf, hpr, ?_, by show p' < rd.lay.total; omega, ?_, g3⟩, rfl, rfl, g2, ?_, ?_⟩),
        fun h => by cases h⟩
      · show rd.req ≤ rd.lay.known p'
        have := ok.wf.mono rd.proc p' g2
        have := ok.rk
        omega
      · intro i hi
        show p' < i ∧ i < rd.req
        obtain ⟨m1, m2⟩ := (g4 i).1 hi
        have := hall i m1
        have hip : i ≠ p' := by
          intro e
          apply g6'
          exact ⟨by omega, e ▸ hi⟩
        omega
      · intro i q1 q2 q3
        have q1' : p' ≤ i := q1
        have q3' : i ∉ a' := q3
        have : i ∉ rd.proc :: rd.arrived := by
          intro hm
          exact q3' ((g4 i).2 ⟨hm, by omega⟩)
        simp only [List.mem_cons, not_or] at this
        exact ⟨by omega, this.2, by omega⟩
      · intro j q1 q2 q3
        have hja : j ∉ rd.proc :: rd.arrived := by simp only [List.mem_cons, not_or]; exact ⟨q2, q3⟩
        refine ⟨?_, fun hm => hja ((g4 j).1 hm).1⟩
        show p' ≤ j
        by_cases hlt : j < p'
        · exact absurd (g5 j q1 hlt).1 hja
        · omega
  · simp only [if_neg he]
    have hfin : ¬ (rd.proc = rd.lay.total) := by have := ok.pt; omega
    rw [if_neg hfin]
    refine ⟨false, _, rfl, (fun _ => ⟨⟨ok.wf, ok.pr, ok.rk, ok.pt, ?_, List.nodup_cons.2 ⟨h3, ok.nd⟩⟩, rfl, rfl,
      Nat.le_refl _, ?_, ?_⟩), fun h => by cases h⟩
    · intro i hi
      rcases List.mem_cons.1 hi with rfl | hi
      · exact ⟨Nat.lt_of_le_of_ne h1 (fun e => he e.symm), h2⟩
      · exact ok.arr i hi
    · intro i q1 q2 q3
      have : i ∉ idx :: rd.arrived := q3
      simp only [List.mem_cons, not_or] at this
      exact ⟨q1, this.2, this.1⟩
    · intro j q1 q2 q3
      refine ⟨q1, ?_⟩
      show j ∉ idx :: rd.arrived
      simp only [List.mem_cons, not_or]; exact ⟨q2, q3⟩

end Nomt.Wk
