import NomtModel.Api.OvlInv
/-!
`LiveOverlay::value` and `value_iter` against the chain specification (helper lemmas for
`Props/C11_Index.lean`): under the heap invariant the mirrored lookups never reach a panic site and return
the youngest change along the live chain.
-/
namespace Nomt.Ovl
open Nomt
variable {V : Type}

/-- the chain a well-shaped live overlay reads is the first `n + 1` maps of its parent's creation chain -/
theorem live_chain_eq {h : Heap V} {l : Live} {p : Nat} {po : Ov V} (hp : h[p]? = some po)
    (hanc : l.anc = po.anc.take l.anc.length) :
    chainData h (p :: l.anc) = (po.values :: chainData h po.anc).take (l.anc.length + 1) := by
  rw [chainData_cons, hp, List.take_succ_cons, ← chainData_take, ← hanc]

/-- the heart of `value`: what the parent's index entry `k ↦ s` means for a well-shaped live overlay -/
theorem valueInner_spec {h : Heap V} {l : Live} {p : Nat} {po : Ov V} (inv : OvInv h po) (hp : h[p]? = some po)
    (hn : l.anc.length ≤ po.anc.length) (hanc : l.anc = po.anc.take l.anc.length)
    (hmin : l.minSeqn = po.seqn - l.anc.length) {k : Key} {s : Nat} (hget : kvGet po.index.values k = some s) :
    (s < l.minSeqn → chainLookup (chainData h (p :: l.anc)) k = none) ∧
    (l.minSeqn ≤ s → ∃ c, valueInner h l po k (s - l.minSeqn) = .ok c ∧
        chainLookup (chainData h (p :: l.anc)) k = some c) := by
  rw [live_chain_eq hp hanc, chainLookup_take]
  have hlen := inv.ancLen
  cases hf : firstIdx (po.values :: chainData h po.anc) k with
  | none =>
    have hm := inv.miss k hf s hget
    refine ⟨fun _ => rfl, fun hle => ?_⟩
    exfalso; omega
  | some j =>
    have hs := inv.hit k j hf
    rw [hget] at hs
    have hs : s = po.seqn - j := Option.some.inj hs
    have hj : j < (po.values :: chainData h po.anc).length := firstIdx_lt hf
    have hj' : j ≤ po.anc.length := by simp [chainData] at hj; omega
    obtain ⟨ws, v, hws, hv, hcl⟩ := firstIdx_some hf
    refine ⟨fun hlt => ?_, fun hle => ?_⟩
    · have : ¬ j < l.anc.length + 1 := by omega
      simp [this]
    · have hjn : j < l.anc.length + 1 := by omega
      simp only [hjn, if_true]
      refine ⟨v, ?_, hcl⟩
      have hdiff : s - l.minSeqn = l.anc.length - j := by omega
      rw [hdiff]
      unfold valueInner
      cases j with
      | zero =>
        simp only [Nat.sub_zero, if_true]
        simp only [List.getElem?_cons_zero, Option.some.injEq] at hws
        subst hws
        rw [hv]
      | succ j' =>
        have h1 : ¬ l.anc.length - (j' + 1) = l.anc.length := by omega
        have h2 : ¬ l.anc.length < l.anc.length - (j' + 1) + 1 := by omega
        rw [if_neg h1, if_neg h2]
        have hidx : l.anc.length - (l.anc.length - (j' + 1)) - 1 = j' := by omega
        rw [hidx]
        -- the ancestor at distance `j' + 1`
        have hja : j' < po.anc.length := by omega
        have hla : l.anc[j']? = some po.anc[j'] := by
          rw [hanc, List.getElem?_take]
          have : j' < l.anc.length := by omega
          simp [this, List.getElem?_eq_getElem hja]
        rw [hla]
        simp only
        have halt : po.anc[j'] < h.length := inv.ancLt _ (List.getElem_mem hja)
        rw [List.getElem?_eq_getElem halt]
        simp only
        have hcd : (po.values :: chainData h po.anc)[j' + 1]? = some h[po.anc[j']].values := by
          rw [List.getElem?_cons_succ]
          exact chainData_getElem? h po.anc j' _ _ (List.getElem?_eq_getElem hja) (List.getElem?_eq_getElem halt)
        rw [hcd] at hws
        have := Option.some.inj hws
        rw [this, hv]

theorem value_miss {h : Heap V} {l : Live} {p : Nat} {po : Ov V} (inv : OvInv h po) (hp : h[p]? = some po)
    (hanc : l.anc = po.anc.take l.anc.length) {k : Key} (hget : kvGet po.index.values k = none) :
    chainLookup (chainData h (p :: l.anc)) k = none := by
  rw [live_chain_eq hp hanc, chainLookup_take]
  cases hf : firstIdx (po.values :: chainData h po.anc) k with
  | none => rfl
  | some j =>
    have := inv.hit k j hf
    rw [hget] at this; cases this

/-- **`LiveOverlay::value` is the chain lookup**, and no panic site is reached -/
theorem value_spec {h : Heap V} (hinv : HeapInv h) {l : Live} (ok : LiveOK h l) (k : Key) :
    l.value h k = .ok (chainLookup (chainData h l.chain) k) := by
  unfold LiveOK at ok
  unfold Live.value Live.chain
  cases hp : l.parent with
  | none => simp [chainData, chainLookup]
  | some p =>
    rw [hp] at ok
    obtain ⟨po, hpo, hn, hanc, hmin⟩ := ok
    simp only [hpo]
    have inv := hinv p po hpo
    cases hget : kvGet po.index.values k with
    | none =>
      simp only
      rw [value_miss inv hpo hanc hget]
    | some s =>
      simp only
      obtain ⟨h1, h2⟩ := valueInner_spec inv hpo hn hanc hmin hget
      by_cases hlt : s < l.minSeqn
      · rw [if_pos hlt, h1 hlt]
      · rw [if_neg hlt]
        obtain ⟨c, hc1, hc2⟩ := h2 (by omega)
        rw [hc1, hc2]

/-! ### `value_iter` -/

/-- on a sorted map `range(start..)` is a filter -/
theorem dropWhile_lt_eq_filter {A : Type} {m : KVL A} (hs : KSorted m) (start : Key) :
    m.dropWhile (fun e => bitsLt e.1 start) = m.filter (fun e => !bitsLt e.1 start) := by
  induction m with
  | nil => rfl
  | cons x xs ih =>
    obtain ⟨hx, hxs⟩ := ksorted_cons.1 hs
    by_cases h : bitsLt x.1 start = true
    · simp only [List.dropWhile, h, List.filter, Bool.not_true]
      exact ih hxs
    · have h' : bitsLt x.1 start = false := by simpa using h
      simp only [List.dropWhile, h', List.filter, Bool.not_false]
      congr 1
      symm
      apply List.filter_eq_self.2
      intro e he
      have hlt := hx e he
      cases hb : bitsLt e.1 start with
      | false => rfl
      | true =>
        have := bitsLt_trans hlt hb
        rw [h'] at this; cases this

/-- on a sorted map `take_while(k < end)` is a filter -/
theorem takeWhile_lt_eq_filter {A : Type} {m : KVL A} (hs : KSorted m) (stop : Key) :
    m.takeWhile (fun e => bitsLt e.1 stop) = m.filter (fun e => bitsLt e.1 stop) := by
  induction m with
  | nil => rfl
  | cons x xs ih =>
    obtain ⟨hx, hxs⟩ := ksorted_cons.1 hs
    by_cases h : bitsLt x.1 stop = true
    · simp only [List.takeWhile, h, List.filter]
      rw [ih hxs]
    · have h' : bitsLt x.1 stop = false := by simpa using h
      simp only [List.takeWhile, h', List.filter]
      symm
      apply List.filter_eq_nil_iff.2
      intro e he
      have hlt := hx e he
      intro hb
      have := bitsLt_trans hlt hb
      rw [h'] at this; cases this

theorem takeWhile_true {A : Type} (l : List A) : l.takeWhile (fun _ => true) = l := by
  induction l with
  | nil => rfl
  | cons x xs ih => simp [List.takeWhile, ih]

theorem filterMap_congr' {A B : Type} {f g : A → Option B} {l : List A} (h : ∀ x ∈ l, f x = g x) :
    l.filterMap f = l.filterMap g := by
  induction l with
  | nil => rfl
  | cons x xs ih =>
    simp only [List.filterMap_cons, h x (List.mem_cons_self ..)]
    rw [ih (fun y hy => h y (List.mem_cons_of_mem _ hy))]

theorem iterEntries_eq {vals : KVL Nat} (hs : KSorted vals) (minSeqn : Nat) (start : Key) (stop : Option Key) :
    iterEntries vals minSeqn start stop =
      (vals.filter (fun e => inRange start stop e.1)).filterMap
        (fun e => if e.2 < minSeqn then none else some (e.1, e.2 - minSeqn)) := by
  unfold iterEntries
  simp only
  rw [dropWhile_lt_eq_filter hs]
  congr 1
  cases stop with
  | none =>
    simp only [takeWhile_true, inRange, Bool.and_true]
  | some e =>
    rw [takeWhile_lt_eq_filter (ksorted_filter hs _), List.filter_filter]
    apply List.filter_congr
    intro x _
    simp [inRange, Bool.and_comm]

theorem mapInner_spec {h : Heap V} {l : Live} {po : Ov V} (chain : List (Writes V)) (es : List (Key × Nat))
    (hall : ∀ e ∈ es, ∃ c, valueInner h l po e.1 e.2 = .ok c ∧ chainLookup chain e.1 = some c) :
    mapInner h l po es = .ok (es.filterMap (fun e => (chainLookup chain e.1).map (fun c => (e.1, c)))) := by
  induction es with
  | nil => rfl
  | cons e es ih =>
    obtain ⟨k, d⟩ := e
    obtain ⟨c, hc1, hc2⟩ := hall (k, d) (List.mem_cons_self ..)
    simp only at hc1 hc2
    unfold mapInner
    rw [hc1]
    simp only
    rw [ih (fun e he => hall e (List.mem_cons_of_mem _ he))]
    simp [List.filterMap_cons, hc2]

/-- **`value_iter` in closed form**: the entries of the parent's index inside the half-open range, each with
the youngest change of the live chain (stale entries skipped), in index order -/
theorem valueIter_eq {h : Heap V} (hinv : HeapInv h) {l : Live} {p : Nat} {po : Ov V} (hl : l.parent = some p)
    (hpo : h[p]? = some po) (ok : LiveOK h l) (start : Key) (stop : Option Key) :
    l.valueIter h start stop = .ok ((po.index.values.filter (fun e => inRange start stop e.1)).filterMap
      (fun e => (chainLookup (chainData h l.chain) e.1).map (fun c => (e.1, c)))) := by
  unfold LiveOK at ok
  rw [hl] at ok
  obtain ⟨po', hpo', hn, hanc, hmin⟩ := ok
  rw [hpo] at hpo'
  cases hpo'
  have inv := hinv p po hpo
  have hchain : l.chain = p :: l.anc := by simp [Live.chain, hl]
  unfold Live.valueIter
  simp only [hl, hpo]
  rw [mapInner_spec (chainData h l.chain)]
  · rw [iterEntries_eq inv.wf.sorted, List.filterMap_filterMap]
    congr 1
    apply filterMap_congr'
    intro e he
    have hmem := (List.mem_filter.1 he).1
    have hget := kvGet_of_mem inv.wf.sorted (show (e.1, e.2) ∈ po.index.values from hmem)
    obtain ⟨h1, h2⟩ := valueInner_spec inv hpo hn hanc hmin hget
    by_cases hlt : e.2 < l.minSeqn
    · simp only [hlt, if_true, Option.bind_none]
      rw [hchain, h1 hlt]; rfl
    · simp only [hlt, if_false, Option.bind_some]
  · intro e he
    rw [iterEntries_eq inv.wf.sorted, List.mem_filterMap] at he
    obtain ⟨x, hx, hxe⟩ := he
    have hmem := (List.mem_filter.1 hx).1
    have hget := kvGet_of_mem inv.wf.sorted (show (x.1, x.2) ∈ po.index.values from hmem)
    obtain ⟨h1, h2⟩ := valueInner_spec inv hpo hn hanc hmin hget
    by_cases hlt : x.2 < l.minSeqn
    · simp [hlt] at hxe
    · simp only [hlt, if_false, Option.some.injEq] at hxe
      subst hxe
      rw [hchain]
      exact h2 (by omega)

end Nomt.Ovl
