import NomtModel.Api.KV
import NomtModel.Core.Complete
/-!
Executable model of the public API of `nomt/src/lib.rs` + `overlay.rs` at the level the properties
C01, C02, C05, C09–C12 speak about: committed key-value list, root = `nodeAt`, rollback log of reverse
deltas bounded by `maxLog`, overlays (tree of frozen changesets with liveness / committed flags),
sessions (a validated chain of overlays) and finished sessions (changesets).

This is the *specification-level* state machine: a rejected or deferred commit returns the state
unchanged by construction of the `if`s below, and the theorems in `Props/C09,C11,C12` are about these
functions.  The correspondence run drives the real `Nomt` through the same operation lines.
-/
namespace Nomt.Api
open Nomt
variable {Node VH : Type} [DecidableEq Node] [DecidableEq VH]

abbrev Writes (VH : Type) := List (Key × Option VH)

structure Ov (Node VH : Type) where
  id : Nat
  parent : Option Nat          -- overlay id of the parent (the first element of the chain it was built on)
  ancestors : List Nat         -- by recency: parent, grand-parent, …  (`OverlayInner::ancestor_data`)
  changes : Writes VH
  prevRoot : Node
  root : Node
  delta : Writes VH            -- priors of the written keys (rollback delta)
  committed : Bool := false
  held : Bool := true          -- the user still owns the `Overlay` handle

structure Sess where
  id : Nat
  chain : List Nat             -- validated chain, child first
  guard : Bool := true         -- holds the global read guard

structure Fin (Node VH : Type) where
  id : Nat
  chain : List Nat
  writes : Writes VH
  prevRoot : Node
  root : Node
  delta : Writes VH

structure St (Node VH : Type) where
  kv : KVL VH := []
  root : Node
  log : List (Writes VH) := []     -- newest first
  maxLog : Nat := 100
  rollbackOn : Bool := true
  seqn : Nat := 0
  ovs : List (Ov Node VH) := []
  lastMarker : Option Nat := none
  sess : List Sess := []
  fins : List (Fin Node VH) := []

inductive Res where | ok | err | busy
deriving DecidableEq, Repr

variable (H : Hasher Node VH)

def rootOfKV (kv : KVL VH) : Node := nodeAt H 256 0 kv

def St.ov? (s : St Node VH) (id : Nat) : Option (Ov Node VH) := s.ovs.find? (·.id == id)

/-- is the `Data` of overlay `id` still alive (`Weak::upgrade` succeeds)?  The handle is held, or a live
session / finished session keeps a strong reference in its `LiveOverlay`. -/
def St.alive (s : St Node VH) (id : Nat) : Bool :=
  (match s.ov? id with | some o => o.held | none => false)
  || s.sess.any (fun x => x.chain.contains id)
  || s.fins.any (fun x => x.chain.contains id)

inductive ChainErr where | notAncestor | incomplete
deriving DecidableEq, Repr

/-- `LiveOverlay::new`: zip the supposed ancestors with the parent's actual ancestor list -/
def zipCheck (s : St Node VH) : List Nat → List Nat → Except ChainErr (List Nat)
  | sup :: sups, act :: acts =>
    if !s.alive act then .error .incomplete
    else if sup != act then .error .notAncestor
    else match zipCheck s sups acts with
      | .ok r => .ok (act :: r)
      | .error e => .error e
  | _, _ => .ok []

def newLive (s : St Node VH) (ids : List Nat) : Except ChainErr (List Nat) :=
  match ids with
  | [] => .ok []
  | p :: rest =>
    match s.ov? p with
    | none => .error .notAncestor
    | some po =>
      match zipCheck s rest po.ancestors with
      | .error e => .error e
      | .ok used =>
        let lastId := (p :: used).getLast?.getD p
        let bad := match s.ov? lastId with
          | some lo => (match lo.parent with
              | some q => (match s.ov? q with | some qo => !qo.committed | none => true)
              | none => false)
          | none => true
        if bad then .error .incomplete else .ok (p :: used)

/-- the session's view of a key: first change along the chain (child first), else the committed value -/
def viewGet (s : St Node VH) : List Nat → Key → Option VH
  | [], k => kvGet s.kv k
  | o :: rest, k =>
    match s.ov? o with
    | some ov => (match wsLookup ov.changes k with
        | some w => w
        | none => viewGet s rest k)
    | none => viewGet s rest k

/-- the session's view as a key-value list: oldest overlay applied first -/
def viewKV (s : St Node VH) (chain : List Nat) : KVL VH :=
  chain.foldr (fun o acc => match s.ov? o with | some ov => kvApply acc ov.changes | none => acc) s.kv

def baseRoot (s : St Node VH) (chain : List Nat) : Node :=
  match chain with
  | [] => s.root
  | p :: _ => match s.ov? p with | some o => o.root | none => s.root

/-- `begin_session` -/
def begin (s : St Node VH) (sid : Nat) (ids : List Nat) : Except ChainErr (St Node VH) :=
  match newLive s ids with
  | .ok chain => .ok { s with sess := { id := sid, chain := chain } :: s.sess }
  | .error e => .error e

def dropSess (s : St Node VH) (sid : Nat) : St Node VH := { s with sess := s.sess.filter (·.id != sid) }

/-- `Session::finish` with the written keys of the batch -/
def finish (s : St Node VH) (sid fid : Nat) (ws : Writes VH) : Option (St Node VH × Node) :=
  match s.sess.find? (·.id == sid) with
  | none => none
  | some x =>
    let view := viewKV s x.chain
    let newRoot := rootOfKV H (kvApply view ws)
    let f : Fin Node VH := { id := fid, chain := x.chain, writes := ws, prevRoot := baseRoot s x.chain, root := newRoot,
                             delta := ws.map (fun kw => (kw.1, viewGet s x.chain kw.1)) }
    some ({ (dropSess s sid) with fins := f :: s.fins }, newRoot)

def pushLog (s : St Node VH) (d : Writes VH) : List (Writes VH) :=
  if s.rollbackOn then (d :: s.log).take s.maxLog else s.log

/-- apply a changeset to the committed state (the part of `commit` after the checks) -/
def applyCommit (s : St Node VH) (ws delta : Writes VH) (root : Node) (marker : Option Nat) : St Node VH :=
  { s with kv := kvApply s.kv ws, root := root, log := pushLog s delta, seqn := s.seqn + 1, lastMarker := marker }

def takeFin (s : St Node VH) (fid : Nat) : Option (Fin Node VH × St Node VH) :=
  match s.fins.find? (·.id == fid) with
  | some f => some (f, { s with fins := s.fins.filter (·.id != fid) })
  | none => none

/-- `FinishedSession::commit` (consumes the changeset either way) -/
def commitFin (s : St Node VH) (fid : Nat) : Res × St Node VH :=
  match takeFin s fid with
  | none => (.err, s)
  | some (f, s1) =>
    if s1.root ≠ f.prevRoot then (.err, s1)
    else (.ok, applyCommit s1 f.writes f.delta f.root none)

/-- `FinishedSession::try_commit_nonblocking`: hands the changeset back while any session is alive -/
def tryCommitFin (s : St Node VH) (fid : Nat) : Res × St Node VH :=
  if s.sess.any (·.guard) then (.busy, s) else commitFin s fid

/-- `FinishedSession::into_overlay` -/
def intoOverlay (s : St Node VH) (fid oid : Nat) : Option (St Node VH) :=
  match takeFin s fid with
  | none => none
  | some (f, s1) =>
    let o : Ov Node VH := { id := oid, parent := f.chain.head?, ancestors := f.chain, changes := f.writes,
                            prevRoot := f.prevRoot, root := f.root, delta := f.delta }
    some { s1 with ovs := o :: s1.ovs }

def setOv (s : St Node VH) (o : Ov Node VH) : St Node VH :=
  { s with ovs := s.ovs.map (fun x => if x.id == o.id then o else x) }

def dropOv (s : St Node VH) (oid : Nat) : St Node VH :=
  match s.ov? oid with
  | some o => setOv s { o with held := false }
  | none => s

/-- `Overlay::commit` (consumes the handle either way): parent must be the last committed overlay
(or there is no parent), base root must be current; a refused commit changes nothing else. -/
def commitOv (s : St Node VH) (oid : Nat) : Res × St Node VH :=
  match s.ov? oid with
  | none => (.err, s)
  | some o =>
    if !o.held then (.err, s) else
    let s1 := dropOv s oid
    let parentOk := match o.parent with
      | none => true
      | some p => s.lastMarker == some p
    if !parentOk then (.err, s1)
    else if s.root ≠ o.prevRoot then (.err, s1)
    else
      let s2 := setOv s1 { o with held := false, committed := true }
      (.ok, applyCommit s2 o.changes o.delta o.root (some oid))

def tryCommitOv (s : St Node VH) (oid : Nat) : Res × St Node VH :=
  match s.ov? oid with
  | none => (.err, s)
  | some o =>
    let parentOk := match o.parent with
      | none => true
      | some p => s.lastMarker == some p
    if !parentOk then (.err, dropOv s oid)
    else if s.sess.any (·.guard) then (.busy, s)
    else commitOv s oid

/-- `Rollback::truncate` traceback: older priors override newer ones -/
def traceback (popped : List (Writes VH)) : Writes VH :=
  -- `popped` newest first; the write list is applied left to right, later entries win
  popped.foldl (fun acc d => acc ++ d) []

/-- `Nomt::rollback` -/
def rollback (s : St Node VH) (n : Nat) : Res × St Node VH :=
  if n = 0 then (.ok, s)
  else if !s.rollbackOn then (.err, s)
  else if n > s.log.length then (.err, s)
  else
    let kv' := kvApply s.kv (traceback (s.log.take n))
    (.ok, { s with kv := kv', root := rootOfKV H kv', log := s.log.drop n, seqn := s.seqn + 1, lastMarker := none })

end Nomt.Api
