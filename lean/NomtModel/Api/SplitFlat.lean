import NomtModel.Api.SplitJoin
/-!
Round trip between a list of witnessed paths with their operations (`WPath`, the shape of the specification
`witnessSpec`) and the flat `Witness` of the code (`Assembled`: paths, reads / writes with a path index):
`groups_flat : (flat ws).groups = ws`.
-/
namespace Nomt.Split
open Nomt Nomt.Api
variable {Node VH : Type}

theorem flatReads_idx_ge : ∀ (off : Nat) (ws : List (WPath Node VH)), ∀ x ∈ flatReads off ws, off ≤ x.2.2
  | _, [], x, h => by cases h
  | off, w :: rest, x, h => by
    simp only [flatReads, List.mem_append, List.mem_map] at h
    rcases h with ⟨o, _, rfl⟩ | h
    · exact Nat.le_refl _
    · have := flatReads_idx_ge (off+1) rest x h; omega

theorem flatWrites_idx_ge : ∀ (off : Nat) (ws : List (WPath Node VH)), ∀ x ∈ flatWrites off ws, off ≤ x.2.2
  | _, [], x, h => by cases h
  | off, w :: rest, x, h => by
    simp only [flatWrites, List.mem_append, List.mem_map] at h
    rcases h with ⟨o, _, rfl⟩ | h
    · exact Nat.le_refl _
    · have := flatWrites_idx_ge (off+1) rest x h; omega

theorem filterMap_selIdx_none (i : Nat) : ∀ (l : List (Key × Option VH × Nat)), (∀ x ∈ l, x.2.2 ≠ i) →
    l.filterMap (selIdx i) = []
  | [], _ => rfl
  | x :: rest, h => by
    have hx := h x List.mem_cons_self
    simp [List.filterMap_cons, selIdx, hx, filterMap_selIdx_none i rest (fun y hy => h y (List.mem_cons_of_mem _ hy))]

theorem filterMap_selIdx_self (i : Nat) : ∀ (l : List (Key × Option VH)),
    (l.map (fun o => (o.1, o.2, i))).filterMap (selIdx i) = l
  | [] => rfl
  | x :: rest => by simp [List.filterMap_cons, selIdx, filterMap_selIdx_self i rest]

theorem unflat_flat : ∀ (ws : List (WPath Node VH)) (off : Nat) (pr pw : List (Key × Option VH × Nat)),
    (∀ x ∈ pr, x.2.2 < off) → (∀ x ∈ pw, x.2.2 < off) →
    unflat (pr ++ flatReads off ws) (pw ++ flatWrites off ws) off (ws.map (fun w => (w.path, w.proof))) = ws
  | [], _, _, _, _, _ => rfl
  | w :: rest, off, pr, pw, hr, hw => by
    simp only [List.map_cons, unflat, flatReads, flatWrites]
    have e1 : (pr ++ (w.reads.map (fun o => (o.1, o.2, off)) ++ flatReads (off+1) rest)).filterMap (selIdx off) = w.reads := by
      rw [List.filterMap_append, List.filterMap_append,
        filterMap_selIdx_none off pr (fun x hx => by have := hr x hx; omega),
        filterMap_selIdx_self,
        filterMap_selIdx_none off _ (fun x hx => by have := flatReads_idx_ge (off+1) rest x hx; omega)]
      simp
    have e2 : (pw ++ (w.writes.map (fun o => (o.1, o.2, off)) ++ flatWrites (off+1) rest)).filterMap (selIdx off) = w.writes := by
      rw [List.filterMap_append, List.filterMap_append,
        filterMap_selIdx_none off pw (fun x hx => by have := hw x hx; omega),
        filterMap_selIdx_self,
        filterMap_selIdx_none off _ (fun x hx => by have := flatWrites_idx_ge (off+1) rest x hx; omega)]
      simp
    rw [e1, e2]
    have ih := unflat_flat rest (off+1) (pr ++ w.reads.map (fun o => (o.1, o.2, off))) (pw ++ w.writes.map (fun o => (o.1, o.2, off)))
      (by
        intro x hx
        rcases List.mem_append.mp hx with h | h
        · have := hr x h; omega
        · simp only [List.mem_map] at h; obtain ⟨o, _, rfl⟩ := h; exact Nat.lt_succ_self _)
      (by
        intro x hx
        rcases List.mem_append.mp hx with h | h
        · have := hw x h; omega
        · simp only [List.mem_map] at h; obtain ⟨o, _, rfl⟩ := h; exact Nat.lt_succ_self _)
    simp only [List.append_assoc] at ih
    rw [ih]

/-- **round trip**: grouping the flat form of a list of witnessed paths by path index gives the list back -/
theorem groups_flat (ws : List (WPath Node VH)) : (flat ws).groups = ws := by
  have := unflat_flat ws 0 [] [] (by intro x hx; cases hx) (by intro x hx; cases hx)
  simpa [Assembled.groups, flat] using this

end Nomt.Split
