import NomtModel.Api.DeltaBuild
import NomtModel.Api.ExecRollback
/-!
The reverse-delta builder computes the session's view of every written key (C09): `startLoad` is the chain
lookup with fall-through to the store, `finalize` — whatever hints were given, in whatever order, hits or
misses — returns exactly `priorSpec view actuals`; applying it to the updated view gives back the view.
-/
namespace Nomt.Dlt
open Nomt Nomt.Ovl
variable {V : Type}

/-- `start_load` on a validated live overlay never reaches a panic site and returns the session's view -/
theorem startLoad_spec {h : Heap V} (hinv : HeapInv h) {l : Live} (ok : LiveOK h l) (store : KVL V) (k : Key) :
    startLoad h l store k = .ok (readThrough (chainData h l.chain) store k) := by
  unfold startLoad readThrough
  rw [value_spec hinv ok k]
  cases chainLookup (chainData h l.chain) k <;> rfl

theorem lookupAll_spec {load : Key → Outcome Unit (Option V)} {view : Key → Option V}
    (hl : ∀ k, load k = .ok (view k)) (m : PMap V) (hs : KSorted m) (ks : List Key) :
    ∃ m', lookupAll load m ks = .ok m' ∧ KSorted m' ∧
      ∀ k, kvGet m' k = if k ∈ ks then some (view k) else kvGet m k := by
  induction ks generalizing m with
  | nil => exact ⟨m, rfl, hs, fun k => by simp⟩
  | cons k0 ks ih =>
    obtain ⟨m', h1, h2, h3⟩ := ih (kvInsert m k0 (view k0)) (kvInsert_sorted hs _ _)
    refine ⟨m', ?_, h2, ?_⟩
    · simp only [lookupAll, hl]; exact h1
    · intro k
      rw [h3]
      by_cases hk : k ∈ ks
      · simp [hk]
      · by_cases he : k = k0
        · subst he; simp [kvGet_kvInsert_self]
        · simp [hk, he, kvGet_kvInsert_other m k0 k (view k0) he]

theorem extend_sorted (m : PMap V) (hs : KSorted m) (xs : List (Key × Option V)) : KSorted (extend m xs) := by
  induction xs generalizing m with
  | nil => exact hs
  | cons x xs ih => exact ih _ (kvInsert_sorted hs _ _)

theorem extend_get {view : Key → Option V} (m : PMap V) (xs : List (Key × Option V))
    (hx : ∀ kv ∈ xs, kv.2 = view kv.1) (k : Key) :
    kvGet (extend m xs) k = if k ∈ xs.map (·.1) then some (view k) else kvGet m k := by
  induction xs generalizing m with
  | nil => simp [extend]
  | cons x xs ih =>
    obtain ⟨k0, v0⟩ := x
    have hv : v0 = view k0 := hx (k0, v0) (List.mem_cons_self ..)
    show kvGet (extend (kvInsert m k0 v0) xs) k = _
    rw [ih _ (fun kv hkv => hx kv (List.mem_cons_of_mem _ hkv))]
    by_cases hk : k ∈ xs.map (·.1)
    · simp [hk]
    · by_cases he : k = k0
      · subst he; simp [kvGet_kvInsert_self, hv]
      · simp [hk, he, kvGet_kvInsert_other m k0 k v0 he]

theorem mem_keys_iff_get {A : Type} {m : KVL A} (hs : KSorted m) (k : Key) :
    k ∈ m.map (·.1) ↔ (kvGet m k).isSome = true := by
  constructor
  · intro h
    obtain ⟨⟨k', v⟩, hm, rfl⟩ := List.mem_map.1 h
    rw [kvGet_of_mem hs hm]; rfl
  · intro h
    cases hg : kvGet m k with
    | none => rw [hg] at h; cases h
    | some v => exact List.mem_map.2 ⟨(k, v), mem_of_kvGet hg, rfl⟩

theorem writtenKeys_append (a b : Actuals V) : writtenKeys (a ++ b) = writtenKeys a ++ writtenKeys b := by
  induction a with
  | nil => rfl
  | cons x xs ih =>
    obtain ⟨k, rw⟩ := x
    cases rw <;> simp [writtenKeys, ih]

theorem writesOf_keys (a : Actuals V) : (writesOf a).map (·.1) = writtenKeys a := by
  induction a with
  | nil => rfl
  | cons x xs ih =>
    obtain ⟨k, rw⟩ := x
    cases rw <;> simp [writtenKeys, writesOf, ih]

theorem writtenKeys_sublist (a : Actuals V) : (writtenKeys a).Sublist (a.map (·.1)) := by
  induction a with
  | nil => exact List.Sublist.slnil
  | cons x xs ih =>
    obtain ⟨k, rw⟩ := x
    cases rw with
    | read v => exact List.Sublist.cons _ ih
    | write v => exact List.Sublist.cons_cons _ ih
    | rtw p n => exact List.Sublist.cons_cons _ ih

/-- invariant of the loop of `finalize` -/
structure FinInv (view : Key → Option V) (st : FinSt V) (done : Actuals V) : Prop where
  ts : KSorted st.tentative
  fs : KSorted st.final
  tv : ∀ k v, kvGet st.tentative k = some v → v = view k
  fv : ∀ k v, kvGet st.final k = some v → v = view k
  keys : ∀ k, ((kvGet st.final k).isSome = true ∨ k ∈ st.lookups) ↔ k ∈ writtenKeys done

theorem finStep_inv {view : Key → Option V} {st : FinSt V} {done : Actuals V} (hi : FinInv view st done)
    (x : Key × RW V) (hr : ∀ p n, x.2 = RW.rtw p n → p = view x.1) :
    FinInv view (finStep st x) (done ++ [x]) := by
  obtain ⟨k, rw⟩ := x
  cases rw with
  | read v =>
    refine ⟨hi.ts, hi.fs, hi.tv, hi.fv, fun k' => ?_⟩
    rw [writtenKeys_append]
    simpa [writtenKeys, finStep] using hi.keys k'
  | write v =>
    simp only [finStep]
    cases hg : kvGet st.tentative k with
    | some pv =>
      simp only
      refine ⟨kvErase_sorted hi.ts k, kvInsert_sorted hi.fs k pv, ?_, ?_, ?_⟩
      · intro k' v' h'
        by_cases he : k' = k
        · subst he; rw [kvGet_kvErase_self hi.ts] at h'; cases h'
        · rw [kvGet_kvErase_other _ _ _ he] at h'; exact hi.tv k' v' h'
      · intro k' v' h'
        by_cases he : k' = k
        · subst he
          rw [kvGet_kvInsert_self] at h'
          cases h'
          exact hi.tv _ _ hg
        · rw [kvGet_kvInsert_other _ _ _ _ he] at h'; exact hi.fv k' v' h'
      · intro k'
        rw [writtenKeys_append]
        by_cases he : k' = k
        · subst he; simp [writtenKeys, kvGet_kvInsert_self]
        · rw [kvGet_kvInsert_other _ _ _ _ he]
          have := hi.keys k'
          simp [writtenKeys, he, this]
    | none =>
      simp only
      refine ⟨hi.ts, hi.fs, hi.tv, hi.fv, fun k' => ?_⟩
      rw [writtenKeys_append]
      have := hi.keys k'
      simp only [writtenKeys, List.mem_append, List.mem_singleton, ← this]
      constructor
      · rintro (h | h | h)
        · exact Or.inl (Or.inl h)
        · exact Or.inl (Or.inr h)
        · exact Or.inr h
      · rintro ((h | h) | h)
        · exact Or.inl h
        · exact Or.inr (Or.inl h)
        · exact Or.inr (Or.inr h)
  | rtw p n =>
    have hp : p = view k := hr p n rfl
    simp only [finStep]
    refine ⟨hi.ts, kvInsert_sorted hi.fs k p, hi.tv, ?_, ?_⟩
    · intro k' v' h'
      by_cases he : k' = k
      · subst he
        rw [kvGet_kvInsert_self] at h'
        cases h'; exact hp
      · rw [kvGet_kvInsert_other _ _ _ _ he] at h'; exact hi.fv k' v' h'
    · intro k'
      rw [writtenKeys_append]
      by_cases he : k' = k
      · subst he; simp [writtenKeys, kvGet_kvInsert_self]
      · rw [kvGet_kvInsert_other _ _ _ _ he]
        have := hi.keys k'
        simp [writtenKeys, he, this]

theorem foldl_finInv {view : Key → Option V} (xs : Actuals V) (hr : RtwTruthful view xs) (st : FinSt V)
    (done : Actuals V) (hi : FinInv view st done) : FinInv view (xs.foldl finStep st) (done ++ xs) := by
  induction xs generalizing st done with
  | nil => simpa using hi
  | cons x xs ih =>
    have hstep := finStep_inv hi x (fun p n hx => hr x.1 p n (by
      have : x = (x.1, RW.rtw p n) := by rw [← hx]
      rw [← this]; exact List.mem_cons_self ..))
    have := ih (fun k p n hm => hr k p n (List.mem_cons_of_mem _ hm)) _ _ hstep
    simpa [List.append_assoc] using this

/-- **what `finalize` returns, key by key**: for ANY list of hints and ANY actuals (sorted or not), provided
the loader answers the view and `ReadThenWrite` priors are what was read, the delta holds the view's value of
exactly the written keys. -/
theorem finalize_get {load : Key → Outcome Unit (Option V)} {view : Key → Option V}
    (hl : ∀ k, load k = .ok (view k)) (hints : List Key) (a : Actuals V) (hr : RtwTruthful view a) :
    ∃ d, finalize load hints a = .ok d ∧ KSorted d ∧
      ∀ k, kvGet d k = if k ∈ writtenKeys a then some (view k) else none := by
  obtain ⟨t, ht1, ht2, ht3⟩ := lookupAll_spec hl [] KSorted.nil hints
  have hi0 : FinInv view { tentative := t, final := [], lookups := [] } [] := by
    refine ⟨ht2, KSorted.nil, ?_, ?_, ?_⟩
    · intro k v hk
      rw [ht3] at hk
      by_cases hm : k ∈ hints
      · rw [if_pos hm] at hk; exact (Option.some.inj hk).symm
      · rw [if_neg hm] at hk; cases hk
    · intro k v hk; cases hk
    · intro k; simp [kvGet, writtenKeys]
  have hi := foldl_finInv a hr _ _ hi0
  rw [List.nil_append] at hi
  generalize hst : a.foldl finStep { tentative := t, final := [], lookups := [] } = st at hi
  obtain ⟨f, hf1, hf2, hf3⟩ := lookupAll_spec hl [] KSorted.nil st.lookups
  refine ⟨extend st.final f, ?_, extend_sorted _ hi.fs _, ?_⟩
  · unfold finalize
    rw [ht1]
    simp only [hst, hf1]
  · intro k
    have hfv : ∀ kv ∈ f, kv.2 = view kv.1 := by
      intro kv hkv
      have := kvGet_of_mem hf2 (k := kv.1) (v := kv.2) hkv
      rw [hf3] at this
      by_cases hm : kv.1 ∈ st.lookups
      · rw [if_pos hm] at this; exact (Option.some.inj this).symm
      · rw [if_neg hm] at this; cases this
    rw [extend_get _ _ hfv]
    have hmem : k ∈ f.map (·.1) ↔ k ∈ st.lookups := by
      rw [mem_keys_iff_get hf2, hf3]
      by_cases hm : k ∈ st.lookups
      · simp [hm]
      · simp [hm, kvGet]
    have hkeys := hi.keys k
    by_cases hm : k ∈ st.lookups
    · rw [if_pos (hmem.2 hm), if_pos (hkeys.1 (Or.inr hm))]
    · rw [if_neg (fun h => hm (hmem.1 h))]
      cases hg : kvGet st.final k with
      | none =>
        have : k ∉ writtenKeys a := by
          intro hw
          rcases hkeys.2 hw with h | h
          · rw [hg] at h; cases h
          · exact hm h
        rw [if_neg this]
      | some v =>
        have hw : k ∈ writtenKeys a := hkeys.1 (Or.inl (by rw [hg]; rfl))
        rw [if_pos hw, hi.fv k v hg]

theorem kvGet_map_view (view : Key → Option V) (ks : List Key) (k : Key) :
    kvGet (ks.map (fun k => (k, view k))) k = if k ∈ ks then some (view k) else none := by
  induction ks with
  | nil => rfl
  | cons k0 ks ih =>
    simp only [List.map_cons, kvGet]
    by_cases he : k0 = k
    · subst he; simp
    · have hb : (k0 == k) = false := by simpa using he
      have : k ≠ k0 := fun e => he e.symm
      simp [hb, ih, this]

theorem priorSpec_sorted (view : Key → Option V) {a : Actuals V} (hs : ASorted a) : KSorted (priorSpec view a) := by
  unfold priorSpec KSorted
  rw [List.pairwise_map]
  have h1 : (a.map (·.1)).Pairwise (fun x y => bitsLt x y = true) := by
    rw [List.pairwise_map]; exact hs
  exact h1.sublist (writtenKeys_sublist a)

theorem priorSpec_get (view : Key → Option V) (a : Actuals V) (k : Key) :
    kvGet (priorSpec view a) k = if k ∈ writtenKeys a then some (view k) else none :=
  kvGet_map_view view (writtenKeys a) k

/-- **`finalize` = specification** (list equality) for strictly ascending actuals -/
theorem finalize_eq_priorSpec {load : Key → Outcome Unit (Option V)} {view : Key → Option V}
    (hl : ∀ k, load k = .ok (view k)) (hints : List Key) (a : Actuals V) (hr : RtwTruthful view a)
    (hs : ASorted a) : finalize load hints a = .ok (priorSpec view a) := by
  obtain ⟨d, h1, h2, h3⟩ := finalize_get hl hints a hr
  rw [h1]
  congr 1
  apply kv_ext h2 (priorSpec_sorted view hs)
  intro k
  rw [h3, priorSpec_get]

section Inverse
variable [DecidableEq V]

theorem priorSpec_eq_deltaOf (m : KVL V) (a : Actuals V) :
    priorSpec (kvGet m) a = Api.deltaOf m (writesOf a) := by
  unfold priorSpec Api.deltaOf
  rw [← writesOf_keys, List.map_map]
  rfl

/-- applying the specified priors to the updated view gives back the view (list equality) -/
theorem priorSpec_inverts {m : KVL V} (hs : KSorted m) (a : Actuals V) :
    kvApply (kvApply m (writesOf a)) (priorSpec (kvGet m) a) = m := by
  rw [priorSpec_eq_deltaOf]
  exact Api.kvApply_deltaOf hs (writesOf a)

end Inverse

/-- the session's view as a function is reading the list view -/
theorem readThrough_eq_view {store : KVL V} (hs : KSorted store) (chain : List (Writes V))
    (hd : ∀ ws ∈ chain, WDistinct ws) :
    (fun k => readThrough chain store k) = kvGet (applyChain store chain) := by
  funext k
  exact readThrough_applyChain hs chain hd k

end Nomt.Dlt
