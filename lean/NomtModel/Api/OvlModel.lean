import NomtModel.Api.KVLemmas
import NomtModel.Core.Outcome
/-!
# Mirror of `nomt/src/overlay.rs` (C11 / C05): `Index`, `LiveOverlay::new / value / value_iter / finish`

The Rust data structure, as mirrored here:

* every frozen `Overlay` has a sequence number `seqn` (= parent's + 1, 0 without parent), its own change map
  `Data::values` (a `HashMap`: here an association list read with `wsLookup`, first entry wins), the weak
  list `ancestor_data` of the `Data` of the ancestors that were *live* when it was created (youngest first,
  here: overlay ids) and an `Index`;
* `Index.values : OrdMap<KeyPath, u64>` maps a key to the sequence number of the youngest overlay of the
  creation chain that changed it (here a strictly sorted association list `KVL Nat`, `kvGet / kvInsert /
  kvErase` = `get / insert / remove`), `Index.values_by_seqn : Vector<(u64, KeyPath)>` is the insertion log,
  ascending by sequence number (front = head of the list);
* a `LiveOverlay` (what a session holds) is `parent`, the strong list `ancestor_data` of the `n` validated
  further ancestors and `min_seqn = parent.seqn − n`: the entry `key ↦ s` of the parent's index means
  "the change is held by the ancestor at distance `parent.seqn − s` from the parent", and it is *stale*
  (skipped) when `s < min_seqn`.

`Index.pages` / `pages_by_seqn` / `LiveOverlay::page` are the same code over `PageId` (a `HashMap` instead
of an `OrdMap`, only `get` is used): the driver runs this same model a second time on the encoded page ids.

Every panic site of the Rust (`u64` underflow of `min_seqn`, the slice index in `value_inner`, the two
`unwrap`s "index indicates that data exists") is an explicit `Outcome.panic`.
-/
namespace Nomt.Ovl
open Nomt

/-- `ValueChange`: `none` = `Delete`, `some v` = `Insert v` / `InsertOverflow v _` -/
abbrev Writes (V : Type) := List (Key × Option V)

/-- `overlay::Index` (value half) -/
structure Index where
  values : KVL Nat := []
  bySeqn : List (Nat × Key) := []
deriving Repr, DecidableEq

/-- the `loop` of `Index::prune_below` over `values_by_seqn` / `values` -/
def pruneLoop (min : Nat) : List (Nat × Key) → KVL Nat → List (Nat × Key) × KVL Nat
  | [], vals => ([], vals)
  | (s, k) :: rest, vals =>
    if s ≥ min then ((s, k) :: rest, vals)            -- `push_front` the popped entry back; `break`
    else
      let got := kvGet vals k                         -- `self.values.remove(&key)` returns the old entry
      let vals1 := kvErase vals k
      let vals2 := match got with
        | some g => if g ≠ s ∧ g ≥ min then kvInsert vals1 k g else vals1   -- `.filter(..)` ⇒ reinsert
        | none => vals1
      pruneLoop min rest vals2

/-- `Index::prune_below` -/
def Index.pruneBelow (idx : Index) (min : Nat) : Index :=
  let r := pruneLoop min idx.bySeqn idx.values
  { values := r.2, bySeqn := r.1 }

/-- `Index::insert_values` -/
def Index.insertValues (idx : Index) (seqn : Nat) (keys : List Key) : Index :=
  keys.foldl (fun idx k => { values := kvInsert idx.values k seqn, bySeqn := idx.bySeqn ++ [(seqn, k)] }) idx

/-- specification of `prune_below`: exactly the entries with `seqn ≥ min` survive -/
def Index.pruneSpec (idx : Index) (min : Nat) : Index :=
  { values := idx.values.filter (fun e => decide (min ≤ e.2)), bySeqn := idx.bySeqn.filter (fun e => decide (min ≤ e.1)) }

/-- a frozen overlay (`OverlayInner` + its `Data`) -/
structure Ov (V : Type) where
  seqn : Nat
  index : Index
  values : Writes V            -- `Data::values`
  parent : Option Nat          -- whose status `Data::parent_status` is
  anc : List Nat               -- `OverlayInner::ancestor_data`, youngest first
deriving Repr

/-- the overlays created so far; the id of an overlay is its position -/
abbrev Heap (V : Type) := List (Ov V)

/-- `LiveOverlay` -/
structure Live where
  parent : Option Nat := none
  anc : List Nat := []         -- `ancestor_data` (strong references)
  minSeqn : Nat := 0
deriving Repr, DecidableEq

inductive NewErr where | notAncestor | incomplete
deriving Repr, DecidableEq

/-- the `for (supposed, actual) in live_ancestors.zip(parent.ancestor_data)` loop of `LiveOverlay::new`;
`alive a` = `Weak::upgrade` of the `Data` of `a` succeeds -/
def zipCheck (alive : Nat → Bool) : List Nat → List Nat → Except NewErr (List Nat)
  | sup :: sups, act :: acts =>
    if !alive act then .error .incomplete
    else if sup != act then .error .notAncestor
    else match zipCheck alive sups acts with
      | .ok r => .ok (act :: r)
      | .error e => .error e
  | _, _ => .ok []

/-- `ancestor_data.last().unwrap_or(&parent.data).parent_status`: the overlay whose status decides whether
the chain is complete -/
def lastParent {V : Type} (h : Heap V) (po : Ov V) (used : List Nat) : Option Nat :=
  match used.getLast? with
  | none => po.parent
  | some l => (h[l]?).bind (·.parent)

/-- `.map_or(false, |status| !status.is_committed())` -/
def chainIncomplete (committed : Nat → Bool) : Option Nat → Bool
  | some q => !committed q
  | none => false

/-- `LiveOverlay::new`; `committed q` = `status.is_committed()` of overlay `q` -/
def Live.new {V : Type} (h : Heap V) (alive committed : Nat → Bool) (sup : List Nat) : Outcome NewErr Live :=
  match sup with
  | [] => .ok {}
  | p :: rest =>
    match h[p]? with
    | none => .panic "no such overlay"
    | some po =>
      match zipCheck alive rest po.anc with
      | .error e => .err e
      | .ok used =>
        if chainIncomplete committed (lastParent h po used) then .err .incomplete
        else if po.seqn < used.length then .panic "min_seqn: attempt to subtract with overflow"
        else .ok { parent := some p, anc := used, minSeqn := po.seqn - used.length }

/-- `LiveOverlay::value_inner` (the parent's overlay `po` is passed in) -/
def valueInner {V : Type} (h : Heap V) (l : Live) (po : Ov V) (k : Key) (diff : Nat) : Outcome Unit (Option V) :=
  if diff = l.anc.length then
    match wsLookup po.values k with
    | some c => .ok c
    | none => .panic "value_inner: parent data has no entry (unwrap)"
  else if l.anc.length < diff + 1 then .panic "value_inner: attempt to subtract with overflow"
  else
    match l.anc[l.anc.length - diff - 1]? with
    | none => .panic "value_inner: index out of bounds"
    | some a =>
      match h[a]? with
      | none => .panic "no such overlay"
      | some ao =>
        match wsLookup ao.values k with
        | some c => .ok c
        | none => .panic "value_inner: ancestor data has no entry (unwrap)"

/-- `LiveOverlay::value` -/
def Live.value {V : Type} (h : Heap V) (l : Live) (k : Key) : Outcome Unit (Option (Option V)) :=
  match l.parent with
  | none => .ok none
  | some p =>
    match h[p]? with
    | none => .panic "no such overlay"
    | some po =>
      match kvGet po.index.values k with
      | none => .ok none
      | some s =>
        if s < l.minSeqn then .ok none                    -- `checked_sub` fails: stale entry
        else match valueInner h l po k (s - l.minSeqn) with
          | .ok c => .ok (some c)
          | .err e => .err e
          | .panic m => .panic m

/-- the items of `value_iter` after `range(start..)`, `take_while(end > k)` and `filter_map(checked_sub)`:
`(key, seqn_diff)` -/
def iterEntries (vals : KVL Nat) (minSeqn : Nat) (start : Key) (stop : Option Key) : List (Key × Nat) :=
  let rng := vals.dropWhile (fun e => bitsLt e.1 start)
  let tw := rng.takeWhile (fun e => match stop with | none => true | some e' => bitsLt e.1 e')
  tw.filterMap (fun e => if e.2 < minSeqn then none else some (e.1, e.2 - minSeqn))

/-- the final `.map(|(k, seqn_diff)| (*k, self.value_inner(k, seqn_diff)))`, all items forced -/
def mapInner {V : Type} (h : Heap V) (l : Live) (po : Ov V) : List (Key × Nat) → Outcome Unit (Writes V)
  | [] => .ok []
  | (k, d) :: rest =>
    match valueInner h l po k d with
    | .ok c => (match mapInner h l po rest with
        | .ok r => .ok ((k, c) :: r)
        | .err e => .err e
        | .panic m => .panic m)
    | .err e => .err e
    | .panic m => .panic m

/-- `LiveOverlay::value_iter(start, end)`, collected -/
def Live.valueIter {V : Type} (h : Heap V) (l : Live) (start : Key) (stop : Option Key) : Outcome Unit (Writes V) :=
  match l.parent with
  | none => .ok []
  | some p =>
    match h[p]? with
    | none => .panic "no such overlay"
    | some po => mapInner h l po (iterEntries po.index.values l.minSeqn start stop)

/-- `LiveOverlay::finish`: the new frozen overlay (its id will be `h.length`).  `prune` is always `true` in
the Rust; the flag exists to state that pruning is invisible (`T11_prune_invisible`). -/
def Live.finishWith {V : Type} (prune : Bool) (h : Heap V) (l : Live) (changes : Writes V) : Outcome Unit (Ov V) :=
  match l.parent with
  | none =>
    let idx : Index := {}
    let idx := if prune then idx.pruneBelow l.minSeqn else idx
    .ok { seqn := 0, index := idx.insertValues 0 (changes.map (·.1)), values := changes, parent := none, anc := [] }
  | some p =>
    match h[p]? with
    | none => .panic "no such overlay"
    | some po =>
      let newSeqn := po.seqn + 1
      let idx := if prune then po.index.pruneBelow l.minSeqn else po.index
      .ok { seqn := newSeqn, index := idx.insertValues newSeqn (changes.map (·.1)), values := changes,
            parent := some p, anc := p :: l.anc }

def Live.finish {V : Type} (h : Heap V) (l : Live) (changes : Writes V) : Outcome Unit (Ov V) :=
  Live.finishWith true h l changes

/-! ### specification -/

/-- youngest change wins: the first change along a chain of change maps (youngest first) -/
def chainLookup {V : Type} : List (Writes V) → Key → Option (Option V)
  | [], _ => none
  | ws :: rest, k =>
    match wsLookup ws k with
    | some c => some c
    | none => chainLookup rest k

/-- position of the first change map of the chain that holds the key -/
def firstIdx {V : Type} : List (Writes V) → Key → Option Nat
  | [], _ => none
  | ws :: rest, k =>
    match wsLookup ws k with
    | some _ => some 0
    | none => (firstIdx rest k).map (· + 1)

/-- the change maps of the overlays with the given ids -/
def chainData {V : Type} (h : Heap V) (ids : List Nat) : List (Writes V) :=
  ids.map (fun i => match h[i]? with | some o => o.values | none => [])

/-- the chain a live overlay reads: parent, then the validated ancestors -/
def Live.chain (l : Live) : List Nat :=
  match l.parent with
  | none => []
  | some p => p :: l.anc

/-- half-open range test `start ≤ k < end` (`end = none`: unbounded) -/
def inRange (start : Key) (stop : Option Key) (k : Key) : Bool :=
  !bitsLt k start && (match stop with | none => true | some e => bitsLt k e)

end Nomt.Ovl
