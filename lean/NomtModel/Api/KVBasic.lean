import NomtModel.Api.KV
/-! First laws of the sequential key-value model (no sortedness needed). -/
namespace Nomt
variable {VH : Type}

theorem kvGet_kvInsert_self (m : KVL VH) (k : Key) (v : VH) : kvGet (kvInsert m k v) k = some v := by
  induction m with
  | nil => simp [kvInsert, kvGet]
  | cons x xs ih =>
    obtain ⟨k', v'⟩ := x
    unfold kvInsert
    by_cases h : (k' == k) = true
    · simp [h, kvGet]
    · simp only [h]
      by_cases h2 : bitsLt k k' = true
      · simp [h2, kvGet]
      · simp only [h2]
        simp only [Bool.false_eq_true, ↓reduceIte, kvGet, h]
        exact ih

theorem kvGet_kvInsert_other (m : KVL VH) (k k' : Key) (v : VH) (hne : k' ≠ k) :
    kvGet (kvInsert m k v) k' = kvGet m k' := by
  induction m with
  | nil =>
    have : (k == k') = false := by simpa using fun h => hne h.symm
    simp [kvInsert, kvGet, this]
  | cons x xs ih =>
    obtain ⟨k0, v0⟩ := x
    unfold kvInsert
    have hkk : (k == k') = false := by simpa using fun h => hne h.symm
    by_cases h : (k0 == k) = true
    · have hk0 : k0 = k := by simpa using h
      subst hk0
      simp [h, kvGet, hkk]
    · simp only [h]
      by_cases h2 : bitsLt k k0 = true
      · simp [h2, kvGet, hkk]
      · simp only [h2, Bool.false_eq_true, ↓reduceIte, kvGet]
        by_cases h3 : (k0 == k') = true
        · simp [h3]
        · simp [h3, ih]

end Nomt
