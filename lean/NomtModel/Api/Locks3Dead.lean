import NomtModel.Api.Locks3Inv
/-!
Deadlock freedom of the three-resource LTS under the code's order (`Variant.code`): `RtInv` is an invariant; with it the
writer's wait for the read-transaction counter always points at a thread that can move (rank 0), so the rank argument of
`Locks2Dead` extends: every wait edge lowers `rank3`.
-/
namespace Nomt.Locks3
open Nomt.Locks2
variable {C R W D : Type} [DecidableEq R] (ops : DbOps C R W D)

theorem mem_rtOnStep (rt : List (Tid × Nat)) (t : Tid) (i : Instr R W D) (u : Tid) (sd : Nat)
    (h : (u, sd) ∈ rtOnStep rt t i) : (u, sd) ∈ rt ∧ (u ≠ t ∨ isUnlockOf sd i = false) := by
  cases i with
  | aReadUnlock sid =>
    simp only [rtOnStep] at h
    have := (mem_dropRt rt t sid u sd).1 h
    refine ⟨this.1, ?_⟩
    by_cases hut : u = t
    · right
      have hne : ¬ sd = sid := fun e => this.2 ⟨hut, e⟩
      simp only [isUnlockOf, beq_eq_false_iff_ne, ne_eq]
      exact fun e => hne e.symm
    · exact Or.inl hut
  | _ => exact ⟨h, Or.inr rfl⟩

theorem hasReader_call (s : S C R W D) (t : Tid) (c : Call R W D) (u : Tid) (sid : Nat) :
    hasReader (next ops s (.call t c)).1 u sid = hasReader s u sid := by
  simp only [next]; split <;> rfl

theorem hasReader_spur (s : S C R W D) (t v : Tid) (u : Tid) (sid : Nat) :
    hasReader (next ops s (.spur t v)).1 u sid = hasReader s u sid := by
  simp only [next]; split
  · split
    · rw [hasReader_abort]
    · rfl
  · rfl

/-- **`RtInv` is preserved by every event of the code-order LTS** -/
theorem rtInv_next3 (s : S3 C R W D) (e : Event3 R W D) (h : RtInv s) : RtInv (next3 ops .code s e).1 := by
  cases e with
  | rt t => exact rtInv_rtStep s t h
  | l2 e2 =>
    cases e2 with
    | call t c =>
      simp only [next3]
      split
      · exact h
      · rename_i hpe
        have hpe : s.pend t = [] := by simpa using hpe
        split
        · refine ⟨?_, ?_⟩
          · intro u sd hm
            simp only [hasReader_call]
            rcases h.held u sd hm with h1 | h1
            · exact Or.inl h1
            · by_cases hut : u = t
              · subst hut; rw [hpe] at h1; cases h1
              · right; simp only [upd_other _ _ _ _ hut]; exact h1
          · intro u
            by_cases hut : u = t
            · subst hut; simp only [upd_same]; exact pendOk_rtAtCall_code _ c
            · simp only [upd_other _ _ _ _ hut]
              exact pendOk_mono _ _ (fun sid hx => by rw [hasReader_call]; exact hx) _ (h.pend u)
        · exact h
    | step t =>
      simp only [next3]
      split
      · exact h
      · rename_i hpe
        have hpe : s.pend t = [] := by simpa using hpe
        split
        · exact h
        · rename_i i rest hp
          split
          · exact h
          · split
            · exact h
            · rename_i hnb
              have hex : next ops s.l2 (.step t) = exec ops s.l2 t i rest := by simp only [next, hp]
              rw [hex] at hnb ⊢
              refine ⟨?_, ?_⟩
              · intro u sd hm
                obtain ⟨hm1, hm2⟩ := mem_rtOnStep _ _ _ _ _ hm
                rcases h.held u sd hm1 with h1 | h1
                · exact Or.inl (hasReader_exec ops s.l2 t i rest u sd h1 hm2)
                · by_cases hut : u = t
                  · subst hut; rw [hpe] at h1; cases h1
                  · right; simp only [upd_other _ _ _ _ hut]; exact h1
              · intro u
                by_cases hut : u = t
                · subst hut; simp only [upd_same]; exact pendOk_rtAfter_code ops s.l2 u i rest hnb
                · simp only [upd_other _ _ _ _ hut]
                  exact pendOk_mono _ _
                    (fun sid hx => hasReader_exec ops s.l2 t i rest u sid hx (Or.inl hut)) _ (h.pend u)
    | spur t v =>
      simp only [next3]
      refine ⟨?_, ?_⟩
      · intro u sd hm; simp only [hasReader_spur]; exact h.held u sd hm
      · intro u
        exact pendOk_mono _ _ (fun sid hx => by rw [hasReader_spur]; exact hx) _ (h.pend u)

theorem rtInv_init (db : Db C R D) : RtInv (init3 db : S3 C R W D) :=
  ⟨fun u sid hm => by simp [init3] at hm, fun t => by simp [init3, pendOk]⟩

/-- the `Locks2` component makes a `Locks2` move or none -/
theorem next3_l2 (v : Variant) (s : S3 C R W D) (e : Event3 R W D) :
    (next3 ops v s e).1.l2 = s.l2 ∨ ∃ e2, e = .l2 e2 ∧ (next3 ops v s e).1.l2 = (next ops s.l2 e2).1 := by
  cases e with
  | rt t => left; simp only [next3, rtStep]; split <;> rfl
  | l2 e2 =>
    cases e2 with
    | call t c =>
      simp only [next3]
      split
      · exact Or.inl rfl
      · split
        · exact Or.inr ⟨_, rfl, rfl⟩
        · exact Or.inl rfl
    | step t =>
      simp only [next3]
      split
      · exact Or.inl rfl
      · split
        · exact Or.inl rfl
        · split
          · exact Or.inl rfl
          · split
            · exact Or.inl rfl
            · exact Or.inr ⟨_, rfl, rfl⟩
    | spur t u => exact Or.inr ⟨_, rfl, rfl⟩

theorem inv_next3 (v : Variant) (s : S3 C R W D) (e : Event3 R W D) (ho : okEvent s e) (h1 : Inv1 s.l2)
    (hd : Disc s.l2) : Inv1 (next3 ops v s e).1.l2 ∧ Disc (next3 ops v s e).1.l2 := by
  rcases next3_l2 ops v s e with h | ⟨e2, rfl, h⟩
  · rw [h]; exact ⟨h1, hd⟩
  · rw [h]; exact ⟨inv1_next ops s.l2 e2 ho.1 h1, disc_next ops s.l2 e2 h1 hd ho.2⟩

theorem good3_run (evs : List (Event3 R W D)) (s : S3 C R W D) (hg : Good3 ops .code s evs) (h1 : Inv1 s.l2)
    (hd : Disc s.l2) (hr : RtInv s) :
    Inv1 (run3 ops .code s evs).l2 ∧ Disc (run3 ops .code s evs).l2 ∧ RtInv (run3 ops .code s evs) := by
  induction evs generalizing s with
  | nil => exact ⟨h1, hd, hr⟩
  | cons e rest ih =>
    obtain ⟨ho, hrest⟩ := hg
    obtain ⟨h1', hd'⟩ := inv_next3 ops .code s e ho h1 hd
    exact ih _ hrest h1' hd' (rtInv_next3 ops s e hr)

/-! ### the rank argument -/

theorem waits_blocked (s : S C R W D) (t u : Tid) (hw : WaitsFor s t u) :
    blocked s t = true ∧ atStore (s.thr t).prog = false := by
  unfold WaitsFor at hw
  unfold blocked
  cases hp : (s.thr t).prog with
  | nil => rw [hp] at hw; cases hw
  | cons i rest =>
    rw [hp] at hw
    cases i <;> simp only at hw <;> (try (cases hw; done)) <;> simp [atStore, hw]
    obtain ⟨x, hx, _⟩ := hw
    exact List.ne_nil_of_mem hx

theorem own_of_atStore (hm : Bool) (ws : WS) (prog : List (Instr R W D)) (h : wf hm ws prog = true)
    (hs : atStore prog = true) : ws = .own := by
  cases prog with
  | nil => simp [atStore] at hs
  | cons i rest =>
    cases i <;> simp [atStore] at hs <;> cases ws <;> simp [wf] at h ⊢

theorem hasReader_holds (s : S C R W D) (u : Tid) (sid : Nat) (h : hasReader s u sid = true) :
    holdsSession s u = true := by
  simp only [hasReader, holdsSession, List.any_eq_true, Bool.and_eq_true] at h ⊢
  obtain ⟨x, hx, hxu, _⟩ := h
  exact ⟨x, hx, hxu⟩

/-- the writer inside `store.commit` can only be waiting for a thread with a queued `rtDrop` -/
theorem store_edge_target (s : S3 C R W D) (h1 : Inv1 s.l2) (hr : RtInv s) (t u : Tid) (sid : Nat)
    (hst : atStore (s.l2.thr t).prog = true) (hm : (u, sid) ∈ s.rt) : s.pend u ≠ [] := by
  have ht := h1.typed t
  have hown := own_of_atStore _ _ _ ht hst
  have hro : s.l2.readers = [] := h1.excl ((wsOf_own_iff s.l2 t).1 hown).2
  rcases hr.held u sid hm with h | h
  · simp [hasReader, hro] at h
  · exact List.ne_nil_of_mem h

theorem rank3_decreases (s : S3 C R W D) (h1 : Inv1 s.l2) (hd : Disc s.l2) (hr : RtInv s) (t u : Tid)
    (hb : blocked3 s t = true) (hw : WaitsFor3 s t u) : rank3 s u < rank3 s t := by
  obtain ⟨hpe, hw⟩ := hw
  rcases hw with hw | ⟨hst, sid, hm⟩
  · obtain ⟨hb2, hns⟩ := waits_blocked s.l2 t u hw
    have hlt := rank_decreases s.l2 h1 hd t u hb2 hw
    have hrt : rank3 s t = 2 * rank s.l2 t := by simp [rank3, hpe, hns]
    rw [hrt]
    unfold rank3
    split
    · omega
    · split <;> omega
  · have hu := store_edge_target s h1 hr t u sid hst hm
    have hne : s.rt ≠ [] := List.ne_nil_of_mem hm
    have hrt : rank3 s t = 1 := by simp [rank3, hpe, hst, hne]
    have hru : rank3 s u = 0 := by simp [rank3, hu]
    omega

theorem waitPath3_rank (s : S3 C R W D) (h1 : Inv1 s.l2) (hd : Disc s.l2) (hr : RtInv s) (t u : Tid)
    (hp : WaitPath3 s t u) : rank3 s u < rank3 s t := by
  induction hp with
  | one hb hw => exact rank3_decreases s h1 hd hr _ _ hb hw
  | cons hb hw _ ih => exact Nat.lt_trans ih (rank3_decreases s h1 hd hr _ _ hb hw)

theorem no_wait_cycle3 (s : S3 C R W D) (h1 : Inv1 s.l2) (hd : Disc s.l2) (hr : RtInv s) (t : Tid) :
    ¬ WaitPath3 s t t :=
  fun hp => Nat.lt_irrefl _ (waitPath3_rank s h1 hd hr t t hp)

theorem blocked3_waits (s : S3 C R W D) (t : Tid) (hb : blocked3 s t = true) : ∃ u, WaitsFor3 s t u := by
  simp only [blocked3, Bool.and_eq_true, Bool.or_eq_true, List.isEmpty_iff] at hb
  obtain ⟨hpe, hb⟩ := hb
  rcases hb with hb | ⟨hst, hne⟩
  · obtain ⟨u, hu⟩ := blocked_waits s.l2 t hb
    exact ⟨u, hpe, Or.inl hu⟩
  · cases hrt : s.rt with
    | nil => simp [hrt] at hne
    | cons x xs => exact ⟨x.1, hpe, Or.inr ⟨hst, x.2, by rw [hrt]; exact List.mem_cons_self⟩⟩

theorem blocked3_rank (s : S3 C R W D) (t : Tid) (hb : blocked3 s t = true) : 0 < rank3 s t := by
  simp only [blocked3, Bool.and_eq_true, Bool.or_eq_true, List.isEmpty_iff] at hb
  obtain ⟨hpe, hb⟩ := hb
  unfold rank3
  simp only [hpe, ne_eq, not_true_eq_false, if_false]
  split
  · omega
  · rcases hb with hb | ⟨hst, hne⟩
    · have := (blocked_iff_rank s.l2 t).1 hb; omega
    · rename_i hx; simp [hst, hne] at hx

theorem waits3_target_alive (s : S3 C R W D) (h1 : Inv1 s.l2) (hr : RtInv s) (t u : Tid) (hw : WaitsFor3 s t u) :
    s.pend u ≠ [] ∨ (s.l2.thr u).prog ≠ [] ∨ holdsSession s.l2 u = true := by
  obtain ⟨_, hw⟩ := hw
  rcases hw with hw | ⟨hst, sid, hm⟩
  · exact Or.inr (waits_target_alive s.l2 h1 t u hw)
  · exact Or.inl (store_edge_target s h1 hr t u sid hst hm)

/-- **deadlock freedom with the counter**: from a blocked thread, following wait edges one reaches a thread that can move -/
theorem progress3 (s : S3 C R W D) (h1 : Inv1 s.l2) (hd : Disc s.l2) (hr : RtInv s) :
    ∀ (n : Nat) (t : Tid), rank3 s t ≤ n → blocked3 s t = true → ∃ u, WaitPath3 s t u ∧ CanMove3 s u := by
  intro n
  induction n with
  | zero =>
    intro t hn hb
    have := blocked3_rank s t hb
    omega
  | succ n ih =>
    intro t hn hb
    obtain ⟨u, hw⟩ := blocked3_waits s t hb
    have hlt := rank3_decreases s h1 hd hr t u hb hw
    cases hbu : blocked3 s u with
    | false => exact ⟨u, .one hb hw, hbu, waits3_target_alive s h1 hr t u hw⟩
    | true =>
      obtain ⟨v, hpv, hv⟩ := ih u (by omega) hbu
      exact ⟨v, .cons hb hw hpv, hv⟩

/-- waiting is passive: a blocked thread's step leaves the state as it is -/
theorem blocked3_step (v : Variant) (s : S3 C R W D) (t : Tid) (hb : blocked3 s t = true) :
    next3 ops v s (.l2 (.step t)) = (s, .blocked) := by
  simp only [blocked3, Bool.and_eq_true, Bool.or_eq_true, List.isEmpty_iff] at hb
  obtain ⟨hpe, hb⟩ := hb
  simp only [next3, hpe, ne_eq, not_true_eq_false, if_false]
  cases hp : (s.l2.thr t).prog with
  | nil =>
    rcases hb with hb | ⟨hst, _⟩
    · simp [blocked, hp] at hb
    · simp [hp, atStore] at hst
  | cons i rest =>
    simp only
    rcases hb with hb | ⟨hst, hne⟩
    · split
      · rfl
      · rw [blocked_step ops s.l2 t hb]; simp
    · rw [hp] at hst
      have : s.rt.isEmpty = false := by simpa using hne
      simp [hst, this]

/-- moving is real: a queued rt micro-step always runs … -/
theorem rt_step_runs (v : Variant) (s : S3 C R W D) (t : Tid) (h : s.pend t ≠ []) :
    (next3 ops v s (.rt t)).2 = .ran ∧ ((next3 ops v s (.rt t)).1.pend t).length + 1 = (s.pend t).length := by
  simp only [next3, rtStep]
  cases hp : s.pend t with
  | nil => exact absurd hp h
  | cons a q => cases a <;> simp

/-- … and a thread inside a call that is not blocked (nothing queued) performs its lock micro-step -/
theorem unblocked3_step (v : Variant) (s : S3 C R W D) (t : Tid) (i : Instr R W D) (rest : List (Instr R W D))
    (hpe : s.pend t = []) (hp : (s.l2.thr t).prog = i :: rest) (hb : blocked3 s t = false) :
    (next3 ops v s (.l2 (.step t))).2 ≠ .blocked := by
  simp only [blocked3, hpe, List.isEmpty_nil, Bool.true_and, Bool.or_eq_false_iff] at hb
  obtain ⟨hb2, hst⟩ := hb
  have hne := unblocked_step ops s.l2 t i rest hp hb2
  rw [hp] at hst
  simp only [next3, hpe, ne_eq, not_true_eq_false, if_false, hp, hst]
  simp only [Bool.false_eq_true, if_false]
  split
  · rename_i h; exact absurd h hne
  · exact hne

end Nomt.Locks3
