import NomtModel.Api.Witness
import NomtModel.Api.KVLemmas
import NomtModel.Core.BitsLemmas
import NomtModel.Core.UpdateNoPanic
/-!
Combinatorics of the witness construction (`Api/Witness.lean`), independent of hashing:

* `insertKey` keeps a list strictly ascending and adds exactly the new entry (`insertKey_sorted`, `mem_insertKey`,
  `insAll_*` for the folds);
* `witnessWith.merge` is a merge (`mem_merge`, `merge_sorted`, `filterMap_merge_*`);
* `groupByTerminal` over items whose terminal paths are non-decreasing produces strictly ascending paths,
  each group carrying the proof of one of its keys, every operation under the path of its terminal, and the
  reads / writes of the groups concatenate to the reads / writes of the items (`AccInv`, `groupByTerminal_inv`).
-/
set_option linter.unusedSectionVars false
namespace Nomt.Api
open Nomt

/-! ### order helpers -/

/-- non-strict key order on entries -/
abbrev KeyLe {α : Type} (a b : Key × α) : Prop := bitsLt b.1 a.1 = false

theorem ble_trans {a b c : List Bool} (h1 : bitsLt b a = false) (h2 : bitsLt c b = false) : bitsLt c a = false := by
  cases h : bitsLt c a with
  | false => rfl
  | true =>
    rcases bl_trichotomy a b with e | hab | hba
    · subst e; rw [h] at h2; cases h2
    · have := bl_trans _ _ _ h hab; rw [this] at h2; cases h2
    · rw [hba] at h1; cases h1

/-- "path `p` is not after path `q`" -/
def PLe (p q : List Bool) : Prop := p = q ∨ bitsLt p q = true

/-! ### `insertKey` -/
section Insert
variable {α : Type}

theorem insertKey_subset (k : Key) (a : α) : ∀ (l : List (Key × α)) (x : Key × α),
    x ∈ insertKey k a l → x ∈ l ∨ x = (k, a) := by
  intro l
  induction l with
  | nil => intro x h; simp [insertKey] at h; exact Or.inr h
  | cons y rest ih =>
    intro x h
    obtain ⟨k', a'⟩ := y
    unfold insertKey at h
    split at h
    · exact Or.inl h
    · split at h
      · rcases List.mem_cons.mp h with e | h
        · exact Or.inr e
        · exact Or.inl h
      · rcases List.mem_cons.mp h with e | h
        · exact Or.inl (e ▸ List.mem_cons_self)
        · rcases ih x h with h | h
          · exact Or.inl (List.mem_cons_of_mem _ h)
          · exact Or.inr h

theorem mem_insertKey_of_mem (k : Key) (a : α) : ∀ (l : List (Key × α)) (x : Key × α),
    x ∈ l → x ∈ insertKey k a l := by
  intro l
  induction l with
  | nil => intro x h; cases h
  | cons y rest ih =>
    intro x h
    obtain ⟨k', a'⟩ := y
    unfold insertKey
    split
    · exact h
    · split
      · exact List.mem_cons_of_mem _ h
      · rcases List.mem_cons.mp h with e | h
        · exact e ▸ List.mem_cons_self
        · exact List.mem_cons_of_mem _ (ih x h)

theorem mem_insertKey_self (k : Key) (a : α) : ∀ (l : List (Key × α)),
    (∀ y ∈ l, y.1 = k → y.2 = a) → (k, a) ∈ insertKey k a l := by
  intro l
  induction l with
  | nil => intro _; simp [insertKey]
  | cons y rest ih =>
    intro hf
    obtain ⟨k', a'⟩ := y
    unfold insertKey
    split
    · rename_i heq
      have hk : k' = k := by simpa using heq
      have ha : a' = a := hf (k', a') List.mem_cons_self hk
      rw [hk, ha]; exact List.mem_cons_self
    · split
      · exact List.mem_cons_self
      · exact List.mem_cons_of_mem _ (ih (fun y hy => hf y (List.mem_cons_of_mem _ hy)))

theorem mem_insertKey (k : Key) (a : α) (l : List (Key × α)) (hf : ∀ y ∈ l, y.1 = k → y.2 = a) (x : Key × α) :
    x ∈ insertKey k a l ↔ x ∈ l ∨ x = (k, a) := by
  constructor
  · exact insertKey_subset k a l x
  · rintro (h | rfl)
    · exact mem_insertKey_of_mem k a l x h
    · exact mem_insertKey_self k a l hf

theorem insertKey_sorted (k : Key) (a : α) : ∀ (l : List (Key × α)), l.Pairwise KeyLt →
    (insertKey k a l).Pairwise KeyLt := by
  intro l
  induction l with
  | nil => intro _; simp [insertKey]
  | cons y rest ih =>
    intro hs
    obtain ⟨k', a'⟩ := y
    rw [List.pairwise_cons] at hs
    unfold insertKey
    split
    · exact List.pairwise_cons.mpr hs
    · rename_i hne
      split
      · rename_i hlt
        refine List.pairwise_cons.mpr ⟨?_, List.pairwise_cons.mpr hs⟩
        intro z hz
        rcases List.mem_cons.mp hz with rfl | hz
        · exact hlt
        · exact bl_trans _ _ _ hlt (hs.1 z hz)
      · rename_i hnlt
        refine List.pairwise_cons.mpr ⟨?_, ih hs.2⟩
        intro z hz
        rcases insertKey_subset k a rest z hz with hz | rfl
        · exact hs.1 z hz
        · have hne' : k ≠ k' := by intro e; apply hne; simp [e]
          exact bl_total k k' (by simpa using hnlt) hne'

/-- insert all entries of `xs` into `init` (the two folds of `witnessWith`) -/
def insAll (xs : List (Key × α)) (init : List (Key × α)) : List (Key × α) :=
  xs.foldl (fun acc p => insertKey p.1 p.2 acc) init

theorem insAll_sorted : ∀ (xs init : List (Key × α)), init.Pairwise KeyLt → (insAll xs init).Pairwise KeyLt := by
  intro xs
  induction xs with
  | nil => intro init h; exact h
  | cons p rest ih => intro init h; exact ih _ (insertKey_sorted p.1 p.2 init h)

/-- when no two entries give one key different payloads, the fold adds exactly the entries -/
theorem mem_insAll : ∀ (xs init : List (Key × α)),
    (∀ p ∈ init ++ xs, ∀ q ∈ init ++ xs, p.1 = q.1 → p.2 = q.2) →
    ∀ x, x ∈ insAll xs init ↔ x ∈ init ∨ x ∈ xs := by
  intro xs
  induction xs with
  | nil => intro init _ x; simp [insAll]
  | cons p rest ih =>
    intro init hf x
    have hfi : ∀ y ∈ init, y.1 = p.1 → y.2 = p.2 := by
      intro y hy e
      exact hf y (List.mem_append_left _ hy) p (List.mem_append_right _ List.mem_cons_self) e
    have hm := mem_insertKey p.1 p.2 init hfi
    have hf' : ∀ a ∈ insertKey p.1 p.2 init ++ rest, ∀ b ∈ insertKey p.1 p.2 init ++ rest, a.1 = b.1 → a.2 = b.2 := by
      have hsub : ∀ a ∈ insertKey p.1 p.2 init ++ rest, a ∈ init ++ p :: rest := by
        intro a ha
        rcases List.mem_append.mp ha with ha | ha
        · rcases (hm a).mp ha with ha | rfl
          · exact List.mem_append_left _ ha
          · exact List.mem_append_right _ List.mem_cons_self
        · exact List.mem_append_right _ (List.mem_cons_of_mem _ ha)
      intro a ha b hb
      exact hf a (hsub a ha) b (hsub b hb)
    have := ih (insertKey p.1 p.2 init) hf' x
    show x ∈ insAll rest (insertKey p.1 p.2 init) ↔ _
    rw [this, hm]
    constructor
    · rintro ((h | rfl) | h)
      · exact Or.inl h
      · exact Or.inr List.mem_cons_self
      · exact Or.inr (List.mem_cons_of_mem _ h)
    · rintro (h | h)
      · exact Or.inl (Or.inl h)
      · rcases List.mem_cons.mp h with rfl | h
        · exact Or.inl (Or.inr rfl)
        · exact Or.inr h

/-- `insertKey` commutes with relabelling the payloads -/
theorem insertKey_map {β : Type} (g : α → β) (k : Key) (a : α) : ∀ (l : List (Key × α)),
    insertKey k (g a) (l.map (fun p => (p.1, g p.2))) = (insertKey k a l).map (fun p => (p.1, g p.2)) := by
  intro l
  induction l with
  | nil => simp [insertKey]
  | cons y rest ih =>
    obtain ⟨k', a'⟩ := y
    simp only [List.map_cons, insertKey]
    split
    · simp
    · split
      · simp
      · simp [ih]

theorem insAll_map {β : Type} (g : α → β) : ∀ (xs init : List (Key × α)),
    insAll (xs.map (fun p => (p.1, g p.2))) (init.map (fun p => (p.1, g p.2)))
      = (insAll xs init).map (fun p => (p.1, g p.2)) := by
  intro xs
  induction xs with
  | nil => intro init; rfl
  | cons p rest ih =>
    intro init
    show insAll (rest.map _) (insertKey p.1 (g p.2) (init.map _)) = _
    rw [insertKey_map, ih]
    rfl

end Insert

/-! ### the merge of `witnessWith` -/
section Merge
variable {VH : Type}

abbrev Item (VH : Type) := Key × (Bool × Option VH)

theorem mem_merge : ∀ (fuel : Nat) (a b : List (Item VH)) (x : Item VH),
    x ∈ witnessWith.merge fuel a b ↔ x ∈ a ∨ x ∈ b := by
  intro fuel
  induction fuel with
  | zero => intro a b x; simp [witnessWith.merge]
  | succ f ih =>
    intro a b x
    cases a with
    | nil => simp [witnessWith.merge]
    | cons ha ra =>
      cases b with
      | nil => simp [witnessWith.merge]
      | cons hb rb =>
        obtain ⟨ka, xa⟩ := ha
        obtain ⟨kb, xb⟩ := hb
        simp only [witnessWith.merge]
        split
        · simp only [List.mem_cons, ih]
          constructor
          · rintro (h | (h | h) | h)
            · exact Or.inr (Or.inl h)
            · exact Or.inl (Or.inl h)
            · exact Or.inl (Or.inr h)
            · exact Or.inr (Or.inr h)
          · rintro ((h | h) | (h | h))
            · exact Or.inr (Or.inl (Or.inl h))
            · exact Or.inr (Or.inl (Or.inr h))
            · exact Or.inl h
            · exact Or.inr (Or.inr h)
        · simp only [List.mem_cons, ih]
          constructor
          · rintro (h | h | (h | h))
            · exact Or.inl (Or.inl h)
            · exact Or.inl (Or.inr h)
            · exact Or.inr (Or.inl h)
            · exact Or.inr (Or.inr h)
          · rintro ((h | h) | (h | h))
            · exact Or.inl h
            · exact Or.inr (Or.inl h)
            · exact Or.inr (Or.inr (Or.inl h))
            · exact Or.inr (Or.inr (Or.inr h))

theorem filterMap_merge_right {β : Type} (f : Item VH → Option β) : ∀ (fuel : Nat) (a b : List (Item VH)),
    (∀ x ∈ a, f x = none) → (witnessWith.merge fuel a b).filterMap f = b.filterMap f := by
  intro fuel
  induction fuel with
  | zero =>
    intro a b ha
    have : a.filterMap f = [] := by
      rw [List.filterMap_eq_nil_iff]; exact ha
    simp [witnessWith.merge, List.filterMap_append, this]
  | succ n ih =>
    intro a b ha
    cases a with
    | nil => simp [witnessWith.merge]
    | cons x ra =>
      cases b with
      | nil =>
        have : (x :: ra).filterMap f = [] := by
          rw [List.filterMap_eq_nil_iff]; exact ha
        simp [witnessWith.merge, this]
      | cons y rb =>
        obtain ⟨ka, xa⟩ := x
        obtain ⟨kb, xb⟩ := y
        simp only [witnessWith.merge]
        split
        · simp only [List.filterMap_cons]
          rw [ih _ rb ha]
        · have h0 : f (ka, xa) = none := ha _ List.mem_cons_self
          simp only [List.filterMap_cons, h0]
          rw [ih ra _ (fun z hz => ha z (List.mem_cons_of_mem _ hz))]
          simp only [List.filterMap_cons]

theorem filterMap_merge_left {β : Type} (f : Item VH → Option β) : ∀ (fuel : Nat) (a b : List (Item VH)),
    (∀ x ∈ b, f x = none) → (witnessWith.merge fuel a b).filterMap f = a.filterMap f := by
  intro fuel
  induction fuel with
  | zero =>
    intro a b hb
    have : b.filterMap f = [] := by
      rw [List.filterMap_eq_nil_iff]; exact hb
    simp [witnessWith.merge, List.filterMap_append, this]
  | succ n ih =>
    intro a b hb
    cases a with
    | nil =>
      have : b.filterMap f = [] := by
        rw [List.filterMap_eq_nil_iff]; exact hb
      simp [witnessWith.merge, this]
    | cons x ra =>
      cases b with
      | nil => simp [witnessWith.merge]
      | cons y rb =>
        obtain ⟨ka, xa⟩ := x
        obtain ⟨kb, xb⟩ := y
        simp only [witnessWith.merge]
        split
        · have h0 : f (kb, xb) = none := hb _ List.mem_cons_self
          simp only [List.filterMap_cons, h0]
          rw [ih _ rb (fun z hz => hb z (List.mem_cons_of_mem _ hz))]
          simp only [List.filterMap_cons]
        · simp only [List.filterMap_cons]
          rw [ih ra _ hb]

theorem merge_sorted : ∀ (fuel : Nat) (a b : List (Item VH)), a.length + b.length ≤ fuel →
    a.Pairwise KeyLe → b.Pairwise KeyLe → (witnessWith.merge fuel a b).Pairwise KeyLe := by
  intro fuel
  induction fuel with
  | zero =>
    intro a b hl _ _
    have ha : a = [] := by cases a <;> simp_all
    have hb : b = [] := by cases b <;> simp_all
    subst ha; subst hb
    simp [witnessWith.merge]
  | succ n ih =>
    intro a b hl sa sb
    cases a with
    | nil => simpa [witnessWith.merge] using sb
    | cons x ra =>
      cases b with
      | nil => simpa [witnessWith.merge] using sa
      | cons y rb =>
        obtain ⟨ka, xa⟩ := x
        obtain ⟨kb, xb⟩ := y
        have sa' := List.pairwise_cons.mp sa
        have sb' := List.pairwise_cons.mp sb
        simp only [List.length_cons] at hl
        simp only [witnessWith.merge]
        split
        · rename_i hlt
          refine List.pairwise_cons.mpr ⟨?_, ih _ rb (by simp only [List.length_cons]; omega) sa sb'.2⟩
          intro z hz
          rcases (mem_merge _ _ _ z).mp hz with hz | hz
          · have h1 : bitsLt ka kb = false := bl_asymm _ _ hlt
            rcases List.mem_cons.mp hz with rfl | hz
            · exact h1
            · exact ble_trans (a := kb) (b := ka) (c := z.1) h1 (sa'.1 z hz)
          · exact sb'.1 z hz
        · rename_i hnlt
          have h1 : bitsLt kb ka = false := by simpa using hnlt
          refine List.pairwise_cons.mpr ⟨?_, ih ra _ (by simp only [List.length_cons]; omega) sa'.2 sb⟩
          intro z hz
          rcases (mem_merge _ _ _ z).mp hz with hz | hz
          · exact sa'.1 z hz
          · rcases List.mem_cons.mp hz with rfl | hz
            · exact h1
            · exact ble_trans (a := ka) (b := kb) (c := z.1) h1 (sb'.1 z hz)

end Merge

/-! ### `groupByTerminal` -/
section Group
variable {Node VH : Type} (prover : Key → PathProof Node VH)

/-- the terminal path of a key according to `prover` -/
def tpOf (k : Key) : List Bool := k.take (prover k).siblings.length

def wOf (it : Item VH) : Option (Key × Option VH) := if it.2.1 then some (it.1, it.2.2) else none
def rOf (it : Item VH) : Option (Key × Option VH) := if it.2.1 then none else some (it.1, it.2.2)

def addOp (isWrite : Bool) (k : Key) (v : Option VH) (w : WPath Node VH) : WPath Node VH :=
  if isWrite then { w with writes := w.writes ++ [(k, v)] } else { w with reads := w.reads ++ [(k, v)] }

@[simp] theorem addOp_path (b : Bool) (k : Key) (v : Option VH) (w : WPath Node VH) : (addOp b k v w).path = w.path := by
  cases b <;> rfl
@[simp] theorem addOp_proof (b : Bool) (k : Key) (v : Option VH) (w : WPath Node VH) : (addOp b k v w).proof = w.proof := by
  cases b <;> rfl
theorem addOp_writes (b : Bool) (k : Key) (v : Option VH) (w : WPath Node VH) :
    (addOp b k v w).writes = w.writes ++ (if b then [(k, v)] else []) := by
  cases b <;> simp [addOp]
theorem addOp_reads (b : Bool) (k : Key) (v : Option VH) (w : WPath Node VH) :
    (addOp b k v w).reads = w.reads ++ (if b then [] else [(k, v)]) := by
  cases b <;> simp [addOp]

/-- one step of `groupByTerminal` -/
def stepAcc (it : Item VH) (acc : List (WPath Node VH)) : List (WPath Node VH) :=
  match acc with
  | w :: ws =>
    if w.path == tpOf prover it.1 then addOp it.2.1 it.1 it.2.2 w :: ws
    else addOp it.2.1 it.1 it.2.2 { path := tpOf prover it.1, proof := prover it.1, reads := [], writes := [] } :: w :: ws
  | [] => [addOp it.2.1 it.1 it.2.2 { path := tpOf prover it.1, proof := prover it.1, reads := [], writes := [] }]

theorem groupByTerminal_cons (it : Item VH) (rest : List (Item VH)) (acc : List (WPath Node VH)) :
    groupByTerminal prover (it :: rest) acc = groupByTerminal prover rest (stepAcc prover it acc) := by
  obtain ⟨k, b, v⟩ := it
  cases acc with
  | nil => cases b <;> rfl
  | cons w ws =>
    simp only [groupByTerminal, stepAcc, tpOf, addOp]
    split <;> rfl

/-- the invariant of the accumulator (newest group first) after the items `done` -/
structure AccInv (acc : List (WPath Node VH)) (done : List (Item VH)) : Prop where
  sorted : acc.Pairwise (fun a b => bitsLt b.path a.path = true)
  proofs : ∀ w ∈ acc, ∃ k, k ∈ done.map (·.1) ∧ w.proof = prover k ∧ w.path = tpOf prover k
  rmem : ∀ w ∈ acc, ∀ o ∈ w.reads, tpOf prover o.1 = w.path ∧ (o.1, (false, o.2)) ∈ done
  wmem : ∀ w ∈ acc, ∀ o ∈ w.writes, tpOf prover o.1 = w.path ∧ (o.1, (true, o.2)) ∈ done
  wflat : acc.reverse.flatMap (·.writes) = done.filterMap wOf
  rflat : acc.reverse.flatMap (·.reads) = done.filterMap rOf

theorem AccInv.nil : AccInv prover ([] : List (WPath Node VH)) [] :=
  ⟨List.Pairwise.nil, by simp, by simp, by simp, by simp, by simp⟩

variable {prover}

theorem wOf_single (k : Key) (b : Bool) (v : Option VH) :
    [(k, (b, v))].filterMap wOf = if b then [(k, v)] else [] := by
  cases b <;> simp [wOf]
theorem rOf_single (k : Key) (b : Bool) (v : Option VH) :
    [(k, (b, v))].filterMap rOf = if b then [] else [(k, v)] := by
  cases b <;> simp [rOf]

/-- a new group in front of groups with smaller paths -/
theorem AccInv.fresh {acc : List (WPath Node VH)} {done : List (Item VH)} (h : AccInv prover acc done)
    (k : Key) (b : Bool) (v : Option VH) (hlt : ∀ w ∈ acc, bitsLt w.path (tpOf prover k) = true) :
    AccInv prover
      (addOp b k v { path := tpOf prover k, proof := prover k, reads := [], writes := [] } :: acc)
      (done ++ [(k, (b, v))]) := by
  refine ⟨?_, ?_, ?_, ?_, ?_, ?_⟩
  · refine List.pairwise_cons.mpr ⟨?_, h.sorted⟩
    intro w hw; simpa using hlt w hw
  · intro w hw
    rcases List.mem_cons.mp hw with rfl | hw
    · exact ⟨k, by simp, by simp, by simp⟩
    · obtain ⟨k0, hk0, e1, e2⟩ := h.proofs w hw
      exact ⟨k0, by simp only [List.map_append, List.mem_append]; exact Or.inl hk0, e1, e2⟩
  · intro w hw o ho
    rcases List.mem_cons.mp hw with rfl | hw
    · rw [addOp_reads] at ho
      cases b with
      | true => simp at ho
      | false =>
        simp only [List.nil_append, Bool.false_eq_true, if_false, List.mem_singleton] at ho
        subst ho
        exact ⟨by simp, by simp⟩
    · obtain ⟨e, hm⟩ := h.rmem w hw o ho
      exact ⟨e, List.mem_append_left _ hm⟩
  · intro w hw o ho
    rcases List.mem_cons.mp hw with rfl | hw
    · rw [addOp_writes] at ho
      cases b with
      | false => simp at ho
      | true =>
        simp only [List.nil_append, if_true, List.mem_singleton] at ho
        subst ho
        exact ⟨by simp, by simp⟩
    · obtain ⟨e, hm⟩ := h.wmem w hw o ho
      exact ⟨e, List.mem_append_left _ hm⟩
  · rw [List.reverse_cons, List.flatMap_append, h.wflat, List.filterMap_append, wOf_single]
    simp [addOp_writes]
  · rw [List.reverse_cons, List.flatMap_append, h.rflat, List.filterMap_append, rOf_single]
    simp [addOp_reads]

/-- the item joins the newest group -/
theorem AccInv.join {w : WPath Node VH} {ws : List (WPath Node VH)} {done : List (Item VH)}
    (h : AccInv prover (w :: ws) done) (k : Key) (b : Bool) (v : Option VH) (he : w.path = tpOf prover k) :
    AccInv prover (addOp b k v w :: ws) (done ++ [(k, (b, v))]) := by
  have hs := List.pairwise_cons.mp h.sorted
  refine ⟨?_, ?_, ?_, ?_, ?_, ?_⟩
  · refine List.pairwise_cons.mpr ⟨?_, hs.2⟩
    intro x hx; simpa using hs.1 x hx
  · intro x hx
    have : ∃ y ∈ w :: ws, x.proof = y.proof ∧ x.path = y.path := by
      rcases List.mem_cons.mp hx with rfl | hx
      · exact ⟨w, List.mem_cons_self, by simp, by simp⟩
      · exact ⟨x, List.mem_cons_of_mem _ hx, rfl, rfl⟩
    obtain ⟨y, hy, e1, e2⟩ := this
    obtain ⟨k0, hk0, e3, e4⟩ := h.proofs y hy
    exact ⟨k0, by simp only [List.map_append, List.mem_append]; exact Or.inl hk0, e1 ▸ e3, e2 ▸ e4⟩
  · intro x hx o ho
    rcases List.mem_cons.mp hx with rfl | hx
    · rw [addOp_reads] at ho
      rcases List.mem_append.mp ho with ho | ho
      · obtain ⟨e, hm⟩ := h.rmem w List.mem_cons_self o ho
        exact ⟨by simpa using e, List.mem_append_left _ hm⟩
      · cases b with
        | true => simp at ho
        | false =>
          simp only [Bool.false_eq_true, if_false, List.mem_singleton] at ho
          subst ho
          exact ⟨by simpa using he.symm, by simp⟩
    · obtain ⟨e, hm⟩ := h.rmem x (List.mem_cons_of_mem _ hx) o ho
      exact ⟨e, List.mem_append_left _ hm⟩
  · intro x hx o ho
    rcases List.mem_cons.mp hx with rfl | hx
    · rw [addOp_writes] at ho
      rcases List.mem_append.mp ho with ho | ho
      · obtain ⟨e, hm⟩ := h.wmem w List.mem_cons_self o ho
        exact ⟨by simpa using e, List.mem_append_left _ hm⟩
      · cases b with
        | false => simp at ho
        | true =>
          simp only [if_true, List.mem_singleton] at ho
          subst ho
          exact ⟨by simpa using he.symm, by simp⟩
    · obtain ⟨e, hm⟩ := h.wmem x (List.mem_cons_of_mem _ hx) o ho
      exact ⟨e, List.mem_append_left _ hm⟩
  · have := h.wflat
    rw [List.reverse_cons, List.flatMap_append] at this ⊢
    rw [List.filterMap_append, wOf_single, ← this]
    simp [addOp_writes]
  · have := h.rflat
    rw [List.reverse_cons, List.flatMap_append] at this ⊢
    rw [List.filterMap_append, rOf_single, ← this]
    simp [addOp_reads]

theorem AccInv.step {acc : List (WPath Node VH)} {done : List (Item VH)} (h : AccInv prover acc done)
    (it : Item VH) (hb : ∀ w ∈ acc, PLe w.path (tpOf prover it.1)) :
    AccInv prover (stepAcc prover it acc) (done ++ [it]) := by
  obtain ⟨k, b, v⟩ := it
  cases acc with
  | nil => exact h.fresh k b v (by intro w hw; cases hw)
  | cons w ws =>
    simp only [stepAcc]
    split
    · rename_i heq
      exact h.join k b v (by simpa using heq)
    · rename_i hne
      apply h.fresh k b v
      have hw : bitsLt w.path (tpOf prover k) = true := by
        rcases hb w List.mem_cons_self with e | e
        · exact absurd (by simpa using e) hne
        · exact e
      intro x hx
      rcases List.mem_cons.mp hx with rfl | hx
      · exact hw
      · exact bl_trans _ _ _ ((List.pairwise_cons.mp h.sorted).1 x hx) hw

theorem stepAcc_path (it : Item VH) (acc : List (WPath Node VH)) (w : WPath Node VH)
    (hw : w ∈ stepAcc prover it acc) : w.path = tpOf prover it.1 ∨ ∃ w' ∈ acc, w.path = w'.path := by
  cases acc with
  | nil =>
    simp only [stepAcc, List.mem_singleton] at hw
    subst hw; left; simp
  | cons x xs =>
    simp only [stepAcc] at hw
    split at hw
    · rcases List.mem_cons.mp hw with rfl | hw
      · right; exact ⟨x, List.mem_cons_self, by simp⟩
      · right; exact ⟨w, List.mem_cons_of_mem _ hw, rfl⟩
    · rcases List.mem_cons.mp hw with rfl | hw
      · left; simp
      · right; exact ⟨w, hw, rfl⟩

/-- **the grouping invariant**: over items whose terminal paths never decrease, the result (oldest group
first) is strictly ascending by path and partitions the operations -/
theorem groupByTerminal_inv : ∀ (items : List (Item VH)) (acc : List (WPath Node VH)) (done : List (Item VH)),
    AccInv prover acc done →
    (∀ w ∈ acc, ∀ it ∈ items, PLe w.path (tpOf prover it.1)) →
    items.Pairwise (fun a b => PLe (tpOf prover a.1) (tpOf prover b.1)) →
    AccInv prover (groupByTerminal prover items acc).reverse (done ++ items) := by
  intro items
  induction items with
  | nil =>
    intro acc done h _ _
    simpa [groupByTerminal] using h
  | cons it rest ih =>
    intro acc done h hb hp
    rw [groupByTerminal_cons]
    have hp' := List.pairwise_cons.mp hp
    have := ih (stepAcc prover it acc) (done ++ [it])
      (h.step it (fun w hw => hb w hw it List.mem_cons_self))
      (by
        intro w hw it' hit'
        rcases stepAcc_path it acc w hw with e | ⟨w', hw', e⟩
        · rw [e]; exact hp'.1 it' hit'
        · rw [e]; exact hb w' hw' it' (List.mem_cons_of_mem _ hit'))
      hp'.2
    simpa [List.append_assoc] using this

end Group

end Nomt.Api
