import NomtModel.Api.DeltaBuild
import NomtModel.Api.SplitPending2
/-!
# Mirror of `Session::finish` (`nomt/src/lib.rs`) — from the caller's `actuals` to everything the session hands on

What is mirrored, in the order of the code:

* the sortedness loop under `cfg!(debug_assertions)` — `for i in 1..len { assert!(actuals[i].0 > actuals[i-1].0, "actuals
  are not sorted at index {i}") }` (`firstUnsorted`; duplicates fail it too: the comparison is strict);
* `if self.base_superseded { bail!(..) }` — AFTER the assertion, before anything else;
* `rollback_delta.take().map(|b| b.finalize(&actuals))` — `Dlt.finalize` (`Api/DeltaBuild.lean`) with the hints of
  `preserve_prior_value`, only when the store records rollback deltas;
* `to_compact` — `Read(_) ↦ Read` (the value the caller claims to have read is DROPPED), `Write(w) ↦ Write(hash w)`,
  `ReadThenWrite(_, w) ↦ ReadThenWrite(hash w)` (`compact`), the list handed to `Updater::update_and_prove`;
* the commit workers on that list: `Split.runWorkers` (the mirror of `RangeUpdater::new / update / handle_completion`,
  `Api/Split.lean`), then per owned batch of an exclusive page `attempt_advance(ops)` with
  `ops = has_writes.then(subtrie_ops(batch))`: a batch without writes is only ADVANCED past, the walker rebuilds the
  sub-trie below the terminal only when `has_writes` (`advances`, `effOps`);
* `tx.write_value(path, value)` for every `Write` / `ReadThenWrite` in the order of the actuals (`Dlt.writesOf`: the
  `ValueTransaction` is a `Vec`, nothing is deduplicated);
* `UpdateHandle::join` — `Split.assemble` in the completion order of the workers, only in `WitnessMode::read_write()`.

The trie work below a worker (seek, page walker) is specification level as in `Api/Split.lean`: the root is the
root-page composition (`composeRoot`) of what the workers push, with child-page roots `specNode` of the operations the
walkers APPLIED (`effOps`: the operations of a batch that was only advanced past leave no trace).

`fast = true` is the red-team change of this round: `has_writes` of a batch computed by comparing every
`ReadThenWrite(w)` with the value of the terminal's leaf — taken only if that leaf's key is the sought key — instead of
`v.is_write()`; when all agree the batch is not rebuilt (`hasWritesFast`).
-/
namespace Nomt.Finish
open Nomt Nomt.Api Nomt.Split Nomt.Dlt

variable {Node VH V : Type}

/-- `KeyReadWrite::to_compact` -/
def toCompact (hv : V → VH) : Dlt.RW V → Split.RW VH
  | .read _ => .read
  | .write w => .write (w.map hv)
  | .rtw _ w => .readWrite (w.map hv)

/-- `compact_actuals` -/
def compact (hv : V → VH) (a : Actuals V) : List (Op VH) := a.map fun x => (x.1, toCompact hv x.2)

/-- the debug loop: the first index `i ∈ 1..len` with `!(actuals[i].0 > actuals[i-1].0)` (`from` = index of `y`) -/
def firstUnsorted : Nat → Actuals V → Option Nat
  | _, [] => none
  | _, [_] => none
  | i, x :: y :: rest => if bitsLt x.1 y.1 then firstUnsorted (i+1) (y :: rest) else some i

def unsortedMsg (i : Nat) : String := "actuals are not sorted at index " ++ toString i

inductive FinErr where
  | superseded          -- "the overlay chain of this session is not based on the committed state"
  | io
deriving DecidableEq, Repr

structure Params where
  /-- `cfg!(debug_assertions)` -/
  debug : Bool
  /-- `Session::base_superseded` -/
  superseded : Bool
  /-- `WitnessMode` -/
  witness : Bool
  /-- `Session::rollback_delta.is_some()` -/
  rollback : Bool
  /-- commit workers -/
  n : Nat
  /-- the order in which the workers' outputs reach `join` -/
  order : List Nat

/-- what the page walker is told for one owned batch in an exclusive page: `none` = `advance`, `some k` =
`advance_and_replace` with `k` written operations -/
abbrev Advance := Nat × Option Nat

structure Out (Node VH V : Type) where
  /-- the list handed to `Updater::update_and_prove` -/
  ops : List (Op VH)
  /-- the completions every worker handled -/
  bss : List (List Batch)
  /-- per worker, per owned exclusive batch: rebuilt or only advanced -/
  advances : List (List Advance)
  /-- the operations the walkers / the root pass applied -/
  applied : List (Op VH)
  /-- `ValueTransaction::batch` -/
  changes : Writes V
  /-- the priors of `FinishedSession::rollback_delta` -/
  delta : Option (PMap V)
  root : Node
  witness : Option (Assembled Node VH)

/-! ### `has_writes`, rebuilt vs advanced -/

/-- the seeded `has_writes`: `current_value` = the terminal leaf's value if its key is the sought key; a
`ReadThenWrite(w)` counts as a write only if `w ≠ current_value` -/
def hasWritesFast [DecidableEq VH] (t : Terminal VH) (seekKey : Key) (slice : List (Op VH)) : Bool :=
  slice.any fun o =>
    match o.2 with
    | .read => false
    | .write _ => true
    | .readWrite w => decide (w ≠ leafValue t seekKey)

def retagBatch [DecidableEq VH] (prover : Key → PathProof Node VH) (ops : List (Op VH)) (b : Batch) : Batch :=
  match ops[b.start]? with
  | some o => { b with hasWrites := hasWritesFast (prover o.1).terminal o.1 (sliceOf ops (b.start, b.next)) }
  | none => b

/-- the batches as the code under test tags them -/
def tagged [DecidableEq VH] (fast : Bool) (prover : Key → PathProof Node VH) (ops : List (Op VH))
    (bss : List (List Batch)) : List (List Batch) :=
  if fast then bss.map (·.map (retagBatch prover ops)) else bss

/-- the walker steps of one worker -/
def advancesOf (ops : List (Op VH)) (bs : List Batch) : List Advance :=
  (bs.filter (fun b => b.owned && !b.nonExcl)).map fun b =>
    (b.start, if b.hasWrites then some (subtrieOps (sliceOf ops (b.start, b.next))).length else none)

/-- operation `i` lies in an owned batch of an exclusive page that was only advanced past -/
def skipped (bss : List (List Batch)) (i : Nat) : Bool :=
  bss.any fun bs => bs.any fun b =>
    b.owned && !b.nonExcl && !b.hasWrites && decide (b.start ≤ i) && decide (i < b.next)

def effFrom (bss : List (List Batch)) : Nat → List (Op VH) → List (Op VH)
  | _, [] => []
  | i, o :: rest => (if skipped bss i then (o.1, RW.read) else o) :: effFrom bss (i+1) rest

/-- the operations that reach a page walker or the root pass -/
def effOps (ops : List (Op VH)) (bss : List (List Batch)) : List (Op VH) := effFrom bss 0 ops

/-! ### `finish` -/

def finalizeStep (P : Params) (load : Key → Outcome Unit (Option V)) (hints : List Key) (a : Actuals V) :
    Outcome FinErr (Option (PMap V)) :=
  if P.rollback then
    match Dlt.finalize load hints a with
    | .ok d => .ok (some d)
    | .err _ => .err .io
    | .panic s => .panic s
  else .ok none

/-- `Session::finish(actuals)` on a session whose view has the value hashes `view`, with path proofs from `prover` -/
def finishWith [DecidableEq Node] [DecidableEq VH] (fast : Bool) (H : Hasher Node VH) (hv : V → VH) (L : Nat) (P : Params)
    (prover : Key → PathProof Node VH) (load : Key → Outcome Unit (Option V)) (hints : List Key)
    (view : KVL VH) (a : Actuals V) : Outcome FinErr (Out Node VH V) :=
  match (if P.debug then firstUnsorted 1 a else none) with
  | some i => .panic (unsortedMsg i)
  | none =>
    if P.superseded then .err .superseded
    else
      match finalizeStep P load hints a with
      | .panic s => .panic s
      | .err e => .err e
      | .ok delta =>
        let ops := compact hv a
        match runWorkers L P.n (tpOf prover) ops with
        | none => .panic "merkle worker"
        | some bss0 =>
          let bss := tagged fast prover ops bss0
          let eops := effOps ops bss
          let changes := writesOf a
          let root := composeRoot H L view eops (pendingOf (specNode H L view eops) bss)
          match (if P.witness then (assemble L P.n prover ops P.order).map some else some none) with
          | none => .panic "join"
          | some w =>
            .ok { ops := ops, bss := bss, advances := bss.map (advancesOf ops), applied := eops, changes := changes,
                  delta := delta, root := root, witness := w }

/-- the mirror with the specified path proofs -/
def finish [DecidableEq Node] [DecidableEq VH] (fast : Bool) (H : Hasher Node VH) (hv : V → VH) (L : Nat) (P : Params)
    (load : Key → Outcome Unit (Option V)) (hints : List Key) (view : KVL VH) (a : Actuals V) :
    Outcome FinErr (Out Node VH V) :=
  finishWith fast H hv L P (proveSpec H L view) load hints view a

/-! ### specification vocabulary -/

/-- the keys the session read: `Read` and `ReadThenWrite` entries -/
def readKeysA : Actuals V → List Key
  | [] => []
  | (k, .read _) :: rest => k :: readKeysA rest
  | (_, .write _) :: rest => readKeysA rest
  | (k, .rtw _ _) :: rest => k :: readKeysA rest

/-- value hashes of a batch of writes -/
def hashW (hv : V → VH) (ws : Writes V) : Writes VH := ws.map fun kw => (kw.1, kw.2.map hv)

/-- value hashes of a key-value list: what the trie commits to -/
def hashKV (hv : V → VH) (m : KVL V) : KVL VH := m.map fun kv => (kv.1, hv kv.2)

end Nomt.Finish
