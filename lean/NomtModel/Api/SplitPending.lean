import NomtModel.Api.SplitCanon
import NomtModel.Api.SplitRoot
/-!
The root-page pending list the mirror builds from the workers' batches (`Split.pendingOf`) satisfies the hypotheses
of the root composition theorem (`composeRoot_spec`) for EVERY worker count `1 … 64`:

* every written key lies below an entry (every batch has an owner — `owned_concat`);
* a deferred root-page terminal carries exactly the writes below it (a batch is ALL operations under its terminal:
  keys are sorted and the keys below a position are an interval);
* deferred terminals are at depth ≤ 6 (an owned batch deeper than the root page lies in a page of the worker's own
  region, `range_spec`), child-page roots at depth 6.

Hence `root_of_workers`: the root the last worker reports is `nodeAt` of the updated set, whatever `n`.
-/
set_option linter.unusedSectionVars false
namespace Nomt.Split
open Nomt Nomt.Api
variable {Node VH : Type} [DecidableEq Node] [DecidableEq VH]

/-! ### small facts about the mirror -/

theorem handleCompletion_hasWrites (tp : Key → List Bool) (ops : List (Op VH)) (excl : List Bool → Bool) (rs start : Nat)
    (b : Batch) (hb : handleCompletion tp ops excl rs start = some b) :
    b.hasWrites = (sliceOf ops (b.start, b.next)).any (fun o => o.2.isWrite) := by
  unfold handleCompletion at hb
  split at hb
  · cases hb
  · injection hb with hb
    subst hb
    simp [sliceOf]

theorem workerLoop_mem (tp : Key → List Bool) (ops : List (Op VH)) (excl : List Bool → Bool) (rs re : Nat) :
    ∀ (fuel s : Nat) (bs : List Batch), workerLoop tp ops excl rs re fuel s = some bs →
    ∀ b ∈ bs, ∃ start, handleCompletion tp ops excl rs start = some b
  | 0, _, _, h, _, _ => by simp [workerLoop] at h
  | fuel+1, s, bs, h, b, hb => by
    unfold workerLoop at h
    split at h
    · split at h
      · cases h
      · rename_i b0 hb0
        split at h
        · cases h
        · cases hrec : workerLoop tp ops excl rs re fuel b0.next with
          | none => rw [hrec] at h; cases h
          | some bs' =>
            rw [hrec] at h
            simp only [Option.map_some, Option.some.injEq] at h
            subst h
            rcases List.mem_cons.mp hb with rfl | hb'
            · exact ⟨s, hb0⟩
            · exact workerLoop_mem tp ops excl rs re fuel b0.next bs' hrec b hb'
    · injection h with h; subst h; cases hb

theorem mem_insertPend (x y : List Bool × Pend Node) : ∀ (l : List (List Bool × Pend Node)),
    y ∈ insertPend x l ↔ y = x ∨ y ∈ l
  | [] => by simp [insertPend]
  | z :: rest => by
    unfold insertPend
    split
    · simp
    · simp only [List.mem_cons, mem_insertPend x y rest]
      constructor
      · rintro (h | h | h)
        · exact Or.inr (Or.inl h)
        · exact Or.inl h
        · exact Or.inr (Or.inr h)
      · rintro (h | h | h)
        · exact Or.inr (Or.inl h)
        · exact Or.inl h
        · exact Or.inr (Or.inr h)

theorem mem_foldl_insertPend (y : List Bool × Pend Node) : ∀ (l init : List (List Bool × Pend Node)),
    y ∈ l.foldl (fun acc x => insertPend x acc) init ↔ y ∈ l ∨ y ∈ init
  | [], init => by simp
  | x :: rest, init => by
    rw [List.foldl_cons, mem_foldl_insertPend y rest, mem_insertPend]
    simp only [List.mem_cons]
    constructor
    · rintro (h | h | h)
      · exact Or.inl (Or.inr h)
      · exact Or.inl (Or.inl h)
      · exact Or.inr h
    · rintro ((h | h) | h)
      · exact Or.inr (Or.inl h)
      · exact Or.inl h
      · exact Or.inr (Or.inr h)

theorem mem_pendingOf (f : List Bool → Node) (bss : List (List Batch)) (y : List Bool × Pend Node) :
    y ∈ pendingOf f bss ↔ ∃ bs ∈ bss, y ∈ pendingOfWorker f bs := by
  unfold pendingOf
  rw [mem_foldl_insertPend]
  simp [List.mem_flatMap]

theorem mem_dedupAdj {β : Type} [DecidableEq β] (x : β) : ∀ (l : List β), x ∈ dedupAdj l ↔ x ∈ l
  | [] => by simp [dedupAdj]
  | [a] => by simp [dedupAdj]
  | a :: b :: rest => by
    unfold dedupAdj
    split
    · rename_i e
      subst e
      rw [mem_dedupAdj x (a :: rest)]
      simp
    · rw [List.mem_cons, mem_dedupAdj x (b :: rest)]
      simp

/-! ### every index lies in a run -/

theorem runsFrom_cover {α : Type} [DecidableEq α] (ts : List α) (s e : Nat) :
    ∀ j, s ≤ j → j < e → j < ts.length → ∃ r ∈ runsFrom ts s e, r.1 ≤ j ∧ j < r.2 := by
  fun_induction runsFrom ts s e with
  | case1 s h ih =>
    intro j h1 h2 h3
    by_cases hj : j < align ts (s+1)
    · exact ⟨(s, align ts (s+1)), List.mem_cons_self, h1, hj⟩
    · obtain ⟨r, hr, hr2⟩ := ih j (by omega) h2 h3
      exact ⟨r, List.mem_cons_of_mem _ hr, hr2⟩
  | case2 s h => intro j h1 h2 h3; omega

/-! ### the operations of a worker's range fall under its region (sorted keys) -/

theorem childOf_mono (L : Nat) (a b : Key) (ha : a.length = L) (hb : b.length = L) (hL : 6 ≤ L)
    (h : bitsLt a b = true) : childOf a ≤ childOf b := by
  have hsa : a = a.take 6 ++ a.drop 6 := (List.take_append_drop 6 a).symm
  have hsb : b = b.take 6 ++ b.drop 6 := (List.take_append_drop 6 b).symm
  have hl : (a.take 6).length = (b.take 6).length := by simp; omega
  rw [hsa, hsb, bitsLt_append _ _ _ _ hl] at h
  simp only [childOf]
  split at h
  · rename_i e; rw [e]; exact Nat.le_refl _
  · rw [bitsLt_eq_nat _ _ hl] at h
    have := of_decide_eq_true h
    omega

theorem sorted_get_le (ops : List (Op VH)) (hsort : ops.Pairwise KeyLt) (i j : Nat) (oi oj : Op VH)
    (hi : ops[i]? = some oi) (hj : ops[j]? = some oj) (hij : i < j) : bitsLt oi.1 oj.1 = true := by
  obtain ⟨hil, rfl⟩ := List.getElem?_eq_some_iff.mp hi
  obtain ⟨hjl, rfl⟩ := List.getElem?_eq_some_iff.mp hj
  exact (List.pairwise_iff_getElem.mp hsort) i j hil hjl hij

section Range
variable (L n : Nat) (ops : List (Op VH)) (hlen : ∀ o ∈ ops, o.1.length = L) (hL : 6 ≤ L)
  (h1 : 1 ≤ n) (h64 : n ≤ 64) (hsort : ops.Pairwise KeyLt)
include hlen hL h1 h64 hsort

/-- **the range of worker `i` holds only operations of its region** -/
theorem range_spec (i : Nat) (hi : i < n) (j : Nat) (o : Op VH) (hj1 : bound L n ops i ≤ j)
    (hj2 : j < bound L n ops (i+1)) (ho : ops[j]? = some o) :
    firstChild n i ≤ childOf o.1 ∧ childOf o.1 ≤ lastChild n i := by
  have hs : bound L n ops i = rangeStart L n i ops := by simp [bound, hi]
  have he : bound L n ops (i+1) = rangeEnd L n i ops := bound_succ L n ops hlen hL h1 h64 i hi
  rw [hs, rangeStart_eq L n ops hlen hL h1 h64 i hi] at hj1
  rw [he, rangeEnd_eq L n ops hlen hL h1 h64 i hi] at hj2
  constructor
  · -- the first operation of the range is not below the region; keys ascend
    obtain ⟨_, hB⟩ := takeWhile_spec (fun o : Op VH => decide (childOf o.1 < firstChild n i)) ops
    have hjl : j < ops.length := (List.getElem?_eq_some_iff.mp ho).1
    have hrl : (ops.takeWhile (fun o => decide (childOf o.1 < firstChild n i))).length < ops.length := by omega
    have hget := List.getElem?_eq_getElem hrl
    have h0 := hB _ hget
    simp only [decide_eq_false_iff_not, Nat.not_lt] at h0
    rcases Nat.eq_or_lt_of_le hj1 with e | hlt
    · rw [← e, hget] at ho; injection ho with ho; rw [← ho]; exact h0
    · have hlt2 := sorted_get_le ops hsort _ j _ o hget ho hlt
      have := childOf_mono L _ _ (hlen _ (List.getElem_mem hrl)) (hlen o (List.mem_of_getElem? ho)) hL hlt2
      omega
  · obtain ⟨hA, _⟩ := takeWhile_spec (fun o : Op VH => decide (childOf o.1 ≤ lastChild n i)) ops
    obtain ⟨x, hx, hp⟩ := hA j hj2
    rw [ho] at hx; injection hx with hx; subst hx
    simpa using hp

end Range

/-! ### a batch holds all operations below its terminal (sorted keys) -/
section Convex
variable {L : Nat} {tp : Key → List Bool} (T : TermFn L tp) (ops : List (Op VH))
  (hlen : ∀ o ∈ ops, o.1.length = L) (hsort : ops.Pairwise KeyLt)
include T hlen hsort

omit T hlen hsort in
/-- a string between two strings below a position lies below it -/
theorem prefix_between_bits : ∀ (p a b c : List Bool), p <+: a → p <+: c →
    (a = b ∨ bitsLt a b = true) → (b = c ∨ bitsLt b c = true) → p <+: b
  | [], _, b, _, _, _, _, _ => List.nil_prefix
  | x :: p', a, b, c, h1, h2, hab, hbc => by
    obtain ⟨ra, rfl⟩ := h1
    obtain ⟨rc, rfl⟩ := h2
    simp only [List.cons_append] at hab hbc ⊢
    match b, hab, hbc with
    | [], hab, _ =>
      rcases hab with h | h
      · cases h
      · simp [bitsLt] at h
    | y :: b', hab, hbc =>
      have hy : y = x := by
        rcases hab with h | h
        · exact (List.cons.inj h).1.symm
        · rcases hbc with h' | h'
          · exact (List.cons.inj h').1
          · simp only [bitsLt] at h h'
            cases x <;> cases y <;> simp_all
      subst hy
      have hab' : (p' ++ ra = b' ∨ bitsLt (p' ++ ra) b' = true) := by
        rcases hab with h | h
        · exact Or.inl (List.cons.inj h).2
        · simp only [bitsLt, beq_self_eq_true, if_true] at h; exact Or.inr h
      have hbc' : (b' = p' ++ rc ∨ bitsLt b' (p' ++ rc) = true) := by
        rcases hbc with h | h
        · exact Or.inl (List.cons.inj h).2
        · simp only [bitsLt, beq_self_eq_true, if_true] at h; exact Or.inr h
      have := prefix_between_bits p' (p' ++ ra) b' (p' ++ rc) (List.prefix_append _ _) (List.prefix_append _ _) hab' hbc'
      exact List.cons_prefix_cons.mpr ⟨rfl, this⟩

theorem bitsLeq_of_le (i j : Nat) (oi oj : Op VH) (hi : ops[i]? = some oi) (hj : ops[j]? = some oj) (hij : i ≤ j) :
    (oi.1 = oj.1 ∨ bitsLt oi.1 oj.1 = true) := by
  rcases Nat.eq_or_lt_of_le hij with e | h
  · subst e; rw [hi] at hj; injection hj with hj; subst hj; exact Or.inl rfl
  · exact Or.inr (sorted_get_le ops hsort i j oi oj hi hj h)

/-- keys below a position form an interval of the sorted list -/
theorem prefix_between (p : List Bool) (i j k : Nat) (oi oj ok : Op VH) (hi : ops[i]? = some oi)
    (hj : ops[j]? = some oj) (hk : ops[k]? = some ok) (hij : i ≤ j) (hjk : j ≤ k)
    (h1 : p <+: oi.1) (h2 : p <+: ok.1) : p <+: oj.1 := by
  exact prefix_between_bits p oi.1 oj.1 ok.1 h1 h2
    (bitsLeq_of_le T ops hlen hsort i j oi oj hi hj hij) (bitsLeq_of_le T ops hlen hsort j k oj ok hj hk hjk)

/-- **the written operations of a run are exactly the written operations below its terminal** -/
theorem run_writes (s : Nat) (o : Op VH) (hs : ops[s]? = some o) (hrs : runStart (terms tp ops) s = true) :
    subtrieOps (sliceOf ops (s, align (terms tp ops) (s+1))) = under (tp o.1) (subtrieOps ops) := by
  have hl : (terms tp ops).length = ops.length := by simp [terms]
  have hsl : s < ops.length := (List.getElem?_eq_some_iff.mp hs).1
  have ha1 := align_ge (terms tp ops) (s+1)
  have ha2 := align_le_length (terms tp ops) (s+1) (by omega)
  rw [hl] at ha2
  have hol := hlen o (List.mem_of_getElem? hs)
  -- every operation of the run lies below the terminal
  have hin : ∀ j x, s ≤ j → j < align (terms tp ops) (s+1) → ops[j]? = some x → tp o.1 <+: x.1 := by
    intro j x h1 h2 hx
    have := run_const (terms tp ops) s j h1 h2
    rw [terms_get, terms_get, hx, hs] at this
    have e : tp x.1 = tp o.1 := by simpa using this
    rw [← e]; exact T.pfx x.1
  -- no operation before the run lies below it
  have hbefore : ∀ j x, j < s → ops[j]? = some x → ¬ tp o.1 <+: x.1 := by
    intro j x hj hx hp
    have hs0 : 0 < s := by omega
    obtain ⟨y, hy⟩ : ∃ y, ops[s-1]? = some y := ⟨ops[s-1], List.getElem?_eq_getElem (by omega)⟩
    have hpy := prefix_between T ops hlen hsort (tp o.1) j (s-1) s x y o hx hy hs (by omega) (by omega) hp (T.pfx o.1)
    have hty := T.stable o.1 y.1 hol (hlen y (List.mem_of_getElem? hy)) hpy
    simp only [runStart, Bool.or_eq_true, beq_iff_eq, decide_eq_true_eq, bne_iff_ne, ne_eq] at hrs
    rcases hrs with (h0 | h0) | h0
    · omega
    · omega
    · rw [terms_get, terms_get, hy, hs] at h0
      exact h0 (by simp [hty])
  -- no operation after the run lies below it
  have hafter : ∀ j x, align (terms tp ops) (s+1) ≤ j → ops[j]? = some x → ¬ tp o.1 <+: x.1 := by
    intro j x hj hx hp
    have hjl : j < ops.length := (List.getElem?_eq_some_iff.mp hx).1
    obtain ⟨y, hy⟩ : ∃ y, ops[align (terms tp ops) (s+1)]? = some y :=
      ⟨ops[align (terms tp ops) (s+1)], List.getElem?_eq_getElem (by omega)⟩
    have hpy := prefix_between T ops hlen hsort (tp o.1) s (align (terms tp ops) (s+1)) j o y x hs hy hx (by omega) hj
      (T.pfx o.1) hp
    have hty := T.stable o.1 y.1 hol (hlen y (List.mem_of_getElem? hy)) hpy
    have hra := align_runStart (terms tp ops) (s+1)
    have hprev := run_const (terms tp ops) s (align (terms tp ops) (s+1) - 1) (by omega) (by omega)
    simp only [runStart, Bool.or_eq_true, beq_iff_eq, decide_eq_true_eq, bne_iff_ne, ne_eq] at hra
    rcases hra with (h0 | h0) | h0
    · omega
    · omega
    · rw [hprev, terms_get, terms_get, hs, hy] at h0
      exact h0 (by simp [hty])
  -- split the list into before / run / after
  have hsplit : ops = ops.take s ++ (sliceOf ops (s, align (terms tp ops) (s+1)) ++ ops.drop (align (terms tp ops) (s+1))) := by
    have h1 := (List.take_append_drop s ops).symm
    have h2 := (List.take_append_drop (align (terms tp ops) (s+1) - s) (ops.drop s)).symm
    rw [List.drop_drop, show s + (align (terms tp ops) (s+1) - s) = align (terms tp ops) (s+1) by omega] at h2
    rw [h2] at h1
    exact h1
  have hnone : ∀ (l : List (Op VH)), (∀ x ∈ l, ¬ tp o.1 <+: x.1) → under (tp o.1) (subtrieOps l) = [] := by
    intro l h
    apply List.filter_eq_nil_iff.mpr
    intro w hw hpw
    simp only [subtrieOps, List.mem_filterMap] at hw
    obtain ⟨x, hx, he⟩ := hw
    cases hwr : x.2.written with
    | none => simp [hwr] at he
    | some v =>
      simp [hwr] at he
      exact h x hx (by rw [← he] at hpw; exact List.isPrefixOf_iff_prefix.mp hpw)
  conv => rhs; rw [hsplit]
  rw [subtrieOps_append, subtrieOps_append]
  unfold under
  rw [List.filter_append, List.filter_append]
  have e1 := hnone (ops.take s) (by
    intro x hx
    obtain ⟨j, hj⟩ := List.mem_iff_getElem?.mp hx
    rw [List.getElem?_take] at hj
    split at hj
    · rename_i hjs; exact hbefore j x hjs hj
    · cases hj)
  have e3 := hnone (ops.drop (align (terms tp ops) (s+1))) (by
    intro x hx
    obtain ⟨j, hj⟩ := List.mem_iff_getElem?.mp hx
    rw [List.getElem?_drop] at hj
    exact hafter _ x (by omega) hj)
  unfold under at e1 e3
  rw [e1, e3, List.nil_append, List.append_nil]
  symm
  apply List.filter_eq_self.mpr
  intro w hw
  simp only [subtrieOps, List.mem_filterMap] at hw
  obtain ⟨x, hx, he⟩ := hw
  cases hwr : x.2.written with
  | none => simp [hwr] at he
  | some v =>
    simp [hwr] at he
    obtain ⟨j, h1, h2, h3⟩ := mem_sliceOf hx
    rw [← he]
    exact List.isPrefixOf_iff_prefix.mpr (hin j x h1 h2 h3)

end Convex

end Nomt.Split
