import NomtModel.Api.OvlNew
/-!
`value_iter` as a sorted map; pruning is invisible (two heaps that differ only in what their indexes still
hold answer every lookup alike); dropping committed ancestors from the chain is invisible once their changes
are in the committed map.  (Helper lemmas for `Props/C11_Index.lean`.)
-/
namespace Nomt.Ovl
open Nomt
variable {V : Type}

/-! ### `value_iter` as a sorted map -/

theorem kvGet_filterMap_key {A B : Type} {m : KVL A} (hs : KSorted m) (g : Key → A → Option B) (k : Key) :
    kvGet (m.filterMap (fun e => (g e.1 e.2).map (fun b => (e.1, b)))) k = (kvGet m k).bind (g k) := by
  induction m with
  | nil => rfl
  | cons x xs ih =>
    obtain ⟨k', v'⟩ := x
    obtain ⟨hx, hxs⟩ := ksorted_cons.1 hs
    have ih' := ih hxs
    simp only [List.filterMap_cons]
    by_cases hk : k' = k
    · subst hk
      have htail : kvGet (xs.filterMap (fun e => (g e.1 e.2).map (fun b => (e.1, b)))) k' = none := by
        rw [ih', kvGet_none_of_lt hx]; rfl
      cases hg : g k' v' with
      | none => simp [kvGet, htail, hg]
      | some b => simp [kvGet, hg]
    · have hb : (k' == k) = false := by simpa using hk
      cases hg : g k' v' with
      | none => simp only [Option.map_none, kvGet, hb]; exact ih'
      | some b => simp only [Option.map_some, kvGet, hb]; exact ih'

theorem ksorted_filterMap_key {A B : Type} {m : KVL A} (hs : KSorted m) (g : Key → A → Option B) :
    KSorted (m.filterMap (fun e => (g e.1 e.2).map (fun b => (e.1, b)))) := by
  induction m with
  | nil => exact KSorted.nil
  | cons x xs ih =>
    obtain ⟨hx, hxs⟩ := ksorted_cons.1 hs
    simp only [List.filterMap_cons]
    cases hg : g x.1 x.2 with
    | none => simp only [Option.map_none]; exact ih hxs
    | some b =>
      simp only [Option.map_some]
      refine ksorted_cons.2 ⟨?_, ih hxs⟩
      intro y hy
      obtain ⟨e, he, hey⟩ := List.mem_filterMap.1 hy
      cases hge : g e.1 e.2 with
      | none => rw [hge] at hey; cases hey
      | some b' =>
        rw [hge] at hey
        simp only [Option.map_some, Option.some.injEq] at hey
        subst hey
        exact hx e he

/-- **`value_iter(start, end)` as a sorted map**: strictly ascending keys, and reading key `k` from it gives
the chain's youngest change of `k` when `start ≤ k < end`, nothing otherwise -/
theorem valueIter_spec {h : Heap V} (hinv : HeapInv h) {l : Live} (ok : LiveOK h l) (start : Key) (stop : Option Key) :
    ∃ r, l.valueIter h start stop = .ok r ∧ KSorted r ∧
      ∀ k, kvGet r k = if inRange start stop k then chainLookup (chainData h l.chain) k else none := by
  cases hp : l.parent with
  | none =>
    refine ⟨[], by simp [Live.valueIter, hp], KSorted.nil, fun k => ?_⟩
    simp [Live.chain, hp, chainData, chainLookup, kvGet]
  | some p =>
    have ok' := ok
    unfold LiveOK at ok'
    rw [hp] at ok'
    obtain ⟨po, hpo, hn, hanc, hmin⟩ := ok'
    have inv := hinv p po hpo
    refine ⟨_, valueIter_eq hinv hp hpo ok start stop, ?_, ?_⟩
    · exact ksorted_filterMap_key (ksorted_filter inv.wf.sorted _) (fun k _ => chainLookup (chainData h l.chain) k)
    · intro k
      rw [kvGet_filterMap_key (ksorted_filter inv.wf.sorted _) (fun k _ => chainLookup (chainData h l.chain) k),
        kvGet_filter inv.wf.sorted]
      have hchain : l.chain = p :: l.anc := by simp [Live.chain, hp]
      cases hg : kvGet po.index.values k with
      | none =>
        have := value_miss inv hpo hanc hg
        rw [hchain, this]
        simp [Option.filter]
      | some s =>
        by_cases hr : inRange start stop k = true
        · simp [Option.filter, hr]
        · have hr' : inRange start stop k = false := by simpa using hr
          simp [Option.filter, hr']

/-- two strictly sorted lists with the same reads are the same list -/
theorem valueIter_unique {r r' : Writes V} (hs : KSorted r) (hs' : KSorted r') (h : ∀ k, kvGet r k = kvGet r' k) :
    r = r' := kv_ext hs hs' h

/-! ### pruning is invisible -/

/-- the same overlays — sequence numbers, change maps, ancestry — with possibly different indexes -/
def Similar (h h' : Heap V) : Prop :=
  h.length = h'.length ∧
  ∀ (i : Nat) (o o' : Ov V), h[i]? = some o → h'[i]? = some o' →
    o.seqn = o'.seqn ∧ o.values = o'.values ∧ o.parent = o'.parent ∧ o.anc = o'.anc

theorem Similar.refl (h : Heap V) : Similar h h :=
  ⟨rfl, fun i o o' h1 h2 => by rw [h1] at h2; cases h2; exact ⟨rfl, rfl, rfl, rfl⟩⟩

theorem similar_get {h h' : Heap V} (sim : Similar h h') {i : Nat} {o : Ov V} (hi : h[i]? = some o) :
    ∃ o', h'[i]? = some o' ∧ o.seqn = o'.seqn ∧ o.values = o'.values ∧ o.parent = o'.parent ∧ o.anc = o'.anc := by
  have hlt : i < h.length := by
    rcases Nat.lt_or_ge i h.length with hlt | hge
    · exact hlt
    · rw [List.getElem?_eq_none hge] at hi; cases hi
  have hlt' : i < h'.length := sim.1 ▸ hlt
  exact ⟨h'[i], List.getElem?_eq_getElem hlt', sim.2 i o _ hi (List.getElem?_eq_getElem hlt')⟩

theorem chainData_similar {h h' : Heap V} (sim : Similar h h') (ids : List Nat) :
    chainData h ids = chainData h' ids := by
  unfold chainData
  apply List.map_congr_left
  intro i _
  cases hi : h[i]? with
  | none =>
    have : h.length ≤ i := by
      rcases Nat.lt_or_ge i h.length with hlt | hge
      · rw [List.getElem?_eq_getElem hlt] at hi; cases hi
      · exact hge
    rw [List.getElem?_eq_none (sim.1 ▸ this)]
  | some o =>
    obtain ⟨o', ho', _, hv, _⟩ := similar_get sim hi
    rw [ho']
    exact hv

theorem liveOK_similar {h h' : Heap V} (sim : Similar h h') {l : Live} (ok : LiveOK h l) : LiveOK h' l := by
  unfold LiveOK at ok ⊢
  cases hp : l.parent with
  | none => rw [hp] at ok; exact ok
  | some p =>
    rw [hp] at ok
    obtain ⟨po, hpo, h1, h2, h3⟩ := ok
    obtain ⟨po', hpo', hs, _, _, ha⟩ := similar_get sim hpo
    exact ⟨po', hpo', ha ▸ h1, ha ▸ h2, hs ▸ h3⟩

/-- **pruning is invisible (index level)**: on two heaps holding the same overlays — whatever their indexes
still hold beyond the invariant — every `value` and every `value_iter` of every live overlay agree -/
theorem lookups_similar {h h' : Heap V} (hinv : HeapInv h) (hinv' : HeapInv h') (sim : Similar h h') {l : Live}
    (ok : LiveOK h l) :
    (∀ k, l.value h k = l.value h' k) ∧ (∀ a b, l.valueIter h a b = l.valueIter h' a b) := by
  have ok' := liveOK_similar sim ok
  have hcd := chainData_similar sim l.chain
  refine ⟨fun k => ?_, fun a b => ?_⟩
  · rw [value_spec hinv ok, value_spec hinv' ok', hcd]
  · obtain ⟨r, hr, hs, hg⟩ := valueIter_spec hinv ok a b
    obtain ⟨r', hr', hs', hg'⟩ := valueIter_spec hinv' ok' a b
    rw [hr, hr']
    congr 1
    apply valueIter_unique hs hs'
    intro k
    rw [hg, hg', hcd]

/-- `finish` with and without `prune_below` on similar heaps gives similar heaps -/
theorem finish_similar {h h' : Heap V} (hinv : HeapInv h) (hinv' : HeapInv h') (sim : Similar h h') {l : Live}
    (ok : LiveOK h l) (b b' : Bool) (changes : Writes V) :
    ∃ o o', Live.finishWith b h l changes = .ok o ∧ Live.finishWith b' h' l changes = .ok o' ∧
      HeapInv (h ++ [o]) ∧ HeapInv (h' ++ [o']) ∧ Similar (h ++ [o]) (h' ++ [o']) := by
  have ok' := liveOK_similar sim ok
  obtain ⟨o, ho, inv, hv, hpar, hanc, hseq, _⟩ := finishWith_inv hinv ok b changes
  obtain ⟨o', ho', inv', hv', hpar', hanc', hseq', _⟩ := finishWith_inv hinv' ok' b' changes
  refine ⟨o, o', ho, ho', heapInv_push hinv inv, heapInv_push hinv' inv', ?_, ?_⟩
  · simp [sim.1]
  · intro i x x' hx hx'
    rcases Nat.lt_or_ge i h.length with hlt | hge
    · rw [List.getElem?_append_left hlt] at hx
      rw [List.getElem?_append_left (sim.1 ▸ hlt)] at hx'
      exact sim.2 i x x' hx hx'
    · have hi : i = h.length := by
        rcases Nat.lt_or_ge h.length i with hlt' | hge'
        · rw [List.getElem?_eq_none (by simp; omega)] at hx; cases hx
        · omega
      subst hi
      rw [List.getElem?_append_right (Nat.le_refl _)] at hx
      rw [List.getElem?_append_right (by rw [sim.1]; exact Nat.le_refl _)] at hx'
      simp at hx
      rw [sim.1] at hx'
      simp at hx'
      subst hx hx'
      refine ⟨?_, hv.trans hv'.symm, hpar.trans hpar'.symm, hanc.trans hanc'.symm⟩
      rw [hseq, hseq']
      cases hp : l.parent with
      | none => rfl
      | some p =>
        simp only
        cases hpo : h[p]? with
        | none =>
          have : h.length ≤ p := by
            rcases Nat.lt_or_ge p h.length with hlt | hge
            · rw [List.getElem?_eq_getElem hlt] at hpo; cases hpo
            · exact hge
          rw [List.getElem?_eq_none (sim.1 ▸ this)]
        | some po =>
          obtain ⟨po', hpo', hs, _⟩ := similar_get sim hpo
          rw [hpo']
          show po.seqn + 1 = po'.seqn + 1
          rw [hs]

/-! ### committed ancestors may leave the chain -/

/-- what a session reads: the youngest change along the chain, else the committed map -/
def readThrough (chain : List (Writes V)) (disk : KVL V) (k : Key) : Option V :=
  match chainLookup chain k with
  | some c => c
  | none => kvGet disk k

/-- the committed map after the overlays of a chain (youngest first) have been committed oldest-first -/
def applyChain (base : KVL V) (chain : List (Writes V)) : KVL V :=
  chain.foldr (fun ws acc => kvApply acc ws) base

theorem applyChain_sorted {base : KVL V} (hs : KSorted base) (chain : List (Writes V)) : KSorted (applyChain base chain) := by
  induction chain with
  | nil => exact hs
  | cons ws rest ih => exact kvApply_sorted ih ws

theorem readThrough_applyChain {base : KVL V} (hs : KSorted base) (older : List (Writes V))
    (hd : ∀ ws ∈ older, WDistinct ws) (k : Key) :
    readThrough older base k = kvGet (applyChain base older) k := by
  induction older with
  | nil => rfl
  | cons ws rest ih =>
    have ih' := ih (fun w hw => hd w (List.mem_cons_of_mem _ hw))
    show readThrough (ws :: rest) base k = kvGet (kvApply (applyChain base rest) ws) k
    rw [kvGet_kvApply_distinct (applyChain_sorted hs rest) (hd ws (List.mem_cons_self ..)), ← ih']
    unfold readThrough
    simp only [chainLookup]
    cases wsLookup ws k <;> rfl

/-- **committed ancestors may leave the chain**: once the changes of the `older` part of a chain are in the
committed map (committed oldest first), reading through the `younger` part alone gives what reading through
the whole chain over the old committed map gave -/
theorem readThrough_split {base : KVL V} (hs : KSorted base) (younger older : List (Writes V))
    (hd : ∀ ws ∈ older, WDistinct ws) (k : Key) :
    readThrough younger (applyChain base older) k = readThrough (younger ++ older) base k := by
  induction younger with
  | nil =>
    rw [List.nil_append, readThrough_applyChain hs older hd]
    rfl
  | cons ws rest ih =>
    unfold readThrough at ih ⊢
    simp only [List.cons_append, chainLookup]
    cases wsLookup ws k with
    | some c => rfl
    | none => exact ih

end Nomt.Ovl
