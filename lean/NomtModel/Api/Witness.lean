import NomtModel.Api.Exec
import NomtModel.Core.PathUpdateExec
import NomtModel.Core.Tree
/-!
Specification of a session witness (`core/src/witness.rs`, produced by `merkle::UpdateHandle::join`):
one path per terminal node reached by the session's read and written keys, each with the specified
path proof against the session's base root, the reads attested with the value (hash) the session saw,
and the writes listed under the path that covers them.  Canonical form: paths ascending, operations
ascending by key.
-/
namespace Nomt.Api
open Nomt
variable {Node VH : Type} [DecidableEq Node] [DecidableEq VH] (H : Hasher Node VH)

structure WPath (Node VH : Type) where
  path : List Bool
  proof : PathProof Node VH
  reads : List (Key × Option VH)
  writes : List (Key × Option VH)

/-- insert into a list sorted by `bitsLt` on the key, keeping it sorted (ties: keep first) -/
def insertKey {α : Type} (k : Key) (a : α) : List (Key × α) → List (Key × α)
  | [] => [(k, a)]
  | (k', a') :: rest =>
    if k' == k then (k', a') :: rest
    else if bitsLt k k' then (k, a) :: (k', a') :: rest
    else (k', a') :: insertKey k a rest

/-- group the (sorted) keys by the terminal their lookup ends in; `prover` yields the path proof of a key -/
def groupByTerminal (prover : Key → PathProof Node VH) : List (Key × (Bool × Option VH)) → List (WPath Node VH) → List (WPath Node VH)
  | [], acc => acc.reverse
  | (k, (isWrite, v)) :: rest, acc =>
    let p := prover k
    let path := k.take p.siblings.length
    let addTo (w : WPath Node VH) : WPath Node VH :=
      if isWrite then { w with writes := w.writes ++ [(k, v)] } else { w with reads := w.reads ++ [(k, v)] }
    match acc with
    | w :: ws =>
      if w.path == path then groupByTerminal prover rest (addTo w :: ws)
      else groupByTerminal prover rest (addTo { path := path, proof := p, reads := [], writes := [] } :: w :: ws)
    | [] => groupByTerminal prover rest [addTo { path := path, proof := p, reads := [], writes := [] }]

/-- the witness over `view` for the given read keys and writes, with path proofs from `prover` -/
def witnessWith (prover : Key → PathProof Node VH) (view : KVL VH) (reads : List Key) (writes : Writes VH) : List (WPath Node VH) :=
  -- reads attest the value seen; a key may be both read and written: two entries, read first
  let rs : List (Key × (Bool × Option VH)) := reads.foldl (fun acc k => insertKey k (false, kvGet view k) acc) []
  let ws : List (Key × (Bool × Option VH)) := writes.foldl (fun acc kw => insertKey kw.1 (true, kw.2) acc) []
  -- merge: reads and writes interleaved by key (reads before the write of the same key)
  let rec merge : Nat → List (Key × (Bool × Option VH)) → List (Key × (Bool × Option VH)) → List (Key × (Bool × Option VH))
    | 0, a, b => a ++ b
    | _, [], b => b
    | _, a, [] => a
    | fuel+1, (ka, xa) :: ra, (kb, xb) :: rb =>
      if bitsLt kb ka then (kb, xb) :: merge fuel ((ka, xa) :: ra) rb
      else (ka, xa) :: merge fuel ra ((kb, xb) :: rb)
  groupByTerminal prover (merge (rs.length + ws.length) rs ws) []

/-- the specified witness of a session over `view`: path proofs are `proveSpec` -/
def witnessSpec (view : KVL VH) (reads : List Key) (writes : Writes VH) : List (WPath Node VH) :=
  witnessWith (proveSpec H 256 view) view reads writes

/-- the same, reading all proofs off one cached-hash tree (what the driver executes) -/
def witnessFast (view : KVL VH) (reads : List Key) (writes : Writes VH) : List (WPath Node VH) :=
  witnessWith (treeProof H (mkTree H 256 0 view)) view reads writes

/-- the fast version IS the specification, for every canonical view -/
theorem witnessFast_eq (view : KVL VH) (hc : Canon 256 0 view) (reads : List Key) (writes : Writes VH) :
    witnessFast H view reads writes = witnessSpec H view reads writes := by
  have : treeProof H (mkTree H 256 0 view) = proveSpec H 256 view := by
    funext k; exact treeProof_eq H 256 view k hc
  simp [witnessFast, witnessSpec, this]

end Nomt.Api
