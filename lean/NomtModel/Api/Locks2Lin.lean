import NomtModel.Api.Locks2Inv
/-!
Linearizability of the write-guard sections of the two-lock LTS: the committed state is, at every moment at
which no write guard is held, the result of running the sequential specification `specStep` over the
finished sections **in the order in which they took the write guard**, with the same verdicts.

Two ingredients: (a) every call's critical section, run on its own, computes `specStep` of its operation
(`runCS_progOf`, a fact about the programs); (b) isolation — nobody but the guard's owner changes the
committed state (`typed`, `eff_db_of_not_own`).
-/
namespace Nomt.Locks2
variable {C R W D : Type} [DecidableEq R] (ops : DbOps C R W D)

/-- the continuation after the write guard has been taken -/
def afterAcq : List (Instr R W D) → List (Instr R W D)
  | [] => []
  | .aWrite2 :: rest => rest
  | .aTryWrite :: rest => rest
  | _ :: rest => afterAcq rest

/-- (a) the critical section of every call is its specification operation -/
theorem runCS_progOf (c : Call R W D) (o : WOp R W D) (ho : opOf c = some o) (rg : Regs C R D) (db : Db C R D) :
    runCS ops (afterAcq (progOf c)) rg db = specStep ops db o := by
  cases c with
  | commit cs io =>
    simp only [opOf, Option.some.injEq] at ho; subst ho
    cases hp : db.poisoned <;> by_cases hr : db.root = cs.base <;> cases io <;> cases hd : cs.delta <;>
      simp [progOf, afterAcq, runCS, eff, specStep, hp, hr, hd, IoPlan.logOk, IoPlan.storeOk]
  | tryCommit cs io =>
    simp only [opOf, Option.some.injEq] at ho; subst ho
    cases hp : db.poisoned <;> by_cases hr : db.root = cs.base <;> cases io <;> cases hd : cs.delta <;>
      simp [progOf, afterAcq, runCS, eff, specStep, hp, hr, hd, IoPlan.logOk, IoPlan.storeOk]
  | ovCommit cs id parent io =>
    simp only [opOf, Option.some.injEq] at ho; subst ho
    cases hp : db.poisoned <;> by_cases hr : db.root = cs.base <;> cases io <;> cases hd : cs.delta <;>
      simp [progOf, afterAcq, runCS, eff, specStep, hp, hr, hd, IoPlan.logOk, IoPlan.storeOk]
  | ovTryCommit cs id parent io =>
    simp only [opOf, Option.some.injEq] at ho; subst ho
    cases hp : db.poisoned <;> by_cases hr : db.root = cs.base <;> cases io <;> cases hd : cs.delta <;>
      simp [progOf, afterAcq, runCS, eff, specStep, hp, hr, hd, IoPlan.logOk, IoPlan.storeOk]
  | ovCommitHoldM cs id parent io =>
    simp only [opOf, Option.some.injEq] at ho; subst ho
    cases hp : db.poisoned <;> by_cases hr : db.root = cs.base <;> cases io <;> cases hd : cs.delta <;>
      simp [progOf, afterAcq, runCS, eff, specStep, hp, hr, hd, IoPlan.logOk, IoPlan.storeOk]
  | rollback n io =>
    by_cases hn : n = 0
    · simp [opOf, hn] at ho
    · simp only [opOf, hn, if_false, Option.some.injEq] at ho; subst ho
      by_cases hl : n > db.log.length <;> cases hp : db.poisoned <;> cases io <;>
        simp [progOf, hn, afterAcq, runCS, eff, specStep, hp, hl, IoPlan.logOk, IoPlan.storeOk]
  | _ => simp [opOf] at ho

end Nomt.Locks2

namespace Nomt.Locks2
variable {C R W D : Type} [DecidableEq R] (ops : DbOps C R W D)

theorem specRun_append (db : Db C R D) (l : List (WOp R W D)) (o : WOp R W D) :
    specRun ops db (l ++ [o]) =
      ((specStep ops (specRun ops db l).1 o).1, (specRun ops db l).2 ++ [(specStep ops (specRun ops db l).1 o).2]) := by
  induction l generalizing db with
  | nil => simp [specRun]
  | cons a l ih => simp [specRun, ih]

/-- the linearization invariant (`db0` = the committed state the LTS started from) -/
structure Lin (db0 : Db C R D) (s : S C R W D) : Prop where
  hasop : ∀ t, s.wbit = some t → (s.thr t).op.isSome
  pending : ∀ t o, (s.thr t).op = some o → ¬ (s.wbit = some t ∧ s.wown = true) →
    ∀ db, runCS ops (afterAcq (s.thr t).prog) (s.thr t).regs db = specStep ops db o
  active : ∀ t, s.wbit = some t → s.wown = true →
    ∃ o, (s.thr t).op = some o ∧ runCS ops (s.thr t).prog (s.thr t).regs s.db = specStep ops s.base o
  hist : specRun ops db0 s.doneOps.reverse = (if s.wown then s.base else s.db, s.doneRes.reverse)

theorem lin_init (db : Db C R D) : Lin ops db (init db : S C R W D) := by
  refine ⟨?_, ?_, ?_, ?_⟩ <;> simp [init, specRun]

/-- a step of `t` that neither takes nor releases the write guard -/
theorem lin_quiet {db0 : Db C R D} {t : Tid} {s s' : S C R W D} (h : Lin ops db0 s)
    (ha : ∀ u, u ≠ t → s'.thr u = s.thr u)
    (hb : ∀ u, u ≠ t → (s'.wbit = some u ↔ s.wbit = some u))
    (hc1 : s'.wown = s.wown) (hc2 : s'.base = s.base) (hc3 : s'.doneOps = s.doneOps)
    (hc4 : s'.doneRes = s.doneRes)
    (hd : (s'.thr t).op = (s.thr t).op)
    (he : s'.wbit = some t → (s.thr t).op.isSome)
    (hf : s.wbit = some t → s.wown = true → s'.wbit = some t ∧
      runCS ops (s'.thr t).prog (s'.thr t).regs s'.db = runCS ops (s.thr t).prog (s.thr t).regs s.db)
    (hg : ¬ (s.wbit = some t ∧ s.wown = true) → ¬ (s'.wbit = some t ∧ s'.wown = true) ∧ s'.db = s.db ∧
      ((s.thr t).op.isSome → ∀ db, runCS ops (afterAcq (s'.thr t).prog) (s'.thr t).regs db
        = runCS ops (afterAcq (s.thr t).prog) (s.thr t).regs db)) :
    Lin ops db0 s' := by
  refine ⟨?_, ?_, ?_, ?_⟩
  · intro u hu
    by_cases hut : u = t
    · subst hut; rw [hd]; exact he hu
    · rw [ha u hut]; exact h.hasop u ((hb u hut).1 hu)
  · intro u o hop hno db
    by_cases hut : u = t
    · subst hut
      rw [hd] at hop
      have hno' : ¬ (s.wbit = some u ∧ s.wown = true) := by
        intro hh; exact hno ⟨(hf hh.1 hh.2).1, by rw [hc1]; exact hh.2⟩
      rw [(hg hno').2.2 (by simp [hop]) db]
      exact h.pending u o hop hno' db
    · rw [ha u hut] at hop ⊢
      exact h.pending u o hop (fun hh => hno ⟨(hb u hut).2 hh.1, by rw [hc1]; exact hh.2⟩) db
  · intro u hu hw
    rw [hc1] at hw
    by_cases hut : u = t
    · subst hut
      by_cases hown : s.wbit = some u
      · obtain ⟨o, ho, hr⟩ := h.active u hown hw
        exact ⟨o, by rw [hd]; exact ho, by rw [(hf hown hw).2, hc2]; exact hr⟩
      · exact absurd ⟨hu, by rw [hc1]; exact hw⟩ (hg (fun hh => hown hh.1)).1
    · have hu' := (hb u hut).1 hu
      obtain ⟨o, ho, hr⟩ := h.active u hu' hw
      have hnt : ¬ (s.wbit = some t ∧ s.wown = true) := by
        intro hh; rw [hh.1] at hu'; exact hut (Option.some.inj hu').symm
      refine ⟨o, by rw [ha u hut]; exact ho, ?_⟩
      rw [ha u hut, (hg hnt).2.1, hc2]; exact hr
  · rw [hc1, hc2, hc3, hc4]
    by_cases hw : s.wown = true
    · simp only [hw, if_true]; have := h.hist; simpa [hw] using this
    · have hw' : s.wown = false := by simpa using hw
      have hnt : ¬ (s.wbit = some t ∧ s.wown = true) := fun hh => hw hh.2
      simp only [hw', Bool.false_eq_true, if_false, (hg hnt).2.1]
      have := h.hist; simpa [hw'] using this

/-- scope exit of `t` with verdict `r`, the committed state being `db'` at that moment -/
theorem lin_abort {db0 : Db C R D} {t : Tid} {s : S C R W D} (h1 : Inv1 s) (h : Lin ops db0 s) (r : Res)
    (db' : Db C R D)
    (hown : s.wbit = some t → s.wown = true → ∀ o, (s.thr t).op = some o → specStep ops s.base o = (db', r))
    (hnot : ¬ (s.wbit = some t ∧ s.wown = true) → db' = s.db) :
    Lin ops db0 (abort { s with db := db' } t r) := by
  by_cases ho : s.wbit = some t
  · -- `t` owns WRITER_BIT
    have hother : ∀ u, u ≠ t → s.wbit ≠ some u := by
      intro u hu hh; rw [ho] at hh; exact hu (Option.some.inj hh).symm
    refine ⟨?_, ?_, ?_, ?_⟩
    · intro u hu; simp [abort, ho] at hu
    · intro u o hop _ db
      by_cases hut : u = t
      · subst hut; simp [abort] at hop
      · simp only [abort, upd_other _ _ _ _ hut] at hop ⊢
        exact h.pending u o hop (fun hh => hother u hut hh.1) db
    · intro u hu; simp [abort, ho] at hu
    · by_cases hw : s.wown = true
      · obtain ⟨o, hop, _⟩ := h.active t ho hw
        have hs := hown ho hw o hop
        have hh := h.hist
        simp only [hw, if_true] at hh
        simp only [abort, ho, hw, hop, beq_self_eq_true, Bool.and_self, if_true, List.reverse_cons,
          Bool.false_eq_true, if_false]
        rw [specRun_append, hh]; simp [hs]
      · have hw' : s.wown = false := by simpa using hw
        have hh := h.hist
        simp only [hw', Bool.false_eq_true, if_false] at hh
        have hdb := hnot (fun hh => hw hh.2)
        simp only [abort, ho, hw', beq_self_eq_true, Bool.and_false, Bool.false_eq_true, if_false, if_true, hdb]
        exact hh
  · -- `t` owns nothing of the write lock
    have hdb := hnot (fun hh => ho hh.1)
    have hbne : (s.wbit == some t) = false := by simpa using ho
    refine ⟨?_, ?_, ?_, ?_⟩
    · intro u hu
      simp only [abort, hbne, Bool.false_eq_true, if_false] at hu
      have hut : u ≠ t := by intro e; subst e; exact ho hu
      simp only [abort, upd_other _ _ _ _ hut]
      exact h.hasop u hu
    · intro u o hop hno db
      by_cases hut : u = t
      · subst hut; simp [abort] at hop
      · simp only [abort, upd_other _ _ _ _ hut, hbne, Bool.false_eq_true, if_false] at hop hno ⊢
        exact h.pending u o hop hno db
    · intro u hu hw
      simp only [abort, hbne, Bool.false_eq_true, if_false] at hu hw
      have hut : u ≠ t := by intro e; subst e; exact ho hu
      obtain ⟨o, hop, hr⟩ := h.active u hu hw
      refine ⟨o, by simp only [abort, upd_other _ _ _ _ hut]; exact hop, ?_⟩
      simp only [abort, upd_other _ _ _ _ hut, hdb]; exact hr
    · have hh := h.hist
      simp only [abort, hbne, Bool.false_and, Bool.false_eq_true, if_false, hdb]
      exact hh

end Nomt.Locks2

namespace Nomt.Locks2
variable {C R W D : Type} [DecidableEq R] (ops : DbOps C R W D)

theorem runCS_cons_isEff (i : Instr R W D) (rest : List (Instr R W D)) (hi : i.isEff = true)
    (rg : Regs C R D) (db : Db C R D) :
    runCS ops (i :: rest) rg db =
      match eff ops i rg db with
      | .cont rg' db' => runCS ops rest rg' db'
      | .stop r db' => (db', r) := by
  cases i <;> simp [Instr.isEff] at hi <;> rfl

theorem afterAcq_cons_isEff (i : Instr R W D) (rest : List (Instr R W D)) (hi : i.isEff = true) :
    afterAcq (i :: rest) = afterAcq rest := by
  cases i <;> simp [Instr.isEff] at hi <;> rfl

/-- before the write guard is taken the registers are not touched -/
theorem eff_regs_of_pre (i : Instr R W D) (rest : List (Instr R W D)) (hm : Bool)
    (h : wf hm .pre (i :: rest) = true) (rg rg' : Regs C R D) (db db' : Db C R D)
    (he : eff ops i rg db = .cont rg' db') : rg' = rg := by
  cases i <;> simp [wf] at h <;> simp [eff] at he <;>
    first
    | exact he.1.symm
    | ((repeat' (split at he)) <;> simp_all)

theorem wsOf_pre_of (s : S C R W D) (t : Tid) (h1 : s.wbit ≠ some t) (h2 : (s.thr t).op.isSome = true) :
    wsOf s t = .pre := by simp [wsOf, h1, h2]

theorem wsOf_cases (s : S C R W D) (t : Tid) :
    (wsOf s t = .own ∧ s.wbit = some t ∧ s.wown = true) ∨
    (wsOf s t = .bit ∧ s.wbit = some t ∧ s.wown = false) ∨
    (wsOf s t = .pre ∧ s.wbit ≠ some t ∧ (s.thr t).op.isSome = true) ∨
    (wsOf s t = .none ∧ s.wbit ≠ some t ∧ (s.thr t).op = none) := by
  unfold wsOf
  by_cases h1 : s.wbit = some t
  · cases h2 : s.wown <;> simp [h1]
  · cases h3 : (s.thr t).op <;> simp [h1]

end Nomt.Locks2

namespace Nomt.Locks2
variable {C R W D : Type} [DecidableEq R] (ops : DbOps C R W D)

theorem lin_eff {db0 : Db C R D} (s : S C R W D) (t : Tid) (i : Instr R W D) (rest : List (Instr R W D))
    (h1 : Inv1 s) (h : Lin ops db0 s) (hp : (s.thr t).prog = i :: rest) (hi : i.isEff = true) :
    Lin ops db0 (exec ops s t i rest).1 := by
  have ht := h1.typed t
  rw [hp] at ht
  have hnown : ¬ (s.wbit = some t ∧ s.wown = true) → wsOf s t ≠ .own := by
    intro hh e; exact hh ((wsOf_own_iff s t).1 e)
  rw [exec_isEff ops s t i rest hi]
  cases he : eff ops i (s.thr t).regs s.db with
  | cont rg db =>
    simp only
    refine lin_quiet ops h (fun u hu => by simp [upd_other _ _ _ _ hu]) (fun _ _ => Iff.rfl) rfl rfl rfl rfl
      (by simp) (fun hw => h.hasop t hw) ?_ ?_
    · intro hw _
      refine ⟨hw, ?_⟩
      simp only [upd_same, hp]
      rw [runCS_cons_isEff ops i rest hi, he]
    · intro hno
      have hdb := (eff_db_of_not_own ops i rest _ _ (hnown hno) ht (s.thr t).regs s.db).1 _ _ he
      refine ⟨hno, hdb, ?_⟩
      intro hop db1
      simp only [upd_same, hp, afterAcq_cons_isEff i rest hi]
      rcases wsOf_cases s t with ⟨hw, _⟩ | ⟨hw, _⟩ | ⟨hw, _⟩ | ⟨_, _, hnone⟩
      · exact absurd hw (hnown hno)
      · rw [hw] at ht
        cases i <;> simp [Instr.isEff] at hi <;> simp [wf] at ht
      · rw [hw] at ht
        rw [eff_regs_of_pre ops i rest _ ht _ _ _ _ he]
      · rw [hnone] at hop; cases hop
  | stop r db =>
    simp only
    split
    · -- inside the write-guard section: the unwinding path is entered (guards still held)
      rename_i hown
      simp only [Bool.and_eq_true, beq_iff_eq] at hown
      refine lin_quiet ops h (fun u hu => by simp [upd_other _ _ _ _ hu]) (fun _ _ => Iff.rfl) rfl rfl rfl rfl
        (by simp) (fun hw => h.hasop t hw) ?_ ?_
      · intro hw _
        refine ⟨hw, ?_⟩
        simp only [upd_same, hp]
        rw [runCS_cons_isEff ops i rest hi, he]
        cases (s.m == some t) <;> simp [unwind, runCS, eff]
      · intro hno; exact absurd hown hno
    · rename_i hnown'
      have hno : ¬ (s.wbit = some t ∧ s.wown = true) := by
        simpa only [Bool.and_eq_true, beq_iff_eq] using hnown'
      refine lin_abort ops h1 h r db ?_ ?_
      · intro hw hwo; exact absurd ⟨hw, hwo⟩ hno
      · intro _
        exact (eff_db_of_not_own ops i rest _ _ (hnown hno) ht (s.thr t).regs s.db).2 _ _ he

theorem lin_exec {db0 : Db C R D} (s : S C R W D) (t : Tid) (i : Instr R W D) (rest : List (Instr R W D))
    (h1 : Inv1 s) (h : Lin ops db0 s) (hp : (s.thr t).prog = i :: rest) :
    Lin ops db0 (exec ops s t i rest).1 := by
  by_cases hi : i.isEff = true
  · exact lin_eff ops s t i rest h1 h hp hi
  have ht := h1.typed t
  rw [hp] at ht
  -- a step that moves `t` past a micro-step transparent to `runCS` / `afterAcq`
  have quiet : ∀ (s' : S C R W D), (∀ u, u ≠ t → s'.thr u = s.thr u) → s'.wbit = s.wbit → s'.wown = s.wown →
      s'.base = s.base → s'.doneOps = s.doneOps → s'.doneRes = s.doneRes → s'.db = s.db →
      (s'.thr t).op = (s.thr t).op → (s'.thr t).regs = (s.thr t).regs → (s'.thr t).prog = rest →
      (∀ rg db, runCS ops (i :: rest) rg db = runCS ops rest rg db) → afterAcq (i :: rest) = afterAcq rest →
      Lin ops db0 s' := by
    intro s' ha hb hc1 hc2 hc3 hc4 hdb hop hrg hpr hrun haft
    refine lin_quiet ops h ha (fun _ _ => by rw [hb]) hc1 hc2 hc3 hc4 hop
      (fun hw => h.hasop t (hb ▸ hw)) ?_ ?_
    · intro hw _
      exact ⟨hb ▸ hw, by rw [hpr, hrg, hdb, hp, hrun]⟩
    · intro hno
      exact ⟨by rw [hb, hc1]; exact hno, hdb, fun _ db => by rw [hpr, hrg, hp, haft]⟩
  cases i with
  | aRead sid =>
    simp only [exec]
    split
    · exact h
    · exact quiet _ (fun u hu => by simp [upd_other _ _ _ _ hu]) rfl rfl rfl rfl rfl rfl (by simp) (by simp)
        (by simp) (fun _ _ => rfl) rfl
  | aReadUnlock sid =>
    simp only [exec]
    exact quiet _ (fun u hu => by simp [upd_other _ _ _ _ hu]) rfl rfl rfl rfl rfl rfl (by simp) (by simp)
      (by simp) (fun _ _ => rfl) rfl
  | mLock =>
    simp only [exec]
    split
    · exact h
    · exact quiet _ (fun u hu => by simp [upd_other _ _ _ _ hu]) rfl rfl rfl rfl rfl rfl (by simp) (by simp)
        (by simp) (fun _ _ => rfl) rfl
  | mUnlock =>
    simp only [exec]
    exact quiet _ (fun u hu => by simp [upd_other _ _ _ _ hu]) rfl rfl rfl rfl rfl rfl (by simp) (by simp)
      (by simp) (fun _ _ => rfl) rfl
  | sessRoot sid =>
    simp only [exec]
    exact quiet _ (fun u hu => by simp [upd_other _ _ _ _ hu]) rfl rfl rfl rfl rfl rfl (by simp) (by simp)
      (by simp) (fun _ _ => rfl) rfl
  | sessBase sid b =>
    simp only [exec]
    exact quiet _ (fun u hu => by simp [upd_other _ _ _ _ hu]) rfl rfl rfl rfl rfl rfl (by simp) (by simp)
      (by simp) (fun _ _ => rfl) rfl
  | finChk sid =>
    simp only [exec]
    split
    · -- the finish is refused: the continuation becomes "drop the session, return the error"; the thread has no write section
      have hnone : (s.thr t).op = none := by
        rcases wsOf_cases s t with ⟨hw, _⟩ | ⟨hw, _⟩ | ⟨hw, _⟩ | ⟨hw, _, hop⟩ <;> rw [hw] at ht <;> simp [wf] at ht
        exact hop
      have hnw : s.wbit ≠ some t := by
        rcases wsOf_cases s t with ⟨hw, _⟩ | ⟨hw, _⟩ | ⟨hw, _⟩ | ⟨hw, h2, _⟩ <;> rw [hw] at ht <;> simp [wf] at ht
        exact h2
      refine lin_quiet ops h (fun u hu => by simp [upd_other _ _ _ _ hu]) (fun _ _ => Iff.rfl) rfl rfl rfl rfl
        (by simp) (fun hw => absurd hw hnw) (fun hw => absurd hw hnw) ?_
      intro hno
      exact ⟨hno, rfl, fun hop => by simp [hnone] at hop⟩
    · exact quiet _ (fun u hu => by simp [upd_other _ _ _ _ hu]) rfl rfl rfl rfl rfl rfl (by simp) (by simp)
        (by simp) (fun _ _ => rfl) rfl
  | ret r =>
    simp only [exec]
    have hrest : rest = [] := by
      rcases wsOf_cases s t with ⟨hw, _⟩ | ⟨hw, _⟩ | ⟨hw, _⟩ | ⟨hw, _⟩ <;> rw [hw] at ht <;> simp [wf] at ht
      exact ht.2
    subst hrest
    exact quiet _ (fun u hu => by simp [upd_other _ _ _ _ hu]) rfl rfl rfl rfl rfl rfl (by simp) (by simp)
      (by simp) (fun _ _ => rfl) rfl
  | aWrite1 =>
    simp only [exec]
    split
    · exact h
    · rename_i hwb
      have hwb' : s.wbit = none := by simpa using hwb
      have hnw : s.wown = false := by
        cases hw : s.wown with
        | false => rfl
        | true => have := h1.wown_bit hw; simp [hwb'] at this
      have hpre : (s.thr t).op.isSome = true := by
        rcases wsOf_cases s t with ⟨hw, _⟩ | ⟨hw, _⟩ | ⟨hw, _, hop⟩ | ⟨hw, _⟩ <;> rw [hw] at ht <;>
          simp [wf] at ht
        exact hop
      refine lin_quiet ops h (fun u hu => by simp [upd_other _ _ _ _ hu]) ?_ rfl rfl rfl rfl (by simp)
        (fun _ => hpre) ?_ ?_
      · intro u hu
        have hu' : ¬ t = u := fun e => hu e.symm
        simp [hwb', hu']
      · intro hw; simp [hwb'] at hw
      · intro _
        refine ⟨by simp [hnw], rfl, fun _ db => ?_⟩
        simp [hp, afterAcq]
  | aWrite2 =>
    simp only [exec]
    split
    · exact h
    · have hws : wsOf s t = .bit := by
        rcases wsOf_cases s t with ⟨hw, _⟩ | ⟨hw, _⟩ | ⟨hw, _⟩ | ⟨hw, _⟩ <;> first | exact hw | (rw [hw] at ht; simp [wf] at ht)
      obtain ⟨hwb, hnw⟩ := (wsOf_bit_iff s t).1 hws
      have hother : ∀ u, u ≠ t → s.wbit ≠ some u := by
        intro u hu hh; rw [hwb] at hh; exact hu (Option.some.inj hh).symm
      have hop := h.hasop t hwb
      obtain ⟨o, ho⟩ := Option.isSome_iff_exists.1 hop
      refine ⟨?_, ?_, ?_, ?_⟩
      · intro u hu
        by_cases hut : u = t
        · subst hut; simpa using hop
        · exact absurd hu (hother u hut)
      · intro u o' hop' hno db
        have hut : u ≠ t := by
          intro e; subst e; exact hno ⟨hwb, rfl⟩
        simp only [upd_other _ _ _ _ hut] at hop' ⊢
        exact h.pending u o' hop' (fun hh => hother u hut hh.1) db
      · intro u hu _
        have hut : u = t := by
          by_cases e : u = t
          · exact e
          · exact absurd hu (hother u e)
        subst hut
        refine ⟨o, by simpa using ho, ?_⟩
        have := h.pending u o ho (by simp [hnw]) s.db
        simpa [hp, afterAcq] using this
      · have := h.hist
        simpa [hnw] using this
  | aTryWrite =>
    simp only [exec]
    have hpre : s.wbit ≠ some t ∧ (s.thr t).op.isSome = true := by
      rcases wsOf_cases s t with ⟨hw, _⟩ | ⟨hw, _⟩ | ⟨hw, h2, hop⟩ | ⟨hw, _⟩ <;> rw [hw] at ht <;>
        simp [wf] at ht
      exact ⟨h2, hop⟩
    split
    · exact lin_abort ops h1 h .busy s.db (fun hw => absurd hw hpre.1) (fun _ => rfl)
    · rename_i hc
      simp only [Bool.or_eq_true, not_or, Bool.not_eq_true', Bool.not_eq_true, Option.isSome_eq_false_iff,
        Option.isNone_iff_eq_none, Bool.not_eq_false] at hc
      obtain ⟨hwb', _⟩ := hc
      have hnw : s.wown = false := by
        cases hw : s.wown with
        | false => rfl
        | true => have := h1.wown_bit hw; simp [hwb'] at this
      obtain ⟨o, ho⟩ := Option.isSome_iff_exists.1 hpre.2
      refine ⟨?_, ?_, ?_, ?_⟩
      · intro u hu
        have hut : u = t := by simpa using hu.symm
        subst hut; simpa using hpre.2
      · intro u o' hop' hno db
        have hut : u ≠ t := by
          intro e; subst e; exact hno ⟨rfl, rfl⟩
        simp only [upd_other _ _ _ _ hut] at hop' ⊢
        exact h.pending u o' hop' (by simp [hwb']) db
      · intro u hu _
        have hut : u = t := by simpa using hu.symm
        subst hut
        refine ⟨o, by simpa using ho, ?_⟩
        have := h.pending u o ho (by simp [hnw]) s.db
        simpa [hp, afterAcq] using this
      · have := h.hist
        simpa [hnw] using this
  | aWriteUnlock rv =>
    simp only [exec]
    have hown : s.wbit = some t ∧ s.wown = true := by
      rcases wsOf_cases s t with ⟨hw, h2, h3⟩ | ⟨hw, _⟩ | ⟨hw, _⟩ | ⟨hw, _⟩ <;> rw [hw] at ht <;>
        simp [wf] at ht
      exact ⟨h2, h3⟩
    have hother : ∀ u, u ≠ t → s.wbit ≠ some u := by
      intro u hu hh; rw [hown.1] at hh; exact hu (Option.some.inj hh).symm
    obtain ⟨o, ho, hr⟩ := h.active t hown.1 hown.2
    rw [hp] at hr
    simp only [runCS] at hr
    refine ⟨?_, ?_, ?_, ?_⟩
    · intro u hu; simp at hu
    · intro u o' hop' _ db
      by_cases hut : u = t
      · subst hut; simp at hop'
      · simp only [upd_other _ _ _ _ hut] at hop' ⊢
        exact h.pending u o' hop' (fun hh => hother u hut hh.1) db
    · intro u hu; simp at hu
    · have hh := h.hist
      simp only [hown.2, if_true] at hh
      simp only [ho, List.reverse_cons, Bool.false_eq_true, if_false]
      rw [specRun_append, hh, ← hr]
  | _ => simp [Instr.isEff] at hi

theorem lin_next {db0 : Db C R D} (s : S C R W D) (e : Event R W D) (h1 : Inv1 s) (h : Lin ops db0 s) :
    Lin ops db0 (next ops s e).1 := by
  cases e with
  | call t c =>
    simp only [next]
    split
    · rename_i hidle
      have hp : (s.thr t).prog = [] := by simpa using hidle
      obtain ⟨_, hw, hop⟩ := idle_facts s t h1 hp
      refine ⟨?_, ?_, ?_, h.hist⟩
      · intro u hu
        have hut : u ≠ t := by intro e; subst e; exact hw hu
        simp only [upd_other _ _ _ _ hut]; exact h.hasop u hu
      · intro u o hop' hno db
        by_cases hut : u = t
        · subst hut
          simp only [upd_same] at hop' ⊢
          exact runCS_progOf ops c o hop' _ db
        · simp only [upd_other _ _ _ _ hut] at hop' ⊢
          exact h.pending u o hop' hno db
      · intro u hu hwo
        have hut : u ≠ t := by intro e; subst e; exact hw hu
        simp only [upd_other _ _ _ _ hut]; exact h.active u hu hwo
    · exact h
  | step t =>
    simp only [next]
    split
    · exact h
    · rename_i i rest hp
      exact lin_exec ops s t i rest h1 h hp
  | spur t u =>
    simp only [next]
    split
    · rename_i rest hp
      split
      · have ht := h1.typed t
        rw [hp] at ht
        have hpre : s.wbit ≠ some t := by
          rcases wsOf_cases s t with ⟨hw, _⟩ | ⟨hw, _⟩ | ⟨hw, h2, _⟩ | ⟨hw, _⟩ <;> rw [hw] at ht <;>
            simp [wf] at ht
          exact h2
        exact lin_abort ops h1 h .busy s.db (fun hw => absurd hw hpre) (fun _ => rfl)
      · exact h
    · exact h

theorem inv_lin_run {db0 : Db C R D} (evs : List (Event R W D)) (s : S C R W D)
    (he : ∀ e ∈ evs, e.isCode = true) (h1 : Inv1 s) (h : Lin ops db0 s) :
    Inv1 (run ops s evs) ∧ Lin ops db0 (run ops s evs) := by
  induction evs generalizing s with
  | nil => exact ⟨h1, h⟩
  | cons e rest ih =>
    exact ih _ (fun e' he' => he e' (List.mem_cons_of_mem _ he')) (inv1_next ops s e (he e (by simp)) h1)
      (lin_next ops s e h1 h)

end Nomt.Locks2
