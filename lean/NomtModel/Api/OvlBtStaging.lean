import NomtModel.Api.OvlBtIter
/-!
`StagingIterator` (mirror in `Api/OvlBtIter.lean`): `peek` / `next` walk the merge of the two staging maps in
which the primary map wins on equal keys; as a change list that merge acts like "secondary first, then
primary".  (Helper lemmas for `Props/C05_BtIter.lean`.)
-/
namespace Nomt.Ovl
open Nomt
variable {V : Type}

/-- the stream `StagingIterator` produces: both maps merged, primary wins on equal keys -/
def smerge : List (Key × Option V) → List (Key × Option V) → List (Key × Option V)
  | [], s => s
  | p :: ps, [] => p :: ps
  | p :: ps, q :: qs =>
    if bitsLt p.1 q.1 then p :: smerge ps (q :: qs)
    else if p.1 == q.1 then p :: smerge ps qs
    else q :: smerge (p :: ps) qs

def Staging.stream (s : Staging V) : List (Key × Option V) := smerge s.primary s.secondary

theorem smerge_nil_right (p : List (Key × Option V)) : smerge p [] = p := by
  cases p <;> simp [smerge]

theorem staging_peek (s : Staging V) : s.peek = s.stream.head? := by
  obtain ⟨p, q⟩ := s
  unfold Staging.peek Staging.stream
  cases p with
  | nil => cases q <;> simp [smerge]
  | cons x xs =>
    cases q with
    | nil => simp [smerge]
    | cons y ys =>
      simp only [List.head?_cons, smerge]
      by_cases h1 : bitsLt x.1 y.1 = true
      · have : bitsLt y.1 x.1 = false := bitsLt_asymm h1
        simp [h1, this]
      · have h1' : bitsLt x.1 y.1 = false := by simpa using h1
        by_cases h2 : x.1 = y.1
        · have : bitsLt y.1 x.1 = false := by rw [h2]; exact bitsLt_irrefl _
          have hb : (x.1 == y.1) = true := by simpa using h2
          simp [h1', hb, this]
        · have : bitsLt y.1 x.1 = true := bitsLt_of_not h1' h2
          have hb : (x.1 == y.1) = false := by simpa using h2
          simp [h1', hb, this]

theorem staging_next (s : Staging V) : s.next.2 = s.stream.head? ∧ s.next.1.stream = s.stream.tail := by
  obtain ⟨p, q⟩ := s
  unfold Staging.next Staging.stream
  cases p with
  | nil => cases q <;> simp [smerge]
  | cons x xs =>
    cases q with
    | nil => simp [smerge, smerge_nil_right]
    | cons y ys =>
      simp only [smerge]
      by_cases h1 : bitsLt x.1 y.1 = true
      · simp [h1]
      · have h1' : bitsLt x.1 y.1 = false := by simpa using h1
        by_cases h2 : (x.1 == y.1) = true
        · simp [h1', h2]
        · have h2' : (x.1 == y.1) = false := by simpa using h2
          simp [h1', h2']

theorem smerge_length (p s : List (Key × Option V)) : (smerge p s).length ≤ p.length + s.length := by
  induction p generalizing s with
  | nil => simp [smerge]
  | cons x xs ih =>
    induction s with
    | nil => simp [smerge]
    | cons y ys ih2 =>
      simp only [smerge]
      split
      · have := ih (y :: ys); simp at this ⊢; omega
      · split
        · have := ih ys; simp at this ⊢; omega
        · simp at ih2 ⊢; omega

theorem smerge_mem {p s : List (Key × Option V)} {e : Key × Option V} (h : e ∈ smerge p s) : e ∈ p ∨ e ∈ s := by
  induction p generalizing s with
  | nil => simp [smerge] at h; exact .inr h
  | cons x xs ih =>
    induction s with
    | nil => rw [smerge_nil_right] at h; exact .inl h
    | cons y ys ih2 =>
      simp only [smerge] at h
      split at h
      · rcases List.mem_cons.1 h with e1 | e1
        · exact .inl (e1 ▸ List.mem_cons_self ..)
        · rcases ih e1 with e2 | e2
          · exact .inl (List.mem_cons_of_mem _ e2)
          · exact .inr e2
      · split at h
        · rcases List.mem_cons.1 h with e1 | e1
          · exact .inl (e1 ▸ List.mem_cons_self ..)
          · rcases ih e1 with e2 | e2
            · exact .inl (List.mem_cons_of_mem _ e2)
            · exact .inr (List.mem_cons_of_mem _ e2)
        · rcases List.mem_cons.1 h with e1 | e1
          · exact .inr (e1 ▸ List.mem_cons_self ..)
          · rcases ih2 e1 with e2 | e2
            · exact .inl e2
            · exact .inr (List.mem_cons_of_mem _ e2)

theorem smerge_sorted {p s : List (Key × Option V)} (hp : OvSorted p) (hs : OvSorted s) : OvSorted (smerge p s) := by
  induction p generalizing s with
  | nil => simpa [smerge] using hs
  | cons x xs ih =>
    induction s with
    | nil => rw [smerge_nil_right]; exact hp
    | cons y ys ih2 =>
      obtain ⟨hx, hxs⟩ := List.pairwise_cons.1 hp
      obtain ⟨hy, hys⟩ := List.pairwise_cons.1 hs
      simp only [smerge]
      by_cases h1 : bitsLt x.1 y.1 = true
      · simp only [h1, if_true]
        refine List.pairwise_cons.2 ⟨fun e he => ?_, ih hxs hs⟩
        rcases smerge_mem he with e1 | e1
        · exact hx e e1
        · rcases List.mem_cons.1 e1 with e2 | e2
          · subst e2; exact h1
          · exact bitsLt_trans h1 (hy e e2)
      · have h1' : bitsLt x.1 y.1 = false := by simpa using h1
        by_cases h2 : x.1 = y.1
        · have hb : (x.1 == y.1) = true := by simpa using h2
          simp only [h1', Bool.false_eq_true, if_false, hb, if_true]
          refine List.pairwise_cons.2 ⟨fun e he => ?_, ih hxs hys⟩
          rcases smerge_mem he with e1 | e1
          · exact hx e e1
          · rw [h2]; exact hy e e1
        · have hb : (x.1 == y.1) = false := by simpa using h2
          have hlt : bitsLt y.1 x.1 = true := bitsLt_of_not h1' h2
          simp only [h1', Bool.false_eq_true, if_false, hb]
          refine List.pairwise_cons.2 ⟨fun e he => ?_, ih2 hys⟩
          rcases smerge_mem he with e1 | e1
          · rcases List.mem_cons.1 e1 with e2 | e2
            · subst e2; exact hlt
            · exact bitsLt_trans hlt (hx e e2)
          · exact hy e e1

/-- reading a key from the merged stream: the primary map's change, else the secondary's -/
theorem wsLookup_smerge {p s : List (Key × Option V)} (hp : OvSorted p) (hs : OvSorted s) (k : Key) :
    wsLookup (smerge p s) k = match wsLookup p k with | some c => some c | none => wsLookup s k := by
  induction p generalizing s with
  | nil => simp [smerge, wsLookup]
  | cons x xs ih =>
    induction s with
    | nil => rw [smerge_nil_right]; cases wsLookup (x :: xs) k <;> simp [wsLookup]
    | cons y ys ih2 =>
      obtain ⟨hx, hxs⟩ := List.pairwise_cons.1 hp
      obtain ⟨hy, hys⟩ := List.pairwise_cons.1 hs
      obtain ⟨xk, xv⟩ := x
      obtain ⟨yk, yv⟩ := y
      simp only [smerge]
      by_cases h1 : bitsLt xk yk = true
      · simp only [h1, if_true, wsLookup]
        by_cases hk : (xk == k) = true
        · simp [hk]
        · simp only [hk, Bool.false_eq_true, if_false]
          rw [ih hxs hs]; rfl
      · have h1' : bitsLt xk yk = false := by simpa using h1
        by_cases h2 : xk = yk
        · subst h2
          simp only [h1', Bool.false_eq_true, if_false, beq_self_eq_true, if_true, wsLookup]
          by_cases hk : (xk == k) = true
          · simp [hk]
          · simp only [hk, Bool.false_eq_true, if_false]
            rw [ih hxs hys]
        · have hb : (xk == yk) = false := by simpa using h2
          have hlt : bitsLt yk xk = true := bitsLt_of_not h1' h2
          simp only [h1', Bool.false_eq_true, if_false, hb]
          simp only [wsLookup] at ih2 ⊢
          by_cases hk : (yk == k) = true
          · have hyk : yk = k := by simpa using hk
            have hxk : (xk == k) = false := by
              rw [← hyk]; simpa using fun e => h2 e
            have hxs_none : wsLookup xs k = none := by
              rw [wsLookup_eq_none_iff]
              intro kw hkw e
              have := hx kw hkw
              simp only at this
              rw [e, ← hyk] at this
              have := bitsLt_trans this hlt
              rw [bitsLt_irrefl] at this; cases this
            simp [hk, hxk, hxs_none]
          · simp only [hk, Bool.false_eq_true, if_false]
            rw [ih2 hys]

end Nomt.Ovl
