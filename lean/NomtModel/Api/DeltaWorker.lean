import NomtModel.Api.DeltaBuild
/-!
# Mirror of `ReverseDeltaWorker` (C09): `rollback/reverse_delta_worker.rs`, `beatree::AsyncLookup`, `overflow::AsyncReader`

The asynchronous bookkeeping behind `handle_lookup` of `Api/DeltaBuild.lean`: `requests : HashMap<u64, LiveRequest>`
(an association list with distinct keys), regular request ids counting up from 0, overflow request ids counting down
from `u64::MAX`, `dormant_request_count`, `handle_lookup`, `handle_completion` (both arms), `resubmit_overflow` with the
`TARGET_OVERFLOW_REQUESTS` throttle, the shutdown rule (`store = None` once `shutdown` and no request is left).

What the worker sees of a pending lookup (`AsyncLookup`, mirrored with its three states and both `unwrap`s): a leaf
load in flight (`initial`), or an overflow value being read page by page through `AsyncReader` — mirrored by its
counters: `request_index`, `process_index`, the pages that arrived out of order, and `pages.len()` = the number of
page numbers known after `process_index` pages have been parsed (`Layout.known`; the cell holds at most 15, the rest
is learned from the pages themselves — the shape of F12).  Page contents are not modelled: a finished lookup of `k`
yields `val k`.

The environment: an I/O command is in flight exactly for every `OverflowPage` entry and every `Main` entry that is
not dormant (`active`); `Enabled w ud` = a completion for `ud` can arrive.
-/
namespace Nomt.Wk
open Nomt
variable {V : Type}

def MAXU64 : Nat := 18446744073709551615
def TARGET_OVERFLOW_REQUESTS : Nat := 128

/-- an overflow value: `total` pages; after `p` pages have been parsed `known p` page numbers are known -/
structure Layout where
  total : Nat
  known : Nat → Nat

structure Layout.WF (L : Layout) : Prop where
  le : ∀ p, L.known p ≤ L.total
  mono : ∀ p q, p ≤ q → L.known p ≤ L.known q
  prog : ∀ p, p < L.total → p < L.known p
  pos : 0 < L.total

/-- `overflow::AsyncReader` -/
structure Reader where
  lay : Layout
  req : Nat := 0                 -- `request_index`
  proc : Nat := 0                -- `process_index`
  arrived : List Nat := []       -- indices whose page is `Some` (arrived, not yet parsed)

/-- `AsyncReader::submit` -/
def Reader.submit (rd : Reader) : Option Nat × Reader :=
  if rd.req = rd.lay.total ∨ rd.lay.known rd.proc ≤ rd.req then (none, rd)
  else (some rd.req, { rd with req := rd.req + 1 })

/-- `continue_parse` -/
def parse (total : Nat) : Nat → Nat → List Nat → Nat × List Nat
  | 0, p, a => (p, a)
  | f + 1, p, a => if p < total ∧ p ∈ a then parse total f (p + 1) (a.erase p) else (p, a)

/-- `AsyncReader::complete`; `true`: the value is complete -/
def Reader.complete (rd : Reader) (idx : Nat) : Outcome Unit (Bool × Reader) :=
  if rd.lay.known rd.proc ≤ idx then .panic "AsyncReader::complete: self.pages[index]"
  else
    let a := idx :: rd.arrived
    let pa := if idx = rd.proc then parse rd.lay.total a.length rd.proc a else (rd.proc, a)
    let rd' : Reader := { rd with proc := pa.1, arrived := pa.2 }
    if pa.1 = rd.lay.total then
      if rd.lay.known pa.1 = rd.lay.total then .ok (true, rd')
      else .panic "AsyncReader::complete: assert_eq!(self.pages.len(), self.total_pages)"
    else .ok (false, rd')

/-- `AsyncLookupState` -/
inductive Look where
  | initial (ov : Option Layout)                 -- leaf load in flight; `some L`: the value is an overflow value
  | overflow (rd : Reader) (initialMeta : Option Nat)
  | done

/-- `AsyncLookup::submit` -/
def Look.submit : Look → Option Nat × Look
  | .overflow rd im => ((rd.submit).1, .overflow (rd.submit).2 im)
  | l => (none, l)

/-- `AsyncLookup::try_finish`; `true`: `Some(value)` -/
def Look.tryFinish (l : Look) (mi : Option Nat) : Outcome Unit (Bool × Look) :=
  match l with
  | .done => .ok (false, .done)
  | .initial none => .ok (true, .done)
  | .initial (some L) => .ok (false, .overflow { lay := L } none)
  | .overflow rd im =>
    let pick : Option (Nat × Option Nat) := match mi with
      | some i => some (i, im)
      | none => (match im with | some i => some (i, none) | none => none)
    match pick with
    | none => .panic "AsyncLookup::try_finish: initial_meta.take().unwrap()"
    | some (idx, im') =>
      match rd.complete idx with
      | .ok (fin, rd') => .ok (fin, if fin then .done else .overflow rd' im')
      | .err e => .err e
      | .panic s => .panic s

/-- `LiveRequest` -/
inductive Req where
  | main (l : Look) (k : Key)
  | ovf (rid : Nat) (mi : Nat)

/-- how `start_load` answered: eagerly, with a pending leaf load, or (leaf cached, overflow value) with the first
overflow page already requested under the request's own id -/
inductive Shape where
  | eager
  | leaf (ov : Option Layout)
  | cachedOverflow (L : Layout)

abbrev Reqs := List (Nat × Req)
def rget (m : Reqs) (k : Nat) : Option Req := (m.find? (·.1 == k)).map (·.2)
def rdel (m : Reqs) (k : Nat) : Reqs := m.filter (·.1 != k)
def rput (m : Reqs) (k : Nat) (v : Req) : Reqs := (k, v) :: rdel m k

/-- `ReverseDeltaWorker` -/
structure W (V : Type) where
  reqs : Reqs := []
  priors : Dlt.PMap V := []
  shutdown : Bool := false
  storeLive : Bool := true
  reqIdx : Nat := 0
  ovfIdx : Nat := MAXU64
  dormant : Nat := 0

/-- the `for _ in 0..submit_count` loop of `resubmit_overflow` -/
def submitLoop (rid : Nat) : Nat → Look → Nat → Reqs → Outcome Unit (Look × Nat × Reqs)
  | 0, l, oi, acc => .ok (l, oi, acc)
  | c + 1, l, oi, acc =>
    match l.submit with
    | (none, l') => .ok (l', oi, acc)
    | (some mi, l') =>
      if oi = 0 then .panic "resubmit_overflow: overflow_request_index -= 1"
      else submitLoop rid c l' (oi - 1) (acc ++ [(oi, Req.ovf rid mi)])

/-- `resubmit_overflow` -/
def W.resubmitOverflow (w : W V) (id : Nat) : Outcome Unit (W V) :=
  if w.reqs.length < w.dormant then .panic "resubmit_overflow: requests.len() - dormant_request_count"
  else
    match rget w.reqs id with
    | none => .panic "resubmit_overflow: requests.get_mut(&resubmit_id).unwrap()"
    | some (.ovf _ _) => .panic "resubmit_overflow: unreachable!()"
    | some (.main l k) =>
      if !w.storeLive then .panic "resubmit_overflow: store.as_ref().unwrap()"
      else
        let count := max 1 (TARGET_OVERFLOW_REQUESTS - (w.reqs.length - w.dormant))
        match submitLoop id count l w.ovfIdx [] with
        | .ok (l', oi, submitted) =>
          .ok { w with reqs := submitted.foldl (fun m e => rput m e.1 e.2) (rput w.reqs id (.main l' k)), ovfIdx := oi }
        | .err e => .err e
        | .panic s => .panic s

/-- the tail of `handle_completion` -/
def W.afterCompletion (w : W V) (resubmit : Option Nat) : Outcome Unit (W V) :=
  if w.shutdown && w.reqs.isEmpty then .ok { w with storeLive := false }
  else match resubmit with
    | some id => w.resubmitOverflow id
    | none => .ok w

/-- `handle_lookup` -/
def W.handleLookup (val : Key → Option V) (w : W V) (k : Key) (sh : Shape) : Outcome Unit (W V) :=
  if !w.storeLive then .panic "handle_lookup: store.as_ref().unwrap()"
  else match sh with
    | .eager => .ok { w with priors := kvInsert w.priors k (val k) }
    | .leaf ov => .ok { w with reqs := rput w.reqs w.reqIdx (.main (.initial ov) k), reqIdx := w.reqIdx + 1 }
    | .cachedOverflow L =>
      .ok { w with reqs := rput w.reqs w.reqIdx (.main (.overflow { lay := L, req := 1 } (some 0)) k),
                   reqIdx := w.reqIdx + 1 }

/-- `handle_completion` (the completion carries no error: `maybe_completion.unwrap()`) -/
def W.handleCompletion (val : Key → Option V) (w : W V) (ud : Nat) : Outcome Unit (W V) :=
  match rget w.reqs ud with
  | none => .panic "handle_completion: requests.remove(&user_data).unwrap()"
  | some (.main l k) =>
    let w1 := { w with reqs := rdel w.reqs ud }
    (match l.tryFinish none with
     | .ok (true, _) => W.afterCompletion { w1 with priors := kvInsert w1.priors k (val k) } none
     | .ok (false, l') =>
       W.afterCompletion { w1 with dormant := w1.dormant + 1, reqs := rput w1.reqs ud (.main l' k) } (some ud)
     | .err e => .err e
     | .panic s => .panic s)
  | some (.ovf rid mi) =>
    let w1 := { w with reqs := rdel w.reqs ud }
    (match rget w1.reqs rid with
     | none => .panic "handle_completion: requests.get_mut(&request_id).unwrap()"
     | some (.ovf _ _) => .panic "handle_completion: unreachable!()"
     | some (.main l k) =>
       (match l.tryFinish (some mi) with
        | .ok (true, _) =>
          if w1.dormant = 0 then .panic "handle_completion: dormant_request_count -= 1"
          else W.afterCompletion { w1 with dormant := w1.dormant - 1, priors := kvInsert w1.priors k (val k),
                                           reqs := rdel w1.reqs rid } none
        | .ok (false, l') => W.afterCompletion { w1 with reqs := rput w1.reqs rid (.main l' k) } (some rid)
        | .err e => .err e
        | .panic s => .panic s))

/-- `start_shutdown` (the command channel was closed) -/
def W.startShutdown (w : W V) : W V :=
  if w.reqs.isEmpty then { w with shutdown := true, storeLive := false } else { w with shutdown := true }

/-- an I/O command is in flight for this entry -/
def Req.active : Req → Bool
  | .ovf _ _ => true
  | .main (.initial _) _ => true
  | .main (.overflow _ (some _)) _ => true
  | .main _ _ => false

/-- a completion for `ud` can arrive -/
def Enabled (w : W V) (ud : Nat) : Prop := ∃ e, rget w.reqs ud = some e ∧ e.active = true

inductive Ev where
  | lookup (k : Key) (sh : Shape)
  | complete (ud : Nat)

def W.step (val : Key → Option V) (w : W V) : Ev → Outcome Unit (W V)
  | .lookup k sh => w.handleLookup val k sh
  | .complete ud => w.handleCompletion val ud

end Nomt.Wk
