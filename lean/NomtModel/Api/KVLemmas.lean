import NomtModel.Api.KVBasic
/-!
Algebra of the sorted association list `KVL` (specification of C01):
`bitsLt` is a strict total order, the write operations preserve strict sortedness, the get laws,
extensionality of sorted lists and "a deleted key is indistinguishable from one that never existed".
-/
namespace Nomt
variable {VH : Type}

/-! ### `bitsLt` is a strict total order -/


theorem bitsLt_trans : ∀ {a b c : List Bool}, bitsLt a b = true → bitsLt b c = true → bitsLt a c = true
  | [], [], _, h, _ => by simp [bitsLt] at h
  | [], _ :: _, [], _, h => by simp [bitsLt] at h
  | [], _ :: _, _ :: _, _, _ => rfl
  | _ :: _, [], _, h, _ => by simp [bitsLt] at h
  | _ :: _, _ :: _, [], _, h => by simp [bitsLt] at h
  | x :: xs, y :: ys, z :: zs, h1, h2 => by
    simp only [bitsLt] at h1 h2 ⊢
    cases x <;> cases y <;> cases z <;> simp_all
    all_goals exact bitsLt_trans h1 h2

theorem bitsLt_asymm {a b : List Bool} (h : bitsLt a b = true) : bitsLt b a = false := by
  cases h' : bitsLt b a with
  | false => rfl
  | true => have := bitsLt_trans h h'; rw [bitsLt_irrefl] at this; cases this

theorem bitsLt_trichotomy : ∀ (a b : List Bool), bitsLt a b = true ∨ a = b ∨ bitsLt b a = true
  | [], [] => .inr (.inl rfl)
  | [], _ :: _ => .inl rfl
  | _ :: _, [] => .inr (.inr rfl)
  | x :: xs, y :: ys => by
    simp only [bitsLt]
    cases x <;> cases y <;> simp
    all_goals exact bitsLt_trichotomy xs ys

theorem bitsLt_ne {a b : List Bool} (h : bitsLt a b = true) : a ≠ b := by
  intro e; subst e; rw [bitsLt_irrefl] at h; cases h

theorem key_beq_iff (a b : Key) : (a == b) = true ↔ a = b := by simp

theorem key_beq_false_iff (a b : Key) : (a == b) = false ↔ a ≠ b := by simp

theorem bitsLt_beq_false {a b : Key} (h : bitsLt a b = true) : (a == b) = false := by
  simpa using bitsLt_ne h

theorem bitsLt_beq_false' {a b : Key} (h : bitsLt a b = true) : (b == a) = false := by
  simpa using (bitsLt_ne h).symm

/-- not smaller and not equal means greater -/
theorem bitsLt_of_not {a b : Key} (h1 : bitsLt a b = false) (h2 : a ≠ b) : bitsLt b a = true := by
  rcases bitsLt_trichotomy a b with h | h | h
  · rw [h1] at h; cases h
  · exact absurd h h2
  · exact h

/-! ### strict sortedness -/

/-- the association list is strictly sorted by key -/
def KSorted (m : KVL VH) : Prop := m.Pairwise (fun x y => bitsLt x.1 y.1 = true)

theorem KSorted.nil : KSorted ([] : KVL VH) := List.Pairwise.nil

theorem ksorted_cons {x : Key × VH} {m : KVL VH} :
    KSorted (x :: m) ↔ (∀ y ∈ m, bitsLt x.1 y.1 = true) ∧ KSorted m := List.pairwise_cons

theorem KSorted.tail {x : Key × VH} {m : KVL VH} (h : KSorted (x :: m)) : KSorted m := (ksorted_cons.1 h).2

/-- below the head of a sorted list there is nothing -/
theorem kvGet_none_of_lt {m : KVL VH} {k : Key} (h : ∀ y ∈ m, bitsLt k y.1 = true) : kvGet m k = none := by
  induction m with
  | nil => rfl
  | cons x xs ih =>
    have hx := h x (List.mem_cons_self ..)
    simp only [kvGet, bitsLt_beq_false' hx]
    exact ih (fun y hy => h y (List.mem_cons_of_mem _ hy))

theorem mem_kvInsert {m : KVL VH} {k : Key} {v : VH} {y : Key × VH} (h : y ∈ kvInsert m k v) :
    y = (k, v) ∨ y ∈ m := by
  induction m with
  | nil => simp [kvInsert] at h; exact .inl h
  | cons x xs ih =>
    obtain ⟨k', v'⟩ := x
    unfold kvInsert at h
    split at h
    · rcases List.mem_cons.1 h with h | h
      · exact .inl h
      · exact .inr (List.mem_cons_of_mem _ h)
    · split at h
      · rcases List.mem_cons.1 h with h | h
        · exact .inl h
        · exact .inr h
      · rcases List.mem_cons.1 h with h | h
        · exact .inr (h ▸ List.mem_cons_self ..)
        · rcases ih h with h | h
          · exact .inl h
          · exact .inr (List.mem_cons_of_mem _ h)

theorem mem_kvErase {m : KVL VH} {k : Key} {y : Key × VH} (h : y ∈ kvErase m k) : y ∈ m := by
  induction m with
  | nil => simp [kvErase] at h
  | cons x xs ih =>
    obtain ⟨k', v'⟩ := x
    unfold kvErase at h
    split at h
    · exact List.mem_cons_of_mem _ h
    · rcases List.mem_cons.1 h with h | h
      · exact h ▸ List.mem_cons_self ..
      · exact List.mem_cons_of_mem _ (ih h)

theorem kvInsert_sorted {m : KVL VH} (hs : KSorted m) (k : Key) (v : VH) : KSorted (kvInsert m k v) := by
  induction m with
  | nil => simp [kvInsert, KSorted]
  | cons x xs ih =>
    obtain ⟨k', v'⟩ := x
    obtain ⟨hx, hxs⟩ := ksorted_cons.1 hs
    unfold kvInsert
    split
    · next h =>
      have hk : k' = k := by simpa using h
      subst hk
      exact ksorted_cons.2 ⟨hx, hxs⟩
    · next h =>
      split
      · next h2 =>
        refine ksorted_cons.2 ⟨?_, hs⟩
        intro y hy
        rcases List.mem_cons.1 hy with hy | hy
        · subst hy; exact h2
        · exact bitsLt_trans h2 (hx y hy)
      · next h2 =>
        refine ksorted_cons.2 ⟨?_, ih hxs⟩
        intro y hy
        rcases mem_kvInsert hy with hy | hy
        · subst hy
          exact bitsLt_of_not (by simpa using h2) (by simpa using fun e : k = k' => h (by simp [e]))
        · exact hx y hy

theorem kvErase_sorted {m : KVL VH} (hs : KSorted m) (k : Key) : KSorted (kvErase m k) := by
  induction m with
  | nil => simp [kvErase, KSorted]
  | cons x xs ih =>
    obtain ⟨k', v'⟩ := x
    obtain ⟨hx, hxs⟩ := ksorted_cons.1 hs
    unfold kvErase
    split
    · exact hxs
    · exact ksorted_cons.2 ⟨fun y hy => hx y (mem_kvErase hy), ih hxs⟩

theorem kvWrite_sorted {m : KVL VH} (hs : KSorted m) (k : Key) (w : Option VH) : KSorted (kvWrite m k w) := by
  cases w with
  | none => exact kvErase_sorted hs k
  | some v => exact kvInsert_sorted hs k v

theorem kvApply_nil (m : KVL VH) : kvApply m [] = m := rfl

theorem kvApply_cons (m : KVL VH) (kw : Key × Option VH) (ws : List (Key × Option VH)) :
    kvApply m (kw :: ws) = kvApply (kvWrite m kw.1 kw.2) ws := rfl

theorem kvApply_append (m : KVL VH) (a b : List (Key × Option VH)) :
    kvApply m (a ++ b) = kvApply (kvApply m a) b := by
  simp [kvApply, List.foldl_append]

theorem kvApply_sorted {m : KVL VH} (hs : KSorted m) (ws : List (Key × Option VH)) : KSorted (kvApply m ws) := by
  induction ws generalizing m with
  | nil => exact hs
  | cons kw ws ih => exact ih (kvWrite_sorted hs kw.1 kw.2)

/-! ### get laws -/

theorem kvGet_kvErase_self {m : KVL VH} (hs : KSorted m) (k : Key) : kvGet (kvErase m k) k = none := by
  induction m with
  | nil => rfl
  | cons x xs ih =>
    obtain ⟨k', v'⟩ := x
    obtain ⟨hx, hxs⟩ := ksorted_cons.1 hs
    unfold kvErase
    split
    · next h =>
      have hk : k' = k := by simpa using h
      subst hk
      exact kvGet_none_of_lt hx
    · next h =>
      simp only [kvGet, h]
      exact ih hxs

theorem kvGet_kvErase_other (m : KVL VH) (k k' : Key) (hne : k' ≠ k) :
    kvGet (kvErase m k) k' = kvGet m k' := by
  induction m with
  | nil => rfl
  | cons x xs ih =>
    obtain ⟨k0, v0⟩ := x
    unfold kvErase
    split
    · next h =>
      have hk : k0 = k := by simpa using h
      subst hk
      have : (k0 == k') = false := by simpa using fun e => hne e.symm
      simp [kvGet, this]
    · next h =>
      simp only [kvGet, ih]

/-- **the write law**: after writing `w` to `k`, `k` reads `w` and every other key is unchanged -/
theorem kvGet_kvWrite {m : KVL VH} (hs : KSorted m) (k : Key) (w : Option VH) (k' : Key) :
    kvGet (kvWrite m k w) k' = if k' = k then w else kvGet m k' := by
  by_cases h : k' = k
  · subst h
    cases w with
    | none => simpa [kvWrite] using kvGet_kvErase_self hs k'
    | some v => simpa [kvWrite] using kvGet_kvInsert_self m k' v
  · cases w with
    | none => simpa [kvWrite, h] using kvGet_kvErase_other m k k' h
    | some v => simpa [kvWrite, h] using kvGet_kvInsert_other m k k' v h

/-- the last write to `k` in a batch (later entries win, as in `kvApply`) -/
def wsLookupLast : List (Key × Option VH) → Key → Option (Option VH)
  | [], _ => none
  | (k', w) :: rest, k =>
    match wsLookupLast rest k with
    | some w' => some w'
    | none => if k' == k then some w else none

theorem wsLookupLast_append (a b : List (Key × Option VH)) (k : Key) :
    wsLookupLast (a ++ b) k = match wsLookupLast b k with | some w => some w | none => wsLookupLast a k := by
  induction a with
  | nil => cases hb : wsLookupLast b k <;> simp [hb, wsLookupLast]
  | cons x xs ih =>
    obtain ⟨k', w⟩ := x
    simp only [List.cons_append, wsLookupLast, ih]
    cases wsLookupLast b k <;> simp

theorem wsLookup_append (a b : List (Key × Option VH)) (k : Key) :
    wsLookup (a ++ b) k = match wsLookup a k with | some w => some w | none => wsLookup b k := by
  induction a with
  | nil => rfl
  | cons x xs ih =>
    obtain ⟨k', w⟩ := x
    simp only [List.cons_append, wsLookup]
    split
    · rfl
    · exact ih

theorem wsLookup_eq_none_iff (ws : List (Key × Option VH)) (k : Key) :
    wsLookup ws k = none ↔ ∀ kw ∈ ws, kw.1 ≠ k := by
  induction ws with
  | nil => simp [wsLookup]
  | cons x xs ih =>
    obtain ⟨k', w⟩ := x
    simp only [wsLookup, List.mem_cons, forall_eq_or_imp]
    by_cases h : k' = k
    · simp [h]
    · simp [h, ih]

theorem wsLookupLast_eq_none_iff (ws : List (Key × Option VH)) (k : Key) :
    wsLookupLast ws k = none ↔ ∀ kw ∈ ws, kw.1 ≠ k := by
  induction ws with
  | nil => simp [wsLookupLast]
  | cons x xs ih =>
    obtain ⟨k', w⟩ := x
    simp only [wsLookupLast, List.mem_cons, forall_eq_or_imp]
    cases hl : wsLookupLast xs k with
    | some w' =>
      have : ¬ ∀ kw ∈ xs, kw.1 ≠ k := fun hh => by rw [ih.2 hh] at hl; cases hl
      simp only [reduceCtorEq, false_iff, not_and]
      exact fun _ => this
    | none =>
      have := ih.1 hl
      by_cases h : k' = k
      · simp [h]
      · have hb : (k' == k) = false := by simpa using h
        simp only [hb, Bool.false_eq_true, if_false, true_iff]
        exact ⟨h, this⟩

/-- the keys of a batch are pairwise distinct -/
def WDistinct (ws : List (Key × Option VH)) : Prop := ws.Pairwise (fun x y => x.1 ≠ y.1)

/-- for a batch with pairwise distinct keys the first and the last write to a key coincide -/
theorem wsLookupLast_eq_wsLookup {ws : List (Key × Option VH)} (hd : WDistinct ws) (k : Key) :
    wsLookupLast ws k = wsLookup ws k := by
  induction ws with
  | nil => rfl
  | cons x xs ih =>
    obtain ⟨k', w⟩ := x
    obtain ⟨hx, hxs⟩ := List.pairwise_cons.1 hd
    simp only [wsLookupLast, wsLookup, ih hxs]
    by_cases h : k' = k
    · subst h
      have : wsLookup xs k' = none := (wsLookup_eq_none_iff xs k').2 (fun kw hkw e => hx kw hkw e.symm)
      simp [this]
    · have hb : (k' == k) = false := by simpa using h
      simp only [hb]
      cases wsLookup xs k <;> simp

/-- **batch law**: after a batch, a key reads the last write to it in the batch, else its old value -/
theorem kvGet_kvApply {m : KVL VH} (hs : KSorted m) (ws : List (Key × Option VH)) (k : Key) :
    kvGet (kvApply m ws) k = match wsLookupLast ws k with | some w => w | none => kvGet m k := by
  induction ws generalizing m with
  | nil => rfl
  | cons x xs ih =>
    obtain ⟨k', w⟩ := x
    rw [kvApply_cons, ih (kvWrite_sorted hs _ _)]
    simp only [wsLookupLast]
    cases wsLookupLast xs k with
    | some w' => rfl
    | none =>
      simp only [kvGet_kvWrite hs]
      by_cases h : k = k'
      · subst h; simp
      · have hb : (k' == k) = false := by simpa using fun e => h e.symm
        simp [h, hb]

/-- corollary for batches with pairwise distinct keys (first = last) -/
theorem kvGet_kvApply_distinct {m : KVL VH} (hs : KSorted m) {ws : List (Key × Option VH)} (hd : WDistinct ws)
    (k : Key) : kvGet (kvApply m ws) k = match wsLookup ws k with | some w => w | none => kvGet m k := by
  rw [kvGet_kvApply hs, wsLookupLast_eq_wsLookup hd]

/-! ### histories of batches -/

/-- apply a whole history of batches, oldest first -/
def kvApplyAll (m : KVL VH) (bs : List (List (Key × Option VH))) : KVL VH := bs.foldl kvApply m

theorem kvApplyAll_eq_flatten (m : KVL VH) (bs : List (List (Key × Option VH))) :
    kvApplyAll m bs = kvApply m bs.flatten := by
  induction bs generalizing m with
  | nil => rfl
  | cons b bs ih =>
    simp only [List.flatten_cons, kvApply_append]
    exact ih (kvApply m b)

theorem kvApplyAll_sorted {m : KVL VH} (hs : KSorted m) (bs : List (List (Key × Option VH))) :
    KSorted (kvApplyAll m bs) := by
  rw [kvApplyAll_eq_flatten]; exact kvApply_sorted hs _

/-- specification of `wsLookupLast`: it returns `w` iff `(k, w)` occurs with no later write to `k` -/
theorem wsLookupLast_eq_some_iff (ws : List (Key × Option VH)) (k : Key) (w : Option VH) :
    wsLookupLast ws k = some w ↔ ∃ pre post, ws = pre ++ (k, w) :: post ∧ ∀ kw ∈ post, kw.1 ≠ k := by
  constructor
  · intro h
    induction ws with
    | nil => simp [wsLookupLast] at h
    | cons x xs ih =>
      obtain ⟨k', w'⟩ := x
      simp only [wsLookupLast] at h
      cases hl : wsLookupLast xs k with
      | some w'' =>
        rw [hl] at h
        have hw : w'' = w := Option.some.inj h
        subst hw
        obtain ⟨pre, post, e, hp⟩ := ih hl
        exact ⟨(k', w') :: pre, post, by rw [e]; rfl, hp⟩
      | none =>
        rw [hl] at h
        by_cases hk : (k' == k) = true
        · simp only [hk, if_true] at h
          have hw : w' = w := Option.some.inj h
          have hk' : k' = k := by simpa using hk
          subst hw hk'
          exact ⟨[], xs, rfl, (wsLookupLast_eq_none_iff xs k').1 hl⟩
        · simp [hk] at h
  · rintro ⟨pre, post, e, hp⟩
    subst e
    rw [wsLookupLast_append]
    have : wsLookupLast post k = none := (wsLookupLast_eq_none_iff post k).2 hp
    simp [wsLookupLast, this]

/-! ### extensionality -/

theorem kvGet_head {x : Key × VH} {m : KVL VH} : kvGet (x :: m) x.1 = some x.2 := by
  simp [kvGet]

theorem kvGet_cons_of_lt {x : Key × VH} {m : KVL VH} (hs : KSorted (x :: m)) {k : Key} (hk : bitsLt k x.1 = true) :
    kvGet (x :: m) k = none := by
  apply kvGet_none_of_lt
  intro y hy
  rcases List.mem_cons.1 hy with hy | hy
  · subst hy; exact hk
  · exact bitsLt_trans hk ((ksorted_cons.1 hs).1 y hy)

/-- two strictly sorted lists with the same reads are equal -/
theorem kv_ext {a b : KVL VH} (ha : KSorted a) (hb : KSorted b) (h : ∀ k, kvGet a k = kvGet b k) : a = b := by
  induction a generalizing b with
  | nil =>
    cases b with
    | nil => rfl
    | cons y ys =>
      have := h y.1
      rw [kvGet_head] at this
      cases this
  | cons x xs ih =>
    cases b with
    | nil =>
      have := h x.1
      rw [kvGet_head] at this
      cases this
    | cons y ys =>
      have hxy : x.1 = y.1 := by
        rcases bitsLt_trichotomy x.1 y.1 with hlt | heq | hlt
        · have := h x.1
          rw [kvGet_head, kvGet_cons_of_lt hb hlt] at this
          cases this
        · exact heq
        · have := h y.1
          rw [kvGet_head, kvGet_cons_of_lt ha hlt] at this
          cases this
      have hv : x.2 = y.2 := by
        have := h x.1
        rw [kvGet_head, hxy, kvGet_head] at this
        exact Option.some.inj this
      have hxe : x = y := Prod.ext hxy hv
      subst hxe
      congr 1
      apply ih ha.tail hb.tail
      intro k
      have hk := h k
      simp only [kvGet] at hk
      by_cases hkx : (x.1 == k) = true
      · have : x.1 = k := by simpa using hkx
        subst this
        rw [kvGet_none_of_lt (ksorted_cons.1 ha).1, kvGet_none_of_lt (ksorted_cons.1 hb).1]
      · simpa [hkx] using hk

/-! ### a deleted key is indistinguishable from one that never existed -/

theorem kvErase_kvInsert {m : KVL VH} (hs : KSorted m) (k : Key) (v : VH) (hn : kvGet m k = none) :
    kvErase (kvInsert m k v) k = m := by
  apply kv_ext (kvErase_sorted (kvInsert_sorted hs k v) k) hs
  intro k'
  have h1 := kvGet_kvWrite (kvInsert_sorted hs k v) k none k'
  have h2 := kvGet_kvWrite hs k (some v) k'
  simp only [kvWrite] at h1 h2
  rw [h1]
  by_cases h : k' = k
  · subst h; simp [hn]
  · simp [h, h2]

/-- writing then erasing any key never written before gives back the very same list, also through `kvWrite` -/
theorem kvWrite_none_kvWrite {m : KVL VH} (hs : KSorted m) (k : Key) (w : Option VH) (hn : kvGet m k = none) :
    kvWrite (kvWrite m k w) k none = m := by
  apply kv_ext (kvWrite_sorted (kvWrite_sorted hs k w) k none) hs
  intro k'
  rw [kvGet_kvWrite (kvWrite_sorted hs k w), kvGet_kvWrite hs]
  by_cases h : k' = k
  · subst h; simp [hn]
  · simp [h]

end Nomt
