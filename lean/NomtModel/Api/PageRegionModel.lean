import NomtModel.Core.TriePos
/-!
# Mirror of `nomt/src/page_region.rs` (`PageRegion`) and of `shard_regions` / `shard_index_for` (`page_cache.rs`)

A region is a page `path`, an optional exclusive minimum and an exclusive maximum; exclusive ownership is the
closed interval `[exclusive_min(), exclusive_max]` of the depth-first order of page ids (`pidLe`).  Panics are
`none`.  No proofs here (the driver imports this file); the theorems are in `Api/PageRegionLemmas.lean`.
-/
namespace Nomt.TriePos

structure Region where
  path : PageId
  exclusiveMin : Option PageId
  exclusiveMax : PageId
deriving DecidableEq, Repr

/-- `PageRegion::from_page_id` -/
def Region.fromPageId (p : PageId) : Region := ⟨p, none, maxDescendant p⟩

/-- `PageRegion::from_page_id_descendants`: `assert!(min <= max)`, two `child_page_id(..).unwrap()` -/
def Region.fromPageIdDescendants (p : PageId) (lo hi : Nat) : Option Region :=
  if lo > hi then none else
  match childPageId p lo, childPageId p hi with
  | .ok a, .ok b => some ⟨p, some a, maxDescendant b⟩
  | _, _ => none

/-- `PageRegion::universe` -/
def Region.universe : Region := Region.fromPageId []

/-- `PageRegion::exclusive_min()` -/
def Region.exclusiveMinId (r : Region) : PageId :=
  match r.exclusiveMin with
  | none => r.path
  | some m => m

/-- `PageRegion::contains_exclusive` -/
def Region.containsExclusive (r : Region) (q : PageId) : Bool :=
  pidLe r.exclusiveMinId q && pidLe q r.exclusiveMax

/-- `PageRegion::non_exclusive_max` -/
def Region.nonExclusiveMax (r : Region) : Option PageId :=
  match r.exclusiveMin with
  | none => if r.path = [] then none else some (parentPageId r.path)
  | some _ => some r.path

/-- `PageRegion::contains_non_exclusive` -/
def Region.containsNonExclusive (r : Region) (q : PageId) : Bool :=
  match r.nonExclusiveMax with
  | none => false
  | some m => q == m || isDescendantOf m q

/-- `RegionContains::contains` -/
def Region.contains (r : Region) (q : PageId) : Bool := r.containsExclusive q || r.containsNonExclusive q

/-- `PageRegion::encompasses` -/
def Region.encompasses (a b : Region) : Bool :=
  pidLe a.exclusiveMinId b.exclusiveMinId && pidLe b.exclusiveMax a.exclusiveMax

/-- `PageRegion::excludes_unique` -/
def Region.excludesUnique (a b : Region) : Bool :=
  pidLt a.exclusiveMax b.exclusiveMinId || pidLt b.exclusiveMax a.exclusiveMinId

/-- `shard_regions(num_shards)`: division by zero for `0`; for more than 64 shards the 65th start index is `64`,
`ChildPageIndex::new(64).unwrap()` panics -/
def shardRegions (n : Nat) : Option (List (Region × Nat)) :=
  if n = 0 then none else
  let part := 64 / n
  let rem := 64 % n
  (List.range n).mapM fun i =>
    let sc : Nat × Nat := if i ≥ rem then (part * i + rem, part) else (part * i + i, part + 1)
    if sc.1 + sc.2 = 0 then none else
    match cpiNew (sc.1 % 256), cpiNew ((sc.1 + sc.2 - 1) % 256) with
    | some a, some b => (Region.fromPageIdDescendants [] a b).map fun r => (r, sc.2)
    | _, _ => none

/-- `shard_index_for(num_shards, first_ancestor)` -/
def shardIndexFor (n a : Nat) : Option Nat :=
  if n = 0 then none else
  let part := 64 / n
  let rem := 64 % n
  if (part + 1) * rem > a then some (a / (part + 1))
  else if part = 0 then none
  else some ((a - (part + 1) * rem) / part + rem)

end Nomt.TriePos
