import NomtModel.Api.Split
import NomtModel.Core.TermHasher
import NomtModel.Core.Complete
/-!
A 3-worker instance (8-bit keys, term hasher) with a root-page terminal straddling a worker boundary, shared by the
non-vacuity examples and the kernel-checked counterexamples of `Props/C13_Split.lean` and `Props/C06_Assembly.lean`.

`shard_regions 3`: worker 0 owns the root children 0…21, worker 1 owns 22…42, worker 2 owns 43…63.
Prior state: two leaves `11000000`, `11100000` (so the position `0` is an empty terminal of depth 1 in the root
page, covering the root children 0…31 — it straddles the boundary 21 | 22).
Operations (sorted): read `00000100` (child 1), write `01100000` (child 24), write `10000000` (child 32), write
`11000000` (child 48).  The first two lie under the terminal `0`: ONE batch, owned by worker 0, which extends into
worker 1's index range; worker 1 skips it and owns only the batch of `10000000`.
-/
namespace Nomt.Split.Ex
open Nomt Nomt.Api Nomt.Split

def k00000100 : Key := [false, false, false, false, false, true, false, false]
def k01100000 : Key := [false, true, true, false, false, false, false, false]
def k10000000 : Key := [true, false, false, false, false, false, false, false]
def k11000000 : Key := [true, true, false, false, false, false, false, false]
def k11100000 : Key := [true, true, true, false, false, false, false, false]

def view : KVL Nat := [(k11000000, 1), (k11100000, 2)]

def ops : List (Op Nat) :=
  [ (k00000100, .read), (k01100000, .write (some 5)), (k10000000, .write (some 6)), (k11000000, .readWrite none) ]

def prover : Key → PathProof T Nat := proveSpec TH 8 view

/-- paths (positions only), reads and writes of an assembled witness -/
structure Summary where
  paths : List (List Bool)
  reads : List (Key × Option Nat × Nat)
  writes : List (Key × Option Nat × Nat)
deriving DecidableEq, Repr

def summary (a : Option (Assembled T Nat)) : Option Summary :=
  a.map fun a => { paths := a.paths.map (·.1), reads := a.reads, writes := a.writes }

/-- the batches of the three workers -/
def bss : List (List Batch) := (runWorkers 8 3 (tpOf prover) ops).getD []

/-- the outputs in a given arrival order -/
def outs (order : List Nat) : List (WorkerOut T Nat) := order.map fun i => workerOut prover ops (bss.getD i [])

/-- … with the seeded change: `witnessed_start` pinned at the start of the worker's range -/
def outsPinned (order : List Nat) : List (WorkerOut T Nat) :=
  order.map fun i => workerOutPinned prover ops (rangeStart 8 3 i ops) (bss.getD i [])

end Nomt.Split.Ex
