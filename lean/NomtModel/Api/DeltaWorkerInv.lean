import NomtModel.Api.DeltaWorkerBasic
import NomtModel.Api.KVLemmas
/-!
The invariant of the worker mirror (C09) and the part of `resubmit_overflow` that re-establishes it.
-/
namespace Nomt.Wk
open Nomt
variable {V : Type}

/-- a `Main` request that only dispatches overflow requests -/
def isDormant (e : Nat × Req) : Bool :=
  match e.2 with
  | .main (.overflow _ none) _ => true
  | _ => false

/-- what holds of the `AsyncLookup` of request `id`; `strict = false` between the completion that made the request
dormant (or delivered one of its pages) and the `resubmit_overflow` that follows: nothing need be outstanding then -/
def LookOk (strict : Bool) (reqs : Reqs) (id : Nat) : Look → Prop
  | .initial ov => ∀ L, ov = some L → L.WF
  | .done => False
  | .overflow rd (some i) => RdOk rd ∧ i = 0 ∧ rd.req = 1 ∧ rd.proc = 0 ∧ rd.arrived = []
  | .overflow rd none => RdOk rd ∧ (strict = true → rd.proc < rd.req) ∧
      ∀ i, rd.proc ≤ i → i < rd.req → i ∉ rd.arrived → ∃ ud, (ud, Req.ovf id i) ∈ reqs

/-- the part of the invariant about the request map; `relaxed = some id`: request `id` awaits its `resubmit_overflow` -/
structure Core (val : Key → Option V) (w : W V) (relaxed : Option Nat) : Prop where
  keys : Keys w.reqs
  mainLt : ∀ id l k, (id, Req.main l k) ∈ w.reqs → id < w.reqIdx
  ovfGt : ∀ ud r m, (ud, Req.ovf r m) ∈ w.reqs → w.ovfIdx < ud
  sep : w.reqIdx ≤ w.ovfIdx
  ovfMain : ∀ ud r m, (ud, Req.ovf r m) ∈ w.reqs →
    ∃ rd k, (r, Req.main (.overflow rd none) k) ∈ w.reqs ∧ rd.proc ≤ m ∧ m < rd.req ∧ m ∉ rd.arrived
  ovfInj : ∀ ud ud' r m, (ud, Req.ovf r m) ∈ w.reqs → (ud', Req.ovf r m) ∈ w.reqs → ud = ud'
  mainOk : ∀ id l k, (id, Req.main l k) ∈ w.reqs → LookOk (decide (relaxed ≠ some id)) w.reqs id l
  dorm : w.dormant = w.reqs.countP isDormant
  ps : KSorted w.priors
  pv : ∀ k v, kvGet w.priors k = some v → v = val k

/-- the invariant: `Core` + the store handle is alive as long as it may be needed -/
structure Inv' (val : Key → Option V) (w : W V) (relaxed : Option Nat) : Prop extends Core val w relaxed where
  store : w.storeLive = true ∨ w.reqs = []
  live : w.shutdown = false → w.storeLive = true
  down : w.shutdown = true → w.reqs = [] → w.storeLive = false

abbrev Inv (val : Key → Option V) (w : W V) : Prop := Inv' val w none

theorem entry_unique {m : Reqs} (h : Keys m) {k : Nat} {v v' : Req} (h1 : (k, v) ∈ m) (h2 : (k, v') ∈ m) : v = v' := by
  have a := rget_of_mem h h1
  have b := rget_of_mem h h2
  rw [a] at b
  exact Option.some.inj b

theorem LookOk.mono {s s' : Bool} {reqs reqs' : Reqs} {id : Nat} {l : Look} (h : LookOk s reqs id l)
    (hs : s' = true → s = true) (hm : ∀ ud i, (ud, Req.ovf id i) ∈ reqs → ∃ ud', (ud', Req.ovf id i) ∈ reqs') :
    LookOk s' reqs' id l := by
  cases l with
  | initial ov => exact h
  | done => exact h
  | overflow rd im =>
    cases im with
    | some i => exact h
    | none =>
      obtain ⟨h1, h2, h3⟩ := h
      refine ⟨h1, fun e => h2 (hs e), fun i a b c => ?_⟩
      obtain ⟨ud, hu⟩ := h3 i a b c
      exact hm ud i hu

/-! ### fresh entries appended to the request map -/

theorem mem_foldl_rput (acc : Reqs) (m : Reqs) (hnd : (acc.map (·.1)).Nodup) (e : Nat × Req) :
    e ∈ acc.foldl (fun m e => rput m e.1 e.2) m ↔ e ∈ acc ∨ (e ∈ m ∧ e.1 ∉ acc.map (·.1)) := by
  induction acc generalizing m with
  | nil => simp
  | cons x xs ih =>
    simp only [List.map_cons, List.nodup_cons] at hnd
    simp only [List.foldl_cons]
    rw [ih _ hnd.2, mem_rput]
    constructor
    · rintro (h | ⟨h | ⟨h1, h2⟩, h3⟩)
      · exact Or.inl (List.mem_cons_of_mem _ h)
      · left; rw [h]; exact List.mem_cons_self ..
      · right; refine ⟨h1, ?_⟩; simp only [List.map_cons, List.mem_cons, not_or]; exact ⟨h2, h3⟩
    · rintro (h | ⟨h1, h2⟩)
      · rcases List.mem_cons.1 h with rfl | h
        · right
          refine ⟨Or.inl rfl, ?_⟩
          exact hnd.1
        · exact Or.inl h
      · simp only [List.map_cons, List.mem_cons, not_or] at h2
        exact Or.inr ⟨Or.inr ⟨h1, h2.1⟩, h2.2⟩

theorem keys_foldl_rput (acc : Reqs) (m : Reqs) (h : Keys m) : Keys (acc.foldl (fun m e => rput m e.1 e.2) m) := by
  induction acc generalizing m with
  | nil => exact h
  | cons x xs ih => exact ih _ (keys_rput h _ _)

theorem countP_foldl_rput (p : Nat × Req → Bool) (acc : Reqs) (m : Reqs) (hnd : (acc.map (·.1)).Nodup)
    (hp : ∀ e ∈ acc, p e = false) (hfresh : ∀ e ∈ acc, ∀ e' ∈ m, e'.1 ≠ e.1) :
    (acc.foldl (fun m e => rput m e.1 e.2) m).countP p = m.countP p := by
  induction acc generalizing m with
  | nil => rfl
  | cons x xs ih =>
    simp only [List.map_cons, List.nodup_cons] at hnd
    simp only [List.foldl_cons]
    rw [ih _ hnd.2 (fun e he => hp e (List.mem_cons_of_mem _ he))]
    · rw [countP_rput, countP_rdel_absent p (fun e' he' => hfresh x (List.mem_cons_self ..) e' he')]
      have : p (x.1, x.2) = false := hp x (List.mem_cons_self ..)
      simp [this]
    · intro e he e' he'
      rcases mem_rput.1 he' with rfl | ⟨h1, _⟩
      · intro heq
        exact hnd.1 (List.mem_map.2 ⟨e, he, heq.symm⟩)
      · exact hfresh e (List.mem_cons_of_mem _ he) e' h1

/-! ### the submit loop -/

/-- the entries the loop creates: ids `oi, oi - 1, …`, page indices `req, req + 1, …` -/
def newEntries (rid oi req : Nat) : Nat → Reqs
  | 0 => []
  | j + 1 => (oi, Req.ovf rid req) :: newEntries rid (oi - 1) (req + 1) j

theorem mem_newEntries {rid oi req j : Nat} {e : Nat × Req} (hj : j ≤ oi) :
    e ∈ newEntries rid oi req j ↔ ∃ t, t < j ∧ e = (oi - t, Req.ovf rid (req + t)) := by
  induction j generalizing oi req with
  | zero => simp [newEntries]
  | succ j ih =>
    simp only [newEntries, List.mem_cons]
    rw [ih (by omega)]
    constructor
    · rintro (h | ⟨t, h1, h2⟩)
      · exact ⟨0, by omega, by simpa using h⟩
      · refine ⟨t + 1, by omega, ?_⟩
        rw [h2]
        simp only [Prod.mk.injEq, Req.ovf.injEq, true_and]
        omega
    · rintro ⟨t, h1, h2⟩
      cases t with
      | zero => left; simpa using h2
      | succ t =>
        right
        refine ⟨t, by omega, ?_⟩
        rw [h2]
        simp only [Prod.mk.injEq, Req.ovf.injEq, true_and]
        omega

theorem newEntries_keys_nodup (rid oi req j : Nat) (hj : j ≤ oi) : ((newEntries rid oi req j).map (·.1)).Nodup := by
  induction j generalizing oi req with
  | zero => simp [newEntries]
  | succ j ih =>
    simp only [newEntries, List.map_cons, List.nodup_cons]
    refine ⟨?_, ih _ _ (by omega)⟩
    intro hm
    obtain ⟨e, he, hk⟩ := List.mem_map.1 hm
    obtain ⟨t, _, h2⟩ := (mem_newEntries (by omega)).1 he
    rw [h2] at hk
    simp at hk
    omega

/-- **the loop of `resubmit_overflow`** on a well-formed reader with enough ids left: it submits `j ≤ count` further
pages (at least one when nothing is outstanding), never panics -/
theorem submitLoop_spec (rid : Nat) (count : Nat) (rd : Reader) (ok : RdOk rd) (oi : Nat) (acc : Reqs)
    (hroom : count ≤ oi) :
    ∃ j, j ≤ count ∧ RdOk { rd with req := rd.req + j } ∧
      submitLoop rid count (.overflow rd none) oi acc =
        .ok (.overflow { rd with req := rd.req + j } none, oi - j, acc ++ newEntries rid oi rd.req j) ∧
      (0 < count → rd.proc = rd.req → 0 < j) := by
  induction count generalizing rd oi acc with
  | zero => exact ⟨0, Nat.le_refl _, ok, by simp [submitLoop, newEntries], fun h => by omega⟩
  | succ c ih =>
    rcases submit_spec ok with ⟨h1, _⟩ | ⟨h1, h2, _⟩
    · refine ⟨0, Nat.zero_le _, ok, ?_, ?_⟩
      · simp [submitLoop, Look.submit, h1, newEntries]
      · intro _ hst
        have := submit_some_of_stuck ok hst
        rw [h1] at this
        cases this
    · have hoi : oi ≠ 0 := by omega
      obtain ⟨j, g1, g2, g3, _⟩ := ih { rd with req := rd.req + 1 } h2 (oi - 1) (acc ++ [(oi, Req.ovf rid rd.req)]) (by omega)
      refine ⟨j + 1, by omega, ?_, ?_, fun _ _ => by omega⟩
      · have e : rd.req + (j + 1) = rd.req + 1 + j := by omega
        rw [e]; exact g2
      · simp only [submitLoop, Look.submit, h1, hoi, if_false]
        rw [g3]
        have e : rd.req + (j + 1) = rd.req + 1 + j := by omega
        have e2 : oi - (j + 1) = oi - 1 - j := by omega
        simp only [newEntries, List.append_assoc, List.singleton_append, e, e2]

end Nomt.Wk
