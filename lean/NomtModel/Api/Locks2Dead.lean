import NomtModel.Api.Locks2Inv
/-!
Deadlock freedom of the two-lock LTS.

`WaitsFor s t u`: the head micro-step of `t` waits for a lock that `u` holds.  Under the invariants of the code
(`Inv1`: every continuation obeys the lock order A before M) and the caller discipline `Disc` (a thread that
owns a live session does not wait for the access lock), every wait edge strictly decreases `rank`:

    3  waiting for WRITER_BIT to clear (`read` / `write` step 1)      → the writer: rank ≤ 2
    2  the writer waiting for the readers to leave (`write` step 2)    → a session owner: rank ≤ 1
    1  waiting for M                                                    → the M holder: rank 0
    0  not waiting

so the wait-for graph is acyclic and every chain ends, after at most three edges, in a thread that is not
blocked.
-/
namespace Nomt.Locks2
variable {C R W D : Type} [DecidableEq R] (ops : DbOps C R W D)

/-- `t` owns a live session (holds a read guard) -/
def holdsSession (s : S C R W D) (t : Tid) : Bool := s.readers.any (fun x => x.owner == t)

/-- caller discipline: a thread that owns a live session is not inside a call that can still wait for the
access lock -/
def Disc (s : S C R W D) : Prop := ∀ t, holdsSession s t = true → noABlock (s.thr t).prog = true

/-- the events the discipline allows: no call that can wait for the access lock from a session owner -/
def discEvent (s : S C R W D) : Event R W D → Bool
  | .call t c => !(holdsSession s t && c.blocksOnA)
  | .step _ => true
  | .spur _ _ => true

/-- a trace of code calls respecting the discipline -/
def Good (s : S C R W D) : List (Event R W D) → Prop
  | [] => True
  | e :: rest => e.isCode = true ∧ discEvent s e = true ∧ Good (next ops s e).1 rest

theorem noABlock_tail (i : Instr R W D) (rest : List (Instr R W D)) (h : noABlock (i :: rest) = true) :
    noABlock rest = true := by
  cases i <;> simp [noABlock] at h ⊢ <;> exact h

theorem noABlock_progOf (c : Call R W D) (h : c.blocksOnA = false) : noABlock (progOf c) = true := by
  cases c with
  | rollback n io =>
    by_cases hn : n = 0 <;> simp [Call.blocksOnA, hn] at h ⊢ <;> simp [progOf, hn, noABlock]
  | _ => first | (simp [Call.blocksOnA] at h; done) | simp [progOf, noABlock]

theorem holdsSession_abort (s : S C R W D) (t u : Tid) (r : Res) :
    holdsSession (abort s t r) u = holdsSession s u := by simp [holdsSession, abort]

theorem disc_abort (s : S C R W D) (t : Tid) (r : Res) (h : Disc s) : Disc (abort s t r) := by
  intro u hu
  rw [holdsSession_abort] at hu
  by_cases hut : u = t
  · subst hut; simp [abort, noABlock]
  · simp only [abort, upd_other _ _ _ _ hut]; exact h u hu

/-- a step that changes neither the readers nor any continuation but `t`'s, which it shortens -/
theorem disc_adv {s s' : S C R W D} {t : Tid} {i : Instr R W D} {rest : List (Instr R W D)} (h : Disc s)
    (hp : (s.thr t).prog = i :: rest) (hr : ∀ u, holdsSession s' u = true → holdsSession s u = true)
    (ht : (s'.thr t).prog = rest ∨ (s'.thr t).prog = []) (ho : ∀ u, u ≠ t → s'.thr u = s.thr u) : Disc s' := by
  intro u hu
  by_cases hut : u = t
  · subst hut
    have := h u (hr u hu)
    rw [hp] at this
    rcases ht with e | e <;> rw [e]
    · exact noABlock_tail i rest this
    · rfl
  · rw [ho u hut]; exact h u (hr u hu)

theorem disc_exec (s : S C R W D) (t : Tid) (i : Instr R W D) (rest : List (Instr R W D)) (h1 : Inv1 s)
    (h : Disc s) (hp : (s.thr t).prog = i :: rest) : Disc (exec ops s t i rest).1 := by
  by_cases hi : i.isEff = true
  · rw [exec_isEff ops s t i rest hi]
    cases eff ops i (s.thr t).regs s.db with
    | cont rg db =>
      exact disc_adv h hp (fun u hu => hu) (Or.inl (by simp)) (fun u hu => by simp [upd_other _ _ _ _ hu])
    | stop r db =>
      simp only
      split
      · intro u hu
        have hu' : holdsSession s u = true := hu
        by_cases hut : u = t
        · subst hut
          simp only [upd_same]
          cases (s.m == some u) <;> simp [unwind, noABlock]
        · simp only [upd_other _ _ _ _ hut]; exact h u hu'
      · exact disc_abort { s with db := db } t r h
  have ht := h1.typed t
  rw [hp] at ht
  cases i with
  | aRead sid =>
    simp only [exec]
    split
    · exact h
    · -- `t` becomes a session owner: its continuation never waits for A again (typing)
      have hnb : noABlock rest = true := by
        rcases (by exact Classical.em (wsOf s t = .bit)) with hb | hb
        · rw [hb] at ht; simp [wf] at ht
        · rw [wf_not_bit _ _ _ _ hb] at ht
          simp only [Bool.and_eq_true] at ht
          exact ht.1.2
      intro u hu
      by_cases hut : u = t
      · subst hut; simpa using hnb
      · simp only [upd_other _ _ _ _ hut]
        apply h u
        have hne : (t == u) = false := by simpa using (fun e => hut e.symm)
        simpa [holdsSession, hne] using hu
  | aReadUnlock sid =>
    simp only [exec]
    refine disc_adv h hp ?_ (Or.inl (by simp)) (fun u hu => by simp [upd_other _ _ _ _ hu])
    intro u hu
    simp only [holdsSession, List.any_eq_true, List.mem_filter] at hu ⊢
    obtain ⟨x, ⟨hx, _⟩, hxu⟩ := hu
    exact ⟨x, hx, hxu⟩
  | aWrite1 =>
    simp only [exec]
    split
    · exact h
    · exact disc_adv h hp (fun u hu => hu) (Or.inl (by simp)) (fun u hu => by simp [upd_other _ _ _ _ hu])
  | aWrite2 =>
    simp only [exec]
    split
    · exact h
    · exact disc_adv h hp (fun u hu => hu) (Or.inl (by simp)) (fun u hu => by simp [upd_other _ _ _ _ hu])
  | aTryWrite =>
    simp only [exec]
    split
    · exact disc_abort s t .busy h
    · exact disc_adv h hp (fun u hu => hu) (Or.inl (by simp)) (fun u hu => by simp [upd_other _ _ _ _ hu])
  | aWriteUnlock rv =>
    simp only [exec]
    exact disc_adv h hp (fun u hu => hu) (Or.inl (by simp)) (fun u hu => by simp [upd_other _ _ _ _ hu])
  | mLock =>
    simp only [exec]
    split
    · exact h
    · exact disc_adv h hp (fun u hu => hu) (Or.inl (by simp)) (fun u hu => by simp [upd_other _ _ _ _ hu])
  | mUnlock =>
    simp only [exec]
    exact disc_adv h hp (fun u hu => hu) (Or.inl (by simp)) (fun u hu => by simp [upd_other _ _ _ _ hu])
  | sessRoot sid =>
    simp only [exec]
    refine disc_adv h hp ?_ (Or.inl (by simp)) (fun u hu => by simp [upd_other _ _ _ _ hu])
    intro u hu
    simp only [holdsSession, List.any_eq_true, List.mem_map] at hu ⊢
    obtain ⟨x, ⟨y, hy, rfl⟩, hxu⟩ := hu
    refine ⟨y, hy, ?_⟩
    split at hxu <;> exact hxu
  | sessBase sid b =>
    simp only [exec]
    refine disc_adv h hp ?_ (Or.inl (by simp)) (fun u hu => by simp [upd_other _ _ _ _ hu])
    intro u hu
    simp only [holdsSession, List.any_eq_true, List.mem_map] at hu ⊢
    obtain ⟨x, ⟨y, hy, rfl⟩, hxu⟩ := hu
    refine ⟨y, hy, ?_⟩
    split at hxu <;> exact hxu
  | finChk sid =>
    simp only [exec]
    split
    · intro u hu
      have hu' : holdsSession s u = true := hu
      by_cases hut : u = t
      · subst hut; simp [noABlock]
      · simp only [upd_other _ _ _ _ hut]; exact h u hu'
    · exact disc_adv h hp (fun u hu => hu) (Or.inl (by simp)) (fun u hu => by simp [upd_other _ _ _ _ hu])
  | ret r =>
    simp only [exec]
    exact disc_adv h hp (fun u hu => hu) (Or.inr (by simp)) (fun u hu => by simp [upd_other _ _ _ _ hu])
  | _ => simp [Instr.isEff] at hi

theorem disc_next (s : S C R W D) (e : Event R W D) (h1 : Inv1 s) (h : Disc s) (hd : discEvent s e = true) :
    Disc (next ops s e).1 := by
  cases e with
  | call t c =>
    simp only [next]
    split
    · intro u hu
      have hu' : holdsSession s u = true := hu
      by_cases hut : u = t
      · subst hut
        simp only [upd_same]
        apply noABlock_progOf
        simpa [discEvent, hu'] using hd
      · simp only [upd_other _ _ _ _ hut]; exact h u hu'
    · exact h
  | step t =>
    simp only [next]
    split
    · exact h
    · rename_i i rest hp
      exact disc_exec ops s t i rest h1 h hp
  | spur t u =>
    simp only [next]
    split
    · split
      · exact disc_abort s t .busy h
      · exact h
    · exact h

theorem good_run (evs : List (Event R W D)) (s : S C R W D) (hg : Good ops s evs) (h1 : Inv1 s) (h : Disc s) :
    Inv1 (run ops s evs) ∧ Disc (run ops s evs) := by
  induction evs generalizing s with
  | nil => exact ⟨h1, h⟩
  | cons e rest ih =>
    obtain ⟨hc, hd, hrest⟩ := hg
    exact ih _ hrest (inv1_next ops s e hc h1) (disc_next ops s e h1 h hd)

theorem good_isCode (evs : List (Event R W D)) (s : S C R W D) (hg : Good ops s evs) :
    ∀ e ∈ evs, e.isCode = true := by
  induction evs generalizing s with
  | nil => intro e he; cases he
  | cons e rest ih =>
    intro e' he'
    rcases List.mem_cons.1 he' with rfl | hm
    · exact hg.1
    · exact ih _ hg.2.2 e' hm

theorem disc_init (db : Db C R D) : Disc (init db : S C R W D) := by
  intro t ht; simp [init, holdsSession] at ht

end Nomt.Locks2

namespace Nomt.Locks2
variable {C R W D : Type} [DecidableEq R] (ops : DbOps C R W D)

/-- the head micro-step of `t` waits for a lock held by `u` -/
def WaitsFor (s : S C R W D) (t u : Tid) : Prop :=
  match (s.thr t).prog with
  | .mLock :: _ => s.m = some u
  | .aWrite2 :: _ => ∃ x ∈ s.readers, x.owner = u
  | .aRead _ :: _ => s.wbit = some u
  | .aWrite1 :: _ => s.wbit = some u
  | _ => False

/-- 0 = not blocked; 1 = on M; 2 = the writer on the readers; 3 = on WRITER_BIT -/
def rank (s : S C R W D) (t : Tid) : Nat :=
  match (s.thr t).prog with
  | .mLock :: _ => if s.m.isSome then 1 else 0
  | .aWrite2 :: _ => if !s.readers.isEmpty then 2 else 0
  | .aRead _ :: _ => if s.wbit.isSome then 3 else 0
  | .aWrite1 :: _ => if s.wbit.isSome then 3 else 0
  | _ => 0

theorem blocked_iff_rank (s : S C R W D) (t : Tid) : blocked s t = true ↔ 0 < rank s t := by
  unfold blocked rank
  cases (s.thr t).prog with
  | nil => simp
  | cons i rest => cases i <;> simp <;> split <;> simp_all

/-- a blocked thread waits for somebody -/
theorem blocked_waits (s : S C R W D) (t : Tid) (h : blocked s t = true) : ∃ u, WaitsFor s t u := by
  unfold blocked at h
  unfold WaitsFor
  cases hp : (s.thr t).prog with
  | nil => simp [hp] at h
  | cons i rest =>
    rw [hp] at h
    cases i <;> simp at h ⊢
    · exact Option.isSome_iff_exists.1 h
    · exact Option.isSome_iff_exists.1 h
    · cases hr : s.readers with
      | nil => simp [hr] at h
      | cons x xs => exact ⟨x.owner, x, by simp, rfl⟩
    · exact Option.isSome_iff_exists.1 h

/-- the head micro-step can wait for a lock / for the access lock -/
def isWaitHead : List (Instr R W D) → Bool
  | .mLock :: _ | .aWrite2 :: _ | .aRead _ :: _ | .aWrite1 :: _ => true
  | _ => false
def isAWaitHead : List (Instr R W D) → Bool
  | .aWrite2 :: _ | .aRead _ :: _ | .aWrite1 :: _ => true
  | _ => false

theorem rank_zero_of_not_waitHead (s : S C R W D) (u : Tid) (h : isWaitHead (s.thr u).prog = false) :
    rank s u = 0 := by
  unfold rank
  cases hp : (s.thr u).prog with
  | nil => simp
  | cons i rest => rw [hp] at h; cases i <;> simp [isWaitHead] at h ⊢

theorem rank_le_one_of_not_aWaitHead (s : S C R W D) (u : Tid) (h : isAWaitHead (s.thr u).prog = false) :
    rank s u ≤ 1 := by
  unfold rank
  cases hp : (s.thr u).prog with
  | nil => simp
  | cons i rest =>
    rw [hp] at h
    cases i <;> simp [isAWaitHead] at h ⊢
    split <;> omega

/-- the holder of M is at a micro-step that does not wait, and it is not idle -/
theorem head_of_holdsM (prog : List (Instr R W D)) (ws : WS) (h : wf true ws prog = true) :
    prog ≠ [] ∧ isWaitHead prog = false := by
  cases prog with
  | nil => simp [wf] at h
  | cons i rest => cases ws <;> cases i <;> simp [wf] at h <;> simp [isWaitHead]

/-- the owner of the write guard is not idle and does not wait for the access lock -/
theorem head_of_own (prog : List (Instr R W D)) (hm : Bool) (h : wf hm .own prog = true) :
    prog ≠ [] ∧ isAWaitHead prog = false := by
  cases prog with
  | nil => simp [wf] at h
  | cons i rest => cases i <;> simp [wf] at h <;> simp [isAWaitHead]

/-- the owner of WRITER_BIT who does not yet hold the guard is exactly at the wait for the readers -/
theorem head_of_bit (prog : List (Instr R W D)) (hm : Bool) (h : wf hm .bit prog = true) :
    ∃ rest, prog = .aWrite2 :: rest := by
  cases prog with
  | nil => simp [wf] at h
  | cons i rest => cases i <;> simp [wf] at h; exact ⟨rest, rfl⟩

theorem rank_le_one_of_noABlock (s : S C R W D) (u : Tid) (h : noABlock (s.thr u).prog = true) :
    rank s u ≤ 1 := by
  unfold rank
  cases hp : (s.thr u).prog with
  | nil => simp
  | cons i rest =>
    rw [hp] at h
    cases i <;> simp [noABlock] at h ⊢
    split <;> omega

theorem wsOf_cases' (s : S C R W D) (u : Tid) (h : s.wbit = some u) : wsOf s u = .bit ∨ wsOf s u = .own := by
  unfold wsOf
  cases s.wown <;> simp [h]

/-- the rank of the owner of WRITER_BIT is at most 2 -/
theorem rank_le_two_of_wbit (s : S C R W D) (h1 : Inv1 s) (u : Tid) (hw : s.wbit = some u) : rank s u ≤ 2 := by
  have hu := h1.typed u
  rcases wsOf_cases' s u hw with hb' | ho
  · rw [hb'] at hu
    obtain ⟨r', hr'⟩ := head_of_bit _ _ hu
    unfold rank; rw [hr']; simp only; split <;> omega
  · rw [ho] at hu
    have := rank_le_one_of_not_aWaitHead s u (head_of_own _ _ hu).2
    omega

/-- **every wait edge strictly decreases the rank** -/
theorem rank_decreases (s : S C R W D) (h1 : Inv1 s) (hd : Disc s) (t u : Tid) (hb : blocked s t = true)
    (hw : WaitsFor s t u) : rank s u < rank s t := by
  unfold WaitsFor at hw
  unfold blocked at hb
  cases hp : (s.thr t).prog with
  | nil => rw [hp] at hw; cases hw
  | cons i rest =>
    rw [hp] at hw hb
    cases i <;> simp only at hw hb <;> try (cases hw; done)
    · -- a reader waiting for WRITER_BIT
      have hrt : rank s t = 3 := by unfold rank; rw [hp]; simp [hw]
      have := rank_le_two_of_wbit s h1 u hw
      omega
    · have hrt : rank s t = 3 := by unfold rank; rw [hp]; simp [hw]
      have := rank_le_two_of_wbit s h1 u hw
      omega
    · -- the writer waiting for the readers
      obtain ⟨x, hx, hxu⟩ := hw
      have hs : holdsSession s u = true := by
        simp only [holdsSession, List.any_eq_true]; exact ⟨x, hx, by simp [hxu]⟩
      have := rank_le_one_of_noABlock s u (hd u hs)
      have hrt : rank s t = 2 := by
        unfold rank; rw [hp]
        have : s.readers ≠ [] := List.ne_nil_of_mem hx
        simp [this]
      omega
    · -- waiting for M
      have hu := h1.typed u
      rw [show (s.m == some u) = true by simp [hw]] at hu
      have hru : rank s u = 0 := rank_zero_of_not_waitHead s u (head_of_holdsM _ _ hu).2
      have hrt : rank s t = 1 := by unfold rank; rw [hp]; simp [hw]
      omega

end Nomt.Locks2

namespace Nomt.Locks2
variable {C R W D : Type} [DecidableEq R] (ops : DbOps C R W D)

/-- one or more wait edges, every source blocked -/
inductive WaitPath (s : S C R W D) : Tid → Tid → Prop where
  | one {t u : Tid} : blocked s t = true → WaitsFor s t u → WaitPath s t u
  | cons {t u v : Tid} : blocked s t = true → WaitsFor s t u → WaitPath s u v → WaitPath s t v

theorem waitPath_rank (s : S C R W D) (h1 : Inv1 s) (hd : Disc s) (t u : Tid) (hp : WaitPath s t u) :
    rank s u < rank s t := by
  induction hp with
  | one hb hw => exact rank_decreases s h1 hd _ _ hb hw
  | cons hb hw _ ih => exact Nat.lt_trans ih (rank_decreases s h1 hd _ _ hb hw)

/-- **no cyclic wait** -/
theorem no_wait_cycle (s : S C R W D) (h1 : Inv1 s) (hd : Disc s) (t : Tid) : ¬ WaitPath s t t :=
  fun hp => Nat.lt_irrefl _ (waitPath_rank s h1 hd t t hp)

/-- whoever is waited for is inside a call or owns a session -/
theorem waits_target_alive (s : S C R W D) (h1 : Inv1 s) (t u : Tid) (hw : WaitsFor s t u) :
    (s.thr u).prog ≠ [] ∨ holdsSession s u = true := by
  unfold WaitsFor at hw
  have hu := h1.typed u
  cases hp : (s.thr t).prog with
  | nil => rw [hp] at hw; cases hw
  | cons i rest =>
    rw [hp] at hw
    cases i <;> simp only at hw <;> try (cases hw; done)
    · left
      rcases wsOf_cases' s u hw with hb' | ho
      · rw [hb'] at hu; obtain ⟨r', hr'⟩ := head_of_bit _ _ hu; rw [hr']; simp
      · rw [ho] at hu; exact (head_of_own _ _ hu).1
    · left
      rcases wsOf_cases' s u hw with hb' | ho
      · rw [hb'] at hu; obtain ⟨r', hr'⟩ := head_of_bit _ _ hu; rw [hr']; simp
      · rw [ho] at hu; exact (head_of_own _ _ hu).1
    · right
      obtain ⟨x, hx, hxu⟩ := hw
      simp only [holdsSession, List.any_eq_true]; exact ⟨x, hx, by simp [hxu]⟩
    · left
      rw [show (s.m == some u) = true by simp [hw]] at hu
      exact (head_of_holdsM _ _ hu).1

/-- `u` can move: it is not blocked, and it is inside a call (its next micro-step is enabled) or it is an
idle owner of a session (which it can end: `endSession` is never blocked) -/
def CanMove (s : S C R W D) (u : Tid) : Prop :=
  blocked s u = false ∧ ((s.thr u).prog ≠ [] ∨ holdsSession s u = true)

/-- **deadlock freedom**: from a blocked thread, following wait edges (at most three) one reaches a thread
that can move -/
theorem progress (s : S C R W D) (h1 : Inv1 s) (hd : Disc s) :
    ∀ (n : Nat) (t : Tid), rank s t ≤ n → blocked s t = true → ∃ u, WaitPath s t u ∧ CanMove s u := by
  intro n
  induction n with
  | zero =>
    intro t hr hb
    have := (blocked_iff_rank s t).1 hb
    omega
  | succ n ih =>
    intro t hr hb
    obtain ⟨u, hw⟩ := blocked_waits s t hb
    have hlt := rank_decreases s h1 hd t u hb hw
    cases hbu : blocked s u with
    | false => exact ⟨u, .one hb hw, hbu, waits_target_alive s h1 t u hw⟩
    | true =>
      obtain ⟨v, hpv, hv⟩ := ih u (by omega) hbu
      exact ⟨v, .cons hb hw hpv, hv⟩

/-- a blocked step leaves the state unchanged (it just waits) -/
theorem blocked_step (s : S C R W D) (t : Tid) (h : blocked s t = true) :
    next ops s (.step t) = (s, .blocked) := by
  unfold blocked at h
  simp only [next]
  cases hp : (s.thr t).prog with
  | nil => simp [hp] at h
  | cons i rest =>
    rw [hp] at h
    cases i <;> simp at h <;> simp [exec, h]

/-- a thread inside a call that is not blocked makes a micro-step (its continuation changes) -/
theorem unblocked_step (s : S C R W D) (t : Tid) (i : Instr R W D) (rest : List (Instr R W D))
    (hp : (s.thr t).prog = i :: rest) (h : blocked s t = false) :
    (next ops s (.step t)).2 ≠ .blocked := by
  unfold blocked at h
  simp only [next, hp]
  rw [hp] at h
  by_cases hi : i.isEff = true
  · rw [exec_isEff ops s t i rest hi]
    split
    · simp
    · split <;> simp
  · cases i <;> simp [Instr.isEff] at hi <;> simp at h <;> simp [exec, h]
    · split <;> simp
    · split <;> simp

end Nomt.Locks2

namespace Nomt.Locks2
variable {C R W D : Type} [DecidableEq R] (ops : DbOps C R W D)

def Event.tid : Event R W D → Tid
  | .call t _ => t
  | .step t => t
  | .spur t _ => t

theorem next_thr_other (s : S C R W D) (e : Event R W D) (u : Tid) (h : e.tid ≠ u) :
    (next ops s e).1.thr u = s.thr u := by
  have hu : u ≠ e.tid := fun x => h x.symm
  cases e with
  | call t c =>
    simp only [Event.tid] at hu
    simp only [next]; split
    · simp [upd_other _ _ _ _ hu]
    · rfl
  | step t =>
    simp only [Event.tid] at hu
    simp only [next]
    cases hp : (s.thr t).prog with
    | nil => rfl
    | cons i rest =>
      simp only
      by_cases hi : i.isEff = true
      · rw [exec_isEff ops s t i rest hi]
        split
        · simp [upd_other _ _ _ _ hu]
        · split <;> simp [abort, upd_other _ _ _ _ hu]
      · cases i <;> simp [Instr.isEff] at hi <;> simp only [exec] <;> (try split) <;>
          simp [abort, upd_other _ _ _ _ hu]
  | spur t v =>
    simp only [Event.tid] at hu
    simp only [next]
    split
    · split
      · simp [abort, upd_other _ _ _ _ hu]
      · rfl
    · rfl

/-- a thread that is not scheduled keeps its thread state (in particular an uncalled thread stays idle) -/
theorem run_thr_other (evs : List (Event R W D)) (s : S C R W D) (u : Tid) (h : ∀ e ∈ evs, e.tid ≠ u) :
    (run ops s evs).thr u = s.thr u := by
  induction evs generalizing s with
  | nil => rfl
  | cons e rest ih =>
    have : run ops s (e :: rest) = run ops (next ops s e).1 rest := rfl
    rw [this, ih _ (fun e' he' => h e' (List.mem_cons_of_mem _ he')), next_thr_other ops s e u (h e (by simp))]

end Nomt.Locks2
