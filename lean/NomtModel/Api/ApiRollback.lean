import NomtModel.Api.Api
set_option linter.unusedSectionVars false
namespace NomtApi
variable {K V R : Type} [DecidableEq K] [DecidableEq R]

theorem lookup_append (a b : List (K × Option V)) (k : K) :
    lookup (a ++ b) k = match lookup a k with | some w => some w | none => lookup b k := by
  induction a with
  | nil => simp [lookup]
  | cons x xs ih =>
    obtain ⟨k', w⟩ := x
    by_cases h : k' = k
    · simp [lookup, h]
    · simp [lookup, h, ih]

theorem lookup_deltaOf (base : KV K V) (ws : List (K × Option V)) (k : K) :
    lookup (deltaOf base ws) k = (lookup ws k).map (fun _ => base k) := by
  induction ws with
  | nil => simp [lookup, deltaOf]
  | cons x xs ih =>
    obtain ⟨k', w⟩ := x
    by_cases h : k' = k
    · subst h; simp [lookup, deltaOf]
    · simp only [deltaOf, List.map_cons, lookup, h, if_false] at ih ⊢
      exact ih

/-- a log `ds` (oldest first) leading from `st0` to `fin` through actual commits -/
inductive Chain : KV K V → List (Delta K V) → KV K V → Prop
  | nil (st : KV K V) : Chain st [] st
  | cons (st : KV K V) (ws : List (K × Option V)) (rest : List (Delta K V)) (fin : KV K V) :
      Chain (applyWrites st ws) rest fin → Chain st (deltaOf st ws :: rest) fin

theorem traceback_cons (d : Delta K V) (ds : List (Delta K V)) : traceback (d :: ds) = d ++ traceback ds := rfl

/-- applying the traceback of a chain to its end state restores its start state -/
theorem undo_chain (st0 fin : KV K V) (ds : List (Delta K V)) (h : Chain st0 ds fin) :
    applyWrites fin (traceback ds) = st0 := by
  induction h with
  | nil st => funext k; simp [applyWrites, traceback, lookup]
  | cons st ws rest fin _ ih =>
    funext k
    have ihk := congrFun ih k
    simp only [applyWrites, traceback_cons, lookup_append, lookup_deltaOf] at ihk ⊢
    cases hws : lookup ws k with
    | some w => simp
    | none =>
      simp only [Option.map_none]
      rw [hws] at ihk
      exact ihk

theorem chain_append (st0 fin : KV K V) (a b : List (Delta K V)) :
    Chain st0 (a ++ b) fin ↔ ∃ mid, Chain st0 a mid ∧ Chain mid b fin := by
  constructor
  · intro h
    induction a generalizing st0 with
    | nil => exact ⟨st0, Chain.nil st0, h⟩
    | cons d ds ih =>
      cases h with
      | cons st ws rest fin h' =>
        obtain ⟨mid, h1, h2⟩ := ih _ h'
        exact ⟨mid, Chain.cons st0 ws ds mid h1, h2⟩
  · rintro ⟨mid, h1, h2⟩
    induction h1 with
    | nil st => exact h2
    | cons st ws rest m _ ih => exact Chain.cons st ws (rest ++ b) fin (ih h2)

/-- reachable-state invariant: the log is a chain ending in the current values -/
def Inv (s : St K V R) : Prop := ∃ st0, Chain st0 s.log s.kv

theorem commit_inv (cs : Changeset K V R) (s : St K V R) (hi : Inv s)
    (hd : cs.delta = deltaOf s.kv cs.writes) : Inv (commit cs s).2 := by
  unfold commit
  split
  · exact hi
  · obtain ⟨st0, hc⟩ := hi
    refine ⟨st0, ?_⟩
    simp only
    rw [chain_append]
    exact ⟨s.kv, hc, by rw [hd]; exact Chain.cons _ _ _ _ (Chain.nil _)⟩

/-- **C09**: `rollback n` (n ≤ log length) restores the values as they were before the last `n` commits,
keeps the older log, and preserves the invariant; too large `n` fails without changing anything. -/
theorem rollback_restores (rootOf : KV K V → R) (n : Nat) (s : St K V R) (hi : Inv s) (hn : 0 < n) :
    (n ≤ s.log.length →
      ∃ mid, Chain mid (s.log.drop (s.log.length - n)) s.kv ∧
        (rollback rootOf n s).1 = .ok ∧ (rollback rootOf n s).2.kv = mid ∧
        (rollback rootOf n s).2.log = s.log.take (s.log.length - n) ∧ Inv (rollback rootOf n s).2) ∧
    (s.log.length < n → rollback rootOf n s = (.err, s)) := by
  constructor
  · intro hle
    obtain ⟨st0, hc⟩ := hi
    have hsplit : s.log = s.log.take (s.log.length - n) ++ s.log.drop (s.log.length - n) :=
      (List.take_append_drop _ _).symm
    rw [hsplit, chain_append] at hc
    obtain ⟨mid, h1, h2⟩ := hc
    refine ⟨mid, h2, ?_⟩
    have hne : n ≠ 0 := by omega
    have hng : ¬ n > s.log.length := by omega
    have hu := undo_chain mid s.kv _ h2
    simp only [rollback, hne, if_false, hng, hu]
    exact ⟨trivial, trivial, trivial, ⟨st0, h1⟩⟩
  · intro hlt
    have hne : n ≠ 0 := by omega
    simp [rollback, hne, hlt]

end NomtApi

