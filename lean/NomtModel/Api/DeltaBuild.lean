import NomtModel.Api.OvlPrune
/-!
# Mirror of the reverse-delta builder (C09 / C11): `rollback/reverse_delta_worker.rs`, `rollback/mod.rs`

What is mirrored (run to completion — the asynchronous request bookkeeping of the worker is the subject of
`Api/DeltaWorker.lean`):

* `StoreLoadValueAsync::start_load`: the prior value of a key is looked up FIRST in the live overlay chain of the
  session (`LiveOverlay::value`, mirror `Ovl.Live.value`): `Insert v ↦ Some v`, `Delete ↦ None` — the store is
  NOT consulted —, and only when the chain does not change the key in the store (`lookup_async`, here the
  committed map `store`);
* `ReverseDeltaWorker::handle_lookup` (`priors.insert(key, value)`), with the `DashMap` / `HashMap` of priors as a
  canonical (strictly sorted) association list `PMap`: `insert` = `kvInsert` (overwrites), `remove` = `kvGet` +
  `kvErase`, `extend` = insert one by one;
* `ReverseDeltaBuilder::tentative_preserve_prior` (a `Lookup` command — the hint of `Session::preserve_prior_value`)
  and `finalize(actuals)`: `Join` (the tentative priors are complete, the worker switches to `fresh_priors`), the loop
  over the actuals (`Read` ↦ nothing; `Write` ↦ the tentative prior if the speculation was a hit — it MOVES from the
  tentative map to the final one —, else a `Lookup` command; `ReadThenWrite(prior, _)` ↦ the prior the caller read),
  the worker joining, `final_priors.extend(fresh_priors)`.

`startLoadFT` is the red-team change "a `Delete` held by a live ancestor overlay falls through to the committed
store" (counterexample in `Props/C09_Delta.lean`).
-/
namespace Nomt.Dlt
open Nomt Nomt.Ovl
variable {V : Type}

/-- `DashMap<KeyPath, Option<Vec<u8>>>` / `HashMap<…>` / `BTreeMap<…>` of priors: a finite map, kept canonical -/
abbrev PMap (V : Type) := KVL (Option V)

/-- `KeyReadWrite` -/
inductive RW (V : Type) where
  | read (v : Option V)
  | write (v : Option V)
  | rtw (prior new : Option V)
deriving Repr, DecidableEq

abbrev Actuals (V : Type) := List (Key × RW V)

/-- `StoreLoadValueAsync::start_load` followed to its completion -/
def startLoad (h : Heap V) (l : Live) (store : KVL V) (k : Key) : Outcome Unit (Option V) :=
  match l.value h k with
  | .ok (some c) => .ok c                      -- `change.as_option()`: `Delete ↦ None`, the store is not asked
  | .ok none => .ok (kvGet store k)            -- `read_tx.lookup_async(..)` (+ overflow pages)
  | .err e => .err e
  | .panic m => .panic m

/-- the red-team change: only an `Insert` is answered by the overlay, a `Delete` falls through to the store -/
def startLoadFT (h : Heap V) (l : Live) (store : KVL V) (k : Key) : Outcome Unit (Option V) :=
  match l.value h k with
  | .ok (some (some v)) => .ok (some v)
  | .ok (some none) => .ok (kvGet store k)
  | .ok none => .ok (kvGet store k)
  | .err e => .err e
  | .panic m => .panic m

/-- a sequence of `Lookup` commands handled by the worker: `priors.insert(key, start_load(key))` each -/
def lookupAll (load : Key → Outcome Unit (Option V)) : PMap V → List Key → Outcome Unit (PMap V)
  | m, [] => .ok m
  | m, k :: ks =>
    match load k with
    | .ok v => lookupAll load (kvInsert m k v) ks
    | .err e => .err e
    | .panic s => .panic s

/-- state of the loop of `finalize` -/
structure FinSt (V : Type) where
  tentative : PMap V            -- `self.priors` after the `Join`
  final : PMap V                -- `final_priors`
  lookups : List Key            -- `Lookup` commands sent to the worker (answers go to `fresh_priors`)

/-- one iteration of `for (path, read_write) in actuals` -/
def finStep (st : FinSt V) : Key × RW V → FinSt V
  | (_, .read _) => st
  | (k, .write _) =>
    match kvGet st.tentative k with
    | some v => { st with tentative := kvErase st.tentative k, final := kvInsert st.final k v }
    | none => { st with lookups := st.lookups ++ [k] }
  | (k, .rtw prior _) => { st with final := kvInsert st.final k prior }

/-- `HashMap::extend` -/
def extend (m : PMap V) (xs : List (Key × Option V)) : PMap V := xs.foldl (fun m kv => kvInsert m kv.1 kv.2) m

/-- `tentative_preserve_prior(k)` for every `k` of `hints` (in this order), then `finalize(actuals)`: the
`priors` of the `Delta` -/
def finalize (load : Key → Outcome Unit (Option V)) (hints : List Key) (actuals : Actuals V) : Outcome Unit (PMap V) :=
  match lookupAll load [] hints with
  | .ok tentative =>
    let st := actuals.foldl finStep { tentative := tentative, final := [], lookups := [] }
    (match lookupAll load [] st.lookups with
     | .ok fresh => .ok (extend st.final fresh)
     | .err e => .err e
     | .panic s => .panic s)
  | .err e => .err e
  | .panic s => .panic s

/-! ### specification -/

/-- the keys `Session::finish` writes -/
def writtenKeys : Actuals V → List Key
  | [] => []
  | (_, .read _) :: rest => writtenKeys rest
  | (k, .write _) :: rest => k :: writtenKeys rest
  | (k, .rtw _ _) :: rest => k :: writtenKeys rest

/-- the batch `Session::finish` hands to the value transaction -/
def writesOf : Actuals V → Writes V
  | [] => []
  | (_, .read _) :: rest => writesOf rest
  | (k, .write v) :: rest => (k, v) :: writesOf rest
  | (k, .rtw _ v) :: rest => (k, v) :: writesOf rest

/-- the priors a correct delta holds: the session's view of every written key -/
def priorSpec (view : Key → Option V) (a : Actuals V) : List (Key × Option V) :=
  (writtenKeys a).map (fun k => (k, view k))

/-- the caller contract of `ReadThenWrite(prior, _)`: `prior` is what the session read -/
def RtwTruthful (view : Key → Option V) (a : Actuals V) : Prop :=
  ∀ k p n, (k, RW.rtw p n) ∈ a → p = view k

/-- `Session::finish` debug-asserts that the actuals are strictly ascending by key -/
def ASorted (a : Actuals V) : Prop := a.Pairwise (fun x y => bitsLt x.1 y.1 = true)

end Nomt.Dlt
