import NomtModel.Api.ExecLemmas
/-!
Overlays on the executable API model (C11): the per-key session view equals the list view, and committing a
valid chain of overlays oldest-first succeeds at every step and yields the state that direct commits of the
same batches yield.
-/
namespace Nomt.Api
open Nomt
variable {Node VH : Type} [DecidableEq Node] [DecidableEq VH]

/-! ### the session view -/

theorem viewKV_nil (s : St Node VH) : viewKV s [] = s.kv := rfl

theorem viewKV_cons (s : St Node VH) (o : Nat) (rest : List Nat) :
    viewKV s (o :: rest) = match s.ov? o with
      | some ov => kvApply (viewKV s rest) ov.changes
      | none => viewKV s rest := rfl

theorem viewKV_sorted (s : St Node VH) (hs : KSorted s.kv) (chain : List Nat) : KSorted (viewKV s chain) := by
  induction chain with
  | nil => exact hs
  | cons o rest ih =>
    rw [viewKV_cons]
    cases s.ov? o with
    | none => exact ih
    | some ov => exact kvApply_sorted ih _

/-- the per-key view (first change along the chain, child first) equals reading the list view (overlays
applied oldest first), when every overlay's change keys are pairwise distinct -/
theorem viewGet_eq_kvGet_viewKV (s : St Node VH) (hs : KSorted s.kv) (chain : List Nat)
    (hd : ∀ o ∈ chain, ∀ ov, s.ov? o = some ov → WDistinct ov.changes) (k : Key) :
    viewGet s chain k = kvGet (viewKV s chain) k := by
  induction chain with
  | nil => rfl
  | cons o rest ih =>
    have ih' := ih (fun o' ho' => hd o' (List.mem_cons_of_mem _ ho'))
    rw [viewKV_cons]
    unfold viewGet
    cases ho : s.ov? o with
    | none => exact ih'
    | some ov =>
      simp only
      rw [kvGet_kvApply_distinct (viewKV_sorted s hs rest) (hd o (List.mem_cons_self ..) ov ho), ih']
      cases wsLookup ov.changes k <;> rfl

/-! ### overlay lookup is stable under updates of other overlays -/

theorem find?_setMap_ne (l : List (Ov Node VH)) (o' : Ov Node VH) (id : Nat) (hne : o'.id ≠ id) :
    (l.map (fun x => if x.id == o'.id then o' else x)).find? (·.id == id) = l.find? (·.id == id) := by
  induction l with
  | nil => rfl
  | cons x xs ih =>
    simp only [List.map_cons, List.find?_cons]
    by_cases hx : (x.id == o'.id) = true
    · have hx' : x.id = o'.id := by simpa using hx
      have h1 : (o'.id == id) = false := by simpa using hne
      have h2 : (x.id == id) = false := by rw [hx']; exact h1
      simp only [hx, if_true, h1, h2]
      exact ih
    · simp only [hx, Bool.false_eq_true, if_false]
      cases (x.id == id) with
      | true => rfl
      | false => exact ih

theorem find?_setMap_self (l : List (Ov Node VH)) (o o' : Ov Node VH) (ho : l.find? (·.id == o'.id) = some o) :
    (l.map (fun x => if x.id == o'.id then o' else x)).find? (·.id == o'.id) = some o' := by
  induction l with
  | nil => simp at ho
  | cons x xs ih =>
    simp only [List.map_cons, List.find?_cons] at ho ⊢
    by_cases hx : (x.id == o'.id) = true
    · simp [hx]
    · simp only [hx, Bool.false_eq_true, if_false] at ho ⊢
      exact ih ho

theorem setOv_ov?_ne (s : St Node VH) (o' : Ov Node VH) (id : Nat) (hne : o'.id ≠ id) :
    (setOv s o').ov? id = s.ov? id := find?_setMap_ne s.ovs o' id hne

theorem setOv_ov?_self (s : St Node VH) (o o' : Ov Node VH) (ho : s.ov? o'.id = some o) :
    (setOv s o').ov? o'.id = some o' := find?_setMap_self s.ovs o o' ho

theorem dropOv_ov?_ne (s : St Node VH) (oid id : Nat) (hne : oid ≠ id) : (dropOv s oid).ov? id = s.ov? id := by
  unfold dropOv
  split
  · next o ho =>
    apply setOv_ov?_ne
    show o.id ≠ id
    rw [(ov?_some ho).2]; exact hne
  · rfl

theorem commitOv_ov?_ne (s : St Node VH) (oid id : Nat) (hne : oid ≠ id) : (commitOv s oid).2.ov? id = s.ov? id := by
  rw [commitOv_eq]
  cases ho : s.ov? oid with
  | none => rfl
  | some o =>
    simp only
    have hid : o.id = oid := (ov?_some ho).2
    by_cases h1 : o.held = false
    · rw [if_pos h1]
    · rw [if_neg h1]
      by_cases h2 : parentOk s o = false
      · rw [if_pos h2]; exact dropOv_ov?_ne s oid id hne
      · rw [if_neg h2]
        by_cases h3 : s.root ≠ o.prevRoot
        · rw [if_pos h3]; exact dropOv_ov?_ne s oid id hne
        · rw [if_neg h3]
          show (setOv (dropOv s oid) _).ov? id = s.ov? id
          rw [setOv_ov?_ne _ _ _ (by show o.id ≠ id; rw [hid]; exact hne)]
          exact dropOv_ov?_ne s oid id hne

/-- a commit of a held overlay whose parent check and base root are fine succeeds with this state -/
theorem commitOv_ok (s : St Node VH) (oid : Nat) (o : Ov Node VH) (ho : s.ov? oid = some o) (hh : o.held = true)
    (hp : parentOk s o = true) (hr : s.root = o.prevRoot) :
    commitOv s oid = (.ok, applyCommit (setOv (dropOv s oid) { o with held := false, committed := true })
                              o.changes o.delta o.root (some oid)) := by
  rw [commitOv_eq, ho]
  simp [hh, hp, hr]

/-! ### the part of the state that commits read and write -/

/-- everything `applyCommit` reads or writes -/
def core (s : St Node VH) : KVL VH × Node × List (Writes VH) × Nat × Bool × Nat × Option Nat :=
  (s.kv, s.root, s.log, s.maxLog, s.rollbackOn, s.seqn, s.lastMarker)

theorem core_setOv (s : St Node VH) (o : Ov Node VH) : core (setOv s o) = core s := rfl

theorem core_dropOv (s : St Node VH) (oid : Nat) : core (dropOv s oid) = core s := by
  unfold dropOv; split <;> rfl

theorem core_applyCommit_congr {a b : St Node VH} (h : core a = core b) (ws d : Writes VH) (r : Node) (m : Option Nat) :
    core (applyCommit a ws d r m) = core (applyCommit b ws d r m) := by
  simp only [core, Prod.mk.injEq] at h
  obtain ⟨h1, h2, h3, h4, h5, h6, h7⟩ := h
  simp only [core, applyCommit, pushLog, h1, h3, h4, h5, h6]

theorem obs_of_core {a b : St Node VH} (h : core a = core b) : obs a = obs b := by
  simp only [core, Prod.mk.injEq] at h
  obtain ⟨h1, h2, h3, h4, h5, h6, h7⟩ := h
  simp only [obs, h1, h2, h3, h6, h7]

/-! ### committing a sequence of overlays, oldest first -/

/-- commit the overlays `l` in order, stopping at the first one that is not `ok`; the flag says whether every
commit returned `ok` -/
def commitSeq (s : St Node VH) : List Nat → Bool × St Node VH
  | [] => (true, s)
  | o :: rest => if (commitOv s o).1 = .ok then commitSeq (commitOv s o).2 rest else (false, (commitOv s o).2)

/-- direct commits of the batches of the overlays `l` (looked up in `s0`), in order -/
def directSeq (s0 st : St Node VH) (l : List Nat) : St Node VH :=
  l.foldl (fun st o => match s0.ov? o with
    | some ov => applyCommit st ov.changes ov.delta ov.root (some o)
    | none => st) st

theorem directSeq_append (s0 st : St Node VH) (a b : List Nat) :
    directSeq s0 st (a ++ b) = directSeq s0 (directSeq s0 st a) b := by
  simp [directSeq, List.foldl_append]

theorem directSeq_snoc (s0 st : St Node VH) (a : List Nat) (o : Nat) (ov : Ov Node VH) (ho : s0.ov? o = some ov) :
    directSeq s0 st (a ++ [o]) = applyCommit (directSeq s0 st a) ov.changes ov.delta ov.root (some o) := by
  rw [directSeq_append]
  simp [directSeq, ho]

theorem commitSeq_append (s : St Node VH) (a b : List Nat) :
    commitSeq s (a ++ b) =
      if (commitSeq s a).1 = true then commitSeq (commitSeq s a).2 b else (false, (commitSeq s a).2) := by
  induction a generalizing s with
  | nil => simp [commitSeq]
  | cons o rest ih =>
    simp only [List.cons_append, commitSeq]
    by_cases h : (commitOv s o).1 = .ok
    · simp only [h, if_true]; exact ih _
    · simp [h]

theorem commitSeq_ov?_ne (s : St Node VH) (l : List Nat) (id : Nat) (hn : id ∉ l) :
    (commitSeq s l).2.ov? id = s.ov? id := by
  induction l generalizing s with
  | nil => rfl
  | cons o rest ih =>
    have hne : o ≠ id := fun e => hn (e ▸ List.mem_cons_self ..)
    have hr : id ∉ rest := fun e => hn (List.mem_cons_of_mem _ e)
    simp only [commitSeq]
    by_cases h : (commitOv s o).1 = .ok
    · simp only [h, if_true]
      rw [ih _ hr]; exact commitOv_ov?_ne s o id hne
    · simp only [h, if_false]
      exact commitOv_ov?_ne s o id hne

theorem directSeq_kv (s0 st : St Node VH) (l : List Nat) :
    (directSeq s0 st l).kv =
      l.foldl (fun acc o => match s0.ov? o with | some ov => kvApply acc ov.changes | none => acc) st.kv := by
  induction l generalizing st with
  | nil => rfl
  | cons o rest ih =>
    simp only [directSeq, List.foldl_cons] at ih ⊢
    rw [ih]
    cases s0.ov? o <;> rfl

/-- direct commits of a chain's batches, oldest first, produce the list view of the chain -/
theorem directSeq_kv_viewKV (s : St Node VH) (chain : List Nat) :
    (directSeq s s chain.reverse).kv = viewKV s chain := by
  rw [directSeq_kv, List.foldl_reverse]
  rfl

/-- a valid chain of overlays (child first): every overlay exists and its handle is held; the oldest one
passes the parent check in `s` (no parent, or the parent is the last committed overlay) and is based on the
current root; every other one names its predecessor in the chain as parent and is based on its root -/
def ValidChain (s : St Node VH) : List Nat → Prop
  | [] => True
  | [o] => ∃ ov, s.ov? o = some ov ∧ ov.held = true ∧ parentOk s ov = true ∧ ov.prevRoot = s.root
  | c :: p :: rest =>
    (∃ ovc ovp, s.ov? c = some ovc ∧ s.ov? p = some ovp ∧ ovc.held = true ∧ ovc.parent = some p ∧
      ovc.prevRoot = ovp.root) ∧ ValidChain s (p :: rest)

theorem ValidChain.head_some {s : St Node VH} {c : Nat} {rest : List Nat} (h : ValidChain s (c :: rest)) :
    ∃ ov, s.ov? c = some ov := by
  cases rest with
  | nil => obtain ⟨ov, h1, _⟩ := h; exact ⟨ov, h1⟩
  | cons p rest => obtain ⟨⟨ovc, _, h1, _⟩, _⟩ := h; exact ⟨ovc, h1⟩

theorem dropOv_ov?_self (s : St Node VH) (oid : Nat) (o : Ov Node VH) (ho : s.ov? oid = some o) :
    (dropOv s oid).ov? oid = some { o with held := false } := by
  have hid : o.id = oid := (ov?_some ho).2
  subst hid
  unfold dropOv
  rw [ho]
  exact setOv_ov?_self s o { o with held := false } ho

/-- after a successful overlay commit the overlay is marked committed and its handle is gone -/
theorem commitOv_ok_ov?_self (s : St Node VH) (oid : Nat) (o : Ov Node VH) (ho : s.ov? oid = some o)
    (hh : o.held = true) (hp : parentOk s o = true) (hr : s.root = o.prevRoot) :
    (commitOv s oid).2.ov? oid = some { o with held := false, committed := true } := by
  have hid : o.id = oid := (ov?_some ho).2
  rw [commitOv_ok s oid o ho hh hp hr]
  subst hid
  exact setOv_ov?_self (dropOv s o.id) { o with held := false } { o with held := false, committed := true }
    (dropOv_ov?_self s o.id o ho)

theorem commitSeq_snoc_snd (s : St Node VH) (l : List Nat) (c : Nat) (h1 : (commitSeq s l).1 = true) :
    (commitSeq s (l ++ [c])).2 = (commitOv (commitSeq s l).2 c).2 := by
  rw [commitSeq_append, if_pos h1]
  simp only [commitSeq]
  split <;> rfl

/-- one more commit at the end of a sequence that went through -/
theorem commitSeq_snoc_ok (s : St Node VH) (l : List Nat) (c : Nat) (ovc : Ov Node VH)
    (h1 : (commitSeq s l).1 = true) (hcore : core (commitSeq s l).2 = core (directSeq s s l))
    (hs : s.ov? c = some ovc) (hc : c ∉ l) (hh : ovc.held = true)
    (hp : parentOk (commitSeq s l).2 ovc = true) (hr : (commitSeq s l).2.root = ovc.prevRoot) :
    (commitSeq s (l ++ [c])).1 = true ∧ core (commitSeq s (l ++ [c])).2 = core (directSeq s s (l ++ [c])) ∧
    (commitSeq s (l ++ [c])).2.ov? c = some { ovc with held := false, committed := true } ∧
    (∀ id, id ≠ c → (commitSeq s (l ++ [c])).2.ov? id = (commitSeq s l).2.ov? id) := by
  have hov : (commitSeq s l).2.ov? c = some ovc := by rw [commitSeq_ov?_ne s l c hc]; exact hs
  have hok := commitOv_ok (commitSeq s l).2 c ovc hov hh hp hr
  refine ⟨?_, ?_, ?_, ?_⟩
  · rw [commitSeq_append, if_pos h1]
    simp only [commitSeq, hok, if_true]
  · rw [commitSeq_snoc_snd s l c h1, directSeq_snoc s s l c ovc hs, hok]
    apply core_applyCommit_congr
    rw [core_setOv, core_dropOv]
    exact hcore
  · rw [commitSeq_snoc_snd s l c h1]
    exact commitOv_ok_ov?_self _ c ovc hov hh hp hr
  · intro id hid
    rw [commitSeq_snoc_snd s l c h1]
    exact commitOv_ov?_ne _ c id (fun e => hid e.symm)

/-- **committing a valid chain oldest-first**: every commit returns `ok`, the committed state (values,
root, rollback log, sequence number, marker) is the one direct commits of the same batches produce, and
every overlay of the chain ends up committed with its handle consumed -/
theorem commitSeq_chain (s : St Node VH) (chain : List Nat) (hnd : chain.Nodup) (hv : ValidChain s chain) :
    (commitSeq s chain.reverse).1 = true ∧
    core (commitSeq s chain.reverse).2 = core (directSeq s s chain.reverse) ∧
    (∀ o ∈ chain, ∃ ov, s.ov? o = some ov ∧
      (commitSeq s chain.reverse).2.ov? o = some { ov with held := false, committed := true }) := by
  induction chain with
  | nil => exact ⟨rfl, rfl, fun o ho => by cases ho⟩
  | cons c tl ih =>
    have hc' : c ∉ tl := (List.nodup_cons.1 hnd).1
    have hc : c ∉ tl.reverse := by rw [List.mem_reverse]; exact hc'
    have hnd' := (List.nodup_cons.1 hnd).2
    rw [List.reverse_cons]
    cases tl with
    | nil =>
      obtain ⟨ov, h1, h2, h3, h4⟩ := hv
      obtain ⟨r1, r2, r3, _⟩ := commitSeq_snoc_ok s [] c ov rfl rfl h1 hc h2 h3 h4.symm
      refine ⟨r1, r2, ?_⟩
      intro o ho
      have : o = c := by simpa using ho
      subst this
      exact ⟨ov, h1, r3⟩
    | cons p rest =>
      obtain ⟨⟨ovc, ovp, h1, h2, h3, h4, h5⟩, hv'⟩ := hv
      obtain ⟨i1, i2, i3⟩ := ih hnd' hv'
      have hd : directSeq s s (p :: rest).reverse
          = applyCommit (directSeq s s rest.reverse) ovp.changes ovp.delta ovp.root (some p) := by
        rw [List.reverse_cons]; exact directSeq_snoc s s _ p ovp h2
      have hcore := i2
      rw [hd] at hcore
      simp only [core, applyCommit, Prod.mk.injEq] at hcore
      obtain ⟨_, hroot, _, _, _, _, hmark⟩ := hcore
      obtain ⟨r1, r2, r3, r4⟩ := commitSeq_snoc_ok s _ c ovc i1 i2 h1 hc h3
        (by unfold parentOk; rw [h4]; simp only; rw [hmark]; simp) (by rw [hroot, h5])
      refine ⟨r1, r2, ?_⟩
      intro o ho
      rcases List.mem_cons.1 ho with e | ho'
      · subst e; exact ⟨ovc, h1, r3⟩
      · obtain ⟨ov, g1, g2⟩ := i3 o ho'
        have hne : o ≠ c := fun e => hc' (e ▸ ho')
        exact ⟨ov, g1, by rw [r4 o hne]; exact g2⟩

theorem directSeq_root_baseRoot (s : St Node VH) (chain : List Nat)
    (hh : ∀ c rest, chain = c :: rest → ∃ ov, s.ov? c = some ov) :
    (directSeq s s chain.reverse).root = baseRoot s chain := by
  cases chain with
  | nil => rfl
  | cons c rest =>
    obtain ⟨ov, ho⟩ := hh c rest rfl
    rw [List.reverse_cons, directSeq_snoc s s _ c ov ho]
    simp [baseRoot, ho, applyCommit]

end Nomt.Api
