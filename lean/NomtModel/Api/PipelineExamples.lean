import NomtModel.Api.PipelineCalls
/-! Concrete states / environments for the non-vacuity examples and counterexamples of `Props/C14_Pipeline.lean` and
`Props/C12_Pipeline.lean` (nodes and value hashes are numbers). -/
namespace Nomt.Api.Pipe.Ex
open Nomt Nomt.Api Nomt.Api.Pipe

/-- committed root 7, one earlier commit in the rollback log; finished session 1 is based on the current root, finished
session 2 on a stale one; overlay 10 has no parent and is based on the current root, overlay 11 is its child, overlay 12 is
parent-less but stale -/
def st0 : St Nat Nat :=
  { root := 7, kv := [([false, false], 3)], log := [[([false, false], none)]], maxLog := 2, seqn := 1,
    fins := [{ id := 1, chain := [], writes := [([true], some 5)], prevRoot := 7, root := 8, delta := [([true], none)] },
             { id := 2, chain := [], writes := [([false], some 6)], prevRoot := 3, root := 9, delta := [([false], none)] }],
    ovs := [{ id := 10, parent := none, ancestors := [], changes := [([true], some 1)], prevRoot := 7, root := 11,
              delta := [([true], none)] },
            { id := 11, parent := some 10, ancestors := [10], changes := [([true, true], some 2)], prevRoot := 11, root := 12,
              delta := [([true, true], none)] },
            { id := 12, parent := none, ancestors := [], changes := [([false], some 4)], prevRoot := 5, root := 13,
              delta := [([false], none)] }] }

def p0 : PSt Nat Nat := PSt.ofSt st0

/-- the same handle with a read session alive (its read guard makes `try_write` fail) -/
def pBusy : PSt Nat Nat := PSt.ofSt { st0 with sess := [{ id := 5, chain := [] }] }

/-- the same handle after an earlier fault -/
def pPoisoned : PSt Nat Nat := { p0 with poisoned := true }

/-- a fault injected once at one I/O label -/
def once (l : Io) : Env := { F := fun a => a == l }

/-- a trivial hasher (the root of a rollback is computed by the model) -/
def HN : Hasher Nat Nat := { term := 0, leaf := fun _ v => v + 1, internal := fun l r => l + r + 100, kind := fun _ => .leaf }

end Nomt.Api.Pipe.Ex
