import NomtModel.Api.SplitPending
/-!
`root_of_workers`: for every worker count `1 … 64`, the root-page pass over the pending list the workers produce
(`pendingOf` of the batches of `runWorkers`, child-page roots as specified) yields `nodeAt` of the updated set.
-/
set_option linter.unusedSectionVars false
namespace Nomt.Split
open Nomt Nomt.Api
variable {Node VH : Type} [DecidableEq Node] [DecidableEq VH]

theorem mem_sliceOf_of_get {ops : List (Op VH)} {r : Nat × Nat} {o : Op VH} (j : Nat) (h1 : r.1 ≤ j) (h2 : j < r.2)
    (ho : ops[j]? = some o) : o ∈ sliceOf ops r := by
  apply List.mem_iff_getElem?.mpr
  refine ⟨j - r.1, ?_⟩
  simp only [sliceOf, List.getElem?_take, List.getElem?_drop]
  rw [if_pos (by omega), show r.1 + (j - r.1) = j by omega]
  exact ho

theorem isWrite_of_written {rw : RW VH} {v : Option VH} (h : rw.written = some v) : rw.isWrite = true := by
  cases rw <;> simp [RW.written] at h <;> rfl

theorem childOf_of_prefix (pos k : List Bool) (h : pos <+: k) (hl : 6 ≤ pos.length) : childOf pos = childOf k := by
  obtain ⟨t, rfl⟩ := h
  simp only [childOf]
  rw [List.take_append_of_le_length hl]

section Final
variable (H : Hasher Node VH) (hs : H.Sound) (L : Nat) (view : KVL VH) (hvlen : ∀ kv ∈ view, kv.1.length = L)
  (hsorted : view.Pairwise KeyLt) (n : Nat) (ops : List (Op VH)) (hlen : ∀ o ∈ ops, o.1.length = L)
  (hsort : ops.Pairwise KeyLt) (hL : 6 ≤ L) (h1 : 1 ≤ n) (h64 : n ≤ 64)

/-- the node of the updated set at a position — what a worker's page walker reports for a child page -/
def specNode (p : List Bool) : Node :=
  nodeAt H (L - p.length) p.length (under p (kvApply view (subtrieOps ops)))

theorem canon_of_view (hvlen : ∀ kv ∈ view, kv.1.length = L) (hsorted : view.Pairwise KeyLt) : Canon L 0 view := by
  apply canon_of_sorted L 0 view []
  · refine List.Pairwise.imp_of_mem ?_ hsorted
    intro a b ha hb hab
    exact bl_lexLt _ _ (by rw [hvlen a ha, hvlen b hb]) hab
  · intro kv h; rw [hvlen kv h]; omega
  · intro kv _; rfl

include hs hvlen hsorted hlen hsort hL h1 h64 in
/-- **the root does not depend on the number of commit workers**: for every `n ∈ 1…64` the root-page pass over the
pending list of the `n` workers gives the root of the updated set -/
theorem root_of_workers :
    composeRoot H L view ops
      (pendingOf (specNode H L view ops) ((runWorkers L n (tpOf (proveSpec H L view)) ops).getD []))
      = nodeAt H L 0 (kvApply view (subtrieOps ops)) := by
  have hc := canon_of_view L view hvlen hsorted
  have T := termFn_spec H hs L view hc
  rw [runWorkers_spec L n (proveSpec H L view) ops T hlen hL h1 h64, Option.getD_some]
  -- what is known about a worker's batches
  have hworker : ∀ bs ∈ (List.range n).map (fun i => (runWorker L n i (tpOf (proveSpec H L view)) ops).getD []),
      ∃ i, i < n ∧ runWorker L n i (tpOf (proveSpec H L view)) ops = some bs ∧
        (bs.filter (·.owned)).map (fun b => (b.start, b.next)) = ownedRuns L n (proveSpec H L view) ops i ∧
        (∀ b ∈ bs.filter (·.owned), (∃ o, ops[b.start]? = some o ∧ b.pos = tpOf (proveSpec H L view) o.1) ∧
          b.nonExcl = !exclusivePage n i b.pos) := by
    intro bs hbs
    obtain ⟨i, hi, rfl⟩ := List.mem_map.mp hbs
    have hin := List.mem_range.mp hi
    obtain ⟨bs', hb, hmap, hprop, _⟩ := runWorker_spec L n (proveSpec H L view) ops T hlen hL h1 h64 i hin
    rw [hb, Option.getD_some]
    exact ⟨i, hin, hb, hmap, hprop⟩
  -- an owned batch of worker `i` is a run starting in the worker's range
  have howned : ∀ (bs : List Batch) (i : Nat), i < n →
      (bs.filter (·.owned)).map (fun b => (b.start, b.next)) = ownedRuns L n (proveSpec H L view) ops i →
      ∀ b ∈ bs, b.owned = true →
        bound L n ops i ≤ b.start ∧ b.start < bound L n ops (i+1) ∧
        runStart (terms (tpOf (proveSpec H L view)) ops) b.start = true ∧
        b.next = align (terms (tpOf (proveSpec H L view)) ops) (b.start + 1) := by
    intro bs i _ hmap b hb ho
    have hm : (b.start, b.next) ∈ ownedRuns L n (proveSpec H L view) ops i := by
      rw [← hmap]
      exact List.mem_map.mpr ⟨b, List.mem_filter.mpr ⟨hb, by simpa using ho⟩, rfl⟩
    exact ownedRuns_range L n (proveSpec H L view) ops hlen hL h1 h64 i _ hm
  apply composeRoot_spec H hs L view hvlen hsorted ops hlen hsort
  · -- child-page roots are the specified nodes
    intro p m hm
    obtain ⟨bs, _, hy⟩ := (mem_pendingOf _ _ _).mp hm
    unfold pendingOfWorker at hy
    rcases List.mem_append.mp hy with h | h
    · obtain ⟨b, _, e⟩ := List.mem_map.mp h; cases e
    · obtain ⟨q, _, e⟩ := List.mem_map.mp h
      injection e with e1 e2
      injection e2 with e2
      subst e1; subst e2; rfl
  · -- a deferred terminal carries exactly the writes below it
    intro p s e hm
    obtain ⟨bs, hbs, hy⟩ := (mem_pendingOf _ _ _).mp hm
    obtain ⟨i, hin, _, hmap, hprop⟩ := hworker bs hbs
    unfold pendingOfWorker at hy
    rcases List.mem_append.mp hy with h | h
    · obtain ⟨b, hb, e⟩ := List.mem_map.mp h
      injection e with e1 e2
      injection e2 with e2 e3
      subst e1; subst e2; subst e3
      obtain ⟨hbm, hbo⟩ := List.mem_filter.mp hb
      simp only [Bool.and_eq_true] at hbo
      obtain ⟨_, _, hrs, hnext⟩ := howned bs i hin hmap b hbm hbo.1
      obtain ⟨⟨o, ho, hpos⟩, _⟩ := hprop b (List.mem_filter.mpr ⟨hbm, by simpa using hbo.1⟩)
      have := run_writes T ops hlen hsort b.start o ho hrs
      rw [hpos, ← this, hnext]
      rfl
    · obtain ⟨q, _, e⟩ := List.mem_map.mp h; cases e
  · -- every written key lies below an entry
    intro w hw
    simp only [subtrieOps, List.mem_filterMap] at hw
    obtain ⟨o, hom, he⟩ := hw
    cases hwr : o.2.written with
    | none => simp [hwr] at he
    | some v =>
      simp [hwr] at he
      obtain ⟨j, hj⟩ := List.mem_iff_getElem?.mp hom
      have hjl : j < ops.length := (List.getElem?_eq_some_iff.mp hj).1
      have hl : (terms (tpOf (proveSpec H L view)) ops).length = ops.length := by simp [terms]
      obtain ⟨r, hr, hr1, hr2⟩ := runsFrom_cover (terms (tpOf (proveSpec H L view)) ops) 0 ops.length j
        (Nat.zero_le _) hjl (by rw [hl]; exact hjl)
      have hr' : r ∈ allRuns (terms (tpOf (proveSpec H L view)) ops) := by rw [allRuns, hl]; exact hr
      rw [← owned_concat L n (proveSpec H L view) ops T hlen hL h1 h64] at hr'
      obtain ⟨i, hi, hri⟩ := List.mem_flatMap.mp hr'
      have hin := List.mem_range.mp hi
      obtain ⟨bs, hb, hmap, hprop, _⟩ := runWorker_spec L n (proveSpec H L view) ops T hlen hL h1 h64 i hin
      have hbss : bs ∈ (List.range n).map (fun i => (runWorker L n i (tpOf (proveSpec H L view)) ops).getD []) :=
        List.mem_map.mpr ⟨i, hi, by rw [hb, Option.getD_some]⟩
      rw [← hmap] at hri
      obtain ⟨b, hbf, hbr⟩ := List.mem_map.mp hri
      obtain ⟨hbm, hbo⟩ := List.mem_filter.mp hbf
      obtain ⟨⟨os, hos, hpos⟩, _⟩ := hprop b hbf
      have hrng := ownedRuns_range L n (proveSpec H L view) ops hlen hL h1 h64 i r (by rw [← hmap]; exact hri)
      have hbs1 : b.start = r.1 := by rw [← hbr]
      have hbs2 : b.next = r.2 := by rw [← hbr]
      -- the batch has writes
      have hhw : b.hasWrites = true := by
        unfold runWorker at hb
        obtain ⟨st, hst⟩ := workerLoop_mem _ _ _ _ _ _ _ bs hb b hbm
        rw [handleCompletion_hasWrites _ _ _ _ _ b hst, hbs1, hbs2]
        exact List.any_eq_true.mpr ⟨o, mem_sliceOf_of_get j hr1 hr2 hj, isWrite_of_written hwr⟩
      -- the key lies below the batch's terminal
      have hconst := run_const (terms (tpOf (proveSpec H L view)) ops) r.1 j hr1 (by rw [← hrng.2.2.2]; exact hr2)
      rw [terms_get, terms_get, hj, ← hbs1, hos] at hconst
      have htp : tpOf (proveSpec H L view) o.1 = tpOf (proveSpec H L view) os.1 := by simpa using hconst
      have hpfx : b.pos <+: o.1 := by rw [hpos, ← htp]; exact T.pfx o.1
      rw [← he]
      cases hne : b.nonExcl with
      | true =>
        refine ⟨(b.pos, Pend.subtrie b.start b.next), (mem_pendingOf _ _ _).mpr ⟨bs, hbss, ?_⟩, hpfx⟩
        unfold pendingOfWorker
        apply List.mem_append_left
        exact List.mem_map.mpr ⟨b, List.mem_filter.mpr ⟨hbm, by simp [hne]; simpa using hbo⟩, rfl⟩
      | false =>
        refine ⟨(b.pos.take 6, Pend.node (specNode H L view ops (b.pos.take 6))),
          (mem_pendingOf _ _ _).mpr ⟨bs, hbss, ?_⟩, List.IsPrefix.trans (List.take_prefix _ _) hpfx⟩
        unfold pendingOfWorker
        apply List.mem_append_right
        apply List.mem_map.mpr
        refine ⟨b.pos.take 6, ?_, rfl⟩
        unfold childRootPositions
        rw [mem_dedupAdj]
        exact List.mem_map.mpr ⟨b, List.mem_filter.mpr ⟨hbm, by simp [hne, hhw]; simpa using hbo⟩, rfl⟩
  · -- no entry is deeper than the root page
    intro y hy
    obtain ⟨bs, hbs, hyw⟩ := (mem_pendingOf _ _ _).mp hy
    obtain ⟨i, hin, _, hmap, hprop⟩ := hworker bs hbs
    unfold pendingOfWorker at hyw
    rcases List.mem_append.mp hyw with h | h
    · obtain ⟨b, hb, e⟩ := List.mem_map.mp h
      subst e
      obtain ⟨hbm, hbo⟩ := List.mem_filter.mp hb
      simp only [Bool.and_eq_true] at hbo
      obtain ⟨hr1, hr2, _, _⟩ := howned bs i hin hmap b hbm hbo.1
      obtain ⟨⟨o, ho, hpos⟩, hnx⟩ := hprop b (List.mem_filter.mpr ⟨hbm, by simpa using hbo.1⟩)
      simp only
      rcases Nat.lt_or_ge 6 b.pos.length with hdeep | hok
      · exfalso
        have hreg := range_spec L n ops hlen hL h1 h64 hsort i hin b.start o hr1 hr2 ho
        have hch : childOf b.pos = childOf o.1 := childOf_of_prefix _ _ (by rw [hpos]; exact T.pfx o.1) (by omega)
        have hex : exclusivePage n i b.pos = true := by
          simp only [exclusivePage, Bool.and_eq_true, decide_eq_true_eq, hch]
          exact ⟨⟨hdeep, hreg.1⟩, hreg.2⟩
        rw [hnx, hex] at hbo
        simp at hbo
      · exact hok
    · obtain ⟨q, hq, e⟩ := List.mem_map.mp h
      subst e
      unfold childRootPositions at hq
      rw [mem_dedupAdj] at hq
      obtain ⟨b, _, rfl⟩ := List.mem_map.mp hq
      simp only [List.length_take]
      omega
  · exact hL

end Final

end Nomt.Split
