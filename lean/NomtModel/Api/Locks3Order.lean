import NomtModel.Api.Locks3
import NomtModel.Store.StepOrderCheck
/-!
The micro-step sequence of `begin_session` in the three-resource LTS (lock micro-steps of `progOf` interleaved with the
queued read-transaction micro-steps, exactly as `next3` forces a thread to perform them) compared with the step list
`tools/gen_steps.py` reads off the CURRENT text of `Nomt::begin_session`, on the vocabulary

    guard_read (`RwLock::read_arc(&self.access_lock)`) · delta_builder (`….delta_builder(`) · updater_begin (`merkle_update_pool.begin`)

(`root_read` = `self.root()` is listed by the translator but not compared: the LTS queues the updater's `rtBegin` right
behind the delta builder's, before the M section of `self.root()` — see the header of `Api/Locks3.lean`).
-/
namespace Nomt.Locks3
open Nomt.Locks2 Nomt.GenOrder

variable {R W D : Type}

/-- what a thread running call `c` alone performs, in order: the rt micro-steps queued at the call, then each lock
micro-step followed by the rt micro-steps queued behind it -/
def microSeq (v : Variant) (c : Call R W D) : List (Instr R W D ⊕ RtI) :=
  (rtAtCall v c).map .inr ++ go (progOf c)
where
  go : List (Instr R W D) → List (Instr R W D ⊕ RtI)
    | [] => []
    | i :: rest => .inl i :: ((rtAfter v i rest).map .inr ++ go rest)

/-- the sequence in the vocabulary of the translator; the `k`-th `rtBegin` of a `begin_session` is the delta builder's
(`k = 0`) or the updater's -/
def orderRt : List (Instr R W D ⊕ RtI) → Nat → List N
  | [], _ => []
  | .inl (.aRead _) :: l, k => .guard_read :: orderRt l k
  | .inr (.rtBegin _) :: l, k => (if k = 0 then N.delta_builder else N.updater_begin) :: orderRt l (k + 1)
  | _ :: l, k => orderRt l k

/-- the source's `begin_session` on the same vocabulary -/
def sessOrderS (f : List Step) : List N :=
  (names f).filter (fun n => n == .guard_read || n == .delta_builder || n == .updater_begin)

/-- the drop of a session in the vocabulary of the field list: `rtDrop` = the drops of the two fields that own read
transactions (`merkle_updater`, `rollback_delta`: their relative order is immaterial to the LTS, both are gone after
`rtDrop`), `aReadUnlock` = the drop of `access_guard` -/
def dropOrder : List (Instr R W D ⊕ RtI) → List N
  | [] => []
  | .inr (.rtDrop _) :: l => .field_updater :: .field_delta :: dropOrder l
  | .inl (.aReadUnlock _) :: l => .field_guard :: dropOrder l
  | _ :: l => dropOrder l

end Nomt.Locks3
