import NomtModel.Api.Pipeline
/-!
Lemmas about the pipeline mirror `Api/Pipeline.lean`: traces of tasks, the outcome of `Sync::sync` / `Store::commit` by the
position of the failing operation.
-/
namespace Nomt.Api.Pipe
open Nomt Nomt.Api
variable {Node VH : Type} [DecidableEq Node] [DecidableEq VH]

/-! ### traces -/

@[simp] theorem noFail_nil : noFail [] = true := rfl
@[simp] theorem noFail_append (a b : List Step) : noFail (a ++ b) = (noFail a && noFail b) := by
  simp [noFail, List.all_append]
@[simp] theorem noFail_cons (s : Step) (a : List Step) : noFail (s :: a) = (!s.failedIo && noFail a) := by
  simp [noFail]
@[simp] theorem failedAt_nil (pos : Pos) : failedAt pos [] = false := rfl
@[simp] theorem failedAt_append (pos : Pos) (a b : List Step) :
    failedAt pos (a ++ b) = (failedAt pos a || failedAt pos b) := by
  simp [failedAt, List.any_append]
@[simp] theorem failedAt_cons (pos : Pos) (s : Step) (a : List Step) :
    failedAt pos (s :: a) = (s.failedAt pos || failedAt pos a) := by
  simp [failedAt]
@[simp] theorem noEffect_nil : noEffect [] = true := rfl
@[simp] theorem noEffect_append (a b : List Step) : noEffect (a ++ b) = (noEffect a && noEffect b) := by
  simp [noEffect, List.all_append]
@[simp] theorem noEffect_cons (s : Step) (a : List Step) : noEffect (s :: a) = (!s.effect && noEffect a) := by
  simp [noEffect]

/-- a failed operation is a failed operation at its position -/
theorem noFail_eq_not_failedAt (t : List Step) :
    noFail t = !(failedAt .rbAppend t || failedAt .preMeta t || failedAt .metaWrite t || failedAt .metaFsync t ||
                 failedAt .postMeta t) := by
  induction t with
  | nil => rfl
  | cons s t ih =>
    rw [noFail_cons, ih]
    simp only [failedAt_cons]
    cases s with
    | io pos l ok => cases pos <;> cases ok <;> simp [Step.failedIo, Step.failedAt]
    | _ => simp [Step.failedIo, Step.failedAt]

theorem runSeq_noFail (F : Io → Bool) (pos : Pos) (l : List Io) : noFail (runSeq F pos l).tr = (runSeq F pos l).ok := by
  induction l with
  | nil => rfl
  | cons a r ih =>
    unfold runSeq
    by_cases h : F a = true
    · simp [h, Step.failedIo]
    · simp [h, Step.failedIo, ih]

theorem runSeq_failedAt (F : Io → Bool) (pos pos' : Pos) (l : List Io) :
    failedAt pos' (runSeq F pos l).tr = ((pos == pos') && !(runSeq F pos l).ok) := by
  induction l with
  | nil => simp [runSeq]
  | cons a r ih =>
    unfold runSeq
    by_cases h : F a = true
    · simp [h, Step.failedAt]
    · simp [h, Step.failedAt, ih]

theorem runAll_noFail (F : Io → Bool) (pos : Pos) (l : List Io) : noFail (runAll F pos l).tr = (runAll F pos l).ok := by
  induction l with
  | nil => rfl
  | cons a r ih =>
    simp only [runAll, List.map_cons, noFail_cons, List.all_cons] at ih ⊢
    rw [ih]; cases F a <;> simp [Step.failedIo]

theorem runAll_failedAt (F : Io → Bool) (pos pos' : Pos) (l : List Io) :
    failedAt pos' (runAll F pos l).tr = ((pos == pos') && !(runAll F pos l).ok) := by
  induction l with
  | nil => simp [runAll]
  | cons a r ih =>
    simp only [runAll, List.map_cons, failedAt_cons, List.all_cons] at ih ⊢
    rw [ih]; cases F a <;> cases hd : (pos == pos') <;> simp_all [Step.failedAt]

/-- without a failing label a task runs to its end -/
theorem runSeq_clean (F : Io → Bool) (hF : ∀ a, F a = false) (pos : Pos) (l : List Io) :
    (runSeq F pos l).ok = true := by
  induction l with
  | nil => rfl
  | cons a r ih => unfold runSeq; simp [hF a, ih]

theorem runAll_clean (F : Io → Bool) (hF : ∀ a, F a = false) (pos : Pos) (l : List Io) :
    (runAll F pos l).ok = true := by
  simp [runAll, hF]

/-- every step of a task is an I/O operation: none is a check, none a memory effect -/
theorem runSeq_isIo (F : Io → Bool) (pos : Pos) (l : List Io) : ∀ s ∈ (runSeq F pos l).tr, s.isIo = true := by
  induction l with
  | nil => intro s hs; cases hs
  | cons a r ih =>
    unfold runSeq
    by_cases h : F a = true
    · simp [h, Step.isIo]
    · simp only [h]; intro s hs
      rcases List.mem_cons.mp hs with rfl | hs
      · rfl
      · exact ih s hs

end Nomt.Api.Pipe

namespace Nomt.Api.Pipe
open Nomt Nomt.Api
variable {Node VH : Type} [DecidableEq Node] [DecidableEq VH]

/-! ### `Sync::sync` -/

/-- the in-memory state once the three `begin_sync`s ran: values staged, log trimmed -/
def stagedMem (trim : Bool) (ws : Writes VH) (m : St Node VH) : St Node VH :=
  { m with kv := kvApply m.kv ws, log := if m.rollbackOn && trim then m.log.take m.maxLog else m.log }

/-- the state the new meta page names -/
def postDur (trim : Bool) (ws : Writes VH) (m : St Node VH) : Dur Node VH :=
  ⟨(stagedMem trim ws m).kv, m.root, (stagedMem trim ws m).log, m.seqn + 1⟩

/-- the in-memory state after `sync_seqn += 1` -/
def syncedMem (trim : Bool) (ws : Writes VH) (m : St Node VH) : St Node VH :=
  { stagedMem trim ws m with seqn := m.seqn + 1 }

theorem bitboxPostMeta_spec (E : Env) (hQ : E.Q.htResultIgnored = false) (p : PSt Node VH) :
    (bitboxPostMeta E p).1 = noFail (bitboxPostMeta E p).2.2 ∧
    (∀ pos, failedAt pos (bitboxPostMeta E p).2.2 = ((Pos.postMeta == pos) && !(bitboxPostMeta E p).1)) ∧
    ((bitboxPostMeta E p).1 = false → (bitboxPostMeta E p).2.1 = p) ∧
    ((bitboxPostMeta E p).1 = true →
      (bitboxPostMeta E p).2.1 = { p with disk := { p.disk with tableInWal := false } }) := by
  have h1 := runAll_noFail E.F .postMeta E.W.ht
  have h2 := fun pos => runAll_failedAt E.F .postMeta pos E.W.ht
  unfold bitboxPostMeta
  simp only [hQ, Bool.false_or]
  cases hhw : (runAll E.F .postMeta E.W.ht).ok
  · rw [hhw] at h1
    simp [h1, h2, hhw]
  · rw [hhw] at h1
    cases hf : E.F .htFsync
    · cases ht : E.F .walTruncate
      · refine ⟨?_, ?_, ?_, ?_⟩
        · simp [h1, Step.failedIo]
        · intro pos; simp [h2, hhw, Step.failedAt]
        · simp
        · simp
      · refine ⟨?_, ?_, ?_, ?_⟩
        · simp [h1, Step.failedIo]
        · intro pos; simp [h2, hhw, Step.failedAt]
        · simp
        · simp
    · refine ⟨?_, ?_, ?_, ?_⟩
      · simp [h1, Step.failedIo]
      · intro pos; simp [h2, hhw, Step.failedAt]
      · simp
      · simp

end Nomt.Api.Pipe

namespace Nomt.Api.Pipe
open Nomt Nomt.Api
variable {Node VH : Type} [DecidableEq Node] [DecidableEq VH]

theorem bitboxPostMeta_spec' (E : Env) (hQ : E.Q.htResultIgnored = false) (p : PSt Node VH)
    (r : Bool × PSt Node VH × List Step) (h : bitboxPostMeta E p = r) :
    r.1 = noFail r.2.2 ∧ (∀ pos, failedAt pos r.2.2 = ((Pos.postMeta == pos) && !r.1)) ∧
    (r.1 = false → r.2.1 = p) ∧ (r.1 = true → r.2.1 = { p with disk := { p.disk with tableInWal := false } }) := by
  subst h; exact bitboxPostMeta_spec E hQ p

@[simp] theorem failedAt_ite_rbTrim (pos : Pos) (c : Prop) [Decidable c] :
    failedAt pos (if c then [Step.rbTrim] else []) = false := by split <;> rfl
@[simp] theorem noFail_ite_rbTrim (c : Prop) [Decidable c] :
    noFail (if c then [Step.rbTrim] else []) = true := by split <;> rfl

/-- what `Sync::sync` (the code as it is) returns and leaves behind, by the position of the failing operation -/
structure SyncSpec (E : Env) (trim : Bool) (ws : Writes VH) (p : PSt Node VH) (r : Bool × PSt Node VH × List Step) : Prop where
  ok_iff : r.1 = noFail r.2.2
  no_rb : failedAt .rbAppend r.2.2 = false
  poisoned : r.2.1.poisoned = p.poisoned
  pre : (failedAt .preMeta r.2.2 || failedAt .metaWrite r.2.2) = true → r.2.1 = { p with mem := stagedMem trim ws p.mem }
  metaFsync : failedAt .metaFsync r.2.2 = true →
    r.2.1 = { p with mem := stagedMem trim ws p.mem, disk := { p.disk with pending := some (postDur trim ws p.mem) } }
  post : failedAt .postMeta r.2.2 = true →
    r.2.1.mem = syncedMem trim ws p.mem ∧ r.2.1.disk.synced = postDur trim ws p.mem ∧ r.2.1.disk.pending = none ∧
    r.2.1.disk.corrupt = p.disk.corrupt
  done : r.1 = true →
    r.2.1 = { p with mem := syncedMem trim ws p.mem,
                     disk := { p.disk with synced := postDur trim ws p.mem, pending := none, tableInWal := false } }

theorem sync_spec (E : Env) (hQ : E.Q = {}) (trim : Bool) (ws : Writes VH) (p : PSt Node VH) :
    SyncSpec E trim ws p (sync E trim ws p) := by
  have hbb1 := runSeq_noFail E.F .preMeta (.bucketAlloc :: E.W.wal)
  have hbb2 := fun pos => runSeq_failedAt E.F .preMeta pos (.bucketAlloc :: E.W.wal)
  have hup1 := runSeq_noFail E.F .preMeta E.W.tree
  have hup2 := fun pos => runSeq_failedAt E.F .preMeta pos E.W.tree
  have hq1 : E.Q.fsyncResultsOr = false := by rw [hQ]
  have hq2 : E.Q.postMetaOverwritten = false := by rw [hQ]
  have hq3 : E.Q.htResultIgnored = false := by rw [hQ]
  unfold sync
  simp only [hq1, hq2, Bool.false_and, Bool.not_false, Bool.true_and, Bool.false_eq_true, if_false]
  generalize runSeq E.F .preMeta (.bucketAlloc :: E.W.wal) = bb at hbb1 hbb2 ⊢
  generalize runSeq E.F .preMeta E.W.tree = up at hup1 hup2 ⊢
  obtain ⟨bbok, bbtr⟩ := bb
  obtain ⟨upok, uptr⟩ := up
  simp only at hbb1 hbb2 hup1 hup2
  cases bbok
  · -- `bitbox_sync.wait_pre_meta()?` fails
    cases upok
    · constructor <;> simp [hbb1, hbb2, hup1, hup2, runSeq, stagedMem, Step.failedIo, Step.failedAt]
    · by_cases h1 : E.F .bbnFsync = true <;> by_cases h2 : E.F .lnFsync = true <;> constructor <;>
        simp [hbb1, hbb2, hup1, hup2, h1, h2, runSeq, stagedMem, Step.failedIo, Step.failedAt]
  · cases upok
    · -- `join_task(&self.begin_sync_result_rx)?` fails
      constructor <;> simp [hbb1, hbb2, hup1, hup2, runSeq, stagedMem, Step.failedIo, Step.failedAt]
    · by_cases h1 : E.F .bbnFsync = true
      · -- `bbn_fsync.wait()?`
        by_cases h2 : E.F .lnFsync = true <;> constructor <;>
          simp [hbb1, hbb2, hup1, hup2, h1, h2, runSeq, stagedMem, Step.failedIo, Step.failedAt]
      · by_cases h2 : E.F .lnFsync = true
        · constructor <;> simp [hbb1, hbb2, hup1, hup2, h1, h2, runSeq, stagedMem, Step.failedIo, Step.failedAt]
        · by_cases h3 : E.F .metaWrite = true
          · constructor <;> simp [hbb1, hbb2, hup1, hup2, h1, h2, h3, runSeq, stagedMem, Step.failedIo, Step.failedAt]
          · by_cases h4 : E.F .metaFsync = true
            · constructor <;>
                simp [hbb1, hbb2, hup1, hup2, h1, h2, h3, h4, runSeq, stagedMem, postDur, Step.failedIo, Step.failedAt]
            · simp only [h1, h2, h3, h4, runSeq, Bool.false_eq_true, if_false, if_true, Bool.and_self, Bool.not_true]
              generalize hbm : bitboxPostMeta E _ = bm
              have hb := bitboxPostMeta_spec' E hq3 _ _ hbm
              obtain ⟨bOk, pB, tB⟩ := bm
              obtain ⟨hb1, hb2, hb3, hb4⟩ := hb
              simp only at hb1 hb2 hb3 hb4
              have hpr1 := runSeq_noFail E.F .postMeta E.W.prune
              have hpr2 := fun pos => runSeq_failedAt E.F .postMeta pos E.W.prune
              generalize runSeq E.F .postMeta E.W.prune = pr at hpr1 hpr2 ⊢
              obtain ⟨prok, prtr⟩ := pr
              simp only at hpr1 hpr2
              cases bOk
              · have := hb3 rfl; subst this
                cases hro : p.mem.rollbackOn <;> cases prok <;> constructor <;>
                  simp [hbb1, hbb2, hup1, hup2, hb1.symm, hb2, hpr1, hpr2, hro, stagedMem, syncedMem, postDur, Step.failedIo, Step.failedAt]
              · have := hb4 rfl; subst this
                cases hro : p.mem.rollbackOn <;> cases prok <;> constructor <;>
                  simp [hbb1, hbb2, hup1, hup2, hb1.symm, hb2, hpr1, hpr2, hro, stagedMem, syncedMem, postDur, Step.failedIo, Step.failedAt]
end Nomt.Api.Pipe

namespace Nomt.Api.Pipe
open Nomt Nomt.Api
variable {Node VH : Type} [DecidableEq Node] [DecidableEq VH]

/-! ### `Store::commit` and the shared tail of the commits -/

/-- the in-memory log after `Rollback::commit` -/
def pushedMem (delta : Writes VH) (m : St Node VH) : St Node VH :=
  if m.rollbackOn then { m with log := delta :: m.log } else m

/-- outcome of a pipeline tail that starts on an un-poisoned handle `p` with the in-memory state `m` handed to `Sync::sync`
(`m = p.mem` but for the pushed delta); `t` is the part of the trace the tail produced -/
structure TailSpec (trim : Bool) (ws : Writes VH) (p : PSt Node VH) (m : St Node VH)
    (res : Res) (q : PSt Node VH) (t : List Step) : Prop where
  ok_iff : (res = .ok) ↔ noFail t = true
  not_busy : res ≠ .busy
  err_poisons : res = .err → q.poisoned = true
  ok_clean : res = .ok → q.poisoned = false
  rb : failedAt .rbAppend t = true → q = { p with poisoned := true }
  pre : (failedAt .preMeta t || failedAt .metaWrite t) = true →
    q = { p with mem := stagedMem trim ws m, poisoned := true }
  metaFsync : failedAt .metaFsync t = true →
    q = { mem := stagedMem trim ws m, poisoned := true, disk := { p.disk with pending := some (postDur trim ws m) } }
  post : failedAt .postMeta t = true →
    q.mem = syncedMem trim ws m ∧ q.disk.synced = postDur trim ws m ∧ q.disk.pending = none ∧
    q.disk.corrupt = p.disk.corrupt
  done : res = .ok →
    q = { mem := syncedMem trim ws m, poisoned := false,
          disk := { p.disk with synced := postDur trim ws m, pending := none, tableInWal := false } }

theorem storeCommit_spec (E : Env) (hQ : E.Q = {}) (trim : Bool) (ws : Writes VH) (p : PSt Node VH)
    (hp : p.poisoned = false) :
    TailSpec trim ws p p.mem (storeCommit E trim ws p).1 (storeCommit E trim ws p).2.1 (storeCommit E trim ws p).2.2 := by
  have hs := sync_spec E hQ trim ws p
  unfold storeCommit
  simp only [hp, Bool.false_eq_true, if_false]
  rcases hsy : sync E trim ws p with ⟨ok, q, t⟩
  rw [hsy] at hs
  obtain ⟨h1, h2, h3, h4, h5, h6, h7⟩ := hs
  simp only at h1 h2 h3 h4 h5 h6 h7
  cases ok
  · have hnf : noFail t = false := h1.symm
    constructor <;> simp [hnf, Step.failedIo, Step.failedAt, h2]
    · intro h; rw [h4 (by simpa using h)]; exact ⟨rfl, rfl⟩
    · intro h; rw [h5 h]; exact ⟨rfl, rfl⟩
    · intro h; exact h6 h
  · have hnf : noFail t = true := h1.symm
    have hall := noFail_eq_not_failedAt t
    rw [hnf] at hall
    have hq := h7 rfl
    subst hq
    constructor <;> simp_all [Step.failedIo, Step.failedAt]

end Nomt.Api.Pipe

namespace Nomt.Api.Pipe
open Nomt Nomt.Api
variable {Node VH : Type} [DecidableEq Node] [DecidableEq VH]

theorem storeCommit_no_rb (E : Env) (hQ : E.Q = {}) (trim : Bool) (ws : Writes VH) (p : PSt Node VH) :
    failedAt .rbAppend (storeCommit E trim ws p).2.2 = false := by
  have hs := (sync_spec E hQ trim ws p).no_rb
  unfold storeCommit
  by_cases hp : p.poisoned = true
  · simp [hp, Step.failedAt]
  · simp only [hp, if_false]
    rcases hsy : sync E trim ws p with ⟨ok, q, t⟩
    rw [hsy] at hs
    cases ok <;> simp_all [Step.failedAt]

/-- the trace of the shared tail extends the trace handed in -/
theorem appendAndStore_spec (E : Env) (hQ : E.Q = {}) (ws delta : Writes VH) (p : PSt Node VH) (t0 : List Step)
    (hp : p.poisoned = false) :
    ∃ t, (appendAndStore E ws delta p t0).trace = t0 ++ t ∧
      TailSpec true ws p (pushedMem delta p.mem) (appendAndStore E ws delta p t0).res (appendAndStore E ws delta p t0).st t := by
  have hq : E.Q.rbErrNoPoison = false := by rw [hQ]
  unfold appendAndStore
  cases hro : p.mem.rollbackOn
  · -- no delta was recorded
    simp only [Bool.false_eq_true, if_false]
    refine ⟨(storeCommit E true ws p).2.2, rfl, ?_⟩
    have := storeCommit_spec E hQ true ws p hp
    simpa [pushedMem, hro] using this
  · simp only [if_true]
    have ha1 := runSeq_noFail E.F .rbAppend E.W.seg
    have ha2 := fun pos => runSeq_failedAt E.F .rbAppend pos E.W.seg
    unfold rbCommit
    generalize runSeq E.F .rbAppend E.W.seg = a at ha1 ha2 ⊢
    obtain ⟨aok, atr⟩ := a
    simp only at ha1 ha2
    cases aok
    · -- `rollback.commit(delta)` failed: poison, `Err`
      simp only [Bool.false_eq_true, if_false, hq]
      refine ⟨atr ++ [.poison], by simp, ?_⟩
      constructor <;> simp [ha1, ha2, Step.failedIo, Step.failedAt]
    · simp only [if_true]
      let q1 : PSt Node VH := { p with mem := { p.mem with log := delta :: p.mem.log } }
      have hq1 : q1.poisoned = false := hp
      have hsc := storeCommit_spec E hQ true ws q1 hq1
      have hnr := storeCommit_no_rb E hQ true ws q1
      refine ⟨atr ++ [.rbPush] ++ (storeCommit E true ws q1).2.2, by simp [q1], ?_⟩
      have hpm : pushedMem delta p.mem = q1.mem := by simp [pushedMem, hro, q1]
      rw [hpm]
      obtain ⟨s1, s2, s3, s4, s5, s6, s7, s8, s9⟩ := hsc
      constructor
      · simpa [ha1, Step.failedIo] using s1
      · exact s2
      · exact s3
      · exact s4
      · simp [ha2, hnr, Step.failedAt]
      · simpa [ha2, Step.failedAt] using s6
      · simpa [ha2, Step.failedAt] using s7
      · simpa [ha2, Step.failedAt] using s8
      · exact s9

end Nomt.Api.Pipe
