/-!
Protocol model of the directory lock (`nomt/src/store/flock.rs`, `Store::open`, `Drop for Shared`).

A directory has a lock word (`holder`), files (`content`, abstract) and the set of processes with
pending background I/O of a handle.  `flock(LOCK_EX|LOCK_NB)` is atomic (OS assumption, as are: the lock
is released when the holding process dies; opening `.lock` with `O_CREAT` does not change an existing
file).  The steps mirror the order of effects in the code: an opener first tries the lock and touches
files only after it got it; a dropped handle first drains its I/O pool and only then unlocks.
-/
namespace Nomt.Flock

abbrev Pid := Nat

inductive Phase where
  | idle        -- no handle
  | holding     -- owns the lock, may write files
  | draining    -- handle dropped: background writers finishing, lock still held
deriving DecidableEq, Repr

structure Dir where
  holder : Option Pid := none
  content : Nat := 0              -- abstract file contents (changes on every write)
  phase : Pid → Phase := fun _ => .idle

inductive Step where
  | tryOpen (p : Pid)    -- Flock::lock, then (only on success) read / create files
  | write (p : Pid)      -- any file modification by a handle (commit, background writer)
  | beginDrop (p : Pid)  -- drop(Nomt): last reference goes away, I/O pool shutdown begins
  | endDrop (p : Pid)    -- I/O workers joined, then unlock
  | kill (p : Pid)       -- process death: the OS releases the lock, nothing of p runs any more
deriving Repr

def setPhase (d : Dir) (p : Pid) (ph : Phase) : Dir :=
  { d with phase := fun q => if q = p then ph else d.phase q }

/-- one step; the Boolean tells whether the step "succeeded" (an open that is refused returns false) -/
def step (d : Dir) : Step → Dir × Bool
  | .tryOpen p =>
    if d.phase p ≠ .idle then (d, false)
    else match d.holder with
      | some _ => (d, false)                                   -- refused: nothing is touched
      | none => (setPhase { d with holder := some p } p .holding, true)
  | .write p =>
    -- only a handle that still owns the lock (holding, or draining its writers) writes
    if d.holder = some p ∧ (d.phase p = .holding ∨ d.phase p = .draining) then ({ d with content := d.content + 1 }, true)
    else (d, false)
  | .beginDrop p =>
    if d.holder = some p ∧ d.phase p = .holding then (setPhase d p .draining, true) else (d, false)
  | .endDrop p =>
    if d.holder = some p ∧ d.phase p = .draining then (setPhase { d with holder := none } p .idle, true) else (d, false)
  | .kill p =>
    (setPhase { d with holder := if d.holder = some p then none else d.holder } p .idle, true)

def run (d : Dir) (steps : List Step) : Dir := steps.foldl (fun d s => (step d s).1) d

/-- the invariant: a process is non-idle iff it is the lock holder -/
def Inv (d : Dir) : Prop := ∀ p, d.phase p ≠ .idle ↔ d.holder = some p

end Nomt.Flock
