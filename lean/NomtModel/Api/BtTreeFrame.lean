import NomtModel.Api.BtTreeModel
/-!
Frame lemmas of the `Tree` state machine (`Api/BtTreeModel.lean`): what a reader holding an index reads depends
only on the pages in `refs`; the routed lookup `treeGet` reads the same as the flattened leaves; staging maps.
-/
namespace Nomt.BtTree
open Nomt Nomt.Ovl
variable {α : Type}

/-- `d'` holds the same pages as `d` at the page numbers of `S` -/
def Agree (d d' : Disk α) (S : List Nat) : Prop := ∀ pn ∈ S, rd d' pn = rd d pn

theorem Agree.mono {d d' : Disk α} {S T : List Nat} (h : Agree d d' S) (hsub : ∀ pn ∈ T, pn ∈ S) : Agree d d' T :=
  fun pn hp => h pn (hsub pn hp)

theorem rd_cons_ne (d : Disk α) {p pn : Nat} (pg : Page α) (h : pn ≠ p) : rd ((p, pg) :: d) pn = rd d pn := by
  have : (pn == p) = false := by simpa using h
  simp [rd, List.lookup, this]

theorem agree_write (d : Disk α) (p : Nat) (pg : Page α) {S : List Nat} (h : p ∉ S) : Agree d ((p, pg) :: d) S :=
  fun pn hp => rd_cons_ne d pg (fun e => h (e ▸ hp))

theorem chain_frame {d d' : Disk α} : ∀ (f : Nat) (todo : List Nat) (acc : List α),
    Agree d d' (chainRefs d f todo) →
    readChain d' f todo acc = readChain d f todo acc ∧ chainRefs d' f todo = chainRefs d f todo
  | _, [], _, _ => by simp [readChain, chainRefs]
  | 0, _ :: _, _, _ => by simp [readChain, chainRefs]
  | f + 1, pn :: rest, acc, h => by
    have hpn : rd d' pn = rd d pn := h pn (by simp [chainRefs])
    simp only [readChain, chainRefs, hpn]
    cases hr : rd d pn with
    | none => simp
    | some pg =>
      cases pg with
      | leaf es => simp
      | chunk more data =>
        have h' : Agree d d' (chainRefs d f (rest ++ more)) :=
          h.mono (fun q hq => by simp [chainRefs, hr, hq])
        obtain ⟨e1, e2⟩ := chain_frame f (rest ++ more) (acc ++ data) h'
        simp [e1, e2]

theorem cell_frame {d d' : Disk α} (c : Cell α) (h : Agree d d' (cellRefs d c)) :
    cellVal d' c = cellVal d c ∧ cellRefs d' c = cellRefs d c := by
  cases c with
  | inl v => simp [cellVal, cellRefs]
  | ovf pns => exact chain_frame chainFuel pns [] h

theorem entries_frame {d d' : Disk α} : ∀ (es : List (Key × Cell α)),
    Agree d d' (es.flatMap (fun e => cellRefs d e.2)) →
    es.mapM (entryVal d') = es.mapM (entryVal d) ∧
      es.flatMap (fun e => cellRefs d' e.2) = es.flatMap (fun e => cellRefs d e.2)
  | [], _ => by simp
  | e :: es, h => by
    obtain ⟨c1, c2⟩ := cell_frame e.2 (h.mono (fun q hq => by simp [hq]))
    obtain ⟨r1, r2⟩ := entries_frame es (h.mono (fun q hq => by
      simp only [List.flatMap_cons, List.mem_append]; exact .inr hq))
    simp [List.mapM_cons, entryVal, c1, c2, r1, r2]

theorem leaf_frame {d d' : Disk α} (pn : Nat) (h : Agree d d' (leafRefs d pn)) :
    leafAt d' pn = leafAt d pn ∧ leafRefs d' pn = leafRefs d pn := by
  have hpn : rd d' pn = rd d pn := h pn (by simp [leafRefs])
  unfold leafAt leafRefs
  rw [hpn]
  cases hr : rd d pn with
  | none => simp
  | some pg =>
    cases pg with
    | chunk more data => simp
    | leaf es =>
      obtain ⟨e1, e2⟩ := entries_frame es (h.mono (fun q hq => by simp [leafRefs, hr, hq]))
      simp [e1, e2]

/-- **frame**: a disk that agrees on `refs d idx` decodes to the same leaves and has the same `refs` -/
theorem leaves_frame {d d' : Disk α} : ∀ (idx : Idx), Agree d d' (refs d idx) →
    leavesOf d' idx = leavesOf d idx ∧ refs d' idx = refs d idx
  | [], _ => by simp [leavesOf, refs]
  | s :: idx, h => by
    obtain ⟨l1, l2⟩ := leaf_frame s.2 (h.mono (fun q hq => by simp [refs, hq]))
    obtain ⟨r1, r2⟩ := leaves_frame idx (h.mono (fun q hq => by
      simp only [refs, List.flatMap_cons, List.mem_append]; exact .inr hq))
    unfold leavesOf refs at *
    simp [List.mapM_cons, leafOf, l1, l2, r1, r2]

/-! ### the routed lookup reads what the flattened leaves hold -/

theorem kvGet_none_of_ne {V : Type} {m : KVL V} {k : Key} (h : ∀ e ∈ m, e.1 ≠ k) : kvGet m k = none := by
  induction m with
  | nil => rfl
  | cons x xs ih =>
    have hx : (x.1 == k) = false := by simpa using h x (List.mem_cons_self ..)
    simp [kvGet, hx, ih (fun e he => h e (List.mem_cons_of_mem _ he))]

theorem kvGet_append {V : Type} (a b : KVL V) (k : Key) :
    kvGet (a ++ b) k = match kvGet a k with | some v => some v | none => kvGet b k := by
  induction a with
  | nil => simp [kvGet]
  | cons x xs ih =>
    simp only [List.cons_append, kvGet]
    by_cases h : (x.1 == k) = true
    · simp [h]
    · simp [h, ih]

theorem kvGet_mapM {d : Disk α} : ∀ (es : List (Key × Cell α)) (es' : KVL (List α)) (k : Key),
    es.mapM (entryVal d) = some es' → kvGet es' k = (kvGet es k).bind (cellVal d)
  | [], es', k, h => by
    simp at h; subst h; rfl
  | e :: es, es', k, h => by
    simp only [List.mapM_cons, entryVal] at h
    cases hv : cellVal d e.2 with
    | none => simp [hv] at h
    | some v =>
      cases hm : es.mapM (entryVal d) with
      | none => simp [hv, entryVal, hm] at h
      | some rest =>
        have : es' = (e.1, v) :: rest := by simpa [hv, entryVal, hm] using h.symm
        subst this
        have ih := kvGet_mapM es rest k hm
        by_cases hk : (e.1 == k) = true
        · simp [kvGet, hk, hv]
        · simp [kvGet, hk, ih]

theorem findLeafK_some_head {idx : Idx} {k : Key} {p : Nat} (h : findLeafK idx k = some p) :
    ∃ s pn rest, idx = (s, pn) :: rest ∧ bitsLt k s = false := by
  cases idx with
  | nil => simp [findLeafK] at h
  | cons x rest =>
    obtain ⟨s, pn⟩ := x
    refine ⟨s, pn, rest, rfl, ?_⟩
    simp only [findLeafK] at h
    by_cases hk : bitsLt k s = true
    · simp [hk] at h
    · simpa using hk

theorem findLeafK_none {idx : Idx} {k : Key} (h : findLeafK idx k = none) :
    idx = [] ∨ ∃ s pn rest, idx = (s, pn) :: rest ∧ bitsLt k s = true := by
  cases idx with
  | nil => exact .inl rfl
  | cons x rest =>
    obtain ⟨s, pn⟩ := x
    refine .inr ⟨s, pn, rest, rfl, ?_⟩
    simp only [findLeafK] at h
    by_cases hk : bitsLt k s = true
    · exact hk
    · simp only [hk, Bool.false_eq_true, if_false] at h
      cases hf : findLeafK rest k <;> simp [hf] at h

theorem leavesOf_cons {d : Disk α} {s : Key × Nat} {idx : Idx} {ls : List (Leaf (List α))}
    (h : leavesOf d (s :: idx) = some ls) :
    ∃ es rest, leafAt d s.2 = some es ∧ leavesOf d idx = some rest ∧ ls = ⟨s.1, es⟩ :: rest := by
  unfold leavesOf at *
  simp only [List.mapM_cons, leafOf] at h
  cases he : leafAt d s.2 with
  | none => simp [he] at h
  | some es =>
    cases hr : idx.mapM (leafOf d) with
    | none => simp [he, leafOf, hr] at h
    | some rest =>
      refine ⟨es, rest, rfl, rfl, ?_⟩
      simpa [he, leafOf, hr] using h.symm

/-- **the routed lookup** (one leaf read) finds what the flattened leaves hold -/
theorem treeGet_eq {d : Disk α} : ∀ (idx : Idx) (ls : List (Leaf (List α))) (k : Key),
    leavesOf d idx = some ls → LeavesOK ls → treeGet d idx k = kvGet (flat ls) k
  | [], ls, k, h, _ => by
    simp [leavesOf] at h; subst h; rfl
  | (s, pn) :: idx, ls, k, h, hok => by
    obtain ⟨es', rest, hleaf, hrest, hls⟩ := leavesOf_cons h
    subst hls
    have hokr : LeavesOK rest := leavesOK_tail hok
    have ih := treeGet_eq idx rest k hrest hokr
    rw [flat_cons]
    by_cases hk : bitsLt k s = true
    · -- below the first separator: nothing holds `k`
      have hnone : kvGet (es' ++ flat rest) k = none := by
        apply kvGet_none_of_ne
        intro e he hek
        have := flat_lower hok e (by rw [flat_cons]; exact he)
        simp only at this
        rw [hek, hk] at this; cases this
      simp [treeGet, findLeafK, hk, hnone]
    · have hk' : bitsLt k s = false := by simpa using hk
      cases hf : findLeafK idx k with
      | some p =>
        -- routed into a later leaf: this leaf does not hold `k`
        obtain ⟨s2, pn2, idx2, hidx, hks2⟩ := findLeafK_some_head hf
        subst hidx
        obtain ⟨es2, rest2, _, _, hrest2⟩ := leavesOf_cons hrest
        subst hrest2
        have hes : kvGet es' k = none := by
          apply kvGet_none_of_ne
          intro e he hek
          have := (hok.2.2.1 ⟨s2, es2⟩ (List.mem_cons_self ..)).2 e he
          simp only at this
          rw [hek, hks2] at this; cases this
        have ht : treeGet d ((s, pn) :: (s2, pn2) :: idx2) k = treeGet d ((s2, pn2) :: idx2) k := by
          simp only [treeGet]
          have : findLeafK ((s, pn) :: (s2, pn2) :: idx2) k = some p := by
            rw [findLeafK]; simp only [hk', Bool.false_eq_true, if_false, hf]
          rw [this, hf]
        rw [ht, ih, kvGet_append, hes]
      | none =>
        have hrestnone : kvGet (flat rest) k = none := by
          rcases findLeafK_none hf with e | ⟨s2, pn2, idx2, hidx, hks2⟩
          · subst e
            have : rest = [] := by
              have h0 : leavesOf d ([] : Idx) = some [] := rfl
              rw [h0] at hrest; exact (Option.some.inj hrest).symm
            subst this; rfl
          · subst hidx
            obtain ⟨es2, rest2, _, _, hrest2⟩ := leavesOf_cons hrest
            subst hrest2
            apply kvGet_none_of_ne
            intro e he hek
            have := flat_lower hokr e he
            simp only at this
            rw [hek, hks2] at this; cases this
        have hl : leafAt d pn = some es' := hleaf
        unfold leafAt at hl
        cases hr : rd d pn with
        | none => simp [hr] at hl
        | some pg =>
          cases pg with
          | chunk more data => simp [hr] at hl
          | leaf es =>
            simp only [hr] at hl
            have hm := kvGet_mapM es es' k hl
            simp only [treeGet, findLeafK, hk', Bool.false_eq_true, if_false, hf, hr]
            rw [kvGet_append, hm, hrestnone]
            cases (kvGet es k).bind (cellVal d) <;> rfl

/-! ### staging maps -/

theorem wsLookup_eq_kvGet (m : SMap α) (k : Key) : wsLookup m k = kvGet m k := by
  induction m with
  | nil => rfl
  | cons x xs ih => simp [wsLookup, kvGet, ih]

theorem wsLookup_kvInsert (m : SMap α) (k : Key) (c : Option (List α)) (k' : Key) :
    wsLookup (kvInsert m k c) k' = if k' = k then some c else wsLookup m k' := by
  rw [wsLookup_eq_kvGet, wsLookup_eq_kvGet]
  by_cases h : k' = k
  · subst h; simp [kvGet_kvInsert_self]
  · simp [h, kvGet_kvInsert_other m k k' c h]

/-- a staging map over a base reader -/
def over (m : SMap α) (base : Key → Option (List α)) (k : Key) : Option (List α) :=
  match wsLookup m k with
  | some c => c
  | none => base k

theorem over_nil (base : Key → Option (List α)) (k : Key) : over [] base k = base k := rfl

/-- committing a changeset into the primary map = applying it to the specification -/
theorem over_insertAll (base : Key → Option (List α)) : ∀ (cs : List (Key × Option (List α))) (S : KVL (List α))
    (m : SMap α), KSorted S → (∀ k, kvGet S k = over m base k) →
    ∀ k, kvGet (kvApply S cs) k = over (insertAll m cs) base k
  | [], _, _, _, h => h
  | c :: cs, S, m, hs, h => by
    have hs' : KSorted (kvWrite S c.1 c.2) := kvWrite_sorted hs c.1 c.2
    have h' : ∀ k, kvGet (kvWrite S c.1 c.2) k = over (kvInsert m c.1 c.2) base k := by
      intro k
      rw [kvGet_kvWrite hs]
      unfold over
      rw [wsLookup_kvInsert]
      by_cases hk : k = c.1
      · simp [hk]
      · simp only [hk, if_false]; exact h k
    exact over_insertAll base cs _ _ hs' h'

theorem insertAll_sorted : ∀ (cs : List (Key × Option (List α))) (m : SMap α), OvSorted m → OvSorted (insertAll m cs)
  | [], _, h => h
  | c :: cs, m, h => insertAll_sorted cs _ (kvInsert_sorted (VH := Option (List α)) h c.1 c.2)

end Nomt.BtTree
