import NomtModel.Api.ExecLemmas
import NomtModel.Api.Reopen
/-!
# The commit / rollback pipelines of `nomt/src/lib.rs`, `store/mod.rs`, `store/sync.rs` as step sequences (C14, C12)

`Api/Exec.lean` is the *specification* of the five mutating API calls: a refused call returns the state it got, an
accepted one the new state, in one step.  This file is the **mirror of the code**: every call is the sequence of steps the
code performs, in the code's order —

* `FinishedSession::commit`            (`commitFinP`):    write guard · poison check · root check + `shared.root := new` +
  marker · `rollback.commit(delta)` (fallible, poisons) · `Store::commit`
* `FinishedSession::try_commit_nonblocking` (`tryCommitFinP`): `try_write` · poison check · root check · `rollback.
  commit_nonblocking(delta)` (fallible, poisons; busy hands the changeset back) · root set · `Store::commit`
* `Overlay::commit`                    (`commitOvP`):     parent-marker check **before** the write guard · write guard · poison
  check · root check + `mark_committed` + root + marker · `rollback.commit` · `Store::commit`
* `Overlay::try_commit_nonblocking`    (`tryCommitOvP`):  marker check · `try_write` · … as `Overlay::commit`
* `Nomt::rollback`                     (`rollbackP`):     `n == 0` · write guard · poison check (since the repair of F21; before it only
  the inner commit looked at the flag: `Quirks.rollbackPoisonLate`) · `Rollback::truncate(n)` (pops the in-memory log,
  `pending_truncate`) · session on the traceback, `finish` · inner `commit` without guard and without delta
* `Store::commit`                      (`storeCommit`):   sync lock · poison check once more · `Sync::sync` · poison on `Err`
* `Sync::sync`                         (`sync`):          the three `begin_sync`s (bitbox: `prepare_sync` then the WAL write-out task;
  beatree: `Tree::commit`, `ops::update`, both `Fsyncer`s; rollback: `writeout_start`) · `bitbox_sync.wait_pre_meta()?` ·
  `beatree_sync.wait_pre_meta()?` (`join_task?`, `bbn_fsync.wait()?`, `ln_fsync.wait()?`) · `Meta::write?` (write, fsync) ·
  `sync_seqn += 1` · rollback `post_meta` (prune task) · `bitbox_sync.post_meta()?` (`write_ht`, `truncate_wal`) · beatree
  `post_meta` · `rollback.wait_post_meta()?`

— with a **failure point at every fallible step**: `Env.F : Io → Bool` is the set of I/O labels that fail (one label: a
fault injected once; an upward-closed set: a persistent fault; any set: every interleaving of the concurrent tasks).  `Io` are
the labels the I/O hook H1 reports (file + kind + site).  A call returns its result, the new state and the **trace** of the
steps it performed (`Step`), so that "a refused call performs no step with an effect" is a statement about the trace.

State (`PSt`): the in-memory view `mem : Api.St` (what `Nomt::root`, the next session, `sync_seqn`, the in-memory rollback log
show), the poison flag, and `disk`: the committed state the durable meta page names, a written-but-not-fsynced meta page
(`pending`), whether the new state's hash-table pages exist only in the WAL (`tableInWal`), and `corrupt` (the WAL was
truncated although the table is incomplete — unreachable in the code as it is, reachable in the pre-F2 order).

`Quirks` switches ONE line each back to a pre-repair order (F1, F6, F8, F2, F21) or to a seeded one-line change; the code as it is
has every quirk off (`{}`); the theorems are about `{}` and the kernel-checked counterexamples about the quirks.

Not modelled here: blocking on the access lock (a blocking call is modelled from the moment it owns the write guard — the
waiting is C15's LTS `Api/Locks2*.lean`), page cache / leaf cache contents, the record ids of the rollback log (`Store/Rb*.lean`).
-/
namespace Nomt.Api.Pipe
open Nomt Nomt.Api
variable {Node VH : Type} [DecidableEq Node] [DecidableEq VH]

/-- the mutating I/O operations of a commit by label (file · kind · site of hook H1) -/
inductive Io where
  -- `Rollback::commit` → `SegmentedLog::append`
  | segCreate | segHeader | segPayload | segPad | segFsync | segDirsync
  -- bitbox `begin_sync` task: `prepare_sync` (bucket exhaustion — not an I/O event, the other fault kind of C14), WAL write-out
  | bucketAlloc | walSetLen | walWrite | walFsync
  -- beatree `begin_sync` task: `ops::update` (file growth, page writes), then the two `Fsyncer`s
  | lnGrow | bbnGrow | lnWrite | bbnWrite | bbnFsync | lnFsync
  | metaWrite | metaFsync
  -- rollback `post_meta` task: `writeout_end` (`prune_oldest`, `prune_recent`)
  | segPruneOldest | segRemoveAll | segPruneRecent | segPruneDirsync | segTruncHead | segTruncHeadFsync
  -- bitbox `post_meta`: `write_ht`, `truncate_wal`
  | htWrite | htFsync | walTruncate
deriving DecidableEq, Repr

/-- where in the pipeline an I/O operation is issued -/
inductive Pos where
  | rbAppend     -- `rollback.commit(delta)`, before `Store::commit`
  | preMeta      -- the `begin_sync` tasks
  | metaWrite | metaFsync
  | postMeta     -- after `Meta::write` returned
deriving DecidableEq, Repr

inductive Step where
  | guardWrite                      -- `access_lock.write()`
  | guardTry (got : Bool)           -- `access_lock.try_write()`
  | poisonCheck (clean : Bool)      -- `store.is_poisoned()` / the flag read under the sync lock
  | markerCheck (ok : Bool)         -- `parent_matches_marker(last_commit_marker)`
  | rootCheck (ok : Bool)           -- `shared.root != prev_root`
  | rootSet                         -- `shared.root := …; shared.last_commit_marker := …`
  | markCommitted                   -- `Overlay::mark_committed`
  | rbTruncate                      -- `Rollback::truncate`: pops, `pending_truncate`
  | sessionFinish (ok : Bool)       -- rollback: `begin_session` … `finish(actuals)?`
  | rbLockTry (got : Bool)          -- the two `try_lock`s of `commit_nonblocking`
  | rbPush                          -- `in_memory.push_recent`
  | io (pos : Pos) (l : Io) (ok : Bool)
  | kvStage                         -- `Tree::commit`: the next session reads the new values
  | rbTrim                          -- `writeout_start`: `pop_oldest` beyond `max_rollback_log_len`
  | seqnIncr                        -- `self.sync_seqn += 1`
  | indexSwap                       -- beatree `post_meta`: `finish_sync`
  | poison                          -- `Store::poison` / the store of the flag in `Store::commit`
deriving DecidableEq, Repr

/-- does the step change anything (memory or disk)? guards and checks do not -/
def Step.effect : Step → Bool
  | .guardWrite | .guardTry _ | .poisonCheck _ | .markerCheck _ | .rootCheck _ | .sessionFinish _ | .rbLockTry _ => false
  | _ => true

def Step.failedIo : Step → Bool
  | .io _ _ false => true
  | _ => false

def Step.failedAt (pos : Pos) : Step → Bool
  | .io p _ false => p == pos
  | _ => false

def Step.isIo : Step → Bool
  | .io _ _ _ => true
  | _ => false

/-- no I/O operation of the trace failed -/
def noFail (t : List Step) : Bool := t.all (fun s => !s.failedIo)
/-- some I/O operation issued at `pos` failed -/
def failedAt (pos : Pos) (t : List Step) : Bool := t.any (Step.failedAt pos)
/-- no step of the trace has an effect -/
def noEffect (t : List Step) : Bool := t.all (fun s => !s.effect)

/-- the I/O operations a particular commit issues, per task, in the order of the task (any lists: the theorems hold for
every amount of work; the defaults are one operation of each kind a small commit issues) -/
structure IoWork where
  seg : List Io := [.segHeader, .segPayload, .segFsync]
  wal : List Io := [.walSetLen, .walWrite, .walFsync]
  tree : List Io := [.lnWrite, .bbnWrite]
  prune : List Io := []
  ht : List Io := [.htWrite]

/-- one line each of the code switched back to an earlier / seeded form (all off = the code as it is) -/
structure Quirks where
  rbBeforeRootCheck : Bool := false      -- F1: `try_commit_nonblocking` appended the delta before the root check
  markBeforeRootCheck : Bool := false    -- F6: `Overlay::commit` called `mark_committed` before the root check
  rbErrNoPoison : Bool := false          -- F8: `rollback.commit(delta)?` — `Err` without poison
  htResultIgnored : Bool := false        -- F2: `write_ht` ignored the completion results
  fsyncResultsOr : Bool := false         -- seeded: `bbn_result.or(ln_result)?`
  postMetaOverwritten : Bool := false    -- seeded: `wait_post_meta()`'s result assigned over `bitbox_sync.post_meta()`'s
  rollbackPoisonLate : Bool := false     -- F21: `Nomt::rollback` looked at the poison flag only in the inner commit, after `truncate(n)`
deriving DecidableEq, Repr

/-- what the state does not determine about one call -/
structure Env where
  F : Io → Bool := fun _ => false        -- the failing I/O labels
  W : IoWork := {}
  rbLockFree : Bool := true              -- `commit_nonblocking`: both `try_lock`s succeed
  finishOk : Bool := true                -- rollback: `sess.finish(actuals)?` (reads only)
  Q : Quirks := {}

/-- the committed state a meta page names (`Nomt::open` rebuilds exactly this) -/
structure Dur (Node VH : Type) where
  kv : KVL VH
  root : Node
  log : List (Writes VH)
  seqn : Nat

def durOf (s : St Node VH) : Dur Node VH := ⟨s.kv, s.root, s.log, s.seqn⟩

structure DiskSt (Node VH : Type) where
  synced : Dur Node VH                   -- named by the durable meta page
  pending : Option (Dur Node VH) := none -- meta page written, `fsync` not completed
  tableInWal : Bool := false             -- new meta durable, hash-table pages guaranteed by the WAL only
  corrupt : Bool := false                -- WAL truncated with the table incomplete

/-- what reopening can show: the durable state, or the written-but-unsynced one -/
def DiskSt.images (d : DiskSt Node VH) : List (Dur Node VH) := d.synced :: d.pending.toList
/-- what reopening shows after a mere process exit (every issued write stays) -/
def DiskSt.procImage (d : DiskSt Node VH) : Dur Node VH := d.pending.getD d.synced

structure PSt (Node VH : Type) where
  mem : St Node VH
  poisoned : Bool := false
  disk : DiskSt Node VH

/-- a freshly opened handle on the committed state `s` -/
def PSt.ofSt (s : St Node VH) : PSt Node VH := { mem := s, disk := { synced := durOf s } }

structure Out (Node VH : Type) where
  res : Res
  st : PSt Node VH
  trace : List Step

/-- a task: its operations in order, stopping at the first failure -/
structure Task where
  ok : Bool
  tr : List Step

def runSeq (F : Io → Bool) (pos : Pos) : List Io → Task
  | [] => ⟨true, []⟩
  | a :: r =>
    if F a then ⟨false, [.io pos a false]⟩
    else ⟨(runSeq F pos r).ok, .io pos a true :: (runSeq F pos r).tr⟩

/-- `write_ht`: every write is sent and every completion received; the result is the first error -/
def runAll (F : Io → Bool) (pos : Pos) (l : List Io) : Task :=
  ⟨l.all (fun a => !F a), l.map (fun a => .io pos a (!F a))⟩

/-- `Rollback::commit(delta)`: `let record_id = seglog.append(&delta_bytes)?; in_memory.push_recent(record_id, delta)` -/
def rbCommit (E : Env) (d : Writes VH) (p : PSt Node VH) : Bool × PSt Node VH × List Step :=
  let a := runSeq E.F .rbAppend E.W.seg
  if a.ok then (true, { p with mem := { p.mem with log := d :: p.mem.log } }, a.tr ++ [.rbPush])
  else (false, p, a.tr)

/-- `bitbox_sync.post_meta(io_handle)`: `write_ht(..)?` (all writes, `result?`, `ht.fsync`), `truncate_wal(..)?` -/
def bitboxPostMeta (E : Env) (p : PSt Node VH) : Bool × PSt Node VH × List Step :=
  let hw := runAll E.F .postMeta E.W.ht
  if !(E.Q.htResultIgnored || hw.ok) then (false, p, hw.tr) else
  if E.F .htFsync then (false, p, hw.tr ++ [.io .postMeta .htFsync false]) else
  if E.F .walTruncate then (false, p, hw.tr ++ [.io .postMeta .htFsync true, .io .postMeta .walTruncate false]) else
  (true,
   { p with disk := { p.disk with tableInWal := false, corrupt := p.disk.corrupt || !hw.ok } },
   hw.tr ++ [.io .postMeta .htFsync true, .io .postMeta .walTruncate true])

/-- `Sync::sync`; `trim = false`: a truncation is pending (`writeout_start` then publishes the range left in memory and pops
nothing) -/
def sync (E : Env) (trim : Bool) (ws : Writes VH) (p : PSt Node VH) : Bool × PSt Node VH × List Step :=
  -- `bitbox_sync.begin_sync(..)`: a task — `prepare_sync(..)?`, then (only then) the WAL write-out task is spawned
  let bb := runSeq E.F .preMeta (.bucketAlloc :: E.W.wal)
  -- `beatree_sync.begin_sync(value_tx)`: a task — `Tree::commit`, `prepare_sync(..)?` (`ops::update`), then both fsyncs start
  let up := runSeq E.F .preMeta E.W.tree
  let fb := if up.ok then runSeq E.F .preMeta [.bbnFsync] else ⟨true, []⟩
  let fl := if up.ok then runSeq E.F .preMeta [.lnFsync] else ⟨true, []⟩
  -- `rollback_sync.begin_sync()` (`writeout_start`)
  let mA : St Node VH :=
    { p.mem with kv := kvApply p.mem.kv ws,
                 log := if p.mem.rollbackOn && trim then p.mem.log.take p.mem.maxLog else p.mem.log }
  let pA := { p with mem := mA }
  let tA := bb.tr ++ [.kvStage] ++ up.tr ++ fb.tr ++ fl.tr ++ (if p.mem.rollbackOn && trim then [.rbTrim] else [])
  -- `bitbox_sync.wait_pre_meta()?`
  if !bb.ok then (false, pA, tA) else
  -- `beatree_sync.wait_pre_meta()?`: `join_task(&self.begin_sync_result_rx)?; bbn_fsync.wait()?; ln_fsync.wait()?`
  if !up.ok then (false, pA, tA) else
  if !(if E.Q.fsyncResultsOr then fb.ok || fl.ok else fb.ok && fl.ok) then (false, pA, tA) else
  -- `Meta::write(.., &new_meta)?`: the new meta names the state staged in memory with `sync_seqn + 1`
  let post : Dur Node VH := ⟨mA.kv, mA.root, mA.log, mA.seqn + 1⟩
  if E.F .metaWrite then (false, pA, tA ++ [.io .metaWrite .metaWrite false]) else
  if E.F .metaFsync then
    (false, { pA with disk := { pA.disk with pending := some post } },
     tA ++ [.io .metaWrite .metaWrite true, .io .metaFsync .metaFsync false]) else
  -- `self.sync_seqn += 1`
  let pM : PSt Node VH :=
    { pA with mem := { mA with seqn := mA.seqn + 1 },
              disk := { pA.disk with synced := post, pending := none, tableInWal := true } }
  let tM := tA ++ [.io .metaWrite .metaWrite true, .io .metaFsync .metaFsync true, .seqnIncr]
  -- `rollback.post_meta()`: the prune task (`writeout_end`) is spawned
  let pr := if p.mem.rollbackOn then runSeq E.F .postMeta E.W.prune else ⟨true, []⟩
  -- `bitbox_sync.post_meta(..)?`
  let (bOk, pB, tB) := bitboxPostMeta E pM
  if !(E.Q.postMetaOverwritten && p.mem.rollbackOn) && !bOk then (false, pB, tM ++ pr.tr ++ tB) else
  -- `beatree_sync.post_meta()`, `rollback.wait_post_meta()?`
  if !pr.ok then (false, pB, tM ++ pr.tr ++ tB ++ [.indexSwap]) else
  (true, pB, tM ++ pr.tr ++ tB ++ [.indexSwap])

/-- `Store::commit`: `let mut sync = self.sync.lock();` the poison flag once more; `sync.sync(..)`; on `Err` the flag is set -/
def storeCommit (E : Env) (trim : Bool) (ws : Writes VH) (p : PSt Node VH) : Res × PSt Node VH × List Step :=
  if p.poisoned then (.err, p, [.poisonCheck false])
  else
    let (ok, q, t) := sync E trim ws p
    if ok then (.ok, q, .poisonCheck true :: t)
    else (.err, { q with poisoned := true }, .poisonCheck true :: t ++ [.poison])

/-- the tail shared by the four commits once the changeset is accepted: `rollback.commit(delta)` (if a delta was recorded:
rollback enabled) with poison on `Err`, then `Store::commit` -/
def appendAndStore (E : Env) (ws delta : Writes VH) (p : PSt Node VH) (t : List Step) : Out Node VH :=
  if p.mem.rollbackOn then
    match rbCommit E delta p with
    | (false, q, ta) =>
      if E.Q.rbErrNoPoison then ⟨.err, q, t ++ ta⟩
      else ⟨.err, { q with poisoned := true }, t ++ ta ++ [.poison]⟩
    | (true, q, ta) =>
      let (r, q', ts) := storeCommit E true ws q
      ⟨r, q', t ++ ta ++ ts⟩
  else
    let (r, q', ts) := storeCommit E true ws p
    ⟨r, q', t ++ ts⟩

/-- `FinishedSession::commit` -/
def commitFinP (E : Env) (p : PSt Node VH) (fid : Nat) : Out Node VH :=
  match takeFin p.mem fid with
  | none => ⟨.err, p, []⟩
  | some (f, m1) =>
    let p1 := { p with mem := m1 }                       -- `self` is consumed whatever happens
    -- `let _write_guard = nomt.access_lock.write();`  `if nomt.store.is_poisoned() { bail }`
    if p.poisoned then ⟨.err, p1, [.guardWrite, .poisonCheck false]⟩ else
    -- `if shared.root != self.prev_root { bail }`
    if m1.root ≠ f.prevRoot then ⟨.err, p1, [.guardWrite, .poisonCheck true, .rootCheck false]⟩ else
    -- `shared.root = Root(self.merkle_output.root); shared.last_commit_marker = None;`
    let p2 := { p1 with mem := { m1 with root := f.root, lastMarker := none } }
    appendAndStore E f.writes f.delta p2 [.guardWrite, .poisonCheck true, .rootCheck true, .rootSet]

/-- `rollback.commit_nonblocking(delta)` once both locks are held (then it is `Rollback::commit`); nothing without a delta -/
def rbCommitOpt (E : Env) (d : Writes VH) (p : PSt Node VH) : Bool × PSt Node VH × List Step :=
  if p.mem.rollbackOn then rbCommit E d p else (true, p, [])

/-- the tail of `try_commit_nonblocking` once the root check passed and the rollback locks are free: the append (`Err` poisons),
`shared.root = …; shared.last_commit_marker = None;`, `nomt.store.commit(..)?; Ok(None)` -/
def tryTail (E : Env) (ws delta : Writes VH) (root : Node) (p1 : PSt Node VH) (t1 : List Step) : Out Node VH :=
  match rbCommitOpt E delta p1 with
  | (false, q, ta) =>
    if E.Q.rbErrNoPoison then ⟨.err, q, t1 ++ ta⟩
    else ⟨.err, { q with poisoned := true }, t1 ++ ta ++ [.poison]⟩
  | (true, q, ta) =>
    let q2 := { q with mem := { q.mem with root := root, lastMarker := none } }
    let (r, q', ts) := storeCommit E true ws q2
    ⟨r, q', t1 ++ ta ++ [.rootSet] ++ ts⟩

/-- `FinishedSession::try_commit_nonblocking` -/
def tryCommitFinP (E : Env) (p : PSt Node VH) (fid : Nat) : Out Node VH :=
  -- `try_write()`: `None` → `Ok(Some(self))`
  if p.mem.sess.any (·.guard) then ⟨.busy, p, [.guardTry false]⟩ else
  match takeFin p.mem fid with
  | none => ⟨.err, p, []⟩
  | some (f, m1) =>
    let p1 := { p with mem := m1 }
    if p.poisoned then ⟨.err, p1, [.guardTry true, .poisonCheck false]⟩ else
    let t0 : List Step := [.guardTry true, .poisonCheck true]
    if E.Q.rbBeforeRootCheck then
      -- F1 order: `commit_nonblocking(delta)?` first, then root check + root set in one block
      if m1.rollbackOn && !E.rbLockFree then ⟨.busy, p, t0 ++ [.rbLockTry false]⟩ else
      match rbCommitOpt E f.delta p1 with
      | (false, q, ta) =>
        if E.Q.rbErrNoPoison then ⟨.err, q, t0 ++ ta⟩
        else ⟨.err, { q with poisoned := true }, t0 ++ ta ++ [.poison]⟩
      | (true, q, ta) =>
        if q.mem.root ≠ f.prevRoot then ⟨.err, q, t0 ++ ta ++ [.rootCheck false]⟩ else
        let q2 := { q with mem := { q.mem with root := f.root, lastMarker := none } }
        let (r, q', ts) := storeCommit E true f.writes q2
        ⟨r, q', t0 ++ ta ++ [.rootCheck true, .rootSet] ++ ts⟩
    else
    -- root check (the root is not yet set)
    if m1.root ≠ f.prevRoot then ⟨.err, p1, t0 ++ [.rootCheck false]⟩ else
    -- `rollback.commit_nonblocking(rollback_delta)`: `Ok(Some(delta))` hands everything back
    if m1.rollbackOn && !E.rbLockFree then ⟨.busy, p, t0 ++ [.rootCheck true, .rbLockTry false]⟩ else
    tryTail E f.writes f.delta f.root p1 (t0 ++ [.rootCheck true])

/-- the body of both overlay commits from the write guard on -/
def commitOvBody (E : Env) (p : PSt Node VH) (oid : Nat) (o : Ov Node VH) (t : List Step) : Out Node VH :=
  let p1 := { p with mem := dropOv p.mem oid }           -- the handle is consumed
  if p.poisoned then ⟨.err, p1, t ++ [.poisonCheck false]⟩ else
  let marked : St Node VH := setOv p1.mem { o with held := false, committed := true }
  if E.Q.markBeforeRootCheck then
    -- F6 order: `let marker = self.mark_committed();` before the root check
    if p.mem.root ≠ o.prevRoot then ⟨.err, { p1 with mem := marked }, t ++ [.poisonCheck true, .markCommitted, .rootCheck false]⟩ else
    let p2 := { p1 with mem := { marked with root := o.root, lastMarker := some oid } }
    appendAndStore E o.changes o.delta p2 (t ++ [.poisonCheck true, .markCommitted, .rootCheck true, .rootSet])
  else
  if p.mem.root ≠ o.prevRoot then ⟨.err, p1, t ++ [.poisonCheck true, .rootCheck false]⟩ else
  -- `let marker = self.mark_committed(); shared.root = root; shared.last_commit_marker = Some(marker);`
  let p2 := { p1 with mem := { marked with root := o.root, lastMarker := some oid } }
  appendAndStore E o.changes o.delta p2 (t ++ [.poisonCheck true, .rootCheck true, .markCommitted, .rootSet])

/-- `Overlay::commit` -/
def commitOvP (E : Env) (p : PSt Node VH) (oid : Nat) : Out Node VH :=
  match p.mem.ov? oid with
  | none => ⟨.err, p, []⟩
  | some o =>
    if !o.held then ⟨.err, p, []⟩ else
    -- `if !self.parent_matches_marker(nomt.shared.lock().last_commit_marker.as_ref()) { bail }` — before the write guard
    if !parentOk p.mem o then ⟨.err, { p with mem := dropOv p.mem oid }, [.markerCheck false]⟩ else
    commitOvBody E p oid o [.markerCheck true, .guardWrite]

/-- `Overlay::try_commit_nonblocking` -/
def tryCommitOvP (E : Env) (p : PSt Node VH) (oid : Nat) : Out Node VH :=
  match p.mem.ov? oid with
  | none => ⟨.err, p, []⟩
  | some o =>
    if !parentOk p.mem o then ⟨.err, { p with mem := dropOv p.mem oid }, [.markerCheck false]⟩ else
    -- `try_write()`: `None` → `Ok(Some(self))`
    if p.mem.sess.any (·.guard) then ⟨.busy, p, [.markerCheck true, .guardTry false]⟩ else
    if !o.held then ⟨.err, p, []⟩ else
    commitOvBody E p oid o [.markerCheck true, .guardTry true]

variable (H : Hasher Node VH)

/-- `Nomt::rollback` (as repaired for F21: the poison check comes right after the write guard, BEFORE `store.rollback()` /
`truncate(n)`; `Q.rollbackPoisonLate` is the order before the repair) -/
def rollbackP (E : Env) (p : PSt Node VH) (n : Nat) : Out Node VH :=
  if n = 0 then ⟨.ok, p, []⟩ else
  -- `let _write_guard = self.access_lock.write();`  `if self.store.is_poisoned() { bail }`
  if !E.Q.rollbackPoisonLate && p.poisoned then ⟨.err, p, [.guardWrite, .poisonCheck false]⟩ else
  let t0 : List Step := if E.Q.rollbackPoisonLate then [.guardWrite] else [.guardWrite, .poisonCheck true]
  -- `let Some(rollback) = self.store.rollback() else { bail }`
  if !p.mem.rollbackOn then ⟨.err, p, t0⟩ else
  -- `rollback.truncate(n)?`: `Ok(None)` → bail "not enough logged"
  if n > p.mem.log.length then ⟨.err, p, t0⟩ else
  let tb := traceback (p.mem.log.take n)
  let p1 := { p with mem := { p.mem with log := p.mem.log.drop n } }      -- popped; `pending_truncate` set
  -- `begin_session` (no delta, no guard), `warm_up`, `sess.finish(actuals)?`
  if !E.finishOk then ⟨.err, p1, t0 ++ [.rbTruncate, .sessionFinish false]⟩ else
  let kv' := kvApply p.mem.kv tb
  -- inner `FinishedSession::commit` (`take_global_guard = false`, `rollback_delta = None`): its poison check can only fire
  -- in the order before the repair
  if p.poisoned then ⟨.err, p1, t0 ++ [.rbTruncate, .sessionFinish true, .poisonCheck false]⟩ else
  -- the root check compares `shared.root` with the root `begin_session` read under the same write guard: always equal
  let p2 := { p1 with mem := { p1.mem with root := rootOfKV H kv', lastMarker := none } }
  let (r, q, ts) := storeCommit E false tb p2
  ⟨r, q, t0 ++ [.rbTruncate, .sessionFinish true, .poisonCheck true, .rootCheck true, .rootSet] ++ ts⟩

/-- dropping the handle and opening the directory again (no power loss: every issued write stays); `none`: the directory
holds neither a committed state -/
def reopenP (p : PSt Node VH) : Option (PSt Node VH) :=
  if p.disk.corrupt then none
  else
    let d := p.disk.procImage
    some (PSt.ofSt (reopen { p.mem with kv := d.kv, root := d.root, log := d.log, seqn := d.seqn }))

end Nomt.Api.Pipe
