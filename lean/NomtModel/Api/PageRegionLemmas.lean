import NomtModel.Api.PageRegionModel
import NomtModel.Core.PageIdOrder
/-!
# What a `PageRegion` owns

* `from_page_id(p)` owns exactly the descendants of `p` (including `p`);
* `from_page_id_descendants(p, lo, hi)` owns exactly the descendants of the children `lo … hi` of `p`;
* the regions of distinct children are mutually exclusive and together with `p` itself cover the region of `p`.
(The shard regions of the page cache: `Api/ShardRegionsTable.lean`.)
-/
namespace Nomt.TriePos

theorem maxDescendant_length (p : PageId) (h : p.length ≤ MAX_PAGE_DEPTH) :
    (maxDescendant p).length = MAX_PAGE_DEPTH := by
  unfold maxDescendant; simp; omega

theorem containsExclusive_fromPageId (p q : PageId) (hp : p.length ≤ MAX_PAGE_DEPTH) (hq : PidOk q) :
    (Region.fromPageId p).containsExclusive q = isDescendantOf q p :=
  descendant_iff_interval p q hp hq

theorem fromPageIdDescendants_eq (p : PageId) (lo hi : Nat) (hp : p.length < MAX_PAGE_DEPTH) (h : lo ≤ hi) :
    Region.fromPageIdDescendants p lo hi = some ⟨p, some (p ++ [lo]), maxDescendant (p ++ [hi])⟩ := by
  unfold Region.fromPageIdDescendants
  rw [if_neg (by omega), childPageId_ok p lo hp, childPageId_ok p hi hp]

theorem fromPageIdDescendants_none_iff (p : PageId) (lo hi : Nat) :
    Region.fromPageIdDescendants p lo hi = none ↔ hi < lo ∨ MAX_PAGE_DEPTH ≤ p.length := by
  constructor
  · intro h
    by_cases h1 : hi < lo
    · exact Or.inl h1
    · by_cases h2 : MAX_PAGE_DEPTH ≤ p.length
      · exact Or.inr h2
      · rw [fromPageIdDescendants_eq p lo hi (by omega) (by omega)] at h; cases h
  · rintro (h | h)
    · unfold Region.fromPageIdDescendants; rw [if_pos h]
    · unfold Region.fromPageIdDescendants
      rw [childPageId_err p lo h]
      split <;> rfl

/-- the exclusive set of a descendants-region: the sub-trees of the children `lo … hi` -/
theorem containsExclusive_descendants (p q : PageId) (lo hi : Nat) (hp : p.length < MAX_PAGE_DEPTH)
    (hhi : hi < 64) (hq : PidOk q) :
    (⟨p, some (p ++ [lo]), maxDescendant (p ++ [hi])⟩ : Region).containsExclusive q = true ↔
      ∃ c t, q = p ++ c :: t ∧ lo ≤ c ∧ c ≤ hi := by
  unfold Region.containsExclusive Region.exclusiveMinId
  simp only [Bool.and_eq_true]
  have hmd : maxDescendant (p ++ [hi]) = p ++ hi :: List.replicate (MAX_PAGE_DEPTH - (p.length + 1)) 63 := by
    unfold maxDescendant MAX_CHILD_INDEX; simp
  constructor
  · rintro ⟨h1, h2⟩
    -- `q` lies in `[p, max_descendant p]`, hence descends from `p`
    have hle1 : pidLe p q = true := pidLe_trans _ _ _ (pidLe_append p [lo]) h1
    have hle2 : pidLe q (maxDescendant p) = true := by
      apply pidLe_trans _ _ _ h2
      rw [hmd]
      unfold maxDescendant pidLe MAX_CHILD_INDEX
      rw [pidLt_append_left]
      have : MAX_PAGE_DEPTH - p.length = (MAX_PAGE_DEPTH - (p.length + 1)) + 1 := by omega
      rw [this, List.replicate_succ, pidLt_cons, pidLt_irrefl]
      have : ¬ 63 < hi := by omega
      simp [this]
    have hd := descendant_iff_interval p q (by omega) hq
    rw [hle1, hle2] at hd
    have hpre : p <+: q := (isDescendantOf_iff q p).mp hd.symm
    obtain ⟨t, rfl⟩ := hpre
    cases t with
    | nil =>
      exfalso
      unfold pidLe at h1
      have := pidLt_append_left p [] [lo]
      rw [this] at h1
      simp [pidLt] at h1
    | cons c t =>
      refine ⟨c, t, rfl, ?_, ?_⟩
      · unfold pidLe at h1
        rw [pidLt_append_left, pidLt_cons, pidLt_nil_right] at h1
        simp at h1
        omega
      · rw [hmd] at h2
        unfold pidLe at h2
        rw [pidLt_append_left, pidLt_cons] at h2
        simp at h2
        omega
  · rintro ⟨c, t, rfl, h1, h2⟩
    have hqv := hq.1
    have hql := hq.2
    simp only [List.length_append, List.length_cons] at hql
    constructor
    · unfold pidLe
      rw [pidLt_append_left, pidLt_cons, pidLt_nil_right]
      have : ¬ c < lo := by omega
      simp [this]
    · rw [hmd]
      unfold pidLe
      rw [pidLt_append_left, pidLt_cons]
      have hrep := pidLt_replicate_max 63 t (MAX_PAGE_DEPTH - (p.length + 1))
        (fun x hx => by have := hqv x (by simp [hx]); omega) (by omega)
      rw [hrep]
      have : ¬ hi < c := by omega
      simp [this]

/-- regions of different children exclude each other (both directions of `excludes_unique`) -/
theorem excludesUnique_children (p : PageId) (c c' : Nat) (h : c < c') :
    (Region.fromPageId (p ++ [c])).excludesUnique (Region.fromPageId (p ++ [c'])) = true ∧
    (Region.fromPageId (p ++ [c'])).excludesUnique (Region.fromPageId (p ++ [c])) = true := by
  have key : pidLt (maxDescendant (p ++ [c])) (p ++ [c']) = true := by
    unfold maxDescendant
    rw [List.append_assoc, pidLt_append_left]
    simp [pidLt_cons, h]
  unfold Region.excludesUnique Region.exclusiveMinId Region.fromPageId
  simp only [key, Bool.true_or, Bool.or_true, and_self]

/-- `excludes_unique` is sound: two regions that exclude each other own no page in common -/
theorem excludesUnique_sound (a b : Region) (q : PageId) (h : a.excludesUnique b = true)
    (ha : a.containsExclusive q = true) (hb : b.containsExclusive q = true) : False := by
  unfold Region.containsExclusive at ha hb
  simp only [Bool.and_eq_true] at ha hb
  unfold Region.excludesUnique at h
  simp only [Bool.or_eq_true] at h
  rcases h with h | h
  · have := pidLt_of_lt_of_le _ _ _ (pidLt_of_le_of_lt _ _ _ ha.2 h) hb.1
    rw [pidLt_irrefl] at this; cases this
  · have := pidLt_of_lt_of_le _ _ _ (pidLt_of_le_of_lt _ _ _ hb.2 h) ha.1
    rw [pidLt_irrefl] at this; cases this

/-- `encompasses` is sound: the encompassing region owns everything the other owns -/
theorem encompasses_sound (a b : Region) (q : PageId) (h : a.encompasses b = true)
    (hb : b.containsExclusive q = true) : a.containsExclusive q = true := by
  unfold Region.containsExclusive at hb ⊢
  unfold Region.encompasses at h
  simp only [Bool.and_eq_true] at *
  exact ⟨pidLe_trans _ _ _ h.1 hb.1, pidLe_trans _ _ _ hb.2 h.2⟩

/-- the region of a child lies inside the region of its parent -/
theorem encompasses_child (p : PageId) (c : Nat) (hc : c < 64) (hp : p.length < MAX_PAGE_DEPTH) :
    (Region.fromPageId p).encompasses (Region.fromPageId (p ++ [c])) = true := by
  unfold Region.encompasses Region.exclusiveMinId Region.fromPageId
  simp only [Bool.and_eq_true]
  refine ⟨pidLe_append p [c], ?_⟩
  unfold maxDescendant pidLe MAX_CHILD_INDEX
  rw [List.append_assoc, pidLt_append_left]
  have : MAX_PAGE_DEPTH - p.length = (MAX_PAGE_DEPTH - (p ++ [c]).length) + 1 := by simp; omega
  rw [this, List.replicate_succ, List.singleton_append, pidLt_cons, pidLt_irrefl]
  have : ¬ 63 < c := by omega
  simp [this]

/-- **partition**: a page in the region of `p` is `p` itself or lies in the region of exactly one child -/
theorem region_partition (p q : PageId) (hp : p.length < MAX_PAGE_DEPTH) (hq : PidOk q)
    (h : (Region.fromPageId p).containsExclusive q = true) :
    q = p ∨ ∃ c, c < 64 ∧ (Region.fromPageId (p ++ [c])).containsExclusive q = true ∧
      ∀ c', c' < 64 → (Region.fromPageId (p ++ [c'])).containsExclusive q = true → c' = c := by
  rw [containsExclusive_fromPageId p q (by omega) hq] at h
  obtain ⟨t, rfl⟩ := (isDescendantOf_iff q p).mp h
  cases t with
  | nil => left; simp
  | cons c t =>
    right
    have hc : c < 64 := hq.1 c (by simp)
    refine ⟨c, hc, ?_, ?_⟩
    · rw [containsExclusive_fromPageId _ _ (by simp; omega) hq]
      apply (isDescendantOf_iff _ _).mpr
      exact ⟨t, by simp⟩
    · intro c' _ h'
      rw [containsExclusive_fromPageId _ _ (by simp; omega) hq] at h'
      obtain ⟨t', ht'⟩ := (isDescendantOf_iff _ _).mp h'
      have : c' :: t' = c :: t := by
        have := ht'
        rw [List.append_assoc] at this
        exact List.append_cancel_left this
      injection this

end Nomt.TriePos
