import NomtModel.Api.SplitSpec2
/-!
The assembled witness against the specification, for every arrival order of the worker outputs:

* `assemble_worker_order` — outputs taken in worker order: `join` returns the flat form of `witnessSpecL` itself;
* `assemble_any_order` — outputs in ANY order (a permutation of the workers): `join` succeeds, the groups of the
  result are a permutation of the specified witness, and its canonical form (groups sorted by path) IS the specified
  witness;
* `owner_unique`, `owner_monotone` — a run has exactly one owner, ownership is monotone in the worker index.
-/
set_option linter.unusedSectionVars false
namespace Nomt.Split
open Nomt Nomt.Api
variable {Node VH : Type} [DecidableEq Node] [DecidableEq VH]

/-! ### ownership -/
section Owner
variable (L n : Nat) (prover : Key → PathProof Node VH) (ops : List (Op VH))
  (hlen : ∀ o ∈ ops, o.1.length = L) (hL : 6 ≤ L) (h1 : 1 ≤ n) (h64 : n ≤ 64)
include hlen hL h1 h64

theorem bound_le (i j : Nat) (hij : i ≤ j) (hj : j ≤ n) : bound L n ops i ≤ bound L n ops j := by
  induction j with
  | zero => have : i = 0 := by omega
            subst this; exact Nat.le_refl _
  | succ k ih =>
    by_cases e : i = k + 1
    · subst e; exact Nat.le_refl _
    · exact Nat.le_trans (ih (by omega) (by omega)) (bound_mono L n ops hlen hL h1 h64 k (by omega))

/-- a run owned by worker `i` starts inside the worker's index range, at a run start -/
theorem ownedRuns_range (i : Nat) (r : Nat × Nat) (hr : r ∈ ownedRuns L n prover ops i) :
    bound L n ops i ≤ r.1 ∧ r.1 < bound L n ops (i+1) ∧ runStart (terms (tpOf prover) ops) r.1 = true ∧
    r.2 = align (terms (tpOf prover) ops) (r.1 + 1) := by
  have hb := runsFrom_bounds _ _ _ r hr
  have hs := runsFrom_starts _ _ _ (align_runStart _ _) r hr
  have := align_ge (terms (tpOf prover) ops) (bound L n ops i)
  exact ⟨by omega, hb.2.1, hs, hb.2.2.2.2⟩

/-- **exactly one owner** -/
theorem owner_unique (i j : Nat) (hi : i < n) (hj : j < n) (r : Nat × Nat)
    (hri : r ∈ ownedRuns L n prover ops i) (hrj : r ∈ ownedRuns L n prover ops j) : i = j := by
  have a := ownedRuns_range L n prover ops hlen hL h1 h64 i r hri
  have b := ownedRuns_range L n prover ops hlen hL h1 h64 j r hrj
  rcases Nat.lt_trichotomy i j with h | h | h
  · have := bound_le L n ops hlen hL h1 h64 (i+1) j (by omega) (by omega); omega
  · exact h
  · have := bound_le L n ops hlen hL h1 h64 (j+1) i (by omega) (by omega); omega

/-- **ownership is monotone in key order**: every run of a lower worker ends before any run of a higher worker
starts (although it may extend past the lower worker's `range_end`) -/
theorem owner_monotone (i j : Nat) (hij : i < j) (hj : j < n) (a b : Nat × Nat)
    (ha : a ∈ ownedRuns L n prover ops i) (hb : b ∈ ownedRuns L n prover ops j) : a.2 ≤ b.1 := by
  have ra := ownedRuns_range L n prover ops hlen hL h1 h64 i a ha
  have rb := ownedRuns_range L n prover ops hlen hL h1 h64 j b hb
  have := bound_le L n ops hlen hL h1 h64 (i+1) j (by omega) (by omega)
  rw [ra.2.2.2, ← align_of_runStart rb.2.2.1]
  exact align_mono _ _ _ (by omega)

end Owner

/-! ### the canonical form -/

/-- the order `canon` sorts by -/
abbrev pathLe (x y : WPath Node VH) : Bool := !bitsLt y.path x.path

theorem pathLe_trans (a b c : WPath Node VH) (h1 : pathLe a b = true) (h2 : pathLe b c = true) : pathLe a c = true := by
  simp only [pathLe, Bool.not_eq_true'] at h1 h2 ⊢
  exact ble_trans h1 h2

theorem pathLe_total (a b : WPath Node VH) : (pathLe a b || pathLe b a) = true := by
  simp only [pathLe]
  cases h : bitsLt b.path a.path with
  | false => simp
  | true => simp [bl_asymm _ _ h]

theorem eq_of_path_eq : ∀ (l : List (WPath Node VH)), l.Pairwise (fun a b => bitsLt a.path b.path = true) →
    ∀ a ∈ l, ∀ b ∈ l, a.path = b.path → a = b
  | [], _, a, ha, _, _, _ => by cases ha
  | x :: rest, hp, a, ha, b, hb, e => by
    obtain ⟨hx, hrest⟩ := List.pairwise_cons.mp hp
    rcases List.mem_cons.mp ha with rfl | ha' <;> rcases List.mem_cons.mp hb with rfl | hb'
    · rfl
    · have := hx b hb'; rw [e, bl_irrefl] at this; cases this
    · have := hx a ha'; rw [← e, bl_irrefl] at this; cases this
    · exact eq_of_path_eq rest hrest a ha' b hb' e

/-- sorting any permutation of a list with strictly ascending paths gives the list back -/
theorem mergeSort_perm_sorted (spec l : List (WPath Node VH))
    (hs : spec.Pairwise (fun a b => bitsLt a.path b.path = true)) (hp : l.Perm spec) :
    l.mergeSort pathLe = spec := by
  have h1 : (l.mergeSort pathLe).Perm spec := (List.mergeSort_perm l pathLe).trans hp
  have h2 : (l.mergeSort pathLe).Pairwise (fun a b => pathLe a b = true) :=
    List.pairwise_mergeSort pathLe_trans pathLe_total l
  have h3 : spec.Pairwise (fun a b => pathLe a b = true) :=
    hs.imp (fun {a b} h => by simp only [pathLe, Bool.not_eq_true']; exact bl_asymm _ _ h)
  refine List.Perm.eq_of_pairwise ?_ h2 h3 h1
  intro a b ha hb hab hba
  have ha' : a ∈ spec := h1.subset ha
  apply eq_of_path_eq spec hs a ha' b hb
  simp only [pathLe, Bool.not_eq_true'] at hab hba
  rcases bl_trichotomy a.path b.path with e | e | e
  · exact e
  · rw [e] at hba; cases hba
  · rw [e] at hab; cases hab

/-! ### assembly = specification -/
section Assembly
variable (H : Hasher Node VH) (hs : H.Sound) (L : Nat) (view : KVL VH) (hc : Canon L 0 view)
  (hsorted : view.Pairwise KeyLt) (n : Nat) (ops : List (Op VH)) (hlen : ∀ o ∈ ops, o.1.length = L)
  (hsort : ops.Pairwise KeyLt) (hL : 6 ≤ L) (h1 : 1 ≤ n) (h64 : n ≤ 64)
include hs hc hsorted hlen hsort hL h1 h64

/-- the groups of the workers `0 … n-1`, in worker order, are the specified witness -/
theorem workerGroups_concat :
    (List.range n).flatMap (workerGroups L n (proveSpec H L view) ops)
      = witnessSpecL H L view (readKeys ops) (subtrieOps ops) := by
  have T := termFn_spec H hs L view hc
  unfold workerGroups
  rw [← List.filterMap_flatMap, owned_concat L n (proveSpec H L view) ops T hlen hL h1 h64]
  exact allGroups_eq_witnessSpec H hs L view hc hsorted ops hlen hsort

/-- **assembly in worker order = the specification** -/
theorem assemble_worker_order :
    assemble L n (proveSpec H L view) ops (List.range n)
      = some (flat (witnessSpecL H L view (readKeys ops) (subtrieOps ops))) := by
  have T := termFn_spec H hs L view hc
  rw [assemble_spec L n (proveSpec H L view) ops T hlen hL h1 h64 (List.range n) (fun i hi => List.mem_range.mp hi),
    workerGroups_concat H hs L view hc hsorted n ops hlen hsort hL h1 h64]

/-- **assembly for every completion order** -/
theorem assemble_any_order (order : List Nat) (hperm : order.Perm (List.range n)) :
    ∃ a, assemble L n (proveSpec H L view) ops order = some a ∧
      a.groups.Perm (witnessSpecL H L view (readKeys ops) (subtrieOps ops)) ∧
      a.canon = witnessSpecL H L view (readKeys ops) (subtrieOps ops) := by
  have T := termFn_spec H hs L view hc
  have hord : ∀ i ∈ order, i < n := fun i hi => List.mem_range.mp (hperm.subset hi)
  refine ⟨_, assemble_spec L n (proveSpec H L view) ops T hlen hL h1 h64 order hord, ?_, ?_⟩
  · rw [groups_flat, ← workerGroups_concat H hs L view hc hsorted n ops hlen hsort hL h1 h64]
    exact hperm.flatMap_right _
  · have hp : (order.flatMap (workerGroups L n (proveSpec H L view) ops)).Perm
        (witnessSpecL H L view (readKeys ops) (subtrieOps ops)) := by
      rw [← workerGroups_concat H hs L view hc hsorted n ops hlen hsort hL h1 h64]
      exact hperm.flatMap_right _
    have hsp := witnessSpecL_paths_sorted H L view (readKeys ops) (subtrieOps ops) hs hc
      (by
        intro k hk
        simp only [readKeys, List.mem_map, List.mem_filter] at hk
        obtain ⟨o, ⟨ho, _⟩, rfl⟩ := hk
        exact hlen o ho)
      (by
        intro kw hkw
        simp only [subtrieOps, List.mem_filterMap] at hkw
        obtain ⟨o, ho, he⟩ := hkw
        cases hw : o.2.written with
        | none => simp [hw] at he
        | some v => simp [hw] at he; rw [← he]; exact hlen o ho)
    unfold Assembled.canon
    rw [groups_flat]
    exact mergeSort_perm_sorted _ _ hsp hp

end Assembly

end Nomt.Split
