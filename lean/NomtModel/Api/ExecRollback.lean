import NomtModel.Api.ExecLemmas
/-!
Rollback on the executable API model (C09): the rollback log is a chain of reverse deltas of actual commits
(`LogChain`), undoing a chain restores its start state *as a list*, `applyCommit` and `rollback` keep the
invariant, and rollbacks compose.
-/
namespace Nomt.Api
open Nomt
variable {Node VH : Type} [DecidableEq Node] [DecidableEq VH]

/-- the reverse delta of a batch against a base state: the prior value of every written key, exactly as
`finish` computes it for a session on the committed state -/
def deltaOf (prev : KVL VH) (ws : Writes VH) : Writes VH := ws.map (fun kw => (kw.1, kvGet prev kw.1))

/-- `LogChain old ds cur`: `ds` (newest first) are the reverse deltas of actual commits leading from `old`
to `cur` -/
inductive LogChain : KVL VH → List (Writes VH) → KVL VH → Prop
  | nil (kv : KVL VH) : LogChain kv [] kv
  | cons (old prev : KVL VH) (ws : Writes VH) (rest : List (Writes VH)) :
      LogChain old rest prev → LogChain old (deltaOf prev ws :: rest) (kvApply prev ws)

/-- the invariant on `(kv, log)`: the log is a chain of actual commits, starting from some sorted state (the
state at the oldest retained delta) and ending in the current values -/
def LogInv (kv : KVL VH) (log : List (Writes VH)) : Prop := ∃ old, KSorted old ∧ LogChain old log kv

/-- state invariant: `LogInv`, and a store without rollback keeps no log -/
def StInv (s : St Node VH) : Prop := LogInv s.kv s.log ∧ (s.rollbackOn = false → s.log = [])

theorem traceback_eq_flatten (ds : List (Writes VH)) : traceback ds = ds.flatten := by
  unfold traceback
  suffices h : ∀ (acc : Writes VH), ds.foldl (fun acc d => acc ++ d) acc = acc ++ ds.flatten by simpa using h []
  induction ds with
  | nil => simp
  | cons d ds ih => intro acc; simp [ih]

theorem traceback_cons (d : Writes VH) (ds : List (Writes VH)) : traceback (d :: ds) = d ++ traceback ds := by
  simp [traceback_eq_flatten]

theorem traceback_append (a b : List (Writes VH)) : traceback (a ++ b) = traceback a ++ traceback b := by
  simp [traceback_eq_flatten]

theorem wsLookupLast_deltaOf (prev : KVL VH) (ws : Writes VH) (k : Key) :
    wsLookupLast (deltaOf prev ws) k = (wsLookupLast ws k).map (fun _ => kvGet prev k) := by
  induction ws with
  | nil => rfl
  | cons x xs ih =>
    obtain ⟨k', w⟩ := x
    simp only [deltaOf, List.map_cons, wsLookupLast] at ih ⊢
    rw [ih]
    cases wsLookupLast xs k with
    | some w' => rfl
    | none =>
      by_cases h : (k' == k) = true
      · have : k' = k := by simpa using h
        subst this; simp
      · simp [h]

/-- undoing one commit: applying the reverse delta gives back the very same list -/
theorem kvApply_deltaOf {prev : KVL VH} (hs : KSorted prev) (ws : Writes VH) :
    kvApply (kvApply prev ws) (deltaOf prev ws) = prev := by
  apply kv_ext (kvApply_sorted (kvApply_sorted hs _) _) hs
  intro k
  rw [kvGet_kvApply (kvApply_sorted hs _), wsLookupLast_deltaOf, kvGet_kvApply hs]
  cases wsLookupLast ws k <;> rfl

theorem LogChain.sorted {old cur : KVL VH} {ds : List (Writes VH)} (h : LogChain old ds cur) (hs : KSorted old) :
    KSorted cur := by
  induction h with
  | nil => exact hs
  | cons prev ws rest _ ih => exact kvApply_sorted ih ws

/-- undoing a chain of commits restores its start state -/
theorem LogChain.undo {old cur : KVL VH} {ds : List (Writes VH)} (h : LogChain old ds cur) (hs : KSorted old) :
    kvApply cur (traceback ds) = old := by
  induction h with
  | nil => rfl
  | cons prev ws rest hc ih =>
    rw [traceback_cons, kvApply_append, kvApply_deltaOf (hc.sorted hs)]
    exact ih

theorem logChain_append (old cur : KVL VH) (a b : List (Writes VH)) :
    LogChain old (a ++ b) cur ↔ ∃ mid, LogChain old b mid ∧ LogChain mid a cur := by
  constructor
  · intro h
    induction a generalizing cur with
    | nil => exact ⟨cur, h, LogChain.nil cur⟩
    | cons d ds ih =>
      cases h with
      | cons prev ws _ h' =>
        obtain ⟨mid, h1, h2⟩ := ih _ h'
        exact ⟨mid, h1, LogChain.cons mid prev ws ds h2⟩
  · rintro ⟨mid, h1, h2⟩
    induction h2 with
    | nil => exact h1
    | cons prev ws rest _ ih => exact LogChain.cons old prev ws (rest ++ b) ih

/-- the start state of a chain is determined by the log and the end state -/
theorem LogChain.start_unique {old old' cur : KVL VH} {ds : List (Writes VH)} (h : LogChain old ds cur)
    (h' : LogChain old' ds cur) (hs : KSorted old) (hs' : KSorted old') : old = old' := by
  rw [← h.undo hs, h'.undo hs']

theorem LogInv.sorted {kv : KVL VH} {log : List (Writes VH)} (h : LogInv kv log) : KSorted kv := by
  obtain ⟨old, hs, hc⟩ := h; exact hc.sorted hs

theorem LogInv.nil {kv : KVL VH} (hs : KSorted kv) : LogInv kv [] := ⟨kv, hs, LogChain.nil kv⟩

theorem LogInv.push {kv : KVL VH} {log : List (Writes VH)} (h : LogInv kv log) (ws : Writes VH) :
    LogInv (kvApply kv ws) (deltaOf kv ws :: log) := by
  obtain ⟨old, hs, hc⟩ := h; exact ⟨old, hs, LogChain.cons old kv ws log hc⟩

/-- dropping the oldest deltas (the `maxLog` bound) keeps the invariant -/
theorem LogInv.take {kv : KVL VH} {log : List (Writes VH)} (h : LogInv kv log) (m : Nat) : LogInv kv (log.take m) := by
  obtain ⟨old, hs, hc⟩ := h
  rw [← List.take_append_drop m log, logChain_append] at hc
  obtain ⟨mid, h1, h2⟩ := hc
  exact ⟨mid, h1.sorted hs, h2⟩

theorem LogInv.drop {kv : KVL VH} {log : List (Writes VH)} (h : LogInv kv log) (n : Nat) :
    LogInv (kvApply kv (traceback (log.take n))) (log.drop n) := by
  obtain ⟨old, hs, hc⟩ := h
  rw [← List.take_append_drop n log, logChain_append] at hc
  obtain ⟨mid, h1, h2⟩ := hc
  rw [h2.undo (h1.sorted hs)]
  exact ⟨old, hs, h1⟩

/-! ### commits keep the invariant -/

theorem applyCommit_stInv (s : St Node VH) (ws delta : Writes VH) (root : Node) (marker : Option Nat)
    (hi : StInv s) (hd : delta = deltaOf s.kv ws) : StInv (applyCommit s ws delta root marker) := by
  obtain ⟨hl, hoff⟩ := hi
  unfold StInv applyCommit pushLog
  cases hon : s.rollbackOn with
  | true =>
    simp only [if_true]
    refine ⟨?_, by simp [hon]⟩
    subst hd
    exact (hl.push ws).take s.maxLog
  | false =>
    simp only [Bool.false_eq_true, if_false]
    rw [hoff hon]
    exact ⟨LogInv.nil (kvApply_sorted hl.sorted ws), fun _ => rfl⟩

theorem takeFin_stInv {s s1 : St Node VH} {fid : Nat} {f : Fin Node VH} (h : takeFin s fid = some (f, s1))
    (hi : StInv s) : StInv s1 := by
  rw [(takeFin_some h).2]; exact hi

/-- a blocking commit keeps the invariant (whatever its result), provided the changeset's delta is the
priors of its writes w.r.t. the committed values it is applied to -/
theorem commitFin_stInv (s : St Node VH) (fid : Nat) (hi : StInv s)
    (hd : ∀ f, s.fins.find? (·.id == fid) = some f → f.delta = deltaOf s.kv f.writes) :
    StInv (commitFin s fid).2 := by
  rw [commitFin_eq]
  cases ht : takeFin s fid with
  | none => exact hi
  | some p =>
    obtain ⟨f, s1⟩ := p
    simp only
    have hi1 := takeFin_stInv ht hi
    by_cases hr : s1.root ≠ f.prevRoot
    · rw [if_pos hr]; exact hi1
    · rw [if_neg hr]
      apply applyCommit_stInv _ _ _ _ _ hi1
      rw [(takeFin_some ht).2]
      exact hd f (takeFin_some ht).1

theorem stInv_congr {s t : St Node VH} (hkv : t.kv = s.kv) (hlog : t.log = s.log) (hon : t.rollbackOn = s.rollbackOn)
    (hi : StInv s) : StInv t := by
  unfold StInv at hi ⊢; rw [hkv, hlog, hon]; exact hi

theorem dropOv_kv (s : St Node VH) (oid : Nat) : (dropOv s oid).kv = s.kv := by
  unfold dropOv; split <;> rfl
theorem dropOv_log (s : St Node VH) (oid : Nat) : (dropOv s oid).log = s.log := by
  unfold dropOv; split <;> rfl
theorem dropOv_rollbackOn (s : St Node VH) (oid : Nat) : (dropOv s oid).rollbackOn = s.rollbackOn := by
  unfold dropOv; split <;> rfl
theorem dropOv_maxLog (s : St Node VH) (oid : Nat) : (dropOv s oid).maxLog = s.maxLog := by
  unfold dropOv; split <;> rfl
theorem dropOv_root (s : St Node VH) (oid : Nat) : (dropOv s oid).root = s.root := by
  unfold dropOv; split <;> rfl
theorem dropOv_seqn (s : St Node VH) (oid : Nat) : (dropOv s oid).seqn = s.seqn := by
  unfold dropOv; split <;> rfl
theorem dropOv_lastMarker (s : St Node VH) (oid : Nat) : (dropOv s oid).lastMarker = s.lastMarker := by
  unfold dropOv; split <;> rfl

/-- an overlay commit keeps the invariant (whatever its result), provided the overlay's delta is the priors
of its changes w.r.t. the committed values it is applied to -/
theorem commitOv_stInv (s : St Node VH) (oid : Nat) (hi : StInv s)
    (hd : ∀ o, s.ov? oid = some o → o.delta = deltaOf s.kv o.changes) :
    StInv (commitOv s oid).2 := by
  rw [commitOv_eq]
  cases ho : s.ov? oid with
  | none => exact hi
  | some o =>
    simp only
    have hi1 : StInv (dropOv s oid) :=
      stInv_congr (dropOv_kv s oid) (dropOv_log s oid) (dropOv_rollbackOn s oid) hi
    by_cases h1 : o.held = false
    · rw [if_pos h1]; exact hi
    · rw [if_neg h1]
      by_cases h2 : parentOk s o = false
      · rw [if_pos h2]; exact hi1
      · rw [if_neg h2]
        by_cases h3 : s.root ≠ o.prevRoot
        · rw [if_pos h3]; exact hi1
        · rw [if_neg h3]
          apply applyCommit_stInv
          · exact stInv_congr (s := dropOv s oid) rfl rfl rfl hi1
          · show o.delta = deltaOf (dropOv s oid).kv o.changes
            rw [dropOv_kv]; exact hd o ho

/-- `Session::finish` of a session on the committed state (empty overlay chain) records exactly `deltaOf` -/
theorem finish_empty_chain (H : Hasher Node VH) (s : St Node VH) (sid fid : Nat) (ws : Writes VH) (x : Sess)
    (hx : s.sess.find? (·.id == sid) = some x) (hc : x.chain = []) :
    finish H s sid fid ws =
      some ({ (dropSess s sid) with
                fins := { id := fid, chain := [], writes := ws, prevRoot := s.root,
                          root := rootOfKV H (kvApply s.kv ws), delta := deltaOf s.kv ws } :: s.fins },
            rootOfKV H (kvApply s.kv ws)) := by
  unfold finish
  rw [hx]
  simp only [hc, viewKV, List.foldr_nil, baseRoot, viewGet, deltaOf]

/-! ### rollback -/

theorem rollback_ok_eq (H : Hasher Node VH) (s : St Node VH) (n : Nat) (hon : s.rollbackOn = true) (hn : 0 < n)
    (hle : n ≤ s.log.length) :
    rollback H s n = (.ok, { s with kv := kvApply s.kv (traceback (s.log.take n)),
                                    root := rootOfKV H (kvApply s.kv (traceback (s.log.take n))),
                                    log := s.log.drop n, seqn := s.seqn + 1, lastMarker := none }) := by
  unfold rollback
  have h1 : ¬ n = 0 := by omega
  have h3 : ¬ n > s.log.length := by omega
  simp [h1, hon, h3]

/-- **C09 on the executable model**: in a state satisfying the invariant, `rollback n` with
`0 < n ≤ log length` succeeds; the new values are *the* state `mid` from which the `n` newest logged commits
lead to the current values (list equality), the new root is the root of `mid`, the older log is kept, and
the invariant is preserved. -/
theorem rollback_restores_exec (H : Hasher Node VH) (s : St Node VH) (n : Nat) (hi : StInv s)
    (hon : s.rollbackOn = true) (hn : 0 < n) (hle : n ≤ s.log.length) :
    ∃ mid, KSorted mid ∧ LogChain mid (s.log.take n) s.kv ∧ LogInv mid (s.log.drop n) ∧
      (rollback H s n).1 = .ok ∧ (rollback H s n).2.kv = mid ∧ (rollback H s n).2.root = rootOfKV H mid ∧
      (rollback H s n).2.log = s.log.drop n ∧ StInv (rollback H s n).2 := by
  obtain ⟨⟨old, hs, hc⟩, hoff⟩ := hi
  rw [← List.take_append_drop n s.log, logChain_append] at hc
  obtain ⟨mid, h1, h2⟩ := hc
  have hm := h1.sorted hs
  have hu := h2.undo hm
  rw [rollback_ok_eq H s n hon hn hle]
  simp only [hu]
  refine ⟨mid, hm, h2, ⟨old, hs, h1⟩, trivial, rfl, rfl, trivial, ⟨old, hs, h1⟩, ?_⟩
  intro hf
  simp only at hf
  rw [hon] at hf; cases hf

/-- any state `mid` from which the `n` newest deltas lead to the current values *is* the rolled-back state -/
theorem rollback_kv_unique (H : Hasher Node VH) (s : St Node VH) (n : Nat) (hon : s.rollbackOn = true) (hn : 0 < n)
    (hle : n ≤ s.log.length) (mid : KVL VH) (hm : KSorted mid) (hc : LogChain mid (s.log.take n) s.kv) :
    (rollback H s n).2.kv = mid := by
  rw [rollback_ok_eq H s n hon hn hle]
  exact hc.undo hm

theorem rollback_ok_fields (H : Hasher Node VH) (s : St Node VH) (n : Nat) (hon : s.rollbackOn = true) (hn : 0 < n)
    (hle : n ≤ s.log.length) :
    (rollback H s n).1 = .ok ∧
    (rollback H s n).2.kv = kvApply s.kv (traceback (s.log.take n)) ∧
    (rollback H s n).2.root = rootOfKV H (kvApply s.kv (traceback (s.log.take n))) ∧
    (rollback H s n).2.log = s.log.drop n ∧
    (rollback H s n).2.rollbackOn = s.rollbackOn ∧
    (rollback H s n).2.seqn = s.seqn + 1 ∧
    (rollback H s n).2.lastMarker = none := by
  rw [rollback_ok_eq H s n hon hn hle]
  exact ⟨rfl, rfl, rfl, rfl, rfl, rfl, rfl⟩

/-- rollbacks compose: `rollback k` then `rollback m` is `rollback (k + m)` on values, root, log and marker
(the sequence number counts two syncs instead of one) -/
theorem rollback_rollback (H : Hasher Node VH) (s : St Node VH) (k m : Nat) (hon : s.rollbackOn = true)
    (hk : 0 < k) (hm : 0 < m) (hle : k + m ≤ s.log.length) :
    (rollback H (rollback H s k).2 m).1 = .ok ∧ (rollback H s (k + m)).1 = .ok ∧
    (rollback H (rollback H s k).2 m).2.kv = (rollback H s (k + m)).2.kv ∧
    (rollback H (rollback H s k).2 m).2.root = (rollback H s (k + m)).2.root ∧
    (rollback H (rollback H s k).2 m).2.log = (rollback H s (k + m)).2.log ∧
    (rollback H (rollback H s k).2 m).2.lastMarker = (rollback H s (k + m)).2.lastMarker ∧
    (rollback H (rollback H s k).2 m).2.seqn = (rollback H s (k + m)).2.seqn + 1 := by
  obtain ⟨_, a2, _, a4, a5, a6, _⟩ := rollback_ok_fields H s k hon hk (by omega)
  obtain ⟨b1, b2, b3, b4, _, b6, b7⟩ := rollback_ok_fields H (rollback H s k).2 m (a5 ▸ hon) hm
    (by rw [a4, List.length_drop]; omega)
  obtain ⟨c1, c2, c3, c4, _, c6, c7⟩ := rollback_ok_fields H s (k + m) hon (by omega) hle
  have hkv : (rollback H (rollback H s k).2 m).2.kv = (rollback H s (k + m)).2.kv := by
    rw [b2, c2, a2, a4, ← kvApply_append, ← traceback_append, List.take_add]
  refine ⟨b1, c1, hkv, ?_, ?_, ?_, ?_⟩
  · rw [b3, c3, ← b2, ← c2, hkv]
  · rw [b4, c4, a4, List.drop_drop]
  · rw [b7, c7]
  · rw [b6, c6, a6]

end Nomt.Api
