import NomtModel.Api.SplitSpec2
import NomtModel.Core.UpdateApply
/-!
The root-page pass (`Split.composeAt`): placing the child-page roots the workers report and replacing the deferred
root-page terminals, then hashing up with the compaction rule, gives the node of the UPDATED set — at the root, the
new root — whenever the pending list covers every written key, every reported child-page root is the node of the
updated set at its position and every deferred range holds exactly the writes below its terminal.  The statement
does not mention the worker count.

* `combine_nodeAt` — `page_walker::compact_step` on the two children of a position is the specified node;
* `under_kvApply` — updating commutes with restricting to a position;
* `composeAt_spec` / `composeRoot_spec`.
-/
set_option linter.unusedSectionVars false
namespace Nomt.Split
open Nomt Nomt.Api
variable {Node VH : Type} [DecidableEq Node] [DecidableEq VH] (H : Hasher Node VH)

/-! ### compaction -/

theorem kind_nodeAt (hs : H.Sound) : ∀ (fuel d : Nat) (s : List (Key × VH)), Canon fuel d s →
    H.kind (nodeAt H fuel d s) = (match s with | [] => Kind.terminator | [_] => Kind.leaf | _ :: _ :: _ => Kind.internal)
  | _, _, [], _ => by rw [nodeAt_nil]; exact hs.kind_term
  | _, _, [kv], _ => by rw [nodeAt_single]; exact hs.kind_leaf _ _
  | 0, _, _ :: _ :: _, h => by simp [Canon] at h
  | f+1, d, a :: b :: rest, _ => by rw [nodeAt_two]; exact hs.kind_internal _ _

theorem side_length (d : Nat) (s : List (Key × VH)) : (side d false s).length + (side d true s).length = s.length := by
  induction s with
  | nil => rfl
  | cons x rest ih =>
    unfold side at ih ⊢
    rw [List.filter_cons, List.filter_cons]
    cases h : x.1.getD d false
    · rw [if_pos (by rfl), if_neg (by decide)]; simp only [List.length_cons]; omega
    · rw [if_neg (by decide), if_pos (by rfl)]; simp only [List.length_cons]; omega

/-- **`compact_step` of the two children is the specified node** -/
theorem combine_nodeAt (hs : H.Sound) (f d : Nat) (s : List (Key × VH)) (hc : Canon (f+1) d s) :
    combine H (nodeAt H f (d+1) (side d false s)) (nodeAt H f (d+1) (side d true s)) = nodeAt H (f+1) d s := by
  have c0 := Canon_side f d s false hc
  have c1 := Canon_side f d s true hc
  have k0 := kind_nodeAt H hs f (d+1) _ c0
  have k1 := kind_nodeAt H hs f (d+1) _ c1
  have hlen := side_length d s
  match s, hc with
  | [], _ => simp [side, combine, nodeAt_nil, hs.kind_term]
  | [kv], _ =>
    rw [nodeAt_single]
    cases hb : kv.1.getD d false
    · have e0 : side d false [kv] = [kv] := by unfold side; rw [List.filter_cons, hb]; rfl
      have e1 : side d true [kv] = [] := by unfold side; rw [List.filter_cons, hb]; rfl
      rw [e0, e1, nodeAt_single, nodeAt_nil]
      simp [combine, hs.kind_leaf, hs.kind_term]
    · have e0 : side d false [kv] = [] := by unfold side; rw [List.filter_cons, hb]; rfl
      have e1 : side d true [kv] = [kv] := by unfold side; rw [List.filter_cons, hb]; rfl
      rw [e0, e1, nodeAt_single, nodeAt_nil]
      simp [combine, hs.kind_leaf, hs.kind_term]
  | a :: b :: rest, _ =>
    rw [nodeAt_two]
    unfold combine
    rw [k0, k1]
    simp only [List.length_cons] at hlen
    match h0 : side d false (a :: b :: rest), h1 : side d true (a :: b :: rest) with
    | [], [] => rw [h0, h1] at hlen; simp at hlen
    | [], [_] => rw [h0, h1] at hlen; simp at hlen
    | [_], [] => rw [h0, h1] at hlen; simp at hlen
    | [], _ :: _ :: _ => rfl
    | [_], [_] => rfl
    | [_], _ :: _ :: _ => rfl
    | _ :: _ :: _, [] => rfl
    | _ :: _ :: _, [_] => rfl
    | _ :: _ :: _, _ :: _ :: _ => rfl

/-! ### restricting to a position -/

theorem isPrefixOf_concat : ∀ (p k : List Bool) (b : Bool), p.length < k.length →
    (p ++ [b]).isPrefixOf k = (p.isPrefixOf k && (k.getD p.length false == b))
  | [], [], _, h => by simp at h
  | [], y :: k', b, _ => by simp [List.isPrefixOf, Bool.beq_comm]
  | x :: p', [], _, h => by simp at h
  | x :: p', y :: k', b, h => by
    have := isPrefixOf_concat p' k' b (by simpa using h)
    simp only [List.cons_append, List.isPrefixOf, this, List.length_cons, List.getD_cons_succ, Bool.and_assoc]

theorem under_concat (L : Nat) (S : List (Key × VH)) (hlen : ∀ kv ∈ S, kv.1.length = L) (p : List Bool) (b : Bool)
    (hp : p.length < L) : under (p ++ [b]) S = side p.length b (under p S) := by
  unfold under side
  rw [List.filter_filter]
  apply List.filter_congr
  intro kv hkv
  rw [isPrefixOf_concat p kv.1 b (by rw [hlen kv hkv]; exact hp), Bool.and_comm]

theorem mem_under {β : Type} (p : List Bool) (S : List (Key × β)) (x : Key × β) : x ∈ under p S ↔ x ∈ S ∧ p <+: x.1 := by
  simp [under, List.mem_filter]

theorem under_sorted {β : Type} (p : List Bool) (S : List (Key × β)) (h : S.Pairwise KeyLt) : (under p S).Pairwise KeyLt :=
  h.filter _

/-- the keys below a position, at the depth of the position, are canonically arranged -/
theorem canon_under (L : Nat) (S : List (Key × VH)) (hlen : ∀ kv ∈ S, kv.1.length = L) (hsorted : S.Pairwise KeyLt)
    (p : List Bool) (hp : p.length ≤ L) : Canon (L - p.length) p.length (under p S) := by
  apply canon_of_sorted (L - p.length) p.length (under p S) p
  · refine List.Pairwise.imp_of_mem ?_ (under_sorted p S hsorted)
    intro a b ha hb hab
    exact bl_lexLt _ _ (by rw [hlen a ((mem_under p S a).mp ha).1, hlen b ((mem_under p S b).mp hb).1]) hab
  · intro kv h; rw [hlen kv ((mem_under p S kv).mp h).1]; omega
  · intro kv h; exact (bl_prefix_iff_take _ _).mp ((mem_under p S kv).mp h).2

/-- **updating commutes with restricting to a position** -/
theorem under_kvApply (S : KVL VH) (hsorted : S.Pairwise KeyLt) (W : List (Key × Option VH))
    (hd : W.Pairwise (fun a b => a.1 ≠ b.1)) (p : List Bool) :
    under p (kvApply S W) = kvApply (under p S) (under p W) := by
  have U := kvApply_updatedSet W S hsorted hd
  have U2 := kvApply_updatedSet (under p W) (under p S) (under_sorted p S hsorted) (hd.filter _)
  apply sorted_ext _ _ (under_sorted p _ U.sorted) U2.sorted
  rintro ⟨k, v⟩
  rw [mem_under, U.mem, U2.mem, mem_under, mem_under]
  constructor
  · rintro ⟨h | ⟨h1, h2⟩, hp⟩
    · exact Or.inl ⟨h, hp⟩
    · exact Or.inr ⟨⟨h1, hp⟩, fun o ho => h2 o ((mem_under p W o).mp ho).1⟩
  · rintro (⟨h, hp⟩ | ⟨⟨h1, hp⟩, h2⟩)
    · exact ⟨Or.inl h, hp⟩
    · refine ⟨Or.inr ⟨h1, ?_⟩, hp⟩
      intro o ho e
      exact h2 o ((mem_under p W o).mpr ⟨ho, by rw [e]; exact hp⟩) e

theorem kvApply_nil (S : KVL VH) : kvApply S [] = S := rfl

/-! ### the root-page pass -/
section Compose
variable (hs : H.Sound) (L : Nat) (old : KVL VH) (hlen : ∀ kv ∈ old, kv.1.length = L) (hsorted : old.Pairwise KeyLt)
  (ops : List (Op VH)) (hopslen : ∀ o ∈ ops, o.1.length = L) (hops : ops.Pairwise KeyLt)
  (pend : List (List Bool × Pend Node))

/-- the updated set -/
abbrev newSet : KVL VH := kvApply old (subtrieOps ops)

theorem subtrieOps_distinct (hops : ops.Pairwise KeyLt) : (subtrieOps ops).Pairwise (fun a b => a.1 ≠ b.1) := by
  unfold subtrieOps
  refine List.Pairwise.filterMap _ ?_ hops
  intro a a' h b hb b' hb'
  cases ha : a.2.written with
  | none => simp [ha] at hb
  | some v =>
    cases ha' : a'.2.written with
    | none => simp [ha'] at hb'
    | some v' =>
      simp [ha] at hb; simp [ha'] at hb'
      subst hb; subst hb'
      exact bl_ne h

theorem newSet_len (hlen : ∀ kv ∈ old, kv.1.length = L) (hsorted : old.Pairwise KeyLt)
    (hopslen : ∀ o ∈ ops, o.1.length = L) (hops : ops.Pairwise KeyLt) :
    ∀ kv ∈ newSet old ops, kv.1.length = L := by
  intro kv hkv
  have U := kvApply_updatedSet (subtrieOps ops) old hsorted (subtrieOps_distinct ops hops)
  rcases (U.mem kv.1 kv.2).mp hkv with h | ⟨h, _⟩
  · simp only [subtrieOps, List.mem_filterMap] at h
    obtain ⟨o, ho, he⟩ := h
    cases hw : o.2.written with
    | none => simp [hw] at he
    | some v => simp [hw] at he; rw [← he.1]; exact hopslen o ho
  · exact hlen _ h

theorem lookupPend_some {pos : List Bool} {e : Pend Node} (h : lookupPend pend pos = some e) : (pos, e) ∈ pend := by
  simp only [lookupPend, Option.map_eq_some_iff] at h
  obtain ⟨x, hx, rfl⟩ := h
  have hm := List.mem_of_find?_eq_some hx
  have hp := List.find?_some hx
  simp only [beq_iff_eq] at hp
  rw [← hp]; exact hm

theorem lookupPend_none {pos : List Bool} (h : lookupPend pend pos = none) : ∀ x ∈ pend, x.1 ≠ pos := by
  simp only [lookupPend, Option.map_eq_none_iff, List.find?_eq_none] at h
  intro x hx e
  exact h x hx (by simpa using e)

include hs hlen hsorted hopslen hops in
/-- **the root-page pass computes the node of the updated set**, at every position it visits -/
theorem composeAt_spec
    (hnode : ∀ p n, (p, Pend.node n) ∈ pend → n = nodeAt H (L - p.length) p.length (under p (newSet old ops)))
    (hsub : ∀ p s e, (p, Pend.subtrie s e) ∈ pend → subtrieOps ((ops.drop s).take (e - s)) = under p (subtrieOps ops))
    (hcover : ∀ w ∈ subtrieOps ops, ∃ x ∈ pend, x.1 <+: w.1)
    (hdepth : ∀ x ∈ pend, x.1.length ≤ L) :
    ∀ (budget : Nat) (pos : List Bool),
      (∀ x ∈ pend, pos <+: x.1 → x.1.length ≤ pos.length + budget) →
      (∀ x ∈ pend, x.1 <+: pos → x.1 = pos) →
      composeAt H L old ops pend budget pos = nodeAt H (L - pos.length) pos.length (under pos (newSet old ops)) := by
  have hdist := subtrieOps_distinct ops hops
  intro budget
  induction budget with
  | zero =>
    intro pos hb hanc
    unfold composeAt
    split
    · rename_i n hl; exact hnode pos n (lookupPend_some pend hl)
    · rename_i s e hl
      rw [hsub pos s e (lookupPend_some pend hl), ← under_kvApply old hsorted _ hdist pos]
    · rename_i hl
      have hne := lookupPend_none pend hl
      have hall : pend.all (fun x => !(pos.isPrefixOf x.1)) = true := by
        rw [List.all_eq_true]
        intro x hx
        cases hpx : pos.isPrefixOf x.1 with
        | false => rfl
        | true =>
          have hp : pos <+: x.1 := List.isPrefixOf_iff_prefix.mp hpx
          have := hb x hx hp
          have : x.1 = pos := (List.IsPrefix.eq_of_length_le hp (by omega)).symm
          exact absurd this (hne x hx)
      rw [if_pos hall]
      -- no write below `pos`
      have hnow : under pos (subtrieOps ops) = [] := by
        apply List.filter_eq_nil_iff.mpr
        intro w hw hpw
        obtain ⟨x, hx, hxw⟩ := hcover w hw
        have hpw' : pos <+: w.1 := List.isPrefixOf_iff_prefix.mp hpw
        rcases Nat.le_total pos.length x.1.length with hle | hle
        · have := List.prefix_of_prefix_length_le hpw' hxw hle
          have h2 := List.all_eq_true.mp hall x hx
          rw [List.isPrefixOf_iff_prefix.mpr this] at h2; cases h2
        · have := List.prefix_of_prefix_length_le hxw hpw' hle
          exact hne x hx (hanc x hx this)
      rw [under_kvApply old hsorted _ hdist pos, hnow, kvApply_nil]
  | succ b ih =>
    intro pos hb hanc
    unfold composeAt
    split
    · rename_i n hl; exact hnode pos n (lookupPend_some pend hl)
    · rename_i s e hl
      rw [hsub pos s e (lookupPend_some pend hl), ← under_kvApply old hsorted _ hdist pos]
    · rename_i hl
      have hne := lookupPend_none pend hl
      split
      · rename_i hall
        have hnow : under pos (subtrieOps ops) = [] := by
          apply List.filter_eq_nil_iff.mpr
          intro w hw hpw
          obtain ⟨x, hx, hxw⟩ := hcover w hw
          have hpw' : pos <+: w.1 := List.isPrefixOf_iff_prefix.mp hpw
          rcases Nat.le_total pos.length x.1.length with hle | hle
          · have := List.prefix_of_prefix_length_le hpw' hxw hle
            have h2 := List.all_eq_true.mp hall x hx
            rw [List.isPrefixOf_iff_prefix.mpr this] at h2; cases h2
          · have := List.prefix_of_prefix_length_le hxw hpw' hle
            exact hne x hx (hanc x hx this)
        rw [under_kvApply old hsorted _ hdist pos, hnow, kvApply_nil]
      · rename_i hall
        -- some pending position lies strictly below `pos`
        obtain ⟨x, hx, hpx⟩ : ∃ x ∈ pend, pos.isPrefixOf x.1 = true := by
          have : ¬ ∀ x ∈ pend, (!(pos.isPrefixOf x.1)) = true := by rwa [← List.all_eq_true]
          apply Classical.byContradiction
          intro hcon
          apply this
          intro x hx
          cases hpx : pos.isPrefixOf x.1 with
          | false => rfl
          | true => exact absurd ⟨x, hx, hpx⟩ hcon
        have hp : pos <+: x.1 := List.isPrefixOf_iff_prefix.mp hpx
        have hlt : pos.length < L := by
          have h1 := hp.length_le
          have h2 := hdepth x hx
          rcases Nat.lt_or_ge pos.length x.1.length with h | h
          · omega
          · exact absurd (List.IsPrefix.eq_of_length_le hp h).symm (hne x hx)
        have hchild : ∀ bit, composeAt H L old ops pend b (pos ++ [bit]) =
            nodeAt H (L - (pos.length + 1)) (pos.length + 1) (under (pos ++ [bit]) (newSet old ops)) := by
          intro bit
          have := ih (pos ++ [bit])
            (by
              intro y hy hpy
              have := hb y hy (List.IsPrefix.trans (List.prefix_append pos [bit]) hpy)
              simp only [List.length_append, List.length_singleton]; omega)
            (by
              intro y hy hyp
              rcases List.prefix_concat_iff.mp hyp with e | h
              · exact e
              · exact absurd (hanc y hy h) (hne y hy))
          simpa using this
        simp only [hchild false, hchild true]
        have hnl := newSet_len L old ops hlen hsorted hopslen hops
        rw [under_concat L _ hnl pos false hlt, under_concat L _ hnl pos true hlt]
        have hsn : (newSet old ops).Pairwise KeyLt :=
          (kvApply_updatedSet (subtrieOps ops) old hsorted hdist).sorted
        have hc := canon_under L (newSet old ops) hnl hsn pos (by omega)
        have e : L - pos.length = (L - (pos.length + 1)) + 1 := by omega
        rw [e] at hc ⊢
        exact combine_nodeAt H hs _ _ _ hc

include hs hlen hsorted hopslen hops in
/-- **root composition**: the root the last worker reports is the root of the updated set -/
theorem composeRoot_spec
    (hnode : ∀ p n, (p, Pend.node n) ∈ pend → n = nodeAt H (L - p.length) p.length (under p (newSet old ops)))
    (hsub : ∀ p s e, (p, Pend.subtrie s e) ∈ pend → subtrieOps ((ops.drop s).take (e - s)) = under p (subtrieOps ops))
    (hcover : ∀ w ∈ subtrieOps ops, ∃ x ∈ pend, x.1 <+: w.1)
    (hdepth : ∀ x ∈ pend, x.1.length ≤ 6) (hL : 6 ≤ L) :
    composeRoot H L old ops pend = nodeAt H L 0 (kvApply old (subtrieOps ops)) := by
  have := composeAt_spec H hs L old hlen hsorted ops hopslen hops pend hnode hsub hcover
    (fun x hx => Nat.le_trans (hdepth x hx) hL) 6 []
    (by intro x hx _; simpa using hdepth x hx)
    (by intro x _ hp; exact List.prefix_nil.mp hp)
  have e : under [] (newSet old ops) = kvApply old (subtrieOps ops) := by
    unfold under newSet
    apply List.filter_eq_self.mpr
    intro a _; rfl
  rw [e] at this
  simpa [composeRoot] using this

end Compose

end Nomt.Split
