import NomtModel.Api.Locks2Lin
/-!
# Replay of a RECORDED execution in the two-lock LTS (conformance of real schedules)

The lock recorder (hook H19, `nomt/src/verif_hook.rs`) reports, from the real store running real threads, the
start of every API call and every micro-step at its lock site; the harness (`harness/src/lockrec.rs`) renders
the global log as lines

    call <tid> <api call …>        thread `tid` entered the call
    at   <tid> <µstep>             thread `tid` COMPLETED micro-step `µstep`

`replayLine` is what the driver mode `locks` executes for these two kinds of lines (the driver only parses and
prints): a `call` line must find the thread idle; an `at` line must name the thread's NEXT micro-step in the
model, that step must be ENABLED (not waiting for a lock) in the state reached by the recorded prefix, and is
then performed.  The answer is compared, line by line, with what the real code did (`ran`, or `finished` with
the result the real call returned).

`replay_sound`: a log all of whose lines are answered `started` / `ran` / `finished _` is a run of the LTS —
the final model state is `run ops (init db0)` of the recorded events, every recorded step was enabled —, so
the theorems about all interleavings (T15.5, T15.6) hold for THAT execution of the real code.
-/
namespace Nomt.Locks2

/-- the recorder's vocabulary of micro-step names -/
inductive IName where
  | aRead | aReadUnlock | aWrite1 | aWrite2 | aTryWrite | aWriteUnlock | mLock | mUnlock | sessRoot | sessBase | finChk | readRoot
  | sessRead | chkMarker | chkPoison | chkRoot | chkSeen | pubRoot | pubRb | logPush | logPop | store | storeRb | ret
deriving DecidableEq, Repr

def Instr.name {R W D : Type} : Instr R W D → IName
  | .aRead _ => .aRead | .aReadUnlock _ => .aReadUnlock | .aWrite1 => .aWrite1 | .aWrite2 => .aWrite2
  | .aTryWrite => .aTryWrite | .aWriteUnlock _ => .aWriteUnlock | .mLock => .mLock | .mUnlock => .mUnlock
  | .sessRoot _ => .sessRoot | .sessBase _ _ => .sessBase | .finChk _ => .finChk | .readRoot => .readRoot | .sessRead _ => .sessRead | .chkMarker _ => .chkMarker
  | .chkPoison => .chkPoison | .chkRoot _ => .chkRoot | .chkSeen => .chkSeen | .pubRoot _ _ => .pubRoot
  | .pubRb => .pubRb | .logPush _ _ => .logPush | .logPop _ => .logPop | .store _ _ => .store
  | .storeRb _ => .storeRb | .ret _ => .ret

/-- a line of a recorded log -/
inductive RLine (R W D : Type) where
  | call (t : Tid) (c : Call R W D)
  | at (t : Tid) (n : IName)
  /-- `try_write` of `t` failed while nobody held the lock and `u` was queued at it (`Event.spur`) -/
  | spur (t u : Tid)

/-- the model's answer to a line -/
inductive Ans where
  | started | ran | finished (r : Res)
  | misuse                       -- `call` on a thread that is inside a call
  | notCode                      -- `call` of the counterexample program
  | idle                         -- `at` on an idle thread
  | wrongStep (next : IName)     -- `at` names a micro-step that is not the thread's next one
  | blocked                      -- the recorded step is not enabled in the model
deriving DecidableEq, Repr

def Ans.ok : Ans → Bool
  | .started | .ran | .finished _ => true
  | _ => false

def RLine.event {R W D : Type} : RLine R W D → Event R W D
  | .call t c => .call t c
  | .at t _ => .step t
  | .spur t u => .spur t u

section
variable {C R W D : Type} [DecidableEq R] (ops : DbOps C R W D)

/-- what the model does with one recorded line -/
def replayLine (s : S C R W D) : RLine R W D → S C R W D × Ans
  | .call t c =>
    if c.isCode = false then (s, .notCode)
    else if (s.thr t).prog.isEmpty then ((next ops s (.call t c)).1, .started)
    else (s, .misuse)
  | .at t n =>
    match (s.thr t).prog with
    | [] => (s, .idle)
    | i :: _ =>
      if i.name ≠ n then (s, .wrongStep i.name)
      else if blocked s t then (s, .blocked)
      else
        match next ops s (.step t) with
        | (s', .finished r) => (s', .finished r)
        | (s', _) => (s', .ran)
  | .spur t u =>
    match next ops s (.spur t u) with
    | (s', .finished r) => (s', .finished r)
    | _ => (s, .misuse)

/-- the whole log: final state and the answers, line by line -/
def replay (s : S C R W D) : List (RLine R W D) → S C R W D × List Ans
  | [] => (s, [])
  | l :: rest =>
    let r := replayLine ops s l
    let rr := replay r.1 rest
    (rr.1, r.2 :: rr.2)

/-- every line was answered `started` / `ran` / `finished _` -/
def accepted (as : List Ans) : Bool := as.all Ans.ok

/-- what a recorded observation step sees (`sess_root`, `read_root`: the published root; `sess_read`: the
committed content), evaluated BEFORE the step is performed -/
inductive Obs (C R : Type) where
  | none | root (r : R) | content (c : C)

def stepObs (s : S C R W D) (t : Tid) : Obs C R :=
  match (s.thr t).prog with
  | .sessRoot _ :: _ => .root s.db.root
  | .sessBase _ _ :: _ => .root s.db.root
  | .readRoot :: _ => .root s.db.root
  | .sessRead _ :: _ => .content s.db.content
  | _ => .none

/-- the events of a list are performed from `s` without a blocked or idle `step` and without a `call` on a busy
thread: a run in which every recorded micro-step was enabled -/
def Enabled (s : S C R W D) : List (Event R W D) → Prop
  | [] => True
  | e :: rest =>
    (match e with
      | .call t c => c.isCode = true ∧ (s.thr t).prog = []
      | .step t => (s.thr t).prog ≠ [] ∧ blocked s t = false
      | .spur t u => (∃ rest, (s.thr t).prog = .aTryWrite :: rest) ∧ u ≠ t ∧ isQueued (s.thr u).prog = true) ∧
    Enabled (next ops s e).1 rest

theorem replayLine_ok (s : S C R W D) (l : RLine R W D) (h : (replayLine ops s l).2.ok = true) :
    (replayLine ops s l).1 = (next ops s l.event).1 ∧
    (match l.event with
      | .call t c => c.isCode = true ∧ (s.thr t).prog = []
      | .step t => (s.thr t).prog ≠ [] ∧ blocked s t = false
      | .spur t u => (∃ rest, (s.thr t).prog = .aTryWrite :: rest) ∧ u ≠ t ∧ isQueued (s.thr u).prog = true) := by
  cases l with
  | spur t u =>
    simp only [replayLine, RLine.event, next] at h ⊢
    cases hp : (s.thr t).prog with
    | nil => simp [hp, Ans.ok] at h
    | cons i rest =>
      by_cases hc : u ≠ t ∧ isQueued (s.thr u).prog = true
      · cases i <;> simp [hp, hc, Ans.ok] at h ⊢
      · cases i <;> simp [hp, hc, Ans.ok] at h
  | call t c =>
    simp only [replayLine] at h ⊢
    by_cases hc : c.isCode = false
    · simp [hc, Ans.ok] at h
    · simp only [hc, if_false] at h ⊢
      by_cases hi : (s.thr t).prog.isEmpty = true
      · simp only [hi, if_true, RLine.event]
        exact ⟨rfl, by simpa using hc, by simpa using hi⟩
      · simp [hi, Ans.ok] at h
  | «at» t n =>
    simp only [replayLine, RLine.event] at h ⊢
    cases hp : (s.thr t).prog with
    | nil => simp [hp, Ans.ok] at h
    | cons i rest =>
      simp only [hp] at h ⊢
      by_cases hn : i.name ≠ n
      · simp [hn, Ans.ok] at h
      · simp only [hn, if_false] at h ⊢
        cases hb : blocked s t with
        | true => simp [hb, Ans.ok] at h
        | false =>
          simp only [Bool.false_eq_true, if_false]
          refine ⟨?_, by simp, trivial⟩
          cases hx : next ops s (.step t) with
          | mk s' r => cases r <;> rfl

/-- **soundness of the replay**: an accepted log is a run of the LTS, every recorded micro-step enabled where it
was performed -/
theorem replay_sound (s : S C R W D) (ls : List (RLine R W D)) (h : accepted (replay ops s ls).2 = true) :
    (replay ops s ls).1 = run ops s (ls.map RLine.event) ∧
    (∀ e ∈ ls.map RLine.event, e.isCode = true) ∧
    Enabled ops s (ls.map RLine.event) := by
  induction ls generalizing s with
  | nil => exact ⟨rfl, by simp, trivial⟩
  | cons l rest ih =>
    simp only [replay, accepted, List.all_cons, Bool.and_eq_true] at h
    obtain ⟨h1, h2⟩ := h
    obtain ⟨hs, hen⟩ := replayLine_ok ops s l h1
    obtain ⟨ih1, ih2, ih3⟩ := ih (replayLine ops s l).1 h2
    rw [hs] at ih1 ih3
    refine ⟨?_, ?_, ?_⟩
    · simp only [replay, List.map_cons]; rw [hs]; exact ih1
    · intro e he
      simp only [List.map_cons, List.mem_cons] at he
      rcases he with rfl | he
      · cases l with
        | call t c => exact hen.1
        | «at» t n => rfl
        | spur t u => rfl
      · exact ih2 e he
    · simp only [List.map_cons, Enabled]
      exact ⟨hen, ih3⟩

/-- the answer to an accepted `at` line is the LTS's own step result -/
theorem replayLine_at_answer (s : S C R W D) (t : Tid) (n : IName)
    (h : (replayLine ops s (.at t n)).2.ok = true) :
    ((replayLine ops s (.at t n)).2 = .ran ∧ ∀ r, (next ops s (.step t)).2 ≠ .finished r) ∨
    (∃ r, (replayLine ops s (.at t n)).2 = .finished r ∧ (next ops s (.step t)).2 = .finished r) := by
  simp only [replayLine] at h ⊢
  cases hp : (s.thr t).prog with
  | nil => simp [hp, Ans.ok] at h
  | cons i rest =>
    simp only [hp] at h ⊢
    by_cases hn : i.name ≠ n
    · simp [hn, Ans.ok] at h
    · simp only [hn, if_false] at h ⊢
      cases hb : blocked s t with
      | true => simp [hb, Ans.ok] at h
      | false =>
        simp only [Bool.false_eq_true, if_false]
        cases hx : next ops s (.step t) with
        | mk s' r => cases r <;> simp

/-! ### the verdict of a write section is what the call returns -/

/-- wherever a continuation releases the write guard with verdict `r`, all that is left is `ret r` -/
def Vd {R W D : Type} : List (Instr R W D) → Bool
  | [] => true
  | .aWriteUnlock r :: rest => (match rest with | [.ret r'] => r == r' | _ => false)
  | _ :: rest => Vd rest

theorem vd_progOf {R W D : Type} (c : Call R W D) : Vd (progOf c) = true := by
  cases c with
  | rollback n io => by_cases hn : n = 0 <;> simp [progOf, hn, Vd]
  | _ => simp [progOf, Vd]

theorem vd_unwind {R W D : Type} (hm : Bool) (r : Res) : Vd (unwind hm r : List (Instr R W D)) = true := by
  cases hm <;> simp [unwind, Vd]

theorem vd_tail {R W D : Type} (i : Instr R W D) (rest : List (Instr R W D)) (h : Vd (i :: rest) = true) :
    Vd rest = true := by
  cases i with
  | aWriteUnlock r =>
    simp only [Vd] at h
    split at h
    · simp [Vd]
    · cases h
  | _ => simpa [Vd] using h

theorem vd_head {R W D : Type} (r : Res) (rest : List (Instr R W D)) (h : Vd (.aWriteUnlock r :: rest) = true) :
    rest = [.ret r] := by
  simp only [Vd] at h
  split at h
  · rename_i r' ; simp only [beq_iff_eq] at h; subst h; rfl
  · cases h

/-- what a micro-step does to the continuation of the thread that performs it -/
theorem exec_prog_cases (s : S C R W D) (t : Tid) (i : Instr R W D) (rest : List (Instr R W D))
    (hp : (s.thr t).prog = i :: rest) :
    let p := ((exec ops s t i rest).1.thr t).prog
    p = i :: rest ∨ p = rest ∨ p = [] ∨ (∃ hm r, p = unwind hm r) ∨
      ∃ sid, p = [.aReadUnlock sid, .ret .errSuperseded] := by
  intro p
  by_cases hi : i.isEff = true
  · have hx := exec_isEff ops s t i rest hi
    simp only [p, hx]
    cases eff ops i (s.thr t).regs s.db with
    | cont rg db => right; left; simp
    | stop r db =>
      simp only
      split
      · right; right; right; left; exact ⟨(s.m == some t), r, by simp⟩
      · right; right; left; simp [abort]
  · cases i <;> simp [Instr.isEff] at hi <;> simp only [p, exec]
    · split
      · left; exact hp
      · right; left; simp
    · right; left; simp
    · split
      · left; exact hp
      · right; left; simp
    · split
      · left; exact hp
      · right; left; simp
    · split
      · right; right; left; simp [abort]
      · right; left; simp
    · right; left; simp
    · split
      · left; exact hp
      · right; left; simp
    · right; left; simp
    · right; left; simp
    · right; left; simp
    · rename_i sid
      split
      · right; right; right; right; exact ⟨sid, by simp⟩
      · right; left; simp
    · right; right; left; simp

theorem exec_thr_other (s : S C R W D) (t u : Tid) (i : Instr R W D) (rest : List (Instr R W D)) (hu : u ≠ t) :
    (exec ops s t i rest).1.thr u = s.thr u := by
  by_cases hi : i.isEff = true
  · rw [exec_isEff ops s t i rest hi]
    split
    · simp [upd_other _ _ _ _ hu]
    · split <;> simp [abort, upd_other _ _ _ _ hu]
  · cases i <;> simp [Instr.isEff] at hi <;> simp only [exec] <;> (try split) <;>
      simp [abort, upd_other _ _ _ _ hu]

/-- in every state reached by the code's calls every continuation satisfies `Vd` -/
theorem vd_next (s : S C R W D) (e : Event R W D) (h : ∀ t, Vd (s.thr t).prog = true) :
    ∀ t, Vd ((next ops s e).1.thr t).prog = true := by
  intro u
  cases e with
  | call t c =>
    simp only [next]
    split
    · by_cases hu : u = t
      · subst hu; simp only [upd_same]; exact vd_progOf c
      · simp only [upd_other _ _ _ _ hu]; exact h u
    · exact h u
  | step t =>
    simp only [next]
    cases hp : (s.thr t).prog with
    | nil => exact h u
    | cons i rest =>
      simp only
      by_cases hu : u = t
      · subst hu
        have hv := h u
        rw [hp] at hv
        rcases exec_prog_cases ops s u i rest hp with e | e | e | ⟨hm, r, e⟩ | ⟨sid, e⟩ <;> rw [e]
        · exact hv
        · exact vd_tail i rest hv
        · rfl
        · exact vd_unwind hm r
        · rfl
      · rw [exec_thr_other ops s t u i rest hu]; exact h u
  | spur t v =>
    simp only [next]
    split
    · split
      · by_cases hu : u = t
        · subst hu; simp [abort, Vd]
        · simp only [abort, upd_other _ _ _ _ hu]; exact h u
      · exact h u
    · exact h u

theorem vd_run (evs : List (Event R W D)) (s : S C R W D) (h : ∀ t, Vd (s.thr t).prog = true) :
    ∀ t, Vd ((run ops s evs).thr t).prog = true := by
  induction evs generalizing s with
  | nil => exact h
  | cons e rest ih => exact ih _ (vd_next ops s e h)

end

end Nomt.Locks2
