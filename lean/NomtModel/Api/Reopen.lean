import NomtModel.Api.ExecLemmas
/-!
Closing and reopening in the API model: every in-memory object of the old handle (sessions, finished
sessions, overlay handles) is gone; the committed state — values, root, rollback log, sequence number —
is what `Store::open` rebuilds from the directory (C03/C04 say what the directory holds).
-/
namespace Nomt.Api
variable {Node VH : Type} [DecidableEq Node] [DecidableEq VH]

def reopen (s : St Node VH) : St Node VH :=
  { s with sess := [], fins := [], ovs := s.ovs.map (fun o => { o with held := false }), lastMarker := none }

end Nomt.Api
