import NomtModel.Api.Locks2Dead
/-!
# Three-resource LTS: access lock, `shared`, and the beatree READ-TRANSACTION COUNTER

`Api/Locks2*.lean` is the LTS of the API calls over the access lock **A** and the mutex **M**; its `store` micro-step
(`Store::commit`) never waits.  In the code it does: `Store::commit → Sync::sync → beatree SyncController::begin_sync →
Tree::prepare_sync → ReadTransactionCounter::block_until_zero` parks the committing thread until EVERY
`beatree::ReadTransaction` is dropped (`Api/BtTree*.lean`, unit Q32, models that tree).  This file adds the counter as a
third resource on top of the unchanged `Locks2` semantics:

* state `S3 = Locks2.S × rt × pend`: `rt` = the open read transactions `(thread, session id)`; `pend t` = the
  read-transaction micro-steps thread `t` performs BEFORE its next lock micro-step (they never wait);
* `rtBegin` / `rtDrop` micro-steps (event `.rt t`) at the places of the CURRENT source (`rtAtCall`, `rtAfter`):
  - `Nomt::begin_session`: after `RwLock::read_arc(&access_lock)` the rollback delta builder
    (`Rollback::delta_builder` → `StoreLoadValueAsync::new` → `store.read_transaction()`) and the merkle updater
    (`UpdatePool::begin` → `store.read_transaction()`, + its warm-up workers) open read transactions — both are queued
    right after the guard (the updater's is opened after `self.root()`, an M section that cannot wait for the counter;
    placing it earlier only adds wait edges);
  - `Session::finish`: `delta_builder.finalize`, `update_and_prove … join` drop them (`rtDrop` after the `finChk`
    micro-step), then the struct is dropped; drop of a `Session`: fields in declaration order — `merkle_updater`,
    `rollback_delta` BEFORE `access_guard` (the comment in `struct Session` says so) — `rtDrop` queued at the call;
    whatever the session still holds is dropped together with the guard (`aReadUnlock` removes the session's entries:
    the read transactions are fields of the struct that owns the guard);
  - `Nomt::read` → `Store::load_value` → `Tree::lookup`: no read transaction (it takes `shared.read()` directly);
  - `Nomt::rollback`: the inner `begin_session` (no guard, no delta) opens the updater's read transaction after
    `self.root()` and `finish` drops it before the inner `commit`: `[rtBegin, rtDrop]` after that M section;
* the writer's wait: a thread whose head micro-step is `store` / `storeRb` is BLOCKED while `rt ≠ []`.

Variant `deltaFirst` = the seeded order (delta builder ABOVE the read guard): `rtBegin` is queued at the call, before
`aRead`.  `Props/C15_Locks3.lean`: `T15_9_deadlock_free_with_rt_counter` (code order) and the kernel-checked deadlock of
the variant.
-/
namespace Nomt.Locks3
open Nomt.Locks2

/-- read-transaction micro-steps -/
inductive RtI where
  | rtBegin (sid : Nat)                   -- `store.read_transaction()` on behalf of session `sid`
  | rtDrop (sid : Nat)                    -- drop of the read transactions of session `sid`
deriving DecidableEq, Repr

inductive Variant where
  | code                                  -- the current `begin_session`: read guard, then delta builder, then updater
  | deltaFirst                            -- seeded: delta builder (a read transaction) BEFORE the read guard
deriving DecidableEq, Repr

/-- the session id of the session `Nomt::rollback` runs inside its write guard -/
def rbSid : Nat := 0

structure S3 (C R W D : Type) where
  l2 : S C R W D
  rt : List (Tid × Nat) := []             -- open read transactions: owner thread, session
  pend : Tid → List RtI := fun _ => []    -- rt micro-steps to do before the thread's next lock micro-step

inductive Event3 (R W D : Type) where
  | l2 (e : Event R W D)
  | rt (t : Tid)

section Sem
variable {C R W D : Type} [DecidableEq R] (ops : DbOps C R W D)

/-- rt micro-steps queued when the call starts -/
def rtAtCall (v : Variant) : Call R W D → List RtI
  | .endSession sid => [.rtDrop sid]
  | .beginSession sid => if v = .deltaFirst then [.rtBegin sid] else []
  | .beginSessionOv sid _ => if v = .deltaFirst then [.rtBegin sid] else []
  | _ => []

/-- rt micro-steps queued after micro-step `i` was performed, `rest` = what the call still has to do -/
def rtAfter (v : Variant) : Instr R W D → List (Instr R W D) → List RtI
  | .aRead sid, .mLock :: _ =>            -- `begin_session` (in `Nomt::read` the next step is the read itself)
    if v = .deltaFirst then [.rtBegin sid] else [.rtBegin sid, .rtBegin sid]
  | .finChk sid, _ => [.rtDrop sid]
  | .mUnlock, .chkPoison :: _ => [.rtBegin rbSid, .rtDrop rbSid]   -- `rollback`: inner session, finished before its commit
  | _, _ => []

def atStore : List (Instr R W D) → Bool
  | .store _ _ :: _ => true
  | .storeRb _ :: _ => true
  | _ => false

def isUnlockOf (sid : Nat) : Instr R W D → Bool
  | .aReadUnlock s => s == sid
  | _ => false

def dropRt (rt : List (Tid × Nat)) (t : Tid) (sid : Nat) : List (Tid × Nat) :=
  rt.filter (fun x => !(x.1 == t && x.2 == sid))

/-- the session's read transactions are fields of the struct that owns the guard: they are gone when the guard is -/
def rtOnStep (rt : List (Tid × Nat)) (t : Tid) : Instr R W D → List (Tid × Nat)
  | .aReadUnlock sid => dropRt rt t sid
  | _ => rt

def rtStep (s : S3 C R W D) (t : Tid) : S3 C R W D × StepRes :=
  match s.pend t with
  | [] => (s, .idle)
  | .rtBegin sid :: q => ({ s with rt := (t, sid) :: s.rt, pend := upd s.pend t q }, .ran)
  | .rtDrop sid :: q => ({ s with rt := dropRt s.rt t sid, pend := upd s.pend t q }, .ran)

def next3 (v : Variant) (s : S3 C R W D) : Event3 R W D → S3 C R W D × StepRes
  | .rt t => rtStep s t
  | .l2 (.call t c) =>
    if s.pend t ≠ [] then (s, .misuse)
    else if (s.l2.thr t).prog.isEmpty then
      ({ s with l2 := (next ops s.l2 (.call t c)).1, pend := upd s.pend t (rtAtCall v c) }, .started)
    else (s, .misuse)
  | .l2 (.step t) =>
    if s.pend t ≠ [] then (s, .misuse)       -- the queued rt micro-steps come first
    else
      match (s.l2.thr t).prog with
      | [] => (s, .idle)
      | i :: rest =>
        if atStore (i :: rest) && !s.rt.isEmpty then (s, .blocked)      -- `block_until_zero`
        else
          let r := next ops s.l2 (.step t)
          if r.2 = .blocked then (s, .blocked)
          else
            ({ l2 := r.1
               rt := rtOnStep s.rt t i
               pend := upd s.pend t (rtAfter v i rest) }, r.2)
  | .l2 (.spur t u) => ({ s with l2 := (next ops s.l2 (.spur t u)).1 }, (next ops s.l2 (.spur t u)).2)

def run3 (v : Variant) (s : S3 C R W D) (evs : List (Event3 R W D)) : S3 C R W D :=
  evs.foldl (fun s e => (next3 ops v s e).1) s

def init3 (db : Db C R D) : S3 C R W D := { l2 := init db }

/-! ### waiting -/

def blocked3 (s : S3 C R W D) (t : Tid) : Bool :=
  (s.pend t).isEmpty && (blocked s.l2 t || (atStore (s.l2.thr t).prog && !s.rt.isEmpty))

/-- `t` waits for a resource `u` holds: a lock (as in `Locks2`), or — the writer inside `store.commit` — a read
transaction -/
def WaitsFor3 (s : S3 C R W D) (t u : Tid) : Prop :=
  s.pend t = [] ∧ (WaitsFor s.l2 t u ∨ (atStore (s.l2.thr t).prog = true ∧ ∃ sid, (u, sid) ∈ s.rt))

/-- 0 = can move; 1 = the writer on the counter; 2·(rank of `Locks2`) otherwise -/
def rank3 (s : S3 C R W D) (t : Tid) : Nat :=
  if s.pend t ≠ [] then 0
  else if atStore (s.l2.thr t).prog && !s.rt.isEmpty then 1
  else 2 * rank s.l2 t

inductive WaitPath3 (s : S3 C R W D) : Tid → Tid → Prop where
  | one {t u : Tid} : blocked3 s t = true → WaitsFor3 s t u → WaitPath3 s t u
  | cons {t u v : Tid} : blocked3 s t = true → WaitsFor3 s t u → WaitPath3 s u v → WaitPath3 s t v

/-- `u` can move: not blocked, and it has something to do (a queued rt micro-step, a call in progress) or is an
idle session owner (who can end the session) -/
def CanMove3 (s : S3 C R W D) (u : Tid) : Prop :=
  blocked3 s u = false ∧ (s.pend u ≠ [] ∨ (s.l2.thr u).prog ≠ [] ∨ holdsSession s.l2 u = true)

/-! ### the invariant: a read transaction is held only under the access read guard, or transiently -/

def hasReader (s : S C R W D) (u : Tid) (sid : Nat) : Bool :=
  s.readers.any (fun x => x.owner == u && x.sid == sid)

/-- every queued `rtBegin sid` happens under the read guard of session `sid`, or its drop is queued behind it -/
def pendOk (hr : Nat → Bool) : List RtI → Prop
  | [] => True
  | .rtBegin sid :: q => (hr sid = true ∨ RtI.rtDrop sid ∈ q) ∧ pendOk hr q
  | .rtDrop _ :: q => pendOk hr q

structure RtInv (s : S3 C R W D) : Prop where
  /-- **a thread holds a read transaction only while it holds the access read guard of that session** — or
  (the writer's own inner session) its drop is already queued before the thread's next lock micro-step -/
  held : ∀ u sid, (u, sid) ∈ s.rt → hasReader s.l2 u sid = true ∨ RtI.rtDrop sid ∈ s.pend u
  pend : ∀ t, pendOk (hasReader s.l2 t) (s.pend t)

def okEvent (s : S3 C R W D) : Event3 R W D → Prop
  | .l2 e => e.isCode = true ∧ discEvent s.l2 e = true
  | .rt _ => True

/-- a trace of code calls respecting the caller discipline of T15.7 -/
def Good3 (v : Variant) (s : S3 C R W D) : List (Event3 R W D) → Prop
  | [] => True
  | e :: rest => okEvent s e ∧ Good3 v (next3 ops v s e).1 rest

end Sem
end Nomt.Locks3
