/-!
Labelled transition system of the reader / writer protocol of `nomt/src/lib.rs`: sessions take the
`access_lock` for reading at `begin_session` and release it when dropped / finished; `commit`,
`Overlay::commit` and `rollback` take it for writing (the non-blocking variants use `try_write` and hand
the changeset back when it is not available); under the write guard the changeset's base root is compared
with the current root and, if equal, the new root is published.

The committed state is abstracted to a version number (one per root); threads are natural numbers.
-/
namespace Nomt.Locks

abbrev Tid := Nat

structure LState where
  readers : List (Tid × Nat) := []     -- live sessions with the version they started from
  writer : Option Tid := none          -- holder of the write guard
  version : Nat := 0                   -- current committed version
  wins : List (Nat × Nat) := []        -- successful commits, newest first: (base version, new version)

inductive Act where
  | beginSession (t : Tid)             -- `begin_session`: read-lock (blocks while a writer holds the lock)
  | endSession (t : Tid)               -- session dropped / finished
  | acquireWrite (t : Tid)             -- `commit` / `rollback`: write-lock (blocks while anybody holds the lock)
  | tryWrite (t : Tid)                 -- `try_commit_nonblocking`: `try_write`
  | commitUnder (t : Tid) (base : Nat) -- under the write guard: compare base, publish new version
  | releaseWrite (t : Tid)
deriving Repr

inductive Outcome where | done | blocked | busy | accepted | rejected
deriving DecidableEq, Repr

def step (s : LState) : Act → LState × Outcome
  | .beginSession t =>
    if s.writer.isSome then (s, .blocked) else ({ s with readers := (t, s.version) :: s.readers }, .done)
  | .endSession t => ({ s with readers := s.readers.filter (·.1 != t) }, .done)
  | .acquireWrite t =>
    if s.writer.isSome || !s.readers.isEmpty then (s, .blocked) else ({ s with writer := some t }, .done)
  | .tryWrite t =>
    if s.writer.isSome || !s.readers.isEmpty then (s, .busy) else ({ s with writer := some t }, .done)
  | .commitUnder t base =>
    if s.writer != some t then (s, .blocked)
    else if base != s.version then (s, .rejected)
    else ({ s with version := s.version + 1, wins := (base, s.version + 1) :: s.wins }, .accepted)
  | .releaseWrite t => if s.writer == some t then ({ s with writer := none }, .done) else (s, .blocked)

def run (s : LState) (acts : List Act) : LState := acts.foldl (fun s a => (step s a).1) s

/-- the winners, newest first, form a chain down to version 0, each commit advancing the version by one -/
def ChainTo : Nat → List (Nat × Nat) → Prop
  | v, [] => v = 0
  | v, (b, n) :: rest => n = v ∧ n = b + 1 ∧ ChainTo b rest

/-- the invariant of every reachable state -/
structure Inv (s : LState) : Prop where
  excl : s.writer.isSome → s.readers = []                 -- writer excludes all sessions
  snap : ∀ r ∈ s.readers, r.2 = s.version                  -- every live session started from the current version
  chain : ChainTo s.version s.wins

end Nomt.Locks
