import NomtModel.Api.Split
import NomtModel.Props.C13
/-!
The index ranges of the commit workers (`RangeUpdater::new`): bit-level facts about the key-path bounds of a
region, and the consequence the work splitting rests on — the ranges of the workers `0 … n-1` are CONSECUTIVE and
cover the whole operation list, for every worker count `1 … 64` (from T13.1, the region table).

* `lt_minKeyPath` / `maxKeyPath_lt` — comparing a key with the minimal / maximal key path of a root child is
  comparing its first six bits with the child index;
* `rangeEnd_eq_next` — `range_end` of worker `i` is `range_start` of worker `i+1`; `rangeStart_zero`,
  `rangeEnd_last`; `rangeStart_le_rangeEnd`;
* (`range_spec`, in `SplitPending.lean`) — on a key-sorted list, the operations in `[range_start, range_end)` have their first six
  bits in the worker's region.
-/
namespace Nomt.Split
open Nomt Nomt.Api

/-! ### bit strings as numbers -/

theorem bitsNat_lt : ∀ (l : List Bool), bitsNat l < 2 ^ l.length
  | [] => by simp [bitsNat]
  | b :: rest => by
    have := bitsNat_lt rest
    simp only [bitsNat, List.length_cons, Nat.pow_succ]
    cases b <;> simp <;> omega

theorem bitsLt_eq_nat : ∀ (a b : List Bool), a.length = b.length → bitsLt a b = decide (bitsNat a < bitsNat b)
  | [], [], _ => by simp [bitsLt, bitsNat]
  | [], _ :: _, h => by simp at h
  | _ :: _, [], h => by simp at h
  | x :: as, y :: bs, h => by
    have hl : as.length = bs.length := by simpa using h
    have ih := bitsLt_eq_nat as bs hl
    have la := bitsNat_lt as
    have lb := bitsNat_lt bs
    rw [hl] at la
    simp only [bitsLt, bitsNat, hl]
    cases x <;> cases y <;> simp [ih] <;> omega

theorem bitsNat_inj : ∀ (a b : List Bool), a.length = b.length → bitsNat a = bitsNat b → a = b
  | [], [], _, _ => rfl
  | [], _ :: _, h, _ => by simp at h
  | _ :: _, [], h, _ => by simp at h
  | x :: as, y :: bs, h, e => by
    have hl : as.length = bs.length := by simpa using h
    have la := bitsNat_lt as
    have lb := bitsNat_lt bs
    rw [hl] at la
    simp only [bitsNat, hl] at e
    cases x <;> cases y <;> simp at e ⊢
    · exact bitsNat_inj as bs hl e
    · omega
    · omega
    · exact bitsNat_inj as bs hl e

theorem bitsLt_append : ∀ (a b r s : List Bool), a.length = b.length →
    bitsLt (a ++ r) (b ++ s) = if a = b then bitsLt r s else bitsLt a b
  | [], [], r, s, _ => by simp
  | [], _ :: _, _, _, h => by simp at h
  | _ :: _, [], _, _, h => by simp at h
  | x :: as, y :: bs, r, s, h => by
    have hl : as.length = bs.length := by simpa using h
    have ih := bitsLt_append as bs r s hl
    simp only [List.cons_append, bitsLt]
    by_cases hxy : x = y
    · subst hxy
      simp only [BEq.rfl, if_true, ih, List.cons.injEq, true_and]
    · have : (x == y) = false := by simpa using hxy
      simp [this, hxy]

theorem bitsLt_zeros : ∀ (r : List Bool), bitsLt r (List.replicate r.length false) = false
  | [] => by simp [bitsLt]
  | x :: rest => by
    have := bitsLt_zeros rest
    cases x <;> simp [bitsLt, List.replicate_succ, this]

theorem ones_bitsLt : ∀ (r : List Bool), bitsLt (List.replicate r.length true) r = false
  | [] => by simp [bitsLt]
  | x :: rest => by
    have := ones_bitsLt rest
    cases x <;> simp [bitsLt, List.replicate_succ, this]

theorem bitsNat_childBits : ∀ c, c < 64 → bitsNat (childBits c) = c := by decide

theorem childBits_length (c : Nat) : (childBits c).length = 6 := by simp [childBits]

theorem childOf_lt (k : List Bool) : childOf k < 64 := by
  have := bitsNat_lt (k.take 6)
  have h6 : (k.take 6).length ≤ 6 := by simp; omega
  have : 2 ^ (k.take 6).length ≤ 2 ^ 6 := Nat.pow_le_pow_right (by omega) h6
  simp only [childOf]; omega

/-- `key < min_key_path(child c)` iff the key's root child is below `c` -/
theorem lt_minKeyPath (L c : Nat) (k : Key) (hk : k.length = L) (hL : 6 ≤ L) (hc : c < 64) :
    bitsLt k (minKeyPath L c) = decide (childOf k < c) := by
  have hsplit : k = k.take 6 ++ k.drop 6 := (List.take_append_drop 6 k).symm
  have hlen : (k.take 6).length = (childBits c).length := by simp [childBits_length]; omega
  have hr : (k.drop 6).length = L - 6 := by simp [hk]
  rw [hsplit, minKeyPath, bitsLt_append _ _ _ _ hlen, ← hr, bitsLt_zeros]
  simp only [List.take_append_drop]
  split
  · rename_i he
    have : childOf k = c := by simp only [childOf, he]; exact bitsNat_childBits c hc
    simp [this]
  · rw [bitsLt_eq_nat _ _ hlen, bitsNat_childBits c hc]; rfl

/-- `max_key_path(child c) < key` iff the key's root child is above `c` -/
theorem maxKeyPath_lt (L c : Nat) (k : Key) (hk : k.length = L) (hL : 6 ≤ L) (hc : c < 64) :
    bitsLt (maxKeyPath L c) k = decide (c < childOf k) := by
  have hsplit : k = k.take 6 ++ k.drop 6 := (List.take_append_drop 6 k).symm
  have hlen : (childBits c).length = (k.take 6).length := by simp [childBits_length]; omega
  have hr : (k.drop 6).length = L - 6 := by simp [hk]
  rw [hsplit, maxKeyPath, bitsLt_append _ _ _ _ hlen, ← hr, ones_bitsLt]
  simp only [List.take_append_drop]
  split
  · rename_i he
    have : childOf k = c := by simp only [childOf, ← he]; exact bitsNat_childBits c hc
    simp [this]
  · rw [bitsLt_eq_nat _ _ hlen, bitsNat_childBits c hc]; rfl

/-! ### the region table -/

theorem region_facts (n : Nat) (h1 : 1 ≤ n) (h64 : n ≤ 64) :
    firstChild n 0 = 0 ∧ lastChild n (n-1) = 63 ∧
    (∀ i, i < n → firstChild n i ≤ lastChild n i ∧ lastChild n i < 64) ∧
    (∀ i, i + 1 < n → firstChild n (i+1) = lastChild n i + 1) := by
  have h := C13.T13_1_shards_partition n h1 h64
  simp only [Shards.okFor, Bool.and_eq_true, List.all_eq_true, List.mem_range, decide_eq_true_eq] at h
  obtain ⟨⟨_, hreg⟩, hlast⟩ := h
  have hsum : ∀ i, i < n → (Shards.region n i).1 + (Shards.region n i).2 ≤ 64 := by
    intro i hi
    -- starts are increasing and the last region ends at 64
    have key : ∀ d, i + d < n → (Shards.region n i).1 + (Shards.region n i).2 ≤
        (Shards.region n (i+d)).1 + (Shards.region n (i+d)).2 := by
      intro d
      induction d with
      | zero => intro _; exact Nat.le_refl _
      | succ d ih =>
        intro hd
        have h1 := ih (by omega)
        have h2 := (hreg (i+d+1) (by omega)).2
        have h3 := (hreg (i+d+1) (by omega)).1
        simp only [Nat.add_one_ne_zero, if_false, Nat.add_sub_cancel] at h2
        have e : i + (d + 1) = i + d + 1 := by omega
        rw [e]; omega
    have := key (n - 1 - i) (by omega)
    have e : i + (n - 1 - i) = n - 1 := by omega
    rw [e, hlast] at this
    exact this
  refine ⟨?_, ?_, ?_, ?_⟩
  · have := (hreg 0 (by omega)).2
    simpa [firstChild] using this
  · simp only [lastChild, Shards.numChildren] at hlast ⊢; omega
  · intro i hi
    have h0 := (hreg i hi).1
    have := hsum i hi
    simp only [firstChild, lastChild]; omega
  · intro i hi
    have h2 := (hreg (i+1) hi).2
    have h0 := (hreg i (by omega)).1
    simp only [Nat.add_one_ne_zero, if_false, Nat.add_sub_cancel] at h2
    simp only [firstChild, lastChild]; omega

/-! ### consecutive ranges -/
section Ranges
variable {VH : Type}

theorem takeWhile_congr_mem {β : Type} (p q : β → Bool) : ∀ (l : List β), (∀ x ∈ l, p x = q x) →
    l.takeWhile p = l.takeWhile q
  | [], _ => rfl
  | x :: rest, h => by
    have hx := h x List.mem_cons_self
    have := takeWhile_congr_mem p q rest (fun y hy => h y (List.mem_cons_of_mem _ hy))
    simp [List.takeWhile_cons, hx, this]

theorem takeWhile_all {β : Type} (p : β → Bool) : ∀ (l : List β), (∀ x ∈ l, p x = true) → l.takeWhile p = l
  | [], _ => rfl
  | x :: rest, h => by
    simp [List.takeWhile_cons, h x List.mem_cons_self,
      takeWhile_all p rest (fun y hy => h y (List.mem_cons_of_mem _ hy))]

theorem takeWhile_length_mono {β : Type} (p q : β → Bool) : ∀ (l : List β), (∀ x ∈ l, p x = true → q x = true) →
    (l.takeWhile p).length ≤ (l.takeWhile q).length
  | [], _ => Nat.le_refl _
  | x :: rest, h => by
    have ih := takeWhile_length_mono p q rest (fun y hy => h y (List.mem_cons_of_mem _ hy))
    simp only [List.takeWhile_cons]
    cases hp : p x with
    | false => simp
    | true =>
      have := h x List.mem_cons_self hp
      simp [this]; omega

variable (L n : Nat) (ops : List (Op VH)) (hlen : ∀ o ∈ ops, o.1.length = L) (hL : 6 ≤ L)
  (h1 : 1 ≤ n) (h64 : n ≤ 64)
include hlen hL h1 h64

/-- `range_start` as a count of the root child -/
theorem rangeStart_eq (i : Nat) (hi : i < n) :
    rangeStart L n i ops = (ops.takeWhile (fun o => decide (childOf o.1 < firstChild n i))).length := by
  have hf := (region_facts n h1 h64).2.2.1 i hi
  unfold rangeStart
  rw [takeWhile_congr_mem _ (fun o => decide (childOf o.1 < firstChild n i)) ops]
  intro o ho
  exact lt_minKeyPath L _ o.1 (hlen o ho) hL (by omega)

/-- `range_end` as a count of the root child -/
theorem rangeEnd_eq (i : Nat) (hi : i < n) :
    rangeEnd L n i ops = (ops.takeWhile (fun o => decide (childOf o.1 ≤ lastChild n i))).length := by
  have hf := (region_facts n h1 h64).2.2.1 i hi
  unfold rangeEnd
  rw [takeWhile_congr_mem _ (fun o => decide (childOf o.1 ≤ lastChild n i)) ops]
  intro o ho
  rw [maxKeyPath_lt L _ o.1 (hlen o ho) hL hf.2]
  have : (lastChild n i < childOf o.1) ↔ ¬ (childOf o.1 ≤ lastChild n i) := by omega
  rw [decide_eq_decide.mpr this, decide_not, Bool.not_not]

theorem rangeStart_zero : rangeStart L n 0 ops = 0 := by
  rw [rangeStart_eq L n ops hlen hL h1 h64 0 (by omega), (region_facts n h1 h64).1]
  cases ops with
  | nil => rfl
  | cons o rest => simp [List.takeWhile_cons]

theorem rangeEnd_last : rangeEnd L n (n-1) ops = ops.length := by
  rw [rangeEnd_eq L n ops hlen hL h1 h64 (n-1) (by omega), (region_facts n h1 h64).2.1]
  have : ops.takeWhile (fun o => decide (childOf o.1 ≤ 63)) = ops := by
    apply takeWhile_all
    intro o _
    have := childOf_lt o.1
    simp; omega
  rw [this]

/-- **consecutive**: worker `i` stops where worker `i+1` starts -/
theorem rangeEnd_eq_next (i : Nat) (hi : i + 1 < n) : rangeEnd L n i ops = rangeStart L n (i+1) ops := by
  rw [rangeEnd_eq L n ops hlen hL h1 h64 i (by omega), rangeStart_eq L n ops hlen hL h1 h64 (i+1) hi,
    (region_facts n h1 h64).2.2.2 i hi]
  congr 1
  apply takeWhile_congr_mem
  intro o _
  simp [Nat.lt_succ_iff]

theorem rangeStart_le_rangeEnd (i : Nat) (hi : i < n) : rangeStart L n i ops ≤ rangeEnd L n i ops := by
  rw [rangeEnd_eq L n ops hlen hL h1 h64 i hi, rangeStart_eq L n ops hlen hL h1 h64 i hi]
  apply takeWhile_length_mono
  intro o _ h
  have hf := (region_facts n h1 h64).2.2.1 i hi
  simp only [decide_eq_true_eq] at h ⊢
  omega

theorem rangeEnd_le_length (i : Nat) : rangeEnd L n i ops ≤ ops.length := by
  unfold rangeEnd
  exact (List.takeWhile_prefix _).length_le

/-- the boundaries `b 0 ≤ b 1 ≤ … ≤ b n` of the workers' ranges -/
def bound (L n : Nat) (ops : List (Op VH)) (i : Nat) : Nat := if i < n then rangeStart L n i ops else ops.length

theorem bound_zero : bound L n ops 0 = 0 := by
  simp only [bound, show 0 < n by omega, if_true]
  exact rangeStart_zero L n ops hlen hL h1 h64

theorem bound_last : bound L n ops n = ops.length := by simp [bound]

theorem bound_succ (i : Nat) (hi : i < n) : bound L n ops (i+1) = rangeEnd L n i ops := by
  by_cases h : i + 1 < n
  · simp only [bound, h, if_true]
    exact (rangeEnd_eq_next L n ops hlen hL h1 h64 i h).symm
  · have : i = n - 1 := by omega
    subst this
    simp only [bound, h, if_false]
    exact (rangeEnd_last L n ops hlen hL h1 h64).symm

theorem bound_mono (i : Nat) (hi : i < n) : bound L n ops i ≤ bound L n ops (i+1) := by
  rw [bound_succ L n ops hlen hL h1 h64 i hi]
  simp only [bound, hi, if_true]
  exact rangeStart_le_rangeEnd L n ops hlen hL h1 h64 i hi

end Ranges

end Nomt.Split
