/-!
Combinatorics of *runs* (maximal blocks of equal consecutive entries) of a list, by index — the hash-free core of
the work splitting of `merkle::worker`: a batch of a commit worker is a run of the list of terminal positions of
the sorted operations, a worker walks the runs that start inside its index range, and the worker ranges are
consecutive.  Nothing here knows about keys or tries.

* `runStart ts j` — index `j` starts a run (`j = 0`, past the end, or `ts[j-1] ≠ ts[j]`);
* `align ts r` — the least run start `≥ r`;
* `runsFrom ts s e` — the runs met when walking from the run start `s` while the start is `< e`;
* `runsFrom_split` — walking to `e` = walking to `m`, then walking on from `align m` (a run that straddles `m`
  belongs to the first part);
* `runsFrom_chain` — for consecutive ranges `b 0 ≤ b 1 ≤ … ≤ b n` the per-range walks concatenate to the walk of
  the whole list.
-/
namespace Nomt.Split
variable {α : Type} [DecidableEq α]

/-- index `j` starts a run of `ts` (the end of the list counts as a start) -/
def runStart (ts : List α) (j : Nat) : Bool :=
  j == 0 || decide (ts.length ≤ j) || (ts[j-1]? != ts[j]?)

theorem runStart_zero (ts : List α) : runStart ts 0 = true := by simp [runStart]

theorem runStart_of_ge (ts : List α) (j : Nat) (h : ts.length ≤ j) : runStart ts j = true := by
  simp [runStart, h]

theorem lt_of_not_runStart {ts : List α} {j : Nat} (h : runStart ts j = false) : 0 < j ∧ j < ts.length := by
  simp [runStart] at h
  omega

/-- the least run start `≥ r` -/
def align (ts : List α) (r : Nat) : Nat :=
  if h : runStart ts r = true then r else align ts (r+1)
termination_by ts.length - r
decreasing_by
  have := lt_of_not_runStart (by simpa using h)
  omega

theorem align_of_runStart {ts : List α} {r : Nat} (h : runStart ts r = true) : align ts r = r := by
  rw [align]; simp [h]

theorem align_succ_of_not {ts : List α} {r : Nat} (h : runStart ts r = false) : align ts r = align ts (r+1) := by
  rw [align]; simp [h]

theorem align_ge (ts : List α) (r : Nat) : r ≤ align ts r := by
  fun_induction align ts r with
  | case1 r h => exact Nat.le_refl _
  | case2 r h ih => omega

theorem align_runStart (ts : List α) (r : Nat) : runStart ts (align ts r) = true := by
  fun_induction align ts r with
  | case1 r h => exact h
  | case2 r h ih => exact ih

theorem align_least (ts : List α) (r j : Nat) (h1 : r ≤ j) (h2 : j < align ts r) : runStart ts j = false := by
  fun_induction align ts r with
  | case1 r h => omega
  | case2 r h ih =>
    by_cases e : j = r
    · subst e; simpa using h
    · exact ih (by omega) h2

theorem align_unique (ts : List α) (r e : Nat) (h1 : r ≤ e) (h2 : runStart ts e = true)
    (h3 : ∀ j, r ≤ j → j < e → runStart ts j = false) : align ts r = e := by
  have a1 := align_ge ts r
  have a2 := align_runStart ts r
  rcases Nat.lt_trichotomy (align ts r) e with h | h | h
  · have := h3 _ a1 h; rw [a2] at this; cases this
  · exact h
  · have := align_least ts r e h1 h; rw [h2] at this; cases this

theorem align_le_length (ts : List α) (r : Nat) (h : r ≤ ts.length) : align ts r ≤ ts.length := by
  rcases Nat.lt_or_ge ts.length (align ts r) with hlt | hge
  · have := align_least ts r ts.length h hlt
    rw [runStart_of_ge ts _ (Nat.le_refl _)] at this; cases this
  · exact hge

/-- between `r` and `align r` every index aligns to the same place -/
theorem align_between (ts : List α) (r m : Nat) (h1 : r ≤ m) (h2 : m ≤ align ts r) : align ts m = align ts r := by
  apply align_unique ts m _ h2 (align_runStart ts r)
  intro j hj1 hj2
  exact align_least ts r j (by omega) hj2

theorem align_mono (ts : List α) (r m : Nat) (h : r ≤ m) : align ts r ≤ align ts m := by
  rcases Nat.lt_or_ge (align ts r) m with hlt | hge
  · have := align_ge ts m; omega
  · rw [align_between ts r m h hge]; exact Nat.le_refl _

/-- the runs `(start, end)` met when walking from the run start `s` while the start is below `e` -/
def runsFrom (ts : List α) (s e : Nat) : List (Nat × Nat) :=
  if h : s < e ∧ s < ts.length then (s, align ts (s+1)) :: runsFrom ts (align ts (s+1)) e else []
termination_by ts.length - s
decreasing_by
  have := align_ge ts (s+1)
  omega

theorem runsFrom_nil {ts : List α} {s e : Nat} (h : ¬ (s < e ∧ s < ts.length)) : runsFrom ts s e = [] := by
  rw [runsFrom]; simp [h]

theorem runsFrom_cons {ts : List α} {s e : Nat} (h : s < e ∧ s < ts.length) :
    runsFrom ts s e = (s, align ts (s+1)) :: runsFrom ts (align ts (s+1)) e := by
  rw [runsFrom]; simp [h]

/-- every run of the walk starts in `[s, e)`, is non-empty and ends inside the list -/
theorem runsFrom_bounds (ts : List α) (s e : Nat) :
    ∀ b ∈ runsFrom ts s e, s ≤ b.1 ∧ b.1 < e ∧ b.1 < b.2 ∧ b.2 ≤ ts.length ∧ b.2 = align ts (b.1+1) := by
  fun_induction runsFrom ts s e with
  | case1 s h ih =>
    intro b hb
    rcases List.mem_cons.mp hb with rfl | hb
    · have := align_ge ts (s+1)
      have := align_le_length ts (s+1) (by omega)
      exact ⟨Nat.le_refl _, h.1, by simp; omega, by simpa, rfl⟩
    · have h1 := ih b hb
      have h2 := align_ge ts (s+1)
      exact ⟨by omega, h1.2.1, h1.2.2⟩
  | case2 s h => intro b hb; cases hb

/-- walking from a run start only meets run starts -/
theorem runsFrom_starts (ts : List α) (s e : Nat) (hs : runStart ts s = true) :
    ∀ b ∈ runsFrom ts s e, runStart ts b.1 = true := by
  fun_induction runsFrom ts s e with
  | case1 s h ih =>
    intro b hb
    rcases List.mem_cons.mp hb with rfl | hb
    · exact hs
    · exact ih (align_runStart ts (s+1)) b hb
  | case2 s h => intro b hb; cases hb

/-- the starts of the walk are strictly ascending, consecutive runs touch -/
theorem runsFrom_pairwise (ts : List α) (s e : Nat) :
    (runsFrom ts s e).Pairwise (fun a b => a.2 ≤ b.1) := by
  fun_induction runsFrom ts s e with
  | case1 s h ih =>
    refine List.pairwise_cons.mpr ⟨?_, ih⟩
    intro b hb
    exact (runsFrom_bounds ts _ e b hb).1
  | case2 s h => exact List.Pairwise.nil

/-- **splitting a walk at `m`**: a run that starts before `m` belongs to the first part even when it ends after
`m`; the second part starts at the first run start `≥ m`. -/
theorem runsFrom_split (ts : List α) (s m e : Nat) (hme : m ≤ e)
    (hs : runStart ts s = true) (hgap : ∀ j, m ≤ j → j < s → runStart ts j = false) :
    runsFrom ts s e = runsFrom ts s m ++ runsFrom ts (align ts m) e := by
  fun_induction runsFrom ts s m with
  | case1 s h ih =>
    rw [runsFrom_cons (e := e) ⟨by omega, h.2⟩, List.cons_append]
    congr 1
    apply ih (align_runStart ts (s+1))
    intro j hj1 hj2
    exact align_least ts (s+1) j (by omega) hj2
  | case2 s h =>
    rw [List.nil_append]
    rcases Nat.lt_or_ge s m with hlt | hge
    · -- `s ≥ length`: both walks are empty
      have hlen : ts.length ≤ s := by omega
      have := align_ge ts m
      rw [runsFrom_nil (by omega), runsFrom_nil (by omega)]
    · rw [align_unique ts m s hge hs hgap]

/-- walking from `align r` up to `e`, split at any `m` between -/
theorem runsFrom_align_split (ts : List α) (r m e : Nat) (h1 : r ≤ m) (h2 : m ≤ e) :
    runsFrom ts (align ts r) e = runsFrom ts (align ts r) m ++ runsFrom ts (align ts m) e := by
  apply runsFrom_split ts _ m e h2 (align_runStart ts r)
  intro j hj1 hj2
  exact align_least ts r j (by omega) hj2

theorem mono_le (b : Nat → Nat) : ∀ (n : Nat), (∀ i, i < n → b i ≤ b (i+1)) → b 0 ≤ b n
  | 0, _ => Nat.le_refl _
  | k+1, h => Nat.le_trans (mono_le b k (fun i hi => h i (by omega))) (h k (by omega))

/-- **consecutive ranges**: for bounds `b 0 ≤ b 1 ≤ … ≤ b n`, the walks of the ranges `[b i, b (i+1))`, each
started at its first run start, concatenate to the walk from `align (b 0)` up to `b n`. -/
theorem runsFrom_chain (ts : List α) (b : Nat → Nat) : ∀ (n : Nat), (∀ i, i < n → b i ≤ b (i+1)) →
    ((List.range n).flatMap fun i => runsFrom ts (align ts (b i)) (b (i+1)))
      = runsFrom ts (align ts (b 0)) (b n)
  | 0, _ => by
    simp only [List.range_zero, List.flatMap_nil]
    have := align_ge ts (b 0)
    rw [runsFrom_nil (by omega)]
  | n+1, hmono => by
    have hb : b 0 ≤ b n := mono_le b n (fun i hi => hmono i (by omega))
    rw [List.range_succ, List.flatMap_append, runsFrom_chain ts b n (fun i hi => hmono i (by omega))]
    simp only [List.flatMap_cons, List.flatMap_nil, List.append_nil]
    exact (runsFrom_align_split ts (b 0) (b n) (b (n+1)) hb (hmono n (by omega))).symm

/-- the whole list: walking from `0` to the length -/
def allRuns (ts : List α) : List (Nat × Nat) := runsFrom ts 0 ts.length

end Nomt.Split
