import NomtModel.Api.WitnessGroup
import NomtModel.Core.UpdateApply
/-!
C06: the *specified* witness (`witnessSpec`, `Api/Witness.lean`) is accepted by the stateless verifier and
replays the session.

* `witnessSpecL` — the same definition with the key length a parameter (`witnessSpecL_256 : witnessSpecL H 256 = witnessSpec H`
  by `rfl`), so that the theorems can be instantiated on small examples;
* `witnessUpdatesL` / `witnessUpdates` — what a verifier builds from the witness for `verify_update`: for every path
  of the witness that carries writes, the `Verified` obtained by verifying its proof with a key of the group, and
  the writes of the group;
* `witness_paths_verify` (a), `witnessUpdates_checkPaths` (b), `witnessUpdates_replay` (c).
-/
set_option linter.unusedSectionVars false
namespace Nomt.Api
open Nomt
variable {Node VH : Type} [DecidableEq Node] [DecidableEq VH] (H : Hasher Node VH)

/-! ### definitions -/

/-- `witnessSpec` with the key length a parameter -/
def witnessSpecL (L : Nat) (view : KVL VH) (reads : List Key) (writes : Writes VH) : List (WPath Node VH) :=
  witnessWith (proveSpec H L view) view reads writes

theorem witnessSpecL_256 (view : KVL VH) (reads : List Key) (writes : Writes VH) :
    witnessSpecL H 256 view reads writes = witnessSpec H view reads writes := rfl

/-- a key of the group of `w`: its first read key, else its first write key -/
def WPath.firstKey (w : WPath Node VH) : Key :=
  match w.reads ++ w.writes with
  | (k, _) :: _ => k
  | [] => w.path

/-- the `Verified` a verifier obtains from a witnessed path -/
def verifiedOf (L : Nat) (root : Node) (w : WPath Node VH) : Verified Node VH :=
  match verify H L w.proof w.firstKey root with
  | .ok v => v
  | .error _ => { path := w.path, terminal := none, siblings := [], root := root }

def updateOf (L : Nat) (root : Node) (w : WPath Node VH) : Option (PathUpdateIn Node VH) :=
  if w.writes.isEmpty then none else some { inner := verifiedOf H L root w, ops := w.writes }

/-- the argument of `verify_update` built from the specified witness -/
def witnessUpdatesL (L : Nat) (view : KVL VH) (reads : List Key) (writes : Writes VH) : List (PathUpdateIn Node VH) :=
  (witnessSpecL H L view reads writes).filterMap (updateOf H L (nodeAt H L 0 view))

def witnessUpdates (view : KVL VH) (reads : List Key) (writes : Writes VH) : List (PathUpdateIn Node VH) :=
  (witnessSpec H view reads writes).filterMap (updateOf H 256 (nodeAt H 256 0 view))

theorem witnessUpdatesL_256 (view : KVL VH) (reads : List Key) (writes : Writes VH) :
    witnessUpdatesL H 256 view reads writes = witnessUpdates H view reads writes := rfl

/-- the batch sorted by key (what the witness lists, path by path) -/
def sortedWrites (writes : Writes VH) : Writes VH := insAll writes []

/-- the read keys sorted, duplicates removed, with the value the session saw -/
def sortedReads (view : KVL VH) (reads : List Key) : List (Key × Option VH) :=
  insAll (reads.map (fun k => (k, kvGet view k))) []

/-- the merged, key-ordered operations `witnessWith` groups -/
def witnessItems (view : KVL VH) (reads : List Key) (writes : Writes VH) : List (Item VH) :=
  let rs : List (Item VH) := reads.foldl (fun acc k => insertKey k (false, kvGet view k) acc) []
  let ws : List (Item VH) := writes.foldl (fun acc kw => insertKey kw.1 (true, kw.2) acc) []
  witnessWith.merge (rs.length + ws.length) rs ws

theorem witnessWith_eq (prover : Key → PathProof Node VH) (view : KVL VH) (reads : List Key) (writes : Writes VH) :
    witnessWith prover view reads writes = groupByTerminal prover (witnessItems view reads writes) [] := rfl

/-! ### the items -/
section Items
variable (view : KVL VH) (reads : List Key) (writes : Writes VH)

theorem insAll_subset {α : Type} : ∀ (xs init : List (Key × α)) (x : Key × α),
    x ∈ insAll xs init → x ∈ init ∨ x ∈ xs := by
  intro xs
  induction xs with
  | nil => intro init x h; exact Or.inl h
  | cons p rest ih =>
    intro init x h
    rcases ih (insertKey p.1 p.2 init) x h with h | h
    · rcases insertKey_subset _ _ _ _ h with h | h
      · exact Or.inl h
      · exact Or.inr (h ▸ List.mem_cons_self)
    · exact Or.inr (List.mem_cons_of_mem _ h)

theorem rs_eq : reads.foldl (fun acc k => insertKey k (false, kvGet view k) acc) ([] : List (Item VH))
    = (sortedReads view reads).map (fun p => (p.1, (false, p.2))) := by
  have := insAll_map (fun (v : Option VH) => (false, v)) (reads.map (fun k => (k, kvGet view k))) []
  simp only [List.map_nil, List.map_map] at this
  rw [sortedReads, ← this]
  simp only [insAll, List.foldl_map]
  rfl

theorem ws_eq : writes.foldl (fun acc kw => insertKey kw.1 (true, kw.2) acc) ([] : List (Item VH))
    = (sortedWrites writes).map (fun p => (p.1, (true, p.2))) := by
  have := insAll_map (fun (v : Option VH) => (true, v)) writes []
  simp only [List.map_nil] at this
  rw [sortedWrites, ← this]
  simp only [insAll, List.foldl_map]

theorem sortedWrites_sorted : (sortedWrites writes).Pairwise KeyLt := insAll_sorted writes [] List.Pairwise.nil

theorem sortedReads_sorted : (sortedReads view reads).Pairwise KeyLt := insAll_sorted _ [] List.Pairwise.nil

theorem sortedWrites_subset (x : Key × Option VH) (h : x ∈ sortedWrites writes) : x ∈ writes := by
  rcases insAll_subset writes [] x h with h | h
  · cases h
  · exact h

theorem mem_sortedWrites (hd : writes.Pairwise (fun a b => a.1 ≠ b.1)) (x : Key × Option VH) :
    x ∈ sortedWrites writes ↔ x ∈ writes := by
  have := mem_insAll writes [] (by
    intro p hp q hq e
    simp only [List.nil_append] at hp hq
    rw [pairwise_inj (fun x : Key × Option VH => x.1) _ (fun a b h => h) writes hd p hp q hq e]) x
  simpa [sortedWrites] using this

theorem mem_sortedReads (x : Key × Option VH) :
    x ∈ sortedReads view reads ↔ ∃ k ∈ reads, x = (k, kvGet view k) := by
  have := mem_insAll (reads.map (fun k => (k, kvGet view k))) [] (by
    intro p hp q hq e
    simp only [List.nil_append, List.mem_map] at hp hq
    obtain ⟨k1, _, rfl⟩ := hp
    obtain ⟨k2, _, rfl⟩ := hq
    simp only at e
    simp [e]) x
  simp only [List.not_mem_nil, false_or, List.mem_map] at this
  rw [sortedReads, this]
  constructor
  · rintro ⟨k, hk, rfl⟩; exact ⟨k, hk, rfl⟩
  · rintro ⟨k, hk, rfl⟩; exact ⟨k, hk, rfl⟩

theorem witnessItems_eq : witnessItems view reads writes =
    witnessWith.merge (((sortedReads view reads).map (fun p => (p.1, (false, p.2)))).length +
        ((sortedWrites writes).map (fun p => (p.1, (true, p.2)))).length)
      ((sortedReads view reads).map (fun p => (p.1, (false, p.2))))
      ((sortedWrites writes).map (fun p => (p.1, (true, p.2)))) := by
  simp only [witnessItems, rs_eq, ws_eq]

theorem mem_witnessItems (it : Item VH) : it ∈ witnessItems view reads writes ↔
    (∃ p ∈ sortedReads view reads, it = (p.1, (false, p.2))) ∨ (∃ p ∈ sortedWrites writes, it = (p.1, (true, p.2))) := by
  rw [witnessItems_eq, mem_merge]
  simp only [List.mem_map]
  constructor
  · rintro (⟨p, hp, rfl⟩ | ⟨p, hp, rfl⟩)
    · exact Or.inl ⟨p, hp, rfl⟩
    · exact Or.inr ⟨p, hp, rfl⟩
  · rintro (⟨p, hp, rfl⟩ | ⟨p, hp, rfl⟩)
    · exact Or.inl ⟨p, hp, rfl⟩
    · exact Or.inr ⟨p, hp, rfl⟩

/-- every item is a read key with the value seen, or a write of the batch -/
theorem witnessItems_key (it : Item VH) (h : it ∈ witnessItems view reads writes) :
    (it.1 ∈ reads ∧ it.2 = (false, kvGet view it.1)) ∨ (it.2.1 = true ∧ (it.1, it.2.2) ∈ writes) := by
  rcases (mem_witnessItems view reads writes it).mp h with ⟨p, hp, rfl⟩ | ⟨p, hp, rfl⟩
  · obtain ⟨k, hk, rfl⟩ := (mem_sortedReads view reads p).mp hp
    exact Or.inl ⟨hk, rfl⟩
  · exact Or.inr ⟨rfl, sortedWrites_subset writes p hp⟩

theorem witnessItems_sorted : (witnessItems view reads writes).Pairwise KeyLe := by
  rw [witnessItems_eq]
  have toLe : ∀ {α : Type} (l : List (Key × α)), l.Pairwise KeyLt → l.Pairwise KeyLe := by
    intro α l h
    exact List.Pairwise.imp (fun {a b} hab => bl_asymm _ _ hab) h
  apply merge_sorted _ _ _ (Nat.le_refl _)
  · apply toLe
    rw [List.pairwise_map]
    exact sortedReads_sorted view reads
  · apply toLe
    rw [List.pairwise_map]
    exact sortedWrites_sorted writes

theorem witnessItems_writes : (witnessItems view reads writes).filterMap wOf = sortedWrites writes := by
  rw [witnessItems_eq, filterMap_merge_right]
  · rw [List.filterMap_map]
    have : (wOf ∘ fun (p : Key × Option VH) => ((p.1, (true, p.2)) : Item VH)) = some := by
      funext p; simp [wOf]
    rw [this, List.filterMap_some]
  · intro x hx
    obtain ⟨p, _, rfl⟩ := List.mem_map.mp hx
    simp [wOf]

theorem witnessItems_reads : (witnessItems view reads writes).filterMap rOf = sortedReads view reads := by
  rw [witnessItems_eq, filterMap_merge_left]
  · rw [List.filterMap_map]
    have : (rOf ∘ fun (p : Key × Option VH) => ((p.1, (false, p.2)) : Item VH)) = some := by
      funext p; simp [rOf]
    rw [this, List.filterMap_some]
  · intro x hx
    obtain ⟨p, _, rfl⟩ := List.mem_map.mp hx
    simp [rOf]

end Items

/-! ### converses of `checkOps_none` / `checkPaths_none` -/

theorem checkOps_of (path : List Bool) : ∀ (ops : List (Key × Option VH)) (prev : Option Key),
    (∀ o ∈ ops, path <+: o.1) → ops.Pairwise KeyLt → (∀ p, prev = some p → ∀ o ∈ ops, bitsLt p o.1 = true) →
    checkOps path prev ops = none := by
  intro ops
  induction ops with
  | nil => intro prev _ _ _; rfl
  | cons o rest ih =>
    intro prev hpre hs hprev
    obtain ⟨k, w⟩ := o
    have hs' := List.pairwise_cons.mp hs
    have h2 : startsWith k path = true := by
      have := (bl_prefix_iff_take path k).mp (hpre (k, w) List.mem_cons_self)
      simp [startsWith, this]
    have hrec : checkOps path (some k) rest = none := by
      apply ih (some k) (fun o ho => hpre o (List.mem_cons_of_mem _ ho)) hs'.2
      intro p hp o ho
      cases hp
      exact hs'.1 o ho
    cases prev with
    | none => simp only [checkOps, h2, Bool.false_eq_true, if_false, Bool.not_true, hrec]
    | some p =>
      have h1 : bitsLe k p = false := by
        have := hprev p rfl (k, w) List.mem_cons_self
        simp only [bitsLe]
        simp only at this
        rw [this]; rfl
      simp only [checkOps, h1, h2, Bool.false_eq_true, if_false, Bool.not_true, hrec]

theorem checkPaths_of (root : Node) : ∀ (paths : List (PathUpdateIn Node VH)) (prev : Option (List Bool)),
    (∀ p ∈ paths, p.inner.root = root ∧ p.ops ≠ [] ∧ checkOps p.inner.path none p.ops = none) →
    paths.Pairwise (fun a b => bitsLt a.inner.path b.inner.path = true) →
    (∀ q, prev = some q → ∀ p ∈ paths, bitsLt q p.inner.path = true) →
    checkPaths root prev paths = none := by
  intro paths
  induction paths with
  | nil => intro prev _ _ _; rfl
  | cons p rest ih =>
    intro prev hall hs hprev
    have hs' := List.pairwise_cons.mp hs
    obtain ⟨hr, hne, hops⟩ := hall p List.mem_cons_self
    have h2 : p.ops.isEmpty = false := by
      cases hp : p.ops with
      | nil => exact absurd hp hne
      | cons _ _ => rfl
    have hrec : checkPaths root (some p.inner.path) rest = none := by
      apply ih (some p.inner.path) (fun x hx => hall x (List.mem_cons_of_mem _ hx)) hs'.2
      intro q hq x hx
      cases hq
      exact hs'.1 x hx
    cases prev with
    | none =>
      simp only [checkPaths, hr, ne_eq, not_true_eq_false, if_false, h2, Bool.false_eq_true, hops, hrec]
    | some q =>
      have h1 : bitsLe p.inner.path q = false := by
        have := hprev q rfl p List.mem_cons_self
        simp only [bitsLe]
        rw [this]; rfl
      simp only [checkPaths, hr, ne_eq, not_true_eq_false, if_false, h1, h2, Bool.false_eq_true, hops, hrec]

/-! ### `kvGet` and membership, for strictly ascending views -/

theorem mem_of_kvGet : ∀ (m : KVL VH) (k : Key) (v : VH), kvGet m k = some v → (k, v) ∈ m := by
  intro m
  induction m with
  | nil => intro k v h; simp [kvGet] at h
  | cons x rest ih =>
    intro k v h
    obtain ⟨k', v'⟩ := x
    simp only [kvGet] at h
    split at h
    · rename_i heq
      have hk : k' = k := by simpa using heq
      injection h with h
      rw [hk, h]; exact List.mem_cons_self
    · exact List.mem_cons_of_mem _ (ih k v h)

theorem kvGet_of_mem : ∀ (m : KVL VH), m.Pairwise KeyLt → ∀ (k : Key) (v : VH), (k, v) ∈ m → kvGet m k = some v := by
  intro m
  induction m with
  | nil => intro _ k v h; cases h
  | cons x rest ih =>
    intro hs k v h
    obtain ⟨k', v'⟩ := x
    have hs' := List.pairwise_cons.mp hs
    simp only [kvGet]
    rcases List.mem_cons.mp h with e | h
    · injection e with e1 e2
      subst e1; subst e2
      simp
    · have hlt : bitsLt k' k = true := hs'.1 (k, v) h
      have : (k' == k) = false := by
        have := bl_ne hlt
        simpa using this
      rw [this]
      exact ih hs'.2 k v h

theorem kvGet_none_iff (m : KVL VH) (hs : m.Pairwise KeyLt) (k : Key) : kvGet m k = none ↔ ∀ v, (k, v) ∉ m := by
  constructor
  · intro h v hm
    rw [kvGet_of_mem m hs k v hm] at h; cases h
  · intro h
    cases hg : kvGet m k with
    | none => rfl
    | some v => exact absurd (mem_of_kvGet m k v hg) (h v)

/-! ### verified paths -/

theorem verify_fields (L : Nat) (P : PathProof Node VH) (kp : List Bool) (root : Node) (v : Verified Node VH)
    (hv : verify H L P kp root = .ok v) :
    v.path = kp.take P.siblings.length ∧ v.root = root ∧ P.siblings.length ≤ kp.length ∧ P.siblings.length ≤ L := by
  unfold verify at hv
  split at hv
  · cases hv
  · rename_i hg
    simp only at hv
    split at hv
    · injection hv with hv
      subst hv
      refine ⟨rfl, rfl, ?_, ?_⟩ <;> omega
    · cases hv

theorem verify_congr (L : Nat) (P : PathProof Node VH) (kp kp' : List Bool) (root : Node)
    (hl : kp.length = kp'.length) (ht : kp.take P.siblings.length = kp'.take P.siblings.length) :
    verify H L P kp root = verify H L P kp' root := by
  unfold verify
  rw [hl, ht]

/-- **truthfulness of any verified path for any key in its scope**: it answers membership in `S` -/
theorem verified_truthful (hs : H.Sound) (L : Nat) (S : List (Key × VH)) (hc : Canon L 0 S)
    (P : PathProof Node VH) (kp : List Bool) (v : Verified Node VH)
    (hv : verify H L P kp (nodeAt H L 0 S) = .ok v) (k : Key) (hin : v.inScope k = true) :
    (∀ vh, v.confirmValue k vh = some (decide ((k, vh) ∈ S))) ∧
    ((∀ vh, (k, vh) ∉ S) → v.confirmNonexistence k = some true) ∧
    ((∃ vh, (k, vh) ∈ S) → v.confirmNonexistence k = some false) := by
  have hex : ∃ b, v.confirmNonexistence k = some b := by simp [Verified.confirmNonexistence, hin]
  obtain ⟨b, hb⟩ := hex
  refine ⟨?_, ?_, ?_⟩
  · intro vh
    have hsnd := path_proof_sound H hs L S hc P kp v hv k vh
    have hex : ∃ b, v.confirmValue k vh = some b := by simp [Verified.confirmValue, hin]
    obtain ⟨b, hb⟩ := hex
    cases b with
    | true => have := hsnd.1 hb; simp [hb, this]
    | false => have := hsnd.2.1 hb; simp [hb, this]
  · intro hn
    cases b with
    | true => exact hb
    | false =>
      obtain ⟨_, _, hterm⟩ := verify_ok_spec H hs L S hc P kp v hv
      rcases hterm with ⟨k0, v0, ht, _⟩ | ⟨ht, _⟩
      · obtain ⟨vh', hm⟩ := (path_proof_sound H hs L S hc P kp v hv k v0).2.2.2 hb
        exact absurd hm (hn vh')
      · simp [Verified.confirmNonexistence, hin, ht] at hb
  · rintro ⟨vh, hm⟩
    cases b with
    | false => exact hb
    | true => exact absurd hm ((path_proof_sound H hs L S hc P kp v hv k vh).2.2.1 hb vh)

section Spec
variable (L : Nat) (view : KVL VH)

/-- the terminal path of `k` in the trie of `view` -/
abbrev tp (k : Key) : List Bool := tpOf (proveSpec H L view) k

theorem tp_prefix (k : Key) : tp H L view k <+: k := List.take_prefix _ _

theorem proveSpec_verified (hc : Canon L 0 view) (k : Key) (hk : k.length = L) :
    ∃ v, verify H L (proveSpec H L view k) k (nodeAt H L 0 view) = .ok v ∧ v.path = tp H L view k ∧
      v.inScope k = true := by
  obtain ⟨v, hv, hin⟩ := proveSpec_verifies H L view hc k hk
  exact ⟨v, hv, (verify_fields H L _ k _ v hv).1, hin⟩

theorem tp_prefix_eq (hs : H.Sound) (hc : Canon L 0 view) (k1 k2 : Key) (h1 : k1.length = L) (h2 : k2.length = L)
    (hp : tp H L view k1 <+: tp H L view k2) : tp H L view k1 = tp H L view k2 := by
  obtain ⟨v1, hv1, e1, _⟩ := proveSpec_verified H L view hc k1 h1
  obtain ⟨v2, hv2, e2, _⟩ := proveSpec_verified H L view hc k2 h2
  rw [← e1, ← e2] at hp ⊢
  exact VerifiedFor.prefix_eq H hs L view v1 v2 ⟨_, _, hv1⟩ ⟨_, _, hv2⟩ hp

/-- terminal paths are monotone in the key -/
theorem tp_mono (hs : H.Sound) (hc : Canon L 0 view) (k1 k2 : Key) (h1 : k1.length = L) (h2 : k2.length = L)
    (hle : bitsLt k2 k1 = false) : PLe (tp H L view k1) (tp H L view k2) := by
  rcases bl_trichotomy (tp H L view k1) (tp H L view k2) with e | h | h
  · exact Or.inl e
  · exact Or.inr h
  · exfalso
    have hnp : ¬ tp H L view k2 <+: tp H L view k1 := by
      intro hp
      have := tp_prefix_eq H L view hs hc k2 k1 h2 h1 hp
      rw [this, bl_irrefl] at h; cases h
    have := bl_extend _ _ k2 k1 h hnp (tp_prefix H L view k2) (tp_prefix H L view k1)
    rw [this] at hle; cases hle

/-- keys with the same terminal path are interchangeable as the key path of `verify` -/
theorem verify_same_group (hc : Canon L 0 view) (k k0 : Key) (hk : k.length = L) (hk0 : k0.length = L)
    (he : tp H L view k = tp H L view k0) :
    verify H L (proveSpec H L view k0) k (nodeAt H L 0 view) =
      verify H L (proveSpec H L view k0) k0 (nodeAt H L 0 view) := by
  apply verify_congr H L _ k k0 _ (by rw [hk, hk0])
  have l1 : (proveSpec H L view k).siblings.length ≤ L := proveAux_len H L 0 view k
  have l0 : (proveSpec H L view k0).siblings.length ≤ L := proveAux_len H L 0 view k0
  have hlen := congrArg List.length he
  simp only [tpOf, List.length_take, hk, hk0] at hlen
  have hn : (proveSpec H L view k).siblings.length = (proveSpec H L view k0).siblings.length := by omega
  have := he
  simp only [tpOf] at this
  rw [hn] at this
  exact this

end Spec

/-! ### (a) the paths of the specified witness verify and attest the view -/
section Main
variable (L : Nat) (view : KVL VH) (reads : List Key) (writes : Writes VH)

/-- the grouping invariant holds for the specified witness -/
theorem witnessSpecL_inv (hs : H.Sound) (hc : Canon L 0 view)
    (hr : ∀ k ∈ reads, k.length = L) (hw : ∀ kw ∈ writes, kw.1.length = L) :
    AccInv (proveSpec H L view) (witnessSpecL H L view reads writes).reverse (witnessItems view reads writes) := by
  have hlen : ∀ it ∈ witnessItems view reads writes, it.1.length = L := by
    intro it hit
    rcases witnessItems_key view reads writes it hit with ⟨h, _⟩ | ⟨_, h⟩
    · exact hr _ h
    · exact hw _ h
  have := groupByTerminal_inv (prover := proveSpec H L view) (witnessItems view reads writes) [] []
    (AccInv.nil _) (by intro w hw; cases hw)
    (List.Pairwise.imp_of_mem (fun {a b} ha hb hab => tp_mono H L view hs hc a.1 b.1 (hlen a ha) (hlen b hb) hab)
      (witnessItems_sorted view reads writes))
  simpa [witnessSpecL, witnessWith_eq] using this

theorem item_len (hr : ∀ k ∈ reads, k.length = L) (hw : ∀ kw ∈ writes, kw.1.length = L)
    (it : Item VH) (hit : it ∈ witnessItems view reads writes) : it.1.length = L := by
  rcases witnessItems_key view reads writes it hit with ⟨h, _⟩ | ⟨_, h⟩
  · exact hr _ h
  · exact hw _ h

/-- **(a)** every path of the specified witness: one `Verified` is obtained whichever key of the group is
used as key path, it has the witnessed path, has every key of the group in scope; every attested read value
is the session's view of the key, and the verified path confirms it (`confirm_value` for a present key,
`confirm_nonexistence` for an absent one). -/
theorem witness_paths_verify (hs : H.Sound) (hc : Canon L 0 view) (hlen : ∀ kv ∈ view, kv.1.length = L)
    (hr : ∀ k ∈ reads, k.length = L) (hw : ∀ kw ∈ writes, kw.1.length = L)
    (w : WPath Node VH) (hmem : w ∈ witnessSpecL H L view reads writes) :
    ∃ v, v.path = w.path ∧ v.root = nodeAt H L 0 view ∧ (∃ k0, k0.length = L ∧ verify H L w.proof k0 (nodeAt H L 0 view) = .ok v) ∧
      (∀ o ∈ w.reads ++ w.writes, o.1.length = L ∧
          verify H L w.proof o.1 (nodeAt H L 0 view) = .ok v ∧ v.inScope o.1 = true) ∧
      (∀ o ∈ w.reads, o.2 = kvGet view o.1 ∧
          match o.2 with
          | some vh => v.confirmValue o.1 vh = some true
          | none => v.confirmNonexistence o.1 = some true) := by
  have inv := witnessSpecL_inv H L view reads writes hs hc hr hw
  have hmem' : w ∈ (witnessSpecL H L view reads writes).reverse := List.mem_reverse.mpr hmem
  obtain ⟨k0, hk0, hproof, hpath⟩ := inv.proofs w hmem'
  have hk0len : k0.length = L := by
    obtain ⟨it, hit, rfl⟩ := List.mem_map.mp hk0
    exact item_len L view reads writes hr hw it hit
  obtain ⟨v, hv, hvp, _⟩ := proveSpec_verified H L view hc k0 hk0len
  have hgroup : ∀ k, k.length = L → tp H L view k = w.path →
      verify H L w.proof k (nodeAt H L 0 view) = .ok v ∧ v.inScope k = true := by
    intro k hk he
    refine ⟨?_, ?_⟩
    · rw [hproof, verify_same_group H L view hc k k0 hk hk0len (by rw [he, hpath]), hv]
    · have hpre : v.path <+: k := by
        have := tp_prefix H L view k
        rw [he, hpath] at this
        rw [hvp]; exact this
      have := (bl_prefix_iff_take _ _).mp hpre
      simp [Verified.inScope, this]
  have hsorted : view.Pairwise KeyLt :=
    canon_sorted L 0 view [] hc (by intro kv h; rw [hlen kv h]; omega) (by intro kv _; rfl)
  refine ⟨v, by rw [hvp, hpath], (verify_fields H L _ _ _ v hv).2.1, ⟨k0, hk0len, by rw [hproof]; exact hv⟩, ?_, ?_⟩
  · intro o ho
    have : tp H L view o.1 = w.path ∧ ∃ b, (o.1, (b, o.2)) ∈ witnessItems view reads writes := by
      rcases List.mem_append.mp ho with ho | ho
      · obtain ⟨e, hm⟩ := inv.rmem w hmem' o ho; exact ⟨e, false, hm⟩
      · obtain ⟨e, hm⟩ := inv.wmem w hmem' o ho; exact ⟨e, true, hm⟩
    obtain ⟨e, b, hm⟩ := this
    have hl := item_len L view reads writes hr hw _ hm
    exact ⟨hl, hgroup o.1 hl e⟩
  · intro o ho
    obtain ⟨e, hm⟩ := inv.rmem w hmem' o ho
    have hl : o.1.length = L := item_len L view reads writes hr hw _ hm
    have hval : o.2 = kvGet view o.1 := by
      rcases witnessItems_key view reads writes _ hm with ⟨_, h⟩ | ⟨h, _⟩
      · simp only [Prod.mk.injEq, true_and] at h; exact h
      · simp at h
    obtain ⟨hver, hin⟩ := hgroup o.1 hl e
    obtain ⟨tv, tn⟩ := verified_truthful H hs L view hc _ _ v hver o.1 hin
    refine ⟨hval, ?_⟩
    cases hov : o.2 with
    | some vh =>
      have hm' : (o.1, vh) ∈ view := mem_of_kvGet view o.1 vh (by rw [← hval, hov])
      simp only
      rw [tv vh]; simp [hm']
    | none =>
      have hn : ∀ vh, (o.1, vh) ∉ view := (kvGet_none_iff view hsorted o.1).mp (by rw [← hval, hov])
      simp only
      exact tn.1 hn

/-! ### (b) the argument checks of `verify_update` pass -/

theorem firstKey_mem (w : WPath Node VH) (hne : w.reads ++ w.writes ≠ []) :
    ∃ o ∈ w.reads ++ w.writes, w.firstKey = o.1 := by
  unfold WPath.firstKey
  cases h : w.reads ++ w.writes with
  | nil => exact absurd h hne
  | cons x rest => exact ⟨x, List.mem_cons_self, rfl⟩

/-- the `Verified` built for a witnessed path that carries operations is the one of (a) -/
theorem verifiedOf_spec (hs : H.Sound) (hc : Canon L 0 view) (hlen : ∀ kv ∈ view, kv.1.length = L)
    (hr : ∀ k ∈ reads, k.length = L) (hw : ∀ kw ∈ writes, kw.1.length = L)
    (w : WPath Node VH) (hmem : w ∈ witnessSpecL H L view reads writes) (hne : w.reads ++ w.writes ≠ []) :
    w.firstKey.length = L ∧
    verify H L w.proof w.firstKey (nodeAt H L 0 view) = .ok (verifiedOf H L (nodeAt H L 0 view) w) ∧
    (verifiedOf H L (nodeAt H L 0 view) w).path = w.path ∧
    (verifiedOf H L (nodeAt H L 0 view) w).root = nodeAt H L 0 view := by
  obtain ⟨v, hp, hroot, _, hall, _⟩ := witness_paths_verify H L view reads writes hs hc hlen hr hw w hmem
  obtain ⟨o, ho, hf⟩ := firstKey_mem w hne
  obtain ⟨hl, hv, _⟩ := hall o ho
  have : verifiedOf H L (nodeAt H L 0 view) w = v := by
    unfold verifiedOf; rw [hf, hv]
  rw [this, hf]
  exact ⟨hl, hv, hp, hroot⟩

theorem mem_witnessUpdatesL (p : PathUpdateIn Node VH) :
    p ∈ witnessUpdatesL H L view reads writes ↔
      ∃ w ∈ witnessSpecL H L view reads writes, w.writes ≠ [] ∧
        p = { inner := verifiedOf H L (nodeAt H L 0 view) w, ops := w.writes } := by
  simp only [witnessUpdatesL, List.mem_filterMap, updateOf]
  constructor
  · rintro ⟨w, hw, h⟩
    split at h
    · cases h
    · rename_i hne
      injection h with h
      exact ⟨w, hw, by intro e; rw [e] at hne; simp at hne, h.symm⟩
  · rintro ⟨w, hw, hne, rfl⟩
    refine ⟨w, hw, ?_⟩
    have : w.writes.isEmpty = false := by
      cases h : w.writes with
      | nil => exact absurd h hne
      | cons _ _ => rfl
    simp [this]

theorem allOps_witnessUpdatesL :
    allOps (witnessUpdatesL H L view reads writes) = (witnessSpecL H L view reads writes).flatMap (·.writes) := by
  unfold witnessUpdatesL allOps
  generalize witnessSpecL H L view reads writes = l
  induction l with
  | nil => rfl
  | cons w rest ih =>
    simp only [List.filterMap_cons, List.flatMap_cons, updateOf]
    cases h : w.writes with
    | nil => simpa using ih
    | cons x xs =>
      simp only [List.isEmpty_cons, Bool.false_eq_true, if_false, List.flatMap_cons]
      rw [ih]

/-- the operations handed to `verify_update` are the batch, sorted by key -/
theorem allOps_eq_sortedWrites (hs : H.Sound) (hc : Canon L 0 view)
    (hr : ∀ k ∈ reads, k.length = L) (hw : ∀ kw ∈ writes, kw.1.length = L) :
    allOps (witnessUpdatesL H L view reads writes) = sortedWrites writes := by
  have inv := witnessSpecL_inv H L view reads writes hs hc hr hw
  rw [allOps_witnessUpdatesL, ← witnessItems_writes view reads writes, ← inv.wflat, List.reverse_reverse]

/-- all reads of the witness, path by path, are the read keys sorted with the values seen -/
theorem allReads_eq_sortedReads (hs : H.Sound) (hc : Canon L 0 view)
    (hr : ∀ k ∈ reads, k.length = L) (hw : ∀ kw ∈ writes, kw.1.length = L) :
    (witnessSpecL H L view reads writes).flatMap (·.reads) = sortedReads view reads := by
  have inv := witnessSpecL_inv H L view reads writes hs hc hr hw
  rw [← witnessItems_reads view reads writes, ← inv.rflat, List.reverse_reverse]

/-- the paths of the specified witness are strictly ascending -/
theorem witnessSpecL_paths_sorted (hs : H.Sound) (hc : Canon L 0 view)
    (hr : ∀ k ∈ reads, k.length = L) (hw : ∀ kw ∈ writes, kw.1.length = L) :
    (witnessSpecL H L view reads writes).Pairwise (fun a b => bitsLt a.path b.path = true) := by
  have inv := witnessSpecL_inv H L view reads writes hs hc hr hw
  have := inv.sorted
  rwa [List.pairwise_reverse] at this

/-- **(b)** the specified witness passes the argument checks of `verify_update`: roots match, paths strictly
ascending, every path with non-empty, strictly ascending, in-scope operations. -/
theorem witnessUpdates_checkPaths (hs : H.Sound) (hc : Canon L 0 view) (hlen : ∀ kv ∈ view, kv.1.length = L)
    (hr : ∀ k ∈ reads, k.length = L) (hw : ∀ kw ∈ writes, kw.1.length = L) :
    checkPaths (nodeAt H L 0 view) none (witnessUpdatesL H L view reads writes) = none := by
  have inv := witnessSpecL_inv H L view reads writes hs hc hr hw
  have hvs : ∀ w ∈ witnessSpecL H L view reads writes, w.writes ≠ [] →
      (verifiedOf H L (nodeAt H L 0 view) w).path = w.path ∧
      (verifiedOf H L (nodeAt H L 0 view) w).root = nodeAt H L 0 view := by
    intro w hmem hne
    have := verifiedOf_spec H L view reads writes hs hc hlen hr hw w hmem
      (by intro e; exact hne (List.append_eq_nil_iff.mp e).2)
    exact ⟨this.2.2.1, this.2.2.2⟩
  apply checkPaths_of
  · intro p hp
    obtain ⟨w, hmem, hne, rfl⟩ := (mem_witnessUpdatesL H L view reads writes p).mp hp
    obtain ⟨e1, e2⟩ := hvs w hmem hne
    refine ⟨e2, hne, ?_⟩
    simp only [e1]
    apply checkOps_of
    · intro o ho
      have := (inv.wmem w (List.mem_reverse.mpr hmem) o ho).1
      rw [← this]; exact tp_prefix H L view o.1
    · have hall : ((witnessSpecL H L view reads writes).flatMap (·.writes)).Pairwise KeyLt := by
        rw [← allOps_witnessUpdatesL, allOps_eq_sortedWrites H L view reads writes hs hc hr hw]
        exact sortedWrites_sorted writes
      exact (List.pairwise_flatMap.mp hall).1 w hmem
    · intro p hp; cases hp
  · unfold witnessUpdatesL
    rw [List.pairwise_filterMap]
    apply List.Pairwise.imp_of_mem _ (witnessSpecL_paths_sorted H L view reads writes hs hc hr hw)
    intro a b ha hb hab pa hpa pb hpb
    simp only [updateOf] at hpa hpb
    split at hpa
    · cases hpa
    · rename_i hna
      split at hpb
      · cases hpb
      · rename_i hnb
        injection hpa with hpa
        injection hpb with hpb
        subst hpa; subst hpb
        simp only
        rw [(hvs a ha (by intro e; rw [e] at hna; simp at hna)).1,
          (hvs b hb (by intro e; rw [e] at hnb; simp at hnb)).1]
        exact hab
  · intro q hq; cases hq

/-! ### (c) the replay gives the root of the updated set -/

theorem updatedSet_congr {S S' : List (Key × VH)} {ops ops' : List (Key × Option VH)}
    (h : ∀ x, x ∈ ops ↔ x ∈ ops') (U : UpdatedSet S ops S') : UpdatedSet S ops' S' := by
  refine ⟨U.sorted, ?_⟩
  intro k v
  rw [U.mem k v]
  constructor
  · rintro (h1 | ⟨h1, h2⟩)
    · exact Or.inl ((h _).mp h1)
    · exact Or.inr ⟨h1, fun o ho => h2 o ((h o).mpr ho)⟩
  · rintro (h1 | ⟨h1, h2⟩)
    · exact Or.inl ((h _).mpr h1)
    · exact Or.inr ⟨h1, fun o ho => h2 o ((h o).mp ho)⟩

theorem updatedSet_unique {S A B : List (Key × VH)} {ops : List (Key × Option VH)}
    (UA : UpdatedSet S ops A) (UB : UpdatedSet S ops B) : A = B := by
  apply sorted_ext A B UA.sorted UB.sorted
  rintro ⟨k, v⟩
  rw [UA.mem, UB.mem]

/-- applying the batch sorted by key is applying the batch (distinct write keys) -/
theorem kvApply_sortedWrites (hs : view.Pairwise KeyLt) (hd : writes.Pairwise (fun a b => a.1 ≠ b.1)) :
    kvApply view (sortedWrites writes) = kvApply view writes := by
  have U1 := kvApply_updatedSet (sortedWrites writes) view hs
    (List.Pairwise.imp (fun {a b} h => bl_ne h) (sortedWrites_sorted writes))
  have U2 := kvApply_updatedSet writes view hs hd
  exact updatedSet_unique (updatedSet_congr (mem_sortedWrites writes hd) U1) U2

/-- **(c)** replaying the specified witness through `verify_update` yields the root of the updated key-value
set — the root the store reports for the session (C02). -/
theorem witnessUpdates_replay (hs : H.Sound) (hc : Canon L 0 view) (hlen : ∀ kv ∈ view, kv.1.length = L)
    (hr : ∀ k ∈ reads, k.length = L) (hw : ∀ kw ∈ writes, kw.1.length = L)
    (hd : writes.Pairwise (fun a b => a.1 ≠ b.1)) :
    pathVerifyUpdate H L (nodeAt H L 0 view) (witnessUpdatesL H L view reads writes)
      = .ok (nodeAt H L 0 (kvApply view writes)) := by
  have hsorted : view.Pairwise KeyLt :=
    canon_sorted L 0 view [] hc (by intro kv h; rw [hlen kv h]; omega) (by intro kv _; rfl)
  have hops := allOps_eq_sortedWrites H L view reads writes hs hc hr hw
  have inv := witnessSpecL_inv H L view reads writes hs hc hr hw
  by_cases hpne : witnessUpdatesL H L view reads writes = []
  · -- no writes at all: `verify_update` of no paths answers the base root
    have hw0 : writes = [] := by
      rw [hpne] at hops
      cases hwr : writes with
      | nil => rfl
      | cons x xs =>
        have : x ∈ sortedWrites writes := (mem_sortedWrites writes hd x).mpr (by rw [hwr]; exact List.mem_cons_self)
        rw [← hops] at this
        simp [allOps] at this
    rw [hpne, hw0]
    rfl
  have hctx : GlueCtx H L view (witnessUpdatesL H L view reads writes) := by
    refine ⟨hs, hc, hlen, ?_, ?_, witnessUpdates_checkPaths H L view reads writes hs hc hlen hr hw⟩
    · intro p hp
      obtain ⟨w, hmem, hwne, rfl⟩ := (mem_witnessUpdatesL H L view reads writes p).mp hp
      have := verifiedOf_spec H L view reads writes hs hc hlen hr hw w hmem
        (by intro e; exact hwne (List.append_eq_nil_iff.mp e).2)
      exact ⟨w.proof, w.firstKey, this.2.1⟩
    · intro p hp o ho
      obtain ⟨w, hmem, _, rfl⟩ := (mem_witnessUpdatesL H L view reads writes p).mp hp
      have := (inv.wmem w (List.mem_reverse.mpr hmem) o ho).2
      exact item_len L view reads writes hr hw _ this
  rw [pathVerifyUpdate_eq_kvApply hctx hpne, hops, kvApply_sortedWrites view writes hsorted hd]

end Main

end Nomt.Api
