import NomtModel.Api.DeltaWorkerCompletion
import NomtModel.Api.DeltaBuildLemmas
/-!
Runs of the worker mirror (C09): for every schedule — lookups answered eagerly / by a pending leaf load / by a
pending overflow read, completions of in-flight requests in ANY order — no panic site is reached; when nothing is in
flight any more no request is left (`requests` is empty: `Join` returns, the worker can shut down) and the priors are
exactly what the run-to-completion mirror `Dlt.lookupAll` of `Api/DeltaBuild.lean` computes.
-/
namespace Nomt.Wk
open Nomt
variable {V : Type}

/-- nothing is in flight -/
def Quiescent (w : W V) : Prop := ∀ ud, ¬ Enabled w ud

/-- **no request is ever stuck**: as long as a request is left, an I/O command is in flight -/
theorem quiescent_empty {val : Key → Option V} {w : W V} (h : Inv val w) (hq : Quiescent w) : w.reqs = [] := by
  cases hr : w.reqs with
  | nil => rfl
  | cons e rest =>
    exfalso
    obtain ⟨ud, rq⟩ := e
    have hmem : (ud, rq) ∈ w.reqs := by rw [hr]; exact List.mem_cons_self ..
    cases rq with
    | ovf r i => exact hq ud ⟨_, rget_of_mem h.keys hmem, rfl⟩
    | main l k =>
      have hlook := h.mainOk ud l k hmem
      cases l with
      | initial ov => exact hq ud ⟨_, rget_of_mem h.keys hmem, rfl⟩
      | done => exact hlook
      | overflow rd im =>
        cases im with
        | some i => exact hq ud ⟨_, rget_of_mem h.keys hmem, rfl⟩
        | none =>
          obtain ⟨rok, hlt, hout⟩ := hlook
          have hlt' := hlt (by simp)
          have hna : rd.proc ∉ rd.arrived := fun ha => by have := rok.arr _ ha; omega
          obtain ⟨u, hu⟩ := hout rd.proc (Nat.le_refl _) hlt' hna
          exact hq u ⟨_, rget_of_mem h.keys hu, rfl⟩

theorem inv_init (val : Key → Option V) : Inv val ({} : W V) :=
  ⟨⟨List.nodup_nil, (fun _ _ _ g => by cases g), (fun _ _ _ g => by cases g), Nat.zero_le _, (fun _ _ _ g => by cases g),
    (fun _ _ _ _ g => by cases g), (fun _ _ _ g => by cases g), rfl, KSorted.nil, (fun _ _ g => by cases g)⟩,
   Or.inl rfl, (fun _ => rfl), (fun e => by cases e)⟩

theorem core_congr {val : Key → Option V} {w w' : W V} {rel : Option Nat} (h : Core val w rel) (h1 : w'.reqs = w.reqs)
    (h2 : w'.priors = w.priors) (h3 : w'.reqIdx = w.reqIdx) (h4 : w'.ovfIdx = w.ovfIdx) (h5 : w'.dormant = w.dormant) :
    Core val w' rel := by
  refine ⟨?_, ?_, ?_, ?_, ?_, ?_, ?_, ?_, ?_, ?_⟩
  · rw [h1]; exact h.keys
  · rw [h1, h3]; exact h.mainLt
  · rw [h1, h4]; exact h.ovfGt
  · rw [h3, h4]; exact h.sep
  · rw [h1]; exact h.ovfMain
  · rw [h1]; exact h.ovfInj
  · rw [h1]; exact h.mainOk
  · rw [h1, h5]; exact h.dorm
  · rw [h2]; exact h.ps
  · rw [h2]; exact h.pv

/-- `start_shutdown` keeps the invariant -/
theorem startShutdown_inv {val : Key → Option V} {w : W V} (h : Inv val w) : Inv val w.startShutdown := by
  unfold W.startShutdown
  by_cases he : w.reqs.isEmpty = true
  · rw [if_pos he]
    have he' : w.reqs = [] := List.isEmpty_iff.1 he
    exact ⟨core_congr h.toCore rfl rfl rfl rfl rfl, Or.inr he', (fun e => by cases e), (fun _ _ => rfl)⟩
  · rw [if_neg he]
    have hne : w.reqs ≠ [] := fun e => he (List.isEmpty_iff.2 e)
    have hl : w.storeLive = true := by
      rcases h.store with g | g
      · exact g
      · exact absurd g hne
    exact ⟨core_congr h.toCore rfl rfl rfl rfl rfl, Or.inl hl, (fun e => by cases e), (fun _ e => absurd e hne)⟩

/-- a schedule the environment can produce: lookups (before the command channel is closed) answered in one of the three
ways with a well-formed layout, completions only for requests in flight -/
def Sched (val : Key → Option V) : W V → List Ev → Prop
  | _, [] => True
  | w, .lookup k sh :: rest =>
    w.shutdown = false ∧ ShapeOk sh ∧ ∀ w', w.step val (.lookup k sh) = .ok w' → Sched val w' rest
  | w, .complete ud :: rest => Enabled w ud ∧ ∀ w', w.step val (.complete ud) = .ok w' → Sched val w' rest

def runEvs (val : Key → Option V) : W V → List Ev → Outcome Unit (W V)
  | w, [] => .ok w
  | w, ev :: rest =>
    match w.step val ev with
    | .ok w' => runEvs val w' rest
    | .err e => .err e
    | .panic s => .panic s

def lookedUp : List Ev → List Key
  | [] => []
  | .lookup k _ :: rest => k :: lookedUp rest
  | .complete _ :: rest => lookedUp rest

/-- the keys `K` looked up so far are exactly the keys with a prior or a pending request -/
structure Cover (w : W V) (K : List Key) : Prop where
  all : ∀ k ∈ K, (kvGet w.priors k).isSome = true ∨ ∃ id l, (id, Req.main l k) ∈ w.reqs
  pri : ∀ k, (kvGet w.priors k).isSome = true → k ∈ K
  pend : ∀ id l k, (id, Req.main l k) ∈ w.reqs → k ∈ K

theorem cover_step {w w' : W V} {K : List Key} (c : Cover w K) (r : StepRel w w') : Cover w' K := by
  refine ⟨?_, ?_, ?_⟩
  · intro k hk
    rcases c.all k hk with g | ⟨id, l, g⟩
    · exact Or.inl (r.pri_mono k g)
    · rcases r.main_fwd id l k g with g' | ⟨l', g'⟩
      · exact Or.inl g'
      · exact Or.inr ⟨id, l', g'⟩
  · intro k hk
    rcases r.pri_back k hk with g | ⟨id, l, g⟩
    · exact c.pri k g
    · exact c.pend id l k g
  · intro id l k g
    obtain ⟨l', g'⟩ := r.main_back id l k g
    exact c.pend id l' k g'

/-- **every schedule**: no panic, the invariant holds, the looked-up keys are covered -/
theorem run_spec {val : Key → Option V} (evs : List Ev) {w : W V} (h : Inv val w) (hs : Sched val w evs)
    (hroom : w.reqIdx + 129 * (evs.length + 1) ≤ w.ovfIdx) (K : List Key) (c : Cover w K) :
    ∃ w', runEvs val w evs = .ok w' ∧ Inv val w' ∧ Cover w' ((lookedUp evs).reverse ++ K) ∧
      (w.shutdown = true → w'.shutdown = true) := by
  induction evs generalizing w K with
  | nil => exact ⟨w, rfl, h, by simpa [lookedUp] using c, fun e => e⟩
  | cons ev rest ih =>
    have hroom1 : w.reqIdx + 129 ≤ w.ovfIdx := by simp only [List.length_cons] at hroom; omega
    cases ev with
    | lookup k sh =>
      obtain ⟨hsd, hsh, hnext⟩ := hs
      obtain ⟨w1, a1, a2, a3, a4, a5, a6⟩ := handleLookup_inv h hsd k sh hsh hroom1
      have c1 : Cover w1 (k :: K) := by
        rcases a6 with ⟨p, r⟩ | ⟨p, l, r, hfresh⟩
        · refine ⟨?_, ?_, ?_⟩
          · intro k' hk'
            rw [p, r]
            rcases List.mem_cons.1 hk' with rfl | hk'
            · exact Or.inl ((isSome_kvInsert _ _ _ _).2 (Or.inl rfl))
            · rcases c.all k' hk' with g | g
              · exact Or.inl ((isSome_kvInsert _ _ _ _).2 (Or.inr g))
              · exact Or.inr g
          · intro k' hk'
            rw [p] at hk'
            rcases (isSome_kvInsert _ _ _ _).1 hk' with g | g
            · rw [g]; exact List.mem_cons_self ..
            · exact List.mem_cons_of_mem _ (c.pri k' g)
          · intro id l k' g
            rw [r] at g
            exact List.mem_cons_of_mem _ (c.pend id l k' g)
        · have hmem : ∀ e, e ∈ w1.reqs ↔ e = (w.reqIdx, Req.main l k) ∨ e ∈ w.reqs := by
            intro e
            rw [r, mem_rput]
            constructor
            · rintro (g | ⟨g, _⟩)
              · exact Or.inl g
              · exact Or.inr g
            · rintro (g | g)
              · exact Or.inl g
              · exact Or.inr ⟨g, hfresh e g⟩
          refine ⟨?_, ?_, ?_⟩
          · intro k' hk'
            rcases List.mem_cons.1 hk' with rfl | hk'
            · exact Or.inr ⟨w.reqIdx, l, (hmem _).2 (Or.inl rfl)⟩
            · rcases c.all k' hk' with g | ⟨id, l', g⟩
              · left; rw [p]; exact g
              · exact Or.inr ⟨id, l', (hmem _).2 (Or.inr g)⟩
          · intro k' hk'
            rw [p] at hk'
            exact List.mem_cons_of_mem _ (c.pri k' hk')
          · intro id l' k' g
            rcases (hmem _).1 g with g | g
            · cases g; exact List.mem_cons_self ..
            · exact List.mem_cons_of_mem _ (c.pend id l' k' g)
      obtain ⟨w', b1, b2, b3, b4⟩ := ih a2 (hnext w1 a1) (by simp only [List.length_cons] at hroom; omega) (k :: K) c1
      refine ⟨w', by simp [runEvs, W.step, a1, b1], b2, ?_, fun e => by rw [hsd] at e; cases e⟩
      simpa [lookedUp] using b3
    | complete ud =>
      obtain ⟨hen, hnext⟩ := hs
      obtain ⟨w1, a1, a2, a3, a4, a5, a6, a7⟩ := handleCompletion_inv h ud hen hroom1
      obtain ⟨w', b1, b2, b3, b4⟩ := ih a2 (hnext w1 a1) (by simp only [List.length_cons] at hroom; omega) K (cover_step c a7)
      refine ⟨w', by simp [runEvs, W.step, a1, b1], b2, by simpa [lookedUp] using b3, fun e => b4 (by rw [a6]; exact e)⟩

/-- **the worker computes what the run-to-completion mirror computes.**  From the fresh worker, for every schedule of
fewer than 2^56 events: no panic site is reached (`requests.remove(..).unwrap()`, `get_mut(..).unwrap()`, the two
`unreachable!()`, `initial_meta.take().unwrap()`, `self.pages[index]`, the asserts of `AsyncReader::complete`, the
`dormant_request_count` / `overflow_request_index` arithmetic, `store.as_ref().unwrap()`); and once nothing is in flight,
`requests` is empty and `priors` is the map `Dlt.lookupAll` builds for the looked-up keys: `val k` for each of them. -/
theorem worker_refines_lookupAll {val : Key → Option V} (evs : List Ev) (hs : Sched val ({} : W V) evs)
    (hlen : 129 * (evs.length + 1) ≤ MAXU64) :
    ∃ w', runEvs val ({} : W V) evs = .ok w' ∧ Inv val w' ∧
      (Quiescent w' → w'.reqs = [] ∧
        Dlt.lookupAll (fun k => .ok (val k)) [] (lookedUp evs) = .ok w'.priors) := by
  obtain ⟨w', a1, a2, a3, _⟩ := run_spec evs (inv_init val) hs (by simpa using hlen) []
    ⟨(fun k hk => by cases hk), (fun k hk => by simp [kvGet] at hk), (fun _ _ _ g => by cases g)⟩
  refine ⟨w', a1, a2, fun hq => ?_⟩
  have hempty := quiescent_empty a2 hq
  refine ⟨hempty, ?_⟩
  obtain ⟨m, h1, h2, h3⟩ := Dlt.lookupAll_spec (load := fun k => Outcome.ok (val k)) (view := val) (fun _ => rfl) []
    KSorted.nil (lookedUp evs)
  rw [h1]
  congr 1
  apply kv_ext h2 a2.ps
  intro k
  rw [h3]
  by_cases hk : k ∈ lookedUp evs
  · rw [if_pos hk]
    have hk' : k ∈ (lookedUp evs).reverse ++ [] := by simpa using hk
    rcases a3.all k hk' with g | ⟨id, l, g⟩
    · cases hg : kvGet w'.priors k with
      | none => rw [hg] at g; cases g
      | some v => rw [a2.pv k v hg]
    · rw [hempty] at g; cases g
  · rw [if_neg hk]
    cases hg : kvGet w'.priors k with
    | none => rfl
    | some v =>
      have := a3.pri k (by rw [hg]; rfl)
      exact absurd (by simpa using this) hk

/-- after `start_shutdown` and the remaining completions the worker is shut down: `store = None` (the completion
stream ends) and the final `assert!(worker.is_shut_down())` holds -/
theorem shutdown_completes {val : Key → Option V} {w : W V} (h : Inv val w) (hsd : w.shutdown = true) (hq : Quiescent w) :
    w.reqs = [] ∧ w.storeLive = false :=
  ⟨quiescent_empty h hq, h.down hsd (quiescent_empty h hq)⟩

end Nomt.Wk
