import NomtModel.Api.OvlIndex
/-!
The invariant of the overlay heap (what every `Index` built by `LiveOverlay::finish` satisfies) and the
chain lemmas it is stated with.  (Helper lemmas for `Props/C11_Index.lean`.)
-/
namespace Nomt.Ovl
open Nomt
variable {V : Type}

/-! ### chains of change maps -/

theorem firstIdx_lt {c : List (Writes V)} {k : Key} {j : Nat} (h : firstIdx c k = some j) : j < c.length := by
  induction c generalizing j with
  | nil => cases h
  | cons ws rest ih =>
    simp only [firstIdx] at h
    cases hw : wsLookup ws k with
    | some w => rw [hw] at h; cases h; simp
    | none =>
      rw [hw] at h
      cases hf : firstIdx rest k with
      | none => rw [hf] at h; cases h
      | some j' =>
        rw [hf] at h; cases h
        have := ih hf
        simp; omega

/-- the entry the index points at holds the key, and it is the youngest change -/
theorem firstIdx_some {c : List (Writes V)} {k : Key} {j : Nat} (h : firstIdx c k = some j) :
    ∃ ws v, c[j]? = some ws ∧ wsLookup ws k = some v ∧ chainLookup c k = some v := by
  induction c generalizing j with
  | nil => cases h
  | cons ws rest ih =>
    simp only [firstIdx] at h
    cases hw : wsLookup ws k with
    | some w =>
      rw [hw] at h; cases h
      exact ⟨ws, w, rfl, hw, by simp [chainLookup, hw]⟩
    | none =>
      rw [hw] at h
      cases hf : firstIdx rest k with
      | none => rw [hf] at h; cases h
      | some j' =>
        rw [hf] at h; cases h
        obtain ⟨ws', v, h1, h2, h3⟩ := ih hf
        exact ⟨ws', v, by simpa using h1, h2, by simp [chainLookup, hw, h3]⟩

theorem chainLookup_none_of_firstIdx {c : List (Writes V)} {k : Key} (h : firstIdx c k = none) :
    chainLookup c k = none := by
  induction c with
  | nil => rfl
  | cons ws rest ih =>
    simp only [firstIdx] at h
    cases hw : wsLookup ws k with
    | some w => rw [hw] at h; cases h
    | none =>
      rw [hw] at h
      simp only [chainLookup, hw]
      apply ih
      cases hf : firstIdx rest k with
      | none => rfl
      | some j => rw [hf] at h; cases h

theorem firstIdx_none_of_chainLookup {c : List (Writes V)} {k : Key} (h : chainLookup c k = none) :
    firstIdx c k = none := by
  cases hf : firstIdx c k with
  | none => rfl
  | some j =>
    obtain ⟨_, _, _, _, h3⟩ := firstIdx_some hf
    rw [h] at h3; cases h3

/-- looking only at the `m` youngest maps of a chain -/
theorem chainLookup_take (c : List (Writes V)) (m : Nat) (k : Key) :
    chainLookup (c.take m) k = match firstIdx c k with
      | some j => if j < m then chainLookup c k else none
      | none => none := by
  induction c generalizing m with
  | nil => simp [chainLookup, firstIdx]
  | cons ws rest ih =>
    cases m with
    | zero => simp only [List.take_zero, chainLookup]; cases firstIdx (ws :: rest) k <;> simp
    | succ m =>
      simp only [List.take_succ_cons, chainLookup, firstIdx]
      cases hw : wsLookup ws k with
      | some w => simp
      | none =>
        simp only
        rw [ih m]
        cases hf : firstIdx rest k with
        | none => rfl
        | some j => simp

theorem chainData_cons (h : Heap V) (i : Nat) (ids : List Nat) :
    chainData h (i :: ids) = (match h[i]? with | some o => o.values | none => []) :: chainData h ids := rfl

theorem chainData_take (h : Heap V) (ids : List Nat) (n : Nat) :
    chainData h (ids.take n) = (chainData h ids).take n := by
  simp [chainData, List.map_take]

theorem chainData_append_heap (h : Heap V) (x : Ov V) {ids : List Nat} (hlt : ∀ a ∈ ids, a < h.length) :
    chainData (h ++ [x]) ids = chainData h ids := by
  unfold chainData
  apply List.map_congr_left
  intro a ha
  rw [List.getElem?_append_left (hlt a ha)]

theorem chainData_getElem? (h : Heap V) (ids : List Nat) (j a : Nat) (o : Ov V) (ha : ids[j]? = some a)
    (ho : h[a]? = some o) : (chainData h ids)[j]? = some o.values := by
  simp [chainData, List.getElem?_map, ha, ho]

/-! ### the invariant -/

/-- what `finish` establishes for the overlay it creates.  `hit`: a key changed somewhere in the creation
chain `o :: o.anc` is indexed with the sequence number of the youngest overlay changing it; `miss`: any other
entry is stale for every live overlay that can ever be built on `o` (with `prune_below` there is none —
`OvTight`).  The sequence number of the overlay at distance `j` is `o.seqn − j`. -/
structure OvInv (h : Heap V) (o : Ov V) : Prop where
  wf : o.index.WF
  le : ∀ e ∈ o.index.bySeqn, e.1 ≤ o.seqn
  ancLen : o.anc.length ≤ o.seqn
  ancLt : ∀ a ∈ o.anc, a < h.length
  parentHead : o.parent = o.anc.head?
  hit : ∀ k j, firstIdx (o.values :: chainData h o.anc) k = some j → kvGet o.index.values k = some (o.seqn - j)
  miss : ∀ k, firstIdx (o.values :: chainData h o.anc) k = none →
    ∀ s, kvGet o.index.values k = some s → s + o.anc.length < o.seqn

/-- with pruning the index holds nothing but the creation chain's entries -/
def OvTight (o : Ov V) : Prop := ∀ k s, kvGet o.index.values k = some s → o.seqn ≤ s + o.anc.length

def HeapInv (h : Heap V) : Prop := ∀ (i : Nat) (o : Ov V), h[i]? = some o → OvInv h o

def HeapTight (h : Heap V) : Prop := ∀ (i : Nat) (o : Ov V), h[i]? = some o → OvTight o

theorem HeapInv.nil : HeapInv ([] : Heap V) := fun i o hi => by simp at hi

theorem OvInv.append {h : Heap V} {o : Ov V} (inv : OvInv h o) (x : Ov V) : OvInv (h ++ [x]) o := by
  refine ⟨inv.wf, inv.le, inv.ancLen, ?_, inv.parentHead, ?_, ?_⟩
  · intro a ha; have := inv.ancLt a ha; simp; omega
  · rw [chainData_append_heap h x inv.ancLt]; exact inv.hit
  · rw [chainData_append_heap h x inv.ancLt]; exact inv.miss

/-- a live overlay that `LiveOverlay::new` can have produced: the `n` strong ancestors are the first `n`
weak ancestors of the parent and `min_seqn = parent.seqn − n` -/
def LiveOK (h : Heap V) (l : Live) : Prop :=
  match l.parent with
  | none => l.anc = []
  | some p => ∃ po, h[p]? = some po ∧ l.anc.length ≤ po.anc.length ∧ l.anc = po.anc.take l.anc.length ∧
      l.minSeqn = po.seqn - l.anc.length

theorem LiveOK.append {h : Heap V} {l : Live} (ok : LiveOK h l) (x : Ov V) : LiveOK (h ++ [x]) l := by
  unfold LiveOK at ok ⊢
  cases hp : l.parent with
  | none => rw [hp] at ok; exact ok
  | some p =>
    rw [hp] at ok
    obtain ⟨po, h1, h2⟩ := ok
    refine ⟨po, ?_, h2⟩
    have : p < h.length := by
      rcases Nat.lt_or_ge p h.length with hlt | hge
      · exact hlt
      · rw [List.getElem?_eq_none hge] at h1; cases h1
    rw [List.getElem?_append_left this]; exact h1

/-! ### `LiveOverlay::new` -/

theorem zipCheck_ok {alive : Nat → Bool} {sups acts used : List Nat} (h : zipCheck alive sups acts = .ok used) :
    used = acts.take used.length ∧ used = sups.take used.length ∧
    used.length = min sups.length acts.length ∧ ∀ a ∈ used, alive a = true := by
  induction sups generalizing acts used with
  | nil => simp [zipCheck] at h; subst h; simp
  | cons sup sups ih =>
    cases acts with
    | nil => simp [zipCheck] at h; subst h; simp
    | cons act acts =>
      simp only [zipCheck] at h
      split at h
      · cases h
      · next ha =>
        split at h
        · cases h
        · next hne =>
          cases hz : zipCheck alive sups acts with
          | error e => rw [hz] at h; cases h
          | ok r =>
            rw [hz] at h
            cases h
            obtain ⟨h1, h2, h3, h4⟩ := ih hz
            have hsa : sup = act := by simpa using hne
            have hal : alive act = true := by simpa using ha
            refine ⟨?_, ?_, ?_, ?_⟩
            · simp only [List.length_cons, List.take_succ_cons]; rw [← h1]
            · simp only [List.length_cons, List.take_succ_cons]; rw [← h2, hsa]
            · simp only [List.length_cons]; omega
            · intro a ha'
              rcases List.mem_cons.1 ha' with e | e
              · subst e; exact hal
              · exact h4 a e

/-- a successful `LiveOverlay::new` yields a well-shaped live overlay -/
theorem new_ok_liveOK {h : Heap V} {alive committed : Nat → Bool} {sup : List Nat} {l : Live}
    (hn : Live.new h alive committed sup = .ok l) : LiveOK h l := by
  unfold Live.new at hn
  cases sup with
  | nil => simp at hn; subst hn; simp [LiveOK]
  | cons p rest =>
    simp only at hn
    cases hp : h[p]? with
    | none => rw [hp] at hn; cases hn
    | some po =>
      rw [hp] at hn
      simp only at hn
      cases hz : zipCheck alive rest po.anc with
      | error e => rw [hz] at hn; cases hn
      | ok used =>
        rw [hz] at hn
        dsimp only at hn
        by_cases hc : chainIncomplete committed (lastParent h po used) = true
        · rw [if_pos hc] at hn; cases hn
        · rw [if_neg hc] at hn
          by_cases hu : po.seqn < used.length
          · rw [if_pos hu] at hn; cases hn
          · rw [if_neg hu] at hn
            cases hn
            obtain ⟨h1, _, h3, _⟩ := zipCheck_ok hz
            refine ⟨po, hp, ?_, h1, rfl⟩
            show used.length ≤ po.anc.length
            omega

end Nomt.Ovl
