import NomtModel.Api.DeltaWorkerSteps
/-!
`handle_completion` keeps the worker invariant for every completion that can arrive (C09); what a step does to the
priors and to the set of pending keys (`StepRel`).
-/
namespace Nomt.Wk
open Nomt
variable {V : Type}

/-- priors only grow, a pending key stays pending until its prior is recorded, nothing else appears -/
structure StepRel (w w' : W V) : Prop where
  pri_mono : ∀ k, (kvGet w.priors k).isSome = true → (kvGet w'.priors k).isSome = true
  main_fwd : ∀ id l k, (id, Req.main l k) ∈ w.reqs →
    (kvGet w'.priors k).isSome = true ∨ ∃ l', (id, Req.main l' k) ∈ w'.reqs
  pri_back : ∀ k, (kvGet w'.priors k).isSome = true →
    (kvGet w.priors k).isSome = true ∨ ∃ id l, (id, Req.main l k) ∈ w.reqs
  main_back : ∀ id l k, (id, Req.main l k) ∈ w'.reqs → ∃ l', (id, Req.main l' k) ∈ w.reqs

theorem isSome_kvInsert (m : Dlt.PMap V) (k k' : Key) (v : Option V) :
    (kvGet (kvInsert m k v) k').isSome = true ↔ k' = k ∨ (kvGet m k').isSome = true := by
  by_cases he : k' = k
  · subst he; simp [kvGet_kvInsert_self]
  · rw [kvGet_kvInsert_other _ _ _ _ he]; simp [he]

theorem pv_insert {val : Key → Option V} {m : Dlt.PMap V} (hpv : ∀ k v, kvGet m k = some v → v = val k) (k : Key) :
    ∀ k' v, kvGet (kvInsert m k (val k)) k' = some v → v = val k' := by
  intro k' v hv
  by_cases he : k' = k
  · subst he
    rw [kvGet_kvInsert_self] at hv
    exact (Option.some.inj hv).symm
  · rw [kvGet_kvInsert_other _ _ _ _ he] at hv
    exact hpv k' v hv

/-- a finished `Main` request without overflow entries is removed and its prior recorded -/
theorem finish_main {val : Key → Option V} {w : W V} (h : Inv val w) (ud : Nat) (l : Look) (k : Key)
    (hmem : (ud, Req.main l k) ∈ w.reqs) (hnd : isDormant (ud, Req.main l k) = false)
    (hno : ∀ u m, (u, Req.ovf ud m) ∈ w.reqs → False) :
    ∃ w', W.afterCompletion { w with reqs := rdel w.reqs ud, priors := kvInsert w.priors k (val k) } none = .ok w' ∧
      Inv val w' ∧ w'.reqIdx = w.reqIdx ∧ w'.ovfIdx = w.ovfIdx ∧ w'.shutdown = w.shutdown ∧ StepRel w w' := by
  have hne : w.reqs ≠ [] := by intro e; rw [e] at hmem; cases hmem
  have hl : w.storeLive = true := by
    rcases h.store with g | g
    · exact g
    · exact absurd g hne
  have hcore : Core val { w with reqs := rdel w.reqs ud, priors := kvInsert w.priors k (val k) } none := by
    have := core_filter h.toCore (fun u => u != ud)
      (fun u r m g _ => by
        simp only [bne_iff_ne, ne_eq]
        intro e; subst e
        exact hno u m g)
      (fun id l' k' u i g _ gu => by
        simp only [bne_iff_ne, ne_eq]
        exact (key_ne_of_kinds h.keys hmem gu).symm)
      (kvInsert w.priors k (val k)) (kvInsert_sorted h.ps _ _) (pv_insert h.pv k) w.dormant
      (by
        rw [← rdel_eq_filter, h.dorm, countP_rdel h.keys isDormant hmem, hnd]
        simp)
    exact this
  obtain ⟨w', a1, a2, a3, a4, a5, a6, a7⟩ := after_none_inv hcore hl
  refine ⟨w', a1, a2, a5, a6, a7, ⟨?_, ?_, ?_, ?_⟩⟩
  · intro k' hk'
    rw [a4]; exact (isSome_kvInsert _ _ _ _).2 (Or.inr hk')
  · intro id l' k' g
    by_cases hid : id = ud
    · subst hid
      have := entry_unique h.keys g hmem
      cases this
      left; rw [a4]; exact (isSome_kvInsert _ _ _ _).2 (Or.inl rfl)
    · right; refine ⟨l', ?_⟩; rw [a3]; exact mem_rdel.2 ⟨g, hid⟩
  · intro k' hk'
    rw [a4] at hk'
    rcases (isSome_kvInsert _ _ _ _).1 hk' with g | g
    · subst g; exact Or.inr ⟨ud, l, hmem⟩
    · exact Or.inl g
  · intro id l' k' g
    rw [a3] at g
    exact ⟨l', (mem_rdel.1 g).1⟩

/-- a `Main` request turns into (or stays) a dormant overflow request, then `resubmit_overflow` runs -/
theorem continue_main {val : Key → Option V} {w : W V} (h : Inv val w) (ud id : Nat) (l : Look) (k : Key)
    (hm : (id, Req.main l k) ∈ w.reqs) (hud : ud = id ∨ ∃ mi, (ud, Req.ovf id mi) ∈ w.reqs)
    (rd' : Reader) (A : RdOk rd')
    (B : ∀ i, rd'.proc ≤ i → i < rd'.req → i ∉ rd'.arrived → ∃ ud', ud' ≠ ud ∧ (ud', Req.ovf id i) ∈ w.reqs)
    (C : ∀ ud' m, (ud', Req.ovf id m) ∈ w.reqs → ud' ≠ ud → rd'.proc ≤ m ∧ m < rd'.req ∧ m ∉ rd'.arrived)
    (d' : Nat) (D : d' = w.dormant + (if isDormant (id, Req.main l k) then 0 else 1))
    (hroom : w.reqIdx + 129 ≤ w.ovfIdx) :
    ∃ w', W.afterCompletion { w with reqs := rput (rdel w.reqs ud) id (Req.main (.overflow rd' none) k), dormant := d' }
        (some id) = .ok w' ∧
      Inv val w' ∧ w'.reqIdx = w.reqIdx ∧ w.ovfIdx ≤ w'.ovfIdx + 128 ∧ w'.ovfIdx ≤ w.ovfIdx ∧ w'.shutdown = w.shutdown ∧
      StepRel w w' := by
  have hne : w.reqs ≠ [] := by intro e; rw [e] at hm; cases hm
  have hl : w.storeLive = true := by
    rcases h.store with g | g
    · exact g
    · exact absurd g hne
  have hcore := core_replace h.toCore ud id l k hm hud rd' A B C d' D
  have hnew : (id, Req.main (.overflow rd' none) k) ∈ rput (rdel w.reqs ud) id (Req.main (.overflow rd' none) k) :=
    mem_rput.2 (Or.inl rfl)
  obtain ⟨w', a1, a2, a3, a4, a5, a6, a7, a8, a9⟩ := after_some_inv hcore hl rd' k hnew hroom
  refine ⟨w', a1, a2, a4, a5, a6, a7, ⟨?_, ?_, ?_, ?_⟩⟩
  · intro k' hk'; rw [a3]; exact hk'
  · intro a l' k' g
    right
    by_cases ha : a = id
    · subst ha
      have := entry_unique h.keys g hm
      cases this
      exact a8 a _ k hnew
    · have hau : a ≠ ud := by
        rcases hud with rfl | ⟨mi, hmi⟩
        · exact ha
        · exact key_ne_of_kinds h.keys g hmi
      exact a8 a l' k' (mem_rput.2 (Or.inr ⟨mem_rdel.2 ⟨g, hau⟩, ha⟩))
  · intro k' hk'; rw [a3] at hk'; exact Or.inl hk'
  · intro a l' k' g
    obtain ⟨l'', g'⟩ := a9 a l' k' g
    rcases mem_rput.1 g' with g' | ⟨g', _⟩
    · cases g'; exact ⟨l, hm⟩
    · exact ⟨l'', (mem_rdel.1 g').1⟩

/-- **`handle_completion`** for a completion that can arrive: no panic site, the invariant is kept -/
theorem handleCompletion_inv {val : Key → Option V} {w : W V} (h : Inv val w) (ud : Nat) (hen : Enabled w ud)
    (hroom : w.reqIdx + 129 ≤ w.ovfIdx) :
    ∃ w', w.handleCompletion val ud = .ok w' ∧ Inv val w' ∧ w'.reqIdx = w.reqIdx ∧ w.ovfIdx ≤ w'.ovfIdx + 128 ∧
      w'.ovfIdx ≤ w.ovfIdx ∧ w'.shutdown = w.shutdown ∧ StepRel w w' := by
  obtain ⟨e, he, hact⟩ := hen
  have hmem := mem_of_rget he
  -- no overflow entry refers to a `Main` request that is not a dormant overflow request
  have hnoovf : ∀ l k, (ud, Req.main l k) ∈ w.reqs → isDormant (ud, Req.main l k) = false →
      ∀ u m, (u, Req.ovf ud m) ∈ w.reqs → False := by
    intro l k g hnd u m gu
    obtain ⟨rd0, k0, g1, _⟩ := h.ovfMain u ud m gu
    have := entry_unique h.keys g g1
    cases this
    cases hnd
  cases e with
  | main l k =>
    unfold W.handleCompletion
    rw [he]
    have hlook := h.mainOk ud l k hmem
    cases l with
    | done => exact absurd hlook (by simp [LookOk])
    | initial ov =>
      cases ov with
      | none =>
        obtain ⟨w', a1, a2, a3, a4, a5, a6⟩ := finish_main h ud _ k hmem rfl (hnoovf _ k hmem rfl)
        exact ⟨w', by simpa [Look.tryFinish] using a1, a2, a3, by omega, by omega, a5, a6⟩
      | some L =>
        have hwf : L.WF := hlook L rfl
        obtain ⟨w', a1, a2, a3, a4, a5, a6, a7⟩ := continue_main h ud ud _ k hmem (Or.inl rfl) { lay := L } (rdOk_new hwf)
          (fun i a b _ => by simp at b)
          (fun u m gu _ => (hnoovf _ k hmem rfl u m gu).elim) (w.dormant + 1) (by simp [isDormant]) hroom
        refine ⟨w', ?_, a2, a3, a4, a5, a6, a7⟩
        simp only [Look.tryFinish]
        exact a1
    | overflow rd im =>
      cases im with
      | none => simp [Req.active] at hact
      | some i0 =>
        obtain ⟨rok, hi0, hreq, hproc, harr⟩ := hlook
        subst hi0
        obtain ⟨fin, rd', hc, hfalse, _⟩ := complete_spec rok 0 (by omega) (by omega) (by rw [harr]; simp)
        cases fin with
        | true =>
          obtain ⟨w', a1, a2, a3, a4, a5, a6⟩ := finish_main h ud _ k hmem rfl (hnoovf _ k hmem rfl)
          exact ⟨w', by simpa [Look.tryFinish, hc] using a1, a2, a3, by omega, by omega, a5, a6⟩
        | false =>
          obtain ⟨rok', _, hreq', _, hout, _⟩ := hfalse rfl
          obtain ⟨w', a1, a2, a3, a4, a5, a6, a7⟩ := continue_main h ud ud _ k hmem (Or.inl rfl) rd' rok'
            (fun i a b c => by
              have := hout i a (by omega) c
              omega)
            (fun u m gu _ => (hnoovf _ k hmem rfl u m gu).elim) (w.dormant + 1) (by simp [isDormant]) hroom
          refine ⟨w', ?_, a2, a3, a4, a5, a6, a7⟩
          simp only [Look.tryFinish, hc, Bool.false_eq_true, if_false]
          exact a1
  | ovf rid mi =>
    obtain ⟨rd, k, hm, hp1, hp2, hp3⟩ := h.ovfMain ud rid mi hmem
    have hne : rid ≠ ud := key_ne_of_kinds h.keys hm hmem
    have hget : rget (rdel w.reqs ud) rid = some (Req.main (.overflow rd none) k) :=
      rget_of_mem (keys_rdel h.keys ud) (mem_rdel.2 ⟨hm, hne⟩)
    obtain ⟨rok, _, hout⟩ := h.mainOk rid _ k hm
    obtain ⟨fin, rd', hc, hfalse, htrue⟩ := complete_spec rok mi hp1 hp2 hp3
    -- the other overflow entries of `rid`
    have hother : ∀ u m, (u, Req.ovf rid m) ∈ w.reqs → u ≠ ud → m ≠ mi ∧ rd.proc ≤ m ∧ m < rd.req ∧ m ∉ rd.arrived := by
      intro u m gu gne
      obtain ⟨rd0, k0, g1, g2, g3, g4⟩ := h.ovfMain u rid m gu
      have := entry_unique h.keys g1 hm
      cases this
      refine ⟨?_, g2, g3, g4⟩
      intro e; subst e
      exact gne (h.ovfInj u ud rid m gu hmem)
    unfold W.handleCompletion
    rw [he]
    simp only [hget, Look.tryFinish, hc]
    cases fin with
    | true =>
      have hd1 : w.dormant ≠ 0 := by
        rw [h.dorm, countP_rdel h.keys isDormant hm]
        simp [isDormant]
      simp only [if_true, hd1, if_false]
      -- remove both entries
      have hl : w.storeLive = true := by
        rcases h.store with g | g
        · exact g
        · rw [g] at hm; cases hm
      have hcore : Core val { w with reqs := rdel (rdel w.reqs ud) rid, dormant := w.dormant - 1,
                                     priors := kvInsert w.priors k (val k) } none := by
        rw [rdel_rdel_eq_filter]
        refine core_filter h.toCore (fun u => u != ud && u != rid) ?_ ?_ _ (kvInsert_sorted h.ps _ _) (pv_insert h.pv k) _ ?_
        · intro u r m gu hk
          simp only [Bool.and_eq_true, bne_iff_ne, ne_eq] at hk ⊢
          obtain ⟨rd0, k0, g1, _⟩ := h.ovfMain u r m gu
          refine ⟨key_ne_of_kinds h.keys g1 hmem, ?_⟩
          intro e; subst e
          obtain ⟨q1, q2, q3, q4⟩ := hother u m gu hk.1
          have hmt : m < rd.lay.total := by
            have := rok.rk; have := rok.wf.le rd.proc; omega
          rcases htrue rfl m q2 hmt with g | g
          · exact q1 g
          · exact q4 g
        · intro id l' k' u i g hk gu
          simp only [Bool.and_eq_true, bne_iff_ne, ne_eq] at hk ⊢
          refine ⟨?_, (key_ne_of_kinds h.keys hm gu).symm⟩
          intro e; subst e
          have := entry_unique h.keys gu hmem
          cases this
          exact hk.2 rfl
        · rw [← rdel_rdel_eq_filter, h.dorm, countP_rdel h.keys isDormant hmem,
            countP_rdel (keys_rdel h.keys ud) isDormant (mem_rdel.2 ⟨hm, hne⟩)]
          simp [isDormant]
      obtain ⟨w', a1, a2, a3, a4, a5, a6, a7⟩ := after_none_inv hcore hl
      have e6 : w'.ovfIdx = w.ovfIdx := a6
      refine ⟨w', a1, a2, a5, by omega, by omega, a7, ⟨?_, ?_, ?_, ?_⟩⟩
      · intro k' hk'
        rw [a4]; exact (isSome_kvInsert _ _ _ _).2 (Or.inr hk')
      · intro id l' k' g
        by_cases hid : id = rid
        · subst hid
          have := entry_unique h.keys g hm
          cases this
          left; rw [a4]; exact (isSome_kvInsert _ _ _ _).2 (Or.inl rfl)
        · right; refine ⟨l', ?_⟩; rw [a3]
          exact mem_rdel.2 ⟨mem_rdel.2 ⟨g, key_ne_of_kinds h.keys g hmem⟩, hid⟩
      · intro k' hk'
        rw [a4] at hk'
        rcases (isSome_kvInsert _ _ _ _).1 hk' with g | g
        · subst g; exact Or.inr ⟨rid, _, hm⟩
        · exact Or.inl g
      · intro id l' k' g
        rw [a3] at g
        exact ⟨l', (mem_rdel.1 (mem_rdel.1 g).1).1⟩
    | false =>
      obtain ⟨rok', _, hreq', _, hout', hkeep⟩ := hfalse rfl
      simp only [Bool.false_eq_true, if_false]
      obtain ⟨w', a1, a2, a3, a4, a5, a6, a7⟩ := continue_main h ud rid _ k hm (Or.inr ⟨mi, hmem⟩) rd' rok'
        (fun i a b c => by
          obtain ⟨q1, q2, q3⟩ := hout' i a (by omega) c
          obtain ⟨u, hu⟩ := hout i q1 (by omega) q2
          refine ⟨u, ?_, hu⟩
          intro e; subst e
          have := entry_unique h.keys hu hmem
          cases this
          exact q3 rfl)
        (fun u m gu gne => by
          obtain ⟨q1, q2, q3, q4⟩ := hother u m gu gne
          obtain ⟨r1, r2⟩ := hkeep m q2 q1 q4
          exact ⟨r1, by omega, r2⟩)
        w.dormant (by simp [isDormant]) hroom
      exact ⟨w', a1, a2, a3, a4, a5, a6, a7⟩

end Nomt.Wk
