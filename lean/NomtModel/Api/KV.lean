import NomtModel.Core.Bits
/-!
The sequential key-value model (specification of C01): a strictly sorted association list, batches of
writes applied one key at a time.  Executable (the driver uses it) and the subject of T1.x.
-/
namespace Nomt
variable {VH : Type}

abbrev KVL (VH : Type) := List (Key × VH)

def kvGet : KVL VH → Key → Option VH
  | [], _ => none
  | (k', v) :: rest, k => if k' == k then some v else kvGet rest k

/-- insert or overwrite, keeping the list sorted by `bitsLt` -/
def kvInsert : KVL VH → Key → VH → KVL VH
  | [], k, v => [(k, v)]
  | (k', v') :: rest, k, v =>
    if k' == k then (k, v) :: rest
    else if bitsLt k k' then (k, v) :: (k', v') :: rest
    else (k', v') :: kvInsert rest k v

def kvErase : KVL VH → Key → KVL VH
  | [], _ => []
  | (k', v') :: rest, k => if k' == k then rest else (k', v') :: kvErase rest k

def kvWrite (m : KVL VH) (k : Key) : Option VH → KVL VH
  | some v => kvInsert m k v
  | none => kvErase m k

/-- apply a batch (any order, later entries win) -/
def kvApply (m : KVL VH) (ws : List (Key × Option VH)) : KVL VH :=
  ws.foldl (fun m kw => kvWrite m kw.1 kw.2) m

def wsLookup : List (Key × Option VH) → Key → Option (Option VH)
  | [], _ => none
  | (k', w) :: rest, k => if k' == k then some w else wsLookup rest k

end Nomt
