import NomtModel.Api.Shards
import NomtModel.Api.WitnessGroup
/-!
Mirror of the work splitting of one merkle update across the commit workers and of the assembly of the session
witness (`nomt/src/merkle/mod.rs`: `Updater::update_and_prove`, `UpdateHandle::join`; `nomt/src/merkle/worker.rs`:
`RangeUpdater::new / handle_completion / update`, the root-page pass of `update`).

What is mirrored (same order of tests, every Rust panic site a `none`):
* `rangeStart` / `rangeEnd` — `RangeUpdater::new`: the index range of the sorted operation list between the
  minimal key path of the region's first child page and the maximal key path of its last one
  (`binary_search_by_key(..).unwrap_or_else(|i| i)` and `partition_point` on a sorted, duplicate-free slice are both
  "length of the longest prefix below the bound", written as `takeWhile`);
* `workerLoop` — the loop of `RangeUpdater::update` seen through its completions (the seeker's pipelining —
  `pushes`, `skips`, warm-ups — only decides WHEN the completion for `read_write[start_index]` is handled, the
  sequence of `handle_completion(start_index, seek(read_write[start_index]))` calls is the one below) with
  `handle_completion`: batch size by `subtrie_contains`, `batch_starts_in_our_range`, `is_non_exclusive`;
* `workerOut` — what a worker hands to `join`: `witnessed_start` (`get_or_insert` at its first OWNED batch) and
  one `(path, proof, batch_size)` per owned batch;
* `join` — `UpdateHandle::join`, in the order the outputs are received; `joinOld` — the same before the repair of
  F3 (a running `witnessed_start` across outputs); `workerOutPinned` — the red-team change (`witnessed_start` pinned
  at `range_start`);
* `pendingOf` / `composeAt` — the root-page pass: the deferred sub-tries of the root page, the child-page roots the
  workers report, hashed up with the compaction rule of `page_walker::compact_step` (`combine`).

The trie work of a worker (seek, `page_walker`) is NOT mirrored: the terminal position of a key is a parameter
`tp`, the path proof a parameter `prover` (instantiated with the specification `proveSpec`), a child-page root is
`nodeAt` of the updated set (the specification); the `shards` differential compares all of them with the real code.
-/
namespace Nomt.Split
open Nomt Nomt.Api

/-- `merkle::KeyReadWrite` (values are value hashes) -/
inductive RW (VH : Type) where
  | read
  | write (v : Option VH)
  | readWrite (v : Option VH)
deriving DecidableEq, Repr

variable {Node VH : Type}

def RW.isRead : RW VH → Bool
  | .read => true | .write _ => false | .readWrite _ => true
def RW.isWrite : RW VH → Bool
  | .read => false | .write _ => true | .readWrite _ => true
def RW.written : RW VH → Option (Option VH)
  | .read => none | .write v => some v | .readWrite v => some v

abbrev Op (VH : Type) := Key × RW VH

/-! ### key ranges of the regions -/

/-- the six bits of a child index, most significant first -/
def childBits (c : Nat) : List Bool := (List.range 6).map (fun i => c.testBit (5 - i))

/-- big-endian value of a bit string -/
def bitsNat : List Bool → Nat
  | [] => 0
  | b :: rest => b.toNat * 2 ^ rest.length + bitsNat rest

/-- the root child (first six bits) a key or position falls under -/
def childOf (k : List Bool) : Nat := bitsNat (k.take 6)

/-- `PageId::min_key_path` of the root child `c` (`L` = key length, 256 in the code) -/
def minKeyPath (L c : Nat) : Key := childBits c ++ List.replicate (L - 6) false
/-- `PageId::max_key_path` of the maximal descendant of the root child `c` -/
def maxKeyPath (L c : Nat) : Key := childBits c ++ List.replicate (L - 6) true

/-- first and last root child of worker `i` out of `n` (`shard_regions`) -/
def firstChild (n i : Nat) : Nat := (Shards.region n i).1
def lastChild (n i : Nat) : Nat := (Shards.region n i).1 + (Shards.region n i).2 - 1

/-- `range_start` of `RangeUpdater::new` -/
def rangeStart (L n i : Nat) (ops : List (Op VH)) : Nat :=
  (ops.takeWhile (fun o => bitsLt o.1 (minKeyPath L (firstChild n i)))).length

/-- `range_end` of `RangeUpdater::new` (`partition_point(|(key, _)| *key <= key_range_end)`) -/
def rangeEnd (L n i : Nat) (ops : List (Op VH)) : Nat :=
  (ops.takeWhile (fun o => !bitsLt (maxKeyPath L (lastChild n i)) o.1)).length

/-- `region.contains_exclusive(page_id)` for the page a terminal at `pos` lives in: the seeker reports no page for
the root position and the root page for depths 1…6 (below every `exclusive_min`); deeper positions live in a page
under the root child `childOf pos`, and `PageId`s are ordered lexicographically by their child indices. -/
def exclusivePage (n i : Nat) (pos : List Bool) : Bool :=
  decide (6 < pos.length) && decide (firstChild n i ≤ childOf pos) && decide (childOf pos ≤ lastChild n i)

/-! ### one worker -/

structure Batch where
  start : Nat
  next : Nat
  pos : List Bool
  /-- `batch_starts_in_our_range` -/
  owned : Bool
  /-- `is_non_exclusive` (only computed for owned batches) -/
  nonExcl : Bool
  hasWrites : Bool
deriving DecidableEq, Repr

/-- `TriePosition::subtrie_contains` -/
def subtrieContains (pos : List Bool) (k : Key) : Bool := pos.isPrefixOf k

/-- the batch size `handle_completion` computes -/
def batchSize (pos : List Bool) (ops : List (Op VH)) (start : Nat) : Nat :=
  ((ops.drop start).takeWhile (fun o => subtrieContains pos o.1)).length

/-- `handle_completion` for the completion of `read_write[start]` -/
def handleCompletion (tp : Key → List Bool) (ops : List (Op VH)) (excl : List Bool → Bool) (rs start : Nat) :
    Option Batch :=
  match ops[start]? with
  | none => none                       -- `read_write[next_push]` out of bounds
  | some (k, _) =>
    let pos := tp k
    let inRange := start != rs || rs == 0 ||
      !(match ops[start - 1]? with | some (k', _) => subtrieContains pos k' | none => false)
    let bsz := batchSize pos ops start
    let hasWrites := ((ops.drop start).take bsz).any (fun o => o.2.isWrite)
    some { start := start, next := start + bsz, pos := pos, owned := inRange,
           nonExcl := inRange && !excl pos, hasWrites := hasWrites }

/-- the completions a worker handles, in order (`fuel` bounds the number of iterations; a batch of size 0 would
underflow `min(pushes, batch_size) - 1`) -/
def workerLoop (tp : Key → List Bool) (ops : List (Op VH)) (excl : List Bool → Bool) (rs re : Nat) :
    (fuel : Nat) → (start : Nat) → Option (List Batch)
  | 0, _ => none
  | fuel+1, start =>
    if start < re then
      match handleCompletion tp ops excl rs start with
      | none => none
      | some b =>
        if b.next = start then none
        else (workerLoop tp ops excl rs re fuel b.next).map (b :: ·)
    else some []

/-- worker `i` of `n` -/
def runWorker (L n i : Nat) (tp : Key → List Bool) (ops : List (Op VH)) : Option (List Batch) :=
  workerLoop tp ops (exclusivePage n i) (rangeStart L n i ops) (rangeEnd L n i ops) (ops.length + 1)
    (rangeStart L n i ops)

/-- what `join` receives from one worker -/
structure WorkerOut (Node VH : Type) where
  witnessedStart : Option Nat
  /-- `(WitnessedPath.path, WitnessedPath.inner, batch_size)`; the `leaf_data` of the tuple is the leaf of the
  proof's terminal -/
  paths : List (List Bool × PathProof Node VH × Nat)

def pathsOf (prover : Key → PathProof Node VH) (ops : List (Op VH)) (bs : List Batch) :
    List (List Bool × PathProof Node VH × Nat) :=
  (bs.filter (·.owned)).filterMap fun b => ops[b.start]?.map fun o => (b.pos, prover o.1, b.next - b.start)

def workerOut (prover : Key → PathProof Node VH) (ops : List (Op VH)) (bs : List Batch) : WorkerOut Node VH :=
  { witnessedStart := (bs.filter (·.owned)).head?.map (·.start), paths := pathsOf prover ops bs }

/-- the seeded change found by two red-team rounds: `witnessed_start` pinned at the start of the worker's range -/
def workerOutPinned (prover : Key → PathProof Node VH) (ops : List (Op VH)) (rs : Nat) (bs : List Batch) :
    WorkerOut Node VH :=
  { witnessedStart := some rs, paths := pathsOf prover ops bs }

/-! ### `UpdateHandle::join` -/

/-- `nomt_core::witness::Witness`: path proofs, and reads / writes with the index of their path -/
structure Assembled (Node VH : Type) where
  paths : List (List Bool × PathProof Node VH) := []
  reads : List (Key × Option VH × Nat) := []
  writes : List (Key × Option VH × Nat) := []

/-- the value `join` attests for a read under a path whose terminal is `t` -/
def leafValue [DecidableEq VH] (t : Terminal VH) (k : Key) : Option VH :=
  match t with
  | .leaf k0 v0 => if k0 = k then some v0 else none
  | .terminator _ => none

def sliceReads [DecidableEq VH] (t : Terminal VH) (pidx : Nat) (slice : List (Op VH)) : List (Key × Option VH × Nat) :=
  slice.filterMap fun o => if o.2.isRead then some (o.1, leafValue t o.1, pidx) else none

def sliceWrites (pidx : Nat) (slice : List (Op VH)) : List (Key × Option VH × Nat) :=
  slice.filterMap fun o => o.2.written.map fun v => (o.1, v, pidx)

/-- the inner loop of `join` over the witnessed paths of one output; returns the final `witnessed_start` too -/
def joinPaths [DecidableEq VH] (ops : List (Op VH)) :
    List (List Bool × PathProof Node VH × Nat) → (ws pidx : Nat) → Assembled Node VH → Option (Assembled Node VH × Nat)
  | [], ws, _, acc => some (acc, ws)
  | (pos, proof, bsz) :: rest, ws, pidx, acc =>
    if ws + bsz ≤ ops.length then     -- `read_write[witnessed_start..witnessed_end]`
      let slice := (ops.drop ws).take bsz
      joinPaths ops rest (ws + bsz) (pidx + 1)
        { paths := acc.paths ++ [(pos, proof)]
          reads := acc.reads ++ sliceReads proof.terminal pidx slice
          writes := acc.writes ++ sliceWrites pidx slice }
    else none

/-- `UpdateHandle::join` over the outputs in the order they are received -/
def join [DecidableEq VH] (ops : List (Op VH)) :
    List (WorkerOut Node VH) → (offset : Nat) → Assembled Node VH → Option (Assembled Node VH)
  | [], _, acc => some acc
  | w :: rest, off, acc =>
    match joinPaths ops w.paths (w.witnessedStart.getD 0) off acc with
    | none => none
    | some (acc', _) => join ops rest (off + w.paths.length) acc'

/-- `join` before the repair of F3: one running `witnessed_start` across the outputs -/
def joinOld [DecidableEq VH] (ops : List (Op VH)) :
    List (WorkerOut Node VH) → (ws offset : Nat) → Assembled Node VH → Option (Assembled Node VH)
  | [], _, _, acc => some acc
  | w :: rest, ws, off, acc =>
    match joinPaths ops w.paths ws off acc with
    | none => none
    | some (acc', ws') => joinOld ops rest ws' (off + w.paths.length) acc'

/-- all workers of one update: `none` if any of them reaches a panic site -/
def runWorkers (L n : Nat) (tp : Key → List Bool) (ops : List (Op VH)) : Option (List (List Batch)) :=
  (List.range n).mapM fun i => runWorker L n i tp ops

/-- the witness of an update with `n` workers whose outputs arrive in the order `order` -/
def assemble [DecidableEq VH] (L n : Nat) (prover : Key → PathProof Node VH) (ops : List (Op VH)) (order : List Nat) :
    Option (Assembled Node VH) :=
  match runWorkers L n (tpOf prover) ops with
  | none => none
  | some bss =>
    join ops (order.map fun i => workerOut prover ops (bss.getD i [])) 0 {}

/-! ### grouping a flat witness back into paths, canonical order -/

def selIdx (i : Nat) (x : Key × Option VH × Nat) : Option (Key × Option VH) :=
  if x.2.2 = i then some (x.1, x.2.1) else none

/-- paths with the operations that point at them -/
def unflat (reads writes : List (Key × Option VH × Nat)) :
    (off : Nat) → List (List Bool × PathProof Node VH) → List (WPath Node VH)
  | _, [] => []
  | off, (p, pr) :: rest =>
    { path := p, proof := pr, reads := reads.filterMap (selIdx off), writes := writes.filterMap (selIdx off) }
      :: unflat reads writes (off + 1) rest

def Assembled.groups (a : Assembled Node VH) : List (WPath Node VH) := unflat a.reads a.writes 0 a.paths

/-- canonical form: groups ascending by path -/
def Assembled.canon (a : Assembled Node VH) : List (WPath Node VH) :=
  a.groups.mergeSort (fun x y => !bitsLt y.path x.path)

/-- the flat form of a list of groups whose first path has index `off` -/
def flatReads : (off : Nat) → List (WPath Node VH) → List (Key × Option VH × Nat)
  | _, [] => []
  | off, w :: rest => w.reads.map (fun o => (o.1, o.2, off)) ++ flatReads (off + 1) rest
def flatWrites : (off : Nat) → List (WPath Node VH) → List (Key × Option VH × Nat)
  | _, [] => []
  | off, w :: rest => w.writes.map (fun o => (o.1, o.2, off)) ++ flatWrites (off + 1) rest

def flat (ws : List (WPath Node VH)) : Assembled Node VH :=
  { paths := ws.map (fun w => (w.path, w.proof)), reads := flatReads 0 ws, writes := flatWrites 0 ws }

/-! ### the root-page pass -/

/-- entries of `root_page_pending` -/
inductive Pend (Node : Type) where
  | node (n : Node)
  | subtrie (rangeStart rangeEnd : Nat)
deriving DecidableEq, Repr

/-- keys below a position -/
def under {β : Type} (p : List Bool) (S : List (Key × β)) : List (Key × β) := S.filter (fun kv => p.isPrefixOf kv.1)

/-- the written operations of a slice (`subtrie_ops`) -/
def subtrieOps (slice : List (Op VH)) : List (Key × Option VH) :=
  slice.filterMap fun o => o.2.written.map fun v => (o.1, v)

def dedupAdj {β : Type} [DecidableEq β] : List β → List β
  | [] => []
  | [x] => [x]
  | x :: y :: rest => if x = y then dedupAdj (y :: rest) else x :: dedupAdj (y :: rest)

/-- the root children whose page roots worker reports (`Output::ChildPageRoots`): those holding an owned batch
with writes in a page of the worker -/
def childRootPositions (bs : List Batch) : List (List Bool) :=
  dedupAdj ((bs.filter (fun b => b.owned && !b.nonExcl && b.hasWrites)).map (fun b => b.pos.take 6))

/-- what one worker pushes to `root_page_pending`; `newNode p` is the node the worker's page walker computed for
the root child `p` (specification: the node of the updated set there) -/
def pendingOfWorker (newNode : List Bool → Node) (bs : List Batch) : List (List Bool × Pend Node) :=
  ((bs.filter (fun b => b.owned && b.nonExcl)).map (fun b => (b.pos, Pend.subtrie b.start b.next)))
    ++ (childRootPositions bs).map (fun p => (p, Pend.node (newNode p)))

def insertPend (x : List Bool × Pend Node) : List (List Bool × Pend Node) → List (List Bool × Pend Node)
  | [] => [x]
  | y :: rest => if bitsLt x.1 y.1 then x :: y :: rest else y :: insertPend x rest

/-- `take_root_pending`: all entries, sorted by position -/
def pendingOf (newNode : List Bool → Node) (bss : List (List Batch)) : List (List Bool × Pend Node) :=
  (bss.flatMap (pendingOfWorker newNode)).foldl (fun acc x => insertPend x acc) []

/-- `page_walker::compact_step` -/
def combine (H : Hasher Node VH) (l r : Node) : Node :=
  match H.kind l, H.kind r with
  | .terminator, .terminator => H.term
  | .leaf, .terminator => l
  | .terminator, .leaf => r
  | _, _ => H.internal l r

def lookupPend (pend : List (List Bool × Pend Node)) (pos : List Bool) : Option (Pend Node) :=
  (pend.find? (fun x => x.1 == pos)).map (·.2)

/-- the node at `pos` after the root-page pass: a placed child-page root, a replaced terminal (the sub-trie built
from the previous terminal spliced with the written operations of the range — specification: `nodeAt` of the
updated keys below `pos`), an untouched node, or the compaction of its two children -/
def composeAt [DecidableEq VH] (H : Hasher Node VH) (L : Nat) (old : KVL VH) (ops : List (Op VH))
    (pend : List (List Bool × Pend Node)) : (budget : Nat) → (pos : List Bool) → Node
  | budget, pos =>
    match lookupPend pend pos with
    | some (.node n) => n
    | some (.subtrie s e) =>
      nodeAt H (L - pos.length) pos.length (kvApply (under pos old) (subtrieOps ((ops.drop s).take (e - s))))
    | none =>
      if pend.all (fun x => !(pos.isPrefixOf x.1)) then nodeAt H (L - pos.length) pos.length (under pos old)
      else
        match budget with
        | 0 => nodeAt H (L - pos.length) pos.length (under pos old)
        | b+1 => combine H (composeAt H L old ops pend b (pos ++ [false])) (composeAt H L old ops pend b (pos ++ [true]))

/-- the new root `update` reports -/
def composeRoot [DecidableEq VH] (H : Hasher Node VH) (L : Nat) (old : KVL VH) (ops : List (Op VH))
    (pend : List (List Bool × Pend Node)) : Node :=
  composeAt H L old ops pend 6 []

end Nomt.Split
