import NomtModel.Api.ExecOverlay
import NomtModel.Api.DeltaBuildLemmas
/-!
Rollback deltas of overlay chains on the executable API model (C09 / C11).

An overlay's delta is built when the overlay is created, against the view of ITS ancestors (`ChainDeltas`).
Committing a valid chain oldest-first (T11.3: `commitSeq` = `directSeq`) therefore pushes, at every step, the
reverse delta of the batch against the values committed at that moment: the log invariant `StInv` is kept, the
log is the chain's deltas (newest first) in front of the old log, and `rollback n` after the chain restores the
view of the overlay `n` levels up.  Also: the delta the specification-level `Api.finish` records is the mirror's
`finalize` (`Api/DeltaBuild.lean`).
-/
namespace Nomt.Api
open Nomt
variable {Node VH : Type} [DecidableEq Node] [DecidableEq VH]

/-- every overlay of the chain (child first) carries the priors of its changes w.r.t. the view of its own
ancestors — what `Session::finish` computes when the overlay is created -/
def ChainDeltas (s : St Node VH) : List Nat → Prop
  | [] => True
  | c :: rest => (∀ ov, s.ov? c = some ov → ov.delta = deltaOf (viewKV s rest) ov.changes) ∧ ChainDeltas s rest

/-- the deltas of a chain, newest first -/
def chainLog (s : St Node VH) (chain : List Nat) : List (Writes VH) :=
  chain.map (fun c => match s.ov? c with | some ov => ov.delta | none => [])

theorem applyCommit_maxLog (s : St Node VH) (ws d : Writes VH) (r : Node) (m : Option Nat) :
    (applyCommit s ws d r m).maxLog = s.maxLog ∧ (applyCommit s ws d r m).rollbackOn = s.rollbackOn := ⟨rfl, rfl⟩

theorem directSeq_params (s0 st : St Node VH) (l : List Nat) :
    (directSeq s0 st l).maxLog = st.maxLog ∧ (directSeq s0 st l).rollbackOn = st.rollbackOn := by
  induction l generalizing st with
  | nil => exact ⟨rfl, rfl⟩
  | cons o rest ih =>
    simp only [directSeq, List.foldl_cons] at ih ⊢
    cases s0.ov? o with
    | none => exact ih st
    | some ov =>
      obtain ⟨h1, h2⟩ := ih (applyCommit st ov.changes ov.delta ov.root (some o))
      exact ⟨h1, h2⟩

theorem take_cons_take {α : Type} (x : α) (l : List α) (m : Nat) : (x :: l.take m).take m = (x :: l).take m := by
  cases m with
  | zero => rfl
  | succ k =>
    simp only [List.take_succ_cons, List.take_take]
    congr 2
    omega

/-- direct commits of a chain whose deltas are view-correct keep `StInv`, produce the list view, and push the
chain's deltas in front of the old log -/
theorem directSeq_chain (s : St Node VH) (chain : List Nat) (hi : StInv s) (hd : ChainDeltas s chain)
    (he : ∀ o ∈ chain, ∃ ov, s.ov? o = some ov) :
    StInv (directSeq s s chain.reverse) ∧ (directSeq s s chain.reverse).kv = viewKV s chain ∧
    (s.rollbackOn = true → (directSeq s s chain.reverse).log = (chainLog s chain ++ s.log).take s.maxLog ∨
      (chain = [] ∧ (directSeq s s chain.reverse).log = s.log)) := by
  induction chain with
  | nil => exact ⟨hi, rfl, fun _ => Or.inr ⟨rfl, rfl⟩⟩
  | cons c rest ih =>
    obtain ⟨ov, ho⟩ := he c (List.mem_cons_self ..)
    obtain ⟨hd1, hd2⟩ := hd
    obtain ⟨i1, i2, i3⟩ := ih hd2 (fun o ho' => he o (List.mem_cons_of_mem _ ho'))
    have hsn : directSeq s s (c :: rest).reverse
        = applyCommit (directSeq s s rest.reverse) ov.changes ov.delta ov.root (some c) := by
      rw [List.reverse_cons]; exact directSeq_snoc s s _ c ov ho
    refine ⟨?_, ?_, ?_⟩
    · rw [hsn]
      apply applyCommit_stInv _ _ _ _ _ i1
      rw [i2]; exact hd1 ov ho
    · rw [directSeq_kv_viewKV]
    · intro hon
      left
      rw [hsn]
      obtain ⟨hm, hr⟩ := directSeq_params s s rest.reverse
      simp only [applyCommit, pushLog, hr, hon, if_true, hm]
      have hcl : chainLog s (c :: rest) = ov.delta :: chainLog s rest := by
        simp [chainLog, ho]
      rw [hcl]
      rcases i3 hon with h | ⟨h1, h2⟩
      · rw [h, List.cons_append, take_cons_take]
      · subst h1
        rw [h2]; rfl

/-- the chain's deltas undo the chain level by level -/
theorem chainLog_logChain (s : St Node VH) (hs : KSorted s.kv) (chain : List Nat) (hd : ChainDeltas s chain)
    (he : ∀ o ∈ chain, ∃ ov, s.ov? o = some ov) (n : Nat) :
    LogChain (viewKV s (chain.drop n)) ((chainLog s chain).take n) (viewKV s chain) := by
  induction chain generalizing n with
  | nil => simp [chainLog]; exact LogChain.nil _
  | cons c rest ih =>
    cases n with
    | zero => simp; exact LogChain.nil _
    | succ m =>
      obtain ⟨ov, ho⟩ := he c (List.mem_cons_self ..)
      obtain ⟨hd1, hd2⟩ := hd
      have hcl : chainLog s (c :: rest) = ov.delta :: chainLog s rest := by
        simp [chainLog, ho]
      rw [hcl, List.take_succ_cons, List.drop_succ_cons, viewKV_cons, ho, hd1 ov ho]
      exact LogChain.cons _ _ _ _ (ih hd2 (fun o ho' => he o (List.mem_cons_of_mem _ ho')) m)

/-- **commit a chain of overlays, then roll back `n` of them**: every commit is accepted, the state is the one
direct commits give, the log invariant holds, and `rollback n` (`0 < n ≤` chain length, `n ≤ max_rollback_log_len`)
restores — as a list — the view of the overlay `n` levels up the chain (`n` = chain length: the values committed
before the chain). -/
theorem chain_commit_then_rollback (H : Hasher Node VH) (s : St Node VH) (chain : List Nat) (hnd : chain.Nodup)
    (hv : ValidChain s chain) (hd : ChainDeltas s chain) (he : ∀ o ∈ chain, ∃ ov, s.ov? o = some ov)
    (hi : StInv s) (hon : s.rollbackOn = true) (n : Nat) (hn : 0 < n) (hnc : n ≤ chain.length) (hnm : n ≤ s.maxLog) :
    (commitSeq s chain.reverse).1 = true ∧
    (commitSeq s chain.reverse).2.kv = viewKV s chain ∧
    StInv (commitSeq s chain.reverse).2 ∧
    (commitSeq s chain.reverse).2.log = (chainLog s chain ++ s.log).take s.maxLog ∧
    (rollback H (commitSeq s chain.reverse).2 n).1 = .ok ∧
    (rollback H (commitSeq s chain.reverse).2 n).2.kv = viewKV s (chain.drop n) := by
  obtain ⟨c1, c2, _⟩ := commitSeq_chain s chain hnd hv
  obtain ⟨d1, d2, d3⟩ := directSeq_chain s chain hi hd he
  obtain ⟨p1, p2⟩ := directSeq_params s s chain.reverse
  simp only [core, Prod.mk.injEq] at c2
  obtain ⟨e1, _, e3, e4, e5, _, _⟩ := c2
  have hlog : (commitSeq s chain.reverse).2.log = (chainLog s chain ++ s.log).take s.maxLog := by
    rw [e3]
    rcases d3 hon with h | ⟨h1, _⟩
    · exact h
    · subst h1; simp at hnc; omega
  have hon' : (commitSeq s chain.reverse).2.rollbackOn = true := by rw [e5, p2]; exact hon
  have hinv : StInv (commitSeq s chain.reverse).2 := stInv_congr (s := directSeq s s chain.reverse) e1 e3 e5 d1
  have hlen : (chainLog s chain).length = chain.length := by simp [chainLog]
  have htake : (commitSeq s chain.reverse).2.log.take n = (chainLog s chain).take n := by
    rw [hlog, List.take_take, Nat.min_eq_left hnm, List.take_append_of_le_length (by omega)]
  have hle : n ≤ (commitSeq s chain.reverse).2.log.length := by
    rw [hlog, List.length_take, List.length_append, hlen]; omega
  refine ⟨c1, by rw [e1, d2], hinv, hlog, (rollback_ok_fields H _ n hon' hn hle).1, ?_⟩
  apply rollback_kv_unique H _ n hon' hn hle _ (viewKV_sorted s hi.1.sorted _)
  rw [htake, e1, d2]
  exact chainLog_logChain s hi.1.sorted chain hd he n

/-! ### the delta `Api.finish` records is the priors of the view, and it is what the mirror builds -/

/-- `finish` records `deltaOf (view of the chain)` (so an overlay made from it satisfies `ChainDeltas`) -/
theorem finish_delta_is_deltaOf (s : St Node VH) (hs : KSorted s.kv) (chain : List Nat)
    (hdist : ∀ o ∈ chain, ∀ ov, s.ov? o = some ov → WDistinct ov.changes) (ws : Writes VH) :
    ws.map (fun kw => (kw.1, viewGet s chain kw.1)) = deltaOf (viewKV s chain) ws := by
  unfold deltaOf
  apply List.map_congr_left
  intro kw _
  rw [viewGet_eq_kvGet_viewKV s hs chain hdist]

/-- the API state and the overlay heap hold the same change maps -/
def RelV (s : St Node VH) (h : Ovl.Heap VH) : Prop :=
  ∀ i ov, s.ov? i = some ov → ∃ o, h[i]? = some o ∧ o.values = ov.changes

theorem viewGet_eq_readThrough (s : St Node VH) (h : Ovl.Heap VH) (hr : RelV s h) (chain : List Nat)
    (he : ∀ o ∈ chain, ∃ ov, s.ov? o = some ov) (k : Key) :
    viewGet s chain k = Ovl.readThrough (Ovl.chainData h chain) s.kv k := by
  induction chain with
  | nil => rfl
  | cons o rest ih =>
    obtain ⟨ov, ho⟩ := he o (List.mem_cons_self ..)
    obtain ⟨oo, hoo, hval⟩ := hr o ov ho
    have ih' := ih (fun o' ho' => he o' (List.mem_cons_of_mem _ ho'))
    unfold viewGet
    rw [ho]
    simp only [Ovl.readThrough, Ovl.chainData, List.map_cons, hoo, Ovl.chainLookup, hval] at ih' ⊢
    cases wsLookup ov.changes k with
    | some w => rfl
    | none => exact ih'

/-- **the mirror refines the specification**: for a session on the validated chain `l.chain`, whatever hints
were given, the mirror of `ReverseDeltaBuilder::finalize` over the mirror of `start_load` returns exactly the
`delta` the specification-level `Api.finish` stores in the finished session. -/
theorem finalize_refines_finish (H : Hasher Node VH) (s : St Node VH) (h : Ovl.Heap VH) (hinv : Ovl.HeapInv h)
    (hr : RelV s h) (l : Ovl.Live) (ok : Ovl.LiveOK h l) (sid fid : Nat) (x : Sess)
    (hx : s.sess.find? (·.id == sid) = some x) (hc : x.chain = l.chain)
    (he : ∀ o ∈ x.chain, ∃ ov, s.ov? o = some ov) (hints : List Key) (a : Dlt.Actuals VH) (hs : Dlt.ASorted a)
    (ht : Dlt.RtwTruthful (viewGet s x.chain) a) :
    ∃ s' r f, finish H s sid fid (Dlt.writesOf a) = some (s', r) ∧ s'.fins.head? = some f ∧
      Dlt.finalize (Dlt.startLoad h l s.kv) hints a = .ok f.delta := by
  unfold finish
  rw [hx]
  refine ⟨_, _, _, rfl, rfl, ?_⟩
  have hl : ∀ k, Dlt.startLoad h l s.kv k = .ok (viewGet s x.chain k) := by
    intro k
    rw [Dlt.startLoad_spec hinv ok, viewGet_eq_readThrough s h hr x.chain he, hc]
  rw [Dlt.finalize_eq_priorSpec hl hints a ht hs]
  simp only [Dlt.priorSpec, ← Dlt.writesOf_keys, List.map_map]
  rfl

end Nomt.Api
