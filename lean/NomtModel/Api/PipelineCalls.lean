import NomtModel.Api.PipelineLemmas
/-!
The five pipelines as one family (`Call`, `runCall`), the `Api.Exec` step each one refines (`specCall`), and the master
lemma: on an un-poisoned handle every call is either **refused** — no I/O, no step with an effect, the result and the
in-memory state of the `Api.Exec` step (or `busy` and the very same state) — or **accepted** — a prefix of checks and memory
steps followed by a tail described by `TailSpec`, whose fault-free end is the state of the `Api.Exec` step.
-/
namespace Nomt.Api.Pipe
open Nomt Nomt.Api
variable {Node VH : Type} [DecidableEq Node] [DecidableEq VH]

inductive Call where
  | commit (fid : Nat)        -- `FinishedSession::commit`
  | tryCommit (fid : Nat)     -- `FinishedSession::try_commit_nonblocking`
  | ocommit (oid : Nat)       -- `Overlay::commit`
  | otryCommit (oid : Nat)    -- `Overlay::try_commit_nonblocking`
  | rollback (n : Nat)        -- `Nomt::rollback`
deriving DecidableEq, Repr

variable (H : Hasher Node VH)

def runCall (E : Env) (p : PSt Node VH) : Call → Out Node VH
  | .commit fid => commitFinP E p fid
  | .tryCommit fid => tryCommitFinP E p fid
  | .ocommit oid => commitOvP E p oid
  | .otryCommit oid => tryCommitOvP E p oid
  | .rollback n => rollbackP H E p n

/-- the specification step of `Api/Exec.lean` -/
def specCall (s : St Node VH) : Call → Res × St Node VH
  | .commit fid => commitFin s fid
  | .tryCommit fid => tryCommitFin s fid
  | .ocommit oid => commitOv s oid
  | .otryCommit oid => tryCommitOv s oid
  | .rollback n => rollback H s n

/-! ### fault-free runs -/

theorem sync_clean (E : Env) (hF : ∀ a, E.F a = false) (hQ : E.Q = {}) (trim : Bool) (ws : Writes VH) (p : PSt Node VH) :
    (sync E trim ws p).1 = true := by
  have hs := sync_spec E hQ trim ws p
  have hq1 : E.Q.fsyncResultsOr = false := by rw [hQ]
  have hq2 : E.Q.postMetaOverwritten = false := by rw [hQ]
  have hq3 : E.Q.htResultIgnored = false := by rw [hQ]
  unfold sync bitboxPostMeta
  simp [hF, runSeq_clean E.F hF, runAll_clean E.F hF, runSeq, hq1, hq2, hq3]
  split <;> simp [runSeq_clean E.F hF]

theorem storeCommit_clean (E : Env) (hF : ∀ a, E.F a = false) (hQ : E.Q = {}) (trim : Bool) (ws : Writes VH)
    (p : PSt Node VH) (hp : p.poisoned = false) : (storeCommit E trim ws p).1 = .ok := by
  have := sync_clean E hF hQ trim ws p
  unfold storeCommit
  simp only [hp, Bool.false_eq_true, if_false]
  rcases hsy : sync E trim ws p with ⟨ok, q, t⟩
  rw [hsy] at this
  simp only at this
  simp [this]

theorem appendAndStore_clean (E : Env) (hF : ∀ a, E.F a = false) (hQ : E.Q = {}) (ws delta : Writes VH)
    (p : PSt Node VH) (t0 : List Step) (hp : p.poisoned = false) : (appendAndStore E ws delta p t0).res = .ok := by
  unfold appendAndStore rbCommit
  cases hro : p.mem.rollbackOn
  · simp only [Bool.false_eq_true, if_false]
    exact storeCommit_clean E hF hQ true ws p hp
  · simp only [if_true, runSeq_clean E.F hF]
    exact storeCommit_clean E hF hQ true ws _ hp

/-! ### refused / accepted -/

/-- refused: nothing was issued, no step had an effect; result and in-memory state are those of the `Api.Exec` step, or the
call is handed back (`busy`) with the state untouched -/
structure Refused (p : PSt Node VH) (c : Call) (out : Out Node VH) : Prop where
  not_ok : out.res ≠ .ok
  no_effect : noEffect out.trace = true
  no_fail : noFail out.trace = true
  no_io : ∀ pos, failedAt pos out.trace = false
  disk : out.st.disk = p.disk
  poisoned : out.st.poisoned = p.poisoned
  spec : (out.res = (specCall H p.mem c).1 ∧ out.st.mem = (specCall H p.mem c).2) ∨ (out.res = .busy ∧ out.st = p)

/-- accepted: the `Api.Exec` step succeeds with `m'`; the trace is a fault-free prefix followed by a tail described by
`TailSpec`, whose completed form leaves `m'` in memory -/
structure Accepted (E : Env) (p : PSt Node VH) (c : Call) (out : Out Node VH) : Prop where
  ex : ∃ m', specCall H p.mem c = (.ok, m') ∧
    ∃ (t0 t : List Step) (trim : Bool) (ws : Writes VH) (pX : PSt Node VH) (mX : St Node VH),
      out.trace = t0 ++ t ∧ noFail t0 = true ∧ (∀ pos, failedAt pos t0 = false) ∧ pX.disk = p.disk ∧
      TailSpec trim ws pX mX out.res out.st t ∧ syncedMem trim ws mX = m' ∧
      ((∀ a, E.F a = false) → out.res = .ok)

theorem syncedMem_pushed (m : St Node VH) (ws delta : Writes VH) (root : Node) (marker : Option Nat) :
    syncedMem true ws (pushedMem delta { m with root := root, lastMarker := marker }) =
      applyCommit m ws delta root marker := by
  unfold syncedMem stagedMem pushedMem applyCommit pushLog
  cases m.rollbackOn <;> simp

end Nomt.Api.Pipe

namespace Nomt.Api.Pipe
open Nomt Nomt.Api
variable {Node VH : Type} [DecidableEq Node] [DecidableEq VH] (H : Hasher Node VH)

/-- `FinishedSession::commit` on an un-poisoned handle -/
theorem commitFin_shape (E : Env) (hQ : E.Q = {}) (p : PSt Node VH) (fid : Nat) (hp : p.poisoned = false) :
    Refused H p (.commit fid) (commitFinP E p fid) ∨ Accepted H E p (.commit fid) (commitFinP E p fid) := by
  unfold commitFinP
  cases ht : takeFin p.mem fid with
  | none =>
    left
    constructor <;> simp [specCall, commitFin_eq, ht]
  | some fm =>
    obtain ⟨f, m1⟩ := fm
    have hpf : ¬ (p.poisoned = true) := by simp [hp]
    simp only [if_neg hpf]
    by_cases hr : m1.root ≠ f.prevRoot
    · left
      rw [if_pos hr]
      constructor <;> simp [specCall, commitFin_eq, ht, hr, Step.effect, Step.failedIo, Step.failedAt, hp]
    · right
      rw [if_neg hr]
      have hp2 : ({ p with mem := { m1 with root := f.root, lastMarker := none } } : PSt Node VH).poisoned = false := hp
      obtain ⟨t, htr, hts⟩ := appendAndStore_spec E hQ f.writes f.delta _ [.guardWrite, .poisonCheck true, .rootCheck true, .rootSet] hp2
      refine ⟨applyCommit m1 f.writes f.delta f.root none, ?_, _, t, true, f.writes,
        { p with mem := { m1 with root := f.root, lastMarker := none } }, _, htr, ?_, ?_, rfl, hts, ?_, ?_⟩
      · simp [specCall, commitFin_eq, ht, hr]
      · simp [Step.failedIo]
      · intro pos; simp [Step.failedAt]
      · exact syncedMem_pushed m1 f.writes f.delta f.root none
      · intro hF; exact appendAndStore_clean E hF hQ _ _ _ _ hp2

end Nomt.Api.Pipe

namespace Nomt.Api.Pipe
open Nomt Nomt.Api
variable {Node VH : Type} [DecidableEq Node] [DecidableEq VH] (H : Hasher Node VH)

/-- both overlay commits from the write guard on -/
theorem commitOvBody_shape (E : Env) (hQ : E.Q = {}) (p : PSt Node VH) (oid : Nat) (o : Ov Node VH) (t0 : List Step)
    (hp : p.poisoned = false) (ho : p.mem.ov? oid = some o) (hheld : o.held = true) (hpar : parentOk p.mem o = true)
    (ht1 : noEffect t0 = true) (ht2 : noFail t0 = true) (ht3 : ∀ pos, failedAt pos t0 = false)
    (c : Call) (hc : specCall H p.mem c = commitOv p.mem oid) :
    Refused H p c (commitOvBody E p oid o t0) ∨ Accepted H E p c (commitOvBody E p oid o t0) := by
  have hq : E.Q.markBeforeRootCheck = false := by rw [hQ]
  have hpf : ¬ (p.poisoned = true) := by simp [hp]
  have hspec := commitOv_eq p.mem oid
  simp only [ho, hheld, hpar, Bool.true_eq_false, if_false] at hspec
  unfold commitOvBody
  simp only [if_neg hpf, hq, Bool.false_eq_true, if_false]
  by_cases hr : p.mem.root ≠ o.prevRoot
  · left
    rw [if_pos hr] at hspec ⊢
    constructor <;> simp [hc, hspec, ht1, ht2, ht3, Step.effect, Step.failedIo, Step.failedAt, hp]
  · right
    rw [if_neg hr] at hspec ⊢
    let p2 : PSt Node VH :=
      { p with mem := { setOv (dropOv p.mem oid) { o with held := false, committed := true } with
                        root := o.root, lastMarker := some oid } }
    have hp2 : p2.poisoned = false := hp
    obtain ⟨t, htr, hts⟩ := appendAndStore_spec E hQ o.changes o.delta p2
      (t0 ++ [.poisonCheck true, .rootCheck true, .markCommitted, .rootSet]) hp2
    refine ⟨_, by rw [hc, hspec], _, t, true, o.changes, p2, _, htr, ?_, ?_, rfl, hts, ?_, ?_⟩
    · simp [ht2, Step.failedIo]
    · intro pos; simp [ht3, Step.failedAt]
    · exact syncedMem_pushed _ o.changes o.delta o.root (some oid)
    · intro hF; exact appendAndStore_clean E hF hQ _ _ _ _ hp2

/-- `Overlay::commit` on an un-poisoned handle -/
theorem commitOv_shape (E : Env) (hQ : E.Q = {}) (p : PSt Node VH) (oid : Nat) (hp : p.poisoned = false) :
    Refused H p (.ocommit oid) (commitOvP E p oid) ∨ Accepted H E p (.ocommit oid) (commitOvP E p oid) := by
  unfold commitOvP
  have hspec := commitOv_eq p.mem oid
  cases ho : p.mem.ov? oid with
  | none =>
    left
    rw [ho] at hspec
    constructor <;> simp [specCall, hspec]
  | some o =>
    rw [ho] at hspec
    simp only at hspec ⊢
    cases hheld : o.held
    · left
      simp only [hheld, if_true] at hspec
      simp only [Bool.not_false, if_true]
      constructor <;> simp [specCall, hspec]
    · simp only [Bool.not_true, Bool.false_eq_true, if_false]
      cases hpar : parentOk p.mem o
      · left
        simp only [hheld, hpar, Bool.true_eq_false, if_false, if_true] at hspec
        simp only [Bool.not_false, if_true]
        constructor <;> simp [specCall, hspec, Step.effect, Step.failedIo, Step.failedAt]
      · simp only [Bool.not_true, Bool.false_eq_true, if_false]
        exact commitOvBody_shape H E hQ p oid o _ hp ho hheld hpar (by simp [Step.effect]) (by simp [Step.failedIo])
          (by intro pos; simp [Step.failedAt]) _ rfl

/-- `Overlay::try_commit_nonblocking` on an un-poisoned handle -/
theorem tryCommitOv_shape (E : Env) (hQ : E.Q = {}) (p : PSt Node VH) (oid : Nat) (hp : p.poisoned = false) :
    Refused H p (.otryCommit oid) (tryCommitOvP E p oid) ∨ Accepted H E p (.otryCommit oid) (tryCommitOvP E p oid) := by
  unfold tryCommitOvP
  have hspec := tryCommitOv_eq p.mem oid
  cases ho : p.mem.ov? oid with
  | none =>
    left
    rw [ho] at hspec
    constructor <;> simp [specCall, hspec]
  | some o =>
    rw [ho] at hspec
    simp only at hspec ⊢
    cases hpar : parentOk p.mem o
    · left
      simp only [hpar, if_true] at hspec
      simp only [Bool.not_false, if_true]
      constructor <;> simp [specCall, hspec, Step.effect, Step.failedIo, Step.failedAt]
    · simp only [hpar, Bool.true_eq_false, if_false] at hspec
      simp only [Bool.not_true, Bool.false_eq_true, if_false]
      cases hb : p.mem.sess.any (·.guard)
      · simp only [hb, Bool.false_eq_true, if_false] at hspec ⊢
        cases hheld : o.held
        · left
          have hc := commitOv_eq p.mem oid
          simp only [ho, hheld, if_true] at hc
          simp only [Bool.not_false, if_true]
          constructor <;> simp [specCall, hspec, hc]
        · simp only [Bool.not_true, Bool.false_eq_true, if_false]
          exact commitOvBody_shape H E hQ p oid o _ hp ho hheld hpar (by simp [Step.effect]) (by simp [Step.failedIo])
            (by intro pos; simp [Step.failedAt]) _ hspec
      · left
        simp only [hb, if_true] at hspec ⊢
        constructor <;> simp [specCall, hspec, Step.effect, Step.failedIo, Step.failedAt]

end Nomt.Api.Pipe

namespace Nomt.Api.Pipe
open Nomt Nomt.Api
variable {Node VH : Type} [DecidableEq Node] [DecidableEq VH] (H : Hasher Node VH)

/-- the memory handed to `Sync::sync` by `try_commit_nonblocking`: delta pushed, then root and marker set -/
def tryMem (delta : Writes VH) (root : Node) (m : St Node VH) : St Node VH :=
  { pushedMem delta m with root := root, lastMarker := none }

theorem tryTail_spec (E : Env) (hQ : E.Q = {}) (ws delta : Writes VH) (root : Node) (p : PSt Node VH) (t1 : List Step)
    (hp : p.poisoned = false) :
    ∃ t, (tryTail E ws delta root p t1).trace = t1 ++ t ∧
      TailSpec true ws p (tryMem delta root p.mem) (tryTail E ws delta root p t1).res (tryTail E ws delta root p t1).st t := by
  have hq : E.Q.rbErrNoPoison = false := by rw [hQ]
  unfold tryTail rbCommitOpt
  cases hro : p.mem.rollbackOn
  · simp only [Bool.false_eq_true, if_false]
    let q2 : PSt Node VH := { p with mem := { p.mem with root := root, lastMarker := none } }
    have hq2 : q2.poisoned = false := hp
    have hsc := storeCommit_spec E hQ true ws q2 hq2
    have hnr := storeCommit_no_rb E hQ true ws q2
    refine ⟨[.rootSet] ++ (storeCommit E true ws q2).2.2, by simp [q2], ?_⟩
    have hpm : tryMem delta root p.mem = q2.mem := by simp [tryMem, pushedMem, hro, q2]
    rw [hpm]
    obtain ⟨s1, s2, s3, s4, s5, s6, s7, s8, s9⟩ := hsc
    constructor
    · simpa [Step.failedIo] using s1
    · exact s2
    · exact s3
    · exact s4
    · simp [hnr, Step.failedAt]
    · simpa [Step.failedAt] using s6
    · simpa [Step.failedAt] using s7
    · simpa [Step.failedAt] using s8
    · exact s9
  · simp only [if_true]
    have ha1 := runSeq_noFail E.F .rbAppend E.W.seg
    have ha2 := fun pos => runSeq_failedAt E.F .rbAppend pos E.W.seg
    unfold rbCommit
    generalize runSeq E.F .rbAppend E.W.seg = a at ha1 ha2 ⊢
    obtain ⟨aok, atr⟩ := a
    simp only at ha1 ha2
    cases aok
    · simp only [Bool.false_eq_true, if_false, hq]
      refine ⟨atr ++ [.poison], by simp, ?_⟩
      constructor <;> simp [ha1, ha2, Step.failedIo, Step.failedAt]
    · simp only [if_true]
      let q2 : PSt Node VH := { p with mem := { p.mem with log := delta :: p.mem.log, root := root, lastMarker := none } }
      have hq2 : q2.poisoned = false := hp
      have hsc := storeCommit_spec E hQ true ws q2 hq2
      have hnr := storeCommit_no_rb E hQ true ws q2
      refine ⟨atr ++ [.rbPush] ++ [.rootSet] ++ (storeCommit E true ws q2).2.2, by simp [q2], ?_⟩
      have hpm : tryMem delta root p.mem = q2.mem := by simp [tryMem, pushedMem, hro, q2]
      rw [hpm]
      obtain ⟨s1, s2, s3, s4, s5, s6, s7, s8, s9⟩ := hsc
      constructor
      · simpa [ha1, Step.failedIo] using s1
      · exact s2
      · exact s3
      · exact s4
      · simp [ha2, hnr, Step.failedAt]
      · simpa [ha2, Step.failedAt] using s6
      · simpa [ha2, Step.failedAt] using s7
      · simpa [ha2, Step.failedAt] using s8
      · exact s9

theorem tryTail_clean (E : Env) (hF : ∀ a, E.F a = false) (hQ : E.Q = {}) (ws delta : Writes VH) (root : Node)
    (p : PSt Node VH) (t1 : List Step) (hp : p.poisoned = false) : (tryTail E ws delta root p t1).res = .ok := by
  unfold tryTail rbCommitOpt rbCommit
  cases hro : p.mem.rollbackOn
  · simp only [Bool.false_eq_true, if_false]
    exact storeCommit_clean E hF hQ true ws _ hp
  · simp only [if_true, runSeq_clean E.F hF]
    exact storeCommit_clean E hF hQ true ws _ hp

theorem syncedMem_tryMem (m : St Node VH) (ws delta : Writes VH) (root : Node) :
    syncedMem true ws (tryMem delta root m) = applyCommit m ws delta root none := by
  unfold syncedMem stagedMem tryMem pushedMem applyCommit pushLog
  cases h : m.rollbackOn <;> simp [h]

/-- `FinishedSession::try_commit_nonblocking` on an un-poisoned handle -/
theorem tryCommitFin_shape (E : Env) (hQ : E.Q = {}) (p : PSt Node VH) (fid : Nat) (hp : p.poisoned = false) :
    Refused H p (.tryCommit fid) (tryCommitFinP E p fid) ∨ Accepted H E p (.tryCommit fid) (tryCommitFinP E p fid) := by
  have hq : E.Q.rbBeforeRootCheck = false := by rw [hQ]
  have hpf : ¬ (p.poisoned = true) := by simp [hp]
  unfold tryCommitFinP
  cases hb : p.mem.sess.any (·.guard)
  · simp only [Bool.false_eq_true, if_false]
    have hspec : tryCommitFin p.mem fid = commitFin p.mem fid := by simp [tryCommitFin, hb]
    rw [commitFin_eq] at hspec
    cases ht : takeFin p.mem fid with
    | none =>
      left
      rw [ht] at hspec
      constructor <;> simp [specCall, hspec]
    | some fm =>
      obtain ⟨f, m1⟩ := fm
      rw [ht] at hspec
      simp only at hspec
      simp only [if_neg hpf, hq, Bool.false_eq_true, if_false]
      by_cases hr : m1.root ≠ f.prevRoot
      · left
        rw [if_pos hr] at hspec ⊢
        constructor <;> simp [specCall, hspec, Step.effect, Step.failedIo, Step.failedAt, hp]
      · rw [if_neg hr] at hspec ⊢
        by_cases hl : (m1.rollbackOn && !E.rbLockFree) = true
        · left
          rw [if_pos hl]
          constructor <;> simp [Step.effect, Step.failedIo, Step.failedAt]
        · right
          rw [if_neg hl]
          have hp1 : ({ p with mem := m1 } : PSt Node VH).poisoned = false := hp
          obtain ⟨t, htr, hts⟩ := tryTail_spec E hQ f.writes f.delta f.root { p with mem := m1 }
            ([.guardTry true, .poisonCheck true] ++ [.rootCheck true]) hp1
          refine ⟨_, by simp only [specCall]; exact hspec, _, t, true, f.writes, { p with mem := m1 }, _, htr, ?_, ?_, rfl, hts, ?_, ?_⟩
          · simp [Step.failedIo]
          · intro pos; simp [Step.failedAt]
          · exact syncedMem_tryMem m1 f.writes f.delta f.root
          · intro hF; exact tryTail_clean E hF hQ _ _ _ _ _ hp1
  · left
    simp only [if_true]
    have hspec : tryCommitFin p.mem fid = (.busy, p.mem) := by simp [tryCommitFin, hb]
    constructor <;> simp [specCall, hspec, Step.effect, Step.failedIo, Step.failedAt]

end Nomt.Api.Pipe

namespace Nomt.Api.Pipe
open Nomt Nomt.Api
variable {Node VH : Type} [DecidableEq Node] [DecidableEq VH] (H : Hasher Node VH)

/-- `rollback(0)`: `Ok(())` before anything is looked at -/
def NoOp (p : PSt Node VH) (c : Call) (out : Out Node VH) : Prop :=
  out.res = .ok ∧ out.st = p ∧ out.trace = [] ∧ specCall H p.mem c = (.ok, p.mem)

/-- `Nomt::rollback` on an un-poisoned handle whose `finish` does not fail -/
theorem rollback_shape (E : Env) (hQ : E.Q = {}) (hfin : E.finishOk = true) (p : PSt Node VH) (n : Nat)
    (hp : p.poisoned = false) :
    NoOp H p (.rollback n) (rollbackP H E p n) ∨ Refused H p (.rollback n) (rollbackP H E p n) ∨
    Accepted H E p (.rollback n) (rollbackP H E p n) := by
  have hpf : ¬ (p.poisoned = true) := by simp [hp]
  unfold rollbackP
  by_cases h0 : n = 0
  · left
    simp [NoOp, h0, specCall, rollback]
  · right
    simp only [if_neg h0]
    by_cases hro : p.mem.rollbackOn = true
    case neg =>
      left
      have hro' : p.mem.rollbackOn = false := by simpa using hro
      rw [if_pos (by simp [hro'])]
      constructor <;> simp [specCall, rollback, h0, hro', Step.effect, Step.failedIo, Step.failedAt]
    case pos =>
      rw [if_neg (by simp [hro])]
      by_cases hn : n > p.mem.log.length
      · left
        rw [if_pos hn]
        constructor <;> simp [specCall, rollback, h0, hro, hn, Step.effect, Step.failedIo, Step.failedAt]
      · right
        rw [if_neg hn]
        simp only [hfin, Bool.not_true, Bool.false_eq_true, if_false, if_neg hpf]
        let p2 : PSt Node VH :=
          { p with mem := { p.mem with log := p.mem.log.drop n,
                                       root := rootOfKV H (kvApply p.mem.kv (traceback (p.mem.log.take n))),
                                       lastMarker := none } }
        have hp2 : p2.poisoned = false := hp
        have hsc := storeCommit_spec E hQ false (traceback (p.mem.log.take n)) p2 hp2
        refine ⟨syncedMem false (traceback (p.mem.log.take n)) p2.mem, ?_,
          [.guardWrite, .rbTruncate, .sessionFinish true, .poisonCheck true, .rootCheck true, .rootSet],
          (storeCommit E false (traceback (p.mem.log.take n)) p2).2.2,
          false, traceback (p.mem.log.take n), p2, p2.mem, ?_, ?_, ?_, ?_, ?_, ?_, ?_⟩
        · simp [specCall, rollback, h0, hro, hn, syncedMem, stagedMem, p2]
        · rfl
        · simp [Step.failedIo]
        · intro pos; simp [Step.failedAt]
        · rfl
        · exact hsc
        · rfl
        · intro hF; exact storeCommit_clean E hF hQ false _ p2 hp2

/-- **master lemma**: every call on an un-poisoned handle is a no-op `Ok`, refused, or accepted -/
theorem call_shape (E : Env) (hQ : E.Q = {}) (hfin : E.finishOk = true) (p : PSt Node VH) (c : Call)
    (hp : p.poisoned = false) :
    NoOp H p c (runCall H E p c) ∨ Refused H p c (runCall H E p c) ∨ Accepted H E p c (runCall H E p c) := by
  cases c with
  | commit fid => exact .inr (commitFin_shape H E hQ p fid hp)
  | tryCommit fid => exact .inr (tryCommitFin_shape H E hQ p fid hp)
  | ocommit oid => exact .inr (commitOv_shape H E hQ p oid hp)
  | otryCommit oid => exact .inr (tryCommitOv_shape H E hQ p oid hp)
  | rollback n => exact rollback_shape H E hQ hfin p n hp

end Nomt.Api.Pipe
