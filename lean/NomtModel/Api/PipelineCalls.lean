import NomtModel.Api.PipelineLemmas
/-!
The five pipelines as one family (`Call`, `runCall`), the `Api.Exec` step each one refines (`specCall`), and the master
lemma: on an un-poisoned handle every call is either **refused** — no I/O, no step with an effect, the result and the
in-memory state of the `Api.Exec` step (or `busy` and the very same state) — or **accepted** — a prefix of checks and memory
steps followed by a tail described by `TailSpec`, whose fault-free end is the state of the `Api.Exec` step.
-/
namespace Nomt.Api.Pipe
open Nomt Nomt.Api
variable {Node VH : Type} [DecidableEq Node] [DecidableEq VH]

inductive Call where
  | commit (fid : Nat)        -- `FinishedSession::commit`
  | tryCommit (fid : Nat)     -- `FinishedSession::try_commit_nonblocking`
  | ocommit (oid : Nat)       -- `Overlay::commit`
  | otryCommit (oid : Nat)    -- `Overlay::try_commit_nonblocking`
  | rollback (n : Nat)        -- `Nomt::rollback`
deriving DecidableEq, Repr

variable (H : Hasher Node VH)

def runCall (E : Env) (p : PSt Node VH) : Call → Out Node VH
  | .commit fid => commitFinP E p fid
  | .tryCommit fid => tryCommitFinP E p fid
  | .ocommit oid => commitOvP E p oid
  | .otryCommit oid => tryCommitOvP E p oid
  | .rollback n => rollbackP H E p n

/-- the specification step of `Api/Exec.lean` -/
def specCall (s : St Node VH) : Call → Res × St Node VH
  | .commit fid => commitFin s fid
  | .tryCommit fid => tryCommitFin s fid
  | .ocommit oid => commitOv s oid
  | .otryCommit oid => tryCommitOv s oid
  | .rollback n => rollback H s n

/-! ### fault-free runs -/

theorem sync_clean (E : Env) (hF : ∀ a, E.F a = false) (hQ : E.Q = {}) (trim : Bool) (ws : Writes VH) (p : PSt Node VH) :
    (sync E trim ws p).1 = true := by
  have hs := sync_spec E hQ trim ws p
  have hq1 : E.Q.fsyncResultsOr = false := by rw [hQ]
  have hq2 : E.Q.postMetaOverwritten = false := by rw [hQ]
  have hq3 : E.Q.htResultIgnored = false := by rw [hQ]
  unfold sync bitboxPostMeta
  simp [hF, runSeq_clean E.F hF, runAll_clean E.F hF, runSeq, hq1, hq2, hq3]
  split <;> simp [runSeq_clean E.F hF]

theorem storeCommit_clean (E : Env) (hF : ∀ a, E.F a = false) (hQ : E.Q = {}) (trim : Bool) (ws : Writes VH)
    (p : PSt Node VH) (hp : p.poisoned = false) : (storeCommit E trim ws p).1 = .ok := by
  have := sync_clean E hF hQ trim ws p
  unfold storeCommit
  simp only [hp, Bool.false_eq_true, if_false]
  rcases hsy : sync E trim ws p with ⟨ok, q, t⟩
  rw [hsy] at this
  simp only at this
  simp [this]

theorem appendAndStore_clean (E : Env) (hF : ∀ a, E.F a = false) (hQ : E.Q = {}) (ws delta : Writes VH)
    (p : PSt Node VH) (t0 : List Step) (hp : p.poisoned = false) : (appendAndStore E ws delta p t0).res = .ok := by
  unfold appendAndStore rbCommit
  cases hro : p.mem.rollbackOn
  · simp only [Bool.false_eq_true, if_false]
    exact storeCommit_clean E hF hQ true ws p hp
  · simp only [if_true, runSeq_clean E.F hF]
    exact storeCommit_clean E hF hQ true ws _ hp

/-! ### refused / accepted -/

/-- refused: nothing was issued, no step had an effect; result and in-memory state are those of the `Api.Exec` step, or the
call is handed back (`busy`) with the state untouched -/
structure Refused (E : Env) (p : PSt Node VH) (c : Call) (out : Out Node VH) : Prop where
  not_ok : out.res ≠ .ok
  no_effect : noEffect out.trace = true
  no_fail : noFail out.trace = true
  no_io : ∀ pos, failedAt pos out.trace = false
  disk : out.st.disk = p.disk
  poisoned : out.st.poisoned = p.poisoned
  spec : (out.res = (specCall H p.mem c).1 ∧ out.st.mem = (specCall H p.mem c).2) ∨
    (E.rbLockFree = false ∧ out.res = .busy ∧ out.st = p)

/-- accepted: the `Api.Exec` step succeeds with `m'`; the trace is a fault-free prefix followed by a tail described by
`TailSpec`, whose completed form leaves `m'` in memory -/
structure Accepted (E : Env) (p : PSt Node VH) (c : Call) (out : Out Node VH) : Prop where
  ex : ∃ m', specCall H p.mem c = (.ok, m') ∧
    ∃ (t0 t : List Step) (trim : Bool) (ws : Writes VH) (pX : PSt Node VH) (mX : St Node VH),
      out.trace = t0 ++ t ∧ noFail t0 = true ∧ (∀ pos, failedAt pos t0 = false) ∧ pX.disk = p.disk ∧
      TailSpec trim ws pX mX out.res out.st t ∧ syncedMem trim ws mX = m' ∧
      ((∀ a, E.F a = false) → out.res = .ok)

theorem syncedMem_pushed (m : St Node VH) (ws delta : Writes VH) (root : Node) (marker : Option Nat) :
    syncedMem true ws (pushedMem delta { m with root := root, lastMarker := marker }) =
      applyCommit m ws delta root marker := by
  unfold syncedMem stagedMem pushedMem applyCommit pushLog
  cases m.rollbackOn <;> simp

end Nomt.Api.Pipe

namespace Nomt.Api.Pipe
open Nomt Nomt.Api
variable {Node VH : Type} [DecidableEq Node] [DecidableEq VH] (H : Hasher Node VH)

/-- `FinishedSession::commit` on an un-poisoned handle -/
theorem commitFin_shape (E : Env) (hQ : E.Q = {}) (p : PSt Node VH) (fid : Nat) (hp : p.poisoned = false) :
    Refused H E p (.commit fid) (commitFinP E p fid) ∨ Accepted H E p (.commit fid) (commitFinP E p fid) := by
  unfold commitFinP
  cases ht : takeFin p.mem fid with
  | none =>
    left
    constructor <;> simp [specCall, commitFin_eq, ht]
  | some fm =>
    obtain ⟨f, m1⟩ := fm
    have hpf : ¬ (p.poisoned = true) := by simp [hp]
    simp only [if_neg hpf]
    by_cases hr : m1.root ≠ f.prevRoot
    · left
      rw [if_pos hr]
      constructor <;> simp [specCall, commitFin_eq, ht, hr, Step.effect, Step.failedIo, Step.failedAt, hp]
    · right
      rw [if_neg hr]
      have hp2 : ({ p with mem := { m1 with root := f.root, lastMarker := none } } : PSt Node VH).poisoned = false := hp
      obtain ⟨t, htr, hts⟩ := appendAndStore_spec E hQ f.writes f.delta _ [.guardWrite, .poisonCheck true, .rootCheck true, .rootSet] hp2
      refine ⟨applyCommit m1 f.writes f.delta f.root none, ?_, _, t, true, f.writes,
        { p with mem := { m1 with root := f.root, lastMarker := none } }, _, htr, ?_, ?_, rfl, hts, ?_, ?_⟩
      · simp [specCall, commitFin_eq, ht, hr]
      · simp [Step.failedIo]
      · intro pos; simp [Step.failedAt]
      · exact syncedMem_pushed m1 f.writes f.delta f.root none
      · intro hF; exact appendAndStore_clean E hF hQ _ _ _ _ hp2

end Nomt.Api.Pipe

namespace Nomt.Api.Pipe
open Nomt Nomt.Api
variable {Node VH : Type} [DecidableEq Node] [DecidableEq VH] (H : Hasher Node VH)

/-- both overlay commits from the write guard on -/
theorem commitOvBody_shape (E : Env) (hQ : E.Q = {}) (p : PSt Node VH) (oid : Nat) (o : Ov Node VH) (t0 : List Step)
    (hp : p.poisoned = false) (ho : p.mem.ov? oid = some o) (hheld : o.held = true) (hpar : parentOk p.mem o = true)
    (ht1 : noEffect t0 = true) (ht2 : noFail t0 = true) (ht3 : ∀ pos, failedAt pos t0 = false)
    (c : Call) (hc : specCall H p.mem c = commitOv p.mem oid) :
    Refused H E p c (commitOvBody E p oid o t0) ∨ Accepted H E p c (commitOvBody E p oid o t0) := by
  have hq : E.Q.markBeforeRootCheck = false := by rw [hQ]
  have hpf : ¬ (p.poisoned = true) := by simp [hp]
  have hspec := commitOv_eq p.mem oid
  simp only [ho, hheld, hpar, Bool.true_eq_false, if_false] at hspec
  unfold commitOvBody
  simp only [if_neg hpf, hq, Bool.false_eq_true, if_false]
  by_cases hr : p.mem.root ≠ o.prevRoot
  · left
    rw [if_pos hr] at hspec ⊢
    constructor <;> simp [hc, hspec, ht1, ht2, ht3, Step.effect, Step.failedIo, Step.failedAt, hp]
  · right
    rw [if_neg hr] at hspec ⊢
    let p2 : PSt Node VH :=
      { p with mem := { setOv (dropOv p.mem oid) { o with held := false, committed := true } with
                        root := o.root, lastMarker := some oid } }
    have hp2 : p2.poisoned = false := hp
    obtain ⟨t, htr, hts⟩ := appendAndStore_spec E hQ o.changes o.delta p2
      (t0 ++ [.poisonCheck true, .rootCheck true, .markCommitted, .rootSet]) hp2
    refine ⟨_, by rw [hc, hspec], _, t, true, o.changes, p2, _, htr, ?_, ?_, rfl, hts, ?_, ?_⟩
    · simp [ht2, Step.failedIo]
    · intro pos; simp [ht3, Step.failedAt]
    · exact syncedMem_pushed _ o.changes o.delta o.root (some oid)
    · intro hF; exact appendAndStore_clean E hF hQ _ _ _ _ hp2

/-- `Overlay::commit` on an un-poisoned handle -/
theorem commitOv_shape (E : Env) (hQ : E.Q = {}) (p : PSt Node VH) (oid : Nat) (hp : p.poisoned = false) :
    Refused H E p (.ocommit oid) (commitOvP E p oid) ∨ Accepted H E p (.ocommit oid) (commitOvP E p oid) := by
  unfold commitOvP
  have hspec := commitOv_eq p.mem oid
  cases ho : p.mem.ov? oid with
  | none =>
    left
    rw [ho] at hspec
    constructor <;> simp [specCall, hspec]
  | some o =>
    rw [ho] at hspec
    simp only at hspec ⊢
    cases hheld : o.held
    · left
      simp only [hheld, if_true] at hspec
      simp only [Bool.not_false, if_true]
      constructor <;> simp [specCall, hspec]
    · simp only [Bool.not_true, Bool.false_eq_true, if_false]
      cases hpar : parentOk p.mem o
      · left
        simp only [hheld, hpar, Bool.true_eq_false, if_false, if_true] at hspec
        simp only [Bool.not_false, if_true]
        constructor <;> simp [specCall, hspec, Step.effect, Step.failedIo, Step.failedAt]
      · simp only [Bool.not_true, Bool.false_eq_true, if_false]
        exact commitOvBody_shape H E hQ p oid o _ hp ho hheld hpar (by simp [Step.effect]) (by simp [Step.failedIo])
          (by intro pos; simp [Step.failedAt]) _ rfl

/-- `Overlay::try_commit_nonblocking` on an un-poisoned handle -/
theorem tryCommitOv_shape (E : Env) (hQ : E.Q = {}) (p : PSt Node VH) (oid : Nat) (hp : p.poisoned = false) :
    Refused H E p (.otryCommit oid) (tryCommitOvP E p oid) ∨ Accepted H E p (.otryCommit oid) (tryCommitOvP E p oid) := by
  unfold tryCommitOvP
  have hspec := tryCommitOv_eq p.mem oid
  cases ho : p.mem.ov? oid with
  | none =>
    left
    rw [ho] at hspec
    constructor <;> simp [specCall, hspec]
  | some o =>
    rw [ho] at hspec
    simp only at hspec ⊢
    cases hpar : parentOk p.mem o
    · left
      simp only [hpar, if_true] at hspec
      simp only [Bool.not_false, if_true]
      constructor <;> simp [specCall, hspec, Step.effect, Step.failedIo, Step.failedAt]
    · simp only [hpar, Bool.true_eq_false, if_false] at hspec
      simp only [Bool.not_true, Bool.false_eq_true, if_false]
      cases hb : p.mem.sess.any (·.guard)
      · simp only [hb, Bool.false_eq_true, if_false] at hspec ⊢
        cases hheld : o.held
        · left
          have hc := commitOv_eq p.mem oid
          simp only [ho, hheld, if_true] at hc
          simp only [Bool.not_false, if_true]
          constructor <;> simp [specCall, hspec, hc]
        · simp only [Bool.not_true, Bool.false_eq_true, if_false]
          exact commitOvBody_shape H E hQ p oid o _ hp ho hheld hpar (by simp [Step.effect]) (by simp [Step.failedIo])
            (by intro pos; simp [Step.failedAt]) _ hspec
      · left
        simp only [hb, if_true] at hspec ⊢
        constructor <;> simp [specCall, hspec, Step.effect, Step.failedIo, Step.failedAt]

end Nomt.Api.Pipe

namespace Nomt.Api.Pipe
open Nomt Nomt.Api
variable {Node VH : Type} [DecidableEq Node] [DecidableEq VH] (H : Hasher Node VH)

/-- the memory handed to `Sync::sync` by `try_commit_nonblocking`: delta pushed, then root and marker set -/
def tryMem (delta : Writes VH) (root : Node) (m : St Node VH) : St Node VH :=
  { pushedMem delta m with root := root, lastMarker := none }

theorem tryTail_spec (E : Env) (hQ : E.Q = {}) (ws delta : Writes VH) (root : Node) (p : PSt Node VH) (t1 : List Step)
    (hp : p.poisoned = false) :
    ∃ t, (tryTail E ws delta root p t1).trace = t1 ++ t ∧
      TailSpec true ws p (tryMem delta root p.mem) (tryTail E ws delta root p t1).res (tryTail E ws delta root p t1).st t := by
  have hq : E.Q.rbErrNoPoison = false := by rw [hQ]
  unfold tryTail rbCommitOpt
  cases hro : p.mem.rollbackOn
  · simp only [Bool.false_eq_true, if_false]
    let q2 : PSt Node VH := { p with mem := { p.mem with root := root, lastMarker := none } }
    have hq2 : q2.poisoned = false := hp
    have hsc := storeCommit_spec E hQ true ws q2 hq2
    have hnr := storeCommit_no_rb E hQ true ws q2
    refine ⟨[.rootSet] ++ (storeCommit E true ws q2).2.2, by simp [q2], ?_⟩
    have hpm : tryMem delta root p.mem = q2.mem := by simp [tryMem, pushedMem, hro, q2]
    rw [hpm]
    obtain ⟨s1, s2, s3, s4, s5, s6, s7, s8, s9⟩ := hsc
    constructor
    · simpa [Step.failedIo] using s1
    · exact s2
    · exact s3
    · exact s4
    · simp [hnr, Step.failedAt]
    · simpa [Step.failedAt] using s6
    · simpa [Step.failedAt] using s7
    · simpa [Step.failedAt] using s8
    · exact s9
  · simp only [if_true]
    have ha1 := runSeq_noFail E.F .rbAppend E.W.seg
    have ha2 := fun pos => runSeq_failedAt E.F .rbAppend pos E.W.seg
    unfold rbCommit
    generalize runSeq E.F .rbAppend E.W.seg = a at ha1 ha2 ⊢
    obtain ⟨aok, atr⟩ := a
    simp only at ha1 ha2
    cases aok
    · simp only [Bool.false_eq_true, if_false, hq]
      refine ⟨atr ++ [.poison], by simp, ?_⟩
      constructor <;> simp [ha1, ha2, Step.failedIo, Step.failedAt]
    · simp only [if_true]
      let q2 : PSt Node VH := { p with mem := { p.mem with log := delta :: p.mem.log, root := root, lastMarker := none } }
      have hq2 : q2.poisoned = false := hp
      have hsc := storeCommit_spec E hQ true ws q2 hq2
      have hnr := storeCommit_no_rb E hQ true ws q2
      refine ⟨atr ++ [.rbPush] ++ [.rootSet] ++ (storeCommit E true ws q2).2.2, by simp [q2], ?_⟩
      have hpm : tryMem delta root p.mem = q2.mem := by simp [tryMem, pushedMem, hro, q2]
      rw [hpm]
      obtain ⟨s1, s2, s3, s4, s5, s6, s7, s8, s9⟩ := hsc
      constructor
      · simpa [ha1, Step.failedIo] using s1
      · exact s2
      · exact s3
      · exact s4
      · simp [ha2, hnr, Step.failedAt]
      · simpa [ha2, Step.failedAt] using s6
      · simpa [ha2, Step.failedAt] using s7
      · simpa [ha2, Step.failedAt] using s8
      · exact s9

theorem tryTail_clean (E : Env) (hF : ∀ a, E.F a = false) (hQ : E.Q = {}) (ws delta : Writes VH) (root : Node)
    (p : PSt Node VH) (t1 : List Step) (hp : p.poisoned = false) : (tryTail E ws delta root p t1).res = .ok := by
  unfold tryTail rbCommitOpt rbCommit
  cases hro : p.mem.rollbackOn
  · simp only [Bool.false_eq_true, if_false]
    exact storeCommit_clean E hF hQ true ws _ hp
  · simp only [if_true, runSeq_clean E.F hF]
    exact storeCommit_clean E hF hQ true ws _ hp

theorem syncedMem_tryMem (m : St Node VH) (ws delta : Writes VH) (root : Node) :
    syncedMem true ws (tryMem delta root m) = applyCommit m ws delta root none := by
  unfold syncedMem stagedMem tryMem pushedMem applyCommit pushLog
  cases h : m.rollbackOn <;> simp [h]

/-- `FinishedSession::try_commit_nonblocking` on an un-poisoned handle -/
theorem tryCommitFin_shape (E : Env) (hQ : E.Q = {}) (p : PSt Node VH) (fid : Nat) (hp : p.poisoned = false) :
    Refused H E p (.tryCommit fid) (tryCommitFinP E p fid) ∨ Accepted H E p (.tryCommit fid) (tryCommitFinP E p fid) := by
  have hq : E.Q.rbBeforeRootCheck = false := by rw [hQ]
  have hpf : ¬ (p.poisoned = true) := by simp [hp]
  unfold tryCommitFinP
  cases hb : p.mem.sess.any (·.guard)
  · simp only [Bool.false_eq_true, if_false]
    have hspec : tryCommitFin p.mem fid = commitFin p.mem fid := by simp [tryCommitFin, hb]
    rw [commitFin_eq] at hspec
    cases ht : takeFin p.mem fid with
    | none =>
      left
      rw [ht] at hspec
      constructor <;> simp [specCall, hspec]
    | some fm =>
      obtain ⟨f, m1⟩ := fm
      rw [ht] at hspec
      simp only at hspec
      simp only [if_neg hpf, hq, Bool.false_eq_true, if_false]
      by_cases hr : m1.root ≠ f.prevRoot
      · left
        rw [if_pos hr] at hspec ⊢
        constructor <;> simp [specCall, hspec, Step.effect, Step.failedIo, Step.failedAt, hp]
      · rw [if_neg hr] at hspec ⊢
        by_cases hl : (m1.rollbackOn && !E.rbLockFree) = true
        · left
          rw [if_pos hl]
          have hlf : E.rbLockFree = false := by
            cases h : E.rbLockFree
            · rfl
            · simp [h] at hl
          constructor <;> simp [Step.effect, Step.failedIo, Step.failedAt, hlf]
        · right
          rw [if_neg hl]
          have hp1 : ({ p with mem := m1 } : PSt Node VH).poisoned = false := hp
          obtain ⟨t, htr, hts⟩ := tryTail_spec E hQ f.writes f.delta f.root { p with mem := m1 }
            ([.guardTry true, .poisonCheck true] ++ [.rootCheck true]) hp1
          refine ⟨_, by simp only [specCall]; exact hspec, _, t, true, f.writes, { p with mem := m1 }, _, htr, ?_, ?_, rfl, hts, ?_, ?_⟩
          · simp [Step.failedIo]
          · intro pos; simp [Step.failedAt]
          · exact syncedMem_tryMem m1 f.writes f.delta f.root
          · intro hF; exact tryTail_clean E hF hQ _ _ _ _ _ hp1
  · left
    simp only [if_true]
    have hspec : tryCommitFin p.mem fid = (.busy, p.mem) := by simp [tryCommitFin, hb]
    constructor <;> simp [specCall, hspec, Step.effect, Step.failedIo, Step.failedAt]

end Nomt.Api.Pipe

namespace Nomt.Api.Pipe
open Nomt Nomt.Api
variable {Node VH : Type} [DecidableEq Node] [DecidableEq VH] (H : Hasher Node VH)

/-- `rollback(0)`: `Ok(())` before anything is looked at -/
def NoOp (p : PSt Node VH) (c : Call) (out : Out Node VH) : Prop :=
  out.res = .ok ∧ out.st = p ∧ out.trace = [] ∧ specCall H p.mem c = (.ok, p.mem)

/-- `Nomt::rollback` on an un-poisoned handle whose `finish` does not fail -/
theorem rollback_shape (E : Env) (hQ : E.Q = {}) (hfin : E.finishOk = true) (p : PSt Node VH) (n : Nat)
    (hp : p.poisoned = false) :
    NoOp H p (.rollback n) (rollbackP H E p n) ∨ Refused H E p (.rollback n) (rollbackP H E p n) ∨
    Accepted H E p (.rollback n) (rollbackP H E p n) := by
  have hpf : ¬ (p.poisoned = true) := by simp [hp]
  have hq : E.Q.rollbackPoisonLate = false := by rw [hQ]
  unfold rollbackP
  by_cases h0 : n = 0
  · left
    simp [NoOp, h0, specCall, rollback]
  · right
    simp only [if_neg h0, hq, Bool.not_false, Bool.true_and, if_neg hpf, Bool.false_eq_true, if_false]
    by_cases hro : p.mem.rollbackOn = true
    case neg =>
      left
      have hro' : p.mem.rollbackOn = false := by simpa using hro
      rw [if_pos (by simp [hro'])]
      constructor <;> simp [specCall, rollback, h0, hro', Step.effect, Step.failedIo, Step.failedAt]
    case pos =>
      rw [if_neg (by simp [hro])]
      by_cases hn : n > p.mem.log.length
      · left
        rw [if_pos hn]
        constructor <;> simp [specCall, rollback, h0, hro, hn, Step.effect, Step.failedIo, Step.failedAt]
      · right
        rw [if_neg hn]
        simp only [hfin, Bool.not_true, Bool.false_eq_true, if_false, if_neg hpf]
        let p2 : PSt Node VH :=
          { p with mem := { p.mem with log := p.mem.log.drop n,
                                       root := rootOfKV H (kvApply p.mem.kv (traceback (p.mem.log.take n))),
                                       lastMarker := none } }
        have hp2 : p2.poisoned = false := hp
        have hsc := storeCommit_spec E hQ false (traceback (p.mem.log.take n)) p2 hp2
        refine ⟨syncedMem false (traceback (p.mem.log.take n)) p2.mem, ?_,
          [.guardWrite, .poisonCheck true, .rbTruncate, .sessionFinish true, .poisonCheck true, .rootCheck true, .rootSet],
          (storeCommit E false (traceback (p.mem.log.take n)) p2).2.2,
          false, traceback (p.mem.log.take n), p2, p2.mem, ?_, ?_, ?_, ?_, ?_, ?_, ?_⟩
        · simp [specCall, rollback, h0, hro, hn, syncedMem, stagedMem, p2]
        · rfl
        · simp [Step.failedIo]
        · intro pos; simp [Step.failedAt]
        · rfl
        · exact hsc
        · rfl
        · intro hF; exact storeCommit_clean E hF hQ false _ p2 hp2

/-- **master lemma**: every call on an un-poisoned handle is a no-op `Ok`, refused, or accepted -/
theorem call_shape (E : Env) (hQ : E.Q = {}) (hfin : E.finishOk = true) (p : PSt Node VH) (c : Call)
    (hp : p.poisoned = false) :
    NoOp H p c (runCall H E p c) ∨ Refused H E p c (runCall H E p c) ∨ Accepted H E p c (runCall H E p c) := by
  cases c with
  | commit fid => exact .inr (commitFin_shape H E hQ p fid hp)
  | tryCommit fid => exact .inr (tryCommitFin_shape H E hQ p fid hp)
  | ocommit oid => exact .inr (commitOv_shape H E hQ p oid hp)
  | otryCommit oid => exact .inr (tryCommitOv_shape H E hQ p oid hp)
  | rollback n => exact rollback_shape H E hQ hfin p n hp

end Nomt.Api.Pipe

namespace Nomt.Api.Pipe
open Nomt Nomt.Api
variable {Node VH : Type} [DecidableEq Node] [DecidableEq VH] (H : Hasher Node VH)

/-! ### a poisoned handle -/

/-- the in-memory state differs at most by the handle the call consumed -/
def HandleOnly (m m' : St Node VH) : Prop :=
  m' = m ∨ (∃ fid, m' = { m with fins := m.fins.filter (·.id != fid) }) ∨ (∃ oid, m' = dropOv m oid)

theorem HandleOnly.obs {m m' : St Node VH} (h : HandleOnly m m') : obs m' = obs m := by
  rcases h with rfl | ⟨fid, rfl⟩ | ⟨oid, rfl⟩
  · rfl
  · rfl
  · exact obs_dropOv m oid

theorem HandleOnly.committed {m m' : St Node VH} (h : HandleOnly m m') :
    ∀ x ∈ m'.ovs, x.committed = true → ∃ y ∈ m.ovs, y.id = x.id ∧ y.committed = true := by
  rcases h with rfl | ⟨fid, rfl⟩ | ⟨oid, rfl⟩
  · intro x hx hc; exact ⟨x, hx, rfl, hc⟩
  · intro x hx hc; exact ⟨x, hx, rfl, hc⟩
  · exact dropOv_committed_sub m oid

theorem poisoned_rollback_eq (E : Env) (hq : E.Q.rollbackPoisonLate = false) (p : PSt Node VH) (n : Nat) (hp : p.poisoned = true)
    (hn : n ≠ 0) : rollbackP H E p n = ⟨.err, p, [.guardWrite, .poisonCheck false]⟩ := by
  unfold rollbackP
  simp [hn, hq, hp]

/-- the five calls on a poisoned handle (`rollback(0)` is the no-op `Ok`): refused before anything happens -/
theorem poisoned_commit (E : Env) (hq : E.Q.rollbackPoisonLate = false) (p : PSt Node VH) (c : Call) (hp : p.poisoned = true)
    (hc : c ≠ .rollback 0) :
    (runCall H E p c).res ≠ .ok ∧ noEffect (runCall H E p c).trace = true ∧ noFail (runCall H E p c).trace = true ∧
    (∀ pos, failedAt pos (runCall H E p c).trace = false) ∧
    (runCall H E p c).st.poisoned = true ∧ (runCall H E p c).st.disk = p.disk ∧
    HandleOnly p.mem (runCall H E p c).st.mem ∧ ((runCall H E p c).res = .busy → (runCall H E p c).st = p) := by
  cases c with
  | rollback n =>
    have hn : n ≠ 0 := fun h => hc (by rw [h])
    simp only [runCall]
    rw [poisoned_rollback_eq H E hq p n hp hn]
    simp [hp, HandleOnly, Step.effect, Step.failedIo, Step.failedAt]
  | commit fid =>
    simp only [runCall, commitFinP]
    cases ht : takeFin p.mem fid with
    | none => simp [hp, HandleOnly]
    | some fm =>
      obtain ⟨f, m1⟩ := fm
      simp [hp, HandleOnly, Step.effect, Step.failedIo, Step.failedAt, (takeFin_some ht).2]
      exact .inr (.inl ⟨fid, rfl⟩)
  | tryCommit fid =>
    simp only [runCall, tryCommitFinP]
    cases hb : p.mem.sess.any (·.guard)
    · simp only [Bool.false_eq_true, if_false]
      cases ht : takeFin p.mem fid with
      | none => simp [hp, HandleOnly]
      | some fm =>
        obtain ⟨f, m1⟩ := fm
        simp [hp, HandleOnly, Step.effect, Step.failedIo, Step.failedAt, (takeFin_some ht).2]
        exact .inr (.inl ⟨fid, rfl⟩)
    · simp [hp, HandleOnly, Step.effect, Step.failedIo, Step.failedAt]
  | ocommit oid =>
    simp only [runCall, commitOvP]
    cases ho : p.mem.ov? oid with
    | none => simp [hp, HandleOnly]
    | some o =>
      cases hh : o.held
      · simp [hp, hh, HandleOnly]
      · cases hpar : parentOk p.mem o
        · simp [hp, hh, hpar, HandleOnly, Step.effect, Step.failedIo, Step.failedAt]
          exact .inr (.inr ⟨oid, rfl⟩)
        · simp [hp, hh, hpar, commitOvBody, HandleOnly, Step.effect, Step.failedIo, Step.failedAt]
          exact .inr (.inr ⟨oid, rfl⟩)
  | otryCommit oid =>
    simp only [runCall, tryCommitOvP]
    cases ho : p.mem.ov? oid with
    | none => simp [hp, HandleOnly]
    | some o =>
      cases hpar : parentOk p.mem o
      · simp [hp, hpar, HandleOnly, Step.effect, Step.failedIo, Step.failedAt]
        exact .inr (.inr ⟨oid, rfl⟩)
      · cases hb : p.mem.sess.any (·.guard)
        · cases hh : o.held
          · simp [hp, hb, hh, hpar, HandleOnly]
          · simp [hp, hb, hh, hpar, commitOvBody, HandleOnly, Step.effect, Step.failedIo, Step.failedAt]
            exact .inr (.inr ⟨oid, rfl⟩)
        · simp [hp, hb, hpar, HandleOnly, Step.effect, Step.failedIo, Step.failedAt]

/-- `rollback(n)`, `n > 0`, on a poisoned handle (order as repaired for F21): refused right after the guard, nothing changes -/
theorem poisoned_rollback (E : Env) (hq : E.Q.rollbackPoisonLate = false) (p : PSt Node VH) (n : Nat) (hp : p.poisoned = true)
    (hn : n ≠ 0) : rollbackP H E p n = ⟨.err, p, [.guardWrite, .poisonCheck false]⟩ :=
  poisoned_rollback_eq H E hq p n hp hn

/-- the order before the repair of F21: `rollback(n)` on a poisoned handle returns `Err` and leaves values, root, sequence
number, marker, overlays and the disk alone — but NOT the in-memory rollback log: `Rollback::truncate(n)` ran before the poison
flag was looked at -/
theorem poisoned_rollback_late (E : Env) (hq : E.Q.rollbackPoisonLate = true) (p : PSt Node VH) (n : Nat) (hp : p.poisoned = true)
    (hn : n ≠ 0) :
    (rollbackP H E p n).res = .err ∧ noFail (rollbackP H E p n).trace = true ∧
    (∀ pos, failedAt pos (rollbackP H E p n).trace = false) ∧
    (rollbackP H E p n).st.poisoned = true ∧ (rollbackP H E p n).st.disk = p.disk ∧
    ((rollbackP H E p n).st.mem = p.mem ∨
     (p.mem.rollbackOn = true ∧ n ≤ p.mem.log.length ∧
      (rollbackP H E p n).st.mem = { p.mem with log := p.mem.log.drop n })) := by
  unfold rollbackP
  simp only [if_neg hn, hq, Bool.not_true, Bool.false_and, Bool.false_eq_true, if_false, if_true]
  cases hro : p.mem.rollbackOn
  · simp [hp, Step.failedIo, Step.failedAt]
  · simp only [Bool.not_true, Bool.false_eq_true, if_false]
    by_cases hl : n > p.mem.log.length
    · simp [hl, hp, Step.failedIo, Step.failedAt]
    · rw [if_neg hl]
      cases E.finishOk <;> simp [hp, Step.failedIo, Step.failedAt] <;> omega

end Nomt.Api.Pipe

namespace Nomt.Api.Pipe
open Nomt Nomt.Api
variable {Node VH : Type} [DecidableEq Node] [DecidableEq VH] (H : Hasher Node VH)

/-- no call issues an I/O operation unless it goes through one of the tails: in particular a rollback whose `finish` fails
returns `Err` **without poison** after `truncate(n)` has popped the in-memory log -/
theorem rollback_finish_fails (E : Env) (hfin : E.finishOk = false) (p : PSt Node VH) (n : Nat) :
    noFail (rollbackP H E p n).trace = true ∧ (∀ pos, failedAt pos (rollbackP H E p n).trace = false) ∧
    (rollbackP H E p n).st.disk = p.disk ∧ (rollbackP H E p n).st.poisoned = p.poisoned ∧
    ((rollbackP H E p n).res = .ok → n = 0 ∧ (rollbackP H E p n).st = p) ∧
    ((rollbackP H E p n).st.mem = p.mem ∨
     (n ≠ 0 ∧ p.mem.rollbackOn = true ∧ n ≤ p.mem.log.length ∧ (rollbackP H E p n).res = .err ∧
      (rollbackP H E p n).st.mem = { p.mem with log := p.mem.log.drop n })) := by
  unfold rollbackP
  by_cases h0 : n = 0
  · simp [h0]
  · simp only [if_neg h0]
    by_cases hpq : (!E.Q.rollbackPoisonLate && p.poisoned) = true
    · simp [hpq, Step.failedIo, Step.failedAt]
    · rw [if_neg hpq]
      cases hro : p.mem.rollbackOn
      · cases E.Q.rollbackPoisonLate <;> simp [Step.failedIo, Step.failedAt]
      · simp only [Bool.not_true, Bool.false_eq_true, if_false]
        by_cases hl : n > p.mem.log.length
        · cases E.Q.rollbackPoisonLate <;> simp [hl, Step.failedIo, Step.failedAt]
        · rw [if_neg hl]
          cases E.Q.rollbackPoisonLate <;> simp [hfin, Step.failedIo, Step.failedAt, h0, noFail_append, failedAt_append] <;> omega

end Nomt.Api.Pipe

namespace Nomt.Api.Pipe
open Nomt Nomt.Api
variable {Node VH : Type} [DecidableEq Node] [DecidableEq VH] (H : Hasher Node VH)

/-- the shape of a call on an un-poisoned handle, without the `finish` hypothesis for the four commits -/
def Shape (E : Env) (p : PSt Node VH) (c : Call) (out : Out Node VH) : Prop :=
  NoOp H p c out ∨ Refused H E p c out ∨ Accepted H E p c out

theorem commit_shape (E : Env) (hQ : E.Q = {}) (p : PSt Node VH) (c : Call) (hp : p.poisoned = false)
    (hc : (∀ n, c ≠ .rollback n) ∨ E.finishOk = true) : Shape H E p c (runCall H E p c) := by
  cases c with
  | commit fid => exact .inr (commitFin_shape H E hQ p fid hp)
  | tryCommit fid => exact .inr (tryCommitFin_shape H E hQ p fid hp)
  | ocommit oid => exact .inr (commitOv_shape H E hQ p oid hp)
  | otryCommit oid => exact .inr (tryCommitOv_shape H E hQ p oid hp)
  | rollback n =>
    rcases hc with hc | hc
    · exact absurd rfl (hc n)
    · exact rollback_shape H E hQ hc p n hp

/-- in every shape a failed operation means `Err` and poison -/
theorem Shape.fault_err {E : Env} {p : PSt Node VH} {c : Call} {out : Out Node VH} (h : Shape H E p c out)
    (hfail : noFail out.trace = false) : out.res = .err ∧ out.st.poisoned = true := by
  rcases h with hno | href | hacc
  · rw [hno.2.2.1] at hfail; simp at hfail
  · rw [href.no_fail] at hfail; cases hfail
  · obtain ⟨m', _, t0, t, trim, ws, pX, mX, htr, ht0, _, _, hts, _, _⟩ := hacc.ex
    rw [htr, noFail_append, ht0, Bool.true_and] at hfail
    have hne : out.res ≠ .ok := fun h => by rw [hts.ok_iff.mp h] at hfail; cases hfail
    have herr : out.res = .err := by
      cases hr : out.res
      · exact absurd hr hne
      · rfl
      · exact absurd hr hts.not_busy
    exact ⟨herr, hts.err_poisons herr⟩

end Nomt.Api.Pipe

namespace Nomt.Api.Pipe
open Nomt Nomt.Api
variable {Node VH : Type} [DecidableEq Node] [DecidableEq VH] (H : Hasher Node VH)

theorem postDur_eq (trim : Bool) (ws : Writes VH) (m : St Node VH) : postDur trim ws m = durOf (syncedMem trim ws m) := rfl

/-- a healthy handle: not poisoned, the disk holds exactly the committed state in memory -/
def Healthy (p : PSt Node VH) : Prop :=
  p.poisoned = false ∧ p.disk = { synced := durOf p.mem, pending := none, tableInWal := false, corrupt := false }

theorem healthy_ofSt (s : St Node VH) : Healthy (PSt.ofSt s) := ⟨rfl, rfl⟩

/-- a refused `Api.Exec` step leaves the committed state alone -/
theorem specCall_not_ok_obs (s : St Node VH) (c : Call) (h : (specCall H s c).1 ≠ .ok) : obs (specCall H s c).2 = obs s := by
  cases c with
  | commit fid => exact commitFin_not_ok_obs s fid h
  | tryCommit fid => exact tryCommitFin_not_ok_obs s fid h
  | ocommit oid => exact commitOv_not_ok_obs s oid h
  | otryCommit oid => exact tryCommitOv_not_ok_obs s oid h
  | rollback n => simp only [specCall] at h ⊢; rw [rollback_not_ok H s n h]

theorem durOf_of_obs {s s' : St Node VH} (h : obs s' = obs s) : durOf s' = durOf s := by
  simp only [obs, Prod.mk.injEq] at h
  obtain ⟨h1, h2, h3, h4, _⟩ := h
  simp [durOf, h1, h2, h3, h4]

/-- **the disk after any call on a healthy handle**, by the position of the failing operation -/
theorem Shape.durable {E : Env} {p : PSt Node VH} {c : Call} {out : Out Node VH} (h : Shape H E p c out)
    (hh : Healthy p) :
    out.st.disk.corrupt = false ∧
    ((failedAt .rbAppend out.trace || failedAt .preMeta out.trace || failedAt .metaWrite out.trace) = true →
      out.st.disk = p.disk) ∧
    (failedAt .metaFsync out.trace = true →
      (specCall H p.mem c).1 = .ok ∧
      out.st.disk = { p.disk with pending := some (durOf (specCall H p.mem c).2) }) ∧
    (failedAt .postMeta out.trace = true →
      (specCall H p.mem c).1 = .ok ∧
      out.st.disk.synced = durOf (specCall H p.mem c).2 ∧ out.st.disk.pending = none) ∧
    (out.res = .ok →
      (specCall H p.mem c).1 = .ok ∧ noFail out.trace = true ∧
      out.st = PSt.ofSt (specCall H p.mem c).2) ∧
    (out.res ≠ .ok → noFail out.trace = true → out.st.disk = p.disk ∧ out.st.poisoned = false) := by
  obtain ⟨hp, hd⟩ := hh
  rcases h with hno | href | hacc
  · obtain ⟨h1, h2, h3, h4⟩ := hno
    rw [h3, h2, h4]
    refine ⟨by rw [hd], by simp, by simp, by simp, fun _ => ⟨rfl, rfl, ?_⟩, fun hne => absurd h1 hne⟩
    obtain ⟨mem, poisoned, disk⟩ := p
    simp only at hp hd
    subst hp hd
    rfl
  · have hn := href.no_io
    refine ⟨by rw [href.disk, hd], fun _ => href.disk, ?_, ?_, fun hok => absurd hok href.not_ok,
      fun _ _ => ⟨href.disk, by rw [href.poisoned, hp]⟩⟩
    · intro hf; rw [hn] at hf; cases hf
    · intro hf; rw [hn] at hf; cases hf
  · obtain ⟨m', hspec, t0, t, trim, ws, pX, mX, htr, ht0, ht0', hpX, hts, hm', _⟩ := hacc.ex
    have hfa : ∀ pos, failedAt pos out.trace = failedAt pos t := by
      intro pos; rw [htr, failedAt_append, ht0' pos, Bool.false_or]
    have hnf : noFail out.trace = noFail t := by rw [htr, noFail_append, ht0, Bool.true_and]
    have hpd : postDur trim ws mX = durOf m' := by rw [postDur_eq, hm']
    rw [hspec]
    simp only [hfa, hnf]
    have hcor : out.st.disk.corrupt = false := by
      cases hn : noFail t
      · have := noFail_eq_not_failedAt t
        rw [hn] at this
        by_cases h1 : failedAt .rbAppend t = true
        · rw [hts.rb h1, hpX, hd]
        · by_cases h2 : (failedAt .preMeta t || failedAt .metaWrite t) = true
          · rw [hts.pre h2, hpX, hd]
          · by_cases h3 : failedAt .metaFsync t = true
            · rw [hts.metaFsync h3, hpX, hd]
            · by_cases h4 : failedAt .postMeta t = true
              · rw [(hts.post h4).2.2.2, hpX, hd]
              · simp only [Bool.not_eq_true] at h1 h2 h3 h4
                simp only [Bool.or_eq_false_iff] at h2
                rw [h1, h2.1, h2.2, h3, h4] at this
                cases this
      · rw [hts.done (hts.ok_iff.mpr hn), hpX, hd]
    refine ⟨hcor, ?_, ?_, ?_, ?_, ?_⟩
    · intro hf
      by_cases h1 : failedAt .rbAppend t = true
      · rw [hts.rb h1, hpX]
      · have h2 : (failedAt .preMeta t || failedAt .metaWrite t) = true := by
          simp only [Bool.not_eq_true] at h1
          rw [h1, Bool.false_or] at hf
          exact hf
        rw [hts.pre h2, hpX]
    · intro hf; rw [hts.metaFsync hf, hpX, hpd]; exact ⟨trivial, rfl⟩
    · intro hf; obtain ⟨_, h2, h3, _⟩ := hts.post hf; rw [h2, h3, hpd]; exact ⟨trivial, rfl, rfl⟩
    · intro hok
      refine ⟨trivial, hts.ok_iff.mp hok, ?_⟩
      rw [hts.done hok, hpX, hd, hpd, hm']; rfl
    · intro hne hn; exact absurd (hts.ok_iff.mpr hn) hne

/-- **without a fault the pipeline is the `Api.Exec` step** -/
theorem Shape.clean {E : Env} {s : St Node VH} {c : Call} {out : Out Node VH} (h : Shape H E (PSt.ofSt s) c out)
    (hF : ∀ a, E.F a = false) (hl : E.rbLockFree = true) :
    out.res = (specCall H s c).1 ∧ out.st = PSt.ofSt (specCall H s c).2 := by
  have hd := Shape.durable H h (healthy_ofSt s)
  rcases h with hno | href | hacc
  · obtain ⟨h1, h2, h3, h4⟩ := hno
    simp only [PSt.ofSt] at h4 ⊢
    rw [h4, h1, h2]; exact ⟨rfl, rfl⟩
  · rcases href.spec with ⟨h1, h2⟩ | ⟨h1, _, _⟩
    · have h1 : out.res = (specCall H s c).1 := h1
      have h2 : out.st.mem = (specCall H s c).2 := h2
      refine ⟨h1, ?_⟩
      have hne : (specCall H s c).1 ≠ .ok := by rw [← h1]; exact href.not_ok
      have ho := durOf_of_obs (specCall_not_ok_obs H s c hne)
      have h3 := href.disk
      have h4 := href.poisoned
      simp only [PSt.ofSt] at h2 h3 h4 ho ⊢
      cases hst : out.st with
      | mk mem poisoned disk =>
        rw [hst] at h2 h3 h4
        simp only at h2 h3 h4
        rw [h2, h3, h4, ho]
    · rw [hl] at h1; cases h1
  · obtain ⟨m', hspec, t0, t, trim, ws, pX, mX, htr, ht0, ht0', hpX, hts, hm', hclean⟩ := hacc.ex
    have hok := hclean hF
    have := (hd.2.2.2.2.1 hok).2.2
    simp only [PSt.ofSt] at hspec this ⊢
    rw [hspec] at this ⊢
    exact ⟨hok, this⟩

/-- **a call that is refused** (any result but `Ok`, nothing failed) on an un-poisoned handle performed no step with an effect;
disk and poison flag are untouched; the in-memory state is the one the refused `Api.Exec` step leaves, or — handed back —
the very same state -/
theorem Shape.refused {E : Env} {p : PSt Node VH} {c : Call} {out : Out Node VH} (h : Shape H E p c out)
    (hne : out.res ≠ .ok) (hnf : noFail out.trace = true) : Refused H E p c out := by
  rcases h with hno | href | hacc
  · exact absurd hno.1 hne
  · exact href
  · obtain ⟨m', hspec, t0, t, trim, ws, pX, mX, htr, ht0, ht0', hpX, hts, hm', _⟩ := hacc.ex
    rw [htr, noFail_append, ht0, Bool.true_and] at hnf
    exact absurd (hts.ok_iff.mpr hnf) hne

end Nomt.Api.Pipe

namespace Nomt.Api.Pipe
open Nomt Nomt.Api
variable {Node VH : Type} [DecidableEq Node] [DecidableEq VH]

/-! ### the hinge between the pipeline and the disk model: what the position of the failing operation means for the disk -/

inductive Cut where
  | old            -- nothing of the new state is named by a meta page
  | metaVolatile   -- the new meta page is written, not fsynced
  | new            -- the new meta page is durable
deriving DecidableEq, Repr

def Pos.cut : Pos → Cut
  | .rbAppend | .preMeta | .metaWrite => .old
  | .metaFsync => .metaVolatile
  | .postMeta => .new

/-- the pipeline's disk component in each cut -/
def cutHolds (pre post : Dur Node VH) (d : DiskSt Node VH) : Cut → Prop
  | .old => d.synced = pre ∧ d.pending = none
  | .metaVolatile => d.synced = pre ∧ d.pending = some post
  | .new => d.synced = post ∧ d.pending = none

end Nomt.Api.Pipe
