import NomtModel.Api.Locks2
import NomtModel.Store.StepOrderCheck
/-!
The micro-step programs of the two-lock LTS (`Api/Locks2.lean`, `progOf`) and the step lists the step-order
translator reads off the CURRENT Rust text (`Generated/StepOrder.lean`, `tools/gen_steps.py`) are compared on their
common vocabulary:

    guard (write / try) · poison check · marker check · root check · publication of the root · rollback-log push ·
    store commit · (rollback:) truncation of the log · begin of the inner session

`projI` maps a micro-step to that vocabulary (lock operations on `shared`, the first phase of `write()`, releases and
returns have no counterpart in the step lists: they are scopes in the source), `projS` a source step (early returns,
`bail!`, `mark_committed`, the marker assignment, poisoning have no counterpart among the micro-steps: they are the
`stop` / unwinding semantics of the LTS).
-/
namespace Nomt.Locks2
open Nomt.GenOrder

/-- a micro-step in the common vocabulary (`inRb`: inside `Nomt::rollback`) -/
def projI {R W D : Type} : Instr R W D → Option N
  | .aWrite2 => some .guard_write          -- the write guard is held from here (`access_lock.write()` returned)
  | .aTryWrite => some .guard_try
  | .chkPoison => some .poison_check
  | .chkMarker _ => some .marker_check
  | .chkRoot _ => some .root_check
  | .chkSeen => some .root_check           -- the root check of the commit inside `rollback`
  | .pubRoot _ _ => some .root_set
  | .pubRb => some .root_set
  | .logPush _ _ => some .rollback_commit
  | .logPop _ => some .truncate
  | .readRoot => some .begin_session       -- `begin_session` inside `rollback` samples the root under `shared`
  | .store _ _ => some .store_commit
  | .storeRb _ => some .store_commit
  | _ => none

/-- a source step in the common vocabulary -/
def projS : N → Option N
  | .guard_write => some .guard_write
  | .guard_try => some .guard_try
  | .poison_check => some .poison_check
  | .marker_check => some .marker_check
  | .root_check => some .root_check
  | .root_set => some .root_set
  | .rollback_commit => some .rollback_commit
  | .rollback_commit_nb => some .rollback_commit
  | .store_commit => some .store_commit
  | .truncate => some .truncate
  | .begin_session => some .begin_session
  | .inner_commit => some .inner_commit
  | _ => none

/-- the order of a program of the LTS -/
def orderI {R W D : Type} (p : List (Instr R W D)) : List N := p.filterMap projI

/-- the order of a function of the source -/
def orderS (f : List Step) : List N := (names f).filterMap projS

/-- `FinishedSession::commit` as `Nomt::rollback` calls it: no write guard (`take_global_guard = false`: the guard of
`rollback` is held), no rollback delta (`record_rollback_delta = false`) -/
def innerCommit : List N := (orderS finished_commit).filter (fun n => n != .guard_write && n != .rollback_commit)

/-- the call `….commit(&self)` at the end of `Nomt::rollback` replaced by the steps of the callee -/
def inlineInner (l : List N) : List N := l.flatMap (fun n => if n = .inner_commit then innerCommit else [n])

end Nomt.Locks2
