import NomtModel.Api.Exec
import NomtModel.Api.KVLemmas
/-!
Lemmas about the executable API model `Api/Exec.lean`:
the observable committed state `obs`, and "a refused / deferred commit or rollback changes nothing" (C12).
-/
namespace Nomt.Api
open Nomt
variable {Node VH : Type} [DecidableEq Node] [DecidableEq VH]

/-- the committed, durable part of the state: values, root, rollback log, sequence number, and the marker
of the last committed overlay -/
def obs (s : St Node VH) : KVL VH × Node × List (Writes VH) × Nat × Option Nat :=
  (s.kv, s.root, s.log, s.seqn, s.lastMarker)

theorem ov?_some {s : St Node VH} {id : Nat} {o : Ov Node VH} (h : s.ov? id = some o) :
    o ∈ s.ovs ∧ o.id = id := by
  unfold St.ov? at h
  exact ⟨List.mem_of_find?_eq_some h, by simpa using List.find?_some h⟩

@[simp] theorem obs_setOv (s : St Node VH) (o : Ov Node VH) : obs (setOv s o) = obs s := rfl

@[simp] theorem obs_dropOv (s : St Node VH) (oid : Nat) : obs (dropOv s oid) = obs s := by
  unfold dropOv; split <;> rfl

theorem takeFin_some {s s1 : St Node VH} {fid : Nat} {f : Fin Node VH} (h : takeFin s fid = some (f, s1)) :
    s.fins.find? (·.id == fid) = some f ∧ s1 = { s with fins := s.fins.filter (·.id != fid) } := by
  unfold takeFin at h
  split at h
  · next f' hf => simp only [Option.some.injEq, Prod.mk.injEq] at h; exact ⟨h.1 ▸ hf, h.2.symm⟩
  · cases h

theorem takeFin_obs {s s1 : St Node VH} {fid : Nat} {f : Fin Node VH} (h : takeFin s fid = some (f, s1)) :
    obs s1 = obs s := by
  rw [(takeFin_some h).2]; rfl

/-! ### unfolding equations with the parent check named -/

/-- `Overlay::commit`'s parent check: no parent, or the parent is the last committed overlay -/
def parentOk (s : St Node VH) (o : Ov Node VH) : Bool :=
  match o.parent with
  | none => true
  | some p => s.lastMarker == some p

theorem commitOv_eq (s : St Node VH) (oid : Nat) : commitOv s oid =
    match s.ov? oid with
    | none => (.err, s)
    | some o =>
      if o.held = false then (.err, s)
      else if parentOk s o = false then (.err, dropOv s oid)
      else if s.root ≠ o.prevRoot then (.err, dropOv s oid)
      else (.ok, applyCommit (setOv (dropOv s oid) { o with held := false, committed := true })
                  o.changes o.delta o.root (some oid)) := by
  unfold commitOv parentOk
  cases s.ov? oid with
  | none => rfl
  | some o =>
    obtain ⟨id, parent, anc, ch, pr, r, d, c, held⟩ := o
    cases held <;> cases parent <;> simp

theorem tryCommitOv_eq (s : St Node VH) (oid : Nat) : tryCommitOv s oid =
    match s.ov? oid with
    | none => (.err, s)
    | some o =>
      if parentOk s o = false then (.err, dropOv s oid)
      else if s.sess.any (·.guard) = true then (.busy, s)
      else commitOv s oid := by
  unfold tryCommitOv parentOk
  cases s.ov? oid with
  | none => rfl
  | some o =>
    obtain ⟨id, parent, anc, ch, pr, r, d, c, held⟩ := o
    cases parent <;> simp

theorem commitFin_eq (s : St Node VH) (fid : Nat) : commitFin s fid =
    match takeFin s fid with
    | none => (.err, s)
    | some (f, s1) =>
      if s1.root ≠ f.prevRoot then (.err, s1)
      else (.ok, applyCommit s1 f.writes f.delta f.root none) := rfl

/-! ### C12 on the executable model -/

/-- a refused blocking commit consumes the changeset and nothing else -/
theorem commitFin_not_ok_state (s : St Node VH) (fid : Nat) (h : (commitFin s fid).1 ≠ .ok) :
    (commitFin s fid).2 = { s with fins := s.fins.filter (·.id != fid) } ∨ (commitFin s fid).2 = s := by
  rw [commitFin_eq] at h ⊢
  cases ht : takeFin s fid with
  | none => exact .inr rfl
  | some p =>
    obtain ⟨f, s1⟩ := p
    simp only [ht] at h ⊢
    by_cases hr : s1.root ≠ f.prevRoot
    · rw [if_pos hr]; exact .inl (takeFin_some ht).2
    · simp [hr] at h

theorem commitFin_not_ok_obs (s : St Node VH) (fid : Nat) (h : (commitFin s fid).1 ≠ .ok) :
    obs (commitFin s fid).2 = obs s := by
  rcases commitFin_not_ok_state s fid h with e | e <;> rw [e] <;> rfl

theorem commitFin_ne_busy (s : St Node VH) (fid : Nat) : (commitFin s fid).1 ≠ .busy := by
  rw [commitFin_eq]
  cases takeFin s fid with
  | none => simp
  | some p =>
    obtain ⟨f, s1⟩ := p
    by_cases hr : s1.root ≠ f.prevRoot <;> simp [hr]

theorem tryCommitFin_busy (s : St Node VH) (fid : Nat) (h : (tryCommitFin s fid).1 = .busy) :
    (tryCommitFin s fid).2 = s := by
  unfold tryCommitFin at h ⊢
  by_cases hg : s.sess.any (·.guard) = true
  · simp [hg]
  · simp only [hg] at h
    exact absurd h (commitFin_ne_busy s fid)

theorem tryCommitFin_not_ok_obs (s : St Node VH) (fid : Nat) (h : (tryCommitFin s fid).1 ≠ .ok) :
    obs (tryCommitFin s fid).2 = obs s := by
  unfold tryCommitFin at h ⊢
  by_cases hg : s.sess.any (·.guard) = true
  · simp [hg]
  · simp only [hg] at h ⊢
    exact commitFin_not_ok_obs s fid h

/-- the overlays of `setOv s o'` where `o'` only differs from a present overlay in `held` carry no new
`committed` flag -/
theorem setOv_committed_sub {s : St Node VH} {o o' : Ov Node VH} (ho : o ∈ s.ovs) (hid : o'.id = o.id)
    (hc : o'.committed = o.committed) :
    ∀ x ∈ (setOv s o').ovs, x.committed = true → ∃ y ∈ s.ovs, y.id = x.id ∧ y.committed = true := by
  intro x hx hxc
  simp only [setOv, List.mem_map] at hx
  obtain ⟨y, hy, e⟩ := hx
  split at e
  · subst e; exact ⟨o, ho, hid.symm, hc ▸ hxc⟩
  · subst e; exact ⟨y, hy, rfl, hxc⟩

theorem dropOv_committed_sub (s : St Node VH) (oid : Nat) :
    ∀ x ∈ (dropOv s oid).ovs, x.committed = true → ∃ y ∈ s.ovs, y.id = x.id ∧ y.committed = true := by
  unfold dropOv
  split
  · next o ho => exact setOv_committed_sub (ov?_some ho).1 rfl rfl
  · intro x hx hxc; exact ⟨x, hx, rfl, hxc⟩

theorem commitOv_not_ok (s : St Node VH) (oid : Nat) (h : (commitOv s oid).1 ≠ .ok) :
    (commitOv s oid).2 = s ∨ (commitOv s oid).2 = dropOv s oid := by
  rw [commitOv_eq] at h ⊢
  cases ho : s.ov? oid with
  | none => exact .inl rfl
  | some o =>
    simp only [ho] at h ⊢
    by_cases h1 : o.held = false
    · simp [h1]
    · by_cases h2 : parentOk s o = false
      · simp [h1, h2]
      · by_cases h3 : s.root ≠ o.prevRoot
        · simp [h1, h2, h3]
        · simp [h1, h2, h3] at h

theorem commitOv_not_ok_obs (s : St Node VH) (oid : Nat) (h : (commitOv s oid).1 ≠ .ok) :
    obs (commitOv s oid).2 = obs s := by
  rcases commitOv_not_ok s oid h with e | e <;> rw [e]
  exact obs_dropOv s oid

theorem commitOv_not_ok_committed (s : St Node VH) (oid : Nat) (h : (commitOv s oid).1 ≠ .ok) :
    ∀ x ∈ (commitOv s oid).2.ovs, x.committed = true → ∃ y ∈ s.ovs, y.id = x.id ∧ y.committed = true := by
  rcases commitOv_not_ok s oid h with e | e <;> rw [e]
  · intro x hx hxc; exact ⟨x, hx, rfl, hxc⟩
  · exact dropOv_committed_sub s oid

theorem commitOv_ne_busy (s : St Node VH) (oid : Nat) : (commitOv s oid).1 ≠ .busy := by
  rw [commitOv_eq]
  cases ho : s.ov? oid with
  | none => simp
  | some o =>
    simp only
    by_cases h1 : o.held = false
    · simp [h1]
    · by_cases h2 : parentOk s o = false
      · simp [h1, h2]
      · by_cases h3 : s.root ≠ o.prevRoot <;> simp [h1, h2, h3]

theorem tryCommitOv_not_ok (s : St Node VH) (oid : Nat) (h : (tryCommitOv s oid).1 ≠ .ok) :
    (tryCommitOv s oid).2 = s ∨ (tryCommitOv s oid).2 = dropOv s oid := by
  rw [tryCommitOv_eq] at h ⊢
  cases ho : s.ov? oid with
  | none => exact .inl rfl
  | some o =>
    simp only [ho] at h ⊢
    by_cases h2 : parentOk s o = false
    · simp [h2]
    · by_cases h3 : s.sess.any (·.guard) = true
      · simp only [h2, h3, if_true, if_false]; exact .inl rfl
      · simp only [h2, h3, if_false] at h ⊢
        exact commitOv_not_ok s oid h

theorem tryCommitOv_busy (s : St Node VH) (oid : Nat) (h : (tryCommitOv s oid).1 = .busy) :
    (tryCommitOv s oid).2 = s := by
  rw [tryCommitOv_eq] at h ⊢
  cases ho : s.ov? oid with
  | none => rfl
  | some o =>
    simp only [ho] at h ⊢
    by_cases h2 : parentOk s o = false
    · simp [h2] at h
    · by_cases h3 : s.sess.any (·.guard) = true
      · simp [h2, h3]
      · simp only [h2, h3, if_false] at h
        exact absurd h (commitOv_ne_busy s oid)

theorem tryCommitOv_not_ok_obs (s : St Node VH) (oid : Nat) (h : (tryCommitOv s oid).1 ≠ .ok) :
    obs (tryCommitOv s oid).2 = obs s := by
  rcases tryCommitOv_not_ok s oid h with e | e <;> rw [e]
  exact obs_dropOv s oid

theorem tryCommitOv_not_ok_committed (s : St Node VH) (oid : Nat) (h : (tryCommitOv s oid).1 ≠ .ok) :
    ∀ x ∈ (tryCommitOv s oid).2.ovs, x.committed = true → ∃ y ∈ s.ovs, y.id = x.id ∧ y.committed = true := by
  rcases tryCommitOv_not_ok s oid h with e | e <;> rw [e]
  · intro x hx hxc; exact ⟨x, hx, rfl, hxc⟩
  · exact dropOv_committed_sub s oid

theorem rollback_not_ok (H : Hasher Node VH) (s : St Node VH) (n : Nat) (h : (rollback H s n).1 ≠ .ok) :
    (rollback H s n).2 = s := by
  unfold rollback at h ⊢
  by_cases h1 : n = 0
  · simp [h1]
  · by_cases h2 : (!s.rollbackOn) = true
    · simp [h1, h2]
    · by_cases h3 : n > s.log.length
      · simp [h1, h2, h3]
      · simp [h1, h2, h3] at h

end Nomt.Api
