import NomtModel.Api.OvlValue
/-!
`LiveOverlay::finish` establishes the heap invariant for the overlay it creates (with or without
`prune_below`), hence every heap built by `new` / `finish` satisfies it; with `prune_below` the index holds
nothing but the creation chain's keys.  (Helper lemmas for `Props/C11_Index.lean`.)
-/
namespace Nomt.Ovl
open Nomt
variable {V : Type}

theorem firstIdx_take (c : List (Writes V)) (m : Nat) (k : Key) :
    firstIdx (c.take m) k = (firstIdx c k).filter (fun j => decide (j < m)) := by
  induction c generalizing m with
  | nil => simp [firstIdx]
  | cons ws rest ih =>
    cases m with
    | zero =>
      rw [List.take_zero]
      cases firstIdx (ws :: rest) k <;> simp [firstIdx, Option.filter]
    | succ m =>
      simp only [List.take_succ_cons, firstIdx]
      cases hw : wsLookup ws k with
      | some w => simp [Option.filter]
      | none =>
        simp only
        rw [ih m]
        cases hf : firstIdx rest k with
        | none => rfl
        | some j => by_cases hj : j < m <;> simp [Option.filter, hj]

theorem wsLookup_some_mem {ws : Writes V} {k : Key} {c : Option V} (h : wsLookup ws k = some c) :
    k ∈ ws.map (·.1) := by
  cases hn : wsLookup ws k with
  | none => rw [hn] at h; cases h
  | some _ =>
    false_or_by_contra
    rename_i hk
    have : wsLookup ws k = none := (wsLookup_eq_none_iff ws k).2 (fun kw hkw e => hk (List.mem_map.2 ⟨kw, hkw, e⟩))
    rw [this] at hn; cases hn

theorem wsLookup_none_not_mem {ws : Writes V} {k : Key} (h : wsLookup ws k = none) : k ∉ ws.map (·.1) := by
  intro hm
  obtain ⟨kw, hkw, e⟩ := List.mem_map.1 hm
  exact (wsLookup_eq_none_iff ws k).1 h kw hkw e

theorem pruneBelow_empty (min : Nat) : ({} : Index).pruneBelow min = {} := rfl

/-- what both variants of the index handed to `insert_values` have in common -/
structure IdxBase (po : Ov V) (min : Nat) (idx : Index) : Prop where
  wf : idx.WF
  le : ∀ e ∈ idx.bySeqn, e.1 ≤ po.seqn
  sub : ∀ k s, kvGet idx.values k = some s → kvGet po.index.values k = some s
  keep : ∀ k s, kvGet po.index.values k = some s → min ≤ s → kvGet idx.values k = some s

theorem idxBase_of_flag {h : Heap V} {po : Ov V} (inv : OvInv h po) (min : Nat) (prune : Bool) :
    IdxBase po min (if prune then po.index.pruneBelow min else po.index) := by
  cases prune with
  | false => exact ⟨inv.wf, inv.le, fun _ _ h => h, fun _ _ h _ => h⟩
  | true =>
    simp only [if_true]
    rw [pruneBelow_eq_spec inv.wf]
    refine ⟨pruneSpec_wf inv.wf min, ?_, ?_, ?_⟩
    · intro e he
      exact inv.le e (List.mem_filter.1 he).1
    · intro k s hs
      rw [pruneSpec_get inv.wf] at hs
      cases hg : kvGet po.index.values k with
      | none => rw [hg] at hs; cases hs
      | some g =>
        rw [hg] at hs
        simp only [Option.filter] at hs
        split at hs
        · exact hs
        · cases hs
    · intro k s hs hm
      rw [pruneSpec_get inv.wf, hs]
      simp [Option.filter, hm]

/-- `finish` never panics on a well-shaped live overlay and creates an overlay satisfying the invariant -/
theorem finishWith_inv {h : Heap V} (hinv : HeapInv h) {l : Live} (ok : LiveOK h l) (prune : Bool)
    (changes : Writes V) :
    ∃ o, Live.finishWith prune h l changes = .ok o ∧ OvInv h o ∧ o.values = changes ∧ o.parent = l.parent ∧
      o.anc = l.chain ∧ o.seqn = (match l.parent with | none => 0 | some p => (match h[p]? with | some po => po.seqn + 1 | none => 0)) ∧
      (prune = true → OvTight o) := by
  unfold LiveOK at ok
  unfold Live.finishWith Live.chain
  cases hp : l.parent with
  | none =>
    simp only
    refine ⟨_, rfl, ?_, rfl, rfl, rfl, rfl, ?_⟩
    · have hidx : (if prune then ({} : Index).pruneBelow l.minSeqn else {}) = ({} : Index) := by
        cases prune <;> simp [pruneBelow_empty]
      rw [hidx]
      refine ⟨insertValues_wf Index.WF.empty 0 (fun e he => (by cases he)) _,
        insertValues_le 0 (fun e he => (by cases he)) _, Nat.le_refl _, fun a ha => (by cases ha), rfl, ?_, ?_⟩
      · intro k j hf
        simp only [chainData, List.map_nil, firstIdx] at hf
        cases hw : wsLookup changes k with
        | none => rw [hw] at hf; cases hf
        | some c =>
          rw [hw] at hf; cases hf
          simp only
          rw [insertValues_get, if_pos (wsLookup_some_mem hw)]
      · intro k hf s hs
        simp only [chainData, List.map_nil, firstIdx] at hf
        cases hw : wsLookup changes k with
        | some c => rw [hw] at hf; cases hf
        | none =>
          simp only at hs
          rw [insertValues_get, if_neg (wsLookup_none_not_mem hw)] at hs
          cases hs
    · intro _ k s hs
      simp only at hs ⊢
      have hidx : (if prune then ({} : Index).pruneBelow l.minSeqn else {}) = ({} : Index) := by
        cases prune <;> simp [pruneBelow_empty]
      rw [hidx, insertValues_get] at hs
      split at hs
      · cases hs; omega
      · cases hs
  | some p =>
    rw [hp] at ok
    obtain ⟨po, hpo, hn, hanc, hmin⟩ := ok
    simp only [hpo]
    have inv := hinv p po hpo
    have base := idxBase_of_flag inv l.minSeqn prune
    have hplt : p < h.length := by
      rcases Nat.lt_or_ge p h.length with hlt | hge
      · exact hlt
      · rw [List.getElem?_eq_none hge] at hpo; cases hpo
    refine ⟨_, rfl, ?_, rfl, rfl, rfl, rfl, ?_⟩
    · have hlen := inv.ancLen
      refine ⟨insertValues_wf base.wf _ (fun e he => Nat.le_succ_of_le (base.le e he)) _,
        insertValues_le _ (fun e he => Nat.le_succ_of_le (base.le e he)) _, ?_, ?_, rfl, ?_, ?_⟩
      · simp only [List.length_cons]; omega
      · intro a ha
        rcases List.mem_cons.1 ha with e | e
        · subst e; exact hplt
        · rw [hanc] at e
          exact inv.ancLt a (List.mem_of_mem_take e)
      · intro k j hf
        simp only
        rw [live_chain_eq hpo hanc] at hf
        simp only [firstIdx] at hf
        rw [insertValues_get]
        cases hw : wsLookup changes k with
        | some c =>
          rw [hw] at hf; cases hf
          rw [if_pos (wsLookup_some_mem hw)]; rfl
        | none =>
          rw [hw] at hf
          rw [if_neg (wsLookup_none_not_mem hw)]
          simp only at hf
          rw [firstIdx_take] at hf
          cases hf' : firstIdx (po.values :: chainData h po.anc) k with
          | none => rw [hf'] at hf; cases hf
          | some j' =>
            rw [hf'] at hf
            simp only [Option.filter, Option.map] at hf
            split at hf
            · next heq =>
              split at heq
              · next hj =>
                cases heq; cases hf
                have hj : j' < l.anc.length + 1 := by simpa using hj
                have hpo_hit := inv.hit k j' hf'
                have hj'len : j' < (po.values :: chainData h po.anc).length := firstIdx_lt hf'
                simp [chainData] at hj'len
                rw [base.keep k _ hpo_hit (by omega)]
                congr 1
                omega
              · cases heq
            · cases hf
      · intro k hf s hs
        simp only at hs ⊢
        rw [live_chain_eq hpo hanc] at hf
        simp only [firstIdx] at hf
        rw [insertValues_get] at hs
        cases hw : wsLookup changes k with
        | some c => rw [hw] at hf; cases hf
        | none =>
          rw [hw] at hf
          rw [if_neg (wsLookup_none_not_mem hw)] at hs
          have hpos := base.sub k s hs
          simp only at hf
          rw [firstIdx_take] at hf
          simp only [List.length_cons]
          cases hf' : firstIdx (po.values :: chainData h po.anc) k with
          | none =>
            have := inv.miss k hf' s hpos
            omega
          | some j' =>
            rw [hf'] at hf
            have hnot : ¬ j' < l.anc.length + 1 := by
              intro hj
              simp [Option.filter, hj] at hf
            have hpo_hit := inv.hit k j' hf'
            rw [hpos] at hpo_hit
            have hs' : s = po.seqn - j' := Option.some.inj hpo_hit
            have hj'len : j' < (po.values :: chainData h po.anc).length := firstIdx_lt hf'
            simp [chainData] at hj'len
            omega
    · intro hpr k s hs
      subst hpr
      simp only [if_true] at hs
      simp only [List.length_cons]
      rw [insertValues_get] at hs
      split at hs
      · cases hs; omega
      · rw [pruneBelow_eq_spec inv.wf, pruneSpec_get inv.wf] at hs
        cases hg : kvGet po.index.values k with
        | none => rw [hg] at hs; cases hs
        | some g =>
          rw [hg] at hs
          simp only [Option.filter] at hs
          split at hs
          · next hm =>
            cases hs
            have hm : l.minSeqn ≤ s := by simpa using hm
            have := inv.ancLen
            omega
          · cases hs

/-- pushing the created overlay keeps the heap invariant -/
theorem heapInv_push {h : Heap V} (hinv : HeapInv h) {o : Ov V} (inv : OvInv h o) : HeapInv (h ++ [o]) := by
  intro i o' hi
  rcases Nat.lt_or_ge i h.length with hlt | hge
  · rw [List.getElem?_append_left hlt] at hi
    exact (hinv i o' hi).append o
  · rw [List.getElem?_append_right hge] at hi
    have : i - h.length = 0 := by
      rcases Nat.eq_zero_or_pos (i - h.length) with e | e
      · exact e
      · rw [List.getElem?_eq_none (by simp; omega)] at hi; cases hi
    rw [this] at hi
    simp at hi
    subst hi
    exact inv.append o

theorem heapTight_push {h : Heap V} (ht : HeapTight h) {o : Ov V} (t : OvTight o) : HeapTight (h ++ [o]) := by
  intro i o' hi
  rcases Nat.lt_or_ge i h.length with hlt | hge
  · rw [List.getElem?_append_left hlt] at hi
    exact ht i o' hi
  · rw [List.getElem?_append_right hge] at hi
    have : i - h.length = 0 := by
      rcases Nat.eq_zero_or_pos (i - h.length) with e | e
      · exact e
      · rw [List.getElem?_eq_none (by simp; omega)] at hi; cases hi
    rw [this] at hi
    simp at hi
    subst hi
    exact t

/-- tight + invariant: the index is *exactly* the creation chain -/
theorem index_exact {h : Heap V} {o : Ov V} (inv : OvInv h o) (t : OvTight o) (k : Key) :
    kvGet o.index.values k = (firstIdx (o.values :: chainData h o.anc) k).map (fun j => o.seqn - j) := by
  cases hf : firstIdx (o.values :: chainData h o.anc) k with
  | some j => rw [inv.hit k j hf]; rfl
  | none =>
    cases hg : kvGet o.index.values k with
    | none => rfl
    | some s =>
      have h1 := inv.miss k hf s hg
      have h2 := t k s hg
      omega

end Nomt.Ovl
