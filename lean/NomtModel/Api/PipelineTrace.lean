import NomtModel.Api.PipelineCalls
/-!
The pipeline against a REAL I/O trace (hook H1): the label of an event (file · kind · site) ↦ `Io`, the position at which
the pipeline issues each label (`Io.pos`), the work of a commit read off the label sequence of its fault-free run
(`workOf`), and `conforms`: is a label sequence one the pipeline can issue — positions in the order append → pre-meta tasks →
meta write → meta fsync → post-meta, every task's own order kept (segment append: create, header, payload, pad, fsync,
directory fsync; WAL: resize, write, fsync; both beatree fsyncs after the last page write / growth; table fsync after the last
table write, WAL truncation after it).
-/
namespace Nomt.Api.Pipe
open Nomt Nomt.Api

/-- `<file>:<Kind>:<site>` as the harness prints it (file: `meta ln bbn ht wal rollback dir`) -/
def ioOfLabel : String → Option Io
  | "rollback:Create:seglog.create_segment" => some .segCreate
  | "rollback:Append:seglog.write_header" => some .segHeader
  | "rollback:Append:seglog.write_payload" => some .segPayload
  | "rollback:SetLen:seglog.pad" => some .segPad
  | "rollback:Fsync:seglog.fsync" => some .segFsync
  | "dir:DirSync:seglog.append.dirsync" => some .segDirsync
  | "bitbox:Alloc:bucket_exhaustion" => some .bucketAlloc
  | "wal:SetLen:wal.write.set_len" => some .walSetLen
  | "wal:Append:wal.write" => some .walWrite
  | "wal:Fsync:wal.write.fsync" => some .walFsync
  | "ln:SetLen:allocator.grow" => some .lnGrow
  | "bbn:SetLen:allocator.grow" => some .bbnGrow
  | "ln:Write:io.send" => some .lnWrite
  | "bbn:Write:io.send" => some .bbnWrite
  | "bbn:Fsync:fsyncer" => some .bbnFsync
  | "ln:Fsync:fsyncer" => some .lnFsync
  | "meta:Write:meta.write" => some .metaWrite
  | "meta:Fsync:meta.fsync" => some .metaFsync
  | "rollback:Unlink:seglog.prune_oldest" => some .segPruneOldest
  | "rollback:Unlink:seglog.remove_all" => some .segRemoveAll
  | "rollback:Unlink:seglog.prune_recent" => some .segPruneRecent
  | "dir:DirSync:seglog.prune_recent.dirsync" => some .segPruneDirsync
  | "rollback:SetLen:seglog.truncate_head" => some .segTruncHead
  | "rollback:Fsync:seglog.truncate_head.fsync" => some .segTruncHeadFsync
  | "ht:Write:io.send" => some .htWrite
  | "ht:Fsync:ht.fsync" => some .htFsync
  | "wal:SetLen:wal.truncate" => some .walTruncate
  | _ => none

/-- where the pipeline issues a label -/
def Io.pos : Io → Pos
  | .segCreate | .segHeader | .segPayload | .segPad | .segFsync | .segDirsync => .rbAppend
  | .bucketAlloc | .walSetLen | .walWrite | .walFsync | .lnGrow | .bbnGrow | .lnWrite | .bbnWrite | .bbnFsync | .lnFsync => .preMeta
  | .metaWrite => .metaWrite
  | .metaFsync => .metaFsync
  | .segPruneOldest | .segRemoveAll | .segPruneRecent | .segPruneDirsync | .segTruncHead | .segTruncHeadFsync
  | .htWrite | .htFsync | .walTruncate => .postMeta

def Pos.rank : Pos → Nat
  | .rbAppend => 0 | .preMeta => 1 | .metaWrite => 2 | .metaFsync => 3 | .postMeta => 4

/-- issue order of the labels (the order of the declaration): a persistent fault from `l` on fails every label of rank ≥ -/
def Io.rank : Io → Nat
  | .segCreate => 0 | .segHeader => 1 | .segPayload => 2 | .segPad => 3 | .segFsync => 4 | .segDirsync => 5
  | .bucketAlloc => 6 | .walSetLen => 7 | .walWrite => 8 | .walFsync => 9
  | .lnGrow => 10 | .bbnGrow => 11 | .lnWrite => 12 | .bbnWrite => 13 | .bbnFsync => 14 | .lnFsync => 15
  | .metaWrite => 16 | .metaFsync => 17
  | .segPruneOldest => 18 | .segRemoveAll => 19 | .segPruneRecent => 20 | .segPruneDirsync => 21 | .segTruncHead => 22
  | .segTruncHeadFsync => 23 | .htWrite => 24 | .htFsync => 25 | .walTruncate => 26

/-- the concurrent tasks of a commit -/
inductive TaskId where | tSeg | tWal | tTree | tMeta | tPrune | tHt
deriving DecidableEq, Repr

def Io.task : Io → TaskId
  | .segCreate | .segHeader | .segPayload | .segPad | .segFsync | .segDirsync => .tSeg
  | .bucketAlloc | .walSetLen | .walWrite | .walFsync => .tWal
  | .lnGrow | .bbnGrow | .lnWrite | .bbnWrite | .bbnFsync | .lnFsync => .tTree
  | .metaWrite | .metaFsync => .tMeta
  | .segPruneOldest | .segRemoveAll | .segPruneRecent | .segPruneDirsync | .segTruncHead | .segTruncHeadFsync => .tPrune
  | .htWrite | .htFsync | .walTruncate => .tHt

/-- the stage of a label inside its task: within one task the stages never decrease (page writes and growth of the two
beatree files are one stage: they interleave; several appends / unlinks of one kind likewise) -/
def Io.stage : Io → Nat
  | .segCreate => 0 | .segHeader => 1 | .segPayload => 2 | .segPad => 3 | .segFsync => 4 | .segDirsync => 5
  | .bucketAlloc => 0 | .walSetLen => 1 | .walWrite => 2 | .walFsync => 3
  | .lnGrow | .bbnGrow | .lnWrite | .bbnWrite => 0
  | .bbnFsync | .lnFsync => 1
  | .metaWrite => 0 | .metaFsync => 1
  | .segPruneOldest | .segRemoveAll => 0
  | .segPruneRecent => 1 | .segPruneDirsync => 2 | .segTruncHead => 3 | .segTruncHeadFsync => 4
  | .htWrite => 0 | .htFsync => 1 | .walTruncate => 2

def nondecreasing : List Nat → Bool
  | a :: b :: r => decide (a ≤ b) && nondecreasing (b :: r)
  | _ => true

/-- can the pipeline issue this label sequence? -/
def conforms (ls : List Io) : Bool :=
  nondecreasing (ls.map (fun l => l.pos.rank)) &&
  [TaskId.tSeg, TaskId.tWal, TaskId.tTree, TaskId.tMeta, TaskId.tPrune, TaskId.tHt].all (fun t =>
    nondecreasing ((ls.filter (fun l => l.task == t)).map Io.stage)) &&
  decide ((ls.filter (· == .metaWrite)).length ≤ 1) && decide ((ls.filter (· == .metaFsync)).length ≤ 1)

/-- the work of a commit, read off the labels of its fault-free run -/
def workOf (ls : List Io) : IoWork :=
  { seg := ls.filter (fun l => l.task == TaskId.tSeg),
    wal := ls.filter (fun l => l == .walSetLen || l == .walWrite || l == .walFsync),
    tree := ls.filter (fun l => l == .lnGrow || l == .bbnGrow || l == .lnWrite || l == .bbnWrite),
    prune := ls.filter (fun l => l.task == TaskId.tPrune),
    ht := ls.filter (· == .htWrite) }

/-- the I/O labels of a trace, in order -/
def ioLabels : List Step → List Io
  | [] => []
  | .io _ l _ :: r => l :: ioLabels r
  | _ :: r => ioLabels r

/-- every I/O step of the trace sits at the position `Io.pos` names for its label -/
def positionsOk : List Step → Bool
  | [] => true
  | .io p l _ :: r => (p == l.pos) && positionsOk r
  | _ :: r => positionsOk r

/-- the failing labels of a fault injected at `l`: once, or persistently (that operation and every later one) -/
def faultSet (l : Io) (persistent : Bool) : Io → Bool :=
  fun a => if persistent then decide (l.rank ≤ a.rank) else a == l

end Nomt.Api.Pipe
