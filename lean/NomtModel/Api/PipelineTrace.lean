import NomtModel.Api.PipelineCalls
/-!
The pipeline against a REAL I/O trace (hook H1): the label of an event (file · kind · site) ↦ `Io`, the position at which
the pipeline issues each label (`Io.pos`), the work of a commit read off the label sequence of its fault-free run
(`workOf`), and `conforms`: is a label sequence one the pipeline can issue — positions in the order append → pre-meta tasks →
meta write → meta fsync → post-meta, every task's own order kept (segment append: create, header, payload, pad, fsync,
directory fsync; WAL: resize, write, fsync; both beatree fsyncs after the last page write / growth; table fsync after the last
table write, WAL truncation after it).
-/
namespace Nomt.Api.Pipe
open Nomt Nomt.Api

/-- `<file>:<Kind>:<site>` as the harness prints it (file: `meta ln bbn ht wal rollback dir`) -/
def ioOfLabel : String → Option Io
  | "rollback:Create:seglog.create_segment" => some .segCreate
  | "rollback:Append:seglog.write_header" => some .segHeader
  | "rollback:Append:seglog.write_payload" => some .segPayload
  | "rollback:SetLen:seglog.pad" => some .segPad
  | "rollback:Fsync:seglog.fsync" => some .segFsync
  | "dir:DirSync:seglog.append.dirsync" => some .segDirsync
  | "bitbox:Alloc:bucket_exhaustion" => some .bucketAlloc
  | "wal:SetLen:wal.write.set_len" => some .walSetLen
  | "wal:Append:wal.write" => some .walWrite
  | "wal:Fsync:wal.write.fsync" => some .walFsync
  | "ln:SetLen:allocator.grow" => some .lnGrow
  | "bbn:SetLen:allocator.grow" => some .bbnGrow
  | "ln:Write:io.send" => some .lnWrite
  | "bbn:Write:io.send" => some .bbnWrite
  | "bbn:Fsync:fsyncer" => some .bbnFsync
  | "ln:Fsync:fsyncer" => some .lnFsync
  | "meta:Write:meta.write" => some .metaWrite
  | "meta:Fsync:meta.fsync" => some .metaFsync
  | "rollback:Unlink:seglog.prune_oldest" => some .segPruneOldest
  | "rollback:Unlink:seglog.remove_all" => some .segRemoveAll
  | "rollback:Unlink:seglog.prune_recent" => some .segPruneRecent
  | "dir:DirSync:seglog.prune_recent.dirsync" => some .segPruneDirsync
  | "rollback:SetLen:seglog.truncate_head" => some .segTruncHead
  | "rollback:Fsync:seglog.truncate_head.fsync" => some .segTruncHeadFsync
  | "ht:Write:io.send" => some .htWrite
  | "ht:Fsync:ht.fsync" => some .htFsync
  | "wal:SetLen:wal.truncate" => some .walTruncate
  | _ => none

/-- where the pipeline issues a label -/
def Io.pos : Io → Pos
  | .segCreate | .segHeader | .segPayload | .segPad | .segFsync | .segDirsync => .rbAppend
  | .bucketAlloc | .walSetLen | .walWrite | .walFsync | .lnGrow | .bbnGrow | .lnWrite | .bbnWrite | .bbnFsync | .lnFsync => .preMeta
  | .metaWrite => .metaWrite
  | .metaFsync => .metaFsync
  | .segPruneOldest | .segRemoveAll | .segPruneRecent | .segPruneDirsync | .segTruncHead | .segTruncHeadFsync
  | .htWrite | .htFsync | .walTruncate => .postMeta

def Pos.rank : Pos → Nat
  | .rbAppend => 0 | .preMeta => 1 | .metaWrite => 2 | .metaFsync => 3 | .postMeta => 4

/-- issue order of the labels (the order of the declaration): a persistent fault from `l` on fails every label of rank ≥ -/
def Io.rank : Io → Nat
  | .segCreate => 0 | .segHeader => 1 | .segPayload => 2 | .segPad => 3 | .segFsync => 4 | .segDirsync => 5
  | .bucketAlloc => 6 | .walSetLen => 7 | .walWrite => 8 | .walFsync => 9
  | .lnGrow => 10 | .bbnGrow => 11 | .lnWrite => 12 | .bbnWrite => 13 | .bbnFsync => 14 | .lnFsync => 15
  | .metaWrite => 16 | .metaFsync => 17
  | .segPruneOldest => 18 | .segRemoveAll => 19 | .segPruneRecent => 20 | .segPruneDirsync => 21 | .segTruncHead => 22
  | .segTruncHeadFsync => 23 | .htWrite => 24 | .htFsync => 25 | .walTruncate => 26

/-- the concurrent tasks of a commit -/
inductive TaskId where | tSeg | tWal | tTree | tMeta | tPrune | tHt
deriving DecidableEq, Repr

def Io.task : Io → TaskId
  | .segCreate | .segHeader | .segPayload | .segPad | .segFsync | .segDirsync => .tSeg
  | .bucketAlloc | .walSetLen | .walWrite | .walFsync => .tWal
  | .lnGrow | .bbnGrow | .lnWrite | .bbnWrite | .bbnFsync | .lnFsync => .tTree
  | .metaWrite | .metaFsync => .tMeta
  | .segPruneOldest | .segRemoveAll | .segPruneRecent | .segPruneDirsync | .segTruncHead | .segTruncHeadFsync => .tPrune
  | .htWrite | .htFsync | .walTruncate => .tHt

/-- the stage of a label inside its task: within one task the stages never decrease (page writes and growth of the two
beatree files are one stage: they interleave; several appends / unlinks of one kind likewise) -/
def Io.stage : Io → Nat
  | .segCreate => 0 | .segHeader => 1 | .segPayload => 2 | .segPad => 3 | .segFsync => 4 | .segDirsync => 5
  | .bucketAlloc => 0 | .walSetLen => 1 | .walWrite => 2 | .walFsync => 3
  | .lnGrow | .bbnGrow | .lnWrite | .bbnWrite => 0
  | .bbnFsync | .lnFsync => 1
  | .metaWrite => 0 | .metaFsync => 1
  | .segPruneOldest | .segRemoveAll => 0
  | .segPruneRecent => 1 | .segPruneDirsync => 2 | .segTruncHead => 3 | .segTruncHeadFsync => 4
  | .htWrite => 0 | .htFsync => 1 | .walTruncate => 2

def nondecreasing : List Nat → Bool
  | a :: b :: r => decide (a ≤ b) && nondecreasing (b :: r)
  | _ => true

/-- can the pipeline issue this label sequence? -/
def conforms (ls : List Io) : Bool :=
  nondecreasing (ls.map (fun l => l.pos.rank)) &&
  [TaskId.tSeg, TaskId.tWal, TaskId.tTree, TaskId.tMeta, TaskId.tPrune, TaskId.tHt].all (fun t =>
    nondecreasing ((ls.filter (fun l => l.task == t)).map Io.stage)) &&
  decide ((ls.filter (· == .metaWrite)).length ≤ 1) && decide ((ls.filter (· == .metaFsync)).length ≤ 1)

/-- the work of a commit, read off the labels of its fault-free run -/
def workOf (ls : List Io) : IoWork :=
  { seg := ls.filter (fun l => l.task == TaskId.tSeg),
    wal := ls.filter (fun l => l == .walSetLen || l == .walWrite || l == .walFsync),
    tree := ls.filter (fun l => l == .lnGrow || l == .bbnGrow || l == .lnWrite || l == .bbnWrite),
    prune := ls.filter (fun l => l.task == TaskId.tPrune),
    ht := ls.filter (· == .htWrite) }

/-- the I/O labels of a trace, in order -/
def ioLabels : List Step → List Io
  | [] => []
  | .io _ l _ :: r => l :: ioLabels r
  | _ :: r => ioLabels r

/-- every I/O step of the trace sits at the position `Io.pos` names for its label -/
def positionsOk : List Step → Bool
  | [] => true
  | .io p l _ :: r => (p == l.pos) && positionsOk r
  | _ :: r => positionsOk r

/-- the failing labels of a fault injected at `l`: once, or persistently (that operation and every later one) -/
def faultSet (l : Io) (persistent : Bool) : Io → Bool :=
  fun a => if persistent then decide (l.rank ≤ a.rank) else a == l

end Nomt.Api.Pipe

namespace Nomt.Api.Pipe
open Nomt Nomt.Api
variable {Node VH : Type} [DecidableEq Node] [DecidableEq VH]

/-! ### every I/O step of a pipeline trace sits at the position `Io.pos` names for its label -/

/-- the work lists hold labels of their own task only -/
structure WorkWf (W : IoWork) : Prop where
  seg : ∀ l ∈ W.seg, l.pos = .rbAppend
  wal : ∀ l ∈ W.wal, l.pos = .preMeta
  tree : ∀ l ∈ W.tree, l.pos = .preMeta
  prune : ∀ l ∈ W.prune, l.pos = .postMeta
  ht : ∀ l ∈ W.ht, l.pos = .postMeta

/-- the work read off ANY label sequence is well formed -/
theorem workOf_wf (ls : List Io) : WorkWf (workOf ls) := by
  constructor <;> intro l hl <;> simp only [workOf, List.mem_filter] at hl <;> obtain ⟨_, h⟩ := hl <;>
    cases l <;> simp_all [Io.pos, Io.task]

theorem default_work_wf : WorkWf {} := by
  constructor <;> intro l hl <;> simp at hl <;> rcases hl with rfl | rfl | rfl <;> rfl

@[simp] theorem positionsOk_nil : positionsOk [] = true := rfl

theorem positionsOk_append (a b : List Step) : positionsOk (a ++ b) = (positionsOk a && positionsOk b) := by
  induction a with
  | nil => simp
  | cons s a ih =>
    cases s <;> simp [positionsOk, ih, Bool.and_assoc]

theorem runSeq_positionsOk (F : Io → Bool) (pos : Pos) (l : List Io) (h : ∀ a ∈ l, a.pos = pos) :
    positionsOk (runSeq F pos l).tr = true := by
  induction l with
  | nil => rfl
  | cons a r ih =>
    have ha : a.pos = pos := h a (by simp)
    have hr := ih (fun x hx => h x (by simp [hx]))
    unfold runSeq
    by_cases hf : F a = true
    · simp [hf, positionsOk, ha]
    · simp [hf, positionsOk, ha, hr]

theorem runAll_positionsOk (F : Io → Bool) (pos : Pos) (l : List Io) (h : ∀ a ∈ l, a.pos = pos) :
    positionsOk (runAll F pos l).tr = true := by
  induction l with
  | nil => rfl
  | cons a r ih =>
    have ha : a.pos = pos := h a (by simp)
    have hr := ih (fun x hx => h x (by simp [hx]))
    simp only [runAll, List.map_cons, positionsOk] at hr ⊢
    simp [ha, hr]

end Nomt.Api.Pipe

namespace Nomt.Api.Pipe
open Nomt Nomt.Api
variable {Node VH : Type} [DecidableEq Node] [DecidableEq VH]

@[simp] theorem positionsOk_ite_rbTrim (c : Prop) [Decidable c] :
    positionsOk (if c then [Step.rbTrim] else []) = true := by split <;> rfl

theorem bitboxPostMeta_positionsOk (E : Env) (hW : WorkWf E.W) (p : PSt Node VH) :
    positionsOk (bitboxPostMeta E p).2.2 = true := by
  have h := runAll_positionsOk E.F .postMeta E.W.ht hW.ht
  simp only [bitboxPostMeta]
  generalize runAll E.F .postMeta E.W.ht = hw at h ⊢
  cases E.Q.htResultIgnored <;> cases hw.ok <;> cases E.F .htFsync <;> cases E.F .walTruncate <;>
    simp [positionsOk_append, h, positionsOk, Io.pos]

theorem sync_positionsOk (E : Env) (hW : WorkWf E.W) (trim : Bool) (ws : Writes VH) (p : PSt Node VH) :
    positionsOk (sync E trim ws p).2.2 = true := by
  have hbb := runSeq_positionsOk E.F .preMeta (.bucketAlloc :: E.W.wal)
    (by intro a ha; rcases List.mem_cons.mp ha with rfl | ha
        · rfl
        · exact hW.wal a ha)
  have hup := runSeq_positionsOk E.F .preMeta E.W.tree hW.tree
  have hpr := runSeq_positionsOk E.F .postMeta E.W.prune hW.prune
  have htrim : positionsOk (if (p.mem.rollbackOn && trim) = true then [Step.rbTrim] else []) = true := by
    split <;> rfl
  unfold sync
  simp only []
  generalize hbm : bitboxPostMeta E _ = bm
  have hb : positionsOk bm.2.2 = true := by rw [← hbm]; exact bitboxPostMeta_positionsOk E hW _
  generalize runSeq E.F .preMeta (.bucketAlloc :: E.W.wal) = bb at hbb ⊢
  generalize runSeq E.F .preMeta E.W.tree = up at hup ⊢
  generalize runSeq E.F .postMeta E.W.prune = pr at hpr ⊢
  obtain ⟨bbok, bbtr⟩ := bb
  obtain ⟨upok, uptr⟩ := up
  obtain ⟨prok, prtr⟩ := pr
  obtain ⟨bOk, pB, tB⟩ := bm
  simp only at hbb hup hpr hb
  by_cases h1 : E.F .bbnFsync = true <;> by_cases h2 : E.F .lnFsync = true <;>
  by_cases h3 : E.F .metaWrite = true <;> by_cases h4 : E.F .metaFsync = true <;>
  cases bbok <;> cases upok <;>
    simp [positionsOk_append, hbb, hup, h1, h2, h3, h4, runSeq, positionsOk, Io.pos] <;>
    (cases E.Q.fsyncResultsOr <;> (try simp [positionsOk_append, hbb, hup, h1, h2, h3, h4, positionsOk, Io.pos])) <;>
    (cases p.mem.rollbackOn <;> cases E.Q.postMetaOverwritten <;> cases bOk <;> cases prok <;>
      (try simp [positionsOk_append, hbb, hup, hpr, hb, positionsOk, Io.pos]))

end Nomt.Api.Pipe

namespace Nomt.Api.Pipe
open Nomt Nomt.Api
variable {Node VH : Type} [DecidableEq Node] [DecidableEq VH]

theorem storeCommit_positionsOk (E : Env) (hW : WorkWf E.W) (trim : Bool) (ws : Writes VH) (p : PSt Node VH) :
    positionsOk (storeCommit E trim ws p).2.2 = true := by
  have h := sync_positionsOk E hW trim ws p
  unfold storeCommit
  cases p.poisoned
  · simp only [Bool.false_eq_true, if_false]
    rcases hs : sync E trim ws p with ⟨ok, q, t⟩
    rw [hs] at h
    cases ok <;> simp_all [positionsOk, positionsOk_append]
  · simp [positionsOk]

theorem rbCommit_positionsOk (E : Env) (hW : WorkWf E.W) (d : Writes VH) (p : PSt Node VH) :
    positionsOk (rbCommit E d p).2.2 = true := by
  have h := runSeq_positionsOk E.F .rbAppend E.W.seg hW.seg
  unfold rbCommit
  simp only []
  cases (runSeq E.F .rbAppend E.W.seg).ok <;> simp [positionsOk_append, h, positionsOk]

theorem appendAndStore_positionsOk (E : Env) (hW : WorkWf E.W) (ws delta : Writes VH) (p : PSt Node VH) (t : List Step)
    (ht : positionsOk t = true) : positionsOk (appendAndStore E ws delta p t).trace = true := by
  unfold appendAndStore
  cases p.mem.rollbackOn
  · simp only [Bool.false_eq_true, if_false]
    have := storeCommit_positionsOk E hW true ws p
    simp [positionsOk_append, ht, this]
  · simp only [if_true]
    have h1 := rbCommit_positionsOk E hW delta p
    rcases hr : rbCommit E delta p with ⟨ok, q, ta⟩
    rw [hr] at h1
    simp only at h1
    cases ok
    · cases E.Q.rbErrNoPoison <;> simp [positionsOk_append, ht, h1, positionsOk]
    · have := storeCommit_positionsOk E hW true ws q
      simp [positionsOk_append, ht, h1, this]

theorem tryTail_positionsOk (E : Env) (hW : WorkWf E.W) (ws delta : Writes VH) (root : Node) (p : PSt Node VH)
    (t : List Step) (ht : positionsOk t = true) : positionsOk (tryTail E ws delta root p t).trace = true := by
  unfold tryTail rbCommitOpt
  cases p.mem.rollbackOn
  · simp only [Bool.false_eq_true, if_false]
    have := storeCommit_positionsOk E hW true ws { p with mem := { p.mem with root := root, lastMarker := none } }
    simp [positionsOk_append, ht, this, positionsOk]
  · simp only [if_true]
    have h1 := rbCommit_positionsOk E hW delta p
    rcases hr : rbCommit E delta p with ⟨ok, q, ta⟩
    rw [hr] at h1
    simp only at h1
    cases ok
    · cases E.Q.rbErrNoPoison <;> simp [positionsOk_append, ht, h1, positionsOk]
    · have := storeCommit_positionsOk E hW true ws { q with mem := { q.mem with root := root, lastMarker := none } }
      simp [positionsOk_append, ht, h1, this, positionsOk]

end Nomt.Api.Pipe

namespace Nomt.Api.Pipe
open Nomt Nomt.Api
variable {Node VH : Type} [DecidableEq Node] [DecidableEq VH]

theorem commitOvBody_positionsOk (E : Env) (hW : WorkWf E.W) (p : PSt Node VH) (oid : Nat) (o : Ov Node VH)
    (t : List Step) (ht : positionsOk t = true) : positionsOk (commitOvBody E p oid o t).trace = true := by
  unfold commitOvBody
  simp only []
  cases p.poisoned
  · simp only [Bool.false_eq_true, if_false]
    cases E.Q.markBeforeRootCheck
    · simp only [Bool.false_eq_true, if_false]
      split
      · simp [positionsOk_append, ht, positionsOk]
      · exact appendAndStore_positionsOk E hW _ _ _ _ (by simp [positionsOk_append, ht, positionsOk])
    · simp only [if_true]
      split
      · simp [positionsOk_append, ht, positionsOk]
      · exact appendAndStore_positionsOk E hW _ _ _ _ (by simp [positionsOk_append, ht, positionsOk])
  · simp [positionsOk_append, ht, positionsOk]

/-- **every I/O step of every pipeline trace sits where `Io.pos` says** (any fault set, any quirk, any state), provided the
work lists hold labels of their own task — which `workOf` guarantees for any observed label sequence -/
theorem runCall_positionsOk (H : Hasher Node VH) (E : Env) (hW : WorkWf E.W) (p : PSt Node VH) (c : Call) :
    positionsOk (runCall H E p c).trace = true := by
  cases c with
  | commit fid =>
    simp only [runCall, commitFinP]
    cases takeFin p.mem fid with
    | none => rfl
    | some fm =>
      obtain ⟨f, m1⟩ := fm
      simp only []
      cases p.poisoned
      · simp only [Bool.false_eq_true, if_false]
        split
        · rfl
        · exact appendAndStore_positionsOk E hW _ _ _ _ rfl
      · rfl
  | tryCommit fid =>
    simp only [runCall, tryCommitFinP]
    split
    · rfl
    · cases takeFin p.mem fid with
      | none => rfl
      | some fm =>
        obtain ⟨f, m1⟩ := fm
        simp only []
        cases p.poisoned
        · simp only [Bool.false_eq_true, if_false]
          cases E.Q.rbBeforeRootCheck
          · simp only [Bool.false_eq_true, if_false]
            split
            · rfl
            · split
              · rfl
              · exact tryTail_positionsOk E hW _ _ _ _ _ rfl
          · simp only [if_true]
            split
            · rfl
            · unfold rbCommitOpt
              cases m1.rollbackOn
              · simp only [Bool.false_eq_true, if_false]
                split
                · rfl
                · simp [positionsOk_append, storeCommit_positionsOk E hW, positionsOk]
              · simp only [if_true]
                generalize hr : rbCommit E f.delta _ = r
                have h1 : positionsOk r.2.2 = true := by rw [← hr]; exact rbCommit_positionsOk E hW f.delta _
                obtain ⟨ok, q, ta⟩ := r
                simp only at h1
                cases ok
                · cases E.Q.rbErrNoPoison <;> simp [positionsOk_append, h1, positionsOk]
                · simp only []
                  split
                  · simp [positionsOk_append, h1, positionsOk]
                  · simp [positionsOk_append, h1, storeCommit_positionsOk E hW, positionsOk]
        · rfl
  | ocommit oid =>
    simp only [runCall, commitOvP]
    cases p.mem.ov? oid with
    | none => rfl
    | some o =>
      simp only []
      split
      · rfl
      · split
        · rfl
        · exact commitOvBody_positionsOk E hW p oid o _ rfl
  | otryCommit oid =>
    simp only [runCall, tryCommitOvP]
    cases p.mem.ov? oid with
    | none => rfl
    | some o =>
      simp only []
      split
      · rfl
      · split
        · rfl
        · split
          · rfl
          · exact commitOvBody_positionsOk E hW p oid o _ rfl
  | rollback n =>
    have ht0 : positionsOk (if E.Q.rollbackPoisonLate = true then [Step.guardWrite] else [Step.guardWrite, Step.poisonCheck true]) = true := by
      split <;> rfl
    simp only [runCall, rollbackP]
    split
    · rfl
    · split
      · rfl
      · split
        · exact ht0
        · split
          · exact ht0
          · split
            · simp [positionsOk_append, ht0, positionsOk]
            · split
              · simp [positionsOk_append, ht0, positionsOk]
              · simp [positionsOk_append, ht0, storeCommit_positionsOk E hW, positionsOk]

end Nomt.Api.Pipe

namespace Nomt.Api.Pipe
open Nomt Nomt.Api

/-! ### the order of ALL steps of a call against the step markers of hook H15 merged with the I/O events -/

def Pos.name : Pos → String
  | .rbAppend => "io@rbAppend" | .preMeta => "io@preMeta" | .metaWrite => "io@metaWrite" | .metaFsync => "io@metaFsync"
  | .postMeta => "io@postMeta"

/-- the steps the hook reports by name (`none`: a step inside another module / a task, not reported) -/
def Step.name : Step → Option String
  | .guardWrite => some "guard_write"
  | .guardTry _ => some "guard_try"
  | .poisonCheck _ => some "poison_check"
  | .markerCheck _ => some "marker_check"
  | .rootCheck _ => some "root_check"
  | .rootSet => some "root_set"
  | .markCommitted => some "mark_committed"
  | .rbTruncate => some "rb_truncate"
  | .sessionFinish _ => some "session_finish"
  | .seqnIncr => some "seqn_incr"
  | .poison => some "poison"
  | .io pos _ _ => some pos.name
  | .rbLockTry _ | .rbPush | .kvStage | .rbTrim | .indexSwap => none

/-- consecutive I/O operations of one position are one item -/
def compressIo : List String → List String
  | a :: b :: r => if a == b && a.startsWith "io@" then compressIo (b :: r) else a :: compressIo (b :: r)
  | l => l

/-- the skeleton of a model trace; `withIo = false`: the steps of the calling thread only -/
def skeleton (withIo : Bool) (t : List Step) : List String :=
  compressIo ((t.filterMap Step.name).filter (fun s => withIo || !s.startsWith "io@"))

/-- the skeleton of a real sequence `s:<name>` / `io:<file>:<Kind>:<site>`; `none`: an unknown label -/
def skeletonOfReal (withIo : Bool) (items : List String) : Option (List String) :=
  (items.mapM (fun (it : String) =>
    if it.startsWith "s:" then some (it.drop 2).toString
    else if it.startsWith "io:" then (ioOfLabel (it.drop 3).toString).map (fun l => l.pos.name)
    else none)).map (fun l => compressIo (l.filter (fun s => withIo || !s.startsWith "io@")))

end Nomt.Api.Pipe
