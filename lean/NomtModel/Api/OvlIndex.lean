import NomtModel.Api.OvlModel
/-!
`overlay::Index`: the mirrored `prune_below` loop is the filter "keep `seqn ≥ min`" on both halves of a
well-formed index; `insert_values` laws.  (Helper lemmas for `Props/C11_Index.lean`.)
-/
namespace Nomt.Ovl
open Nomt

/-! ### sorted association lists: membership, filter -/

theorem kvGet_of_mem {A : Type} {m : KVL A} (hs : KSorted m) {k : Key} {v : A} (h : (k, v) ∈ m) : kvGet m k = some v := by
  induction m with
  | nil => cases h
  | cons x xs ih =>
    obtain ⟨hx, hxs⟩ := ksorted_cons.1 hs
    rcases List.mem_cons.1 h with h | h
    · subst h; simp [kvGet]
    · have := hx _ h
      simp only [kvGet, bitsLt_beq_false this]
      exact ih hxs h

theorem mem_of_kvGet {A : Type} {m : KVL A} {k : Key} {v : A} (h : kvGet m k = some v) : (k, v) ∈ m := by
  induction m with
  | nil => cases h
  | cons x xs ih =>
    obtain ⟨k', v'⟩ := x
    simp only [kvGet] at h
    split at h
    · next hk =>
      have : k' = k := by simpa using hk
      cases h; subst this; exact List.mem_cons_self ..
    · exact List.mem_cons_of_mem _ (ih h)

theorem kvGet_none_of_not_mem {A : Type} {m : KVL A} {k : Key} (h : ∀ e ∈ m, e.1 ≠ k) : kvGet m k = none := by
  induction m with
  | nil => rfl
  | cons x xs ih =>
    have hx : (x.1 == k) = false := by simpa using h x (List.mem_cons_self ..)
    simp only [kvGet, hx]
    exact ih (fun e he => h e (List.mem_cons_of_mem _ he))

theorem ksorted_filter {A : Type} {m : KVL A} (hs : KSorted m) (p : Key × A → Bool) : KSorted (m.filter p) :=
  List.Pairwise.filter p hs

theorem kvGet_filter {A : Type} {m : KVL A} (hs : KSorted m) (p : Key × A → Bool) (k : Key) :
    kvGet (m.filter p) k = (kvGet m k).filter (fun v => p (k, v)) := by
  induction m with
  | nil => rfl
  | cons x xs ih =>
    obtain ⟨k', v'⟩ := x
    obtain ⟨hx, hxs⟩ := ksorted_cons.1 hs
    by_cases hk : k' = k
    · subst hk
      have hnone : kvGet (xs.filter p) k' = none := by
        apply kvGet_none_of_lt
        intro y hy
        exact hx y (List.mem_filter.1 hy).1
      by_cases hp : p (k', v') = true
      · simp [List.filter, hp, kvGet, Option.filter]
      · have hp' : p (k', v') = false := by simpa using hp
        simp [List.filter, hp', kvGet, hnone, Option.filter]
    · have hb : (k' == k) = false := by simpa using hk
      by_cases hp : p (k', v') = true
      · simp only [List.filter, hp, kvGet, hb]
        exact ih hxs
      · have hp' : p (k', v') = false := by simpa using hp
        simp only [List.filter, hp', kvGet, hb]
        exact ih hxs

/-! ### `values_by_seqn`: an ascending log -/

/-- ascending by sequence number -/
def Asc (l : List (Nat × Key)) : Prop := l.Pairwise (fun a b => a.1 ≤ b.1)

theorem pruneLoop_fst (min : Nat) (bs : List (Nat × Key)) (vals : KVL Nat) :
    (pruneLoop min bs vals).1 = bs.dropWhile (fun e => decide (e.1 < min)) := by
  induction bs generalizing vals with
  | nil => rfl
  | cons x xs ih =>
    obtain ⟨s, k⟩ := x
    unfold pruneLoop
    by_cases h : s ≥ min
    · have : ¬ s < min := by omega
      simp [h, List.dropWhile, this]
    · have h' : s < min := by omega
      simp only [h, if_false, List.dropWhile, h', decide_true]
      exact ih _

theorem dropWhile_eq_filter_of_asc {bs : List (Nat × Key)} (ha : Asc bs) (min : Nat) :
    bs.dropWhile (fun e => decide (e.1 < min)) = bs.filter (fun e => decide (min ≤ e.1)) := by
  induction bs with
  | nil => rfl
  | cons x xs ih =>
    obtain ⟨hx, hxs⟩ := List.pairwise_cons.1 ha
    by_cases h : x.1 < min
    · have h2 : ¬ min ≤ x.1 := by omega
      simp only [List.dropWhile, h, decide_true, List.filter, h2, decide_false]
      exact ih hxs
    · have h2 : min ≤ x.1 := by omega
      simp only [List.dropWhile, h, decide_false, List.filter, h2, decide_true]
      congr 1
      symm
      apply List.filter_eq_self.2
      intro e he
      have := hx e he
      simp only [decide_eq_true_eq]
      omega

theorem mem_takeWhile_of_asc {bs : List (Nat × Key)} (ha : Asc bs) {min : Nat} {e : Nat × Key} (he : e ∈ bs)
    (hlt : e.1 < min) : e ∈ bs.takeWhile (fun e => decide (e.1 < min)) := by
  induction bs with
  | nil => cases he
  | cons x xs ih =>
    obtain ⟨hx, hxs⟩ := List.pairwise_cons.1 ha
    have hxlt : x.1 < min := by
      rcases List.mem_cons.1 he with h | h
      · subst h; exact hlt
      · have := hx e h; omega
    simp only [List.takeWhile, hxlt, decide_true]
    rcases List.mem_cons.1 he with h | h
    · subst h; exact List.mem_cons_self ..
    · exact List.mem_cons_of_mem _ (ih hxs h)

/-! ### the `values` half of the loop -/

/-- the keys popped by the loop (`seqn < min`) -/
def visited (min : Nat) (bs : List (Nat × Key)) (k : Key) : Bool :=
  (bs.takeWhile (fun e => decide (e.1 < min))).any (fun e => e.2 == k)

/-- the map after one iteration of the loop that pops `(s, k)` -/
def stepVals (min s : Nat) (k : Key) (vals : KVL Nat) : KVL Nat :=
  match kvGet vals k with
  | some g => if g ≠ s ∧ g ≥ min then kvInsert (kvErase vals k) k g else kvErase vals k
  | none => kvErase vals k

theorem pruneLoop_cons_lt {min s : Nat} (h : s < min) (k : Key) (rest : List (Nat × Key)) (vals : KVL Nat) :
    pruneLoop min ((s, k) :: rest) vals = pruneLoop min rest (stepVals min s k vals) := by
  have h' : ¬ s ≥ min := by omega
  rw [pruneLoop]
  simp only [h', if_false]
  rfl

theorem pruneLoop_cons_ge {min s : Nat} (h : s ≥ min) (k : Key) (rest : List (Nat × Key)) (vals : KVL Nat) :
    pruneLoop min ((s, k) :: rest) vals = ((s, k) :: rest, vals) := by
  rw [pruneLoop]
  simp only [h, if_true]

theorem stepVals_spec {min s : Nat} (h : s < min) (k0 : Key) {vals : KVL Nat} (hs : KSorted vals) :
    KSorted (stepVals min s k0 vals) ∧ ∀ k, kvGet (stepVals min s k0 vals) k =
      if k = k0 then (kvGet vals k0).filter (fun g => decide (min ≤ g)) else kvGet vals k := by
  have hs1 : KSorted (kvErase vals k0) := kvErase_sorted hs k0
  unfold stepVals
  cases hg : kvGet vals k0 with
  | none =>
    refine ⟨hs1, fun k => ?_⟩
    by_cases hk : k = k0
    · subst hk; simp [kvGet_kvErase_self hs, Option.filter]
    · simp [hk, kvGet_kvErase_other vals k0 k hk]
  | some g =>
    simp only
    by_cases hc : g ≠ s ∧ g ≥ min
    · rw [if_pos hc]
      refine ⟨kvInsert_sorted hs1 k0 g, fun k => ?_⟩
      by_cases hk : k = k0
      · subst hk
        have : min ≤ g := hc.2
        simp [kvGet_kvInsert_self, this, Option.filter]
      · simp [hk, kvGet_kvInsert_other _ k0 k g hk, kvGet_kvErase_other vals k0 k hk]
    · rw [if_neg hc]
      refine ⟨hs1, fun k => ?_⟩
      by_cases hk : k = k0
      · subst hk
        have : ¬ min ≤ g := by
          intro hm
          apply hc
          refine ⟨?_, hm⟩
          intro e; subst e; omega
        simp [kvGet_kvErase_self hs, this, Option.filter]
      · simp [hk, kvGet_kvErase_other vals k0 k hk]

theorem pruneLoop_snd_sorted (min : Nat) (bs : List (Nat × Key)) (vals : KVL Nat) (hs : KSorted vals) :
    KSorted (pruneLoop min bs vals).2 := by
  induction bs generalizing vals with
  | nil => exact hs
  | cons x xs ih =>
    obtain ⟨s, k⟩ := x
    by_cases h : s ≥ min
    · rw [pruneLoop_cons_ge h]; exact hs
    · have h' : s < min := by omega
      rw [pruneLoop_cons_lt h']
      exact ih _ (stepVals_spec h' k hs).1

theorem pruneLoop_snd_get (min : Nat) (bs : List (Nat × Key)) (vals : KVL Nat) (hs : KSorted vals) (k : Key) :
    kvGet (pruneLoop min bs vals).2 k =
      if visited min bs k then (kvGet vals k).filter (fun g => decide (min ≤ g)) else kvGet vals k := by
  induction bs generalizing vals with
  | nil => simp [pruneLoop, visited]
  | cons x xs ih =>
    obtain ⟨s, k0⟩ := x
    by_cases h : s ≥ min
    · have : ¬ s < min := by omega
      rw [pruneLoop_cons_ge h]
      simp [visited, List.takeWhile, this]
    · have h' : s < min := by omega
      rw [pruneLoop_cons_lt h']
      obtain ⟨hs2, hget2⟩ := stepVals_spec h' k0 hs
      rw [ih _ hs2, hget2]
      have hvis : visited min ((s, k0) :: xs) k = ((k0 == k) || visited min xs k) := by
        simp [visited, List.takeWhile, h']
      rw [hvis]
      by_cases hk : k = k0
      · subst hk
        simp only [beq_self_eq_true, Bool.true_or, if_true]
        cases hv : visited min xs k
        · simp
        · simp only [if_true]
          cases kvGet vals k with
          | none => rfl
          | some g =>
            by_cases hm : min ≤ g <;> simp [Option.filter, hm]
      · have hb : (k0 == k) = false := by simpa using fun e => hk e.symm
        simp only [hb, Bool.false_or, hk, if_false]

/-! ### well-formed index -/

structure Index.WF (idx : Index) : Prop where
  sorted : KSorted idx.values
  asc : Asc idx.bySeqn
  /-- every entry of the map has its record in the log (`prune_below` finds it there) -/
  backed : ∀ k s, kvGet idx.values k = some s → (s, k) ∈ idx.bySeqn

theorem Index.WF.empty : ({} : Index).WF := ⟨KSorted.nil, List.Pairwise.nil, fun _ _ h => by cases h⟩

/-- **`prune_below` is the filter**: on a well-formed index the loop removes exactly the entries with a
sequence number below `min`, from the map and from the log -/
theorem pruneBelow_eq_spec {idx : Index} (wf : idx.WF) (min : Nat) : idx.pruneBelow min = idx.pruneSpec min := by
  unfold Index.pruneBelow Index.pruneSpec
  simp only
  congr 1
  · apply kv_ext (pruneLoop_snd_sorted min _ _ wf.sorted) (ksorted_filter wf.sorted _)
    intro k
    rw [pruneLoop_snd_get min _ _ wf.sorted, kvGet_filter wf.sorted]
    cases hv : visited min idx.bySeqn k
    · simp only [Bool.false_eq_true, if_false]
      cases hg : kvGet idx.values k with
      | none => rfl
      | some g =>
        by_cases hm : min ≤ g
        · simp [Option.filter, hm]
        · exfalso
          have hmem := wf.backed k g hg
          have := mem_takeWhile_of_asc wf.asc hmem (by show g < min; omega)
          have hv' : visited min idx.bySeqn k = true := by
            unfold visited
            rw [List.any_eq_true]
            exact ⟨_, this, by simp⟩
          rw [hv] at hv'; cases hv'
    · simp
  · rw [pruneLoop_fst, dropWhile_eq_filter_of_asc wf.asc]

theorem pruneSpec_wf {idx : Index} (wf : idx.WF) (min : Nat) : (idx.pruneSpec min).WF := by
  refine ⟨ksorted_filter wf.sorted _, List.Pairwise.filter _ wf.asc, ?_⟩
  intro k s h
  simp only [Index.pruneSpec] at h ⊢
  rw [kvGet_filter wf.sorted] at h
  cases hg : kvGet idx.values k with
  | none => rw [hg] at h; cases h
  | some g =>
    rw [hg] at h
    simp only [Option.filter] at h
    split at h
    · next hm =>
      have e : g = s := Option.some.inj h
      rw [← e, List.mem_filter]
      exact ⟨wf.backed k g hg, hm⟩
    · cases h

theorem pruneSpec_get {idx : Index} (wf : idx.WF) (min : Nat) (k : Key) :
    kvGet (idx.pruneSpec min).values k = (kvGet idx.values k).filter (fun g => decide (min ≤ g)) := by
  simp only [Index.pruneSpec]
  rw [kvGet_filter wf.sorted]

/-! ### `insert_values` -/

theorem insertValues_cons (idx : Index) (s : Nat) (k : Key) (ks : List Key) :
    idx.insertValues s (k :: ks) =
      ({ values := kvInsert idx.values k s, bySeqn := idx.bySeqn ++ [(s, k)] } : Index).insertValues s ks := rfl

theorem insertValues_bySeqn (idx : Index) (s : Nat) (ks : List Key) :
    (idx.insertValues s ks).bySeqn = idx.bySeqn ++ ks.map (fun k => (s, k)) := by
  induction ks generalizing idx with
  | nil => simp [Index.insertValues]
  | cons k ks ih => rw [insertValues_cons, ih]; simp

theorem insertValues_sorted (idx : Index) (hs : KSorted idx.values) (s : Nat) (ks : List Key) :
    KSorted (idx.insertValues s ks).values := by
  induction ks generalizing idx with
  | nil => exact hs
  | cons k ks ih => rw [insertValues_cons]; exact ih _ (kvInsert_sorted hs k s)

theorem insertValues_get (idx : Index) (s : Nat) (ks : List Key) (k : Key) :
    kvGet (idx.insertValues s ks).values k = if k ∈ ks then some s else kvGet idx.values k := by
  induction ks generalizing idx with
  | nil => simp [Index.insertValues]
  | cons k0 ks ih =>
    rw [insertValues_cons, ih]
    by_cases h1 : k ∈ ks
    · simp [h1]
    · by_cases h2 : k = k0
      · subst h2; simp [h1, kvGet_kvInsert_self]
      · simp [h1, h2, kvGet_kvInsert_other _ k0 k s h2]

theorem asc_map_const (s : Nat) (ks : List Key) : Asc (ks.map (fun k => (s, k))) := by
  induction ks with
  | nil => exact List.Pairwise.nil
  | cons k ks ih =>
    simp only [List.map_cons]
    refine List.pairwise_cons.2 ⟨fun e he => ?_, ih⟩
    obtain ⟨_, _, rfl⟩ := List.mem_map.1 he
    exact Nat.le_refl _

/-- inserting with a sequence number not below anything in the log keeps the index well-formed -/
theorem insertValues_wf {idx : Index} (wf : idx.WF) (s : Nat) (hle : ∀ e ∈ idx.bySeqn, e.1 ≤ s) (ks : List Key) :
    (idx.insertValues s ks).WF := by
  refine ⟨insertValues_sorted idx wf.sorted s ks, ?_, ?_⟩
  · rw [insertValues_bySeqn]
    unfold Asc
    rw [List.pairwise_append]
    refine ⟨wf.asc, ?_, ?_⟩
    · exact asc_map_const s ks
    · intro a ha b hb
      obtain ⟨k, _, rfl⟩ := List.mem_map.1 hb
      exact hle a ha
  · intro k g hg
    rw [insertValues_get] at hg
    rw [insertValues_bySeqn, List.mem_append]
    by_cases hk : k ∈ ks
    · rw [if_pos hk] at hg
      cases hg
      exact .inr (List.mem_map.2 ⟨k, hk, rfl⟩)
    · rw [if_neg hk] at hg
      exact .inl (wf.backed k g hg)

theorem insertValues_le {idx : Index} (s : Nat) (hle : ∀ e ∈ idx.bySeqn, e.1 ≤ s) (ks : List Key) :
    ∀ e ∈ (idx.insertValues s ks).bySeqn, e.1 ≤ s := by
  intro e he
  rw [insertValues_bySeqn, List.mem_append] at he
  rcases he with he | he
  · exact hle e he
  · obtain ⟨k, _, rfl⟩ := List.mem_map.1 he
    exact Nat.le_refl _

end Nomt.Ovl
